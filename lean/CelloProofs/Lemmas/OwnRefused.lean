/-
  CelloProofs/Lemmas/OwnRefused.lean — C05: an operation that raises constructs nothing, finalises nothing and leaves
  every container as it was.
-/
import CelloProofs.Lemmas.OwnHist
set_option linter.unusedVariables false
set_option linter.unusedSimpArgs false
set_option linter.unusedTactic false
namespace Cello.Own
open List

/-- a container-level result that "did nothing" -/
def Res.inert {α : Type} (r : Res α) (x : α) : Prop := r.val = x ∧ r.issued = [] ∧ r.retired = [] ∧ r.updated = []

theorem inert_arrayPushAt (next xs i p) (h : (arrayPushAt next xs i p).out ≠ .ok) : (arrayPushAt next xs i p).inert xs := by
  simp only [arrayPushAt] at h ⊢
  generalize (if i < 0 then (xs.length : Int) + 1 + i else i) = j at h ⊢
  by_cases hb : j < 0 ∨ j > (xs.length : Int) <;> simp_all [Res.inert]
theorem inert_listPushAt (next xs i p) (h : (listPushAt next xs i p).out ≠ .ok) : (listPushAt next xs i p).inert xs := by
  simp only [listPushAt] at h ⊢
  by_cases hi : i = 0
  · simp [hi] at h
  · simp only [hi, if_false] at h ⊢
    generalize (if i < 0 then (xs.length : Int) + i else i) = j at h ⊢
    by_cases hb : j < 0 ∨ j ≥ (xs.length : Int) <;> simp_all [Res.inert]
theorem inert_seqPop (xs) (h : (seqPop xs).out ≠ .ok) : (seqPop xs).inert xs := by
  unfold seqPop at h ⊢; split <;> simp_all [Res.inert]
theorem inert_seqPopAt (xs i) (h : (seqPopAt xs i).out ≠ .ok) : (seqPopAt xs i).inert xs := by
  simp only [seqPopAt] at h ⊢
  generalize (if i < 0 then (xs.length : Int) + i else i) = j at h ⊢
  by_cases hb : j < 0 ∨ j ≥ (xs.length : Int)
  · simp_all [Res.inert]
  · simp only [hb, if_false] at h ⊢
    split <;> simp_all [Res.inert]
theorem inert_seqSetProbe (next xs i p) (h : (seqSetProbe next xs i p).out ≠ .ok) : (seqSetProbe next xs i p).inert xs := by
  simp only [seqSetProbe] at h ⊢
  generalize (if i < 0 then (xs.length : Int) + i else i) = j at h ⊢
  by_cases hb : j < 0 ∨ j ≥ (xs.length : Int)
  · simp_all [Res.inert]
  · simp only [hb, if_false] at h ⊢
    split <;> simp_all [Res.inert]
theorem inert_seqRem (xs p) (h : (seqRem xs p).out ≠ .ok) : (seqRem xs p).inert xs := by
  unfold seqRem at h ⊢; split <;> simp_all [Res.inert]
theorem inert_mapRem (kvs k) (h : (mapRem kvs k).out ≠ .ok) : (mapRem kvs k).inert kvs := by
  unfold mapRem at h ⊢; split <;> simp_all [Res.inert]
theorem inert_mapResize (mk kvs n) (h : (mapResize mk kvs n).out ≠ .ok) : (mapResize mk kvs n).inert kvs := by
  unfold mapResize at h ⊢; split <;> (try split) <;> (try split) <;> simp_all [Res.inert, mapClear]

/-- the world-level meaning of "nothing happened" -/
def Untouched (w : World) (res : World × Obs) : Prop :=
  res.2.issued = [] ∧ res.2.retired = [] ∧ res.2.updated = [] ∧ ∀ e, lookup res.1.objs e = lookup w.objs e

theorem untouched_seq {w : World} {c : Nat} {k : SeqKind} {ek : ElemKind} {xs : List Tok} (r : Res (List Tok))
    (t : List Nat) (wb : Bool) (hl : lookup w.objs c = some (.seq k ek xs))
    (hi : r.out ≠ .ok → r.inert xs) (hr : (commitSeq w c k ek r t wb).2.out ≠ .ok) :
    Untouched w (commitSeq w c k ek r t wb) := by
  have hro : r.out ≠ .ok := by simpa [commitSeq, commit, Res.unit] using hr
  obtain ⟨h1, h2, h3, h4⟩ := hi hro
  refine ⟨by simp [commitSeq, commit, Res.unit, h2], by simp [commitSeq, commit, Res.unit, h3, dedupIds],
    by simp [commitSeq, commit, Res.unit, h4], fun e => ?_⟩
  simp only [commitSeq, commit_objs, objsAfter, lookup_store, h1]
  split
  · rename_i he; rw [he, hl]
  · rfl

theorem untouched_map {w : World} {c : Nat} {k : MapKind} {kvs : List KV} (r : Res (List KV))
    (t : List Nat) (hl : lookup w.objs c = some (.map k kvs))
    (hi : r.out ≠ .ok → r.inert kvs) (hr : (commitMap w c k r t).2.out ≠ .ok) :
    Untouched w (commitMap w c k r t) := by
  have hro : r.out ≠ .ok := by simpa [commitMap, commit, Res.unit] using hr
  obtain ⟨h1, h2, h3, h4⟩ := hi hro
  refine ⟨by simp [commitMap, commit, Res.unit, h2], by simp [commitMap, commit, Res.unit, h3],
    by simp [commitMap, commit, Res.unit, h4], fun e => ?_⟩
  simp only [commitMap, commit_objs, objsAfter, lookup_store, h1]
  split
  · rename_i he; rw [he, hl]
  · rfl

theorem ok_absurd {α : Type} {r : Res α} {x : α} (h : r.out = .ok) : r.out ≠ .ok → r.inert x := fun h' => absurd h h'

theorem inert_arrayPushAtTok (xs i t) (h : (arrayPushAtTok xs i t).out ≠ .ok) : (arrayPushAtTok xs i t).inert xs := by
  simp only [arrayPushAtTok] at h ⊢
  generalize (if i < 0 then (xs.length : Int) + 1 + i else i) = j at h ⊢
  by_cases hb : j < 0 ∨ j > (xs.length : Int) <;> simp_all [Res.inert]

theorem inert_listPushAtTok (xs i t) (h : (listPushAtTok xs i t).out ≠ .ok) : (listPushAtTok xs i t).inert xs := by
  simp only [listPushAtTok] at h ⊢
  by_cases hi : i = 0
  · simp [hi] at h
  · simp only [hi, if_false] at h ⊢
    generalize (if i < 0 then (xs.length : Int) + i else i) = j at h ⊢
    by_cases hb : j < 0 ∨ j ≥ (xs.length : Int) <;> simp_all [Res.inert]

/-- a refused insertion of a Box argument: the pointee constructed for the call is the only thing constructed, nothing
    but it is finalised (the caller deletes it), no container changes -/
def BoxArgRefused (w : World) (res : World × Obs) : Prop :=
  (∃ t, res.2.issued = [t] ∧ ∀ u ∈ res.2.retired, u = t) ∧ res.2.updated = [] ∧
    ∀ e, lookup res.1.objs e = lookup w.objs e

theorem mem_dedupIds {l : List Tok} {u : Tok} (h : u ∈ dedupIds l) : u ∈ l := by
  induction l with
  | nil => simp [dedupIds] at h
  | cons t ts ih =>
    simp only [dedupIds, List.mem_cons] at h ⊢
    rcases h with h | h
    · exact Or.inl h
    · exact Or.inr (ih (List.mem_filter.mp h).1)

theorem boxArg_seq {w : World} {c : Nat} {k : SeqKind} {xs : List Tok} (p : Nat) (f : Tok → Res (List Tok))
    (tl : List Nat) (hl : lookup w.objs c = some (.seq k .box xs))
    (hi : (f ⟨w.next, p⟩).out ≠ .ok → (f ⟨w.next, p⟩).inert xs)
    (hr : (commitSeq w c k .box (withPointee w.next p f) tl).2.out ≠ .ok) :
    BoxArgRefused w (commitSeq w c k .box (withPointee w.next p f) tl) := by
  have hro : (f ⟨w.next, p⟩).out ≠ .ok := by
    intro h; apply hr
    simp only [commitSeq, commit, Res.unit, withPointee, h]
  obtain ⟨h1, h2, h3, h4⟩ := hi hro
  cases ho : (f ⟨w.next, p⟩).out with
  | ok => exact absurd ho hro
  | raised e =>
    refine ⟨⟨⟨w.next, p⟩, ?_, ?_⟩, ?_, fun e' => ?_⟩
    · simp [commitSeq, commit, Res.unit, withPointee, ho, h2]
    · intro u hu
      simp only [commitSeq, commit, Res.unit, withPointee, ho, h3, List.nil_append, beq_self_eq_true, Bool.true_or,
        if_true] at hu
      have := (List.mem_filter.mp (mem_dedupIds hu)).1
      simpa using this
    · simp [commitSeq, commit, Res.unit, withPointee, ho, h4]
    · simp only [commitSeq, commit_objs, objsAfter, lookup_store, withPointee, ho, h1]
      split
      · rename_i he; rw [he, hl]
      · rfl

theorem inert_refused {α : Type} (x : α) (e : Exc) : (refused x e).inert x := ⟨rfl, rfl, rfl, rfl⟩

/-- a constructor call (`new(T, …, args)`) with a wrong-typed initial element / key / value -/
def Op.isTypedCtor : Op → Bool
  | .typed _ (.newSeq _ _) => true
  | .typed _ (.newMap _ _) => true
  | _ => false

/-- a refused constructor: no name is bound, no container changes, and the identities finalised (when the half-built
    object is reclaimed) are exactly the identities it constructed -/
def CtorRefused (w : World) (res : World × Obs) : Prop :=
  ids res.2.retired ~ ids res.2.issued ∧ ∀ e, lookup res.1.objs e = lookup w.objs e

theorem ctorRefused_commit {w : World} {c : Nat} (r : Res Unit) (tl : List Nat) (hnone : lookup w.objs c = none)
    (hc : Conserves [] [] r.issued r.retired) : CtorRefused w (commit w c false none r tl) := by
  refine ⟨?_, fun e => ?_⟩
  · simpa [commit, Conserves] using hc
  · rw [commit_objs]; simp only [objsAfter, erase_of_lookup_none hnone]

/-- the one in-contract call that raises and HAS changed its receiver: `assign(List, non-empty Table / Tree)`.
    `List_Assign` cleared the list — its old elements, and nothing else, were finalised (all of them when the list held
    probe elements; for a List of Box the pointees not finalised before), nothing was constructed or assigned in place —,
    then `get(obj, $I(0))` raised ValueError before anything was pushed: the list is empty, every other container is the
    value it was. -/
def ListClearedRefused (w : World) (op : Op) (res : World × Obs) : Prop :=
  ∃ c d ek xs, op = .assign c d ∧ listCrossCleared w c d = true ∧ lookup w.objs c = some (.seq .list ek xs) ∧
    res.2.out = .raised .valueError ∧ res.2.issued = [] ∧ res.2.updated = [] ∧
    (∀ u ∈ res.2.retired, u ∈ xs) ∧ (ek = .probe → res.2.retired = xs) ∧
    lookup res.1.objs c = some (.seq .list .probe []) ∧ ∀ e, e ≠ c → lookup res.1.objs e = lookup w.objs e

/-- a refused in-contract operation constructs nothing, finalises nothing, assigns nothing and leaves every container
    as it was — except that a refused insertion of a Box argument made (and the caller deleted) the pointee, a refused
    constructor finalised again what it had constructed, and a List assigned from a non-empty Table / Tree was cleared -/
theorem step_refused {w : World} (hpos : 0 < w.next) (op : Op) (hin : noKnownFinding w op = true)
    (hr : (step w op).2.out ≠ .ok) :
    Untouched w (step w op) ∨ (srcIsBox w op.target = true ∧ BoxArgRefused w (step w op)) ∨
      (op.isTypedCtor = true ∧ CtorRefused w (step w op)) ∨ ListClearedRefused w op (step w op) := by
  cases op with
  | typed c t =>
    simp only [step] at hr ⊢
    cases t with
    | push wk =>
      simp only [stepTyped] at hr ⊢
      split at hr
      · rename_i xs hl; simp [noKnownFinding, typedAtomic, hl] at hin
      · rename_i xs hl; (try simp only [hl]); exact Or.inl <| untouched_seq _ _ _ hl (fun _ => inert_refused _ _) hr
      · simp [badOp] at hr
    | pushAt i wk =>
      simp only [stepTyped] at hr ⊢
      split at hr
      · rename_i xs hl
        have h1 : arrayPushAtWrong xs i = refused xs .indexOutOfBounds :=
          arrayPushAtWrong_oob (by simpa [noKnownFinding, typedAtomic, hl] using hin)
        (try simp only [hl])
        exact Or.inl <| untouched_seq _ _ _ hl (fun _ => by rw [h1]; exact inert_refused _ _) hr
      · rename_i xs hl
        obtain ⟨e, he⟩ := listPushAtWrong_spec xs i
        (try simp only [hl])
        exact Or.inl <| untouched_seq _ _ _ hl (fun _ => by rw [he]; exact inert_refused _ _) hr
      · simp [badOp] at hr
    | set i wk =>
      simp only [stepTyped] at hr ⊢
      split at hr
      · rename_i k xs hl
        obtain ⟨e, he⟩ := seqSetWrong_spec xs i
        (try simp only [hl])
        exact Or.inl <| untouched_seq _ _ _ hl (fun _ => by rw [he]; exact inert_refused _ _) hr
      · simp [badOp] at hr
    | rem wk =>
      simp only [stepTyped] at hr ⊢
      split at hr
      · rename_i k xs hl; (try simp only [hl]); exact Or.inl <| untouched_seq _ _ _ hl (fun _ => inert_refused _ _) hr
      · simp [badOp] at hr
    | concat args =>
      simp only [stepTyped] at hr ⊢
      split at hr
      · rename_i xs hl
        have hg : allGood args = true := by simpa [noKnownFinding, typedAtomic, hl] using hin
        (try simp only [hl])
        exact Or.inl <| untouched_seq _ _ _ hl (ok_absurd (cons_arrayConcatArgs_good w.next xs args hg).2.2) hr
      · rename_i xs hl
        have hg : allGood args = true ∨ (goodPrefix args).1.isEmpty = true := by
          simpa [noKnownFinding, typedAtomic, hl] using hin
        (try simp only [hl])
        refine Or.inl <| untouched_seq _ _ _ hl (fun hro => ?_) hr
        rcases hg with hg | hg
        · exact absurd (listConcatArgs_good_ok w.next xs args hg) hro
        · rw [listConcatArgs_first_wrong w.next xs args hg hro]; exact inert_refused _ _
      · simp [badOp] at hr
    | mset k v =>
      simp only [stepTyped] at hr ⊢
      split at hr
      · rename_i mk kvs hl
        (try simp only [hl])
        refine Or.inl <| untouched_map _ _ hl (fun hro => ?_) hr
        by_cases hg : ∃ a b, k = .pay a ∧ v = .pay b
        · obtain ⟨a, b, rfl, rfl⟩ := hg
          exfalso; apply hro
          rw [mapSetArgs_good]
          cases mk <;> simp only [mapSet, tableSet, treeSet] <;> split <;> rfl
        · rw [mapSetArgs_refused hg]; exact inert_refused _ _
      · simp [badOp] at hr
    | mrem wk =>
      simp only [stepTyped] at hr ⊢
      split at hr
      · rename_i mk kvs hl; (try simp only [hl]); exact Or.inl <| untouched_map _ _ hl (fun _ => inert_refused _ _) hr
      · simp [badOp] at hr
    | newSeq k args =>
      simp only [stepTyped] at hr ⊢
      split at hr
      · simp [badOp] at hr
      · rename_i hfree
        have hnone : lookup w.objs c = none := by
          rcases hl : lookup w.objs c with _ | x
          · rfl
          · exfalso; apply hfree; right; simp [hl]
        split at hr
        · simp [commitSeq, commit, Res.unit] at hr
        · rename_i hng
          cases k with
          | array => simp [noKnownFinding, typedAtomic, hng] at hin
          | list =>
            simp only [hfree, hng, if_false]
            exact Or.inr <| Or.inr <| Or.inl ⟨rfl, ctorRefused_commit _ _ hnone (cons_listNewRefused w.next args).1⟩
    | newMap k args =>
      simp only [stepTyped] at hr ⊢
      split at hr
      · simp [badOp] at hr
      · rename_i hfree
        have hnone : lookup w.objs c = none := by
          rcases hl : lookup w.objs c with _ | x
          · rfl
          · exfalso; apply hfree; right; simp [hl]
        split at hr
        · exfalso; apply hr
          simp only [commitMap, commit, Res.unit]
          generalize w.next = n
          generalize ([] : List KV) = acc
          generalize (goodPairs args).1 = kvs
          induction kvs generalizing n acc with
          | nil => rfl
          | cons kv kvs ih => obtain ⟨a, b⟩ := kv; simp only [mapSetMany]
        · rename_i hng
          simp only [hfree, hng, if_false]
          exact Or.inr <| Or.inr <| Or.inl ⟨rfl, ctorRefused_commit _ _ hnone (cons_mapNewRefused k w.next args hpos).1⟩
  | new c k => simp only [step] at hr ⊢; split at hr <;> simp [badOp, commit] at hr
  | newSeq c k ps => simp only [step] at hr ⊢; split at hr <;> simp [badOp, commitSeq, commit, Res.unit] at hr
  | newMap c k kvs =>
    simp only [step] at hr ⊢
    split at hr
    · simp [badOp] at hr
    · exfalso; apply hr
      simp only [commitMap, commit, Res.unit]
      generalize w.next = n
      generalize ([] : List KV) = acc
      induction kvs generalizing n acc with
      | nil => rfl
      | cons kv kvs ih => obtain ⟨a, b⟩ := kv; simp only [mapSetMany]
  | box c p => simp only [step] at hr ⊢; split at hr <;> simp [badOp, commit] at hr
  | push c p =>
    simp only [step] at hr ⊢
    split at hr
    · rename_i k xs hl; (try simp only [hl]); exact Or.inl <| untouched_seq _ _ _ hl (ok_absurd rfl) hr
    · rename_i k xs hl; (try simp only [hl]); exact Or.inl <| untouched_seq _ _ _ hl (ok_absurd rfl) hr
    · simp [badOp] at hr
  | pushAt c i p =>
    simp only [step] at hr ⊢
    split at hr
    · rename_i xs hl; (try simp only [hl]); exact Or.inl <| untouched_seq _ _ _ hl (inert_arrayPushAt _ _ _ _) hr
    · rename_i xs hl; (try simp only [hl]); exact Or.inl <| untouched_seq _ _ _ hl (inert_listPushAt _ _ _ _) hr
    · rename_i xs hl
      exact Or.inr <| Or.inl ⟨by simp [srcIsBox, Op.target, hl, Cont.isBox], boxArg_seq p _ _ hl (inert_arrayPushAtTok _ _ _) hr⟩
    · rename_i xs hl
      exact Or.inr <| Or.inl ⟨by simp [srcIsBox, Op.target, hl, Cont.isBox], boxArg_seq p _ _ hl (inert_listPushAtTok _ _ _) hr⟩
    · simp [badOp] at hr
  | pop c =>
    simp only [step] at hr ⊢
    split at hr
    · rename_i k ek xs hl; (try simp only [hl]); exact Or.inl <| untouched_seq _ _ _ hl (inert_seqPop _) hr
    · simp [badOp] at hr
  | popAt c i =>
    simp only [step] at hr ⊢
    split at hr
    · rename_i k ek xs hl; (try simp only [hl]); exact Or.inl <| untouched_seq _ _ _ hl (inert_seqPopAt _ _) hr
    · simp [badOp] at hr
  | set c i p =>
    simp only [step] at hr ⊢
    split at hr
    · rename_i k xs hl; (try simp only [hl]); exact Or.inl <| untouched_seq _ _ _ hl (inert_seqSetProbe _ _ _ _) hr
    · rename_i k xs hl; simp [noKnownFinding, hl] at hin
    · simp [badOp] at hr
  | rem c p =>
    simp only [step] at hr ⊢
    split at hr
    · rename_i k xs hl; (try simp only [hl]); exact Or.inl <| untouched_seq _ _ _ hl (inert_seqRem _ _) hr
    · simp [badOp] at hr
  | resize c n =>
    simp only [step] at hr ⊢
    split at hr
    · rename_i ek xs hl; (try simp only [hl])
      exact Or.inl <| untouched_seq _ _ _ hl (ok_absurd (by unfold arrayResize seqClear; split <;> rfl)) hr
    · rename_i ek xs hl; (try simp only [hl])
      exact Or.inl <| untouched_seq _ _ _ hl (ok_absurd (by unfold listResize seqClear; split <;> (try split) <;> rfl)) hr
    · rename_i k kvs hl; (try simp only [hl]); exact Or.inl <| untouched_map _ _ hl (inert_mapResize _ _ _) hr
    · simp [badOp] at hr
  | sort c =>
    simp only [step] at hr ⊢
    split at hr
    · rename_i xs hl; (try simp only [hl]); exact Or.inl <| untouched_seq _ _ _ hl (ok_absurd rfl) hr
    · simp [badOp] at hr
  | concat c d =>
    simp only [step] at hr ⊢
    split at hr
    · simp [badOp] at hr
    · split at hr <;> simp [badOp, commitSeq, commit, Res.unit, seqConcatProbe, seqConcatBox] at hr
  | assign c d =>
    simp only [step] at hr ⊢
    split at hr
    · split at hr <;> simp [badOp, commit] at hr
    · rename_i hcd
      split at hr
      · simp [commitSeq, commit, Res.unit, seqAssignProbe] at hr
      · simp [commitSeq, commit, Res.unit, seqAssignBox] at hr
      · simp [commitMap, commit, Res.unit, mapAssign] at hr
      · rename_i k ek xs mk src hl hd
        cases k with
        | array =>
          exfalso; apply hr
          have hsrc : src = [] := by
            simp [noKnownFinding, srcIsBox, crossRefused, hl, hd, Cont.isBox, hcd] at hin; exact hin
          subst hsrc
          simp [commitSeq, commit, Res.unit, seqAssignFromMap]
        | list =>
          have hne : src.length ≠ 0 := by
            intro h0; apply hr; simp [commitSeq, commit, Res.unit, seqAssignFromMap, h0]
          have hne' : src ≠ [] := fun h => hne (by simp [h])
          refine Or.inr <| Or.inr <| Or.inr ⟨c, d, ek, xs, rfl, ?_, hl, ?_, ?_, ?_, ?_, ?_, ?_, ?_⟩
          · simp [listCrossCleared, hl, hd, hne']
          · simp [hl, hd, hcd, commitSeq, commit, Res.unit, seqAssignFromMap, hne]
          · simp [hl, hd, hcd, commitSeq, commit, Res.unit, seqAssignFromMap, hne]
          · simp [hl, hd, hcd, commitSeq, commit, Res.unit, seqAssignFromMap, hne]
          · intro u hu
            simp only [hl, hd, hcd, if_false, commitSeq, commit, Res.unit, seqAssignFromMap, hne] at hu
            split at hu
            · exact (List.mem_filter.mp (mem_dedupIds hu)).1
            · exact hu
          · intro hek; subst hek
            simp [hl, hd, hcd, commitSeq, commit, Res.unit, seqAssignFromMap, hne]
          · simp only [hl, hd, hcd, if_false, commitSeq, commit_objs, seqAssignFromMap, hne]
            exact lookup_objsAfter_self _ _ _
          · intro e he
            simp only [hl, hd, hcd, if_false, commitSeq]
            exact commit_frame _ _ _ _ _ _ he
      · simp [badOp] at hr
  | copy c d =>
    simp only [step] at hr ⊢
    split at hr
    · simp [badOp] at hr
    · split at hr <;> simp [badOp, commitSeq, commitMap, commit, Res.unit, seqAssignProbe, seqAssignBox, mapAssign] at hr
  | mset c k v =>
    simp only [step] at hr ⊢
    split at hr
    · rename_i mk kvs hl; (try simp only [hl])
      exact Or.inl <| untouched_map _ _ hl (ok_absurd (by
        cases mk <;> simp only [mapSet, tableSet, treeSet] <;> split <;> rfl)) hr
    · simp [badOp] at hr
  | mrem c k =>
    simp only [step] at hr ⊢
    split at hr
    · rename_i mk kvs hl; (try simp only [hl]); exact Or.inl <| untouched_map _ _ hl (inert_mapRem _ _) hr
    · simp [badOp] at hr
  | del c => simp only [step] at hr ⊢; split at hr <;> simp [badOp, commit] at hr
  | bassign c d => simp [noKnownFinding] at hin
  | bref c p => simp [noKnownFinding] at hin
  | read c => simp only [step] at hr ⊢; split at hr <;> simp [badOp, commit] at hr

/-! ### calls with a wrong-typed argument are never accepted -/

/-- the call carries a wrong-typed element / key / value -/
def TCall.hasWrong : TCall → Bool
  | .push _ => true | .pushAt _ _ => true | .set _ _ => true | .rem _ => true | .mrem _ => true
  | .concat args => !allGood args
  | .mset (.pay _) (.pay _) => false
  | .mset _ _ => true
  | .newSeq _ args => !allGood args
  | .newMap _ args => !(goodPairs args).2

def TCall.isCtor : TCall → Bool
  | .newSeq _ _ => true
  | .newMap _ _ => true
  | _ => false

theorem commitSeq_out (w : World) (c : Nat) (k : SeqKind) (ek : ElemKind) (r : Res (List Tok)) (tl : List Nat) (wb : Bool) :
    (commitSeq w c k ek r tl wb).2.out = r.out := rfl
theorem commitMap_out (w : World) (c : Nat) (k : MapKind) (r : Res (List KV)) (tl : List Nat) :
    (commitMap w c k r tl).2.out = r.out := rfl
theorem commit_out (w : World) (c : Nat) (b : Bool) (cont : Option Cont) (r : Res Unit) (tl : List Nat) :
    (commit w c b cont r tl).2.out = r.out := rfl

/-- an executed call with a wrong-typed argument raises — whatever the receiver holds, in or out of the atomic territory -/
theorem typed_wrong_refused {w : World} {c : Nat} {t : TCall} (hw : t.hasWrong = true)
    (hb : (step w (.typed c t)).2.bad = false) : (step w (.typed c t)).2.out ≠ .ok := by
  simp only [step] at hb ⊢
  cases t with
  | push wk => simp only [stepTyped] at hb ⊢; split <;> simp_all [commitSeq_out, arrayPushWrong, listPushWrong, refused, badOp]
  | pushAt i wk =>
    simp only [stepTyped] at hb ⊢
    split
    · rw [commitSeq_out]
      simp only [arrayPushAtWrong]
      generalize (if i < 0 then ((_ : List Tok).length : Int) + 1 + i else i) = j
      split <;> simp [refused]
    · rw [commitSeq_out]
      obtain ⟨e, he⟩ := listPushAtWrong_spec ‹_› i
      rw [he]; simp [refused]
    · simp [badOp] at hb
  | set i wk =>
    simp only [stepTyped] at hb ⊢
    split
    · rw [commitSeq_out]
      obtain ⟨e, he⟩ := seqSetWrong_spec ‹_› i
      rw [he]; simp [refused]
    · simp [badOp] at hb
  | rem wk => simp only [stepTyped] at hb ⊢; split <;> simp_all [commitSeq_out, seqRemWrong, refused, badOp]
  | mrem wk => simp only [stepTyped] at hb ⊢; split <;> simp_all [commitMap_out, mapRemWrong, refused, badOp]
  | concat args =>
    have hs : ∃ n, (goodPrefix args).2 = some n := by
      simp only [TCall.hasWrong, allGood, Bool.not_eq_true', Option.isNone_eq_false_iff] at hw
      exact Option.isSome_iff_exists.mp hw
    obtain ⟨n, hn⟩ := hs
    simp only [stepTyped] at hb ⊢
    split
    · rw [commitSeq_out]; simp [arrayConcatArgs, hn]
    · rw [commitSeq_out]; simp [listConcatArgs, hn]
    · simp [badOp] at hb
  | mset k v =>
    simp only [stepTyped] at hb ⊢
    split
    · rw [commitMap_out]
      have hg : ¬ ∃ a b, k = .pay a ∧ v = .pay b := by
        rintro ⟨a, b, rfl, rfl⟩; simp [TCall.hasWrong] at hw
      rw [mapSetArgs_refused hg]; simp [refused]
    · simp [badOp] at hb
  | newSeq k args =>
    have hg : allGood args = false := by simpa [TCall.hasWrong] using hw
    simp only [stepTyped, hg] at hb ⊢
    split
    · simp_all [badOp]
    · cases k <;> simp [commit_out, listNewRefused, arrayNewRefused]
  | newMap k args =>
    have hg : (goodPairs args).2 = false := by simpa [TCall.hasWrong] using hw
    simp only [stepTyped, hg] at hb ⊢
    split
    · simp_all [badOp]
    · simp [commit_out, mapNewRefused]

/-- …and its receiver is not a container of Box (those take any object: the typed calls are not applicable, `bad`) -/
theorem typed_not_box {w : World} {c : Nat} {t : TCall} (hb : (step w (.typed c t)).2.bad = false) :
    ¬ srcIsBox w (Op.typed c t).target = true := by
  simp only [step] at hb
  simp only [Op.target, srcIsBox]
  cases t <;> simp only [stepTyped] at hb <;> split at hb <;>
    first
      | (simp [badOp] at hb; done)
      | (rename_i hl; simp [hl, Cont.isBox]; done)
      | (rename_i hfree
         have hnone : lookup w.objs c = none := by
           rcases hl : lookup w.objs c with _ | x
           · rfl
           · exfalso; apply hfree; right; simp [hl]
         simp [hnone])

end Cello.Own

namespace Cello.Own
open List

/-! ### the non-atomic territory is exact: outside `typedAtomic` a type-refused call does leave something behind -/

/-- "nothing happened" for an executed call with a wrong-typed argument: every container is the value it was, and either
    nothing was constructed or finalised, or (a constructor) the finalised identities are exactly the constructed ones -/
def TypedNoEffect (w : World) (t : TCall) (res : World × Obs) : Prop :=
  (∀ e, lookup res.1.objs e = lookup w.objs e) ∧
  ((res.2.issued = [] ∧ res.2.retired = []) ∨ (t.isCtor = true ∧ ids res.2.retired ~ ids res.2.issued))

theorem commitSeq_lookup_self (w : World) (c : Nat) (k : SeqKind) (ek : ElemKind) (r : Res (List Tok)) (tl : List Nat) (wb : Bool) :
    lookup (commitSeq w c k ek r tl wb).1.objs c = some (.seq k ek r.val) := by
  simp only [commitSeq, commit_objs]; exact lookup_objsAfter_self _ _ _

theorem seq_changed {w : World} {c : Nat} {k : SeqKind} {ek : ElemKind} {xs : List Tok} {r : Res (List Tok)} {tl : List Nat}
    {wb : Bool} (hl : lookup w.objs c = some (.seq k ek xs)) (hlen : r.val.length ≠ xs.length) :
    ¬ ∀ e, lookup (commitSeq w c k ek r tl wb).1.objs e = lookup w.objs e := by
  intro h
  have := h c
  rw [commitSeq_lookup_self, hl] at this
  simp only [Option.some.injEq, Cont.seq.injEq, true_and] at this
  exact hlen (by rw [this])

/-- outside `typedAtomic`, an executed call with a wrong-typed argument changes its receiver, or constructs elements it
    does not finalise again although it is refused, or runs destructors on records it never constructed -/
theorem typed_not_atomic_effect {w : World} {c : Nat} {t : TCall} (hw : t.hasWrong = true)
    (hb : (step w (.typed c t)).2.bad = false) (hat : typedAtomic w c t = false) :
    ¬ TypedNoEffect w t (step w (.typed c t)) := by
  simp only [step] at hb ⊢
  cases t with
  | push wk =>
    simp only [stepTyped] at hb ⊢
    split
    · rename_i xs hl
      exact fun h => seq_changed hl (by simp [arrayPushWrong]) h.1
    · rename_i xs hl; simp [typedAtomic, hl] at hat
    · simp [badOp] at hb
  | pushAt i wk =>
    simp only [stepTyped] at hb ⊢
    split
    · rename_i xs hl
      refine fun h => seq_changed hl ?_ h.1
      simp only [typedAtomic, hl] at hat
      simp only [arrayPushAtWrong] at hat ⊢
      generalize (if i < 0 then (xs.length : Int) + 1 + i else i) = j at hat ⊢
      by_cases hbd : j < 0 ∨ j > (xs.length : Int)
      · simp [hbd, refused] at hat
      · simp only [hbd, if_false]
        have : j.toNat ≤ xs.length := by omega
        simp [List.length_insertIdx, this]
    · rename_i xs hl; simp [typedAtomic, hl] at hat
    · simp [badOp] at hb
  | set i wk => simp [typedAtomic] at hat
  | rem wk => simp [typedAtomic] at hat
  | mrem wk => simp [typedAtomic] at hat
  | mset k v => simp [typedAtomic] at hat
  | newMap k args => simp [typedAtomic] at hat
  | concat args =>
    have hs : ∃ n, (goodPrefix args).2 = some n := by
      simp only [TCall.hasWrong, allGood, Bool.not_eq_true', Option.isNone_eq_false_iff] at hw
      exact Option.isSome_iff_exists.mp hw
    obtain ⟨n, hn⟩ := hs
    simp only [stepTyped] at hb ⊢
    split
    · rename_i xs hl
      exact fun h => seq_changed hl (by simp [arrayConcatArgs, hn]) h.1
    · rename_i xs hl
      have hne : (goodPrefix args).1 ≠ [] := by
        simp only [typedAtomic, hl, Bool.or_eq_false_iff] at hat
        intro he; simp [he] at hat
      refine fun h => seq_changed hl ?_ h.1
      simp only [listConcatArgs, hn, List.length_append, length_mkFresh]
      have : 0 < (goodPrefix args).1.length := List.length_pos_iff.mpr hne
      omega
    · simp [badOp] at hb
  | newSeq k args =>
    have hg : allGood args = false := by simpa [TCall.hasWrong] using hw
    cases k with
    | list => simp [typedAtomic] at hat
    | array =>
      simp only [stepTyped, hg] at hb ⊢
      split
      · simp_all [badOp]
      · rintro ⟨_, h | ⟨_, h⟩⟩
        · have := h.2
          simp [commit, arrayNewRefused] at this
        · have := h.length_eq
          simp [commit, arrayNewRefused, ids] at this

end Cello.Own
