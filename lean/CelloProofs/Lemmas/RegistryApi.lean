/-
  CelloProofs/Lemmas/RegistryApi.lean — histories of PUBLIC calls (alloc / alloc_raw / alloc_root / new_with / … / copy / del /
  del_raw / del_root, on a type with or without its own Alloc instance) reduced to the operation histories of
  RegistryHistory.lean through the routing tables read from src/Alloc.c; what GC_Show lists against the ledger.
-/
import Cello.RegistryApi
import CelloProofs.Lemmas.RegistryHistory
set_option linter.unusedSectionVars false
set_option linter.unusedVariables false
namespace Cello.Registry
open RH

/-- what a program calls -/
inductive Call where
  /-- an allocating entry point `fn` of src/Alloc.c on a type with (`own`) / without an Alloc instance, yielding address `p`;
      `marks`: what the mark phase reaches should the allocation trigger a collection -/
  | alloc (fn : String) (own : Bool) (p : Nat) (marks : List Nat)
  /-- `del` / `del_raw` / `del_root` -/
  | del (fn : String) (p : Nat)
  | collect (marks : List Nat)
  | stop
  | start

/-- the registry operation a call amounts to, by the tables `rt` (`none`: the tables say something the model does not read) -/
def Call.toOp (rt : Routes) : Call → Option Op
  | .alloc fn own p marks =>
    match allocTells rt fn own with
    | some (some root) => some (.new p root marks)
    | some none => some (.newRaw p)
    | none => none
  | .del fn p =>
    match delTells rt fn with
    | some true => some (.del p)
    | some false => some (.delRaw p)
    | none => none
  | .collect marks => some (.sweep marks)
  | .stop => some .stop
  | .start => some .start

/-- states reached by histories of public calls -/
inductive ReachA (c : Cfg) (rt : Routes) : Reg → Ledger → Prop where
  | init : ReachA c rt Reg.init []
  | step {r : Reg} {L : Ledger} {call : Call} {op : Op} {r' : Reg} :
      ReachA c rt r L → call.toOp rt = some op → okOp L op → step c r op = some r' → ReachA c rt r' (ledgerStep r L op)

theorem reachA_reach (c : Cfg) (rt : Routes) (r : Reg) (L : Ledger) (h : ReachA c rt r L) : Reach c r L := by
  induction h with
  | init => exact Reach.init
  | step _ _ hok hs ih => exact Reach.step ih hok hs

/-! ### GC_Show -/

theorem mem_showRows (r : Reg) (i : Nat) (x : Option (Nat × Bool × Bool)) :
    (i, x) ∈ showRows r ↔ ∃ hi : i < r.n, x = (r.slots[i]).map (fun e => (e.key, e.val.root, e.val.marked)) := by
  unfold showRows
  simp only [List.mem_map, List.mem_range, Prod.mk.injEq]
  constructor
  · rintro ⟨j, hj, rfl, hx⟩
    refine ⟨hj, ?_⟩
    rw [dif_pos hj] at hx
    exact hx.symm
  · rintro ⟨hi, hx⟩
    exact ⟨i, hi, rfl, by rw [dif_pos hi]; exact hx.symm⟩

theorem showRows_length (r : Reg) : (showRows r).length = r.n := by
  unfold showRows; simp

/-- the occupied rows are the ledger's items, each with a blank mark column -/
theorem showRows_ledger (c : Cfg) (r : Reg) (L : Ledger)
    (hents : ∀ e, Mem r.slots e ↔ ((e.key, e.val.root) ∈ L ∧ e.val.marked = false ∧ e.home = hashOf c e.key % r.n))
    (p : Nat) (b m : Bool) :
    (∃ i, (i, some (p, b, m)) ∈ showRows r) ↔ ((p, b) ∈ L ∧ m = false) := by
  constructor
  · rintro ⟨i, hi⟩
    obtain ⟨hlt, hx⟩ := (mem_showRows r i _).1 hi
    cases hs : r.slots[i] with
    | none => rw [hs] at hx; simp at hx
    | some e =>
      rw [hs] at hx
      simp only [Option.map_some, Option.some.injEq, Prod.mk.injEq] at hx
      obtain ⟨h1, h2, h3⟩ := hx
      have := (hents e).1 ⟨i, hlt, hs⟩
      subst h1; subst h2; subst h3
      exact ⟨this.1, this.2.1⟩
  · rintro ⟨hL, rfl⟩
    obtain ⟨q, hq, hs⟩ := (hents ⟨p, hashOf c p % r.n, ⟨b, false⟩⟩).2 ⟨hL, rfl, rfl⟩
    exact ⟨q, (mem_showRows r q _).2 ⟨hq, by rw [hs]; rfl⟩⟩

/-- no address is listed on two rows -/
theorem showRows_once (hash : Nat → Nat) (r : Reg) (inv : Inv0 hash r.slots) (i j p : Nat) (b m b' m' : Bool)
    (hi : (i, some (p, b, m)) ∈ showRows r) (hj : (j, some (p, b', m')) ∈ showRows r) : i = j := by
  obtain ⟨hlt, hx⟩ := (mem_showRows r i _).1 hi
  obtain ⟨hlt', hx'⟩ := (mem_showRows r j _).1 hj
  cases hs : r.slots[i] with
  | none => rw [hs] at hx; simp at hx
  | some e =>
    cases hs' : r.slots[j] with
    | none => rw [hs'] at hx'; simp at hx'
    | some e' =>
      rw [hs] at hx; rw [hs'] at hx'
      simp only [Option.map_some, Option.some.injEq, Prod.mk.injEq] at hx hx'
      exact inv.distinct i j hlt hlt' e e' hs hs' (by rw [← hx.1, ← hx'.1])

end Cello.Registry
