/-
  Lemmas for C20 (engine `file`), the text side: what scan_from_with's integer branch delivers for what printf wrote, from the
  arms the translator extracts (CelloGen.FileScan) — for ANY description of the branch whose arms (i) are selected for the
  specifications of the width they store (`ArmsSelect`, decidable) and (ii) turn the stored object into C's conversion of the
  value (`ArmConverts`, a statement for every bit pattern) — and the same call on a File over the reference stdio.
  libc's two conversions are the models of Cello/Text.lean; `scanNumber_print` (Lemmas/TextInt.lean) is reused.
-/
import Cello.FileText
import CelloProofs.Lemmas.TextInt
import CelloProofs.Lemmas.File

namespace Cello.FileText

open Cello.Text (IMod IConv sext zext convInt intInWidth inInt64 pattOf printIntSpec scanNumber ispecSafe ispecFmt)
open CelloGen.FileScan (CTy WExpr Arm)

/-- what becomes of the value `t` of the object scanf stored into: the arm's expression assigned to `tmp`, then `$I(tmp)` -/
def finishFrom (S : Src) (arm : Arm) (sgn : Bool) (t : Int) : Int :=
  sext 64 (conv S.tmpTy (if arm.direct then t else evalW arm.obj sgn t arm.fin))

theorem finishInt_eq (S : Src) (arm : Arm) (w : Nat) (sgn : Bool) (p : Nat) :
    finishInt S arm w sgn p = finishFrom S arm sgn (stored arm.obj w p) := rfl

/-- **an arm converts**: whatever `w = arm.obj.bits`-bit pattern `q` libc stored into the object, the `Int` that results is that
    pattern read as a signed number for `d` / `i` (`sgn`), as an unsigned number otherwise — except that a 64-bit pattern is
    always delivered as the `int64_t` with those bits (an `Int` has no unsigned reading).  This is what "the value read is C's
    conversion to the type the specification names" asks of the arm. -/
def ArmConverts (S : Src) (arm : Arm) : Prop :=
  ∀ (sgn : Bool) (q : Nat), q < 2 ^ arm.obj.bits →
    finishFrom S arm sgn (conv arm.obj (q : Int)) = if sgn || arm.obj.bits == 64 then sext arm.obj.bits (q : Int) else (q : Int)

/-! ### a verified interval evaluator for the arms' expressions

  Over a range `lo ≤ q < hi` of stored patterns on which the value so far is `q + off`, a conversion to `ty` adds one constant
  (a multiple of `2^bits`) exactly when both ends of the range land in the type's range with the same constant; `castPiece`
  computes it with the executable `conv`, and the soundness lemma holds for every `q` of the range.  `armOK` runs the whole
  path object → expression → `tmp` → `$I` on the two halves of the pattern space and compares with what C's conversion of the
  value to the specification's type requires; it is a `Bool`, decided on the arms read from the source. -/

def inRange (ty : CTy) (r : Int) : Bool :=
  if ty.signed then decide (-(2 : Int) ^ (ty.bits - 1) ≤ r) && decide (r < (2 : Int) ^ (ty.bits - 1))
  else decide (0 ≤ r) && decide (r < (2 : Int) ^ ty.bits)

theorem two_pow_split (w : Nat) (hw : 1 ≤ w) : (2 : Int) ^ w = 2 * (2 : Int) ^ (w - 1) := by
  obtain ⟨k, rfl⟩ : ∃ k, w = k + 1 := ⟨w - 1, by omega⟩
  simp [Int.pow_succ, Int.mul_comm]

theorem emod_eq_of_congr (M v r : Int) (hm : (v - r) % M = 0) : v % M = r % M := by
  obtain ⟨k, hk⟩ := Int.dvd_of_emod_eq_zero hm
  have : v = r + M * k := by omega
  rw [this, Int.add_mul_emod_self_left]

/-- `conv ty v` is THE value of the type congruent to `v` modulo `2^bits` -/
theorem conv_eq_of (ty : CTy) (hb : 1 ≤ ty.bits) (v r : Int) (hr : inRange ty r = true)
    (hm : (v - r) % (2 : Int) ^ ty.bits = 0) : conv ty v = r := by
  have hmod := emod_eq_of_congr _ v r hm
  have hsplit := two_pow_split ty.bits hb
  have hpos : (0 : Int) < (2 : Int) ^ (ty.bits - 1) := Int.pow_pos (by omega)
  unfold inRange at hr
  unfold conv sext zext
  generalize (2 : Int) ^ ty.bits = M at *
  generalize (2 : Int) ^ (ty.bits - 1) = Hf at *
  cases hsg : ty.signed
  · simp only [hsg, Bool.false_eq_true, if_false, Bool.and_eq_true, decide_eq_true_eq] at hr ⊢
    rw [hmod]; exact Int.emod_eq_of_lt hr.1 hr.2
  · simp only [hsg, if_true, Bool.and_eq_true, decide_eq_true_eq] at hr ⊢
    rw [hmod]
    by_cases h0 : 0 ≤ r
    · have : r % M = r := Int.emod_eq_of_lt h0 (by omega)
      rw [this]; simp only [show r < Hf from hr.2, if_true]
    · have h1 : r % M = r + M := by
        have h2 : (r + M) % M = r + M := Int.emod_eq_of_lt (by omega) (by omega)
        have h3 : (r + M * 1) % M = r % M := Int.add_mul_emod_self_left r M 1
        rw [Int.mul_one] at h3
        rw [← h3, h2]
      rw [h1]
      have : ¬ (r + M < Hf) := by omega
      simp only [this, if_false]; omega

/-- the constant a conversion to `ty` adds on the piece `lo ≤ q < hi` where the value is `q + off` (`none`: not one constant) -/
def castPiece (ty : CTy) (lo hi off : Int) : Option Int :=
  let d := conv ty (lo + off) - (lo + off)
  if decide (1 ≤ ty.bits) && decide (d % (2 : Int) ^ ty.bits = 0) && inRange ty (lo + off + d) && inRange ty (hi - 1 + off + d)
  then some (off + d) else none

theorem inRange_between (ty : CTy) (a b x : Int) (ha : inRange ty a = true) (hb : inRange ty b = true) (h1 : a ≤ x) (h2 : x ≤ b) :
    inRange ty x = true := by
  unfold inRange at *
  generalize ty.signed = sg at *
  cases sg <;> simp only [Bool.false_eq_true, if_false, if_true, Bool.and_eq_true, decide_eq_true_eq] at * <;> omega

theorem castPiece_sound {ty : CTy} {lo hi off off' : Int} (h : castPiece ty lo hi off = some off') (q : Int)
    (hq : lo ≤ q ∧ q < hi) : conv ty (q + off) = q + off' := by
  unfold castPiece at h
  simp only at h
  split at h
  · rename_i hc
    simp only [Bool.and_eq_true, decide_eq_true_eq] at hc
    obtain ⟨⟨⟨hb, hd⟩, hlo⟩, hhi⟩ := hc
    have hoff : off' = off + (conv ty (lo + off) - (lo + off)) := by simpa using h.symm
    generalize conv ty (lo + off) - (lo + off) = d at *
    subst hoff
    have hr := inRange_between ty _ _ (q + off + d) hlo hhi (by omega) (by omega)
    have := conv_eq_of ty hb (q + off) (q + off + d) hr (by
      have : q + off - (q + off + d) = -d := by omega
      rw [this]
      exact Int.emod_eq_zero_of_dvd (Int.dvd_neg.mpr (Int.dvd_of_emod_eq_zero hd)))
    rw [this]; omega
  · exact absurd h (by simp)

/-- the constant the expression adds on a piece where the temporary holds `q + off0` -/
def absEval (obj : CTy) (sgn : Bool) (lo hi off0 : Int) : WExpr → Option Int
  | .t => some off0
  | .cast ty e => (absEval obj sgn lo hi off0 e).bind (castPiece ty lo hi)
  | .cond a b => (if sgn then absEval obj sgn lo hi off0 a else absEval obj sgn lo hi off0 b).bind
      (castPiece (tyOf obj (.cond a b)) lo hi)

theorem absEval_sound (obj : CTy) (sgn : Bool) (lo hi off0 : Int) (e : WExpr) (off' : Int)
    (h : absEval obj sgn lo hi off0 e = some off') (q : Int) (hq : lo ≤ q ∧ q < hi) :
    evalW obj sgn (q + off0) e = q + off' := by
  induction e generalizing off' with
  | t => simp only [absEval, Option.some.injEq] at h; subst h; rfl
  | cast ty e ih =>
    simp only [absEval] at h
    cases he : absEval obj sgn lo hi off0 e with
    | none => simp [he] at h
    | some c =>
      simp only [he, Option.bind_some] at h
      simp only [evalW, ih c he]
      exact castPiece_sound h q hq
  | cond a b iha ihb =>
    simp only [absEval] at h
    cases sgn with
    | true =>
      simp only [if_true] at h
      cases ha : absEval obj true lo hi off0 a with
      | none => simp [ha] at h
      | some c =>
        simp only [ha, Option.bind_some] at h
        simp only [evalW, if_true, iha c ha]
        exact castPiece_sound h q hq
    | false =>
      simp only [Bool.false_eq_true, if_false] at h
      cases hb : absEval obj false lo hi off0 b with
      | none => simp [hb] at h
      | some c =>
        simp only [hb, Option.bind_some] at h
        simp only [evalW, Bool.false_eq_true, if_false, ihb c hb]
        exact castPiece_sound h q hq

/-- the whole path on one piece: pattern → object → expression (or the object itself) → `tmp` → `$I`, ending with the constant `expect` -/
def pieceOK (S : Src) (arm : Arm) (sgn : Bool) (lo hi expect : Int) : Bool :=
  match castPiece arm.obj lo hi 0 with
  | none => false
  | some c0 =>
    match (if arm.direct then some c0 else absEval arm.obj sgn lo hi c0 arm.fin) with
    | none => false
    | some c1 =>
      match castPiece S.tmpTy lo hi c1 with
      | none => false
      | some c2 =>
        match castPiece ⟨true, 64⟩ lo hi c2 with
        | none => false
        | some c3 => c3 == expect

theorem pieceOK_sound (S : Src) (arm : Arm) (sgn : Bool) (lo hi expect : Int) (h : pieceOK S arm sgn lo hi expect = true)
    (q : Int) (hq : lo ≤ q ∧ q < hi) : finishFrom S arm sgn (conv arm.obj q) = q + expect := by
  unfold pieceOK at h
  cases h0 : castPiece arm.obj lo hi 0 with
  | none => simp [h0] at h
  | some c0 =>
    simp only [h0] at h
    have e0 : conv arm.obj q = q + c0 := by simpa using castPiece_sound h0 q hq
    cases h1 : (if arm.direct then some c0 else absEval arm.obj sgn lo hi c0 arm.fin) with
    | none => simp [h1] at h
    | some c1 =>
      simp only [h1] at h
      have e1 : (if arm.direct then conv arm.obj q else evalW arm.obj sgn (conv arm.obj q) arm.fin) = q + c1 := by
        cases hd : arm.direct
        · simp only [hd, Bool.false_eq_true, if_false] at h1 ⊢
          rw [e0]; exact absEval_sound _ _ _ _ _ _ _ h1 q hq
        · simp only [hd, if_true, Option.some.injEq] at h1 ⊢
          rw [e0, h1]
      cases h2 : castPiece S.tmpTy lo hi c1 with
      | none => simp [h2] at h
      | some c2 =>
        simp only [h2] at h
        cases h3 : castPiece ⟨true, 64⟩ lo hi c2 with
        | none => simp [h3] at h
        | some c3 =>
          simp only [h3, beq_iff_eq] at h
          subst h
          unfold finishFrom
          rw [e1, castPiece_sound h2 q hq]
          have := castPiece_sound h3 q hq
          simpa [conv] using this

/-- the arm delivers C's conversion, on both halves of the pattern space and for both values of `sgn` -/
def armOK (S : Src) (arm : Arm) : Bool :=
  let w := arm.obj.bits
  decide (1 ≤ w) && [true, false].all fun sgn =>
    pieceOK S arm sgn 0 ((2 : Int) ^ (w - 1)) 0 &&
    pieceOK S arm sgn ((2 : Int) ^ (w - 1)) ((2 : Int) ^ w) (if sgn || w == 64 then -((2 : Int) ^ w) else 0)

theorem armOK_sound (S : Src) (arm : Arm) (h : armOK S arm = true) : ArmConverts S arm := by
  intro sgn q hq
  simp only [armOK, Bool.and_eq_true, decide_eq_true_eq, List.all_cons, List.all_nil, Bool.and_true] at h
  obtain ⟨hw, ⟨ht1, ht2⟩, hf1, hf2⟩ := h
  have hsplit := two_pow_split arm.obj.bits hw
  have hqi : ((q : Nat) : Int) < (2 : Int) ^ arm.obj.bits := by exact_mod_cast hq
  have hq0 : (0 : Int) ≤ (q : Int) := Int.natCast_nonneg q
  have hpos : (0 : Int) < (2 : Int) ^ (arm.obj.bits - 1) := Int.pow_pos (by omega)
  -- `sext w q` on the two halves
  have hs_lo : (q : Int) < (2 : Int) ^ (arm.obj.bits - 1) → sext arm.obj.bits (q : Int) = q := by
    intro hl
    have := conv_eq_of ⟨true, arm.obj.bits⟩ hw (q : Int) (q : Int) (by simp [inRange]; omega) (by simp)
    simpa [conv] using this
  have hs_hi : (2 : Int) ^ (arm.obj.bits - 1) ≤ (q : Int) → sext arm.obj.bits (q : Int) = q - (2 : Int) ^ arm.obj.bits := by
    intro hl
    have := conv_eq_of ⟨true, arm.obj.bits⟩ hw (q : Int) (q - (2 : Int) ^ arm.obj.bits) (by simp [inRange]; omega) (by
      have : (q : Int) - (q - (2 : Int) ^ arm.obj.bits) = (2 : Int) ^ arm.obj.bits := by omega
      rw [this]; exact Int.emod_self)
    simpa [conv] using this
  by_cases hl : (q : Int) < (2 : Int) ^ (arm.obj.bits - 1)
  · have := pieceOK_sound S arm sgn 0 _ 0 (by cases sgn; exact hf1; exact ht1) (q : Int) ⟨hq0, hl⟩
    rw [this, hs_lo hl]; simp
  · have hl' : (2 : Int) ^ (arm.obj.bits - 1) ≤ (q : Int) := by omega
    cases sgn with
    | true =>
      have := pieceOK_sound S arm true _ _ _ ht2 (q : Int) ⟨hl', hqi⟩
      rw [this, hs_hi hl']; simp; omega
    | false =>
      have := pieceOK_sound S arm false _ _ _ hf2 (q : Int) ⟨hl', hqi⟩
      rw [this, hs_hi hl']
      by_cases h64 : (arm.obj.bits == 64) = true
      · simp [h64]; omega
      · simp [h64]

/-- the chain of tests sends every one of the 54 specifications to an arm whose object has exactly the width libc stores -/
def armsSelect (S : Src) : Bool :=
  IMod.all.all fun m => IConv.all.all fun cv =>
    (match selectArm S.arms (ispecFmt m cv ++ [37, 110]) with
     | some arm => arm.obj.bits == m.width
     | none => false) && (S.signed.contains cv.byte == cv.signed)

theorem selectArm_mem {arms : List Arm} {buf : List Nat} {arm : Arm} (h : selectArm arms buf = some arm) : arm ∈ arms :=
  List.mem_of_find?_eq_some h

theorem armsSelect_spec (S : Src) (h : armsSelect S = true) (m : IMod) (cv : IConv) :
    (∃ arm, selectArm S.arms (ispecFmt m cv ++ [37, 110]) = some arm ∧ arm.obj.bits = m.width) ∧
      S.signed.contains cv.byte = cv.signed := by
  simp only [armsSelect, List.all_eq_true, Bool.and_eq_true, beq_iff_eq] at h
  have := h m (Text.IMod.mem_all m) cv (Text.IConv.mem_all cv)
  refine ⟨?_, this.2⟩
  have h1 := this.1
  split at h1
  · rename_i arm harm; exact ⟨arm, harm, by simpa using h1⟩
  · exact absurd h1 (by simp)

/-- the low `w` bits of the pattern scanf converts for what printf wrote, as the two readings -/
theorem patt_low (m : IMod) (cv : IConv) (n : Int) (hn : inInt64 n = true) :
    let w := m.width
    let q := pattOf w cv.signed n % 2 ^ w
    (q < 2 ^ w) ∧ (if cv.signed || w == 64 then sext w (q : Int) else (q : Int)) = convInt m cv n := by
  simp only [inInt64, Bool.and_eq_true, decide_eq_true_eq] at hn
  have hw := Text.width_cases m
  intro w q
  refine ⟨Nat.mod_lt _ (Nat.pow_pos (by omega)), ?_⟩
  show (if cv.signed || m.width == 64 then sext m.width ((pattOf m.width cv.signed n % 2 ^ m.width : Nat) : Int)
        else ((pattOf m.width cv.signed n % 2 ^ m.width : Nat) : Int)) = convInt m cv n
  unfold pattOf convInt
  generalize m.width = w at *
  cases hs : cv.signed <;> rcases hw with h | h | h | h <;> subst h <;>
    simp only [sext, zext, Bool.false_or, Bool.true_or, if_true, if_false, Bool.false_eq_true, Nat.reducePow, Int.reducePow,
      Nat.reduceSub, Nat.reduceBEq, Nat.reduceEqDiff] <;> omega

/-- **the integer branch reads back C's conversion of the value written**, for every specification, every `int64_t` and every
    following text that does not continue the number — for any description of the branch that selects arms of the right width
    which convert -/
theorem scanIntSpec_print (S : Src) (hsel : armsSelect S = true) (hconv : ∀ arm ∈ S.arms, ArmConverts S arm)
    (m : IMod) (cv : IConv) (n : Int) (hn : inInt64 n = true) (rest : List Nat) (hs : ispecSafe m cv n rest = true) :
    scanIntSpec S m cv (printIntSpec m cv n ++ rest) = .ok (convInt m cv n, rest) := by
  obtain ⟨⟨arm, harm, hb⟩, hsg⟩ := armsSelect_spec S hsel m cv
  obtain ⟨hq, hv⟩ := patt_low m cv n hn
  have hc := hconv arm (selectArm_mem harm) cv.signed (pattOf m.width cv.signed n % 2 ^ m.width) (by rw [hb]; exact hq)
  simp only [scanIntSpec, harm, hb, Nat.lt_irrefl, if_false, Text.scanNumber_print m cv n rest hs, hsg, finishInt_eq, stored]
  rw [hb] at hc
  rw [hc, hv]

/-! ## `%c` -/

theorem charByte_lt (n : Int) : charByte n < 256 := by
  unfold charByte; omega

/-! ## the call on a File over the reference stdio -/

open Cello.File (Ref Handle At Regular refIO Mode)

/-- `scan_from(f, 0, "%<spec><sep>", x)` on an open readable File whose stream stands at `p` in a file with bytes `c`: the outcome is
    what `scanCall` says about the bytes after `p`, and the stream has moved by what was consumed -/
theorem fileScanText_at {l : Ref} {h : Handle} {k : Nat} {m : Mode} {p : Nat} {e : Bool} {c : List Cello.File.Byte}
    (a : At l h k m p e c) (hk : Regular k) (hr : m.canRead = true) (S : Src) (sp : Spec) (sep : List Nat) (r : ScanR)
    (hsc : scanCall S sp sep (toNats (c.drop p)) (dfltOf sp) = some r) :
    ∃ res, fileScanText S l (some h) sp sep = some res ∧ res.f = some h ∧
      res.out = (if r.failed then .raised .FormatError else .ok (r.val, r.ret)) ∧
      res.calls = List.replicate r.calls (.on .vfscanf h) ∧
      At res.lib h k m (p + r.consumed) (e || r.hitEnd) c := by
  obtain ⟨last, hs, hf⟩ := a
  have hc : l.content k = c := by simp [Ref.content, hf]
  have hkf : (k = Cello.File.fileFull) = False := by simp [hk.2]
  have hfs : fileScanText S l (some h) sp sep = some ⟨l.setStream h ⟨k, m, p + r.consumed, e || r.hitEnd, .rd⟩, some h,
      (if r.failed then .raised .FormatError else .ok (r.val, r.ret)), List.replicate r.calls (.on .vfscanf h)⟩ := by
    simp only [fileScanText, hs, hr, hc, hkf, hsc, Bool.not_true, Bool.false_or, decide_false, Bool.false_eq_true, if_false]
  refine ⟨_, hfs, rfl, rfl, rfl, .rd, ?_, ?_⟩
  · simp [Ref.setStream, Cello.File.insert, Cello.File.lookup]
  · simpa [Ref.setStream] using hf

end Cello.FileText
