/- Lemmas/MarkWalk.lean — the complete loop shapes visit every position of the block exactly once, in order (engine gcmark, C01 extension round) -/
import Cello.HeapWalk

namespace CelloGen.GcWalk

theorem CountLoop.go_lt (L : CountLoop) (h1 : L.step = 1) (hc : L.cmp = .lt ∨ L.cmp = .ne) (n : Nat) :
    ∀ f i, i ≤ n → n - i < f → CountLoop.go L n f i = List.range' i (n - i) := by
  intro f
  induction f with
  | zero => intro i _ h; omega
  | succ f ih =>
    intro i hi hf
    unfold CountLoop.go
    by_cases hlt : i < n
    · have ht : L.cmp.test i n = true := by
        rcases hc with hc | hc <;> rw [hc] <;> simp [LCmp.test] <;> omega
      rw [if_pos ht, h1, ih (i + 1) (by omega) (by omega)]
      have : n - i = (n - (i + 1)) + 1 := by omega
      rw [this, List.range'_succ]
    · have hi' : i = n := by omega
      have ht : L.cmp.test i n = false := by
        rcases hc with hc | hc <;> rw [hc] <;> simp [LCmp.test] <;> omega
      rw [if_neg (by simp [ht])]
      simp [hi']

theorem CountLoop.visits_complete (L : CountLoop) (h : L.Complete) (n : Nat) : L.visits n = List.range n := by
  obtain ⟨h0, h1, h2, hc⟩ := h
  unfold CountLoop.visits CountLoop.bound
  rw [h2, h0, if_pos (Nat.zero_le n), Nat.sub_zero, CountLoop.go_lt L h1 hc n (n + 2) 0 (Nat.zero_le n) (by omega)]
  simp [List.range_eq_range']

end CelloGen.GcWalk

namespace Cello.Heap.Walk
open CelloGen.GcWalk

theorem range_flatMap_get {α β : Type} (l : List α) (g : Option α → List β) (_hg : g none = []) :
    (List.range l.length).flatMap (fun i => g l[i]?) = l.flatMap (fun x => g (some x)) := by
  induction l with
  | nil => simp
  | cons x xs ih =>
    rw [List.length_cons, List.range_succ_eq_map, List.flatMap_cons, List.flatMap_cons, List.flatMap_map]
    simp only [List.getElem?_cons_zero, List.getElem?_cons_succ]
    rw [ih]

theorem arrayPresented_all (L : CountLoop) (h : L.Complete) (hp : L.presents = [.item]) (es : List Obj) :
    arrayPresented L es = es := by
  unfold arrayPresented
  rw [L.visits_complete h, range_flatMap_get es (itemOut L) rfl]
  induction es with
  | nil => rfl
  | cons x xs ih => rw [List.flatMap_cons, ih]; simp [itemOut, hp]

theorem tablePresented_all (L : CountLoop) (h : L.Complete) (hp : L.presents = [.key, .val]) (slots : List Slot) :
    tablePresented L slots = tableElems slots := by
  unfold tablePresented tableElems
  rw [L.visits_complete h, range_flatMap_get slots (slotOut L) rfl]
  congr 1
  funext s
  cases s with
  | none => rfl
  | some kv => simp [slotOut, slotParts, hp]

end Cello.Heap.Walk

namespace CelloGen.GcWalk

theorem PtrLoop.go_complete (L : PtrLoop) (h : L.Complete) (n : Nat) :
    ∀ f i, i < n → n - i ≤ f → PtrLoop.go L n f (some i) = List.range' i (n - i) := by
  obtain ⟨_, hc, ha⟩ := h
  intro f
  induction f with
  | zero => intro i hi h; omega
  | succ f ih =>
    intro i hi hf
    unfold PtrLoop.go
    simp only [hc, ha, if_true]
    by_cases hn : i + 1 < n
    · rw [show PtrLoop.nextOf n i = some (i + 1) by simp [PtrLoop.nextOf, hn], ih (i + 1) hn (by omega)]
      have : n - i = (n - (i + 1)) + 1 := by omega
      rw [this, List.range'_succ]
    · rw [show PtrLoop.nextOf n i = none by simp [PtrLoop.nextOf, hn]]
      have : n - i = 1 := by omega
      rw [this]
      cases f <;> simp [PtrLoop.go, List.range']

theorem PtrLoop.visits_complete (L : PtrLoop) (h : L.Complete) (n : Nat) : L.visits n = List.range n := by
  unfold PtrLoop.visits
  by_cases hn : n = 0
  · subst hn; simp [PtrLoop.go]
  · rw [if_neg hn, h.1, if_pos rfl, PtrLoop.go_complete L h n (n + 1) 0 (by omega) (by omega)]
    simp [List.range_eq_range']

theorem SentLoop.go_complete (L : SentLoop) (h1 : L.step = 1) (n : Nat) :
    ∀ f i, i ≤ n → n - i < f → SentLoop.go L n f i = List.range' i (n - i) := by
  intro f
  induction f with
  | zero => intro i _ h; omega
  | succ f ih =>
    intro i hi hf
    unfold SentLoop.go
    by_cases hlt : i < n
    · rw [if_pos hlt, h1, ih (i + 1) (by omega) (by omega)]
      have : n - i = (n - (i + 1)) + 1 := by omega
      rw [this, List.range'_succ]
    · rw [if_neg hlt]
      have : n - i = 0 := by omega
      simp [this]

theorem SentLoop.visits_complete (L : SentLoop) (h : L.Complete) (n : Nat) : L.visits n = List.range n := by
  unfold SentLoop.visits
  rw [h.1, SentLoop.go_complete L h.2 n (n + 1) 0 (Nat.zero_le n) (by omega)]
  simp [List.range_eq_range']

end CelloGen.GcWalk

namespace Cello.Heap.Walk
open CelloGen.GcWalk

theorem boundStep_max (key cur : Nat) : boundStep ">" key cur = max cur key := by
  unfold boundStep
  simp
  by_cases h : cur < key <;> simp [h] <;> omega

theorem boundStep_min (key cur : Nat) : boundStep "<" key cur = min cur key := by
  unfold boundStep
  simp
  by_cases h : key < cur <;> simp [h] <;> omega

end Cello.Heap.Walk
