/-
  Lemmas/HdrSlots.lean — the slot level of Array (Cello/HdrSlots.lean): every size-changing operation, run as the event
  lists the translator reads from src/Array.c, keeps every element slot under the header `Array_Alloc` writes.
  `ArraySrc` = what the proofs need from the generated tables (proved for the current source in Props/C19.lean).
-/
import Cello.HdrSlots
import CelloProofs.Lemmas.Hdr
import Mathlib.Tactic.Ring
open Cello.Hdr CelloGen.Hdr
namespace Cello.HdrSlots

def expectedProgs : List (String × List AEv) := [
  ("Array_Push", [.inc, .more, .alloc .last, .assign .last]),
  ("Array_Push_At", [.idx, .norm true, .chk .ins "IndexOutOfBoundsError", .inc, .more, .up, .alloc .i, .assign .i]),
  ("Array_Pop", [.chk .empty "IndexOutOfBoundsError", .destruct .last, .dec, .less]),
  ("Array_Pop_At", [.idx, .norm false, .chk .rem "IndexOutOfBoundsError", .destruct .i, .down, .dec, .less]),
  ("Array_Concat.pre", [.zeroCounter, .olen, .add, .more]),
  ("Array_Concat.body", [.alloc .tail, .assign .tail, .next]),
  ("Array_Concat.post", []),
  ("Array_Resize.pre", [.clearIfZero]),
  ("Array_Resize.body", [.destruct .last, .dec]),
  ("Array_Resize.post", [.setSlots, .realloc, .oom]),
  ("Array_New.fill", [.alloc .i, .assign .i]),
  ("Array_Assign.fill", [.alloc .i, .assign .i])]

structure ArraySrc : Prop where
  progs : arrayProgs = expectedProgs
  alloc : arrayAllocEvents = [.zeroSlot, .headAtSlot, .init]
  more : arrayReserveMore = (.gtSlots, .itemsPlusHalf)
  less : arrayReserveLess = (.slotsGtItemsPlusHalf, .items)

def Pref (g : Header) (a : Arr) (t : Nat) : Prop := t ≤ a.nslots ∧ ∀ j, j < t → a.slot j = .hdr g
def Good (g : Header) (a : Arr) : Prop := Pref g a a.nitems

theorem prog_eq (h : ArraySrc) (n : String) : prog n = (expectedProgs.lookup n).getD [] := by
  unfold prog; rw [h.progs]

theorem prog_push (h : ArraySrc) : prog "Array_Push" = [.inc, .more, .alloc .last, .assign .last] := by rw [prog_eq h]; rfl

theorem valid_hdr {g : Header} {magic : Nat} (hg : g.magic = magic) : (Slot.hdr g).valid magic = true := by
  simp [Slot.valid, hg]

theorem allocSlot_src (h : ArraySrc) (g : Header) (s : Slot) : allocSlot g arrayAllocEvents s = .hdr g := by
  rw [h.alloc]; simp [allocSlot]

theorem more_spec (h : ArraySrc) (g : Header) (a : Arr) (t : Nat) (hp : Pref g a t) :
    Pref g (a.reserve arrayReserveMore) t ∧ (a.reserve arrayReserveMore).nitems = a.nitems ∧
    a.nitems ≤ (a.reserve arrayReserveMore).nslots := by
  rw [h.more]
  obtain ⟨h1, h2⟩ := hp
  unfold Arr.reserve
  by_cases hc : a.nitems > a.nslots
  · simp only [polCond, hc, decide_true, if_true, polSize, Arr.realloc]
    refine ⟨⟨by simp; omega, fun j hj => ?_⟩, trivial, by simp⟩
    have : j < a.nslots ∧ j < a.nitems + a.nitems / 2 := by omega
    simp [this, h2 j hj]
  · simp only [polCond, hc, decide_false, Bool.false_eq_true, if_false]
    exact ⟨⟨h1, h2⟩, trivial, by omega⟩

theorem less_spec (h : ArraySrc) (g : Header) (a : Arr) (t : Nat) (hp : Pref g a t) (ht : t ≤ a.nitems) (hn : a.nitems ≤ a.nslots) :
    Pref g (a.reserve arrayReserveLess) t ∧ (a.reserve arrayReserveLess).nitems = a.nitems ∧
    a.nitems ≤ (a.reserve arrayReserveLess).nslots := by
  rw [h.less]
  obtain ⟨h1, h2⟩ := hp
  unfold Arr.reserve
  by_cases hc : a.nslots > a.nitems + a.nitems / 2
  · simp only [polCond, hc, decide_true, if_true, polSize, Arr.realloc]
    refine ⟨⟨by simpa using ht, fun j hj => ?_⟩, trivial, by simp⟩
    have : j < a.nslots ∧ j < a.nitems := by omega
    simp [this, h2 j hj]
  · simp only [polCond, hc, decide_false, Bool.false_eq_true, if_false]
    exact ⟨⟨h1, h2⟩, trivial, hn⟩


section unconditional
variable (g : Header) (magic : Nat) (m : M) (es : List AEv)
theorem run_idx : runEvs g magic (.idx :: es) m = runEvs g magic es { m with i := m.key } := rfl
theorem run_zeroCounter : runEvs g magic (.zeroCounter :: es) m = runEvs g magic es { m with i := 0 } := rfl
theorem run_olen : runEvs g magic (.olen :: es) m = runEvs g magic es m := rfl
theorem run_norm (p : Bool) : runEvs g magic (.norm p :: es) m =
    runEvs g magic es { m with i := if m.i < 0 then ((m.a.nitems : Int) + (if p then 1 else 0)) + m.i else m.i } := rfl
theorem run_inc : runEvs g magic (.inc :: es) m = runEvs g magic es { m with a := { m.a with nitems := m.a.nitems + 1 } } := rfl
theorem run_add : runEvs g magic (.add :: es) m = runEvs g magic es { m with a := { m.a with nitems := m.a.nitems + m.olen } } := rfl
theorem run_next : runEvs g magic (.next :: es) m = runEvs g magic es { m with i := m.i + 1 } := rfl
theorem run_more : runEvs g magic (.more :: es) m = runEvs g magic es { m with a := m.a.reserve arrayReserveMore } := rfl
theorem run_less : runEvs g magic (.less :: es) m = runEvs g magic es { m with a := m.a.reserve arrayReserveLess } := rfl
theorem run_setSlots : runEvs g magic (.setSlots :: es) m = runEvs g magic es { m with want := some m.n } := rfl
theorem run_oom : runEvs g magic (.oom :: es) m = runEvs g magic es m := rfl
theorem run_nil : runEvs g magic [] m = .cont m := rfl
end unconditional

theorem evalIdx_set (m : M) (a' : Arr) (hn : a'.nitems = m.a.nitems) (ix : AIdx) : evalIdx { m with a := a' } ix = evalIdx m ix := by
  cases ix <;> simp [evalIdx, hn]

/-- `Array_Alloc(a, k); assign(Array_Item(a, k), ..)` on a slot inside the storage -/
theorem alloc_assign (h : ArraySrc) (g : Header) (magic : Nat) (hg : g.magic = magic) (m : M) (ix : AIdx) (k : Nat)
    (hk : evalIdx m ix = (k : Int)) (hks : k < m.a.nslots) (rest : List AEv) :
    runEvs g magic (.alloc ix :: .assign ix :: rest) m = runEvs g magic rest { m with a := m.a.set k (.hdr g) } := by
  have h1 : stepEv g magic m (.alloc ix) = .cont { m with a := m.a.set k (.hdr g) } := by
    simp only [stepEv, hk, allocSlot_src h]
    have : ¬ ((k : Int) < 0 ∨ (k : Int) ≥ (m.a.nslots : Int)) := by omega
    rw [if_neg this]; simp
  have h2 : stepEv g magic { m with a := m.a.set k (.hdr g) } (.assign ix) = .cont { m with a := m.a.set k (.hdr g) } := by
    have he : evalIdx { m with a := m.a.set k (.hdr g) } ix = (k : Int) := by rw [evalIdx_set m (m.a.set k (.hdr g)) rfl]; exact hk
    simp only [stepEv, he]
    have : ¬ ((k : Int) < 0 ∨ (k : Int) ≥ ((m.a.set k (.hdr g)).nslots : Int)) := by simp [Arr.set]; omega
    rw [if_neg this]; simp [Arr.set, valid_hdr hg]
  simp only [runEvs, h1, h2]

theorem destruct_ok (g : Header) (magic : Nat) (hg : g.magic = magic) (m : M) (ix : AIdx) (k : Nat)
    (hk : evalIdx m ix = (k : Int)) (hks : k < m.a.nslots) (hv : m.a.slot k = .hdr g) (rest : List AEv) :
    runEvs g magic (.destruct ix :: rest) m = runEvs g magic rest m := by
  have h1 : stepEv g magic m (.destruct ix) = .cont m := by
    simp only [stepEv, hk]
    have : ¬ ((k : Int) < 0 ∨ (k : Int) ≥ (m.a.nslots : Int)) := by omega
    rw [if_neg this]; simp [hv, valid_hdr hg]
  simp only [runEvs, h1]

theorem pref_set (g : Header) (a : Arr) (t : Nat) (hp : Pref g a t) (hts : t < a.nslots) : Pref g (a.set t (.hdr g)) (t + 1) := by
  refine ⟨by simp [Arr.set]; omega, fun j hj => ?_⟩
  by_cases hjt : j = t
  · simp [Arr.set, hjt]
  · have : j < t := by omega
    simp [Arr.set, hjt, hp.2 j this]

theorem push_spec (h : ArraySrc) (g : Header) (magic : Nat) (hg : g.magic = magic) (a : Arr) (ha : Good g a) :
    Good g (runOp g magic a .push).1 ∧ (runOp g magic a .push).2 = .ok ∧ (runOp g magic a .push).1.nitems = a.nitems + 1 := by
  obtain ⟨hm1, hm2, hm3⟩ := more_spec h g { a with nitems := a.nitems + 1 } a.nitems ha
  simp only [runOp, prog_push h, M.start]
  rw [run_inc, run_more]
  simp only
  generalize Arr.reserve arrayReserveMore { nitems := a.nitems + 1, nslots := a.nslots, slot := a.slot } = a2 at *
  simp only at hm2 hm3
  rw [alloc_assign h g magic hg _ .last a.nitems (by simp [evalIdx, hm2]) (by simp only [] at hm3 ⊢; omega)]
  simp only [run_nil, finish]
  have := pref_set g a2 a.nitems hm1 (by omega)
  refine ⟨?_, trivial, by simp [Arr.set, hm2]⟩
  simpa [Good, Arr.set, hm2] using this

theorem prog_push_at (h : ArraySrc) : prog "Array_Push_At" =
    [.idx, .norm true, .chk .ins "IndexOutOfBoundsError", .inc, .more, .up, .alloc .i, .assign .i] := by rw [prog_eq h]; rfl
theorem prog_pop (h : ArraySrc) : prog "Array_Pop" = [.chk .empty "IndexOutOfBoundsError", .destruct .last, .dec, .less] := by
  rw [prog_eq h]; rfl
theorem prog_pop_at (h : ArraySrc) : prog "Array_Pop_At" =
    [.idx, .norm false, .chk .rem "IndexOutOfBoundsError", .destruct .i, .down, .dec, .less] := by rw [prog_eq h]; rfl
theorem prog_concat (h : ArraySrc) : prog "Array_Concat.pre" = [.zeroCounter, .olen, .add, .more] ∧
    prog "Array_Concat.body" = [.alloc .tail, .assign .tail, .next] ∧ prog "Array_Concat.post" = [] := by
  simp only [prog_eq h]; exact ⟨rfl, rfl, rfl⟩
theorem prog_resize (h : ArraySrc) : prog "Array_Resize.pre" = [.clearIfZero] ∧
    prog "Array_Resize.body" = [.destruct .last, .dec] ∧ prog "Array_Resize.post" = [.setSlots, .realloc, .oom] := by
  simp only [prog_eq h]; exact ⟨rfl, rfl, rfl⟩
theorem prog_fill (h : ArraySrc) : prog "Array_Assign.fill" = [.alloc .i, .assign .i] ∧ prog "Array_New.fill" = [.alloc .i, .assign .i] := by
  simp only [prog_eq h]; exact ⟨rfl, rfl⟩

theorem run_chk_pass (g : Header) (magic : Nat) (m : M) (c : AChk) (exc : String) (es : List AEv) (hc : chkFails c m = false) :
    runEvs g magic (.chk c exc :: es) m = runEvs g magic es m := by
  simp [runEvs, stepEv, hc]

theorem run_chk_fail (g : Header) (magic : Nat) (m : M) (c : AChk) (exc : String) (es : List AEv) (hc : chkFails c m = true) :
    runEvs g magic (.chk c exc :: es) m = .stop m.a (.raised exc) := by
  simp [runEvs, stepEv, hc]

theorem run_dec (g : Header) (magic : Nat) (m : M) (es : List AEv) (hn : m.a.nitems ≠ 0) :
    runEvs g magic (.dec :: es) m = runEvs g magic es { m with a := { m.a with nitems := m.a.nitems - 1 } } := by
  simp [runEvs, stepEv, hn]

theorem run_up (g : Header) (magic : Nat) (m : M) (i : Nat) (hi : m.i = (i : Int)) (hle : i + 1 ≤ m.a.nitems)
    (hs : m.a.nitems ≤ m.a.nslots) (es : List AEv) :
    runEvs g magic (.up :: es) m = runEvs g magic es
      { m with a := { m.a with slot := fun j => if i + 1 ≤ j ∧ j < i + 1 + (m.a.nitems - 1 - i) then m.a.slot (j - 1) else m.a.slot j } } := by
  have hc : ¬ (m.i < 0 ∨ ((m.a.nitems : Int) - 1) - m.i < 0 ∨ m.i + 1 + (((m.a.nitems : Int) - 1) - m.i) > (m.a.nslots : Int)) := by omega
  have hcnt : (((m.a.nitems : Int) - 1) - m.i).toNat = m.a.nitems - 1 - i := by omega
  have hin : m.i.toNat = i := by omega
  simp only [runEvs, stepEv, if_neg hc, hcnt, hin]

theorem run_down (g : Header) (magic : Nat) (m : M) (i : Nat) (hi : m.i = (i : Int)) (hle : i + 1 ≤ m.a.nitems)
    (hs : m.a.nitems ≤ m.a.nslots) (es : List AEv) :
    runEvs g magic (.down :: es) m = runEvs g magic es
      { m with a := { m.a with slot := fun j => if i ≤ j ∧ j < i + (m.a.nitems - 1 - i) then m.a.slot (j + 1) else m.a.slot j } } := by
  have hc : ¬ (m.i < 0 ∨ ((m.a.nitems : Int) - 1) - m.i < 0 ∨ m.i + 1 + (((m.a.nitems : Int) - 1) - m.i) > (m.a.nslots : Int)) := by omega
  have hcnt : (((m.a.nitems : Int) - 1) - m.i).toNat = m.a.nitems - 1 - i := by omega
  have hin : m.i.toNat = i := by omega
  simp only [runEvs, stepEv, if_neg hc, hcnt, hin]

/-- what an operation may do: end normally with every element slot carrying `g`, or refuse and leave the storage alone -/
def OpOK (g : Header) (a : Arr) (r : Arr × Res) (n' : Nat) : Prop :=
  Good g r.1 ∧ ((r.2 = .ok ∧ r.1.nitems = n') ∨ (∃ e, r.2 = .raised e ∧ r.1 = a))

theorem push_at_spec (h : ArraySrc) (g : Header) (magic : Nat) (hg : g.magic = magic) (a : Arr) (ha : Good g a) (key : Int) :
    OpOK g a (runOp g magic a (.pushAt key)) (a.nitems + 1) := by
  simp only [runOp, prog_push_at h, M.start]
  rw [run_idx, run_norm]
  simp only [if_true]
  by_cases hc : chkFails .ins { a := a, i := if key < 0 then ((a.nitems : Int) + 1) + key else key, key := key, olen := 0, n := 0, want := none } = true
  · rw [run_chk_fail _ _ _ _ _ _ hc]
    exact ⟨ha, Or.inr ⟨_, rfl, rfl⟩⟩
  · have hc' := Bool.eq_false_iff.mpr hc
    rw [run_chk_pass _ _ _ _ _ _ hc', run_inc, run_more]
    simp only [chkFails, decide_eq_false_iff_not, not_or, not_lt] at hc'
    obtain ⟨i, hi⟩ : ∃ i : Nat, (if key < 0 then ((a.nitems : Int) + 1) + key else key) = (i : Int) := ⟨_, (Int.toNat_of_nonneg hc'.1).symm⟩
    rw [hi] at hc' ⊢
    have hin : i ≤ a.nitems := by omega
    obtain ⟨hm1, hm2, hm3⟩ := more_spec h g { a with nitems := a.nitems + 1 } a.nitems ha
    simp only
    generalize Arr.reserve arrayReserveMore { nitems := a.nitems + 1, nslots := a.nslots, slot := a.slot } = a2 at *
    simp only at hm2 hm3
    rw [run_up g magic _ i rfl (by simp only [hm2]; omega) (by simp only [hm2]; omega)]
    rw [alloc_assign h g magic hg _ .i i (by simp [evalIdx]) (by simp only []; omega)]
    simp only [run_nil, finish]
    refine ⟨⟨by simp [Arr.set, hm2]; omega, fun j hj => ?_⟩, Or.inl ⟨rfl, by simp [Arr.set, hm2]⟩⟩
    simp only [Arr.set, hm2] at hj ⊢
    by_cases hji : j = i
    · simp [hji]
    · simp only [hji, if_false]
      by_cases hjl : j < i
      · have : ¬ (i + 1 ≤ j ∧ j < i + 1 + (a.nitems + 1 - 1 - i)) := by omega
        rw [if_neg this]; exact hm1.2 j (by omega)
      · have : i + 1 ≤ j ∧ j < i + 1 + (a.nitems + 1 - 1 - i) := by omega
        rw [if_pos this]; exact hm1.2 (j - 1) (by omega)

theorem pop_spec (h : ArraySrc) (g : Header) (magic : Nat) (hg : g.magic = magic) (a : Arr) (ha : Good g a) :
    OpOK g a (runOp g magic a .pop) (a.nitems - 1) := by
  simp only [runOp, prog_pop h, M.start]
  by_cases hc : chkFails .empty { a := a, i := 0, key := 0, olen := 0, n := 0, want := none } = true
  · rw [run_chk_fail _ _ _ _ _ _ hc]
    exact ⟨ha, Or.inr ⟨_, rfl, rfl⟩⟩
  · have hc' := Bool.eq_false_iff.mpr hc
    rw [run_chk_pass _ _ _ _ _ _ hc']
    simp only [chkFails, beq_eq_false_iff_ne, ne_eq] at hc'
    have hn : 1 ≤ a.nitems := by omega
    rw [destruct_ok g magic hg _ .last (a.nitems - 1) (by simp [evalIdx]; omega) (by have := ha.1; simp only []; omega)
      (ha.2 _ (by omega)), run_dec _ _ _ _ (by simpa using hc'), run_less]
    simp only [run_nil, finish]
    obtain ⟨hl1, hl2, hl3⟩ := less_spec h g { a with nitems := a.nitems - 1 } (a.nitems - 1)
      ⟨by have := ha.1; simp only []; omega, fun j hj => ha.2 j (by omega)⟩ (le_refl _) (by have := ha.1; simp only []; omega)
    refine ⟨?_, Or.inl ⟨rfl, hl2⟩⟩
    unfold Good; rw [hl2]; exact hl1

theorem pop_at_spec (h : ArraySrc) (g : Header) (magic : Nat) (hg : g.magic = magic) (a : Arr) (ha : Good g a) (key : Int) :
    OpOK g a (runOp g magic a (.popAt key)) (a.nitems - 1) := by
  simp only [runOp, prog_pop_at h, M.start]
  rw [run_idx, run_norm]
  simp only [Bool.false_eq_true, if_false, add_zero]
  by_cases hc : chkFails .rem { a := a, i := if key < 0 then (a.nitems : Int) + key else key, key := key, olen := 0, n := 0, want := none } = true
  · rw [run_chk_fail _ _ _ _ _ _ hc]
    exact ⟨ha, Or.inr ⟨_, rfl, rfl⟩⟩
  · have hc' := Bool.eq_false_iff.mpr hc
    rw [run_chk_pass _ _ _ _ _ _ hc']
    simp only [chkFails, decide_eq_false_iff_not, not_or, not_lt, ge_iff_le, not_le] at hc'
    obtain ⟨i, hi⟩ : ∃ i : Nat, (if key < 0 then (a.nitems : Int) + key else key) = (i : Int) := ⟨_, (Int.toNat_of_nonneg hc'.1).symm⟩
    rw [hi] at hc' ⊢
    have hin : i < a.nitems := by omega
    have hns := ha.1
    rw [destruct_ok g magic hg _ .i i (by simp [evalIdx]) (by simp only []; omega) (ha.2 _ hin),
      run_down g magic _ i rfl (by simp only []; omega) (by simp only []; omega), run_dec _ _ _ _ (by simp only []; omega), run_less]
    simp only [run_nil, finish]
    obtain ⟨hl1, hl2, hl3⟩ := less_spec h g
      { nitems := a.nitems - 1, nslots := a.nslots,
        slot := fun j => if i ≤ j ∧ j < i + (a.nitems - 1 - i) then a.slot (j + 1) else a.slot j } (a.nitems - 1)
      ⟨by simp only []; omega, fun j hj => by
        by_cases hji : i ≤ j ∧ j < i + (a.nitems - 1 - i)
        · simp only [hji, and_self, if_true]; exact ha.2 _ (by omega)
        · simp only [hji, if_false]; exact ha.2 _ (by omega)⟩ (le_refl _) (by simp only []; omega)
    refine ⟨?_, Or.inl ⟨rfl, hl2⟩⟩
    unfold Good; rw [hl2]; exact hl1

theorem allValid_good (g : Header) (magic : Nat) (hg : g.magic = magic) (a : Arr) (ha : Good g a) : a.allValid magic = true := by
  simp only [Arr.allValid, List.all_eq_true, List.mem_range]
  intro j hj
  rw [ha.2 j hj]; exact valid_hdr hg

theorem good_empty (g : Header) : Good g Arr.empty := ⟨Nat.le_refl _, fun _ hj => absurd hj (Nat.not_lt_zero _)⟩

theorem fill_loop (h : ArraySrc) (g : Header) (magic : Nat) (hg : g.magic = magic) (ix : AIdx) (base N olen : Nat)
    (hix : ∀ m : M, m.a.nitems = N → m.olen = olen → evalIdx m ix = (base : Int) + m.i) :
    ∀ (k : Nat) (m : M) (c : Nat), m.i = (c : Int) → m.olen = olen → m.a.nitems = N → base + c + k ≤ m.a.nslots →
      Pref g m.a (base + c) →
      ∃ m', repeatBody g magic [.alloc ix, .assign ix, .next] k m = .cont m' ∧ m'.a.nitems = N ∧ m'.a.nslots = m.a.nslots ∧
        Pref g m'.a (base + c + k) := by
  intro k
  induction k with
  | zero => intro m c _ _ hN _ hp; exact ⟨m, rfl, hN, rfl, hp⟩
  | succ k ih =>
    intro m c hi ho hN hs hp
    have he : evalIdx m ix = ((base + c : Nat) : Int) := by rw [hix m hN ho, hi]; push_cast; ring
    have hrun : runEvs g magic [.alloc ix, .assign ix, .next] m =
        .cont { m with a := m.a.set (base + c) (.hdr g), i := m.i + 1 } := by
      rw [alloc_assign h g magic hg m ix (base + c) he (by omega), run_next, run_nil]
    obtain ⟨m', h1, h2, h3, h4⟩ := ih { m with a := m.a.set (base + c) (.hdr g), i := m.i + 1 } (c + 1)
      (by simp only [hi]; push_cast; ring) ho (by simpa [Arr.set] using hN) (by simp only [Arr.set]; omega)
      (by have := pref_set g m.a (base + c) hp (by omega); simpa [Nat.add_assoc] using this)
    refine ⟨m', ?_, h2, by simpa [Arr.set] using h3, by simpa [Nat.add_assoc, Nat.add_comm 1 k] using h4⟩
    simp only [repeatBody, hrun]; exact h1

theorem concat_spec (h : ArraySrc) (g : Header) (magic : Nat) (hg : g.magic = magic) (a : Arr) (ha : Good g a) (olen : Nat) :
    OpOK g a (runOp g magic a (.concat olen)) (a.nitems + olen) := by
  obtain ⟨p1, p2, p3⟩ := prog_concat h
  simp only [runOp, p1, p2, p3, M.start]
  rw [run_zeroCounter, run_olen, run_add, run_more, run_nil]
  simp only
  obtain ⟨hm1, hm2, hm3⟩ := more_spec h g { a with nitems := a.nitems + olen } a.nitems ha
  generalize Arr.reserve arrayReserveMore { nitems := a.nitems + olen, nslots := a.nslots, slot := a.slot } = a2 at *
  simp only at hm2 hm3
  obtain ⟨m', h1, h2, h3, h4⟩ := fill_loop h g magic hg .tail a.nitems (a.nitems + olen) olen
    (fun m hN ho => by simp only [evalIdx, hN, ho]; push_cast; ring) olen
    { a := a2, i := 0, key := 0, olen := olen, n := 0, want := none } 0 rfl rfl hm2 (by simp only []; omega) (by simpa using hm1)
  rw [h1]
  simp only [run_nil, finish]
  refine ⟨?_, Or.inl ⟨rfl, h2⟩⟩
  unfold Good; rw [h2]; simpa using h4

theorem fill_spec (h : ArraySrc) (g : Header) (magic : Nat) (hg : g.magic = magic) (a : Arr) (ha : Good g a) (n : Nat) :
    OpOK g a (runOp g magic a (.fill n)) n := by
  simp only [runOp, (prog_fill h).1, allValid_good g magic hg a ha, if_true, M.start, List.cons_append, List.nil_append]
  obtain ⟨m', h1, h2, h3, h4⟩ := fill_loop h g magic hg .i 0 n 0
    (fun m _ _ => by simp [evalIdx]) n
    { a := Arr.fresh n, i := 0, key := 0, olen := 0, n := 0, want := none } 0 rfl rfl rfl (by simp [Arr.fresh])
    ⟨Nat.zero_le _, fun _ hj => absurd hj (by omega)⟩
  rw [h1]
  simp only [finish]
  refine ⟨?_, Or.inl ⟨rfl, h2⟩⟩
  unfold Good; rw [h2]; simpa using h4

theorem resize_loop (g : Header) (magic : Nat) (hg : g.magic = magic) (n : Nat) :
    ∀ (f : Nat) (m : M), m.n = n → Good g m.a → m.a.nitems ≤ n + f →
      ∃ m', whileBody g magic [.destruct .last, .dec] f m = .cont m' ∧ m'.n = n ∧ m'.want = m.want ∧ Good g m'.a ∧
        m'.a.nitems = min m.a.nitems n ∧ m'.a.nslots = m.a.nslots := by
  intro f
  induction f with
  | zero =>
    intro m hn hgood hle
    have : ¬ m.n < m.a.nitems := by omega
    exact ⟨m, by simp [whileBody, this], hn, rfl, hgood, by omega, rfl⟩
  | succ f ih =>
    intro m hn hgood hle
    by_cases hc : m.n < m.a.nitems
    · have hns := hgood.1
      have hrun : runEvs g magic [.destruct .last, .dec] m = .cont { m with a := { m.a with nitems := m.a.nitems - 1 } } := by
        rw [destruct_ok g magic hg m .last (m.a.nitems - 1) (by simp [evalIdx]; omega) (by omega) (hgood.2 _ (by omega)),
          run_dec _ _ _ _ (by omega), run_nil]
      obtain ⟨m', h1, h2, h3, h4, h5, h6⟩ := ih { m with a := { m.a with nitems := m.a.nitems - 1 } } hn
        ⟨by simp only []; omega, fun j hj => hgood.2 j (by simp only [] at hj; omega)⟩ (by simp only []; omega)
      refine ⟨m', ?_, h2, h3, h4, by simp only [] at h5; omega, h6⟩
      simp only [whileBody, hc, if_true, hrun]; exact h1
    · exact ⟨m, by simp [whileBody, hc], hn, rfl, hgood, by omega, rfl⟩

theorem resize_spec (h : ArraySrc) (g : Header) (magic : Nat) (hg : g.magic = magic) (a : Arr) (ha : Good g a) (n : Nat) :
    OpOK g a (runOp g magic a (.resize n)) (if n = 0 then 0 else min a.nitems n) := by
  obtain ⟨p1, p2, p3⟩ := prog_resize h
  simp only [runOp, p1, p2, p3, M.start]
  by_cases hn : n = 0
  · subst hn
    simp only [runEvs, stepEv, allValid_good g magic hg a ha, if_true, finish]
    exact ⟨good_empty g, Or.inl ⟨rfl, rfl⟩⟩
  · simp only [runEvs, stepEv, hn, if_false]
    obtain ⟨m', h1, h2, h3, h4, h5, h6⟩ := resize_loop g magic hg n a.nitems
      { a := a, i := 0, key := 0, olen := 0, n := n, want := none } rfl ha (by simp only []; omega)
    rw [h1]
    simp only [h2, finish]
    simp only [] at h5 h6
    refine ⟨⟨by simp [Arr.realloc]; omega, fun j hj => ?_⟩, Or.inl ⟨rfl, by simpa [Arr.realloc] using h5⟩⟩
    simp only [Arr.realloc] at hj ⊢
    have hns := h4.1
    have : j < m'.a.nslots ∧ j < n := by omega
    simp only [this, and_self, if_true]; exact h4.2 j hj

/-- **every operation keeps every element slot under a header** -/
theorem runOp_good (h : ArraySrc) (g : Header) (magic : Nat) (hg : g.magic = magic) (a : Arr) (ha : Good g a) (op : AOp) :
    Good g (runOp g magic a op).1 ∧
      ((runOp g magic a op).2 = .ok ∨ ∃ e, (runOp g magic a op).2 = .raised e ∧ (runOp g magic a op).1 = a) := by
  cases op with
  | push => have := push_spec h g magic hg a ha; exact ⟨this.1, Or.inl this.2.1⟩
  | pushAt key => have := push_at_spec h g magic hg a ha key; exact ⟨this.1, this.2.imp (·.1) id⟩
  | pop => have := pop_spec h g magic hg a ha; exact ⟨this.1, this.2.imp (·.1) id⟩
  | popAt key => have := pop_at_spec h g magic hg a ha key; exact ⟨this.1, this.2.imp (·.1) id⟩
  | concat olen => have := concat_spec h g magic hg a ha olen; exact ⟨this.1, this.2.imp (·.1) id⟩
  | resize n => have := resize_spec h g magic hg a ha n; exact ⟨this.1, this.2.imp (·.1) id⟩
  | fill n => have := fill_spec h g magic hg a ha n; exact ⟨this.1, this.2.imp (·.1) id⟩

theorem runOps_good (h : ArraySrc) (g : Header) (magic : Nat) (hg : g.magic = magic) (ops : List AOp) :
    ∀ a, Good g a → Good g (runOps g magic a ops) := by
  induction ops with
  | nil => intro a ha; exact ha
  | cons op r ih => intro a ha; exact ih _ (runOp_good h g magic hg a ha op).1

theorem good_badCount (g : Header) (magic : Nat) (hg : g.magic = magic) (a : Arr) (ha : Good g a) : a.badCount magic = 0 := by
  simp only [Arr.badCount, List.length_eq_zero_iff, List.filter_eq_nil_iff, List.mem_range]
  intro j hj
  rw [ha.2 j hj]; simp [valid_hdr hg]

end Cello.HdrSlots
