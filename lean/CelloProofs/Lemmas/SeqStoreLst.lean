/-
  C04 helper lemmas: the store-level List (`LstS`: heap of nodes with `prev` / `next` links, `List_Link` / `List_Unlink`,
  the two-ended walk of `List_At`) simulates the list-level `Lst` operation by operation and never touches a freed node
  or follows a NULL link.
-/
import Cello.SeqStore
import CelloProofs.Lemmas.SeqLst

namespace Cello.Seq
variable {α : Type}

abbrev Heap (α : Type) := Array (Option (Node α))

/-- the address a segment is entered through from the left: its first node, or `q` when it is empty -/
def nextOf (cells : List (Nat × α)) (q : Option Nat) : Option Nat :=
  match cells with
  | [] => q
  | (b, _) :: _ => some b

/-- the address a segment is entered through from the right: its last node, or `p` when it is empty -/
def lastOf : List (Nat × α) → Option Nat → Option Nat
  | [], p => p
  | (a, _) :: rest, _ => lastOf rest (some a)

/-- a doubly linked segment: the nodes `cells` (address, element) in order, the first one's `prev` is `p`, the last one's
    `next` is `q`, every inner link points to the neighbour -/
def Seg (h : Heap α) : Option Nat → List (Nat × α) → Option Nat → Prop
  | _, [], _ => True
  | p, (a, v) :: rest, q => h[a]? = some (some ⟨p, nextOf rest q, v⟩) ∧ Seg h (some a) rest q

theorem nextOf_append (xs ys : List (Nat × α)) (q : Option Nat) : nextOf (xs ++ ys) q = nextOf xs (nextOf ys q) := by
  cases xs with
  | nil => rfl
  | cons x xs => rfl

theorem lastOf_append (xs ys : List (Nat × α)) (p : Option Nat) : lastOf (xs ++ ys) p = lastOf ys (lastOf xs p) := by
  induction xs generalizing p with
  | nil => rfl
  | cons x xs ih => obtain ⟨a, v⟩ := x; simp only [List.cons_append, lastOf]; exact ih _

theorem lastOf_ne_nil (xs : List (Nat × α)) (hne : xs ≠ []) (p p' : Option Nat) : lastOf xs p = lastOf xs p' := by
  cases xs with
  | nil => exact absurd rfl hne
  | cons x xs => obtain ⟨a, v⟩ := x; rfl

theorem nextOf_ne_nil (xs : List (Nat × α)) (hne : xs ≠ []) (q q' : Option Nat) : nextOf xs q = nextOf xs q' := by
  cases xs with
  | nil => exact absurd rfl hne
  | cons x xs => obtain ⟨a, v⟩ := x; rfl

theorem lastOf_mem (xs : List (Nat × α)) (hne : xs ≠ []) (p : Option Nat) :
    ∃ a, lastOf xs p = some a ∧ a ∈ xs.map (·.1) := by
  induction xs generalizing p with
  | nil => exact absurd rfl hne
  | cons x xs ih =>
    obtain ⟨a, v⟩ := x
    cases xs with
    | nil => exact ⟨a, rfl, by simp⟩
    | cons y ys =>
      obtain ⟨b, hb, hm⟩ := ih (by simp) (some a)
      exact ⟨b, hb, by simp only [List.map_cons, List.mem_cons] at hm ⊢; exact Or.inr hm⟩

theorem nextOf_mem (xs : List (Nat × α)) (hne : xs ≠ []) (q : Option Nat) :
    ∃ a, nextOf xs q = some a ∧ a ∈ xs.map (·.1) := by
  cases xs with
  | nil => exact absurd rfl hne
  | cons x xs => obtain ⟨a, v⟩ := x; exact ⟨a, rfl, by simp⟩

theorem Seg.frame {h h' : Heap α} : ∀ {cells : List (Nat × α)} {p q : Option Nat},
    (∀ a ∈ cells.map (·.1), h'[a]? = h[a]?) → Seg h p cells q → Seg h' p cells q := by
  intro cells
  induction cells with
  | nil => intro p q _ _; trivial
  | cons x xs ih =>
    intro p q hf hs
    obtain ⟨a, v⟩ := x
    refine ⟨?_, ih (fun b hb => hf b (by simp only [List.map_cons, List.mem_cons]; exact Or.inr hb)) hs.2⟩
    rw [hf a (by simp)]; exact hs.1

theorem Seg.append {h : Heap α} : ∀ {xs ys : List (Nat × α)} {p q : Option Nat},
    Seg h p (xs ++ ys) q ↔ Seg h p xs (nextOf ys q) ∧ Seg h (lastOf xs p) ys q := by
  intro xs
  induction xs with
  | nil => intro ys p q; simp [Seg, lastOf]
  | cons x xs ih =>
    intro ys p q
    obtain ⟨a, v⟩ := x
    simp only [List.cons_append, Seg, lastOf, nextOf_append, ih, and_assoc]

/-- a segment around one of its nodes -/
theorem Seg.middle {h : Heap α} {pre post : List (Nat × α)} {a : Nat} {v : α} {p q : Option Nat} :
    Seg h p (pre ++ (a, v) :: post) q ↔
      Seg h p pre (some a) ∧ h[a]? = some (some ⟨lastOf pre p, nextOf post q, v⟩) ∧ Seg h (some a) post q := by
  rw [Seg.append]; simp only [nextOf, Seg]

/-- the exit link of a non-empty segment is the `next` field of its last node -/
theorem Seg.setExit {h : Heap α} : ∀ {xs : List (Nat × α)} {p q : Option Nat} (a : Nat) (nd : Node α) (q' : Option Nat),
    Seg h p xs q → (xs.map (·.1)).Nodup → lastOf xs none = some a → xs ≠ [] → h[a]? = some (some nd) →
    Seg (h.setIfInBounds a (some { nd with next := q' })) p xs q' := by
  intro xs
  induction xs with
  | nil => intro p q a nd q' _ _ _ hne _; exact absurd rfl hne
  | cons x xs ih =>
    intro p q a nd q' hs hnd hl _ hnode
    obtain ⟨b, w⟩ := x
    have hlt : a < h.size := by
      by_cases hlt : a < h.size
      · exact hlt
      · rw [Array.getElem?_eq_none (by omega)] at hnode; cases hnode
    cases xs with
    | nil =>
      simp only [lastOf, Option.some.injEq] at hl
      subst hl
      refine ⟨?_, trivial⟩
      have := hs.1
      rw [hnode] at this
      simp only [Option.some.injEq] at this
      subst this
      simp [Array.getElem?_setIfInBounds, hlt, nextOf]
    | cons y ys =>
      simp only [List.map_cons, List.nodup_cons] at hnd
      have hl' : lastOf (y :: ys) none = some a := by
        rw [← hl]; obtain ⟨c, u⟩ := y; rfl
      obtain ⟨a', ha', hm⟩ := lastOf_mem (y :: ys) (by simp) none
      rw [hl'] at ha'; cases ha'
      have hba : b ≠ a := by
        intro e; subst e; exact hnd.1 (by simpa using hm)
      refine ⟨?_, ih a nd q' hs.2 (by simpa using hnd.2) hl' (by simp) hnode⟩
      rw [Array.getElem?_setIfInBounds, if_neg (by omega)]
      rw [hs.1, nextOf_ne_nil (y :: ys) (by simp) q q']

/-- the entry link of a non-empty segment is the `prev` field of its first node -/
theorem Seg.setEntry {h : Heap α} {c : Nat} {v : α} {post : List (Nat × α)} {p q : Option Nat} (nd : Node α) (p' : Option Nat)
    (hs : Seg h p ((c, v) :: post) q) (hnd : c ∉ post.map (·.1)) (hnode : h[c]? = some (some nd)) :
    Seg (h.setIfInBounds c (some { nd with prev := p' })) p' ((c, v) :: post) q := by
  have hlt : c < h.size := by
    by_cases hlt : c < h.size
    · exact hlt
    · rw [Array.getElem?_eq_none (by omega)] at hnode; cases hnode
  have := hs.1
  rw [hnode] at this
  simp only [Option.some.injEq] at this
  subst this
  refine ⟨by simp [Array.getElem?_setIfInBounds, hlt], ?_⟩
  apply Seg.frame _ hs.2
  intro b hb
  rw [Array.getElem?_setIfInBounds, if_neg (by intro e; subst e; exact hnd hb)]

theorem Seg.live {h : Heap α} : ∀ {cells : List (Nat × α)} {p q : Option Nat}, Seg h p cells q →
    ∀ a ∈ cells.map (·.1), ∃ nd, h[a]? = some (some nd) := by
  intro cells
  induction cells with
  | nil => intro p q _ a ha; simp at ha
  | cons x xs ih =>
    intro p q hs a ha
    obtain ⟨b, w⟩ := x
    simp only [List.map_cons, List.mem_cons] at ha
    rcases ha with rfl | ha
    · exact ⟨_, hs.1⟩
    · exact ih hs.2 a ha

theorem heap_lt {h : Heap α} {a : Nat} {nd : Node α} (hn : h[a]? = some (some nd)) : a < h.size := by
  by_cases hlt : a < h.size
  · exact hlt
  · rw [Array.getElem?_eq_none (by omega)] at hn; cases hn

namespace LstS

/-- the abstraction of a store-level List: the chain of nodes from `head` to `tail` -/
structure Chain (s : LstS α) (cells : List (Nat × α)) : Prop where
  nodup : (cells.map (·.1)).Nodup
  seg : Seg s.heap none cells none
  head : s.head = nextOf cells none
  tail : s.tail = lastOf cells none

/-- abstraction relation to the list-level model (which implies the counter invariant `Lst.Inv`) -/
def Abs (s : LstS α) (l : Lst α) : Prop :=
  ∃ cells : List (Nat × α), s.Chain cells ∧ l.items = cells.map (·.2) ∧ l.nitems = cells.length ∧ s.nitems = cells.length

theorem Abs.inv {s : LstS α} {l : Lst α} (h : s.Abs l) : l.Inv := by
  obtain ⟨cells, _, h1, h2, _⟩ := h
  unfold Lst.Inv; rw [h2, h1]; simp

theorem node_eq (s : LstS α) (a : Nat) (nd : Node α) (h : s.heap[a]? = some (some nd)) : s.node a = some nd := by
  unfold node; rw [h]; rfl

theorem node_some {s : LstS α} {a : Nat} {nd : Node α} (h : s.node a = some nd) : s.heap[a]? = some (some nd) := by
  unfold node at h
  cases hh : s.heap[a]? with
  | none => rw [hh] at h; cases h
  | some o => rw [hh] at h; simp only [Option.getD_some] at h; rw [h]

theorem setNext_eq {s : LstS α} {a : Nat} {nd : Node α} (h : s.heap[a]? = some (some nd)) (v : Option Nat) :
    s.setNext a v = some { s with heap := s.heap.setIfInBounds a (some { nd with next := v }) } := by
  unfold setNext; rw [node_eq s a nd h]; rfl

theorem setPrev_eq {s : LstS α} {a : Nat} {nd : Node α} (h : s.heap[a]? = some (some nd)) (v : Option Nat) :
    s.setPrev a v = some { s with heap := s.heap.setIfInBounds a (some { nd with prev := v }) } := by
  unfold setPrev; rw [node_eq s a nd h]; rfl

/-- stage 1 of `List_Link`: the left neighbour (or `head`) -/
theorem linkPrev_spec {s : LstS α} {pre post : List (Nat × α)} {q0 : Option Nat} (n : Nat) (nd0 : Node α)
    (hnd : ((pre ++ post).map (·.1)).Nodup) (hs1 : Seg s.heap none pre q0) (hs2 : Seg s.heap (lastOf pre none) post none)
    (hn : s.heap[n]? = some (some nd0)) (hfresh : n ∉ (pre ++ post).map (·.1)) (hhead : pre ≠ [] → s.head = nextOf pre none) :
    ∃ s1, s.linkPrev n (lastOf pre none) = some s1 ∧ Seg s1.heap none pre (some n) ∧ Seg s1.heap (lastOf pre none) post none ∧
      s1.heap[n]? = some (some nd0) ∧ s1.head = nextOf pre (some n) ∧ s1.tail = s.tail ∧ s1.nitems = s.nitems ∧
      s1.heap.size = s.heap.size := by
  cases pre with
  | nil => exact ⟨{ s with head := some n }, rfl, trivial, hs2, hn, rfl, rfl, rfl, rfl⟩
  | cons x xs =>
    obtain ⟨p, hp, hpm⟩ := lastOf_mem (x :: xs) (by simp) none
    obtain ⟨ndp, hndp⟩ := hs1.live p hpm
    rw [List.map_append, List.nodup_append] at hnd
    have hpn : p ≠ n := by
      intro e; subst e; exact hfresh (by rw [List.map_append, List.mem_append]; exact Or.inl hpm)
    refine ⟨{ s with heap := s.heap.setIfInBounds p (some { ndp with next := some n }) },
      by rw [hp]; exact setNext_eq hndp (some n), ?_, ?_, ?_, ?_, rfl, rfl, by simp⟩
    · exact hs1.setExit p ndp (some n) hnd.1 hp (by simp) hndp
    · apply Seg.frame _ hs2
      intro b hb
      show (s.heap.setIfInBounds p _)[b]? = _
      rw [Array.getElem?_setIfInBounds, if_neg (by intro e; subst e; exact hnd.2.2 _ hpm _ hb rfl)]
    · show (s.heap.setIfInBounds p _)[n]? = _
      rw [Array.getElem?_setIfInBounds, if_neg hpn]; exact hn
    · show s.head = _
      rw [hhead (by simp)]; exact nextOf_ne_nil _ (by simp) _ _

/-- stage 2 of `List_Link`: the right neighbour (or `tail`) -/
theorem linkNext_spec {s : LstS α} {pre post : List (Nat × α)} {p0 : Option Nat} (n : Nat) (nd0 : Node α)
    (hnd : ((pre ++ post).map (·.1)).Nodup) (hs1 : Seg s.heap none pre (some n)) (hs2 : Seg s.heap p0 post none)
    (hn : s.heap[n]? = some (some nd0)) (hfresh : n ∉ (pre ++ post).map (·.1)) (htail : post ≠ [] → s.tail = lastOf post none) :
    ∃ s2, s.linkNext n (nextOf post none) = some s2 ∧ Seg s2.heap none pre (some n) ∧ Seg s2.heap (some n) post none ∧
      s2.heap[n]? = some (some nd0) ∧ s2.tail = lastOf post (some n) ∧ s2.head = s.head ∧ s2.nitems = s.nitems ∧
      s2.heap.size = s.heap.size := by
  cases post with
  | nil => exact ⟨{ s with tail := some n }, rfl, hs1, trivial, hn, rfl, rfl, rfl, rfl⟩
  | cons x xs =>
    obtain ⟨c, w⟩ := x
    have hndc := hs2.1
    rw [List.map_append, List.nodup_append] at hnd
    have hcn : c ≠ n := by
      intro e; subst e; exact hfresh (by simp)
    have hcx : c ∉ xs.map (·.1) := by
      have := hnd.2.1; simp only [List.map_cons, List.nodup_cons] at this; exact this.1
    refine ⟨{ s with heap := s.heap.setIfInBounds c (some { (⟨p0, nextOf xs none, w⟩ : Node α) with prev := some n }) },
      setPrev_eq hndc (some n), ?_, ?_, ?_, ?_, rfl, rfl, by simp⟩
    · apply Seg.frame _ hs1
      intro b hb
      show (s.heap.setIfInBounds c _)[b]? = _
      rw [Array.getElem?_setIfInBounds, if_neg (by intro e; subst e; exact hnd.2.2 _ hb c (by simp) rfl)]
    · exact hs2.setEntry _ (some n) hcx hndc
    · show (s.heap.setIfInBounds c _)[n]? = _
      rw [Array.getElem?_setIfInBounds, if_neg hcn]; exact hn
    · show s.tail = _
      rw [htail (by simp)]; rfl

/-- `List_Link` of a live node that is not in the chain, between the two halves `pre` / `post` of the chain -/
theorem link_chain {s : LstS α} {pre post : List (Nat × α)} (hc : s.Chain (pre ++ post)) (n : Nat) (nd0 : Node α)
    (hn : s.heap[n]? = some (some nd0)) (hfresh : n ∉ (pre ++ post).map (·.1)) :
    ∃ s', s.link n (lastOf pre none) (nextOf post none) = some s' ∧ s'.Chain (pre ++ (n, nd0.val) :: post) ∧
      s'.nitems = s.nitems ∧ s'.heap.size = s.heap.size := by
  obtain ⟨hs1, hs2⟩ := Seg.append.1 hc.seg
  obtain ⟨s1, e1, a1, a2, a3, a4, a5, a6, a7⟩ := linkPrev_spec n nd0 hc.nodup hs1 hs2 hn hfresh
    (fun hne => by rw [hc.head, nextOf_append]; exact nextOf_ne_nil _ hne _ _)
  obtain ⟨s2, e2, b1, b2, b3, b4, b5, b6, b7⟩ := linkNext_spec n nd0 hc.nodup a1 a2 a3 hfresh
    (fun hne => by rw [a5, hc.tail, lastOf_append]; exact lastOf_ne_nil _ hne _ _)
  have hlt : n < s2.heap.size := heap_lt b3
  have hfresh' := hfresh
  rw [List.map_append, List.mem_append, not_or] at hfresh'
  let s3 : LstS α := { s2 with heap := s2.heap.setIfInBounds n (some { nd0 with next := nextOf post none }) }
  let s4 : LstS α := { s3 with heap := s3.heap.setIfInBounds n (some ⟨lastOf pre none, nextOf post none, nd0.val⟩) }
  have hget : ∀ b, s4.heap[b]? = if b = n then some (some ⟨lastOf pre none, nextOf post none, nd0.val⟩) else s2.heap[b]? := by
    intro b
    show ((s2.heap.setIfInBounds n _).setIfInBounds n _)[b]? = _
    simp only [Array.getElem?_setIfInBounds, Array.size_setIfInBounds]
    by_cases hb : b = n
    · subst hb; simp [hlt]
    · rw [if_neg (by omega), if_neg (by omega), if_neg hb]
  refine ⟨s4, ?_, ⟨?_, ?_, ?_, ?_⟩, ?_, ?_⟩
  · unfold link
    rw [e1, Option.bind_some, e2, Option.bind_some, setNext_eq b3, Option.bind_some]
    rw [setPrev_eq (nd := { nd0 with next := nextOf post none })
      (by simp [Array.getElem?_setIfInBounds, hlt])]
  · have := hc.nodup
    rw [List.map_append] at this ⊢
    rw [List.map_cons]
    exact (List.perm_middle.nodup_iff).2 (List.nodup_cons.2 ⟨by rw [← List.map_append]; exact hfresh, this⟩)
  · rw [Seg.middle]
    refine ⟨?_, ?_, ?_⟩
    · apply Seg.frame _ b1
      intro b hb
      rw [hget, if_neg (by intro e; subst e; exact hfresh'.1 hb)]
    · rw [hget, if_pos rfl]
    · apply Seg.frame _ b2
      intro b hb
      rw [hget, if_neg (by intro e; subst e; exact hfresh'.2 hb)]
  · show s2.head = _
    rw [b5, a4, nextOf_append]; cases pre <;> rfl
  · show s2.tail = _
    rw [b4, lastOf_append]; rfl
  · show s2.nitems = _; rw [b6, a6]
  · show ((s2.heap.setIfInBounds n _).setIfInBounds n _).size = _
    simp [b7, a7]

theorem nodup_middle_iff {pre post : List (Nat × α)} {a : Nat} {v : α} :
    ((pre ++ (a, v) :: post).map (·.1)).Nodup ↔ a ∉ (pre ++ post).map (·.1) ∧ ((pre ++ post).map (·.1)).Nodup := by
  rw [List.map_append, List.map_cons, List.perm_middle.nodup_iff, List.nodup_cons, ← List.map_append]

/-- `List_Unlink` of the node at a position of the chain: the chain without it (the node itself stays allocated) -/
theorem unlink_chain {s : LstS α} {pre post : List (Nat × α)} {a : Nat} {v : α} (hc : s.Chain (pre ++ (a, v) :: post)) :
    ∃ s', s.unlink a = some s' ∧ s'.Chain (pre ++ post) ∧ s'.nitems = s.nitems ∧ s'.heap.size = s.heap.size ∧
      ∃ nd, s'.heap[a]? = some (some nd) := by
  obtain ⟨hs1, hna, hs2⟩ := Seg.middle.1 hc.seg
  obtain ⟨hfresh, hnd⟩ := nodup_middle_iff.1 hc.nodup
  have hnd' := hnd
  rw [List.map_append, List.nodup_append] at hnd'
  rw [List.map_append, List.mem_append, not_or] at hfresh
  have hhead : s.head = nextOf pre (some a) := by rw [hc.head, nextOf_append]; rfl
  have htail : s.tail = lastOf post (some a) := by rw [hc.tail, lastOf_append]; rfl
  have hlt := heap_lt hna
  unfold unlink
  rw [node_eq s a _ hna]
  simp only
  cases pre with
  | nil =>
    cases post with
    | nil =>
      rw [if_pos (show some a = s.head ∧ some a = s.tail from ⟨hhead.symm, htail.symm⟩)]
      exact ⟨_, rfl, ⟨by simp, trivial, rfl, rfl⟩, rfl, rfl, _, hna⟩
    | cons y ys =>
      obtain ⟨c, w⟩ := y
      have hta : ¬ (some a = s.tail) := by
        obtain ⟨b, hb, hbm⟩ := lastOf_mem ((c, w) :: ys) (by simp) (some a)
        rw [htail, hb]; intro e; cases e; exact hfresh.2 hbm
      rw [if_neg (fun h => hta h.2), if_pos (show some a = s.head from hhead.symm)]
      have hndc := hs2.1
      have hca : c ≠ a := by intro e; subst e; exact hfresh.2 (by simp)
      have hcx : c ∉ ys.map (·.1) := by
        have := hnd'.2.1; simp only [List.map_cons, List.nodup_cons] at this; exact this.1
      show ∃ s', (match nextOf ((c, w) :: ys) none with
        | none => none
        | some n => ({ s with head := nextOf ((c, w) :: ys) none } : LstS α).setPrev n none) = some s' ∧ _
      simp only [nextOf]
      rw [setPrev_eq (s := { s with head := some c }) hndc none]
      have hlive : (s.heap.setIfInBounds c (some { (⟨some a, nextOf ys none, w⟩ : Node α) with prev := none }))[a]? = s.heap[a]? := by
        rw [Array.getElem?_setIfInBounds, if_neg hca]
      refine ⟨_, rfl, ⟨hnd, ?_, rfl, ?_⟩, rfl, by simp, ⟨_, hlive.trans hna⟩⟩
      · exact hs2.setEntry _ none hcx hndc
      · show s.tail = _; rw [htail]; rfl
  | cons x xs =>
    have hha : ¬ (some a = s.head) := by
      obtain ⟨b, hb, hbm⟩ := nextOf_mem (x :: xs) (by simp) (some a)
      rw [hhead, hb]; intro e; cases e; exact hfresh.1 hbm
    rw [if_neg (fun h => hha h.1), if_neg hha]
    obtain ⟨p, hp, hpm⟩ := lastOf_mem (x :: xs) (by simp) none
    obtain ⟨ndp, hndp⟩ := hs1.live p hpm
    have hpa : p ≠ a := by intro e; subst e; exact hfresh.1 hpm
    cases post with
    | nil =>
      rw [if_pos (show some a = s.tail from htail.symm), hp]
      simp only
      rw [setNext_eq (s := { s with tail := some p }) hndp none]
      have hlive : (s.heap.setIfInBounds p (some { ndp with next := none }))[a]? = s.heap[a]? := by
        rw [Array.getElem?_setIfInBounds, if_neg hpa]
      refine ⟨_, rfl, ⟨hnd, ?_, ?_, ?_⟩, rfl, by simp, ⟨_, hlive.trans hna⟩⟩
      · simp only [List.append_nil]
        exact hs1.setExit p ndp none (by simpa using hnd'.1) hp (by simp) hndp
      · show s.head = _; rw [hhead]; simp only [List.append_nil]; exact nextOf_ne_nil _ (by simp) _ _
      · show some p = _; simp only [List.append_nil]; exact hp.symm
    | cons y ys =>
      obtain ⟨c, w⟩ := y
      have hta : ¬ (some a = s.tail) := by
        obtain ⟨b, hb, hbm⟩ := lastOf_mem ((c, w) :: ys) (by simp) (some a)
        rw [htail, hb]; intro e; cases e; exact hfresh.2 hbm
      rw [if_neg hta, hp]
      simp only [nextOf]
      have hndc := hs2.1
      have hca : c ≠ a := by intro e; subst e; exact hfresh.2 (by simp)
      have hcp : p ≠ c := by intro e; subst e; exact hnd'.2.2 _ hpm _ (by simp) rfl
      have hcx : c ∉ ys.map (·.1) := by
        have := hnd'.2.1; simp only [List.map_cons, List.nodup_cons] at this; exact this.1
      rw [setNext_eq hndp (some c), Option.bind_some]
      have hndc1 : (s.heap.setIfInBounds p (some { ndp with next := some c }))[c]? = some (some ⟨some a, nextOf ys none, w⟩) := by
        rw [Array.getElem?_setIfInBounds, if_neg hcp]; exact hndc
      rw [setPrev_eq (s := { s with heap := s.heap.setIfInBounds p (some { ndp with next := some c }) }) hndc1 (some p)]
      have e1 : Seg (s.heap.setIfInBounds p (some { ndp with next := some c })) none (x :: xs) (some c) :=
        hs1.setExit p ndp (some c) hnd'.1 hp (by simp) hndp
      have e2 : Seg (s.heap.setIfInBounds p (some { ndp with next := some c })) (some a) ((c, w) :: ys) none := by
        apply Seg.frame _ hs2
        intro b hb
        rw [Array.getElem?_setIfInBounds, if_neg (by intro e; subst e; exact hnd'.2.2 _ hpm _ hb rfl)]
      have hlive : (Array.setIfInBounds (s.heap.setIfInBounds p (some { ndp with next := some c })) c
          (some { (⟨some a, nextOf ys none, w⟩ : Node α) with prev := some p }))[a]? = s.heap[a]? := by
        rw [Array.getElem?_setIfInBounds, if_neg hca, Array.getElem?_setIfInBounds, if_neg hpa]
      refine ⟨_, rfl, ⟨hnd, ?_, ?_, ?_⟩, rfl, by simp, ⟨_, hlive.trans hna⟩⟩
      · rw [Seg.append]
        refine ⟨?_, ?_⟩
        · apply Seg.frame _ e1
          intro b hb
          show (Array.setIfInBounds _ c _)[b]? = _
          rw [Array.getElem?_setIfInBounds, if_neg (by intro e; subst e; exact hnd'.2.2 _ hb c (by simp) rfl)]
        · rw [hp]; exact e2.setEntry _ (some p) hcx hndc1
      · show s.head = _; rw [hhead, nextOf_append]; exact nextOf_ne_nil _ (by simp) _ _
      · show s.tail = _; rw [htail, lastOf_append]; rfl

/-- unlink + destruct + free + `nitems--` -/
theorem remove_chain {s : LstS α} {pre post : List (Nat × α)} {a : Nat} {v : α} (hc : s.Chain (pre ++ (a, v) :: post)) :
    ∃ s', s.remove a = (s', .ok ()) ∧ s'.Chain (pre ++ post) ∧ s'.nitems = s.nitems - 1 ∧ s'.heap.size = s.heap.size := by
  obtain ⟨s1, e1, c1, n1, z1, nd, hnd⟩ := unlink_chain hc
  obtain ⟨hfresh, _⟩ := nodup_middle_iff.1 hc.nodup
  unfold remove
  rw [e1]; simp only
  unfold free
  rw [node_eq s1 a nd hnd]; simp only
  refine ⟨_, rfl, ⟨c1.nodup, ?_, c1.head, c1.tail⟩, by show s1.nitems - 1 = _; rw [n1], by simp [z1]⟩
  apply Seg.frame _ c1.seg
  intro b hb
  show (s1.heap.setIfInBounds a none)[b]? = _
  rw [Array.getElem?_setIfInBounds, if_neg (by intro e; subst e; exact hfresh hb)]

/-! ### reading the chain: nodes by position, the two walks of `List_At` -/

theorem split_at {cells : List (Nat × α)} {k : Nat} {a : Nat} {v : α} (hk : cells[k]? = some (a, v)) :
    cells = cells.take k ++ (a, v) :: cells.drop (k + 1) := by
  obtain ⟨hlt, he⟩ := List.getElem?_eq_some_iff.1 hk
  have := List.take_append_drop k cells
  rw [List.drop_eq_getElem_cons hlt, he] at this
  exact this.symm

theorem Chain.node_at {s : LstS α} {cells : List (Nat × α)} (hc : s.Chain cells) {k a : Nat} {v : α}
    (hk : cells[k]? = some (a, v)) :
    s.heap[a]? = some (some ⟨lastOf (cells.take k) none, nextOf (cells.drop (k + 1)) none, v⟩) := by
  have hs := hc.seg
  rw [split_at hk] at hs
  exact (Seg.middle.1 hs).2.1

theorem nextOf_drop (cells : List (Nat × α)) (j : Nat) : nextOf (cells.drop j) none = (cells[j]?).map (·.1) := by
  by_cases hj : j < cells.length
  · rw [List.drop_eq_getElem_cons hj, List.getElem?_eq_getElem hj]; rfl
  · rw [List.drop_eq_nil_of_le (by omega), List.getElem?_eq_none (by omega)]; rfl

theorem lastOf_take_succ (cells : List (Nat × α)) (j : Nat) (hj : j < cells.length) :
    lastOf (cells.take (j + 1)) none = some cells[j].1 := by
  rw [List.take_succ_eq_append_getElem hj, lastOf_append]
  rfl

theorem Chain.walkNext {s : LstS α} {cells : List (Nat × α)} (hc : s.Chain cells) : ∀ (m j : Nat),
    s.walkNext m (nextOf (cells.drop j) none) = nextOf (cells.drop (j + m)) none := by
  intro m
  induction m with
  | zero => intro j; rfl
  | succ m ih =>
    intro j
    by_cases hj : j < cells.length
    · have hk : cells[j]? = some (cells[j].1, cells[j].2) := List.getElem?_eq_getElem hj
      rw [nextOf_drop, List.getElem?_eq_getElem hj]
      simp only [LstS.walkNext, Option.map_some, node_eq s _ _ (hc.node_at hk)]
      rw [ih (j + 1)]; congr 2; omega
    · rw [List.drop_eq_nil_of_le (by omega), List.drop_eq_nil_of_le (by omega)]; rfl

theorem Chain.walkPrev {s : LstS α} {cells : List (Nat × α)} (hc : s.Chain cells) : ∀ (m j : Nat), j ≤ cells.length →
    s.walkPrev m (lastOf (cells.take j) none) = lastOf (cells.take (j - m)) none := by
  intro m
  induction m with
  | zero => intro j _; rfl
  | succ m ih =>
    intro j hj
    cases j with
    | zero => simp [LstS.walkPrev, lastOf]
    | succ j =>
      have hjl : j < cells.length := by omega
      have hk : cells[j]? = some (cells[j].1, cells[j].2) := List.getElem?_eq_getElem hjl
      rw [lastOf_take_succ cells j hjl]
      simp only [LstS.walkPrev, node_eq s _ _ (hc.node_at hk)]
      rw [ih j (by omega)]; congr 2; omega

/-- `List_At` under the abstraction: the node of the abstract index, from whichever end -/
theorem nodeAt_some {s : LstS α} {cells : List (Nat × α)} (hc : s.Chain cells) (hn : s.nitems = cells.length)
    (i : Int) (k : Nat) (hk : Spec.idx cells.length i = some k) :
    ∃ a v, cells[k]? = some (a, v) ∧ s.nodeAt i = .ok a := by
  obtain ⟨h1, h2, h3⟩ := idx_some _ _ _ hk
  refine ⟨cells[k].1, cells[k].2, List.getElem?_eq_getElem h3, ?_⟩
  have hkk : cells[k]? = some (cells[k].1, cells[k].2) := List.getElem?_eq_getElem h3
  unfold LstS.nodeAt
  simp only [hn]
  rw [if_neg h1, h2]
  have hlive : (s.node cells[k].1).isSome = true := by rw [node_eq s _ _ (hc.node_at hkk)]; rfl
  by_cases hhalf : k ≤ cells.length / 2
  · rw [if_pos hhalf, hc.head]
    have := hc.walkNext k 0
    simp only [List.drop_zero, Nat.zero_add] at this
    rw [this, nextOf_drop, List.getElem?_eq_getElem h3]
    simp only [Option.map_some, hlive, if_true]
  · rw [if_neg hhalf, hc.tail]
    have := hc.walkPrev (cells.length - k - 1) cells.length (Nat.le_refl _)
    rw [List.take_length] at this
    rw [this]
    have e : cells.length - (cells.length - k - 1) = k + 1 := by omega
    rw [e, lastOf_take_succ cells k h3]
    simp only [hlive, if_true]

theorem nodeAt_none {s : LstS α} {cells : List (Nat × α)} (hn : s.nitems = cells.length)
    (i : Int) (hk : Spec.idx cells.length i = none) : s.nodeAt i = .raised .indexOutOfBounds := by
  have hc := idx_none _ _ hk
  unfold LstS.nodeAt
  simp only [hn]
  rw [if_pos hc]

/-! ### one store-level operation = the list-level operation -/

theorem Abs.intro {s : LstS α} {cells : List (Nat × α)} (hc : s.Chain cells) (hn : s.nitems = cells.length) :
    s.Abs ⟨cells.map (·.2), cells.length⟩ := ⟨cells, hc, rfl, rfl, hn⟩

theorem alloc_chain {s : LstS α} {cells : List (Nat × α)} (hc : s.Chain cells) (x : α) :
    (s.alloc x).1.Chain cells ∧ (s.alloc x).2 = s.heap.size ∧
    (s.alloc x).1.heap[s.heap.size]? = some (some ⟨none, none, x⟩) ∧ s.heap.size ∉ cells.map (·.1) ∧
    (s.alloc x).1.nitems = s.nitems ∧ (s.alloc x).1.head = s.head ∧ (s.alloc x).1.tail = s.tail := by
  have hfresh : s.heap.size ∉ cells.map (·.1) := by
    intro hm
    obtain ⟨nd, hnd⟩ := hc.seg.live _ hm
    have := heap_lt hnd; omega
  refine ⟨⟨hc.nodup, ?_, hc.head, hc.tail⟩, rfl, by simp [LstS.alloc], hfresh, rfl, rfl, rfl⟩
  apply Seg.frame _ hc.seg
  intro b hb
  show (s.heap.push _)[b]? = _
  rw [Array.getElem?_push, if_neg (by intro e; subst e; exact hfresh hb)]

theorem push_sim {s : LstS α} {l : Lst α} (h : s.Abs l) (x : α) :
    (s.push x).1.Abs (l.push x).1 ∧ (s.push x).2 = (l.push x).2 := by
  obtain ⟨cells, hc, hi, hl, hn⟩ := h
  obtain ⟨items, nitems⟩ := l
  simp only at hi hl; subst hi hl
  obtain ⟨c1, e1, hnode, hfresh, n1, _, t1⟩ := alloc_chain hc x
  have hc1 : (s.alloc x).1.Chain (cells ++ []) := by rw [List.append_nil]; exact c1
  obtain ⟨s2, e2, c2, n2, _⟩ := link_chain hc1 s.heap.size ⟨none, none, x⟩ hnode (by rw [List.append_nil]; exact hfresh)
  have e : s.push x = ({ s2 with nitems := s2.nitems + 1 }, .ok ()) := by
    have e2' : (s.alloc x).1.link s.heap.size (lastOf cells none) none = some s2 := e2
    unfold LstS.push
    simp only [e1, c1.tail, e2']
  rw [e]
  refine ⟨⟨cells ++ [(s.heap.size, x)], ⟨c2.nodup, c2.seg, c2.head, c2.tail⟩, by simp [Lst.push], by simp [Lst.push], ?_⟩, rfl⟩
  show s2.nitems + 1 = _
  rw [n2, n1, hn]; simp

theorem pop_sim {s : LstS α} {l : Lst α} (h : s.Abs l) :
    s.pop.1.Abs l.pop.1 ∧ s.pop.2 = l.pop.2 := by
  obtain ⟨cells, hc, hi, hl, hn⟩ := h
  obtain ⟨items, nitems⟩ := l
  simp only at hi hl; subst hi hl
  unfold LstS.pop Lst.pop
  simp only [hn]
  by_cases h0 : cells.length = 0
  · rw [if_pos h0, if_pos h0]; exact ⟨⟨cells, hc, rfl, rfl, hn⟩, rfl⟩
  · rw [if_neg h0, if_neg h0]
    have hlast : cells.length - 1 < cells.length := by omega
    have hk : cells[cells.length - 1]? = some (cells[cells.length - 1].1, cells[cells.length - 1].2) :=
      List.getElem?_eq_getElem hlast
    have hsplit := split_at hk
    have hdrop : cells.drop (cells.length - 1 + 1) = [] := List.drop_eq_nil_of_le (by omega)
    rw [hdrop] at hsplit
    have htail : s.tail = some cells[cells.length - 1].1 := by
      rw [hc.tail]
      have := lastOf_take_succ cells (cells.length - 1) hlast
      rw [show cells.length - 1 + 1 = cells.length by omega, List.take_length] at this
      exact this
    rw [htail]
    simp only
    have hc' := hc
    rw [hsplit] at hc'
    obtain ⟨s', e, c', n', _⟩ := remove_chain hc'
    rw [e]
    simp only [List.append_nil] at c'
    refine ⟨⟨cells.take (cells.length - 1), c', ?_, ?_, ?_⟩, rfl⟩
    · simp only [List.map_take, List.dropLast_eq_take, List.length_map]
    · simp
    · rw [n', hn]; simp

theorem pushAt_sim {s : LstS α} {l : Lst α} (h : s.Abs l) (x : α) (i : Int) :
    (s.pushAt x i).1.Abs (l.pushAt x i).1 ∧ (s.pushAt x i).2 = (l.pushAt x i).2 := by
  have hinv := h.inv
  obtain ⟨cells, hc, hi, hl, hn⟩ := h
  obtain ⟨items, nitems⟩ := l
  simp only at hi hl; subst hi hl
  obtain ⟨c1, e1, hnode, hfresh, n1, hd1, t1⟩ := alloc_chain hc x
  unfold LstS.pushAt Lst.pushAt
  by_cases h0 : i = 0
  · simp only [h0, if_true]
    have hc1 : (s.alloc x).1.Chain ([] ++ cells) := c1
    obtain ⟨s2, e2, c2, n2, _⟩ := link_chain hc1 s.heap.size ⟨none, none, x⟩ hnode hfresh
    have e2' : (s.alloc x).1.link s.heap.size none (nextOf cells none) = some s2 := e2
    simp only [e1, c1.head, e2']
    refine ⟨⟨(s.heap.size, x) :: cells, ⟨c2.nodup, c2.seg, c2.head, c2.tail⟩, by simp, by simp, ?_⟩, trivial⟩
    show s2.nitems + 1 = _
    rw [n2, n1, hn]; simp
  · simp only [h0, if_false]
    cases hk : Spec.idx cells.length i with
    | none =>
      rw [nodeAt_none hn i hk]
      have := Lst.nodeAt_none ⟨cells.map (·.2), cells.length⟩ hinv i (by simpa using hk)
      rw [this]
      exact ⟨⟨cells, hc, rfl, rfl, hn⟩, rfl⟩
    | some k =>
      obtain ⟨a, v, hkc, hna⟩ := nodeAt_some hc hn i k hk
      obtain ⟨v', hv', hla⟩ := Lst.nodeAt_some ⟨cells.map (·.2), cells.length⟩ hinv i k (by simpa using hk)
      rw [hna, hla]
      simp only
      have hsplit := split_at hkc
      have hklt : k < cells.length := (List.getElem?_eq_some_iff.1 hkc).1
      have hdrop : cells.drop k = (a, v) :: cells.drop (k + 1) := by
        rw [List.drop_eq_getElem_cons hklt]; congr 1
        exact (List.getElem?_eq_some_iff.1 hkc).2
      have hc1 : (s.alloc x).1.Chain (cells.take k ++ cells.drop k) := by rw [List.take_append_drop]; exact c1
      obtain ⟨s2, e2, c2, n2, _⟩ := link_chain hc1 s.heap.size ⟨none, none, x⟩ hnode
        (by rw [List.take_append_drop]; exact hfresh)
      have hnda := c1.node_at hkc
      have e2' : (s.alloc x).1.link s.heap.size (lastOf (cells.take k) none) (some a) = some s2 := by
        rw [show some a = nextOf (cells.drop k) none by rw [hdrop]; rfl]; exact e2
      simp only [node_eq _ a _ hnda, e1, e2']
      refine ⟨⟨cells.take k ++ (s.heap.size, x) :: cells.drop k, ⟨c2.nodup, c2.seg, c2.head, c2.tail⟩, ?_, ?_, ?_⟩, trivial⟩
      · simp [List.map_take, List.map_drop]
      · simp; omega
      · show s2.nitems + 1 = _
        rw [n2, n1, hn]; simp; omega

/-- removing the node at position `k` of the chain -/
theorem remove_at {s : LstS α} {cells : List (Nat × α)} (hc : s.Chain cells) (hn : s.nitems = cells.length)
    {k a : Nat} {v : α} (hk : cells[k]? = some (a, v)) :
    ∃ s', s.remove a = (s', .ok ()) ∧ s'.Chain (cells.take k ++ cells.drop (k + 1)) ∧
      s'.nitems = (cells.take k ++ cells.drop (k + 1)).length := by
  have hc' := hc
  rw [split_at hk] at hc'
  obtain ⟨s', e, c', n', _⟩ := remove_chain hc'
  have hklt : k < cells.length := (List.getElem?_eq_some_iff.1 hk).1
  refine ⟨s', e, c', ?_⟩
  rw [n', hn]; simp; omega

theorem popAt_sim {s : LstS α} {l : Lst α} (h : s.Abs l) (i : Int) :
    (s.popAt i).1.Abs (l.popAt i).1 ∧ (s.popAt i).2 = (l.popAt i).2 := by
  have hinv := h.inv
  obtain ⟨cells, hc, hi, hl, hn⟩ := h
  obtain ⟨items, nitems⟩ := l
  simp only at hi hl; subst hi hl
  unfold LstS.popAt Lst.popAt
  cases hk : Spec.idx cells.length i with
  | none =>
    rw [nodeAt_none hn i hk, Lst.nodeAt_none ⟨cells.map (·.2), cells.length⟩ hinv i (by simpa using hk)]
    exact ⟨⟨cells, hc, rfl, rfl, hn⟩, rfl⟩
  | some k =>
    obtain ⟨a, v, hkc, hna⟩ := nodeAt_some hc hn i k hk
    obtain ⟨v', hv', hla⟩ := Lst.nodeAt_some ⟨cells.map (·.2), cells.length⟩ hinv i k (by simpa using hk)
    rw [hna, hla]
    simp only
    obtain ⟨s', e, c', n'⟩ := remove_at hc hn hkc
    have hklt : k < cells.length := (List.getElem?_eq_some_iff.1 hkc).1
    rw [e]
    refine ⟨⟨_, c', ?_, ?_, n'⟩, rfl⟩
    · simp [List.map_take, List.map_drop]
    · simp; omega

theorem get_sim {s : LstS α} {l : Lst α} (h : s.Abs l) (i : Int) : s.get i = l.get i := by
  have hinv := h.inv
  obtain ⟨cells, hc, hi, hl, hn⟩ := h
  obtain ⟨items, nitems⟩ := l
  simp only at hi hl; subst hi hl
  unfold LstS.get Lst.get
  cases hk : Spec.idx cells.length i with
  | none =>
    rw [nodeAt_none hn i hk, Lst.nodeAt_none ⟨cells.map (·.2), cells.length⟩ hinv i (by simpa using hk)]
  | some k =>
    obtain ⟨a, v, hkc, hna⟩ := nodeAt_some hc hn i k hk
    obtain ⟨v', hv', hla⟩ := Lst.nodeAt_some ⟨cells.map (·.2), cells.length⟩ hinv i k (by simpa using hk)
    rw [hna, hla]
    simp only [node_eq s a _ (hc.node_at hkc)]
    simp only [List.getElem?_map, hkc, Option.map_some, Option.some.injEq] at hv'
    rw [hv']

theorem set_sim {s : LstS α} {l : Lst α} (h : s.Abs l) (i : Int) (x : α) :
    (s.set i x).1.Abs (l.set i x).1 ∧ (s.set i x).2 = (l.set i x).2 := by
  have hinv := h.inv
  obtain ⟨cells, hc, hi, hl, hn⟩ := h
  obtain ⟨items, nitems⟩ := l
  simp only at hi hl; subst hi hl
  unfold LstS.set Lst.set
  cases hk : Spec.idx cells.length i with
  | none =>
    rw [nodeAt_none hn i hk, Lst.nodeAt_none ⟨cells.map (·.2), cells.length⟩ hinv i (by simpa using hk)]
    exact ⟨⟨cells, hc, rfl, rfl, hn⟩, rfl⟩
  | some k =>
    obtain ⟨a, v, hkc, hna⟩ := nodeAt_some hc hn i k hk
    obtain ⟨v', hv', hla⟩ := Lst.nodeAt_some ⟨cells.map (·.2), cells.length⟩ hinv i k (by simpa using hk)
    rw [hna, hla]
    have hnode := hc.node_at hkc
    have hklt : k < cells.length := (List.getElem?_eq_some_iff.1 hkc).1
    have hlt := heap_lt hnode
    simp only [LstS.setVal, node_eq s a _ hnode]
    have hsplit := split_at hkc
    have hseg := hc.seg
    rw [hsplit] at hseg
    obtain ⟨g1, g2, g3⟩ := Seg.middle.1 hseg
    have hnd := hc.nodup
    rw [hsplit] at hnd
    obtain ⟨hfresh, _⟩ := nodup_middle_iff.1 hnd
    rw [List.map_append, List.mem_append, not_or] at hfresh
    have hcells' : cells.set k (a, x) = cells.take k ++ (a, x) :: cells.drop (k + 1) := by
      rw [List.set_eq_take_append_cons_drop, if_pos hklt]
    refine ⟨⟨cells.set k (a, x), ⟨?_, ?_, ?_, ?_⟩, ?_, ?_, ?_⟩, trivial⟩
    · rw [hcells']
      have := hc.nodup
      rw [hsplit] at this
      simpa [List.map_append] using this
    · rw [hcells', Seg.middle]
      refine ⟨?_, ?_, ?_⟩
      · apply Seg.frame _ g1
        intro b hb
        show (s.heap.setIfInBounds a _)[b]? = _
        rw [Array.getElem?_setIfInBounds, if_neg (by intro e; subst e; exact hfresh.1 hb)]
      · show (s.heap.setIfInBounds a _)[a]? = _
        simp [Array.getElem?_setIfInBounds, hlt]
      · apply Seg.frame _ g3
        intro b hb
        show (s.heap.setIfInBounds a _)[b]? = _
        rw [Array.getElem?_setIfInBounds, if_neg (by intro e; subst e; exact hfresh.2 hb)]
    · show s.head = _
      rw [hc.head, hcells']
      conv => lhs; rw [hsplit]
      rw [nextOf_append, nextOf_append]; rfl
    · show s.tail = _
      rw [hc.tail, hcells']
      conv => lhs; rw [hsplit]
      rw [lastOf_append, lastOf_append]; rfl
    · simp [List.map_set]
    · simp
    · show s.nitems = _; rw [hn]; simp

theorem find_none [BEq α] (s : LstS α) (x : α) (fuel : Nat) : s.find x fuel none = .ok none := by
  cases fuel <;> rfl

/-- the walk of `List_Mem` / `List_Rem` finds the node of the first equal element -/
theorem Chain.find [BEq α] {s : LstS α} {cells : List (Nat × α)} (hc : s.Chain cells) (x : α) :
    ∀ (fuel j : Nat), cells.length - j < fuel →
      s.find x fuel (nextOf (cells.drop j) none) =
        .ok (match ((cells.drop j).map (·.2)).findIdx? (· == x) with
          | none => none
          | some r => (cells[j + r]?).map (·.1)) := by
  intro fuel
  induction fuel with
  | zero => intro j hj; omega
  | succ fuel ih =>
    intro j hj
    by_cases hjl : j < cells.length
    · have hk : cells[j]? = some (cells[j].1, cells[j].2) := List.getElem?_eq_getElem hjl
      rw [List.drop_eq_getElem_cons hjl]
      rw [show nextOf (cells[j] :: cells.drop (j + 1)) none = some cells[j].1 from rfl]
      simp only [LstS.find, node_eq s _ _ (hc.node_at hk), List.map_cons, List.findIdx?_cons]
      by_cases hx : (cells[j].2 == x) = true
      · simp [hx, List.getElem?_eq_getElem hjl]
      · simp only [hx, Bool.false_eq_true, if_false]
        rw [ih (j + 1) (by omega)]
        cases ((cells.drop (j + 1)).map (·.2)).findIdx? (· == x) with
        | none => rfl
        | some r => simp only [Option.map_some]; congr 3; omega
    · rw [List.drop_eq_nil_of_le (by omega)]
      rw [show nextOf ([] : List (Nat × α)) none = none from rfl, find_none]
      rfl

theorem find_sim [BEq α] {s : LstS α} {cells : List (Nat × α)} (hc : s.Chain cells) (hn : s.nitems = cells.length) (x : α) :
    s.find x (s.nitems + 1) s.head =
      .ok (match (cells.map (·.2)).findIdx? (· == x) with
        | none => none
        | some r => (cells[r]?).map (·.1)) := by
  have := hc.find x (s.nitems + 1) 0 (by omega)
  simp only [List.drop_zero, Nat.zero_add] at this
  rw [hc.head]; exact this

theorem findIdx?_lt {β : Type} (p : β → Bool) (l : List β) (r : Nat) (h : l.findIdx? p = some r) : r < l.length := by
  induction l generalizing r with
  | nil => simp at h
  | cons y ys ih =>
    simp only [List.findIdx?_cons] at h
    split at h
    · cases h; simp
    · simp only [Option.map_eq_some_iff] at h
      obtain ⟨j, hj, rfl⟩ := h
      have := ih j hj; simp; omega

theorem mem_sim [BEq α] {s : LstS α} {l : Lst α} (h : s.Abs l) (x : α) : s.mem x = .ok (l.mem x) := by
  obtain ⟨cells, hc, hi, hl, hn⟩ := h
  obtain ⟨items, nitems⟩ := l
  simp only at hi hl; subst hi hl
  unfold LstS.mem Lst.mem
  rw [find_sim hc hn x]
  simp only
  cases hf : (cells.map (·.2)).findIdx? (· == x) with
  | none => rw [(findIdx?_none_any _ _).1 hf]; rfl
  | some r =>
    have hr := findIdx?_lt _ _ _ hf
    simp only [List.length_map] at hr
    rw [findIdx?_some_any _ _ _ hf]
    simp only [List.getElem?_eq_getElem hr]; rfl

theorem rem_sim [BEq α] {s : LstS α} {l : Lst α} (h : s.Abs l) (x : α) :
    (s.rem x).1.Abs (l.rem x).1 ∧ (s.rem x).2 = (l.rem x).2 := by
  obtain ⟨cells, hc, hi, hl, hn⟩ := h
  obtain ⟨items, nitems⟩ := l
  simp only at hi hl; subst hi hl
  unfold LstS.rem Lst.rem
  rw [find_sim hc hn x]
  simp only
  cases hf : (cells.map (·.2)).findIdx? (· == x) with
  | none => exact ⟨⟨cells, hc, rfl, rfl, hn⟩, rfl⟩
  | some r =>
    have hr := findIdx?_lt _ _ _ hf
    simp only [List.length_map] at hr
    have hk : cells[r]? = some (cells[r].1, cells[r].2) := List.getElem?_eq_getElem hr
    simp only [List.getElem?_eq_getElem hr, Option.map_some]
    obtain ⟨s', e, c', n'⟩ := remove_at hc hn hk
    rw [e]
    refine ⟨⟨_, c', ?_, ?_, n'⟩, rfl⟩
    · simp [List.map_take, List.map_drop]
    · simp; omega

/-! push loops, clear, resize, assign -/

theorem pushAll_sim : ∀ (ys : List α) {s : LstS α} {l : Lst α}, s.Abs l →
    (s.pushAll ys).1.Abs (ys.foldl (fun l y => (l.push y).1) l) ∧ (s.pushAll ys).2 = .ok () := by
  intro ys
  induction ys with
  | nil => intro s l h; exact ⟨h, rfl⟩
  | cons y ys ih =>
    intro s l h
    obtain ⟨h1, h2⟩ := push_sim h y
    simp only [LstS.pushAll, List.foldl_cons]
    have e2 : (s.push y).2 = .ok () := h2
    rcases hp : s.push y with ⟨s1, r⟩
    rw [hp] at h1 e2
    simp only at h1 e2
    subst e2
    exact ih h1

theorem concat_sim {s : LstS α} {l : Lst α} (h : s.Abs l) (ys : List α) :
    (s.concat ys).1.Abs (l.concat ys).1 ∧ (s.concat ys).2 = (l.concat ys).2 := pushAll_sim ys h

/-- the walk of `List_Clear` frees every node of the chain and stops at the NULL link after the last one -/
theorem freeAll_some : ∀ (cells : List (Nat × α)) (s : LstS α) (p : Option Nat) (fuel : Nat),
    Seg s.heap p cells none → (cells.map (·.1)).Nodup → cells.length ≤ fuel →
    ∃ s', s.freeAll fuel (nextOf cells none) = some s' := by
  intro cells
  induction cells with
  | nil => intro s p fuel _ _ _; exact ⟨s, by cases fuel <;> rfl⟩
  | cons c cs ih =>
    intro s p fuel hs hnd hf
    obtain ⟨a, v⟩ := c
    cases fuel with
    | zero => simp at hf
    | succ fuel =>
      simp only [List.map_cons, List.nodup_cons] at hnd
      simp only [nextOf, LstS.freeAll, LstS.free, node_eq s a _ hs.1]
      apply ih _ (some a) fuel _ hnd.2 (by simpa using hf)
      apply Seg.frame _ hs.2
      intro b hb
      show (s.heap.setIfInBounds a none)[b]? = _
      rw [Array.getElem?_setIfInBounds, if_neg (by intro e; subst e; exact hnd.1 hb)]

theorem clear_sim {s : LstS α} {l : Lst α} (h : s.Abs l) : s.clear.1.Abs l.clear ∧ s.clear.2 = .ok () := by
  obtain ⟨cells, hc, hi, hl, hn⟩ := h
  unfold LstS.clear
  obtain ⟨s1, e⟩ := freeAll_some cells s none (s.nitems + 1) hc.seg hc.nodup (by omega)
  rw [hc.head, e]
  exact ⟨⟨[], ⟨by simp, trivial, rfl, rfl⟩, rfl, rfl, rfl⟩, rfl⟩

theorem assign_sim {s : LstS α} {l : Lst α} (h : s.Abs l) (ys : List α) (b : Bool) :
    (s.assign ys b).1.Abs (l.assign ys b).1 ∧ (s.assign ys b).2 = (l.assign ys b).2 := by
  obtain ⟨c1, c2⟩ := clear_sim h
  unfold LstS.assign Lst.assign
  rcases hc : s.clear with ⟨c, r⟩
  rw [hc] at c1 c2
  simp only at c1 c2
  subst c2
  simp only
  cases b with
  | false => simp only [Bool.false_eq_true, if_false]; exact ⟨c1, trivial⟩
  | true => simp only [if_true]; exact pushAll_sim ys c1

theorem shrink_sim (n : Nat) : ∀ (fuel : Nat) {s : LstS α} {cells : List (Nat × α)}, s.Chain cells →
    s.nitems = cells.length → fuel = cells.length - n →
    ∃ s', s.shrink n fuel = (s', .ok ()) ∧ s'.Chain (cells.take (cells.length - fuel)) ∧
      s'.nitems = cells.length - fuel := by
  intro fuel
  induction fuel with
  | zero =>
    intro s cells hc hn _
    exact ⟨s, rfl, by simpa using hc, by simpa using hn⟩
  | succ fuel ih =>
    intro s cells hc hn hf
    have hlt : n < s.nitems := by omega
    have hlast : cells.length - 1 < cells.length := by omega
    have hk : cells[cells.length - 1]? = some (cells[cells.length - 1].1, cells[cells.length - 1].2) :=
      List.getElem?_eq_getElem hlast
    have htail : s.tail = some cells[cells.length - 1].1 := by
      rw [hc.tail]
      have := lastOf_take_succ cells (cells.length - 1) hlast
      rw [show cells.length - 1 + 1 = cells.length by omega, List.take_length] at this
      exact this
    obtain ⟨s1, e, c1, n1⟩ := remove_at hc hn hk
    have hdrop : cells.drop (cells.length - 1 + 1) = [] := List.drop_eq_nil_of_le (by omega)
    rw [hdrop, List.append_nil] at c1 n1
    have hlen1 : (cells.take (cells.length - 1)).length = cells.length - 1 := by simp
    obtain ⟨s', e', c', n'⟩ := ih c1 n1 (by rw [hlen1]; omega)
    refine ⟨s', ?_, ?_, ?_⟩
    · simp only [LstS.shrink, if_pos hlt, htail, e]; exact e'
    · rw [hlen1, List.take_take] at c'
      have : min (cells.length - 1 - fuel) (cells.length - 1) = cells.length - (fuel + 1) := by omega
      rw [this] at c'; exact c'
    · rw [n', hlen1]; omega

theorem grow_sim [Inhabited α] (n : Nat) : ∀ (fuel : Nat) {s : LstS α} {l : Lst α}, s.Abs l → fuel = n - l.nitems →
    (s.grow n fuel).1.Abs ⟨l.items ++ List.replicate fuel default, l.nitems + fuel⟩ ∧ (s.grow n fuel).2 = .ok () := by
  intro fuel
  induction fuel with
  | zero =>
    intro s l h _
    obtain ⟨items, nitems⟩ := l
    refine ⟨?_, rfl⟩
    show s.Abs _
    simpa using h
  | succ fuel ih =>
    intro s l h hf
    have hni : s.nitems = l.nitems := by
      obtain ⟨cells, _, _, h2, h3⟩ := h; rw [h2, h3]
    have hgt : n > s.nitems := by omega
    obtain ⟨h1, h2⟩ := push_sim h (default : α)
    simp only [LstS.grow, if_pos hgt]
    have e2 : (s.push default).2 = .ok () := h2
    rcases hp : s.push default with ⟨s1, r⟩
    rw [hp] at h1 e2
    simp only at h1 e2
    subst e2
    simp only
    have := ih h1 (by simp only [Lst.push]; omega)
    simp only [Lst.push, List.append_assoc, List.singleton_append] at this
    rw [List.replicate_succ, show l.nitems + (fuel + 1) = l.nitems + 1 + fuel by omega]
    exact this

theorem resize_sim [Inhabited α] {s : LstS α} {l : Lst α} (h : s.Abs l) (n : Nat) :
    (s.resize n).1.Abs (l.resize n).1 ∧ (s.resize n).2 = (l.resize n).2 := by
  unfold LstS.resize Lst.resize
  by_cases h0 : n = 0
  · rw [if_pos h0, if_pos h0]; exact clear_sim h
  · rw [if_neg h0, if_neg h0]
    obtain ⟨cells, hc, hi, hl, hn⟩ := h
    obtain ⟨items, nitems⟩ := l
    simp only at hi hl; subst hi hl
    obtain ⟨s1, e1, c1, n1⟩ := shrink_sim n (cells.length - n) hc hn rfl
    rw [hn, e1]
    simp only
    have hlen1 : (cells.take (cells.length - (cells.length - n))).length = cells.length - (cells.length - n) := by
      simp
    have habs1 : s1.Abs ⟨(cells.map (·.2)).take ((cells.map (·.2)).length - (cells.length - n)), cells.length - (cells.length - n)⟩ :=
      ⟨_, c1, by simp [List.map_take], by simp, by rw [n1]; simp⟩
    have := grow_sim n (n - s1.nitems) habs1 (by rw [n1])
    rw [n1] at this ⊢
    exact this

/-! iteration through node addresses -/

theorem Chain.collect_fwd {s : LstS α} {cells : List (Nat × α)} (hc : s.Chain cells) : ∀ (fuel j : Nat),
    cells.length - j < fuel →
    collect s.iterNext (fun a => (s.node a).map (·.val)) fuel (nextOf (cells.drop j) none) =
      some ((cells.drop j).map (·.2)) := by
  intro fuel
  induction fuel with
  | zero => intro j hj; omega
  | succ fuel ih =>
    intro j hj
    by_cases hjl : j < cells.length
    · have hk : cells[j]? = some (cells[j].1, cells[j].2) := List.getElem?_eq_getElem hjl
      rw [List.drop_eq_getElem_cons hjl]
      rw [show nextOf (cells[j] :: cells.drop (j + 1)) none = some cells[j].1 from rfl]
      simp only [collect, LstS.iterNext, node_eq s _ _ (hc.node_at hk), Option.map_some, Option.bind_some, List.map_cons]
      rw [ih (j + 1) (by omega)]; rfl
    · rw [List.drop_eq_nil_of_le (by omega)]
      rw [show nextOf ([] : List (Nat × α)) none = none from rfl, collect_none]; rfl

theorem Chain.collect_bwd {s : LstS α} {cells : List (Nat × α)} (hc : s.Chain cells) : ∀ (fuel j : Nat),
    j ≤ cells.length → j < fuel →
    collect s.iterPrev (fun a => (s.node a).map (·.val)) fuel (lastOf (cells.take j) none) =
      some (((cells.take j).map (·.2)).reverse) := by
  intro fuel
  induction fuel with
  | zero => intro j _ hj; omega
  | succ fuel ih =>
    intro j hjl hj
    cases j with
    | zero => simp [lastOf, collect_none]
    | succ j =>
      have hjl' : j < cells.length := by omega
      have hk : cells[j]? = some (cells[j].1, cells[j].2) := List.getElem?_eq_getElem hjl'
      rw [lastOf_take_succ cells j hjl']
      simp only [collect, LstS.iterPrev, node_eq s _ _ (hc.node_at hk), Option.map_some, Option.bind_some]
      rw [ih j (by omega) (by omega)]
      simp only [Option.map_some, List.take_succ_eq_append_getElem hjl', List.map_append, List.reverse_append]
      rfl

theorem iterFwd_sim {s : LstS α} {l : Lst α} (h : s.Abs l) : s.iterFwd = some l.items := by
  obtain ⟨cells, hc, hi, hl, hn⟩ := h
  unfold LstS.iterFwd LstS.iterInit
  by_cases h0 : s.nitems = 0
  · rw [if_pos h0, collect_none, hi]
    have : cells = [] := List.eq_nil_of_length_eq_zero (by omega)
    rw [this]; rfl
  · rw [if_neg h0, hc.head]
    have := hc.collect_fwd (s.nitems + 1) 0 (by omega)
    simp only [List.drop_zero] at this
    rw [this, hi]

theorem iterBwd_sim {s : LstS α} {l : Lst α} (h : s.Abs l) : s.iterBwd = some l.items.reverse := by
  obtain ⟨cells, hc, hi, hl, hn⟩ := h
  unfold LstS.iterBwd LstS.iterLast
  by_cases h0 : s.nitems = 0
  · rw [if_pos h0, collect_none, hi]
    have : cells = [] := List.eq_nil_of_length_eq_zero (by omega)
    rw [this]; rfl
  · rw [if_neg h0, hc.tail]
    have := hc.collect_bwd (s.nitems + 1) cells.length (Nat.le_refl _) (by omega)
    rw [List.take_length] at this
    rw [this, hi]

/-- every operation of a history: the store-level step is the list-level step -/
theorem step_sim [BEq α] [ZeroIsValue α] {s : LstS α} {l : Lst α} (h : s.Abs l) (op : Op α) :
    (s.step op).1.Abs (l.step op).1 ∧ (s.step op).2 = (l.step op).2 := by
  cases op with
  | push x => exact push_sim h x
  | append x => exact push_sim h x
  | pop => exact pop_sim h
  | pushAt x i => exact pushAt_sim h x i
  | popAt i => exact popAt_sim h i
  | set i x => exact set_sim h i x
  | rem x => exact rem_sim h x
  | concat ys => exact concat_sim h ys
  | resize n =>
    have hn : s.nitems = l.nitems := by obtain ⟨cells, _, _, h2, h3⟩ := h; rw [h3, h2]
    have hcond : (!ZeroIsValue.zeroOk α && decide (n > s.nitems)) = l.rawGrow (.resize n) := by
      simp only [Lst.rawGrow, hn]
    simp only [LstS.step, Lst.step, hcond]
    by_cases hc : l.rawGrow (.resize n) = true
    · rw [if_pos hc, if_pos hc]; exact ⟨(resize_sim h n).1, rfl⟩
    · rw [if_neg hc, if_neg hc]; exact resize_sim h n
  | sort f => exact ⟨h, rfl⟩
  | assign ys b => exact assign_sim h ys b

theorem empty_abs : (LstS.empty : LstS α).Abs Lst.empty :=
  ⟨[], ⟨by simp, trivial, rfl, rfl⟩, rfl, rfl, rfl⟩

theorem new_abs (xs : List α) : (LstS.new xs).1.Abs (Lst.empty.concat xs).1 ∧ (LstS.new xs).2 = .ok () :=
  pushAll_sim xs empty_abs

theorem pushElem_sim {s : LstS α} {l : Lst α} (h : s.Abs l) (k : Int) :
    (s.pushElem k).1.Abs (l.pushElem k).1 ∧ (s.pushElem k).2 = (l.pushElem k).2 := by
  unfold LstS.pushElem Lst.pushElem
  rw [get_sim h k]
  cases l.get k with
  | ok x => exact push_sim h x
  | raised e => exact ⟨h, rfl⟩
  | ub => exact ⟨h, rfl⟩

theorem pushAtElem_sim {s : LstS α} {l : Lst α} (h : s.Abs l) (k i : Int) :
    (s.pushAtElem k i).1.Abs (l.pushAtElem k i).1 ∧ (s.pushAtElem k i).2 = (l.pushAtElem k i).2 := by
  unfold LstS.pushAtElem Lst.pushAtElem
  rw [get_sim h k]
  cases l.get k with
  | ok x => exact pushAt_sim h x i
  | raised e => exact ⟨h, rfl⟩
  | ub => exact ⟨h, rfl⟩

end LstS
end Cello.Seq
