/-
  Helper lemmas for C08, extension round: the stores of the step machine (`Wr`), their idempotence, and the simulation of the
  machine with a shared name register by the plain machine when the register is not used (`sharedName = false`).
-/
import Cello.DispatchShared
import CelloProofs.Lemmas.DispConc

namespace Cello.Dispatch

/-- the only effect of a step on the shared record is its store -/
theorem step_effect (slots : List (Nat × Cls)) (t : TypeRec) (pc : PC) :
    (step slots t pc).1 = match writeOf t pc with
      | none => t
      | some w => w.apply t := by
  cases pc with
  | start uc cls =>
    cases uc with
    | false => rfl
    | true =>
      simp only [step, writeOf]
      split
      · split
        · split <;> rfl
        · rfl
      · rfl
  | hdrRead cls ret => simp only [step, writeOf]; split <;> rfl
  | hdrWrite cls ret => rfl
  | scanP cls pos ret =>
    simp only [step, writeOf]
    split
    · rfl
    · split <;> rfl
  | scanN cls pos ret =>
    simp only [step, writeOf]
    split
    · rfl
    · split <;> rfl
  | memoWrite cls pos ret =>
    simp only [step, writeOf]
    cases h : t.entries[pos]? with
    | none => simp
    | some e => simp [Wr.apply, h]
  | cacheWrite cls i v => rfl
  | done cls v => rfl
  | stuck => rfl

/-- a store is consistent with the declaration `D`: the memoised class carries the name of the triple it is written to and
    that triple is the one `D` answers with; the cache word receives the declared instance of the class of its slot -/
def WrOK (D : String → Option Inst) (slots : List (Nat × Cls)) (es : List Entry) : Wr → Prop
  | .hdr => True
  | .memo pos cls => ∃ e, es[pos]? = some e ∧ e.name = cls.name ∧ D cls.name = some e.inst
  | .cache i v => ∃ cls, (i, cls) ∈ slots ∧ v = D cls.name

/-- a thread whose local state is valid only issues consistent stores -/
theorem writeOf_ok {D : String → Option Inst} {slots : List (Nat × Cls)} {t : TypeRec} {pc : PC}
    (hp : PCOK D slots t.entries pc) {w : Wr} (hw : writeOf t pc = some w) : WrOK D slots t.entries w := by
  cases pc with
  | hdrWrite cls ret => simp only [writeOf, Option.some.injEq] at hw; subst hw; trivial
  | memoWrite cls pos ret =>
    obtain ⟨_, e, he, hn, hd⟩ := hp
    simp only [writeOf, he, Option.isSome_some, if_true, Option.some.injEq] at hw
    subst hw; exact ⟨e, he, hn, hd⟩
  | cacheWrite cls i v =>
    simp only [writeOf, Option.some.injEq] at hw; subst hw; exact ⟨cls, hp.1, hp.2⟩
  | start _ _ => simp [writeOf] at hw
  | hdrRead _ _ => simp [writeOf] at hw
  | scanP _ _ _ => simp [writeOf] at hw
  | scanN _ _ _ => simp [writeOf] at hw
  | done _ _ => simp [writeOf] at hw
  | stuck => simp [writeOf] at hw

/-- a consistent store keeps the invariant of the shared record — whoever issues it, whenever -/
theorem Wr.apply_inv {D : String → Option Inst} {slots : List (Nat × Cls)} {n : Nat} {t : TypeRec}
    (hs : SlotsOK slots n) (h : Inv D slots n t) (w : Wr) (hw : WrOK D slots t.entries w) :
    Inv D slots n (w.apply t) ∧ (w.apply t).entries.map Entry.skel = t.entries.map Entry.skel := by
  cases w with
  | hdr =>
    have sp := step_spec hs h (.hdrWrite default .direct) trivial
    exact ⟨sp.1, sp.2.2.1⟩
  | memo pos cls =>
    obtain ⟨e, he, hn, hd⟩ := hw
    have sp := step_spec hs h (.memoWrite cls pos .direct) ⟨trivial, e, he, hn, hd⟩
    have he' : (step slots t (.memoWrite cls pos .direct)).1 = (Wr.memo pos cls).apply t := by
      rw [step_effect]; simp [writeOf, he]
    rw [he'] at sp
    exact ⟨sp.1, sp.2.2.1⟩
  | cache i v =>
    obtain ⟨cls, hm, hv⟩ := hw
    have sp := step_spec hs h (.cacheWrite cls i v) ⟨hm, hv⟩
    exact ⟨sp.1, sp.2.2.1⟩

/-- storing twice is storing once -/
theorem Wr.apply_idem (t : TypeRec) (w : Wr) : w.apply (w.apply t) = w.apply t := by
  cases w with
  | hdr => rfl
  | memo pos cls =>
    simp only [Wr.apply]
    cases h : t.entries[pos]? with
    | none => simp [h]
    | some e =>
      have hlt : pos < t.entries.length := lt_of_getElem?_some h
      simp [hlt]
  | cache i v => simp [Wr.apply]

/-! ### `stepG false` is `step` -/

theorem gthreadStep_false (slots : List (Nat × Cls)) (t : TypeRec) (reg : String) (th : Thread) :
    gthreadStep false slots ⟨t, reg⟩ th.lift = (⟨(threadStep slots t th).1, reg⟩, (threadStep slots t th).2.lift) := by
  rcases th with ⟨pc, todo, log⟩
  cases pc with
  | none =>
    cases todo with
    | nil => rfl
    | cons p rest => rfl
  | some pc =>
    cases pc <;> rfl

theorem gsysStep_false (slots : List (Nat × Cls)) (reg : String) (s : Sys) (tid : Nat) :
    gsysStep false slots (s.lift reg) tid = (sysStep slots s tid).lift reg := by
  simp only [gsysStep, sysStep, Sys.lift, List.getElem?_map]
  cases h : s.threads[tid]? with
  | none => simp
  | some th =>
    simp only [Option.map_some, gthreadStep_false, List.map_set]

theorem grunSched_false (slots : List (Nat × Cls)) (reg : String) : ∀ (sched : List Nat) (s : Sys),
    grunSched false slots (s.lift reg) sched = (runSched slots s sched).lift reg
  | [], _ => rfl
  | tid :: sched, s => by
    simp only [grunSched, runSched, gsysStep_false]
    exact grunSched_false slots reg sched _

theorem lift_new (progs : List (List (Bool × Cls))) :
    progs.map GThread.new = (progs.map Thread.new).map Thread.lift := by
  simp [List.map_map, Function.comp_def, Thread.lift, Thread.new, GThread.new]

end Cello.Dispatch
