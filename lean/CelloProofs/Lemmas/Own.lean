/-
  CelloProofs/Lemmas/Own.lean — helper lemmas for C05: every container-level operation of Cello/Own.lean conserves
  element identities and hands out fresh ones.
-/
import Cello.Own
import Mathlib.Data.List.Perm.Basic
import Mathlib.Data.List.Nodup
import Mathlib.Data.List.Range
import Mathlib.Data.Multiset.AddSub
set_option linter.unusedVariables false
set_option linter.unusedSectionVars false

namespace Cello.Own
open List

theorem perm_of_coe {α : Type} {a b : List α} (h : (a : Multiset α) = (b : Multiset α)) : a ~ b :=
  Multiset.coe_eq_coe.mp h
theorem madd_left_comm {α : Type} (a b c : Multiset α) : a + (b + c) = b + (a + c) := by
  rw [← Multiset.add_assoc, Multiset.add_comm a b, Multiset.add_assoc]
/-- rearrangement of appended lists up to permutation -/
macro "perm_ac" : tactic =>
  `(tactic| (apply perm_of_coe; simp only [← Multiset.coe_add, Multiset.add_comm, madd_left_comm, Multiset.add_assoc]))

/-- identities of a token list -/
def ids (ts : List Tok) : List Nat := ts.map (·.id)

@[simp] theorem ids_nil : ids [] = [] := rfl
@[simp] theorem ids_cons (t : Tok) (ts : List Tok) : ids (t :: ts) = t.id :: ids ts := rfl
@[simp] theorem ids_append (a b : List Tok) : ids (a ++ b) = ids a ++ ids b := by simp [ids]
@[simp] theorem ids_reverse (a : List Tok) : ids a.reverse = (ids a).reverse := by simp [ids]
@[simp] theorem ids_length (a : List Tok) : (ids a).length = a.length := by simp [ids]
theorem ids_perm {a b : List Tok} (h : a ~ b) : ids a ~ ids b := h.map _

/-- **conservation** of one operation on one container: what it holds afterwards together with what it passed to
    `destruct` is, as a multiset of identities, what it held before together with what it constructed -/
def Conserves (before after issued retired : List Tok) : Prop :=
  ids (after ++ retired) ~ ids (before ++ issued)

/-- the identities handed out are `next, next+1, …` in order -/
def FreshFrom (next : Nat) (issued : List Tok) : Prop := ids issued = List.range' next issued.length

/-! ### mkFresh / assignProbe / takeFirst -/

theorem ids_mkFresh (n : Nat) (ps : List Nat) : ids (mkFresh n ps) = List.range' n ps.length := by
  induction ps generalizing n with
  | nil => rfl
  | cons p ps ih => simp [mkFresh, ih, List.range'_succ]

@[simp] theorem length_mkFresh (n : Nat) (ps : List Nat) : (mkFresh n ps).length = ps.length := by
  induction ps generalizing n with
  | nil => rfl
  | cons p ps ih => simp [mkFresh, ih]

theorem pays_mkFresh (n : Nat) (ps : List Nat) : (mkFresh n ps).map (·.pay) = ps := by
  induction ps generalizing n with
  | nil => rfl
  | cons p ps ih => simp [mkFresh, ih]

theorem fresh_mkFresh (n : Nat) (ps : List Nat) : FreshFrom n (mkFresh n ps) := by
  simp [FreshFrom, ids_mkFresh]

theorem fresh_nil (n : Nat) : FreshFrom n [] := rfl
theorem fresh_one (n p : Nat) : FreshFrom n [⟨n, p⟩] := rfl
theorem fresh_two (n p q : Nat) : FreshFrom n [⟨n, p⟩, ⟨n + 1, q⟩] := rfl

theorem takeFirst_some {α : Type} {p : α → Bool} {l : List α} {x : α} {r : List α}
    (h : takeFirst p l = some (x, r)) : l ~ x :: r ∧ p x = true := by
  induction l generalizing x r with
  | nil => simp [takeFirst] at h
  | cons y ys ih =>
    unfold takeFirst at h
    by_cases hy : p y = true
    · simp [hy] at h; obtain ⟨rfl, rfl⟩ := h; exact ⟨Perm.refl _, hy⟩
    · simp [hy] at h
      cases hq : takeFirst p ys with
      | none => simp [hq] at h
      | some q =>
        obtain ⟨z, r'⟩ := q
        simp [hq] at h; obtain ⟨rfl, rfl⟩ := h
        obtain ⟨h1, h2⟩ := ih hq
        exact ⟨(h1.cons y).trans (Perm.swap _ _ _), h2⟩

theorem takeFirst_none {α : Type} {p : α → Bool} {l : List α} (h : takeFirst p l = none) :
    ∀ y ∈ l, p y = false := by
  induction l with
  | nil => simp
  | cons y ys ih =>
    unfold takeFirst at h
    by_cases hy : p y = true
    · simp [hy] at h
    · simp [hy] at h
      cases hq : takeFirst p ys with
      | none =>
        intro z hz
        rcases List.mem_cons.mp hz with rfl | hz
        · simpa using hy
        · exact ih hq z hz
      | some q => simp [hq] at h

/-! ### list surgery -/

theorem perm_cons_eraseIdx {α : Type} {l : List α} {j : Nat} {t : α} (h : l[j]? = some t) :
    l ~ t :: l.eraseIdx j := by
  induction l generalizing j with
  | nil => simp at h
  | cons x xs ih =>
    cases j with
    | zero => simp at h; subst h; simp
    | succ j =>
      simp at h
      simpa using ((ih h).cons x).trans (Perm.swap _ _ _)

theorem set_perm_cons_eraseIdx {α : Type} {l : List α} {j : Nat} {t : α} (new : α) (h : l[j]? = some t) :
    l.set j new ~ new :: l.eraseIdx j := by
  induction l generalizing j with
  | nil => simp at h
  | cons x xs ih =>
    cases j with
    | zero => simp
    | succ j =>
      simp at h
      simpa using ((ih h).cons x).trans (Perm.swap _ _ _)

/-! ### sequences -/

theorem cons_seqPush (next : Nat) (xs : List Tok) (p : Nat) :
    let r := seqPush next xs p
    Conserves xs r.val r.issued r.retired ∧ FreshFrom next r.issued := by
  simp [seqPush, Conserves, FreshFrom]

theorem cons_arrayPushAt (next : Nat) (xs : List Tok) (i : Int) (p : Nat) :
    let r := arrayPushAt next xs i p
    Conserves xs r.val r.issued r.retired ∧ FreshFrom next r.issued := by
  simp only [arrayPushAt]
  generalize (if i < 0 then (xs.length : Int) + 1 + i else i) = j
  by_cases hb : j < 0 ∨ j > (xs.length : Int)
  · simp [hb, Conserves, FreshFrom]
  · simp only [hb, if_false]
    refine ⟨?_, rfl⟩
    simp only [Conserves, List.append_nil]
    have hle : j.toNat ≤ xs.length := by omega
    exact ids_perm ((perm_insertIdx _ _ hle).trans (perm_append_singleton _ _).symm)

theorem cons_listPushAt (next : Nat) (xs : List Tok) (i : Int) (p : Nat) :
    let r := listPushAt next xs i p
    Conserves xs r.val r.issued r.retired ∧ FreshFrom next r.issued := by
  simp only [listPushAt]
  by_cases hi : i = 0
  · simp only [hi, if_true]
    refine ⟨?_, rfl⟩
    simp only [Conserves, List.append_nil]
    exact ids_perm (perm_append_singleton _ _).symm
  · simp only [hi, if_false]
    generalize (if i < 0 then (xs.length : Int) + i else i) = j
    by_cases hb : j < 0 ∨ j ≥ (xs.length : Int)
    · simp [hb, Conserves, FreshFrom]
    · simp only [hb, if_false]
      refine ⟨?_, rfl⟩
      simp only [Conserves, List.append_nil]
      have hle : j.toNat ≤ xs.length := by omega
      exact ids_perm ((perm_insertIdx _ _ hle).trans (perm_append_singleton _ _).symm)

/-- Array_Push_At / List_Push_At with a Box argument: the pointee constructed for the call ends up in the container, or —
    when the index is refused — is deleted again by the caller -/
theorem cons_arrayPushAtBox (next : Nat) (xs : List Tok) (i : Int) (p : Nat) :
    let r := withPointee next p (fun t => arrayPushAtTok xs i t)
    Conserves xs r.val r.issued r.retired ∧ FreshFrom next r.issued := by
  simp only [withPointee, arrayPushAtTok]
  generalize (if i < 0 then (xs.length : Int) + 1 + i else i) = j
  by_cases hb : j < 0 ∨ j > (xs.length : Int)
  · simp [hb, Conserves, FreshFrom]
  · simp only [hb, if_false]
    refine ⟨?_, rfl⟩
    simp only [Conserves, List.append_nil]
    have hle : j.toNat ≤ xs.length := by omega
    exact ids_perm ((perm_insertIdx _ _ hle).trans (perm_append_singleton _ _).symm)

theorem cons_listPushAtBox (next : Nat) (xs : List Tok) (i : Int) (p : Nat) :
    let r := withPointee next p (fun t => listPushAtTok xs i t)
    Conserves xs r.val r.issued r.retired ∧ FreshFrom next r.issued := by
  simp only [withPointee, listPushAtTok]
  by_cases hi : i = 0
  · simp only [hi, if_true]
    refine ⟨?_, rfl⟩
    simp only [Conserves, List.append_nil]
    exact ids_perm (perm_append_singleton _ _).symm
  · simp only [hi, if_false]
    generalize (if i < 0 then (xs.length : Int) + i else i) = j
    by_cases hb : j < 0 ∨ j ≥ (xs.length : Int)
    · simp [hb, Conserves, FreshFrom]
    · simp only [hb, if_false]
      refine ⟨?_, rfl⟩
      simp only [Conserves, List.append_nil]
      have hle : j.toNat ≤ xs.length := by omega
      exact ids_perm ((perm_insertIdx _ _ hle).trans (perm_append_singleton _ _).symm)

theorem cons_seqPop (xs : List Tok) :
    let r := seqPop xs
    Conserves xs r.val r.issued r.retired ∧ r.issued = [] := by
  simp only [seqPop]
  cases h : xs.getLast? with
  | none => simp [Conserves]
  | some t =>
    refine ⟨?_, rfl⟩
    simp only [Conserves, List.append_nil]
    rw [List.dropLast_append_getLast? t (by simp [h])]

theorem cons_seqPopAt (xs : List Tok) (i : Int) :
    let r := seqPopAt xs i
    Conserves xs r.val r.issued r.retired ∧ r.issued = [] := by
  simp only [seqPopAt]
  generalize (if i < 0 then (xs.length : Int) + i else i) = j
  by_cases hb : j < 0 ∨ j ≥ (xs.length : Int)
  · simp [hb, Conserves]
  · simp only [hb, if_false]
    split
    · simp [Conserves]
    · rename_i t ht
      refine ⟨?_, rfl⟩
      simp only [Conserves, List.append_nil]
      exact ids_perm ((perm_append_singleton _ _).trans (perm_cons_eraseIdx ht).symm)

theorem assignProbe_live (next : Nat) (dst : Tok) (p : Nat) (h : dst.id ≠ 0) :
    (assignProbe next dst p).val.id = dst.id ∧ (assignProbe next dst p).issued = [] := by
  simp [assignProbe, h]

theorem assignProbe_fresh (next : Nat) (dst : Tok) (p : Nat) : FreshFrom next (assignProbe next dst p).issued := by
  unfold assignProbe; split <;> simp [FreshFrom]

/-- Array_Set / List_Set on constructed elements: the identity stays, nothing is constructed or finalised -/
theorem cons_seqSetProbe (next : Nat) (xs : List Tok) (i : Int) (p : Nat) (hraw : 0 ∉ ids xs) :
    let r := seqSetProbe next xs i p
    Conserves xs r.val r.issued r.retired ∧ FreshFrom next r.issued := by
  simp only [seqSetProbe]
  generalize (if i < 0 then (xs.length : Int) + i else i) = j
  by_cases hb : j < 0 ∨ j ≥ (xs.length : Int)
  · simp [hb, Conserves, FreshFrom]
  · simp only [hb, if_false]
    split
    · simp [Conserves, FreshFrom]
    · rename_i old hold
      have hmem : old ∈ xs := List.mem_of_getElem? hold
      have hne : old.id ≠ 0 := by
        intro h0; apply hraw; rw [← h0]; exact List.mem_map_of_mem hmem
      obtain ⟨hid, hiss⟩ := assignProbe_live next old p hne
      refine ⟨?_, by rw [hiss]; rfl⟩
      simp only [Conserves, List.append_nil, hiss]
      have h1 := ids_perm (set_perm_cons_eraseIdx (assignProbe next old p).val hold)
      have h2 := ids_perm (perm_cons_eraseIdx hold)
      simp only [ids_cons, hid] at h1
      exact h1.trans h2.symm

theorem cons_seqRem (xs : List Tok) (p : Nat) :
    let r := seqRem xs p
    Conserves xs r.val r.issued r.retired ∧ r.issued = [] := by
  simp only [seqRem]
  cases h : takeFirst (fun t => t.pay == p) xs with
  | none => simp [Conserves]
  | some q =>
    obtain ⟨t, rest⟩ := q
    refine ⟨?_, rfl⟩
    simp only [Conserves, List.append_nil]
    exact ids_perm ((perm_append_singleton _ _).trans (takeFirst_some h).1.symm)

theorem cons_seqClear (xs : List Tok) :
    let r := seqClear xs
    Conserves xs r.val r.issued r.retired ∧ r.issued = [] := by
  simp [seqClear, Conserves]

theorem take_drop_reverse_perm {α : Type} (xs : List α) (n : Nat) : xs.take n ++ (xs.drop n).reverse ~ xs := by
  conv_rhs => rw [← List.take_append_drop n xs]
  exact Perm.append_left _ (reverse_perm _)

theorem cons_arrayResize (xs : List Tok) (n : Nat) :
    let r := arrayResize xs n
    Conserves xs r.val r.issued r.retired ∧ r.issued = [] := by
  simp only [arrayResize]
  split
  · exact cons_seqClear xs
  · refine ⟨?_, rfl⟩
    simp only [Conserves, List.append_nil]
    exact ids_perm (take_drop_reverse_perm xs n)

/-- List_Resize conserves when it does not grow the list (known finding otherwise) -/
theorem cons_listResize (xs : List Tok) (n : Nat) (h : n ≤ xs.length) :
    let r := listResize xs n
    Conserves xs r.val r.issued r.retired ∧ r.issued = [] := by
  simp only [listResize]
  split
  · exact cons_seqClear xs
  · refine ⟨?_, rfl⟩
    simp only [Conserves, List.append_nil]
    exact ids_perm (take_drop_reverse_perm xs n)

theorem cons_seqConcatProbe (next : Nat) (xs src : List Tok) :
    let r := seqConcatProbe next xs src
    Conserves xs r.val r.issued r.retired ∧ FreshFrom next r.issued := by
  simp only [seqConcatProbe]
  exact ⟨by simp [Conserves], fresh_mkFresh _ _⟩

theorem cons_seqAssignProbe (next : Nat) (xs src : List Tok) :
    let r := seqAssignProbe next xs src
    Conserves xs r.val r.issued r.retired ∧ FreshFrom next r.issued := by
  simp only [seqAssignProbe]
  refine ⟨?_, fresh_mkFresh _ _⟩
  simp only [Conserves]
  exact ids_perm perm_append_comm

/-! ### the sort: every exchange is a permutation -/

theorem swapIfInBounds_perm (a : Array Tok) (i j : Nat) : (a.swapIfInBounds i j).toList ~ a.toList := by
  unfold Array.swapIfInBounds
  split
  · split
    · exact (Array.swap_perm _ _).toList
    · exact Perm.refl _
  · exact Perm.refl _

theorem partLoop_perm (r k : Nat) (a : Array Tok) (s : Nat) : (partLoop r k a s).1.toList ~ a.toList := by
  induction k generalizing a s with
  | zero => exact Perm.refl _
  | succ k ih =>
    simp only [partLoop]
    split
    · exact (ih _ _).trans (swapIfInBounds_perm _ _ _)
    · exact ih _ _

theorem partition_perm (a : Array Tok) (l r : Nat) : (partition a l r).1.toList ~ a.toList := by
  simp only [partition]
  exact (swapIfInBounds_perm _ _ _).trans ((partLoop_perm _ _ _ _).trans (swapIfInBounds_perm _ _ _))

theorem sortPart_perm (f : Nat) (a : Array Tok) (l r : Nat) : (sortPart f a l r).toList ~ a.toList := by
  induction f generalizing a l r with
  | zero => exact Perm.refl _
  | succ f ih =>
    simp only [sortPart]
    split
    · exact (ih _ _ _).trans ((ih _ _ _).trans (partition_perm _ _ _))
    · exact Perm.refl _

theorem seqSort_perm (xs : List Tok) : (seqSort xs).val ~ xs := by
  simpa [seqSort] using sortPart_perm xs.length xs.toArray 0 (xs.length - 1)

theorem cons_seqSort (xs : List Tok) :
    let r := seqSort xs
    Conserves xs r.val r.issued r.retired ∧ r.issued = [] := by
  refine ⟨?_, rfl⟩
  simp only [Conserves, seqSort, List.append_nil]
  exact ids_perm (by simpa [seqSort] using seqSort_perm xs)

end Cello.Own
