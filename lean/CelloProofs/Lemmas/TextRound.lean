/-
  Lemmas for C15 (engine `text`): the *value* part of the Float round trip, in exact rational arithmetic.

  `roundHalfEven` is the nearest integer (ties to even); `roundRat` returns the nearest `m · 2^e` of a given precision and minimal
  exponent (the significand and exponent of what `strtod` / `strtof` return); the bits `encode64` makes of it decode to it.
  Hence: the double `%lf` reads back from the six-decimal text `%f` wrote is at least as close to that decimal as the double
  written, and therefore prints as the same text (`printF_reparse`); the same holds for a `float` destination when the value
  written is a float (`printF_reparse32`).
-/
import Cello.Text
import CelloProofs.Lemmas.TextFloat
import Mathlib.Tactic.Linarith
import Mathlib.Tactic.Ring
import Mathlib.Tactic.FieldSimp
import Mathlib.Tactic.Positivity
import Mathlib.Tactic.NormNum
import Mathlib.Tactic.Push
import Mathlib.Algebra.Order.Field.Basic
import Mathlib.Data.Rat.Cast.Order
import Mathlib.Algebra.Order.Field.Power

namespace Cello.Text


/-- quotient and fractional part -/
theorem rhe_cases (num den : ℕ) (hden : 0 < den) :
    ∃ (q : ℕ) (φ : ℚ), (num : ℚ) / den = q + φ ∧ 0 ≤ φ ∧ φ < 1 ∧
      roundHalfEven num den = (if φ > 1/2 ∨ (φ = 1/2 ∧ q % 2 = 1) then q + 1 else q) := by
  refine ⟨num / den, ((num % den : ℕ) : ℚ) / den, ?_, ?_, ?_, ?_⟩
  · have h := Nat.div_add_mod num den
    have hd : (den : ℚ) ≠ 0 := by positivity
    field_simp
    have : ((den * (num / den) + num % den : ℕ) : ℚ) = num := by rw [h]
    push_cast at this
    linarith
  · positivity
  · have : num % den < den := Nat.mod_lt _ hden
    have hd : (0 : ℚ) < den := by positivity
    rw [div_lt_one hd]
    exact_mod_cast this
  · have hd : (0 : ℚ) < den := by positivity
    have e1 : (((num % den : ℕ) : ℚ) / den > 1 / 2) ↔ 2 * (num % den) > den := by
      rw [gt_iff_lt, div_lt_div_iff₀ (by norm_num) hd]
      constructor
      · intro h; have : ((1 * den : ℕ) : ℚ) < ((num % den * 2 : ℕ) : ℚ) := by push_cast; linarith
        have := Nat.cast_lt.1 this; omega
      · intro h; have : ((den : ℕ) : ℚ) < ((2 * (num % den) : ℕ) : ℚ) := Nat.cast_lt.2 h
        push_cast at this; linarith
    have e2 : (((num % den : ℕ) : ℚ) / den = 1 / 2) ↔ 2 * (num % den) = den := by
      rw [div_eq_div_iff (ne_of_gt hd) (by norm_num)]
      constructor
      · intro h; have : ((num % den * 2 : ℕ) : ℚ) = ((1 * den : ℕ) : ℚ) := by push_cast; linarith
        have := Nat.cast_inj.1 this; omega
      · intro h; have : ((2 * (num % den) : ℕ) : ℚ) = ((den : ℕ) : ℚ) := by rw [h]
        push_cast at this; linarith
    simp only [roundHalfEven, e1, e2]


/-- `roundHalfEven` is within one half, ties go to the even neighbour -/
theorem rhe_spec (num den : ℕ) (hden : 0 < den) :
    |(roundHalfEven num den : ℚ) - (num : ℚ) / den| ≤ 1 / 2 ∧
    (|(roundHalfEven num den : ℚ) - (num : ℚ) / den| = 1 / 2 → roundHalfEven num den % 2 = 0) := by
  obtain ⟨q, φ, hρ, h0, h1, hr⟩ := rhe_cases num den hden
  rw [hr, hρ]
  by_cases hc : (φ > 1/2 ∨ (φ = 1/2 ∧ q % 2 = 1))
  · rw [if_pos hc]
    push_cast
    have e : ((q : ℚ) + 1 - (q + φ)) = 1 - φ := by ring
    rw [e, abs_of_nonneg (by linarith)]
    constructor
    · rcases hc with hc | hc
      · linarith
      · linarith [hc.1]
    · intro ht
      have hφ : φ = 1 / 2 := by linarith
      rcases hc with hc | hc
      · linarith
      · omega
  · rw [if_neg hc]
    push Not at hc
    have e : ((q : ℚ) - (q + φ)) = -φ := by ring
    rw [e, abs_neg, abs_of_nonneg h0]
    constructor
    · exact hc.1
    · intro ht
      have := hc.2 ht
      omega

/-- an integer within one half of `ρ` that is even in case of a tie is the rounded value -/
theorem rhe_unique (num den : ℕ) (hden : 0 < den) (k : ℕ)
    (h1 : |(k : ℚ) - (num : ℚ) / den| ≤ 1 / 2) (h2 : |(k : ℚ) - (num : ℚ) / den| = 1 / 2 → k % 2 = 0) :
    k = roundHalfEven num den := by
  obtain ⟨g1, g2⟩ := rhe_spec num den hden
  generalize roundHalfEven num den = r at *
  generalize (num : ℚ) / den = ρ at *
  -- both within 1/2 of ρ: they differ by at most 1
  have hd : |(k : ℚ) - r| ≤ 1 := by
    have := abs_sub_le (k : ℚ) ρ r
    have e : |ρ - (r : ℚ)| = |(r : ℚ) - ρ| := abs_sub_comm _ _
    linarith
  have hkr : (k : ℤ) - r ≤ 1 ∧ (r : ℤ) - k ≤ 1 := by
    have h := abs_le.1 hd
    constructor
    · have : ((k : ℤ) - r : ℚ) ≤ ((1 : ℤ) : ℚ) := by push_cast; linarith [h.2]
      exact_mod_cast this
    · have : ((r : ℤ) - k : ℚ) ≤ ((1 : ℤ) : ℚ) := by push_cast; linarith [h.1]
      exact_mod_cast this
  by_contra hne
  -- they differ by exactly one, so both are at distance exactly 1/2, so both are even: impossible
  have hcase : (k : ℤ) = r + 1 ∨ (r : ℤ) = k + 1 := by omega
  rcases hcase with hc | hc
  · have hq : (k : ℚ) = r + 1 := by exact_mod_cast hc
    have a1 := abs_le.1 h1; have a2 := abs_le.1 g1
    have t1 : (k : ℚ) - ρ = 1 / 2 := by linarith [a1.2, a2.1]
    have t2 : (r : ℚ) - ρ = -(1 / 2) := by linarith
    have := h2 (by rw [t1]; norm_num)
    have := g2 (by rw [t2]; norm_num)
    omega
  · have hq : (r : ℚ) = k + 1 := by exact_mod_cast hc
    have a1 := abs_le.1 h1; have a2 := abs_le.1 g1
    have t1 : (k : ℚ) - ρ = -(1 / 2) := by linarith [a1.1, a2.2]
    have t2 : (r : ℚ) - ρ = 1 / 2 := by linarith
    have := h2 (by rw [t1]; norm_num)
    have := g2 (by rw [t2]; norm_num)
    omega

/-- no integer is closer to `ρ` than the rounded value -/
theorem rhe_nearest (num den : ℕ) (hden : 0 < den) (k : ℤ) :
    |(roundHalfEven num den : ℚ) - (num : ℚ) / den| ≤ |(k : ℚ) - (num : ℚ) / den| := by
  obtain ⟨g1, _⟩ := rhe_spec num den hden
  generalize roundHalfEven num den = r at *
  generalize (num : ℚ) / den = ρ at *
  by_cases h : k = (r : ℤ)
  · subst h; simp
  · have : (1 : ℚ) ≤ |(k : ℚ) - r| := by
      have : (1 : ℤ) ≤ |k - (r : ℤ)| := by
        have : k - (r : ℤ) ≠ 0 := sub_ne_zero.2 h
        exact Int.one_le_abs this
      have h2 : ((1 : ℤ) : ℚ) ≤ ((|k - (r : ℤ)| : ℤ) : ℚ) := Int.cast_le.2 this
      simpa using h2
    have tri := abs_sub_le (k : ℚ) ρ r
    have e : |ρ - (r : ℚ)| = |(r : ℚ) - ρ| := abs_sub_comm _ _
    linarith


/-! ## values `m · 2^e` -/

/-- the rational `m · 2^e` -/
def val (m : ℕ) (e : ℤ) : ℚ := (m : ℚ) * (2 : ℚ) ^ e

theorem two_zpow_pos (e : ℤ) : (0 : ℚ) < (2 : ℚ) ^ e := by positivity

theorem two_zpow_toNat (e : ℤ) (h : 0 ≤ e) : (2 : ℚ) ^ e = ((2 ^ e.toNat : ℕ) : ℚ) := by
  conv_lhs => rw [← Int.toNat_of_nonneg h]
  rw [zpow_natCast]; push_cast; rfl

theorem two_zpow_neg_toNat (e : ℤ) (h : e < 0) : (2 : ℚ) ^ e = 1 / ((2 ^ (-e).toNat : ℕ) : ℚ) := by
  have : e = -((-e).toNat : ℤ) := by rw [Int.toNat_of_nonneg (by omega)]; omega
  conv_lhs => rw [this]
  rw [zpow_neg, zpow_natCast]; push_cast; simp

/-- the fraction `scalePair` stands for -/
theorem scalePair_val (n d : ℕ) (hd : 0 < d) (e : ℤ) :
    0 < (scalePair n d e).2 ∧ ((scalePair n d e).1 : ℚ) / (scalePair n d e).2 = (n : ℚ) / d / (2 : ℚ) ^ e := by
  unfold scalePair
  have hdq : (d : ℚ) ≠ 0 := by positivity
  by_cases h : e ≥ 0
  · simp only [h, if_true]
    refine ⟨by positivity, ?_⟩
    rw [two_zpow_toNat e h]; push_cast; field_simp
  · simp only [h, if_false]
    refine ⟨hd, ?_⟩
    rw [two_zpow_neg_toNat e (by omega)]; push_cast; field_simp


/-! ## `roundRat`: the nearest `m · 2^e` -/

/-- the quotient `n/d` scaled to the exponent `e` -/
def rho (n d : ℕ) (e : ℤ) : ℚ := (n : ℚ) / d / (2 : ℚ) ^ e

theorem rho_pred (n d : ℕ) (e : ℤ) : rho n d (e - 1) = rho n d e * 2 := by
  unfold rho
  rw [zpow_sub₀ (by norm_num : (2 : ℚ) ≠ 0), zpow_one]
  have := two_zpow_pos e
  field_simp

theorem log2_bounds (n : ℕ) (hn : 0 < n) : (2 : ℚ) ^ (n.log2 : ℤ) ≤ n ∧ (n : ℚ) < (2 : ℚ) ^ ((n.log2 : ℤ) + 1) := by
  constructor
  · rw [zpow_natCast]; exact_mod_cast Nat.log2_self_le (by omega : n ≠ 0)
  · have : ((n.log2 : ℤ) + 1) = ((n.log2 + 1 : ℕ) : ℤ) := by push_cast; rfl
    rw [this, zpow_natCast]; exact_mod_cast (Nat.lt_log2_self (n := n))

theorem rho_e0 (n d prec : ℕ) (hn : 0 < n) (hd : 0 < d) :
    (2 : ℚ) ^ ((prec : ℤ) - 2) < rho n d ((n.log2 : ℤ) - d.log2 - ((prec : ℤ) - 1)) ∧
    rho n d ((n.log2 : ℤ) - d.log2 - ((prec : ℤ) - 1)) < (2 : ℚ) ^ (prec : ℤ) := by
  obtain ⟨n1, n2⟩ := log2_bounds n hn
  obtain ⟨d1, d2⟩ := log2_bounds d hd
  have hdq : (0 : ℚ) < d := by positivity
  have hnq : (0 : ℚ) < n := by positivity
  set a : ℤ := (n.log2 : ℤ)
  set b : ℤ := (d.log2 : ℤ)
  have h2 : (2 : ℚ) ≠ 0 := by norm_num
  have hE := two_zpow_pos (a - b - ((prec : ℤ) - 1))
  unfold rho
  constructor
  · -- n/d > 2^a / 2^(b+1)
    rw [lt_div_iff₀ hE, lt_div_iff₀ hdq]
    have e1 : (2 : ℚ) ^ ((prec : ℤ) - 2) * (2 : ℚ) ^ (a - b - ((prec : ℤ) - 1)) * (2 : ℚ) ^ (b + 1) = (2 : ℚ) ^ a := by
      rw [← zpow_add₀ h2, ← zpow_add₀ h2]; congr 1; ring
    have hb1 := two_zpow_pos (b + 1)
    have hp := mul_pos (two_zpow_pos ((prec : ℤ) - 2)) hE
    calc (2 : ℚ) ^ ((prec : ℤ) - 2) * (2 : ℚ) ^ (a - b - ((prec : ℤ) - 1)) * d
        < (2 : ℚ) ^ ((prec : ℤ) - 2) * (2 : ℚ) ^ (a - b - ((prec : ℤ) - 1)) * (2 : ℚ) ^ (b + 1) :=
          mul_lt_mul_of_pos_left d2 hp
      _ = (2 : ℚ) ^ a := e1
      _ ≤ n := n1
  · rw [div_lt_iff₀ hE, div_lt_iff₀ hdq]
    have e1 : (2 : ℚ) ^ (prec : ℤ) * (2 : ℚ) ^ (a - b - ((prec : ℤ) - 1)) * (2 : ℚ) ^ b = (2 : ℚ) ^ (a + 1) := by
      rw [← zpow_add₀ h2, ← zpow_add₀ h2]; congr 1; ring
    have hp := mul_pos (two_zpow_pos (prec : ℤ)) hE
    calc (n : ℚ) < (2 : ℚ) ^ (a + 1) := n2
      _ = (2 : ℚ) ^ (prec : ℤ) * (2 : ℚ) ^ (a - b - ((prec : ℤ) - 1)) * (2 : ℚ) ^ b := e1.symm
      _ ≤ (2 : ℚ) ^ (prec : ℤ) * (2 : ℚ) ^ (a - b - ((prec : ℤ) - 1)) * d := mul_le_mul_of_nonneg_left d1 (le_of_lt hp)

/-- integer division is the floor of the quotient -/
theorem nat_div_lt_iff (a b K : ℕ) (hb : 0 < b) : a / b < K ↔ (a : ℚ) / b < K := by
  have hbq : (0 : ℚ) < b := by positivity
  rw [Nat.div_lt_iff_lt_mul hb, div_lt_iff₀ hbq]
  constructor
  · intro h; exact_mod_cast h
  · intro h; exact_mod_cast h

theorem two_pow_cast (k : ℕ) : ((2 ^ k : ℕ) : ℚ) = (2 : ℚ) ^ (k : ℤ) := by
  rw [zpow_natCast]; push_cast; rfl

theorem two_pow_pred_cast (k : ℕ) (hk : 1 ≤ k) : ((2 ^ (k - 1) : ℕ) : ℚ) = (2 : ℚ) ^ ((k : ℤ) - 1) := by
  rw [two_pow_cast]; congr 1; omega

/-- the exponent `e1` chosen by `roundRat` puts the quotient into `[2^(prec-1), 2^prec)` -/
theorem rho_e1 (n d prec : ℕ) (hn : 0 < n) (hd : 0 < d) (hp : 1 ≤ prec) (e0 : ℤ) (he0 : e0 = (n.log2 : ℤ) - d.log2 - ((prec : ℤ) - 1))
    (q0 : ℕ) (hq0 : q0 = (scalePair n d e0).1 / (scalePair n d e0).2) (e1 : ℤ)
    (he1 : e1 = if q0 ≥ 2 ^ prec then e0 + 1 else if q0 < 2 ^ (prec - 1) then e0 - 1 else e0) :
    (2 : ℚ) ^ ((prec : ℤ) - 1) ≤ rho n d e1 ∧ rho n d e1 < (2 : ℚ) ^ (prec : ℤ) := by
  obtain ⟨lo, hi⟩ := rho_e0 n d prec hn hd
  rw [← he0] at lo hi
  obtain ⟨hden, hval⟩ := scalePair_val n d hd e0
  have hfl : ∀ K : ℕ, q0 < K ↔ rho n d e0 < K := by
    intro K; rw [hq0, nat_div_lt_iff _ _ K hden, hval]; rfl
  have c1 : ¬ q0 ≥ 2 ^ prec := by
    rw [not_le, hfl, two_pow_cast]; exact hi
  rw [if_neg c1] at he1
  by_cases c2 : q0 < 2 ^ (prec - 1)
  · rw [if_pos c2] at he1
    rw [hfl, two_pow_pred_cast prec hp] at c2
    rw [he1, rho_pred]
    have e : (2 : ℚ) ^ ((prec : ℤ) - 1) = (2 : ℚ) ^ ((prec : ℤ) - 2) * 2 := by
      have : (prec : ℤ) - 1 = ((prec : ℤ) - 2) + 1 := by ring
      rw [this, zpow_add₀ (by norm_num : (2 : ℚ) ≠ 0), zpow_one]
    have e' : (2 : ℚ) ^ (prec : ℤ) = (2 : ℚ) ^ ((prec : ℤ) - 1) * 2 := by
      have : (prec : ℤ) = ((prec : ℤ) - 1) + 1 := by ring
      conv_lhs => rw [this]
      rw [zpow_add₀ (by norm_num : (2 : ℚ) ≠ 0), zpow_one]
    constructor
    · rw [e]; linarith
    · rw [e']; linarith
  · rw [if_neg c2] at he1
    rw [hfl, two_pow_pred_cast prec hp, not_lt] at c2
    rw [he1]; exact ⟨c2, hi⟩


/-- what `roundRat` returns: a significand below `2^prec` at an exponent not below `emin`, normalised above `emin`, and no
    number of that shape is closer to `n/d` -/
structure RoundOK (prec : ℕ) (emin : ℤ) (n d m : ℕ) (e : ℤ) : Prop where
  emin_le : emin ≤ e
  lt : m < 2 ^ prec
  normal : emin < e → 2 ^ (prec - 1) ≤ m
  nearest : ∀ (mz : ℕ) (ez : ℤ), mz < 2 ^ prec → emin ≤ ez → |val m e - (n : ℚ) / d| ≤ |val mz ez - (n : ℚ) / d|

theorem roundRat_ok (prec : ℕ) (emin : ℤ) (n d : ℕ) (hn : 0 < n) (hd : 0 < d) (hp : 1 ≤ prec) :
    RoundOK prec emin n d (roundRat prec emin n d).1 (roundRat prec emin n d).2 := by
  -- name the intermediate values of the definition
  obtain ⟨e1, he1lo, he1hi, hdef⟩ : ∃ e1 : ℤ, (2 : ℚ) ^ ((prec : ℤ) - 1) ≤ rho n d e1 ∧ rho n d e1 < (2 : ℚ) ^ (prec : ℤ) ∧
      roundRat prec emin n d =
        (let e2 : ℤ := if e1 < emin then emin else e1
         let m := roundHalfEven (scalePair n d e2).1 (scalePair n d e2).2
         if m ≥ 2 ^ prec then (2 ^ (prec - 1), e2 + 1) else (m, e2)) := by
    refine ⟨_, (rho_e1 n d prec hn hd hp _ rfl _ rfl _ rfl).1, (rho_e1 n d prec hn hd hp _ rfl _ rfl _ rfl).2, rfl⟩
  rw [hdef]
  simp only
  generalize he2 : (if e1 < emin then emin else e1) = e2
  have h2ne : (2 : ℚ) ≠ 0 := by norm_num
  have hE2 := two_zpow_pos e2
  have hemin : emin ≤ e2 := by rw [← he2]; split <;> omega
  have hnorm : emin < e2 → e2 = e1 := by intro h; rw [← he2] at h ⊢; split at h <;> [omega; simp_all]
  have hle : e1 ≤ e2 := by rw [← he2]; split <;> omega
  obtain ⟨hden, hval⟩ := scalePair_val n d hd e2
  have hρdef : rho n d e2 = (n : ℚ) / d / (2 : ℚ) ^ e2 := rfl
  -- the scaled quotient is below 2^prec, and at least 2^(prec-1) above `emin`
  have hρhi : rho n d e2 < (2 : ℚ) ^ (prec : ℤ) := by
    have : rho n d e2 ≤ rho n d e1 := by
      unfold rho
      have hnd : (0 : ℚ) ≤ (n : ℚ) / d := by positivity
      exact div_le_div_of_nonneg_left hnd (two_zpow_pos e1) (zpow_le_zpow_right₀ (by norm_num) hle)
    linarith
  have hρlo : emin < e2 → (2 : ℚ) ^ ((prec : ℤ) - 1) ≤ rho n d e2 := by
    intro h; rw [hnorm h]; exact he1lo
  obtain ⟨hs1, _⟩ := rhe_spec (scalePair n d e2).1 (scalePair n d e2).2 hden
  have hnear := rhe_nearest (scalePair n d e2).1 (scalePair n d e2).2 hden
  rw [hval, ← hρdef] at hs1 hnear
  generalize roundHalfEven (scalePair n d e2).1 (scalePair n d e2).2 = mr at *
  generalize hρ : rho n d e2 = ρ at *
  have hs1' := abs_le.1 hs1
  -- bounds on the rounded significand
  have hmr_le : mr ≤ 2 ^ prec := by
    have : (mr : ℚ) < ((2 ^ prec : ℕ) : ℚ) + 1 := by rw [two_pow_cast]; linarith [hs1'.2]
    have : mr < 2 ^ prec + 1 := by exact_mod_cast this
    omega
  have hmr_ge : emin < e2 → 2 ^ (prec - 1) ≤ mr := by
    intro h
    have := hρlo h
    have : ((2 ^ (prec - 1) : ℕ) : ℚ) < (mr : ℚ) + 1 := by rw [two_pow_pred_cast prec hp]; linarith [hs1'.1]
    have : 2 ^ (prec - 1) < mr + 1 := by exact_mod_cast this
    omega
  have hpow : 2 ^ prec = 2 * 2 ^ (prec - 1) := by
    have : prec = (prec - 1) + 1 := by omega
    conv_lhs => rw [this, pow_succ]
    ring
  have hr : (n : ℚ) / d = ρ * (2 : ℚ) ^ e2 := by
    rw [hρdef]; field_simp
  have hnearest : ∀ (mz : ℕ) (ez : ℤ), mz < 2 ^ prec → emin ≤ ez → |(mr : ℚ) * (2 : ℚ) ^ e2 - (n : ℚ) / d| ≤ |val mz ez - (n : ℚ) / d| := by
    intro mz ez hmz hez
    rw [hr]
    -- divide by 2^e2
    have hfac : ∀ x : ℚ, |x * (2 : ℚ) ^ e2 - ρ * (2 : ℚ) ^ e2| = |x - ρ| * (2 : ℚ) ^ e2 := by
      intro x; rw [← sub_mul, abs_mul, abs_of_pos hE2]
    have hz : val mz ez = ((mz : ℚ) * (2 : ℚ) ^ (ez - e2)) * (2 : ℚ) ^ e2 := by
      unfold val; rw [mul_assoc, ← zpow_add₀ h2ne]; congr 2; ring
    rw [hfac, hz, hfac]
    apply mul_le_mul_of_nonneg_right _ (le_of_lt hE2)
    by_cases hc : e2 ≤ ez
    · -- the competitor is an integer multiple of 2^e2
      have : (mz : ℚ) * (2 : ℚ) ^ (ez - e2) = (((mz * 2 ^ (ez - e2).toNat : ℕ) : ℤ) : ℚ) := by
        rw [two_zpow_toNat (ez - e2) (by omega)]; push_cast; ring
      rw [this]; exact hnear _
    · -- the competitor is below 2^(prec-1) · 2^e2, which is itself a candidate
      have hlt : emin < e2 := by omega
      have hlo := hρlo hlt
      have hP := hnear ((2 ^ (prec - 1) : ℕ) : ℤ)
      have hPc : (((2 ^ (prec - 1) : ℕ) : ℤ) : ℚ) = (2 : ℚ) ^ ((prec : ℤ) - 1) := by
        rw [Int.cast_natCast, two_pow_pred_cast prec hp]
      rw [hPc] at hP
      have hζ : (mz : ℚ) * (2 : ℚ) ^ (ez - e2) < (2 : ℚ) ^ ((prec : ℤ) - 1) := by
        have h1 : (2 : ℚ) ^ (ez - e2) ≤ (2 : ℚ) ^ (-1 : ℤ) := zpow_le_zpow_right₀ (by norm_num) (by omega)
        have h2 : (mz : ℚ) < (2 : ℚ) ^ (prec : ℤ) := by rw [← two_pow_cast]; exact_mod_cast hmz
        have h3 : (2 : ℚ) ^ (prec : ℤ) * (2 : ℚ) ^ (-1 : ℤ) = (2 : ℚ) ^ ((prec : ℤ) - 1) := by
          rw [← zpow_add₀ h2ne]; congr 1
        have h4 : (0 : ℚ) < (2 : ℚ) ^ (-1 : ℤ) := two_zpow_pos _
        calc (mz : ℚ) * (2 : ℚ) ^ (ez - e2) ≤ (mz : ℚ) * (2 : ℚ) ^ (-1 : ℤ) := mul_le_mul_of_nonneg_left h1 (by positivity)
          _ < (2 : ℚ) ^ (prec : ℤ) * (2 : ℚ) ^ (-1 : ℤ) := mul_lt_mul_of_pos_right h2 h4
          _ = (2 : ℚ) ^ ((prec : ℤ) - 1) := h3
      have a1 : |(2 : ℚ) ^ ((prec : ℤ) - 1) - ρ| = ρ - (2 : ℚ) ^ ((prec : ℤ) - 1) := by
        rw [abs_sub_comm]; exact abs_of_nonneg (by linarith)
      have a2 : |(mz : ℚ) * (2 : ℚ) ^ (ez - e2) - ρ| = ρ - (mz : ℚ) * (2 : ℚ) ^ (ez - e2) := by
        rw [abs_sub_comm]; exact abs_of_nonneg (by linarith)
      rw [a2]; rw [a1] at hP; linarith

  by_cases hc : mr ≥ 2 ^ prec
  · rw [if_pos hc]
    have hmr : mr = 2 ^ prec := by omega
    have hv : val (2 ^ (prec - 1)) (e2 + 1) = (mr : ℚ) * (2 : ℚ) ^ e2 := by
      unfold val
      rw [hmr, zpow_add₀ h2ne, zpow_one, hpow]; push_cast; ring
    refine ⟨by simp only; omega, ?_, fun _ => le_refl _, ?_⟩
    · simp only; rw [hpow]; have : 0 < 2 ^ (prec - 1) := by positivity
      omega
    · intro mz ez hmz hez
      simp only
      rw [hv]; exact hnearest mz ez hmz hez
  · rw [if_neg hc]
    refine ⟨hemin, by simp only; omega, hmr_ge, ?_⟩
    intro mz ez hmz hez
    exact hnearest mz ez hmz hez


/-! ## binary64 bits ⇄ (sign, significand, exponent) -/

theorem fDecode_of (bits sgn E f : ℕ) (hb : bits = sgn * 2 ^ 63 + E * 2 ^ 52 + f) (hs : sgn ≤ 1) (hE : E < 2048) (hf : f < 2 ^ 52) :
    fDecode bits = (decide (sgn = 1), (if E = 0 then f else f + 2 ^ 52), (if E = 0 then -1074 else (E : ℤ) - 1075)) := by
  have h1 : bits / 2 ^ 63 % 2 = sgn := by omega
  have h2 : bits / 2 ^ 52 % 2048 = E := by omega
  have h3 : bits % 2 ^ 52 = f := by omega
  unfold fDecode
  simp only [h1, h2, h3]
  split <;> rfl

theorem fDecode_encode (sg : Bool) (m : ℕ) (e : ℤ) (hm : m < 2 ^ 53) (hsub : m < 2 ^ 52 → e = -1074)
    (hnorm : 2 ^ 52 ≤ m → -1074 ≤ e ∧ e + 1075 < 2047) :
    fDecode (encode64 sg m e) = (sg, m, e) ∧ fFinite (encode64 sg m e) = true := by
  by_cases h : m < 2 ^ 52
  · have he := hsub h
    subst he
    have hb : encode64 sg m (-1074) = (if sg then 1 else 0) * 2 ^ 63 + 0 * 2 ^ 52 + m := by
      simp only [encode64, h, if_true, signBit]; cases sg <;> simp
    constructor
    · rw [fDecode_of _ _ 0 m hb (by cases sg <;> simp) (by omega) h]
      cases sg <;> simp
    · rw [hb]; unfold fFinite
      cases sg <;> simp <;> omega
  · obtain ⟨h1, h2⟩ := hnorm (by omega)
    have hE : ¬ (e + 1075 ≥ 2047) := by omega
    obtain ⟨E, hEe, hEz, hE1, hE2⟩ : ∃ E : ℕ, (e + 1075).toNat = E ∧ (E : ℤ) = e + 1075 ∧ 1 ≤ E ∧ E < 2047 :=
      ⟨(e + 1075).toNat, rfl, by omega, by omega, by omega⟩
    have hb : encode64 sg m e = (if sg then 1 else 0) * 2 ^ 63 + E * 2 ^ 52 + (m - 2 ^ 52) := by
      simp only [encode64, h, if_false, hE, hEe, signBit]; cases sg <;> simp
    constructor
    · rw [fDecode_of _ _ E (m - 2 ^ 52) hb (by cases sg <;> simp) (by omega) (by omega)]
      have hE0 : ¬ E = 0 := by omega
      simp only [hE0, if_false]
      have : m - 2 ^ 52 + 2 ^ 52 = m := by omega
      rw [this]
      have : (E : ℤ) - 1075 = e := by omega
      rw [this]
      cases sg <;> simp
    · rw [hb]; unfold fFinite
      cases sg <;> simp <;> omega

theorem fDecode_finite (bits : ℕ) (h : fFinite bits = true) :
    (fDecode bits).2.1 < 2 ^ 53 ∧ -1074 ≤ (fDecode bits).2.2 ∧ (fDecode bits).2.2 ≤ 971 := by
  unfold fFinite at h
  simp only [Bool.and_eq_true, decide_eq_true_eq, ne_eq] at h
  have hb : bits = (bits / 2 ^ 63) * 2 ^ 63 + (bits / 2 ^ 52 % 2048) * 2 ^ 52 + bits % 2 ^ 52 := by omega
  rw [fDecode_of bits _ _ _ hb (by omega) (by omega) (by omega)]
  simp only
  split <;> omega

theorem fDecode_signBit (sg : Bool) : fDecode (signBit sg) = (sg, 0, -1074) := by
  have := (fDecode_encode sg 0 (-1074) (by norm_num) (fun _ => rfl) (fun h => absurd h (by norm_num))).1
  simpa [encode64] using this


/-! ## `%f`: the scaled value and its stability -/

/-- the integer `%f` prints is `|x| · 10^6` rounded half-even -/
theorem fScaled_spec (m : ℕ) (e : ℤ) :
    |(fScaled m e : ℚ) - val m e * 10 ^ 6| ≤ 1 / 2 ∧ (|(fScaled m e : ℚ) - val m e * 10 ^ 6| = 1 / 2 → fScaled m e % 2 = 0) := by
  unfold fScaled val
  by_cases h : e ≥ 0
  · simp only [h, if_true]
    have : ((m * 2 ^ e.toNat * 10 ^ 6 : ℕ) : ℚ) - (m : ℚ) * (2 : ℚ) ^ e * 10 ^ 6 = 0 := by
      rw [two_zpow_toNat e h]; push_cast; ring
    rw [this]; norm_num
  · simp only [h, if_false]
    have hden : 0 < 2 ^ (-e).toNat := by positivity
    have hq : ((m * 10 ^ 6 : ℕ) : ℚ) / ((2 ^ (-e).toNat : ℕ) : ℚ) = (m : ℚ) * (2 : ℚ) ^ e * 10 ^ 6 := by
      rw [two_zpow_neg_toNat e (by omega)]; push_cast; field_simp; norm_num
    have := rhe_spec (m * 10 ^ 6) (2 ^ (-e).toNat) hden
    rw [hq] at this
    exact this

theorem fScaled_unique (m : ℕ) (e : ℤ) (k : ℕ) (h1 : |(k : ℚ) - val m e * 10 ^ 6| ≤ 1 / 2)
    (h2 : |(k : ℚ) - val m e * 10 ^ 6| = 1 / 2 → k % 2 = 0) : k = fScaled m e := by
  unfold fScaled
  unfold val at h1 h2
  by_cases h : e ≥ 0
  · simp only [h, if_true]
    have e1 : (m : ℚ) * (2 : ℚ) ^ e * 10 ^ 6 = ((m * 2 ^ e.toNat * 10 ^ 6 : ℕ) : ℚ) := by
      rw [two_zpow_toNat e h]; push_cast; ring
    rw [e1] at h1
    generalize m * 2 ^ e.toNat * 10 ^ 6 = N at *
    have h' := abs_le.1 h1
    have a : (k : ℚ) < (N : ℚ) + 1 := by linarith [h'.2]
    have b : (N : ℚ) < (k : ℚ) + 1 := by linarith [h'.1]
    have a' : k < N + 1 := by exact_mod_cast a
    have b' : N < k + 1 := by exact_mod_cast b
    omega
  · simp only [h, if_false]
    have hden : 0 < 2 ^ (-e).toNat := by positivity
    have hq : ((m * 10 ^ 6 : ℕ) : ℚ) / ((2 ^ (-e).toNat : ℕ) : ℚ) = (m : ℚ) * (2 : ℚ) ^ e * 10 ^ 6 := by
      rw [two_zpow_neg_toNat e (by omega)]; push_cast; field_simp; norm_num
    apply rhe_unique _ _ hden k
    · rw [hq]; exact h1
    · rw [hq]; exact h2

/-- **stability of the printed text**: a value at least as close to the printed decimal as the value printed prints the same -/
theorem fScaled_stable (mx : ℕ) (ex : ℤ) (my : ℕ) (ey : ℤ)
    (h : |val my ey - (fScaled mx ex : ℚ) / 10 ^ 6| ≤ |val mx ex - (fScaled mx ex : ℚ) / 10 ^ 6|) :
    fScaled my ey = fScaled mx ex := by
  obtain ⟨s1, s2⟩ := fScaled_spec mx ex
  generalize fScaled mx ex = q at *
  have hsc : ∀ v : ℚ, |(q : ℚ) - v * 10 ^ 6| = |v - (q : ℚ) / 10 ^ 6| * 10 ^ 6 := by
    intro v
    have : (q : ℚ) - v * 10 ^ 6 = -((v - (q : ℚ) / 10 ^ 6) * 10 ^ 6) := by field_simp; ring
    rw [this, abs_neg, abs_mul, abs_of_pos (by norm_num : (0 : ℚ) < 10 ^ 6)]
  have hle : |(q : ℚ) - val my ey * 10 ^ 6| ≤ |(q : ℚ) - val mx ex * 10 ^ 6| := by
    rw [hsc, hsc]; exact mul_le_mul_of_nonneg_right h (by norm_num)
  symm
  apply fScaled_unique my ey q
  · exact le_trans hle s1
  · intro ht
    apply s2
    exact le_antisymm s1 (ht ▸ hle)

/-- the distance of a printed double from its printed decimal is at most half a unit of the sixth decimal -/
theorem fScaled_close (m : ℕ) (e : ℤ) : |val m e - (fScaled m e : ℚ) / 10 ^ 6| ≤ 1 / (2 * 10 ^ 6) := by
  obtain ⟨s1, _⟩ := fScaled_spec m e
  have : val m e - (fScaled m e : ℚ) / 10 ^ 6 = -(((fScaled m e : ℚ) - val m e * 10 ^ 6) / 10 ^ 6) := by field_simp; ring
  rw [this, abs_neg, abs_div, abs_of_pos (by norm_num : (0 : ℚ) < 10 ^ 6)]
  rw [div_le_div_iff₀ (by norm_num) (by norm_num)]
  generalize |(fScaled m e : ℚ) - val m e * 10 ^ 6| = A at *
  norm_num
  linarith


/-! ## the digits `%f` writes denote the scaled value -/

theorem digitsVal_snoc (l : List ℕ) (c : ℕ) : digitsVal (l ++ [c]) = digitsVal l * 10 + (c - 48) := by
  simp [digitsVal, List.foldl_append]

theorem digitsVal_natDigits (n : ℕ) : digitsVal (natDigits n) = n := by
  induction n using Nat.strongRecOn with
  | _ n ih =>
    by_cases h : n < 10
    · rw [natDigits_lt10 n h]; simp [digitsVal]
    · rw [natDigits_ge10 n (by omega), digitsVal_snoc, ih (n / 10) (by omega)]
      omega

theorem natDigits_million (b : ℕ) (hb : b < 10 ^ 6) :
    natDigits (10 ^ 6 + b) = [49, 48 + b / 100000 % 10, 48 + b / 10000 % 10, 48 + b / 1000 % 10, 48 + b / 100 % 10,
      48 + b / 10 % 10, 48 + b % 10] := by
  have hb' : b < 1000000 := by simpa using hb
  have e : (10 : ℕ) ^ 6 = 1000000 := by norm_num
  rw [e]
  rw [natDigits_ge10 _ (by omega), natDigits_ge10 _ (by omega), natDigits_ge10 _ (by omega), natDigits_ge10 _ (by omega),
    natDigits_ge10 _ (by omega), natDigits_ge10 _ (by omega), natDigits_lt10 _ (by omega)]
  simp only [List.cons_append, List.nil_append, List.cons.injEq, and_true]
  refine ⟨?_, ?_, ?_, ?_, ?_, ?_, ?_⟩ <;> omega

theorem sixDigits (b : ℕ) (hb : b < 10 ^ 6) (l : List ℕ) :
    ((natDigits (10 ^ 6 + b)).drop 1).length = 6 ∧ digitsVal (l ++ (natDigits (10 ^ 6 + b)).drop 1) = digitsVal l * 10 ^ 6 + b := by
  rw [natDigits_million b hb]
  have hb' : b < 1000000 := by simpa using hb
  refine ⟨rfl, ?_⟩
  simp only [List.drop_succ_cons, List.drop_zero, digitsVal, List.foldl_append, List.foldl_cons, List.foldl_nil,
    Nat.add_sub_cancel_left]
  generalize List.foldl (fun a b => a * 10 + (b - 48)) 0 l = A
  omega

theorem natDigits_length_le (k : ℕ) : ∀ n, n < 10 ^ (k + 1) → (natDigits n).length ≤ k + 1 := by
  induction k with
  | zero => intro n hn; rw [natDigits_lt10 n (by simpa using hn)]; simp
  | succ k ih =>
    intro n hn
    by_cases h : n < 10
    · rw [natDigits_lt10 n h]; simp
    · rw [natDigits_ge10 n (by omega)]
      have : n / 10 < 10 ^ (k + 1) := by
        rw [Nat.div_lt_iff_lt_mul (by norm_num)]; rw [pow_succ] at hn; exact hn
      have := ih (n / 10) this
      simp only [List.length_append, List.length_cons, List.length_nil]; omega

/-- what scanf makes of the text `%f` wrote for `bits`: the decimal `q · 10^-6`, converted to the destination -/
theorem printF_parse (narrow : Bool) (bits : ℕ) :
    scanFloating narrow (printF bits) =
      .ok (decToBitsW narrow (fDecode bits).1 (fScaled (fDecode bits).2.1 (fDecode bits).2.2) (-6), []) := by
  simp only [printF]
  generalize fDecode bits = d
  obtain ⟨sg, m, e⟩ := d
  simp only
  generalize fScaled m e = q
  have hlt : q % 10 ^ 6 < 10 ^ 6 := Nat.mod_lt _ (by norm_num)
  obtain ⟨hlen, hval⟩ := sixDigits (q % 10 ^ 6) hlt (natDigits (q / 10 ^ 6))
  have := scanFloating_shape narrow sg (natDigits (q / 10 ^ 6)) (some ((natDigits (10 ^ 6 + q % 10 ^ 6)).drop 1)) none []
    (natDigits_isDigit _) (natDigits_ne_nil _) (by intro fp h; cases h; exact sixDigits_isDigit q) (by intro l s ed h; cases h)
    (by rfl)
  simp only [dotText, exText, exVal, Option.getD_some, hlen, hval, digitsVal_natDigits, List.append_nil] at this
  have hq : q / 10 ^ 6 * 10 ^ 6 + q % 10 ^ 6 = q := by
    have := Nat.div_add_mod q (10 ^ 6); rw [Nat.mul_comm] at this; exact this
  rw [hq] at this
  simpa [List.append_assoc] using this


/-! ## the Float value clause: `%lf` reads back a double that prints as the same text -/

theorem val_mono_exp (m : ℕ) (e e' : ℤ) (h : e ≤ e') : val m e ≤ val m e' := by
  unfold val
  exact mul_le_mul_of_nonneg_left (zpow_le_zpow_right₀ (by norm_num) h) (by positivity)

theorem val_lt (m : ℕ) (e : ℤ) (p : ℕ) (hm : m < 2 ^ p) : val m e < (2 : ℚ) ^ ((p : ℤ) + e) := by
  unfold val
  rw [zpow_add₀ (by norm_num : (2 : ℚ) ≠ 0)]
  have : (m : ℚ) < (2 : ℚ) ^ (p : ℤ) := by rw [← two_pow_cast]; exact_mod_cast hm
  exact mul_lt_mul_of_pos_right this (two_zpow_pos e)

theorem val_ge (m : ℕ) (e : ℤ) (p : ℕ) (hm : 2 ^ p ≤ m) : (2 : ℚ) ^ ((p : ℤ) + e) ≤ val m e := by
  unfold val
  rw [zpow_add₀ (by norm_num : (2 : ℚ) ≠ 0)]
  have : (2 : ℚ) ^ (p : ℤ) ≤ (m : ℚ) := by rw [← two_pow_cast]; exact_mod_cast hm
  exact mul_le_mul_of_nonneg_right this (le_of_lt (two_zpow_pos e))

/-- the scaled value of a finite double has at most 400 digits -/
theorem fScaled_lt (m : ℕ) (e : ℤ) (hm : m < 2 ^ 53) (he : e ≤ 971) : fScaled m e < 10 ^ 400 := by
  obtain ⟨s1, _⟩ := fScaled_spec m e
  have h1 : val m e < (2 : ℚ) ^ ((53 : ℕ) + (971 : ℤ)) := lt_of_le_of_lt (val_mono_exp m e 971 he) (val_lt m 971 53 hm)
  have h2 : (2 : ℚ) ^ (((53 : ℕ) : ℤ) + (971 : ℤ)) = (2 : ℚ) ^ (1024 : ℕ) := by
    rw [← zpow_natCast]; congr 1
  rw [h2] at h1
  have h3 := abs_le.1 s1
  have h4 : (fScaled m e : ℚ) < (2 : ℚ) ^ (1024 : ℕ) * 10 ^ 6 + 1 := by nlinarith [h3.2]
  have h5 : (2 : ℚ) ^ (1024 : ℕ) * 10 ^ 6 + 1 ≤ ((10 ^ 400 : ℕ) : ℚ) := by
    have : 2 ^ 1024 * 10 ^ 6 + 1 ≤ 10 ^ 400 := by decide +kernel
    exact_mod_cast this
  have : (fScaled m e : ℚ) < ((10 ^ 400 : ℕ) : ℚ) := lt_of_lt_of_le h4 h5
  exact_mod_cast this

/-- for the decimal `q · 10^-6` of a finite double the range shortcuts of `decToBitsW` do not fire -/
theorem decToBitsW_six (narrow neg : Bool) (q : ℕ) (hq0 : 0 < q) (hq : q < 10 ^ 400) :
    decToBitsW narrow neg q (-6) = (if narrow then ratToBits32 else ratToBits) neg q (10 ^ 6) := by
  have hl := natDigits_length_le 399 q hq
  have hl0 : 0 < (natDigits q).length := List.length_pos_of_ne_nil (natDigits_ne_nil q)
  unfold decToBitsW
  have c0 : ¬ q = 0 := by omega
  have c1 : ¬ ((-6 : ℤ) + ((natDigits q).length : ℤ) > 400) := by omega
  have c2 : ¬ ((-6 : ℤ) + ((natDigits q).length : ℤ) < -400) := by omega
  have c3 : ¬ ((-6 : ℤ) ≥ 0) := by omega
  simp only [c0, c1, c2, c3, if_false]
  rfl

/-- **the double read back is at least as close to the printed decimal as the double printed** (so it prints the same), and it
    has the same sign -/
theorem reparse_near (bits : ℕ) (hfin : fFinite bits = true) :
    ∃ (my : ℕ) (ey : ℤ), fDecode (reparse bits) = ((fDecode bits).1, my, ey) ∧ fFinite (reparse bits) = true ∧
      |val my ey - (fScaled (fDecode bits).2.1 (fDecode bits).2.2 : ℚ) / 10 ^ 6|
        ≤ |val (fDecode bits).2.1 (fDecode bits).2.2 - (fScaled (fDecode bits).2.1 (fDecode bits).2.2 : ℚ) / 10 ^ 6| := by
  obtain ⟨hmx, hex1, hex2⟩ := fDecode_finite bits hfin
  have hparse := printF_parse false bits
  have hre : reparse bits = decToBitsW false (fDecode bits).1 (fScaled (fDecode bits).2.1 (fDecode bits).2.2) (-6) := by
    simp only [reparse, reparseSpec, printFloatSpec, hparse]
  generalize (fDecode bits).1 = sg at *
  generalize (fDecode bits).2.1 = mx at *
  generalize (fDecode bits).2.2 = ex at *
  have hclose := fScaled_close mx ex
  have hqlt := fScaled_lt mx ex hmx hex2
  generalize hq : fScaled mx ex = q at *
  by_cases hq0 : q = 0
  · -- the text is ±0.000000: read back as ±0
    subst hq0
    have : reparse bits = signBit sg := by rw [hre]; simp [decToBitsW]
    rw [this, fDecode_signBit]
    refine ⟨0, -1074, rfl, ?_, ?_⟩
    · have := (fDecode_encode sg 0 (-1074) (by norm_num) (fun _ => rfl) (fun h => absurd h (by norm_num))).2
      simpa [encode64] using this
    · have : val 0 (-1074) - ((0 : ℕ) : ℚ) / 10 ^ 6 = 0 := by simp [val]
      rw [this, abs_zero]; exact abs_nonneg _
  · have hq0' : 0 < q := by omega
    rw [decToBitsW_six false sg q hq0' hqlt] at hre
    simp only [Bool.false_eq_true, if_false, ratToBits, hq0] at hre
    have R := roundRat_ok 53 (-1074) q (10 ^ 6) hq0' (by norm_num) (by norm_num)
    generalize (roundRat 53 (-1074) q (10 ^ 6)).1 = my at *
    generalize (roundRat 53 (-1074) q (10 ^ 6)).2 = ey at *
    have hcast : ((q : ℚ) / ((10 ^ 6 : ℕ) : ℚ)) = (q : ℚ) / 10 ^ 6 := by push_cast; rfl
    have hnear := R.nearest mx ex hmx hex1
    rw [hcast] at hnear
    -- no overflow: the result is within 10^-6 of a finite double
    have hno : 2 ^ 52 ≤ my → -1074 ≤ ey ∧ ey + 1075 < 2047 := by
      intro hmy
      refine ⟨R.emin_le, ?_⟩
      by_contra hov
      have hey : 972 ≤ ey := by omega
      have hy : (2 : ℚ) ^ (((52 : ℕ) : ℤ) + 972) ≤ val my ey :=
        le_trans (val_ge my 972 52 hmy) (val_mono_exp my 972 ey hey)
      have hx : val mx ex ≤ val mx 971 := val_mono_exp mx ex 971 hex2
      have hx2 : val mx 971 ≤ ((2 : ℚ) ^ (53 : ℕ) - 1) * (2 : ℚ) ^ (971 : ℤ) := by
        unfold val
        apply mul_le_mul_of_nonneg_right _ (le_of_lt (two_zpow_pos _))
        have : mx ≤ 2 ^ 53 - 1 := by omega
        have : (mx : ℚ) ≤ ((2 ^ 53 - 1 : ℕ) : ℚ) := by exact_mod_cast this
        rw [Nat.cast_sub (by norm_num)] at this
        push_cast at this; linarith
      have e1 : (2 : ℚ) ^ (((52 : ℕ) : ℤ) + 972) = (2 : ℚ) ^ (1024 : ℕ) := by rw [← zpow_natCast]; congr 1
      have e2 : (2 : ℚ) ^ (971 : ℤ) = (2 : ℚ) ^ (971 : ℕ) := by rw [← zpow_natCast]; congr 1
      rw [e1] at hy; rw [e2] at hx2
      have a1 := abs_le.1 hnear
      have a2 := abs_le.1 hclose
      have a3 := abs_le.1 (le_trans hnear hclose)
      have hd1 : val my ey - val mx ex ≤ 1 := by
        have a32 := a3.2
        have a21 := a2.1
        norm_num at a32 a21
        linarith only [a32, a21]
      have hgap : ((2 : ℚ) ^ (53 : ℕ) - 1) * (2 : ℚ) ^ (971 : ℕ) + 1 < (2 : ℚ) ^ (1024 : ℕ) := by
        have : (2 ^ 53 - 1) * 2 ^ 971 + 1 < 2 ^ 1024 := by decide +kernel
        have h' : (((2 ^ 53 - 1) * 2 ^ 971 + 1 : ℕ) : ℚ) < ((2 ^ 1024 : ℕ) : ℚ) := by exact_mod_cast this
        rw [Nat.cast_add, Nat.cast_mul, Nat.cast_sub (by norm_num)] at h'
        push_cast at h'
        exact h'
      generalize (2 : ℚ) ^ (1024 : ℕ) = T at *
      generalize ((2 : ℚ) ^ (53 : ℕ) - 1) * (2 : ℚ) ^ (971 : ℕ) = U at *
      linarith only [hy, hx, hx2, hd1, hgap]
    have hsubn : my < 2 ^ 52 → ey = -1074 := by
      intro hmy
      by_contra hne
      have := R.normal (by have := R.emin_le; omega)
      omega
    obtain ⟨hdec, hfin'⟩ := fDecode_encode sg my ey R.lt hsubn hno
    rw [hre]
    exact ⟨my, ey, hdec, hfin', hnear⟩

/-- **C15, Float value clause**: the double that `%lf` reads back from the text `%f` wrote prints as the same text — it is equal
    to the double written within the printed precision -/
theorem printF_reparse (bits : ℕ) (hfin : fFinite bits = true) : printF (reparse bits) = printF bits := by
  obtain ⟨my, ey, hdec, _, hnear⟩ := reparse_near bits hfin
  have := fScaled_stable _ _ my ey hnear
  simp only [printF, hdec, this]

/-! ## a `float` destination: values that are floats survive `%f` → `strtof` → widening -/

/-- a finite double that `isFloat32` accepts is `k · 2^E` with a 24-bit `k` and an exponent in binary32's range -/
theorem isFloat32_spec (bits : ℕ) (hfin : fFinite bits = true) (h : isFloat32 bits = true) :
    ∃ (k : ℕ) (E : ℤ), k < 2 ^ 24 ∧ -149 ≤ E ∧ E ≤ 104 ∧ val (fDecode bits).2.1 (fDecode bits).2.2 = val k E := by
  obtain ⟨hm, he1, he2⟩ := fDecode_finite bits hfin
  unfold isFloat32 at h
  generalize fDecode bits = d at *
  obtain ⟨sg, m, e⟩ := d
  simp only at hm he1 he2 h ⊢
  simp only [Bool.or_eq_true, Bool.and_eq_true, beq_iff_eq, decide_eq_true_eq] at h
  have h2ne : (2 : ℚ) ≠ 0 := by norm_num
  rcases h with (h | h) | h
  · subst h; exact ⟨0, 0, by norm_num, by norm_num, by norm_num, by simp [val]⟩
  · obtain ⟨⟨⟨h1, h2⟩, h3⟩, h4⟩ := h
    refine ⟨m / 2 ^ 29, e + 29, by omega, by omega, by omega, ?_⟩
    unfold val
    rw [zpow_add₀ h2ne]
    have : (m : ℚ) = ((m / 2 ^ 29 * 2 ^ 29 : ℕ) : ℚ) := by rw [h1]
    rw [this]; push_cast
    ring
  · obtain ⟨⟨⟨h1, h2⟩, h3⟩, h4⟩ := h
    obtain ⟨t, ht, ht1, ht2⟩ : ∃ t : ℕ, (-149 - e).toNat = t ∧ (t : ℤ) = -149 - e ∧ 30 ≤ t ∧ t ≤ 52 :=
      ⟨(-149 - e).toNat, rfl, by omega, by omega, by omega⟩
    rw [ht] at h4
    have hdiv : m / 2 ^ t * 2 ^ t = m := by
      have := Nat.div_add_mod m (2 ^ t); rw [h4, Nat.add_zero, Nat.mul_comm] at this; exact this
    have hk : m / 2 ^ t < 2 ^ 24 := by
      rw [Nat.div_lt_iff_lt_mul (by positivity)]
      calc m < 2 ^ 53 := hm
        _ = 2 ^ 24 * 2 ^ 29 := by norm_num
        _ ≤ 2 ^ 24 * 2 ^ t := Nat.mul_le_mul_left _ (Nat.pow_le_pow_right (by norm_num) (by omega))
    refine ⟨m / 2 ^ t, -149, hk, by omega, by omega, ?_⟩
    unfold val
    have he : (-149 : ℤ) = (t : ℤ) + e := by omega
    rw [he, zpow_add₀ h2ne, zpow_natCast]
    have : (m : ℚ) = ((m / 2 ^ t * 2 ^ t : ℕ) : ℚ) := by rw [hdiv]
    conv_lhs => rw [this]
    push_cast; ring

/-- `widen32`: the same value with a 53-bit significand -/
theorem widen32_spec (m : ℕ) (e : ℤ) (hm : m < 2 ^ 24) (hpos : 0 < m) :
    val (widen32 m e).1 (widen32 m e).2 = val m e ∧ 2 ^ 52 ≤ (widen32 m e).1 ∧ (widen32 m e).1 < 2 ^ 53 ∧
      e - 52 ≤ (widen32 m e).2 ∧ (widen32 m e).2 ≤ e := by
  have hL1 : 2 ^ m.log2 ≤ m := Nat.log2_self_le (by omega)
  have hL2 : m < 2 ^ (m.log2 + 1) := Nat.lt_log2_self
  have hL : m.log2 < 24 := by
    by_contra hc
    have : 2 ^ 24 ≤ 2 ^ m.log2 := Nat.pow_le_pow_right (by norm_num) (by omega)
    omega
  have hne : ¬ m = 0 := by omega
  simp only [widen32, hne, if_false]
  generalize hs : 52 - m.log2 = s
  have hsL : m.log2 + s = 52 := by omega
  have h2ne : (2 : ℚ) ≠ 0 := by norm_num
  refine ⟨?_, ?_, ?_, by omega, by omega⟩
  · unfold val
    rw [zpow_sub₀ h2ne, zpow_natCast]; push_cast
    have : (2 : ℚ) ^ s ≠ 0 := by positivity
    field_simp
  · calc 2 ^ 52 = 2 ^ m.log2 * 2 ^ s := by rw [← pow_add, hsL]
      _ ≤ m * 2 ^ s := Nat.mul_le_mul_right _ hL1
  · calc m * 2 ^ s < 2 ^ (m.log2 + 1) * 2 ^ s := Nat.mul_lt_mul_of_pos_right hL2 (by positivity)
      _ = 2 ^ 53 := by rw [← pow_add]; congr 1; omega

/-- **into a `float`**: when the double written is the value of a `float`, the widened `float` read back is at least as close
    to the printed decimal as the value written (so it prints the same), finite, with the same sign -/
theorem reparse32_near (bits : ℕ) (hfin : fFinite bits = true) (h32 : isFloat32 bits = true) :
    ∃ (my : ℕ) (ey : ℤ), fDecode (reparseSpec true .f bits) = ((fDecode bits).1, my, ey) ∧ fFinite (reparseSpec true .f bits) = true ∧
      |val my ey - (fScaled (fDecode bits).2.1 (fDecode bits).2.2 : ℚ) / 10 ^ 6|
        ≤ |val (fDecode bits).2.1 (fDecode bits).2.2 - (fScaled (fDecode bits).2.1 (fDecode bits).2.2 : ℚ) / 10 ^ 6| := by
  obtain ⟨hmx, hex1, hex2⟩ := fDecode_finite bits hfin
  obtain ⟨k, E, hk, hE1, hE2, hkE⟩ := isFloat32_spec bits hfin h32
  have hparse := printF_parse true bits
  have hre : reparseSpec true .f bits = decToBitsW true (fDecode bits).1 (fScaled (fDecode bits).2.1 (fDecode bits).2.2) (-6) := by
    simp only [reparseSpec, printFloatSpec, hparse]
  generalize (fDecode bits).1 = sg at *
  generalize (fDecode bits).2.1 = mx at *
  generalize (fDecode bits).2.2 = ex at *
  have hclose := fScaled_close mx ex
  have hqlt := fScaled_lt mx ex hmx hex2
  generalize hq : fScaled mx ex = q at *
  by_cases hq0 : q = 0
  · subst hq0
    have : reparseSpec true .f bits = signBit sg := by rw [hre]; simp [decToBitsW]
    rw [this, fDecode_signBit]
    refine ⟨0, -1074, rfl, ?_, ?_⟩
    · have := (fDecode_encode sg 0 (-1074) (by norm_num) (fun _ => rfl) (fun h => absurd h (by norm_num))).2
      simpa [encode64] using this
    · have : val 0 (-1074) - ((0 : ℕ) : ℚ) / 10 ^ 6 = 0 := by simp [val]
      rw [this, abs_zero]; exact abs_nonneg _
  · have hq0' : 0 < q := by omega
    rw [decToBitsW_six true sg q hq0' hqlt] at hre
    simp only [if_true, ratToBits32, hq0, if_false] at hre
    have R := roundRat_ok 24 (-149) q (10 ^ 6) hq0' (by norm_num) (by norm_num)
    generalize (roundRat 24 (-149) q (10 ^ 6)).1 = m' at *
    generalize (roundRat 24 (-149) q (10 ^ 6)).2 = e' at *
    have hcast : ((q : ℚ) / ((10 ^ 6 : ℕ) : ℚ)) = (q : ℚ) / 10 ^ 6 := by push_cast; rfl
    have hnear := R.nearest k E hk hE1
    rw [hcast, ← hkE] at hnear
    -- no overflow of binary32: the result is within 10^-6 of a float
    have hno : ¬ e' ≥ 105 := by
      intro hov
      have hm' : 2 ^ 23 ≤ m' := by have := R.normal (by omega); simpa using this
      have hy : (2 : ℚ) ^ (((23 : ℕ) : ℤ) + 105) ≤ val m' e' :=
        le_trans (val_ge m' 105 23 hm') (val_mono_exp m' 105 e' hov)
      have hx : val k E ≤ val k 104 := val_mono_exp k E 104 hE2
      have hx2 : val k 104 ≤ ((2 : ℚ) ^ (24 : ℕ) - 1) * (2 : ℚ) ^ (104 : ℤ) := by
        unfold val
        apply mul_le_mul_of_nonneg_right _ (le_of_lt (two_zpow_pos _))
        have : k ≤ 2 ^ 24 - 1 := by omega
        have : (k : ℚ) ≤ ((2 ^ 24 - 1 : ℕ) : ℚ) := by exact_mod_cast this
        rw [Nat.cast_sub (by norm_num)] at this
        push_cast at this; linarith
      have e1 : (2 : ℚ) ^ (((23 : ℕ) : ℤ) + 105) = (2 : ℚ) ^ (128 : ℕ) := by rw [← zpow_natCast]; congr 1
      have e2 : (2 : ℚ) ^ (104 : ℤ) = (2 : ℚ) ^ (104 : ℕ) := by rw [← zpow_natCast]; congr 1
      rw [e1] at hy; rw [e2] at hx2
      have a2 := abs_le.1 hclose
      have a3 := abs_le.1 (le_trans hnear hclose)
      have hd1 : val m' e' - val mx ex ≤ 1 := by
        have a32 := a3.2
        have a21 := a2.1
        norm_num at a32 a21
        linarith only [a32, a21]
      have hgap : ((2 : ℚ) ^ (24 : ℕ) - 1) * (2 : ℚ) ^ (104 : ℕ) + 1 < (2 : ℚ) ^ (128 : ℕ) := by norm_num
      rw [hkE] at hd1
      generalize (2 : ℚ) ^ (128 : ℕ) = T at *
      generalize ((2 : ℚ) ^ (24 : ℕ) - 1) * (2 : ℚ) ^ (104 : ℕ) = U at *
      linarith only [hy, hx, hx2, hd1, hgap]
    simp only [hno, if_false] at hre
    by_cases hm0 : m' = 0
    · -- underflow to ±0 (then the value written was itself below half a unit: q = 0 is excluded, but nothing needs it)
      subst hm0
      have hw : widen32 0 e' = (0, -1074) := by simp [widen32]
      rw [hw] at hre
      obtain ⟨hdec, hfin'⟩ := fDecode_encode sg 0 (-1074) (by norm_num) (fun _ => rfl) (fun h => absurd h (by norm_num))
      rw [hre]
      refine ⟨0, -1074, hdec, hfin', ?_⟩
      have : val 0 (-1074) = val 0 e' := by simp [val]
      rw [this]; exact hnear
    · obtain ⟨hv, hw1, hw2, hw3, hw4⟩ := widen32_spec m' e' R.lt (by omega)
      have hemin := R.emin_le
      obtain ⟨hdec, hfin'⟩ := fDecode_encode sg (widen32 m' e').1 (widen32 m' e').2 hw2
        (fun h => absurd h (by omega)) (fun _ => ⟨by omega, by omega⟩)
      rw [hre]
      refine ⟨_, _, hdec, hfin', ?_⟩
      rw [hv]; exact hnear

/-- **C15, Float through a floating specification without `l`, for values representable in a `float`** (the part of the
    property that KF-C15-float-spec-narrow leaves standing): what is read back prints as the same text -/
theorem printF_reparse32 (bits : ℕ) (hfin : fFinite bits = true) (h32 : isFloat32 bits = true) :
    printF (reparseSpec true .f bits) = printF bits := by
  obtain ⟨my, ey, hdec, _, hnear⟩ := reparse32_near bits hfin h32
  have := fScaled_stable _ _ my ey hnear
  simp only [printF, hdec, this]

/-- within the printed precision, numerically: both values are within half a unit of the sixth decimal of the text -/
theorem near_within (mx : ℕ) (ex : ℤ) (my : ℕ) (ey : ℤ)
    (h : |val my ey - (fScaled mx ex : ℚ) / 10 ^ 6| ≤ |val mx ex - (fScaled mx ex : ℚ) / 10 ^ 6|) :
    |val my ey - val mx ex| ≤ 1 / 10 ^ 6 := by
  have hc := fScaled_close mx ex
  have a1 := abs_le.1 (le_trans h hc)
  have a2 := abs_le.1 hc
  rw [abs_le]
  constructor <;> [linarith only [a1.1, a2.2, (by norm_num : (1 : ℚ) / (2 * 10 ^ 6) + 1 / (2 * 10 ^ 6) = 1 / 10 ^ 6)];
    linarith only [a1.2, a2.1, (by norm_num : (1 : ℚ) / (2 * 10 ^ 6) + 1 / (2 * 10 ^ 6) = 1 / 10 ^ 6)]]

/-! ## evaluation rules (for witnesses) -/

/-- what a floating conversion of scanf reads from the text `%f` wrote, without going through the text -/
theorem reparseSpec_f_eq (narrow : Bool) (bits : ℕ) (hfin : fFinite bits = true) :
    reparseSpec narrow .f bits =
      (if fScaled (fDecode bits).2.1 (fDecode bits).2.2 = 0 then signBit (fDecode bits).1
       else (if narrow then ratToBits32 else ratToBits) (fDecode bits).1 (fScaled (fDecode bits).2.1 (fDecode bits).2.2) (10 ^ 6)) := by
  obtain ⟨hmx, _, hex2⟩ := fDecode_finite bits hfin
  have hqlt := fScaled_lt _ _ hmx hex2
  simp only [reparseSpec, printFloatSpec, printF_parse narrow bits]
  split
  · rename_i h0; rw [h0]; simp [decToBitsW]
  · rename_i h0; exact decToBitsW_six narrow _ _ (by omega) hqlt

/-- the digits of the text `%f` writes denote the scaled value: two doubles with the same text have the same scaled value -/
theorem printF_digits (bits : ℕ) :
    digitsVal ((printF bits).filter isDigit) = fScaled (fDecode bits).2.1 (fDecode bits).2.2 := by
  simp only [printF]
  generalize fDecode bits = d
  obtain ⟨sg, m, e⟩ := d
  simp only
  generalize fScaled m e = q
  have hlt : q % 10 ^ 6 < 10 ^ 6 := Nat.mod_lt _ (by norm_num)
  obtain ⟨_, hval⟩ := sixDigits (q % 10 ^ 6) hlt (natDigits (q / 10 ^ 6))
  have f1 : ∀ l : List ℕ, (∀ b ∈ l, isDigit b = true) → l.filter isDigit = l := by
    intro l hl; exact List.filter_eq_self.2 hl
  have hs : (if sg = true then [45] else []).filter isDigit = ([] : List ℕ) := by cases sg <;> simp [isDigit]
  simp only [List.filter_append, hs, List.nil_append, f1 _ (natDigits_isDigit _), f1 _ (sixDigits_isDigit q)]
  have h46 : List.filter isDigit [46] = [] := by simp [isDigit]
  rw [h46, List.append_nil, hval, digitsVal_natDigits]
  have := Nat.div_add_mod q (10 ^ 6); rw [Nat.mul_comm] at this; exact this

/-! ## `%e`: seven significant digits -/

theorem natDigits_len_bounds (n : ℕ) (hn : 0 < n) :
    10 ^ ((natDigits n).length - 1) ≤ n ∧ n < 10 ^ (natDigits n).length := by
  induction n using Nat.strongRecOn with
  | _ n ih =>
    by_cases h : n < 10
    · rw [natDigits_lt10 n h]; simp; omega
    · rw [natDigits_ge10 n (by omega)]
      obtain ⟨h1, h2⟩ := ih (n / 10) (by omega) (by omega)
      have hl : 0 < (natDigits (n / 10)).length := List.length_pos_of_ne_nil (natDigits_ne_nil _)
      simp only [List.length_append, List.length_cons, List.length_nil, Nat.zero_add, Nat.add_sub_cancel]
      constructor
      · have : (natDigits (n / 10)).length = ((natDigits (n / 10)).length - 1) + 1 := by omega
        rw [this, pow_succ]
        have := Nat.div_mul_le_self n 10
        calc 10 ^ ((natDigits (n / 10)).length - 1) * 10 ≤ n / 10 * 10 := Nat.mul_le_mul_right _ h1
          _ ≤ n := this
      · rw [pow_succ]
        have := Nat.div_add_mod n 10
        have : n % 10 < 10 := Nat.mod_lt _ (by norm_num)
        omega

theorem ten_zpow_pos (e : ℤ) : (0 : ℚ) < (10 : ℚ) ^ e := by positivity

theorem ten_zpow_toNat (e : ℤ) (h : 0 ≤ e) : (10 : ℚ) ^ e = ((10 ^ e.toNat : ℕ) : ℚ) := by
  conv_lhs => rw [← Int.toNat_of_nonneg h]
  rw [zpow_natCast]; push_cast; rfl

theorem ten_zpow_neg_toNat (e : ℤ) (h : e < 0) : (10 : ℚ) ^ e = 1 / ((10 ^ (-e).toNat : ℕ) : ℚ) := by
  have : e = -((-e).toNat : ℤ) := by rw [Int.toNat_of_nonneg (by omega)]; omega
  conv_lhs => rw [this]
  rw [zpow_neg, zpow_natCast]; push_cast; simp

theorem geTenPow_iff (n d : ℕ) (hd : 0 < d) (k : ℤ) : geTenPow n d k = true ↔ (10 : ℚ) ^ k ≤ (n : ℚ) / d := by
  have hdq : (0 : ℚ) < d := by positivity
  unfold geTenPow
  by_cases h : k ≥ 0
  · simp only [h, if_true, decide_eq_true_eq, ge_iff_le]
    rw [ten_zpow_toNat k h, le_div_iff₀ hdq]
    constructor
    · intro hh; have : ((d * 10 ^ k.toNat : ℕ) : ℚ) ≤ (n : ℚ) := by exact_mod_cast hh
      push_cast at this ⊢; linarith
    · intro hh; have : ((d * 10 ^ k.toNat : ℕ) : ℚ) ≤ (n : ℚ) := by push_cast at hh ⊢; linarith
      exact_mod_cast this
  · simp only [h, if_false, decide_eq_true_eq, ge_iff_le]
    rw [ten_zpow_neg_toNat k (by omega), le_div_iff₀ hdq]
    have hp : (0 : ℚ) < ((10 ^ (-k).toNat : ℕ) : ℚ) := by positivity
    rw [div_mul_eq_mul_div, div_le_iff₀ hp, one_mul]
    constructor
    · intro hh; exact_mod_cast hh
    · intro hh; exact_mod_cast hh

theorem len_bounds_q (n : ℕ) (hn : 0 < n) :
    (10 : ℚ) ^ (((natDigits n).length : ℤ) - 1) ≤ n ∧ (n : ℚ) < (10 : ℚ) ^ ((natDigits n).length : ℤ) := by
  obtain ⟨h1, h2⟩ := natDigits_len_bounds n hn
  have hl : 0 < (natDigits n).length := List.length_pos_of_ne_nil (natDigits_ne_nil _)
  constructor
  · have : (((natDigits n).length : ℤ) - 1) = (((natDigits n).length - 1 : ℕ) : ℤ) := by omega
    rw [this, zpow_natCast]; exact_mod_cast h1
  · rw [zpow_natCast]; exact_mod_cast h2

/-- `floorLog10` is the decimal exponent -/
theorem floorLog10_spec (n d : ℕ) (hn : 0 < n) (hd : 0 < d) :
    (10 : ℚ) ^ (floorLog10 n d) ≤ (n : ℚ) / d ∧ (n : ℚ) / d < (10 : ℚ) ^ (floorLog10 n d + 1) := by
  obtain ⟨n1, n2⟩ := len_bounds_q n hn
  obtain ⟨d1, d2⟩ := len_bounds_q d hd
  have hdq : (0 : ℚ) < d := by positivity
  have h10 : (10 : ℚ) ≠ 0 := by norm_num
  unfold floorLog10
  set a : ℤ := ((natDigits n).length : ℤ)
  set b : ℤ := ((natDigits d).length : ℤ)
  simp only
  by_cases hg : geTenPow n d (a - b) = true
  · simp only [hg, if_true]
    refine ⟨(geTenPow_iff n d hd _).1 hg, ?_⟩
    rw [div_lt_iff₀ hdq]
    have e : (10 : ℚ) ^ (a - b + 1) * (10 : ℚ) ^ (b - 1) = (10 : ℚ) ^ a := by
      rw [← zpow_add₀ h10]; congr 1; ring
    calc (n : ℚ) < (10 : ℚ) ^ a := n2
      _ = (10 : ℚ) ^ (a - b + 1) * (10 : ℚ) ^ (b - 1) := e.symm
      _ ≤ (10 : ℚ) ^ (a - b + 1) * d := mul_le_mul_of_nonneg_left d1 (le_of_lt (ten_zpow_pos _))
  · have hg' : geTenPow n d (a - b) = false := by simpa using hg
    simp only [hg', Bool.false_eq_true, if_false]
    have hlt : (n : ℚ) / d < (10 : ℚ) ^ (a - b) := by
      rw [← not_le]; intro hh; exact hg ((geTenPow_iff n d hd _).2 hh)
    refine ⟨?_, by rwa [show a - b - 1 + 1 = a - b by ring]⟩
    rw [le_div_iff₀ hdq]
    have e : (10 : ℚ) ^ (a - b - 1) * (10 : ℚ) ^ b = (10 : ℚ) ^ (a - 1) := by
      rw [← zpow_add₀ h10]; congr 1; ring
    calc (10 : ℚ) ^ (a - b - 1) * d ≤ (10 : ℚ) ^ (a - b - 1) * (10 : ℚ) ^ b :=
          mul_le_mul_of_nonneg_left (le_of_lt d2) (le_of_lt (ten_zpow_pos _))
      _ = (10 : ℚ) ^ (a - 1) := e
      _ ≤ n := n1

/-- `scaleRound` is the nearest integer to `n/d · 10^s` -/
theorem scaleRound_spec (n d : ℕ) (hd : 0 < d) (s : ℤ) :
    |(scaleRound n d s : ℚ) - (n : ℚ) / d * (10 : ℚ) ^ s| ≤ 1 / 2 := by
  have hdq : (d : ℚ) ≠ 0 := by positivity
  unfold scaleRound
  by_cases h : s ≥ 0
  · simp only [h, if_true]
    have := (rhe_spec (n * 10 ^ s.toNat) d hd).1
    have e : ((n * 10 ^ s.toNat : ℕ) : ℚ) / d = (n : ℚ) / d * (10 : ℚ) ^ s := by
      rw [ten_zpow_toNat s h]; push_cast; field_simp
    rwa [e] at this
  · simp only [h, if_false]
    have hden : 0 < d * 10 ^ (-s).toNat := by positivity
    have := (rhe_spec n (d * 10 ^ (-s).toNat) hden).1
    have e : (n : ℚ) / ((d * 10 ^ (-s).toNat : ℕ) : ℚ) = (n : ℚ) / d * (10 : ℚ) ^ s := by
      rw [ten_zpow_neg_toNat s (by omega)]; push_cast; field_simp
    rwa [e] at this


/-- seven significant digits: `10^6 ≤ D < 10^7`, the exponent is the decimal exponent or (after a carry) one more, and
    `D · 10^(X-6)` is within half a unit of the seventh digit of `n/d` -/
theorem sciDigits6_spec (n d : ℕ) (hn : 0 < n) (hd : 0 < d) :
    10 ^ 6 ≤ (sciDigits 6 n d).1 ∧ (sciDigits 6 n d).1 < 10 ^ 7 ∧
    ((sciDigits 6 n d).2 = floorLog10 n d ∨ (sciDigits 6 n d).2 = floorLog10 n d + 1) ∧
    |(n : ℚ) / d - ((sciDigits 6 n d).1 : ℚ) * (10 : ℚ) ^ ((sciDigits 6 n d).2 - 6)| ≤ (10 : ℚ) ^ (floorLog10 n d - 6) / 2 := by
  obtain ⟨f1, f2⟩ := floorLog10_spec n d hn hd
  have h10 : (10 : ℚ) ≠ 0 := by norm_num
  simp only [sciDigits, Nat.cast_ofNat]
  generalize floorLog10 n d = x0 at *
  have hs := scaleRound_spec n d hd ((6 : ℤ) - x0)
  have hu := ten_zpow_pos (x0 - 6)
  have hsc := ten_zpow_pos ((6 : ℤ) - x0)
  -- the scaled value lies in [10^6, 10^7)
  have e6 : (10 : ℚ) ^ x0 * (10 : ℚ) ^ ((6 : ℤ) - x0) = 10 ^ 6 := by
    rw [← zpow_add₀ h10]; have : x0 + (6 - x0) = ((6 : ℕ) : ℤ) := by ring
    rw [this, zpow_natCast]
  have e7 : (10 : ℚ) ^ (x0 + 1) * (10 : ℚ) ^ ((6 : ℤ) - x0) = 10 ^ 7 := by
    rw [← zpow_add₀ h10]; have : x0 + 1 + (6 - x0) = ((7 : ℕ) : ℤ) := by ring
    rw [this, zpow_natCast]
  have r1 : (10 : ℚ) ^ 6 ≤ (n : ℚ) / d * (10 : ℚ) ^ ((6 : ℤ) - x0) := by
    rw [← e6]; exact mul_le_mul_of_nonneg_right f1 (le_of_lt hsc)
  have r2 : (n : ℚ) / d * (10 : ℚ) ^ ((6 : ℤ) - x0) < 10 ^ 7 := by
    rw [← e7]; exact mul_lt_mul_of_pos_right f2 hsc
  have hnd : (n : ℚ) / d = (n : ℚ) / d * (10 : ℚ) ^ ((6 : ℤ) - x0) * (10 : ℚ) ^ (x0 - 6) := by
    rw [mul_assoc, ← zpow_add₀ h10]; have : (6 : ℤ) - x0 + (x0 - 6) = 0 := by ring
    rw [this, zpow_zero, mul_one]
  generalize (n : ℚ) / d * (10 : ℚ) ^ ((6 : ℤ) - x0) = ρ at *
  have hs' := abs_le.1 hs
  generalize scaleRound n d ((6 : ℤ) - x0) = d0 at *
  have d0lo : 10 ^ 6 ≤ d0 := by
    have : ((10 ^ 6 : ℕ) : ℚ) < (d0 : ℚ) + 1 := by push_cast; linarith [hs'.1]
    have : 10 ^ 6 < d0 + 1 := by exact_mod_cast this
    omega
  have d0hi : d0 ≤ 10 ^ 7 := by
    have : (d0 : ℚ) < ((10 ^ 7 : ℕ) : ℚ) + 1 := by push_cast; linarith [hs'.2]
    have : d0 < 10 ^ 7 + 1 := by exact_mod_cast this
    omega
  have herr : |ρ * (10 : ℚ) ^ (x0 - 6) - (d0 : ℚ) * (10 : ℚ) ^ (x0 - 6)| ≤ (10 : ℚ) ^ (x0 - 6) / 2 := by
    rw [← sub_mul, abs_mul, abs_of_pos hu, abs_sub_comm]
    calc |(d0 : ℚ) - ρ| * (10 : ℚ) ^ (x0 - 6) ≤ 1 / 2 * (10 : ℚ) ^ (x0 - 6) := mul_le_mul_of_nonneg_right hs (le_of_lt hu)
      _ = (10 : ℚ) ^ (x0 - 6) / 2 := by ring
  by_cases hc : d0 ≥ 10 ^ (6 + 1)
  · have hd0 : d0 = 10 ^ 7 := by omega
    simp only [hc, if_true]
    refine ⟨le_refl _, by norm_num, by simp, ?_⟩
    have : ((10 ^ 6 : ℕ) : ℚ) * (10 : ℚ) ^ (x0 + 1 - 6) = (d0 : ℚ) * (10 : ℚ) ^ (x0 - 6) := by
      rw [hd0]; push_cast
      have : x0 + 1 - 6 = (x0 - 6) + 1 := by ring
      rw [this, zpow_add₀ h10, zpow_one]; ring
    rw [this, hnd]; exact herr
  · simp only [hc, if_false]
    refine ⟨d0lo, by omega, by simp, ?_⟩
    rw [hnd]; exact herr

theorem digitsVal_zero_cons (l : List ℕ) : digitsVal (48 :: l) = digitsVal l := by
  simp [digitsVal]

/-- the exponent part printf writes denotes the exponent -/
theorem expText_val (upper : Bool) (x : ℤ) : ∃ l s ed, expText upper x = l :: s :: ed ∧ (l = 101 ∨ l = 69) ∧ (s = 43 ∨ s = 45) ∧
    (∀ b ∈ ed, isDigit b = true) ∧ exVal (some (l, s, ed)) = x := by
  refine ⟨if upper then 69 else 101, if x < 0 then 45 else 43, (if x.natAbs < 10 then [48] else []) ++ natDigits x.natAbs, ?_, ?_, ?_, ?_, ?_⟩
  · simp [expText]
  · cases upper <;> simp
  · split <;> simp
  · intro b hb
    simp only [List.mem_append] at hb
    rcases hb with hb | hb
    · split at hb <;> simp at hb; subst hb; rfl
    · exact natDigits_isDigit _ b hb
  · have hv : digitsVal ((if x.natAbs < 10 then [48] else []) ++ natDigits x.natAbs) = x.natAbs := by
      split
      · simp only [List.cons_append, List.nil_append]; rw [digitsVal_zero_cons, digitsVal_natDigits]
      · simp only [List.nil_append]; rw [digitsVal_natDigits]
    simp only [exVal, hv]
    by_cases hx : x < 0
    · simp only [hx, if_true]; omega
    · simp only [hx, if_false]; norm_num; omega

/-- what scanf makes of the text `%e` wrote for `bits`: the decimal `D · 10^(X-6)`, converted to the destination -/
theorem printE_parse (narrow upper : Bool) (bits : ℕ) :
    scanFloating narrow (printE upper bits) =
      .ok (decToBitsW narrow (fDecode bits).1
        (if (fDecode bits).2.1 = 0 then ((0, 0) : ℕ × ℤ) else
          sciDigits 6 (fFrac (fDecode bits).2.1 (fDecode bits).2.2).1 (fFrac (fDecode bits).2.1 (fDecode bits).2.2).2).1
        ((if (fDecode bits).2.1 = 0 then ((0, 0) : ℕ × ℤ) else
          sciDigits 6 (fFrac (fDecode bits).2.1 (fDecode bits).2.2).1 (fFrac (fDecode bits).2.1 (fDecode bits).2.2).2).2 - 6), []) := by
  simp only [printE]
  generalize fDecode bits = dd
  obtain ⟨sg, m, e⟩ := dd
  simp only
  generalize (if m = 0 then ((0, 0) : ℕ × ℤ) else sciDigits 6 (fFrac m e).1 (fFrac m e).2) = dx
  obtain ⟨l, s, ed, hE, hl, hs, hed, hval⟩ := expText_val upper dx.2
  have hlt : dx.1 % 10 ^ 6 < 10 ^ 6 := Nat.mod_lt _ (by norm_num)
  obtain ⟨hlen, hdv⟩ := sixDigits (dx.1 % 10 ^ 6) hlt (natDigits (dx.1 / 10 ^ 6))
  have := scanFloating_shape narrow sg (natDigits (dx.1 / 10 ^ 6)) (some ((natDigits (10 ^ 6 + dx.1 % 10 ^ 6)).drop 1))
    (some (l, s, ed)) [] (natDigits_isDigit _) (natDigits_ne_nil _) (by intro fp h; cases h; exact sixDigits_isDigit dx.1)
    (by intro l' s' ed' h; cases h; exact ⟨hl, hs, hed⟩) (by rfl)
  simp only [dotText, Option.getD_some, hlen, hdv, digitsVal_natDigits, hval, List.append_nil] at this
  have hq : dx.1 / 10 ^ 6 * 10 ^ 6 + dx.1 % 10 ^ 6 = dx.1 := by
    have := Nat.div_add_mod dx.1 (10 ^ 6); rw [Nat.mul_comm] at this; exact this
  rw [hq] at this
  rw [hE]
  simpa [exText, List.append_assoc] using this


theorem fFrac_val (m : ℕ) (e : ℤ) :
    0 < (fFrac m e).2 ∧ (0 < m → 0 < (fFrac m e).1) ∧ ((fFrac m e).1 : ℚ) / (fFrac m e).2 = val m e := by
  unfold fFrac val
  by_cases h : e ≥ 0
  · simp only [h, if_true]
    refine ⟨by norm_num, fun hm => by positivity, ?_⟩
    rw [two_zpow_toNat e h]; push_cast; ring
  · simp only [h, if_false]
    refine ⟨by positivity, fun hm => hm, ?_⟩
    rw [two_zpow_neg_toNat e (by omega)]; push_cast; ring

theorem ten_zpow_lt_iff (a b : ℤ) : (10 : ℚ) ^ a < (10 : ℚ) ^ b ↔ a < b :=
  zpow_lt_zpow_iff_right₀ (by norm_num)

theorem natDigits_len7 (D : ℕ) (h1 : 10 ^ 6 ≤ D) (h2 : D < 10 ^ 7) : (natDigits D).length = 7 := by
  obtain ⟨b1, b2⟩ := natDigits_len_bounds D (by omega)
  by_contra hne
  rcases Nat.lt_or_gt_of_ne hne with h | h
  · have : 10 ^ (natDigits D).length ≤ 10 ^ 6 := Nat.pow_le_pow_right (by norm_num) (by omega)
    omega
  · have : 10 ^ 7 ≤ 10 ^ ((natDigits D).length - 1) := Nat.pow_le_pow_right (by norm_num) (by omega)
    omega

/-- the largest finite double -/
def maxM : ℕ := 2 ^ 53 - 1

/-- **`%le` / `%lE`: the double read back is at least as close to the seven-digit decimal that was written as the double written**,
    finite, with the same sign; the decimal is within half a unit of its seventh digit of the double written -/
theorem reparseE_near (upper : Bool) (bits : ℕ) (hfin : fFinite bits = true) (hnz : (fDecode bits).2.1 ≠ 0) :
    ∃ (my : ℕ) (ey : ℤ) (t : ℚ) (x0 : ℤ),
      fDecode (reparseSpec false (if upper then .E else .e) bits) = ((fDecode bits).1, my, ey) ∧
      fFinite (reparseSpec false (if upper then .E else .e) bits) = true ∧
      (10 : ℚ) ^ x0 ≤ val (fDecode bits).2.1 (fDecode bits).2.2 ∧
      |val (fDecode bits).2.1 (fDecode bits).2.2 - t| ≤ (10 : ℚ) ^ (x0 - 6) / 2 ∧
      |val my ey - t| ≤ |val (fDecode bits).2.1 (fDecode bits).2.2 - t| := by
  obtain ⟨hmx, hex1, hex2⟩ := fDecode_finite bits hfin
  have hparse := printE_parse false upper bits
  have hre : reparseSpec false (if upper then .E else .e) bits =
      decToBitsW false (fDecode bits).1
        (sciDigits 6 (fFrac (fDecode bits).2.1 (fDecode bits).2.2).1 (fFrac (fDecode bits).2.1 (fDecode bits).2.2).2).1
        ((sciDigits 6 (fFrac (fDecode bits).2.1 (fDecode bits).2.2).1 (fFrac (fDecode bits).2.1 (fDecode bits).2.2).2).2 - 6) := by
    simp only [hnz, if_false] at hparse
    cases upper <;> simp only [reparseSpec, printFloatSpec, hparse, if_true, Bool.false_eq_true, if_false]
  generalize (fDecode bits).1 = sg at *
  generalize (fDecode bits).2.1 = mx at *
  generalize (fDecode bits).2.2 = ex at *
  have hmpos : 0 < mx := by omega
  obtain ⟨hd, hn, hfv⟩ := fFrac_val mx ex
  have hn := hn hmpos
  obtain ⟨D1, D2, hX, herr⟩ := sciDigits6_spec _ _ hn hd
  obtain ⟨f1, f2⟩ := floorLog10_spec _ _ hn hd
  rw [hfv] at herr f1 f2
  generalize floorLog10 (fFrac mx ex).1 (fFrac mx ex).2 = x0 at *
  generalize (sciDigits 6 (fFrac mx ex).1 (fFrac mx ex).2).1 = D at *
  generalize (sciDigits 6 (fFrac mx ex).1 (fFrac mx ex).2).2 = X at *
  have h10 : (10 : ℚ) ≠ 0 := by norm_num
  have h2ne : (2 : ℚ) ≠ 0 := by norm_num
  -- the range of the decimal exponent of a finite double
  have hxlt : val mx ex < (2 : ℚ) ^ (1024 : ℕ) := by
    have h1 : val mx ex < (2 : ℚ) ^ ((53 : ℕ) + (971 : ℤ)) := lt_of_le_of_lt (val_mono_exp mx ex 971 hex2) (val_lt mx 971 53 hmx)
    have h2 : (2 : ℚ) ^ (((53 : ℕ) : ℤ) + (971 : ℤ)) = (2 : ℚ) ^ (1024 : ℕ) := by rw [← zpow_natCast]; congr 1
    rwa [h2] at h1
  have hxge : (2 : ℚ) ^ (-1074 : ℤ) ≤ val mx ex := by
    have h1 : (2 : ℚ) ^ (((0 : ℕ) : ℤ) + ex) ≤ val mx ex := val_ge mx ex 0 (by norm_num; omega)
    have h2 : (2 : ℚ) ^ (-1074 : ℤ) ≤ (2 : ℚ) ^ (((0 : ℕ) : ℤ) + ex) := zpow_le_zpow_right₀ (by norm_num) (by simpa using hex1)
    linarith
  have hx0hi : x0 ≤ 308 := by
    have h1 : (2 : ℚ) ^ (1024 : ℕ) ≤ (10 : ℚ) ^ ((309 : ℕ) : ℤ) := by
      rw [zpow_natCast]
      have : 2 ^ 1024 ≤ 10 ^ 309 := by decide +kernel
      exact_mod_cast this
    have : (10 : ℚ) ^ x0 < (10 : ℚ) ^ ((309 : ℕ) : ℤ) := lt_of_le_of_lt f1 (lt_of_lt_of_le hxlt h1)
    have := (ten_zpow_lt_iff _ _).1 this
    omega
  have hx0lo : -324 ≤ x0 := by
    have h1 : (10 : ℚ) ^ (-324 : ℤ) ≤ (2 : ℚ) ^ (-1074 : ℤ) := by
      rw [show (-324 : ℤ) = -((324 : ℕ) : ℤ) by norm_num, show (-1074 : ℤ) = -((1074 : ℕ) : ℤ) by norm_num, zpow_neg, zpow_neg,
        zpow_natCast, zpow_natCast]
      have h : 2 ^ 1074 ≤ 10 ^ 324 := by decide +kernel
      have h' : ((2 ^ 1074 : ℕ) : ℚ) ≤ ((10 ^ 324 : ℕ) : ℚ) := by exact_mod_cast h
      push_cast at h'
      exact inv_anti₀ (by positivity) h'
    have : (10 : ℚ) ^ (-324 : ℤ) < (10 : ℚ) ^ (x0 + 1) := lt_of_le_of_lt (le_trans h1 hxge) f2
    have := (ten_zpow_lt_iff _ _).1 this
    omega
  have hXlo : -324 ≤ X := by rcases hX with h | h <;> omega
  have hXhi : X ≤ 309 := by rcases hX with h | h <;> omega
  -- the decimal
  set t : ℚ := (D : ℚ) * (10 : ℚ) ^ (X - 6) with ht
  -- `decToBitsW` converts it with `ratToBits`
  have hD0 : ¬ D = 0 := by omega
  have hlen := natDigits_len7 D D1 D2
  obtain ⟨n', d', hn', hd', hnd', hrb⟩ : ∃ n' d' : ℕ, 0 < n' ∧ 0 < d' ∧ (n' : ℚ) / d' = t ∧
      decToBitsW false sg D (X - 6) = ratToBits sg n' d' := by
    unfold decToBitsW
    have c1 : ¬ (X - 6 + ((natDigits D).length : ℤ) > 400) := by rw [hlen]; omega
    have c2 : ¬ (X - 6 + ((natDigits D).length : ℤ) < -400) := by rw [hlen]; omega
    simp only [hD0, c1, c2, if_false, Bool.false_eq_true]
    by_cases hk : X - 6 ≥ 0
    · refine ⟨D * 10 ^ (X - 6).toNat, 1, by positivity, by norm_num, ?_, by simp only [hk, if_true]⟩
      rw [ht, ten_zpow_toNat _ hk]; push_cast; ring
    · refine ⟨D, 10 ^ (-(X - 6)).toNat, by omega, by positivity, ?_, by simp only [hk, if_false]⟩
      rw [ht, ten_zpow_neg_toNat _ (by omega)]; push_cast; ring
  rw [hrb] at hre
  have hn0 : ¬ n' = 0 := by omega
  simp only [ratToBits, hn0, if_false] at hre
  have R := roundRat_ok 53 (-1074) n' d' hn' hd' (by norm_num)
  generalize (roundRat 53 (-1074) n' d').1 = my at *
  generalize (roundRat 53 (-1074) n' d').2 = ey at *
  have hnear := R.nearest mx ex hmx hex1
  rw [hnd'] at hnear
  have hu := ten_zpow_pos (x0 - 6)
  -- no overflow
  have hno : 2 ^ 52 ≤ my → -1074 ≤ ey ∧ ey + 1075 < 2047 := by
    intro hmy
    refine ⟨R.emin_le, ?_⟩
    by_contra hov
    have hey : 972 ≤ ey := by omega
    have hy : (2 : ℚ) ^ (((52 : ℕ) : ℤ) + 972) ≤ val my ey := le_trans (val_ge my 972 52 hmy) (val_mono_exp my 972 ey hey)
    have e1 : (2 : ℚ) ^ (((52 : ℕ) : ℤ) + 972) = (2 : ℚ) ^ (1024 : ℕ) := by rw [← zpow_natCast]; congr 1
    rw [e1] at hy
    -- x ≤ M := (2^53 - 1) · 2^971
    have hxM : val mx ex ≤ ((maxM * 2 ^ 971 : ℕ) : ℚ) := by
      have hx : val mx ex ≤ val mx 971 := val_mono_exp mx ex 971 hex2
      have : val mx 971 ≤ ((maxM * 2 ^ 971 : ℕ) : ℚ) := by
        unfold val maxM
        have e2 : (2 : ℚ) ^ (971 : ℤ) = ((2 ^ 971 : ℕ) : ℚ) := by
          rw [show (971 : ℤ) = ((971 : ℕ) : ℤ) by rfl, zpow_natCast]; push_cast; rfl
        rw [e2, Nat.cast_mul]
        apply mul_le_mul_of_nonneg_right _ (by positivity)
        have : mx ≤ 2 ^ 53 - 1 := by omega
        exact_mod_cast this
      linarith
    -- u ≤ 10^302
    have hu302 : (10 : ℚ) ^ (x0 - 6) ≤ ((10 ^ 302 : ℕ) : ℚ) := by
      have : (10 : ℚ) ^ (x0 - 6) ≤ (10 : ℚ) ^ ((302 : ℕ) : ℤ) := zpow_le_zpow_right₀ (by norm_num) (by omega)
      rw [zpow_natCast] at this; exact_mod_cast this
    have a2 := abs_le.1 herr
    -- the decimal does not exceed the largest finite double: below 10^308 trivially; from 10^308 on it is a multiple of 10^302
    -- and at most M + 10^302/2, and the largest such multiple is 1797693 · 10^302 ≤ M
    have ht_hi : t ≤ ((maxM * 2 ^ 971 : ℕ) : ℚ) + ((10 ^ 302 : ℕ) : ℚ) / 2 := by linarith [a2.1]
    have hM308 : ((10 ^ 308 : ℕ) : ℚ) ≤ ((maxM * 2 ^ 971 : ℕ) : ℚ) := by
      have : 10 ^ 308 ≤ maxM * 2 ^ 971 := by decide +kernel
      exact_mod_cast this
    have htM : t ≤ ((maxM * 2 ^ 971 : ℕ) : ℚ) := by
      by_cases hc : X ≤ 307
      · have hXle : X - 6 ≤ ((301 : ℕ) : ℤ) := by omega
        have h1 : (10 : ℚ) ^ (X - 6) ≤ (10 : ℚ) ^ ((301 : ℕ) : ℤ) := zpow_le_zpow_right₀ (by norm_num) hXle
        rw [zpow_natCast] at h1
        have h2 : (D : ℚ) < ((10 ^ 7 : ℕ) : ℚ) := by exact_mod_cast D2
        have h3 : (0 : ℚ) < (10 : ℚ) ^ (X - 6) := ten_zpow_pos _
        have : t < ((10 ^ 308 : ℕ) : ℚ) := by
          calc t = (D : ℚ) * (10 : ℚ) ^ (X - 6) := ht
            _ < ((10 ^ 7 : ℕ) : ℚ) * (10 : ℚ) ^ (X - 6) := mul_lt_mul_of_pos_right h2 h3
            _ ≤ ((10 ^ 7 : ℕ) : ℚ) * (10 : ℚ) ^ (301 : ℕ) := mul_le_mul_of_nonneg_left h1 (by positivity)
            _ = ((10 ^ 308 : ℕ) : ℚ) := by
              push_cast; rw [show (308 : ℕ) = 7 + 301 by rfl, pow_add]; norm_num
        linarith
      · obtain ⟨j, hj⟩ : ∃ j : ℕ, t = ((j * 10 ^ 302 : ℕ) : ℚ) := by
          refine ⟨D * 10 ^ (X - 308).toNat, ?_⟩
          have : X - 6 = (((X - 308).toNat + 302 : ℕ) : ℤ) := by push_cast; rw [Int.toNat_of_nonneg (by omega)]; ring
          rw [ht, this, zpow_natCast]; push_cast; rw [pow_add]; ring
        rw [hj] at ht_hi ⊢
        have hhi' : 2 * (j * 10 ^ 302) ≤ 2 * (maxM * 2 ^ 971) + 10 ^ 302 := by
          have : ((2 * (j * 10 ^ 302) : ℕ) : ℚ) ≤ ((2 * (maxM * 2 ^ 971) + 10 ^ 302 : ℕ) : ℚ) := by push_cast at ht_hi ⊢; linarith
          exact_mod_cast this
        have k1 : 1797693 * 10 ^ 302 ≤ maxM * 2 ^ 971 := by decide +kernel
        have k2 : 2 * (maxM * 2 ^ 971) + 10 ^ 302 < 2 * (1797694 * 10 ^ 302) := by decide +kernel
        have hjle : j * 10 ^ 302 ≤ maxM * 2 ^ 971 := by
          rcases Nat.lt_or_ge j 1797694 with hjl | hjg
          · have : j * 10 ^ 302 ≤ 1797693 * 10 ^ 302 := Nat.mul_le_mul_right _ (by omega)
            omega
          · have : 1797694 * 10 ^ 302 ≤ j * 10 ^ 302 := Nat.mul_le_mul_right _ hjg
            omega
        exact_mod_cast hjle
    -- but then M itself is closer to the decimal than anything from 2^1024 on
    have hnM := R.nearest maxM 971 (by unfold maxM; norm_num) (by norm_num)
    rw [hnd'] at hnM
    have hvM : val maxM 971 = ((maxM * 2 ^ 971 : ℕ) : ℚ) := by
      unfold val
      rw [show (971 : ℤ) = ((971 : ℕ) : ℤ) by rfl, zpow_natCast]; push_cast; rfl
    rw [hvM] at hnM
    have hMlt : ((maxM * 2 ^ 971 : ℕ) : ℚ) < (2 : ℚ) ^ (1024 : ℕ) := by
      have : maxM * 2 ^ 971 < 2 ^ 1024 := by decide +kernel
      have h' : ((maxM * 2 ^ 971 : ℕ) : ℚ) < ((2 ^ 1024 : ℕ) : ℚ) := by exact_mod_cast this
      push_cast at h' ⊢; exact h'
    rw [abs_of_nonneg (by linarith), abs_of_nonneg (by linarith)] at hnM
    generalize ((maxM * 2 ^ 971 : ℕ) : ℚ) = Mq at *
    generalize (2 : ℚ) ^ (1024 : ℕ) = T at *
    linarith only [hnM, hy, hMlt]
  have hsubn : my < 2 ^ 52 → ey = -1074 := by
    intro hmy
    by_contra hne
    have := R.normal (by have := R.emin_le; omega)
    omega
  obtain ⟨hdec, hfin'⟩ := fDecode_encode sg my ey R.lt hsubn hno
  rw [hre]
  exact ⟨my, ey, t, x0, hdec, hfin', f1, herr, hnear⟩


/-- **`%le` / `%lE`, numerically**: same sign, finite, and within one millionth of the value written (one unit of the seventh
    significant digit at most) -/
theorem reparseE_within (upper : Bool) (bits : ℕ) (hfin : fFinite bits = true) :
    (fDecode (reparseSpec false (if upper then .E else .e) bits)).1 = (fDecode bits).1 ∧
    fFinite (reparseSpec false (if upper then .E else .e) bits) = true ∧
    |val (fDecode (reparseSpec false (if upper then .E else .e) bits)).2.1 (fDecode (reparseSpec false (if upper then .E else .e) bits)).2.2
        - val (fDecode bits).2.1 (fDecode bits).2.2| ≤ val (fDecode bits).2.1 (fDecode bits).2.2 / 10 ^ 6 := by
  by_cases hnz : (fDecode bits).2.1 = 0
  · -- ±0 is written `±0.000000e+00` and read back as ±0
    have hparse := printE_parse false upper bits
    simp only [hnz, if_true] at hparse
    have hre : reparseSpec false (if upper then .E else .e) bits = signBit (fDecode bits).1 := by
      cases upper <;> simp [reparseSpec, printFloatSpec, hparse, decToBitsW]
    rw [hre, fDecode_signBit, hnz]
    refine ⟨rfl, ?_, by simp [val]⟩
    have := (fDecode_encode (fDecode bits).1 0 (-1074) (by norm_num) (fun _ => rfl) (fun h => absurd h (by norm_num))).2
    simpa [encode64] using this
  · obtain ⟨my, ey, t, x0, hdec, hfin', hlo, herr, hnear⟩ := reparseE_near upper bits hfin hnz
    rw [hdec]
    refine ⟨rfl, hfin', ?_⟩
    simp only
    have a1 := abs_le.1 (le_trans hnear herr)
    have a2 := abs_le.1 herr
    have hu : (10 : ℚ) ^ (x0 - 6) = (10 : ℚ) ^ x0 / 10 ^ 6 := by
      rw [zpow_sub₀ (by norm_num : (10 : ℚ) ≠ 0)]; norm_num
    have hle : (10 : ℚ) ^ x0 / 10 ^ 6 ≤ val (fDecode bits).2.1 (fDecode bits).2.2 / 10 ^ 6 :=
      div_le_div_of_nonneg_right hlo (by norm_num)
    rw [abs_le]
    rw [hu] at a1 a2
    constructor <;> linarith only [a1.1, a1.2, a2.1, a2.2, hle]

end Cello.Text
