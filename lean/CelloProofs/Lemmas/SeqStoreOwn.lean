/-
  C04 helper lemmas: pointers to an Array's own records inside the OPERAND of concat / assign (`tuple(get(a, k0), …)`), and
  `rem(x, get(x, k))`: the list-level formulas of `Arr.concatElems` / `Arr.assignElems` are what the CELLS do
  (`nitems += len` → `realloc` = new block generation → loop: zero the record, read through the pointer, write).
-/
import CelloProofs.Lemmas.SeqStoreArr
import CelloProofs.Lemmas.SeqStoreLst
import CelloProofs.Lemmas.SeqStoreTup

namespace Cello.Seq
variable {α : Type}

/-- two lists related element by element -/
inductive All2 {β γ : Type} (R : β → γ → Prop) : List β → List γ → Prop where
  | nil : All2 R [] []
  | cons {b : β} {c : γ} {bs : List β} {cs : List γ} : R b c → All2 R bs cs → All2 R (b :: bs) (c :: cs)

theorem All2.imp {β γ : Type} {R S : β → γ → Prop} (hi : ∀ b c, R b c → S b c) : ∀ {bs : List β} {cs : List γ}, All2 R bs cs → All2 S bs cs
  | _, _, .nil => .nil
  | _, _, .cons h t => .cons (hi _ _ h) (All2.imp hi t)

theorem All2.length {β γ : Type} {R : β → γ → Prop} : ∀ {xs : List β} {ys : List γ}, All2 R xs ys → xs.length = ys.length
  | _, _, .nil => rfl
  | _, _, .cons _ h => by simp [All2.length h]

namespace ArrS

/-- a pointer of the operand: into the current block, at a record that holds `x` -/
def PtrOk (s : ArrS α) (l : List α) (p : Ptr) (x : α) : Prop := p.blk = s.blk ∧ l[p.idx]? = some x

theorem getPtrs_sim {s : ArrS α} {a : Arr α} (h : s.Abs a) : ∀ (ks : List Int),
    (∀ xs, getAll a.get ks = .ok xs → ∃ ps, s.getPtrs ks = .ok ps ∧ All2 (PtrOk s a.items) ps xs) ∧
    (∀ e, getAll a.get ks = .raised e → s.getPtrs ks = .raised e) ∧ getAll a.get ks ≠ .ub
  | [] => ⟨fun xs hx => by simp only [getAll] at hx; cases hx; exact ⟨[], rfl, .nil⟩,
           fun e he => by simp [getAll] at he, by simp [getAll]⟩
  | k :: ks => by
    obtain ⟨g1, g2, g3⟩ := getPtr_sim h k
    obtain ⟨i1, i2, i3⟩ := getPtrs_sim h ks
    simp only [getAll, ArrS.getPtrs]
    cases hg : a.get k with
    | ub => exact absurd hg g3
    | raised e =>
      rw [g2 e hg]
      refine ⟨?_, ?_, ?_⟩
      · intro xs hx; simp at hx
      · intro e' he; simp at he; subst he; rfl
      · simp
    | ok x =>
      obtain ⟨p1, p2, p3⟩ := g1 x hg
      rw [p1]
      simp only
      cases hr : getAll a.get ks with
      | ub => exact absurd hr i3
      | raised e =>
        rw [i2 e hr]
        refine ⟨?_, ?_, ?_⟩
        · intro xs hx; simp at hx
        · intro e' he; simp at he; subst he; rfl
        · simp
      | ok xs =>
        obtain ⟨ps, q1, q2⟩ := i1 xs hr
        rw [q1]
        refine ⟨?_, ?_, ?_⟩
        · intro ys hy
          simp at hy; subst hy
          exact ⟨_, rfl, .cons ⟨rfl, p3⟩ q2⟩
        · intro e he; simp at he
        · simp

/-- a loop whose first pointer is into another block generation stops at once (use after free) -/
theorem wrPtrsFrom_dangling [Inhabited α] (s : ArrS α) (k : Nat) (p : Ptr) (ps : List Ptr) (hb : p.blk ≠ s.blk) :
    s.wrPtrsFrom k (p :: ps) = none := by
  simp only [ArrS.wrPtrsFrom, ArrS.zero]
  cases hz : s.wr k default with
  | none => rfl
  | some s1 =>
    simp only
    have : s1.deref p = none := by
      unfold ArrS.deref; rw [if_neg (by rw [(wr_size hz).2.2]; exact hb)]
    rw [this]

/-- the loop inside ONE block: every record named by the operand lies below the write position and is intact when it is read -/
theorem wrPtrsFrom_pre [Inhabited α] (l0 : List α) : ∀ (ps : List Ptr) (xs : List α) (l : List α) (s : ArrS α),
    s.Pre l → (∀ (j : Nat) (x : α), l0[j]? = some x → l[j]? = some x) → All2 (PtrOk s l0) ps xs → l.length + ps.length ≤ s.cells.size →
    ∃ s', s.wrPtrsFrom l.length ps = some s' ∧ s'.Pre (l ++ xs) ∧ s'.cells.size = s.cells.size ∧ s'.nitems = s.nitems
  | [], _, l, s, hp, _, hf, _ => by
    cases hf; exact ⟨s, rfl, by simpa using hp, rfl, rfl⟩
  | p :: ps, _, l, s, hp, hsub, hf, hsz => by
    cases hf with
    | @cons _ x _ xs hpx hrest =>
      simp only [List.length_cons] at hsz
      obtain ⟨s1, hz⟩ := wr_some s l.length (default : α) (by omega)
      obtain ⟨z1, z2, z3⟩ := wr_size hz
      have hp1 : s1.Pre l := by
        intro j hj; rw [wr_get hz, if_neg (by omega)]; exact hp j hj
      have hlx : l[p.idx]? = some x := hsub _ _ hpx.2
      have hidx : p.idx < l.length := by
        by_cases hlt : p.idx < l.length
        · exact hlt
        · rw [List.getElem?_eq_none (by omega)] at hlx; cases hlx
      have hd : s1.deref p = some x := by
        unfold ArrS.deref; rw [if_pos (by rw [z3]; exact hpx.1), hp1.rd _ hidx, hlx]
      obtain ⟨s2, hw⟩ := wr_some s1 l.length x (by omega)
      obtain ⟨w1, w2, w3⟩ := wr_size hw
      have hp2 : s2.Pre (l ++ [x]) := hp1.wr_snoc hw
      have hsub2 : ∀ (j : Nat) (y : α), l0[j]? = some y → (l ++ [x])[j]? = some y := by
        intro j y hj
        have := hsub j y hj
        have hjl : j < l.length := by
          by_cases hlt : j < l.length
          · exact hlt
          · rw [List.getElem?_eq_none (by omega)] at this; cases this
        rw [List.getElem?_append_left hjl]; exact this
      have hf2 : All2 (PtrOk s2 l0) ps xs := by
        refine hrest.imp ?_
        intro q y hq; exact ⟨by rw [w3, z3]; exact hq.1, hq.2⟩
      obtain ⟨s', r1, r2, r3, r4⟩ := wrPtrsFrom_pre l0 ps xs (l ++ [x]) s2 hp2 hsub2 hf2 (by simp; omega)
      refine ⟨s', ?_, by simpa using r2, by omega, by omega⟩
      simp only [ArrS.wrPtrsFrom, ArrS.zero, hz, hd, hw]
      have : (l ++ [x]).length = l.length + 1 := by simp
      rw [this] at r1; exact r1

/-- **`concat(a, tuple(get(a, k0), …))` on cells**: `.ub` exactly when the operand is not empty and `Array_Reserve_More` reallocates -/
theorem concatElems_sim [Inhabited α] {s : ArrS α} {a : Arr α} (h : s.Abs a) (ks : List Int) :
    (s.concatElems ks).1.Abs (a.concatElems ks).1 ∧ (s.concatElems ks).2 = (a.concatElems ks).2 := by
  have hn : a.nitems = a.items.length := rfl
  obtain ⟨g1, g2, g3⟩ := getPtrs_sim h ks
  unfold ArrS.concatElems Arr.concatElems
  cases hg : getAll a.get ks with
  | ub => exact absurd hg g3
  | raised e => rw [g2 e hg]; exact ⟨h, rfl⟩
  | ok xs =>
    obtain ⟨ps, q1, q2⟩ := g1 xs hg
    have hlen : ps.length = xs.length := All2.length q2
    rw [q1]
    simp only
    have hcap : a.items.length ≤ a.nslots := h.capOk
    let s0 : ArrS α := { s with nitems := s.nitems + ps.length }
    by_cases hgrow : xs ≠ [] ∧ a.nitems + xs.length > a.nslots
    · rw [if_pos hgrow]
      -- the block is reallocated: every pointer of the operand dangles
      cases q2 with
      | nil => exact absurd rfl hgrow.1
      | @cons p x ps' xs' hpx hrest =>
        have hre : s0.reserveMore.blk = s.blk + 1 := by
          unfold ArrS.reserveMore
          rw [if_pos (by show s.nitems + (p :: ps').length > s.cells.size; rw [h.len, h.size, hlen]; exact hgrow.2)]; rfl
        have : s.concatPtrs (p :: ps') = (s, .ub) := by
          show (match s0.reserveMore.wrPtrsFrom (s0.reserveMore.nitems - (p :: ps').length) (p :: ps') with
            | some s2 => (s2, Res.ok ()) | none => (s, Res.ub)) = _
          rw [wrPtrsFrom_dangling _ _ p ps' (by rw [hre, hpx.1]; omega)]
        rw [this]; exact ⟨h, rfl⟩
    · rw [if_neg hgrow]
      have hfit : a.items.length + xs.length ≤ a.nslots := by
        by_cases hx : xs = []
        · subst hx; simpa using hcap
        · have hng : ¬ (a.nitems + xs.length > a.nslots) := fun hh => hgrow ⟨hx, hh⟩
          rw [hn] at hng; omega
      have hsame : s0.reserveMore = s0 := by
        unfold ArrS.reserveMore
        rw [if_neg (by show ¬ s.nitems + ps.length > s.cells.size; rw [h.len, h.size, hlen]; omega)]
      have hp0 : s0.Pre a.items := h.cell
      have hf0 : All2 (PtrOk s0 a.items) ps xs := q2
      obtain ⟨s', r1, r2, r3, r4⟩ := wrPtrsFrom_pre a.items ps xs a.items s0 hp0 (fun _ _ hj => hj) hf0
        (by show a.items.length + ps.length ≤ s.cells.size; rw [h.size, hlen]; exact hfit)
      have e : s.concatPtrs ps = (s', .ok ()) := by
        show (match s0.reserveMore.wrPtrsFrom (s0.reserveMore.nitems - ps.length) ps with
          | some s2 => (s2, Res.ok ()) | none => (s, Res.ub)) = _
        rw [hsame]
        have : s0.nitems - ps.length = a.items.length := by show s.nitems + ps.length - ps.length = _; rw [h.len]; omega
        rw [this, r1]
      rw [e]
      refine ⟨⟨?_, ?_, r2⟩, rfl⟩
      · show s'.cells.size = Seq.reserveMore (a.nitems + xs.length) a.nslots
        rw [r3]; show s.cells.size = _; rw [h.size]; unfold Seq.reserveMore; rw [if_neg (by rw [hn]; omega)]
      · show s'.nitems = (a.items ++ xs).length
        rw [r4]; show s.nitems + ps.length = _; rw [h.len, hlen]; simp

/-- **`assign(a, tuple(get(a, k0), …))` on cells**: `Array_Clear` frees the block, so a non-empty operand is read through
    dangling pointers -/
theorem assignElems_sim [Inhabited α] {s : ArrS α} {a : Arr α} (h : s.Abs a) (ks : List Int) :
    (s.assignElems ks).1.Abs (a.assignElems ks).1 ∧ (s.assignElems ks).2 = (a.assignElems ks).2 := by
  obtain ⟨g1, g2, g3⟩ := getPtrs_sim h ks
  unfold ArrS.assignElems Arr.assignElems
  cases hg : getAll a.get ks with
  | ub => exact absurd hg g3
  | raised e => rw [g2 e hg]; exact ⟨h, rfl⟩
  | ok xs =>
    obtain ⟨ps, q1, q2⟩ := g1 xs hg
    rw [q1]
    simp only
    obtain ⟨c1, c2⟩ := clear_sim h
    have hclear : s.clear = (⟨#[], 0, s.blk + 1⟩, .ok ()) := by
      unfold ArrS.clear at c2 ⊢
      by_cases hl : s.allLive 0 s.nitems = true
      · rw [if_pos hl]
      · rw [if_neg hl] at c2; cases c2
    rw [hclear]
    simp only
    cases q2 with
    | nil =>
      simp only [List.length_nil, if_true, ne_eq, not_true_eq_false, if_false]
      rw [hclear] at c1
      exact ⟨c1, rfl⟩
    | @cons p x ps' xs' hpx hrest =>
      rw [if_neg (by simp), if_pos (by simp)]
      rw [wrPtrsFrom_dangling _ _ p ps' (by show p.blk ≠ s.blk + 1 + 1; rw [hpx.1]; omega)]
      exact ⟨h, rfl⟩

/-- **`set(a, i, get(a, k))` on cells** (both settings of the element type's `assign(x, x)`): the pointer still points into the block
    (nothing is reallocated), the read through it gives the value of record `k`, the write goes to record `i`; with the old String
    code the call is a use after free exactly when both indices name the same record -/
theorem setElem_sim {s : ArrS α} {a : Arr α} (h : s.Abs a) (i k : Int) (ok : Bool) :
    (s.setElem i k ok).1.Abs (a.setElem i k ok).1 ∧ (s.setElem i k ok).2 = (a.setElem i k ok).2 := by
  have hn : a.nitems = a.items.length := rfl
  obtain ⟨g1, g2, g3⟩ := getPtr_sim h k
  unfold ArrS.setElem Arr.setElem
  cases hg : a.get k with
  | ub => exact absurd hg g3
  | raised e => rw [g2 e hg]; exact ⟨h, rfl⟩
  | ok x =>
    obtain ⟨p1, p2, p3⟩ := g1 x hg
    rw [p1]
    simp only [h.len, hn]
    have hkin : ¬ (normIdx a.items.length k < 0 ∨ normIdx a.items.length k ≥ (a.items.length : Int)) := by
      intro hc
      unfold Arr.get at hg; simp only [hn] at hg; rw [if_pos hc] at hg; cases hg
    by_cases hc : normIdx a.items.length i < 0 ∨ normIdx a.items.length i ≥ (a.items.length : Int)
    · -- `i` out of range: the indices differ, `Array_Set` raises
      have hsame : sameIdx a.items.length i k = false := by
        unfold sameIdx; simp only [beq_eq_false_iff_ne, ne_eq]; intro he; rw [he] at hc; exact hkin hc
      rw [if_pos hc, hsame, Bool.and_false]
      unfold Arr.set; rw [hn, if_pos hc]; exact ⟨h, rfl⟩
    · rw [if_neg hc]
      have hiff : ((normIdx a.items.length i).toNat == (normIdx a.items.length k).toNat) = sameIdx a.items.length i k := by
        unfold sameIdx
        by_cases he : normIdx a.items.length i = normIdx a.items.length k
        · simp [he]
        · have : (normIdx a.items.length i).toNat ≠ (normIdx a.items.length k).toNat := by omega
          have h1 : ((normIdx a.items.length i).toNat == (normIdx a.items.length k).toNat) = false := beq_eq_false_iff_ne.mpr this
          have h2 : (normIdx a.items.length i == normIdx a.items.length k) = false := beq_eq_false_iff_ne.mpr he
          rw [h1, h2]
      rw [hiff]
      by_cases hub : (!ok && sameIdx a.items.length i k) = true
      · rw [if_pos hub, if_pos hub]; exact ⟨h, rfl⟩
      · rw [if_neg hub, if_neg hub]
        have hil : (normIdx a.items.length i).toNat < a.items.length := by omega
        have hd : s.deref ⟨s.blk, (normIdx a.items.length k).toNat⟩ = some x := by
          unfold ArrS.deref; rw [if_pos rfl, h.cell.rd _ p2, p3]
        rw [hd, h.cell.rd _ hil, List.getElem?_eq_getElem hil]
        simp only
        have := set_sim h i x
        unfold ArrS.set Arr.set at this
        simp only [h.len, hn] at this
        rw [if_neg hc, if_neg hc, h.cell.rd _ hil, List.getElem?_eq_getElem hil] at this
        unfold Arr.set; simp only [hn]; rw [if_neg hc]
        exact this

theorem remElem_sim [BEq α] {s : ArrS α} {a : Arr α} (h : s.Abs a) (k : Int) :
    (s.remElem k).1.Abs (a.remElem k).1 ∧ (s.remElem k).2 = (a.remElem k).2 := by
  unfold ArrS.remElem Arr.remElem
  rw [get_sim h k]
  cases a.get k with
  | ok x => exact rem_sim h x
  | raised e => exact ⟨h, rfl⟩
  | ub => exact ⟨h, rfl⟩

end ArrS

theorem LstS.remElem_sim [BEq α] {s : LstS α} {l : Lst α} (h : s.Abs l) (k : Int) :
    (s.remElem k).1.Abs (l.remElem k).1 ∧ (s.remElem k).2 = (l.remElem k).2 := by
  unfold LstS.remElem Lst.remElem
  rw [LstS.get_sim h k]
  cases l.get k with
  | ok x => exact LstS.rem_sim h x
  | raised e => exact ⟨h, rfl⟩
  | ub => exact ⟨h, rfl⟩

end Cello.Seq
