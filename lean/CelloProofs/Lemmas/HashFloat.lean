/-
  Lemmas for C10, Float: the extracted `Float_Cmp` (plain sign of the difference) under `SubSign`; the exact value of a double
  against its position key; `SubSign` for the exact IEEE-754 arithmetic `sfOps`.
-/
import Cello.Hash
import CelloProofs.Lemmas.HashVal
set_option linter.unusedSimpArgs false
set_option linter.unusedVariables false

namespace Cello.Hash

/-! ### the plain sign-of-difference program -/

theorem progCmp_exact_unfold (ops : FOps) (a b : UInt64) :
    progCmp ops exactStmts exactRet a b =
      if ops.lt 0 (ops.sub a b) = true then 1 else if ops.lt (ops.sub a b) 0 = true then -1 else 0 := by
  simp [progCmp, exactStmts, exactRet, runStmts, evalRet, evalC, evalE, setLoc]

/-- under `SubSign` the plain sign-of-difference program computes the bit-level decision `floatCmp`, NaN included -/
theorem progCmp_exact (ops : FOps) (h : SubSign ops) (a b : UInt64) :
    progCmp ops exactStmts exactRet a b = floatCmp a b := by
  rw [progCmp_exact_unfold]
  unfold floatCmp
  by_cases hn : (floatIsNaN a || floatIsNaN b) = true
  · obtain ⟨h1, h2⟩ := h.nan a b hn
    simp [h1, h2, hn]
  · have ha : floatIsNaN a = false := by cases h' : floatIsNaN a <;> simp_all
    have hb : floatIsNaN b = false := by cases h' : floatIsNaN b <;> simp_all
    have hp := h.pos a b ha hb
    have hm := h.neg a b ha hb
    simp only [ha, hb, Bool.or_self, Bool.false_eq_true, if_false]
    by_cases h1 : floatKey a > floatKey b
    · simp [hp.mpr h1, h1]
    · have : ¬ ops.lt 0 (ops.sub a b) = true := fun hh => h1 (hp.mp hh)
      by_cases h2 : floatKey a < floatKey b
      · simp [this, h1, hm.mpr h2, h2]
      · have : ¬ ops.lt (ops.sub a b) 0 = true := fun hh => h2 (hm.mp hh)
        simp [*]

/-! ### exact value against position on the number line -/

theorem magVal_zero : magVal 0 = 0 := by decide

theorem two_pow_pos' (n : Nat) : 0 < 2 ^ n := Nat.pos_of_ne_zero (by simp)

theorem magVal_succ (m : Nat) : magVal m < magVal (m + 1) := by
  unfold magVal
  have hd := Nat.div_add_mod m (2 ^ 52)
  have hlt : m % 2 ^ 52 < 2 ^ 52 := Nat.mod_lt _ (by decide)
  by_cases hc : m % 2 ^ 52 + 1 < 2 ^ 52
  · -- no carry into the exponent field
    have e1 : (m + 1) / 2 ^ 52 = m / 2 ^ 52 := by omega
    have e2 : (m + 1) % 2 ^ 52 = m % 2 ^ 52 + 1 := by omega
    rw [e1, e2]
    by_cases h0 : m / 2 ^ 52 = 0
    · simp [h0]
    · simp only [h0, if_false]
      exact Nat.mul_lt_mul_of_pos_right (by omega) (two_pow_pos' _)
  · have e1 : (m + 1) / 2 ^ 52 = m / 2 ^ 52 + 1 := by omega
    have e2 : (m + 1) % 2 ^ 52 = 0 := by omega
    have e3 : m % 2 ^ 52 = 2 ^ 52 - 1 := by omega
    rw [e1, e2, e3]
    by_cases h0 : m / 2 ^ 52 = 0
    · simp [h0]
    · simp only [h0, if_false, Nat.add_eq_zero_iff, Nat.succ_ne_zero, and_false, Nat.add_sub_cancel, Nat.add_zero]
      obtain ⟨e, he⟩ : ∃ e, m / 2 ^ 52 = e + 1 := ⟨m / 2 ^ 52 - 1, by omega⟩
      rw [he, Nat.add_sub_cancel, Nat.pow_succ]
      have hp := two_pow_pos' e
      calc (2 ^ 52 + (2 ^ 52 - 1)) * 2 ^ e < (2 ^ 52 * 2) * 2 ^ e := Nat.mul_lt_mul_of_pos_right (by omega) hp
        _ = 2 ^ 52 * (2 ^ e * 2) := by rw [Nat.mul_assoc, Nat.mul_comm 2 (2 ^ e)]

theorem magVal_strictMono {m n : Nat} (h : m < n) : magVal m < magVal n := by
  induction n with
  | zero => omega
  | succ k ih =>
    by_cases hk : m = k
    · subst hk; exact magVal_succ m
    · exact Nat.lt_trans (ih (by omega)) (magVal_succ k)

theorem magVal_lt_iff {m n : Nat} : magVal m < magVal n ↔ m < n := by
  constructor
  · intro h
    by_cases hh : m < n
    · exact hh
    · rcases Nat.eq_or_lt_of_le (Nat.le_of_not_lt hh) with e | l
      · subst e; omega
      · have := magVal_strictMono l; omega
  · exact magVal_strictMono

theorem magVal_eq_zero_iff {m : Nat} : magVal m = 0 ↔ m = 0 := by
  constructor
  · intro h
    by_cases hm : m = 0
    · exact hm
    · have := magVal_strictMono (Nat.pos_of_ne_zero hm); rw [magVal_zero] at this; omega
  · intro h; subst h; exact magVal_zero

/-- the position key orders the doubles as their exact values do (for every bit pattern; NaN patterns read as values beyond
    the infinities) -/
theorem floatKey_lt_iff_floatVal_lt (a b : UInt64) : floatKey a < floatKey b ↔ floatVal a < floatVal b := by
  unfold floatKey floatVal
  have h1 := @magVal_lt_iff (floatMag a) (floatMag b)
  have h2 := @magVal_lt_iff (floatMag b) (floatMag a)
  have z1 := @magVal_eq_zero_iff (floatMag a)
  have z2 := @magVal_eq_zero_iff (floatMag b)
  cases floatNeg a <;> cases floatNeg b <;> simp only [Bool.false_eq_true, if_false, if_true] <;> omega

/-- **`floatCmp` is the sign of the exact difference** of the two values, for non-NaN doubles -/
theorem floatCmp_eq_sign_exact (a b : UInt64) (ha : floatIsNaN a = false) (hb : floatIsNaN b = false) :
    floatCmp a b = if floatVal a - floatVal b > 0 then 1 else if floatVal a - floatVal b < 0 then -1 else 0 := by
  unfold floatCmp
  simp only [ha, hb, Bool.or_self, Bool.false_eq_true, if_false]
  have h1 := floatKey_lt_iff_floatVal_lt a b
  have h2 := floatKey_lt_iff_floatVal_lt b a
  by_cases c1 : floatKey a > floatKey b
  · have h3 : floatVal a - floatVal b > 0 := by have := h2.mp c1; omega
    rw [if_pos c1, if_pos h3]
  · by_cases c2 : floatKey a < floatKey b
    · have h3 : floatVal a - floatVal b < 0 := by have := h1.mp c2; omega
      have h4 : ¬ floatVal a - floatVal b > 0 := by omega
      rw [if_neg c1, if_pos c2, if_neg h4, if_pos h3]
    · have h3 : ¬ floatVal a - floatVal b < 0 := fun hh => c2 (h1.mpr (by omega))
      have h4 : ¬ floatVal a - floatVal b > 0 := fun hh => c1 (h2.mpr (by omega))
      rw [if_neg c1, if_neg c2, if_neg h4, if_neg h3]


/-! ### the exact IEEE-754 arithmetic `sfOps` satisfies `SubSign` -/

theorem toNat_mkBits (neg : Bool) (mag : Nat) (h : mag < 2 ^ 63) :
    (mkBits neg mag).toNat = (if neg then 2 ^ 63 else 0) + mag := by
  unfold mkBits
  rw [UInt64.toNat_ofNat']
  cases neg <;> simp <;> omega

theorem floatMag_mkBits (neg : Bool) (mag : Nat) (h : mag < 2 ^ 63) : floatMag (mkBits neg mag) = mag := by
  unfold floatMag; rw [toNat_mkBits neg mag h]; cases neg <;> simp <;> omega

theorem floatNeg_mkBits (neg : Bool) (mag : Nat) (h : mag < 2 ^ 63) : floatNeg (mkBits neg mag) = neg := by
  unfold floatNeg; rw [toNat_mkBits neg mag h]; cases neg <;> simp <;> omega


theorem clampInf_le (x : Nat) : (if infMag ≤ x then infMag else x) ≤ infMag := by split <;> omega
theorem clampInf_pos (x : Nat) (h : 0 < x) : 0 < (if infMag ≤ x then infMag else x) := by
  split
  · decide
  · exact h

theorem roundQ_le (n s : Nat) : roundQ n s ≤ infMag := clampInf_le _

theorem roundQ_pos (n : Nat) (h : 0 < n) : 0 < roundQ n 0 := by
  unfold roundQ
  apply clampInf_pos
  simp only [Nat.zero_max, Nat.sub_zero]
  by_cases ht : Nat.log2 n - 52 = 0
  · rw [ht]; simpa using h
  · have h52 : 0 < 2 ^ 52 := by decide
    have : 0 < (Nat.log2 n - 52) * 2 ^ 52 := Nat.mul_pos (by omega) h52
    generalize (Nat.log2 n - 52) * 2 ^ 52 = x at this ⊢
    generalize n / 2 ^ (Nat.log2 n - 52) = q
    split <;> omega

theorem infMag_lt : infMag < 2 ^ 63 := by decide

theorem floatKey_def (x : UInt64) : floatKey x = if floatNeg x then - (floatMag x : Int) else (floatMag x : Int) := rfl
theorem floatIsNaN_def (x : UInt64) : floatIsNaN x = decide (floatMag x > infMag) := rfl
theorem floatIsInf_def (x : UInt64) : floatIsInf x = (floatMag x == infMag) := rfl

theorem floatKey_zero : floatKey 0 = 0 := by decide
theorem floatIsNaN_zero : floatIsNaN 0 = false := by decide

/-- the sign of `sfSub a b` for non-NaN operands: NaN only for ∞ − ∞ (equal keys); otherwise positive / negative exactly when `a`
    lies above / below `b` -/
theorem sfSub_key (a b : UInt64) (ha : floatIsNaN a = false) (hb : floatIsNaN b = false) :
    (floatIsNaN (sfSub a b) = true ∧ floatKey a = floatKey b) ∨
    (floatIsNaN (sfSub a b) = false ∧ (0 < floatKey (sfSub a b) ↔ floatKey b < floatKey a) ∧
      (floatKey (sfSub a b) < 0 ↔ floatKey a < floatKey b)) := by
  have hma : floatMag a ≤ infMag := by rw [floatIsNaN_def] at ha; simpa using ha
  have hmb : floatMag b ≤ infMag := by rw [floatIsNaN_def] at hb; simpa using hb
  unfold sfSub
  simp only [ha, hb, Bool.or_self, Bool.false_eq_true, if_false]
  by_cases hia : floatIsInf a = true
  · simp only [hia, if_true]
    have ea : floatMag a = infMag := by rw [floatIsInf_def] at hia; simpa using hia
    by_cases hc : (floatIsInf b && floatNeg a == floatNeg b) = true
    · left
      simp only [hc, if_true]
      refine ⟨by decide, ?_⟩
      simp only [Bool.and_eq_true, beq_iff_eq] at hc
      have eb : floatMag b = infMag := by have := hc.1; rw [floatIsInf_def] at this; simpa using this
      rw [floatKey_def, floatKey_def, ea, eb, hc.2]
    · right
      simp only [hc, Bool.false_eq_true, if_false]
      refine ⟨ha, ?_⟩
      rw [floatKey_def a, floatKey_def b, ea]
      have hc' : ¬ (floatMag b = infMag ∧ floatNeg a = floatNeg b) := by
        intro ⟨h1, h2⟩; apply hc; simp [floatIsInf_def, h1, h2]
      have hpos : (0 : Int) < infMag := by decide
      cases hna : floatNeg a <;> cases hnb : floatNeg b <;> simp only [hna, hnb, Bool.false_eq_true, if_false, if_true] <;>
        simp only [hna, hnb, and_true, true_and] at hc' <;> constructor <;> constructor <;> intro _ <;> omega
  · have hia' : floatIsInf a = false := by cases h : floatIsInf a <;> simp_all
    simp only [hia', Bool.false_eq_true, if_false]
    have na : floatMag a < infMag := by
      have : floatMag a ≠ infMag := by intro e; rw [floatIsInf_def, e] at hia'; simp at hia'
      omega
    by_cases hib : floatIsInf b = true
    · right
      simp only [hib, if_true]
      have eb : floatMag b = infMag := by rw [floatIsInf_def] at hib; simpa using hib
      have hk : floatKey (mkBits (!floatNeg b) infMag) = if (!floatNeg b) = true then - (infMag : Int) else (infMag : Int) := by
        rw [floatKey_def, floatMag_mkBits _ _ infMag_lt, floatNeg_mkBits _ _ infMag_lt]
      refine ⟨by rw [floatIsNaN_def, floatMag_mkBits _ _ infMag_lt]; simp, ?_⟩
      rw [hk, floatKey_def a, floatKey_def b, eb]
      have hpos : (0 : Int) < infMag := by decide
      cases hna : floatNeg a <;> cases hnb : floatNeg b <;> simp only [hna, hnb, Bool.not_false, Bool.not_true, Bool.false_eq_true, if_false, if_true] <;>
        constructor <;> constructor <;> intro _ <;> omega
    · right
      have hib' : floatIsInf b = false := by cases h : floatIsInf b <;> simp_all
      simp only [hib', Bool.false_eq_true, if_false]
      have h1 := floatKey_lt_iff_floatVal_lt a b
      have h2 := floatKey_lt_iff_floatVal_lt b a
      by_cases hd : floatVal a - floatVal b = 0
      · simp only [hd, if_true]
        have hz : ∀ x : UInt64, (x = mkBits true 0 ∨ x = 0) → floatIsNaN x = false ∧ floatKey x = 0 := by
          intro x hx; rcases hx with rfl | rfl <;> decide
        have := hz (if (floatNeg a && !floatNeg b) = true then mkBits true 0 else 0) (by split <;> simp)
        refine ⟨this.1, ?_⟩
        rw [this.2]
        constructor <;> constructor <;> intro _ <;> omega
      · simp only [hd, if_false]
        have hr := roundQ_le (floatVal a - floatVal b).natAbs 0
        have hp := roundQ_pos (floatVal a - floatVal b).natAbs (by omega)
        have hlt : roundQ (floatVal a - floatVal b).natAbs 0 < 2 ^ 63 := Nat.lt_of_le_of_lt hr infMag_lt
        refine ⟨by rw [floatIsNaN_def, floatMag_mkBits _ _ hlt]; simpa using hr, ?_⟩
        rw [floatKey_def (mkBits _ _), floatMag_mkBits _ _ hlt, floatNeg_mkBits _ _ hlt]
        by_cases hneg : floatVal a - floatVal b < 0
        · simp only [hneg, decide_true, if_true]
          constructor <;> constructor <;> intro _ <;> omega
        · simp only [hneg, decide_false, Bool.false_eq_true, if_false]
          constructor <;> constructor <;> intro _ <;> omega

theorem subSign_sfOps : SubSign sfOps where
  pos a b ha hb := by
    show sfLt 0 (sfSub a b) = true ↔ _
    unfold sfLt
    rw [floatIsNaN_zero, floatKey_zero]
    rcases sfSub_key a b ha hb with ⟨h1, h2⟩ | ⟨h1, h2, h3⟩
    · simp [h1]; omega
    · simp [h1, h2]
  neg a b ha hb := by
    show sfLt (sfSub a b) 0 = true ↔ _
    unfold sfLt
    rw [floatIsNaN_zero, floatKey_zero]
    rcases sfSub_key a b ha hb with ⟨h1, h2⟩ | ⟨h1, h2, h3⟩
    · simp [h1]; omega
    · simp [h1, h3]
  nan a b h := by
    have : sfSub a b = sfNaN := by unfold sfSub; simp [h]
    show sfLt 0 (sfSub a b) = false ∧ sfLt (sfSub a b) 0 = false
    rw [this]; decide

end Cello.Hash
