/- helper lemmas for C11: the link structure of a List (`LL`) under List_Link / List_Unlink / List_At and every mutation
   built from them; the doubly-linked invariant `Chain`; iteration over a chained list is lawful -/
import Cello.IterMut
import CelloProofs.Lemmas.IterRun

namespace Cello.Iter

/-! ### what the mutations mean for the sequence of elements -/

/-- `i = i < 0 ? n+i : i` -/
def normI (n : Nat) (i : Int) : Int := if i < 0 then (n : Int) + i else i

/-- the position a C index names in a sequence of `n` elements, `none` = out of bounds -/
def idxOf (n : Nat) (i : Int) : Option Nat :=
  if normI n i < 0 ∨ normI n i ≥ (n : Int) then none else some (normI n i).toNat

theorem idxOf_lt {n : Nat} {i : Int} {k : Nat} (h : idxOf n i = some k) : k < n := by
  unfold idxOf at h
  split at h
  · cases h
  · simp only [Option.some.injEq] at h; omega

/-- List: the abstract effect and the outcome of one mutation (`z` = a zeroed element) -/
def listSpec {α : Type} [DecidableEq α] (z : α) (vs : List α) : SOp α → List α × MOut
  | .push v => (vs ++ [v], .ok)
  | .pop => if vs.length = 0 then (vs, .index) else (vs.take (vs.length - 1), .ok)
  | .pushAt v i =>
    if i = 0 then (v :: vs, .ok)
    else match idxOf vs.length i with
      | none => (vs, .index)
      | some k => (vs.take k ++ v :: vs.drop k, .ok)
  | .popAt i => match idxOf vs.length i with
    | none => (vs, .index)
    | some k => (vs.take k ++ vs.drop (k + 1), .ok)
  | .rem v => if v ∈ vs then (vs.erase v, .ok) else (vs, .value)
  | .put i v => match idxOf vs.length i with
    | none => (vs, .index)
    | some k => (vs.take k ++ v :: vs.drop (k + 1), .ok)
  | .concat ws => (vs ++ ws, .ok)
  | .resize n => (vs.take n ++ List.replicate (n - vs.length) z, .ok)

namespace LL

variable {α : Type}

/-- address of the first node of a segment, `d` when the segment is empty -/
def firstAddr (xs : List (Nat × α)) (d : Option Nat) : Option Nat :=
  match xs with
  | [] => d
  | x :: _ => some x.1

/-- address of the last node of a segment, `d` when the segment is empty -/
def lastAddr : List (Nat × α) → Option Nat → Option Nat
  | [], d => d
  | [x], _ => some x.1
  | _ :: y :: r, d => lastAddr (y :: r) d

/-- the nodes `xs` (address, value) are live and linked consecutively: the `prev` word of the first is `p`, the `next`
    word of the last is `n`, and in between `next` of each is the following node and `prev` of each the preceding one -/
def Seg (mem : Nat → Option (LNode α)) : Option Nat → List (Nat × α) → Option Nat → Prop
  | _, [], _ => True
  | p, x :: rest, n => mem x.1 = some ⟨x.2, firstAddr rest n, p⟩ ∧ Seg mem (some x.1) rest n

def addrs (xs : List (Nat × α)) : List Nat := xs.map Prod.fst
def vals (xs : List (Nat × α)) : List α := xs.map Prod.snd

/-- **the doubly-linked invariant**: the nodes of `xs`, in this order, are exactly the chain of the list —
    `head` is the first and its `prev` word is NULL, `tail` is the last and its `next` word is NULL, `next` of every node
    is its successor and `prev` of every node its predecessor, the nodes are distinct live blocks, and `nitems` counts
    them -/
structure Chain (l : LL α) (xs : List (Nat × α)) : Prop where
  seg : Seg l.mem none xs none
  head : l.head = firstAddr xs none
  tail : l.tail = lastAddr xs none
  nodup : (addrs xs).Nodup
  fresh : ∀ a ∈ addrs xs, a < l.brk
  room : xs.length ≤ l.brk
  count : l.nitems = xs.length

/-! ### segments -/

theorem firstAddr_cons (x : Nat × α) (r : List (Nat × α)) (d : Option Nat) : firstAddr (x :: r) d = some x.1 := rfl

theorem firstAddr_append (xs ys : List (Nat × α)) (d : Option Nat) :
    firstAddr (xs ++ ys) d = firstAddr xs (firstAddr ys d) := by
  cases xs <;> rfl

theorem lastAddr_append_cons (xs : List (Nat × α)) (y : Nat × α) (ys : List (Nat × α)) (d : Option Nat) :
    lastAddr (xs ++ y :: ys) d = lastAddr (y :: ys) d := by
  induction xs with
  | nil => rfl
  | cons x r ih =>
    cases r with
    | nil => simp [lastAddr]
    | cons z r' => simpa [lastAddr] using ih

theorem lastAddr_snoc (xs : List (Nat × α)) (w : Nat × α) (d : Option Nat) : lastAddr (xs ++ [w]) d = some w.1 := by
  rw [lastAddr_append_cons]; rfl

theorem lastAddr_nonempty (xs : List (Nat × α)) (h : xs ≠ []) (d d' : Option Nat) : lastAddr xs d = lastAddr xs d' := by
  induction xs with
  | nil => exact absurd rfl h
  | cons x r ih =>
    cases r with
    | nil => rfl
    | cons y r' => simpa [lastAddr] using ih (by simp)

theorem lastAddr_append (xs ys : List (Nat × α)) (d : Option Nat) :
    lastAddr (xs ++ ys) d = lastAddr ys (lastAddr xs d) := by
  cases ys with
  | nil => simp [lastAddr]
  | cons y r =>
    rw [lastAddr_append_cons]
    exact lastAddr_nonempty _ (by simp) _ _

theorem lastAddr_mem (x : Nat × α) (r : List (Nat × α)) (d : Option Nat) :
    ∃ a, lastAddr (x :: r) d = some a ∧ a ∈ addrs (x :: r) := by
  induction r generalizing x with
  | nil => exact ⟨x.1, rfl, by simp [addrs]⟩
  | cons y r ih =>
    obtain ⟨a, h1, h2⟩ := ih y
    exact ⟨a, by simpa [lastAddr] using h1, by simp [addrs] at h2 ⊢; exact Or.inr h2⟩

theorem Seg_append (mem : Nat → Option (LNode α)) : ∀ (xs ys : List (Nat × α)) (p n : Option Nat),
    Seg mem p (xs ++ ys) n ↔ Seg mem p xs (firstAddr ys n) ∧ Seg mem (lastAddr xs p) ys n := by
  intro xs
  induction xs with
  | nil => intro ys p n; simp [Seg, lastAddr]
  | cons x r ih =>
    intro ys p n
    have hl : lastAddr (x :: r) p = lastAddr r (some x.1) := by
      cases r with
      | nil => rfl
      | cons y r' => simp only [lastAddr]; exact lastAddr_nonempty _ (by simp) _ _
    simp only [List.cons_append, Seg, ih ys (some x.1) n, firstAddr_append, hl]
    constructor
    · rintro ⟨a, b, c⟩; exact ⟨⟨a, b⟩, c⟩
    · rintro ⟨⟨a, b⟩, c⟩; exact ⟨a, b, c⟩

/-- frame: a segment only depends on the blocks of its own nodes -/
theorem Seg_congr {mem mem' : Nat → Option (LNode α)} : ∀ (xs : List (Nat × α)) (p n : Option Nat),
    (∀ a ∈ addrs xs, mem' a = mem a) → Seg mem p xs n → Seg mem' p xs n := by
  intro xs
  induction xs with
  | nil => intro _ _ _ _; trivial
  | cons x r ih =>
    intro p n hm h
    refine ⟨by rw [hm x.1 (by simp [addrs])]; exact h.1, ih _ _ (fun a ha => hm a ?_) h.2⟩
    simp only [addrs, List.map_cons, List.mem_cons] at ha ⊢
    exact Or.inr ha

/-- every node of a segment is a live block holding its value -/
theorem Seg_live {mem : Nat → Option (LNode α)} : ∀ (xs : List (Nat × α)) (p n : Option Nat), Seg mem p xs n →
    ∀ x ∈ xs, ∃ nd, mem x.1 = some nd ∧ nd.val = x.2 := by
  intro xs
  induction xs with
  | nil => intro _ _ _ x hx; simp at hx
  | cons y r ih =>
    intro p n h x hx
    rcases List.mem_cons.mp hx with rfl | hx
    · exact ⟨_, h.1, rfl⟩
    · exact ih _ _ h.2 x hx

/-- overwriting the `next` word of the last node of a non-empty segment -/
theorem Seg_setNext_last {mem : Nat → Option (LNode α)} : ∀ (xs : List (Nat × α)) (p n n' : Option Nat) (w : Nat)
    (nd : LNode α), xs ≠ [] → lastAddr xs p = some w → (addrs xs).Nodup → mem w = some nd → Seg mem p xs n →
    Seg (fun a => if a = w then some { nd with next := n' } else mem a) p xs n' := by
  intro xs
  induction xs with
  | nil => intro _ _ _ _ _ h; exact absurd rfl h
  | cons x r ih =>
    intro p n n' w nd _ hl hnd hw h
    cases r with
    | nil =>
      simp only [lastAddr, Option.some.injEq] at hl
      subst hl
      have := h.1
      rw [hw] at this
      simp only [Option.some.injEq] at this
      subst this
      exact ⟨by simp [firstAddr], trivial⟩
    | cons y r' =>
      have hl' : lastAddr (y :: r') (some x.1) = some w := by simpa [lastAddr] using (lastAddr_nonempty (y :: r') (by simp) _ _).trans hl
      have hnd' : (addrs (y :: r')).Nodup := (List.nodup_cons.mp hnd).2
      have hxw : x.1 ≠ w := by
        obtain ⟨a, h1, h2⟩ := lastAddr_mem y r' (some x.1)
        rw [hl'] at h1
        simp only [Option.some.injEq] at h1; subst h1
        intro e
        exact (List.nodup_cons.mp hnd).1 (e ▸ h2)
      refine ⟨?_, ih (some x.1) n n' w nd (by simp) hl' hnd' hw h.2⟩
      simp only [hxw, if_false]
      exact h.1

/-- overwriting the `prev` word of the first node of a segment -/
theorem Seg_setPrev_first {mem : Nat → Option (LNode α)} (y : Nat × α) (r : List (Nat × α)) (p p' n : Option Nat)
    (nd : LNode α) (hnd : (addrs (y :: r)).Nodup) (hy : mem y.1 = some nd) (h : Seg mem p (y :: r) n) :
    Seg (fun a => if a = y.1 then some { nd with prev := p' } else mem a) p' (y :: r) n := by
  have := h.1
  rw [hy] at this
  simp only [Option.some.injEq] at this
  subst this
  refine ⟨by simp, Seg_congr r _ _ (fun a ha => ?_) h.2⟩
  have : a ≠ y.1 := fun e => (List.nodup_cons.mp hnd).1 (e ▸ ha)
  simp [this]

theorem firstAddr_mem (xs : List (Nat × α)) (h : xs ≠ []) (d : Option Nat) :
    ∃ a, firstAddr xs d = some a ∧ a ∈ addrs xs := by
  cases xs with
  | nil => exact absurd rfl h
  | cons x r => exact ⟨x.1, rfl, by simp [addrs]⟩

theorem lastAddr_mem' (xs : List (Nat × α)) (h : xs ≠ []) (d : Option Nat) :
    ∃ a, lastAddr xs d = some a ∧ a ∈ addrs xs := by
  cases xs with
  | nil => exact absurd rfl h
  | cons x r => exact lastAddr_mem x r d

theorem Seg_live_addr {mem : Nat → Option (LNode α)} (xs : List (Nat × α)) (p n : Option Nat) (h : Seg mem p xs n)
    (a : Nat) (ha : a ∈ addrs xs) : ∃ nd, mem a = some nd := by
  simp only [addrs, List.mem_map] at ha
  obtain ⟨x, hx, rfl⟩ := ha
  obtain ⟨nd, h1, _⟩ := Seg_live xs p n h x hx
  exact ⟨nd, h1⟩

theorem addrs_append (xs ys : List (Nat × α)) : addrs (xs ++ ys) = addrs xs ++ addrs ys := by simp [addrs]
theorem addrs_cons (x : Nat × α) (ys : List (Nat × α)) : addrs (x :: ys) = x.1 :: addrs ys := rfl

/-! ### List_Unlink -/

/-- what `Chain l (xs ++ x :: ys)` says about the node `x` and its surroundings -/
theorem Chain.split {l : LL α} {xs ys : List (Nat × α)} {x : Nat × α} (h : Chain l (xs ++ x :: ys)) :
    Seg l.mem none xs (some x.1) ∧ l.mem x.1 = some ⟨x.2, firstAddr ys none, lastAddr xs none⟩ ∧
    Seg l.mem (some x.1) ys none ∧ l.head = firstAddr xs (some x.1) ∧ l.tail = lastAddr ys (some x.1) ∧
    (addrs xs).Nodup ∧ (addrs ys).Nodup ∧ x.1 ∉ addrs xs ∧ x.1 ∉ addrs ys ∧ (∀ a ∈ addrs xs, a ∉ addrs ys) := by
  have hs := (Seg_append l.mem xs (x :: ys) none none).mp h.seg
  have hnd := h.nodup
  rw [addrs_append, addrs_cons, List.nodup_append] at hnd
  obtain ⟨n1, n2, n3⟩ := hnd
  have n2' := List.nodup_cons.mp n2
  refine ⟨hs.1, hs.2.1, hs.2.2, ?_, ?_, n1, n2'.2, ?_, n2'.1, ?_⟩
  · rw [h.head, firstAddr_append]; rfl
  · rw [h.tail, lastAddr_append]
    cases ys with
    | nil => rfl
    | cons y r => exact lastAddr_nonempty _ (by simp) _ _
  · intro hx; exact n3 x.1 hx x.1 (by simp) rfl
  · intro a ha hb; exact n3 a ha a (by simp [hb]) rfl

theorem unlink_chain (l : LL α) (xs ys : List (Nat × α)) (x : Nat × α) (h : Chain l (xs ++ x :: ys)) :
    ∃ l', l.unlink x.1 = some l' ∧ Seg l'.mem none (xs ++ ys) none ∧ l'.head = firstAddr (xs ++ ys) none ∧
      l'.tail = lastAddr (xs ++ ys) none ∧ l'.brk = l.brk ∧ l'.nitems = l.nitems := by
  obtain ⟨sx, hx, sy, hh, ht, ndx, ndy, nx, ny, dis⟩ := h.split
  by_cases exs : xs = []
  · subst exs
    cases ys with
    | nil =>
      -- the only node
      refine ⟨{ l with head := none, tail := none }, ?_, trivial, rfl, rfl, rfl, rfl⟩
      simp only [unlink, hx]
      rw [if_pos ⟨by simpa [firstAddr] using hh, by simpa [lastAddr] using ht⟩]
    | cons y r =>
      -- the head of a longer list
      obtain ⟨a, ha, hamem⟩ := lastAddr_mem y r (some x.1)
      have hax : a ≠ x.1 := fun e => ny (e ▸ hamem)
      have hhead : l.head = some x.1 := by simpa [firstAddr] using hh
      have htail : l.tail ≠ some x.1 := by rw [ht, ha]; simpa using hax
      obtain ⟨ndy', hy⟩ := Seg_live_addr (y :: r) _ _ sy y.1 (by simp [addrs])
      refine ⟨({ l with head := some y.1 }).store y.1 (some { ndy' with prev := none }), ?_, ?_, ?_, ?_, rfl, rfl⟩
      · simp only [unlink, hx]
        rw [if_neg (fun c => htail c.2), if_pos hhead]
        simp only [firstAddr, setPrev, hy]
      · simp only [List.nil_append, store]
        exact Seg_setPrev_first y r (some x.1) none none ndy' ndy hy sy
      · simp [store, firstAddr]
      · simp only [List.nil_append, store, ht]
        exact lastAddr_nonempty _ (by simp) _ _
  · obtain ⟨w, hw, hwmem⟩ := lastAddr_mem' xs exs none
    obtain ⟨b, hb, hbmem⟩ := firstAddr_mem xs exs (some x.1)
    have hbx : b ≠ x.1 := fun e => nx (e ▸ hbmem)
    have hhead : l.head ≠ some x.1 := by rw [hh, hb]; simpa using hbx
    obtain ⟨ndw, hwl⟩ := Seg_live_addr xs _ _ sx w hwmem
    cases ys with
    | nil =>
      -- the tail of a longer list
      have htail : l.tail = some x.1 := by simpa [lastAddr] using ht
      refine ⟨({ l with tail := some w }).store w (some { ndw with next := none }), ?_, ?_, ?_, ?_, rfl, rfl⟩
      · simp only [unlink, hx]
        rw [if_neg (fun c => hhead c.1), if_neg hhead, if_pos htail]
        simp only [hw, setNext, hwl]
      · simp only [List.append_nil, store]
        exact Seg_setNext_last xs none (some x.1) none w ndw exs hw ndx hwl sx
      · simp only [List.append_nil, store, hh]
        cases xs with
        | nil => exact absurd rfl exs
        | cons x0 r0 => rfl
      · simp only [List.append_nil, store, hw]
    | cons y r =>
      -- an inner node
      obtain ⟨a, ha, hamem⟩ := lastAddr_mem y r (some x.1)
      have hax : a ≠ x.1 := fun e => ny (e ▸ hamem)
      have htail : l.tail ≠ some x.1 := by rw [ht, ha]; simpa using hax
      obtain ⟨ndy', hy⟩ := Seg_live_addr (y :: r) _ _ sy y.1 (by simp [addrs])
      have hyw : y.1 ≠ w := fun e => dis w hwmem (e ▸ (by simp [addrs]))
      have hwy : ∀ c ∈ addrs (y :: r), c ≠ w := fun c hc e => dis w hwmem (e ▸ hc)
      have hyx : ∀ c ∈ addrs xs, c ≠ y.1 := fun c hc e => dis c hc (e ▸ (by simp [addrs]))
      refine ⟨(l.store w (some { ndw with next := some y.1 })).store y.1 (some { ndy' with prev := some w }), ?_, ?_, ?_, ?_, rfl, rfl⟩
      · simp only [unlink, hx]
        rw [if_neg (fun c => hhead c.1), if_neg hhead, if_neg htail]
        simp only [hw, firstAddr, setNext, hwl, setPrev, store, hyw, if_false, hy]
      · simp only [store]
        rw [Seg_append]
        constructor
        · refine Seg_congr xs _ _ (fun c hc => ?_) (Seg_setNext_last xs none (some x.1) (some y.1) w ndw exs hw ndx hwl sx)
          simp [hyx c hc]
        · rw [hw]
          have s1 : Seg (fun c => if c = w then some { ndw with next := some y.1 } else l.mem c) (some x.1) (y :: r) none :=
            Seg_congr (y :: r) _ _ (fun c hc => by simp [hwy c hc]) sy
          exact Seg_setPrev_first y r (some x.1) (some w) none ndy' ndy (by simp [hyw, hy]) s1
      · simp only [store, hh, firstAddr_append]
        cases xs with
        | nil => exact absurd rfl exs
        | cons x0 r0 => rfl
      · simp only [store, ht, lastAddr_append_cons]
        exact lastAddr_nonempty _ (by simp) _ _

/-! ### List_Link -/

/-- first statement of List_Link: `if (prev is NULL) head = item; else *List_Next(prev) = item;` with `prev` = the last
    node of `xs` -/
theorem link_prev_side (l : LL α) (xs : List (Nat × α)) (a : Nat) (n0 : Option Nat) (sx : Seg l.mem none xs n0)
    (ndx : (addrs xs).Nodup) (hh : xs ≠ [] → l.head = firstAddr xs none) :
    ∃ l1, l.linkPrev a (lastAddr xs none) = some l1 ∧
      Seg l1.mem none xs (some a) ∧ l1.head = firstAddr xs (some a) ∧ l1.tail = l.tail ∧ l1.brk = l.brk ∧
      l1.nitems = l.nitems ∧ (∀ c, c ∉ addrs xs → l1.mem c = l.mem c) := by
  by_cases exs : xs = []
  · subst exs
    exact ⟨{ l with head := some a }, rfl, trivial, rfl, rfl, rfl, rfl, fun _ _ => rfl⟩
  · obtain ⟨w, hw, hwmem⟩ := lastAddr_mem' xs exs none
    obtain ⟨ndw, hwl⟩ := Seg_live_addr xs _ _ sx w hwmem
    refine ⟨l.store w (some { ndw with next := some a }), by simp only [hw, linkPrev, setNext, hwl], ?_, ?_, rfl, rfl, rfl, ?_⟩
    · exact Seg_setNext_last xs none n0 (some a) w ndw exs hw ndx hwl sx
    · simp only [store, hh exs]
      cases xs with
      | nil => exact absurd rfl exs
      | cons x0 r0 => rfl
    · intro c hc
      have : c ≠ w := fun e => hc (e ▸ hwmem)
      simp [store, this]

/-- second statement: `if (next is NULL) tail = item; else *List_Prev(next) = item;` with `next` = the first node of `ys` -/
theorem link_next_side (l : LL α) (ys : List (Nat × α)) (a : Nat) (p0 : Option Nat) (sy : Seg l.mem p0 ys none)
    (ndy : (addrs ys).Nodup) (ht : ys ≠ [] → l.tail = lastAddr ys none) :
    ∃ l2, l.linkNext a (firstAddr ys none) = some l2 ∧
      Seg l2.mem (some a) ys none ∧ l2.tail = lastAddr ys (some a) ∧ l2.head = l.head ∧ l2.brk = l.brk ∧
      l2.nitems = l.nitems ∧ (∀ c, c ∉ addrs ys → l2.mem c = l.mem c) := by
  cases ys with
  | nil => exact ⟨{ l with tail := some a }, rfl, trivial, rfl, rfl, rfl, rfl, fun _ _ => rfl⟩
  | cons y r =>
    obtain ⟨ndy', hy⟩ := Seg_live_addr (y :: r) _ _ sy y.1 (by simp [addrs])
    refine ⟨l.store y.1 (some { ndy' with prev := some a }), by simp only [firstAddr, linkNext, setPrev, hy], ?_, ?_, rfl, rfl, rfl, ?_⟩
    · exact Seg_setPrev_first y r p0 (some a) none ndy' ndy hy sy
    · simp only [store, ht (by simp)]
      exact lastAddr_nonempty _ (by simp) _ _
    · intro c hc
      have : c ≠ y.1 := fun e => hc (e ▸ (by simp [addrs]))
      simp [store, this]

theorem link_chain (l : LL α) (xs ys : List (Nat × α)) (a : Nat) (v : α) (nx0 pv0 : Option Nat)
    (sg : Seg l.mem none (xs ++ ys) none) (hh : l.head = firstAddr (xs ++ ys) none)
    (ht : l.tail = lastAddr (xs ++ ys) none) (hnd : (addrs (xs ++ ys)).Nodup) (ha : a ∉ addrs (xs ++ ys))
    (hma : l.mem a = some ⟨v, nx0, pv0⟩) :
    ∃ l', l.link a (lastAddr xs none) (firstAddr ys none) = some l' ∧ Seg l'.mem none (xs ++ (a, v) :: ys) none ∧
      l'.head = firstAddr (xs ++ (a, v) :: ys) none ∧ l'.tail = lastAddr (xs ++ (a, v) :: ys) none ∧
      l'.brk = l.brk ∧ l'.nitems = l.nitems := by
  obtain ⟨sx, sy⟩ := (Seg_append l.mem xs ys none none).mp sg
  rw [addrs_append, List.nodup_append] at hnd
  obtain ⟨ndx, ndy, dis⟩ := hnd
  rw [addrs_append, List.mem_append, not_or] at ha
  obtain ⟨hax, hay⟩ := ha
  obtain ⟨l1, e1, s1, h1, t1, b1, c1, f1⟩ := link_prev_side l xs a _ sx ndx (fun exs => by
    rw [hh, firstAddr_append]
    cases xs with
    | nil => exact absurd rfl exs
    | cons x0 r0 => rfl)
  have sy1 : Seg l1.mem (lastAddr xs none) ys none :=
    Seg_congr ys _ _ (fun c hc => f1 c (fun hcx => dis c hcx c hc rfl)) sy
  obtain ⟨l2, e2, s2, t2, h2, b2, c2, f2⟩ := link_next_side l1 ys a _ sy1 ndy (fun eys => by
    rw [t1, ht, lastAddr_append]
    exact lastAddr_nonempty _ eys _ _)
  have hm2 : l2.mem a = some ⟨v, nx0, pv0⟩ := by rw [f2 a hay, f1 a hax, hma]
  let l4 : LL α := (l2.store a (some ⟨v, firstAddr ys none, pv0⟩)).store a (some ⟨v, firstAddr ys none, lastAddr xs none⟩)
  refine ⟨l4, ?_, ?_, ?_, ?_, ?_, ?_⟩
  · simp only [link, e1, e2]
    simp only [setNext, hm2, setPrev, store, if_true, l4]
  · rw [Seg_append]
    refine ⟨?_, ?_, ?_⟩
    · refine Seg_congr xs _ _ (fun c hc => ?_) s1
      have hca : c ≠ a := fun e => hax (e ▸ hc)
      have : c ∉ addrs ys := fun hcy => dis c hc c hcy rfl
      simp [l4, store, hca, f2 c this]
    · simp [l4, store]
    · refine Seg_congr ys _ _ (fun c hc => ?_) s2
      have hca : c ≠ a := fun e => hay (e ▸ hc)
      simp [l4, store, hca]
  · simp only [l4, store, h2, h1, firstAddr_append]; rfl
  · simp only [l4, store, t2, lastAddr_append_cons]
    cases ys with
    | nil => rfl
    | cons y r => exact lastAddr_nonempty _ (by simp) _ _
  · simp only [l4, store, b2, b1]
  · simp only [l4, store, c2, c1]

/-! ### List_At -/

theorem stepNext_seg (l : LL α) : ∀ (k : Nat) (xs : List (Nat × α)) (p n : Option Nat), Seg l.mem p xs n →
    k ≤ xs.length → l.stepNext k (firstAddr xs n) = some (firstAddr (xs.drop k) n) := by
  intro k
  induction k with
  | zero => intro xs p n _ _; simp [stepNext]
  | succ k ih =>
    intro xs p n h hk
    cases xs with
    | nil => simp at hk
    | cons x r =>
      simp only [firstAddr, stepNext, h.1, List.drop_succ_cons]
      exact ih r (some x.1) n h.2 (by simpa using hk)

theorem snoc_of_ne_nil (xs : List (Nat × α)) (h : xs ≠ []) : ∃ ini w, xs = ini ++ [w] :=
  ⟨xs.dropLast, xs.getLast h, (List.dropLast_concat_getLast h).symm⟩

theorem Seg_snoc {mem : Nat → Option (LNode α)} (ini : List (Nat × α)) (w : Nat × α) (p n : Option Nat)
    (h : Seg mem p (ini ++ [w]) n) : Seg mem p ini (some w.1) ∧ mem w.1 = some ⟨w.2, n, lastAddr ini p⟩ := by
  have := (Seg_append mem ini [w] p n).mp h
  exact ⟨this.1, this.2.1⟩

theorem stepPrev_seg (l : LL α) : ∀ (k : Nat) (xs : List (Nat × α)) (p n : Option Nat), Seg l.mem p xs n →
    k ≤ xs.length → l.stepPrev k (lastAddr xs p) = some (lastAddr (xs.take (xs.length - k)) p) := by
  intro k
  induction k with
  | zero => intro xs p n _ _; simp [stepPrev]
  | succ k ih =>
    intro xs p n h hk
    have hne : xs ≠ [] := by intro e; subst e; simp at hk
    obtain ⟨ini, w, rfl⟩ := snoc_of_ne_nil xs hne
    obtain ⟨h1, h2⟩ := Seg_snoc ini w p n h
    simp only [List.length_append, List.length_singleton] at hk ⊢
    rw [lastAddr_snoc]
    simp only [stepPrev, h2]
    rw [ih ini p (some w.1) h1 (by omega)]
    have : ini.length + 1 - (k + 1) = ini.length - k := by omega
    rw [this, List.take_append_of_le_length (by omega)]

theorem split_at (xs : List (Nat × α)) (k : Nat) (hk : k < xs.length) :
    xs = xs.take k ++ xs[k] :: xs.drop (k + 1) := by
  conv => lhs; rw [← List.take_append_drop k xs, List.drop_eq_getElem_cons hk]

theorem nodeAt_eq (l : LL α) (i : Int) : l.nodeAt i =
    if normI l.nitems i < 0 ∨ normI l.nitems i ≥ (l.nitems : Int) then At.oob
    else match (if (normI l.nitems i).toNat ≤ l.nitems / 2 then l.stepNext (normI l.nitems i).toNat l.head
                else l.stepPrev (l.nitems - (normI l.nitems i).toNat - 1) l.tail) with
      | some (some a) => At.node a
      | _ => At.undef := rfl

theorem nodeAt_oob (l : LL α) (xs : List (Nat × α)) (h : Chain l xs) (i : Int) (hi : idxOf xs.length i = none) :
    l.nodeAt i = .oob := by
  rw [nodeAt_eq, h.count]
  unfold idxOf at hi
  split at hi
  · next hc => rw [if_pos hc]
  · cases hi

theorem nodeAt_node (l : LL α) (xs : List (Nat × α)) (h : Chain l xs) (i : Int) (k : Nat)
    (hi : idxOf xs.length i = some k) : ∃ hk : k < xs.length, l.nodeAt i = .node (xs[k]).1 := by
  have hk := idxOf_lt hi
  refine ⟨hk, ?_⟩
  rw [nodeAt_eq, h.count]
  unfold idxOf at hi
  generalize normI xs.length i = j at hi ⊢
  split at hi
  · cases hi
  · next hc =>
    simp only [Option.some.injEq] at hi
    subst hi
    rw [if_neg hc]
    have hr : (if j.toNat ≤ xs.length / 2 then l.stepNext j.toNat l.head
        else l.stepPrev (xs.length - j.toNat - 1) l.tail) = some (some xs[j.toNat].1) := by
      split
      · rw [h.head, stepNext_seg l j.toNat xs none none h.seg (by omega), List.drop_eq_getElem_cons hk]
        rfl
      · rw [h.tail, stepPrev_seg l _ xs none none h.seg (by omega)]
        have e : xs.length - (xs.length - j.toNat - 1) = j.toNat + 1 := by omega
        rw [e, List.take_add_one, List.getElem?_eq_getElem hk]
        simp only [Option.toList_some]
        rw [lastAddr_snoc]
    rw [hr]

/-! ### removing and inserting one node -/

theorem dropNode_chain (l : LL α) (pre post : List (Nat × α)) (x : Nat × α) (h : Chain l (pre ++ x :: post)) :
    ∃ l', l.dropNode x.1 = (l', .ok) ∧ Chain l' (pre ++ post) := by
  obtain ⟨l1, e, sg, hh, ht, hb, hc⟩ := unlink_chain l pre post x h
  obtain ⟨_, _, _, _, _, ndx, ndy, nx, ny, dis⟩ := h.split
  have hxn : x.1 ∉ addrs (pre ++ post) := by rw [addrs_append, List.mem_append]; exact fun c => c.elim nx ny
  refine ⟨{ (l1.free x.1) with nitems := l1.nitems - 1 }, by simp only [dropNode, e], ?_, hh, ht, ?_, ?_, ?_, ?_⟩
  · refine Seg_congr _ _ _ (fun c hc => ?_) sg
    have : c ≠ x.1 := fun e => hxn (e ▸ hc)
    simp [free, store, this]
  · rw [addrs_append, List.nodup_append]
    exact ⟨ndx, ndy, fun a ha b hb e => dis a ha (e ▸ hb)⟩
  · intro a ha
    simp only [free, store, hb]
    refine h.fresh a ?_
    rw [addrs_append, List.mem_append] at ha
    rw [addrs_append, addrs_cons, List.mem_append, List.mem_cons]
    exact ha.elim Or.inl (fun c => Or.inr (Or.inr c))
  · have := h.room
    simp only [List.length_append, List.length_cons, free, store, hb] at this ⊢
    omega
  · have := h.count
    simp only [List.length_append, List.length_cons, hc] at this ⊢
    omega

theorem insert_chain (l : LL α) (xs ys : List (Nat × α)) (v : α) (h : Chain l (xs ++ ys)) (prev next : LL α → Option Nat)
    (hp : prev (l.alloc v).2 = lastAddr xs none) (hn : next (l.alloc v).2 = firstAddr ys none) :
    ∃ l', l.insert v prev next = (l', .ok) ∧ Chain l' (xs ++ (l.brk, v) :: ys) := by
  have hfr : l.brk ∉ addrs (xs ++ ys) := fun c => Nat.lt_irrefl _ (h.fresh _ c)
  have sg1 : Seg (l.alloc v).2.mem none (xs ++ ys) none := by
    refine Seg_congr _ _ _ (fun c hc => ?_) h.seg
    have : c ≠ l.brk := fun e => hfr (e ▸ hc)
    simp [alloc, store, this]
  obtain ⟨l2, e, sg, hh, ht, hb, hc⟩ := link_chain (l.alloc v).2 xs ys l.brk v none none sg1
    (by simpa [alloc, store] using h.head) (by simpa [alloc, store] using h.tail) h.nodup hfr (by simp [alloc, store])
  refine ⟨{ l2 with nitems := l2.nitems + 1 }, ?_, sg, hh, ht, ?_, ?_, ?_, ?_⟩
  · simp only [insert, hp, hn]
    have : (l.alloc v).1 = l.brk := rfl
    rw [show l.alloc v = (l.brk, (l.alloc v).2) from rfl]
    simp only [e]
  · have := h.nodup
    rw [addrs_append, List.nodup_append] at this
    rw [addrs_append, List.mem_append, not_or] at hfr
    rw [addrs_append, addrs_cons, List.nodup_append]
    refine ⟨this.1, List.nodup_cons.mpr ⟨hfr.2, this.2.1⟩, ?_⟩
    intro a ha b hb
    rcases List.mem_cons.mp hb with rfl | hb
    · intro e
      have e' : a = l.brk := e
      subst e'
      exact hfr.1 ha
    · exact this.2.2 a ha b hb
  · intro a ha
    simp only [hb, alloc, store]
    rw [addrs_append, addrs_cons, List.mem_append, List.mem_cons] at ha
    have hf := h.fresh a
    rw [addrs_append, List.mem_append] at hf
    rcases ha with ha | rfl | ha
    · exact Nat.lt_succ_of_lt (hf (Or.inl ha))
    · exact Nat.lt_succ_self _
    · exact Nat.lt_succ_of_lt (hf (Or.inr ha))
  · have := h.room
    simp only [List.length_append, List.length_cons, hb, alloc, store] at this ⊢
    omega
  · have := h.count
    simp only [List.length_append, List.length_cons, hc, alloc, store] at this ⊢
    omega

end LL
end Cello.Iter
