/-
  Lemmas about the release loop of `GC_Sweep` (`Cello.Heap.release`: destructors, `Box_Del` → `del` → `GC_Rem_Ptr`), about
  one whole collection (`collectAll`) and about histories whose state includes the mark bits (`GState.run`).
-/
import Cello.Heap
import CelloProofs.Lemmas.Mark
import CelloProofs.Lemmas.MarkBits

namespace Cello.Heap

/-! ## the release loop -/

section release

theorem mem_strike {x y : Addr} : ∀ {p : List (Option Addr)}, some y ∈ strike x p → some y ∈ p
  | [], h => by simp [strike] at h
  | o :: p, h => by
    unfold strike at h
    split at h
    · rcases List.mem_cons.mp h with h1 | h1
      · cases h1
      · exact List.mem_cons_of_mem _ h1
    · rcases List.mem_cons.mp h with h1 | h1
      · rw [h1]; exact List.mem_cons_self
      · exact List.mem_cons_of_mem _ (mem_strike h1)

/-- the invariant of a release loop in which no freed object owns a surviving one: the registry is not touched and only
    items of the pending list `P` are finalised -/
structure RInv (h1 : Heap) (P : List Addr) (st : RState) : Prop where
  heap : st.heap = h1
  pend : ∀ x, some x ∈ st.pending → x ∈ P
  fin : ∀ x ∈ st.finalised, x ∈ P

variable (h0 h1 : Heap) (P : List Addr)

theorem remPtr_inv (fin : RState → Addr → RState) (hfin : ∀ st a, a ∈ P → RInv h1 P st → RInv h1 P (fin st a))
    (st : RState) (v : Word) (hv : (h1.lookup v).isSome = false) (hi : RInv h1 P st) : RInv h1 P (remPtr fin st v) := by
  unfold remPtr
  split
  · exact hi
  unfold remPtrBody
  split
  · rename_i hc
    have hvp : v ∈ P := hi.pend v (by simpa using hc)
    exact hfin _ v hvp ⟨hi.heap, fun x hx => hi.pend x (mem_strike hx), hi.fin⟩
  · split
    · rename_i _ hc
      rw [hi.heap, hv] at hc; cases hc
    · exact hi

theorem foldl_remPtr_inv (fin : RState → Addr → RState) (hfin : ∀ st a, a ∈ P → RInv h1 P st → RInv h1 P (fin st a)) :
    ∀ (vs : List Word) (st : RState), (∀ v ∈ vs, (h1.lookup v).isSome = false) → RInv h1 P st →
      RInv h1 P (vs.foldl (remPtr fin) st)
  | [], st, _, hi => hi
  | v :: vs, st, hv, hi => by
    simp only [List.foldl_cons]
    exact foldl_remPtr_inv fin hfin vs _ (fun x hx => hv x (List.mem_cons_of_mem _ hx))
      (remPtr_inv h1 P fin hfin st v (hv v List.mem_cons_self) hi)

theorem finaliseAt_inv (hown : ∀ b ∈ P, ∀ v ∈ h0.ownsAt b, (h1.lookup v).isSome = false) :
    ∀ (fuel : Nat) (st : RState) (a : Addr), a ∈ P → RInv h1 P st → RInv h1 P (finaliseAt h0 fuel st a)
  | 0, st, _, _, hi => ⟨hi.heap, hi.pend, hi.fin⟩
  | fuel + 1, st, a, ha, hi => by
    unfold finaliseAt
    refine foldl_remPtr_inv h1 P _ (finaliseAt_inv hown fuel) _ _ (hown a ha) ⟨hi.heap, hi.pend, ?_⟩
    intro x hx
    rcases List.mem_cons.mp hx with h | h
    · rw [h]; exact ha
    · exact hi.fin x h

theorem releaseLoop_inv (hown : ∀ b ∈ P, ∀ v ∈ h0.ownsAt b, (h1.lookup v).isSome = false) (fuel : Nat) :
    ∀ (rest : List Addr) (st : RState), (∀ a ∈ rest, a ∈ P) → RInv h1 P st → RInv h1 P (releaseLoop h0 fuel rest st)
  | [], st, _, hi => hi
  | a :: rest, st, hr, hi => by
    unfold releaseLoop
    split
    · exact releaseLoop_inv hown fuel rest _ (fun x hx => hr x (List.mem_cons_of_mem _ hx))
        (finaliseAt_inv h0 h1 P hown fuel _ a (hr a List.mem_cons_self) ⟨hi.heap, fun x hx => hi.pend x (mem_strike hx), hi.fin⟩)
    · exact releaseLoop_inv hown fuel rest st (fun x hx => hr x (List.mem_cons_of_mem _ hx)) hi

/-- **when no freed object owns a surviving one, the release loop finalises items of the pending list only and leaves the
    registry as the sweep left it** -/
theorem release_within_pending (hown : ∀ b ∈ P, ∀ v ∈ h0.ownsAt b, (h1.lookup v).isSome = false) :
    (release h0 h1 P).heap = h1 ∧ ∀ x ∈ (release h0 h1 P).finalised, x ∈ P := by
  have := releaseLoop_inv h0 h1 P hown (P.length + h1.regs.length + 1) P
    { heap := h1, pending := P.map some, finalised := [], exhausted := false } (fun _ h => h)
    ⟨rfl, fun x hx => by simpa using hx, fun x hx => by cases hx⟩
  exact ⟨this.heap, this.fin⟩

/-! ### the nesting of destructors is bounded -/

def somes (p : List (Option Addr)) : Nat := (p.filter Option.isSome).length

/-- what the collector still lists: items on the free list + entries of the registry -/
def RState.listed (st : RState) : Nat := somes st.pending + st.heap.regs.length

theorem somes_strike {x : Addr} : ∀ {p : List (Option Addr)}, p.contains (some x) = true → somes (strike x p) + 1 = somes p
  | [], h => by simp at h
  | o :: p, h => by
    unfold strike
    by_cases ho : o = some x
    · simp only [ho, if_true]
      simp [somes]
    · simp only [ho, if_false]
      have hc : p.contains (some x) = true := by
        rw [List.contains_cons] at h
        rcases Bool.or_eq_true _ _ |>.mp h with h1 | h1
        · exact absurd (by simpa using h1 : some x = o).symm ho
        · exact h1
      have ih := somes_strike hc
      cases o with
      | none => simpa [somes, List.filter_cons] using ih
      | some y =>
        simp only [somes, List.filter_cons, Option.isSome_some, if_true, List.length_cons] at ih ⊢
        omega

theorem length_filter_ne_lt {v : Addr} : ∀ {l : List Addr}, v ∈ l → (l.filter (· ≠ v)).length < l.length
  | [], h => by cases h
  | x :: l, h => by
    by_cases hx : x = v
    · subst hx
      have : ((x :: l).filter (· ≠ x)) = l.filter (· ≠ x) := by simp
      rw [this]
      exact Nat.lt_succ_of_le (List.length_filter_le _ _)
    · have hv : v ∈ l := by
        rcases List.mem_cons.mp h with h1 | h1
        · exact absurd h1.symm hx
        · exact h1
      have ih := length_filter_ne_lt hv
      have : ((x :: l).filter (· ≠ v)) = x :: l.filter (· ≠ v) := by simp [hx]
      rw [this]
      simp only [List.length_cons]
      omega

theorem remove_regs_lt {h : Heap} {v : Addr} (hv : (h.lookup v).isSome = true) : (h.remove v).regs.length < h.regs.length := by
  cases hl : h.lookup v with
  | none => simp [hl] at hv
  | some e => exact length_filter_ne_lt (h.complete v e hl)

theorem remPtr_bounded (fin : RState → Addr → RState) (fuel : Nat)
    (hfin : ∀ st a, st.exhausted = false → st.listed < fuel → (fin st a).exhausted = false ∧ (fin st a).listed ≤ st.listed)
    (st : RState) (v : Word) (he : st.exhausted = false) (hl : st.listed < fuel + 1) :
    (remPtr fin st v).exhausted = false ∧ (remPtr fin st v).listed ≤ st.listed := by
  unfold remPtr
  split
  · exact ⟨he, Nat.le_refl _⟩
  unfold remPtrBody
  split
  · rename_i hc
    have h1 := somes_strike hc
    have hlt : ({ st with pending := strike v st.pending } : RState).listed < fuel := by
      simp only [RState.listed] at hl ⊢; omega
    obtain ⟨r1, r2⟩ := hfin { st with pending := strike v st.pending } v he hlt
    refine ⟨r1, Nat.le_trans r2 ?_⟩
    simp only [RState.listed]; omega
  · split
    · rename_i _ hc
      have h1 := remove_regs_lt hc
      have hlt : ({ st with heap := st.heap.remove v } : RState).listed < fuel := by
        simp only [RState.listed] at hl ⊢; omega
      obtain ⟨r1, r2⟩ := hfin { st with heap := st.heap.remove v } v he hlt
      refine ⟨r1, Nat.le_trans r2 ?_⟩
      simp only [RState.listed]; omega
    · exact ⟨he, Nat.le_refl _⟩

theorem foldl_remPtr_bounded (fin : RState → Addr → RState) (fuel : Nat)
    (hfin : ∀ st a, st.exhausted = false → st.listed < fuel → (fin st a).exhausted = false ∧ (fin st a).listed ≤ st.listed) :
    ∀ (vs : List Word) (st : RState), st.exhausted = false → st.listed < fuel + 1 →
      (vs.foldl (remPtr fin) st).exhausted = false ∧ (vs.foldl (remPtr fin) st).listed ≤ st.listed
  | [], st, he, _ => ⟨he, Nat.le_refl _⟩
  | v :: vs, st, he, hl => by
    simp only [List.foldl_cons]
    obtain ⟨r1, r2⟩ := remPtr_bounded fin fuel hfin st v he hl
    obtain ⟨q1, q2⟩ := foldl_remPtr_bounded fin fuel hfin vs _ r1 (Nat.lt_of_le_of_lt r2 hl)
    exact ⟨q1, Nat.le_trans q2 r2⟩

theorem finaliseAt_bounded : ∀ (fuel : Nat) (st : RState) (a : Addr), st.exhausted = false → st.listed < fuel →
    (finaliseAt h0 fuel st a).exhausted = false ∧ (finaliseAt h0 fuel st a).listed ≤ st.listed
  | 0, _, _, _, hl => absurd hl (Nat.not_lt_zero _)
  | fuel + 1, st, a, he, hl => by
    unfold finaliseAt
    exact foldl_remPtr_bounded _ fuel (finaliseAt_bounded fuel) _ { st with finalised := a :: st.finalised } he hl

theorem releaseLoop_bounded (fuel : Nat) : ∀ (rest : List Addr) (st : RState), st.exhausted = false → st.listed ≤ fuel →
    (releaseLoop h0 fuel rest st).exhausted = false
  | [], _, he, _ => he
  | a :: rest, st, he, hl => by
    unfold releaseLoop
    split
    · rename_i hc
      have h1 := somes_strike hc
      have hlt : ({ st with pending := strike a st.pending } : RState).listed < fuel := by
        simp only [RState.listed] at hl ⊢; omega
      obtain ⟨r1, r2⟩ := finaliseAt_bounded h0 fuel { st with pending := strike a st.pending } a he hlt
      exact releaseLoop_bounded fuel rest _ r1 (Nat.le_of_lt (Nat.lt_of_le_of_lt r2 hlt))
    · exact releaseLoop_bounded fuel rest st he hl

theorem somes_map_some (P : List Addr) : somes (P.map some) = P.length := by
  induction P with
  | nil => rfl
  | cons x xs ih => simp only [somes, List.map_cons, List.filter_cons, Option.isSome_some, if_true, List.length_cons] at ih ⊢; omega

/-- **the nesting budget of the release loop always suffices**: every nested `dealloc(destruct(·))` is preceded by the
    removal of an item from the free list or of an entry from the registry -/
theorem release_bounded : (release h0 h1 P).exhausted = false := by
  unfold release
  apply releaseLoop_bounded h0 _ P _ rfl
  simp only [RState.listed, somes_map_some]
  omega

end release


/-! ## finalisation only accumulates -/

section mono
variable (h0 : Heap)

theorem remPtr_fin_mono (fin : RState → Addr → RState) (hfin : ∀ st a x, x ∈ st.finalised → x ∈ (fin st a).finalised)
    (st : RState) (v : Word) (x : Addr) (hx : x ∈ st.finalised) : x ∈ (remPtr fin st v).finalised := by
  unfold remPtr
  split
  · exact hx
  unfold remPtrBody
  split
  · exact hfin _ v x hx
  · split
    · exact hfin _ v x hx
    · exact hx

theorem foldl_remPtr_fin_mono (fin : RState → Addr → RState) (hfin : ∀ st a x, x ∈ st.finalised → x ∈ (fin st a).finalised) :
    ∀ (vs : List Word) (st : RState) (x : Addr), x ∈ st.finalised → x ∈ (vs.foldl (remPtr fin) st).finalised
  | [], _, _, hx => hx
  | v :: vs, st, x, hx => by
    simp only [List.foldl_cons]
    exact foldl_remPtr_fin_mono fin hfin vs _ x (remPtr_fin_mono fin hfin st v x hx)

theorem finaliseAt_fin_mono : ∀ (fuel : Nat) (st : RState) (a x : Addr), x ∈ st.finalised → x ∈ (finaliseAt h0 fuel st a).finalised
  | 0, _, _, _, hx => hx
  | fuel + 1, st, a, x, hx => by
    unfold finaliseAt
    exact foldl_remPtr_fin_mono _ (finaliseAt_fin_mono fuel) _ _ x (List.mem_cons_of_mem _ hx)

theorem finaliseAt_self (fuel : Nat) (st : RState) (a : Addr) : a ∈ (finaliseAt h0 (fuel + 1) st a).finalised := by
  unfold finaliseAt
  exact foldl_remPtr_fin_mono _ (finaliseAt_fin_mono h0 fuel) _ _ a List.mem_cons_self

theorem releaseLoop_fin_mono (fuel : Nat) : ∀ (rest : List Addr) (st : RState) (x : Addr), x ∈ st.finalised →
    x ∈ (releaseLoop h0 fuel rest st).finalised
  | [], _, _, hx => hx
  | a :: rest, st, x, hx => by
    unfold releaseLoop
    split
    · exact releaseLoop_fin_mono fuel rest _ x (finaliseAt_fin_mono h0 fuel _ a x hx)
    · exact releaseLoop_fin_mono fuel rest st x hx

/-- `del(v)` of an entry (not NULL) that is registered and not on the free list finalises it -/
theorem remPtr_registered (fuel : Nat) (st : RState) (v : Addr) (hv : v ≠ 0) (hp : st.pending.contains (some v) = false)
    (hr : (st.heap.lookup v).isSome = true) : v ∈ (remPtr (finaliseAt h0 (fuel + 1)) st v).finalised := by
  unfold remPtr remPtrBody
  simp only [hv, hp, hr, if_true, Bool.false_eq_true, if_false]
  exact finaliseAt_self h0 fuel _ v

/-- **`del(NULL)` is a no-op in every state of the release loop** (fix d3e4e44) -/
theorem remPtr_null (fin : RState → Addr → RState) (st : RState) : remPtr fin st 0 = st := by
  simp [remPtr]

/-- … and for a pointer that is not NULL the early-out changes nothing -/
theorem remPtr_nonnull (fin : RState → Addr → RState) (st : RState) (v : Word) (hv : v ≠ 0) :
    remPtr fin st v = remPtrBody fin st v ∧ remPtrPre fin st v = remPtrBody fin st v := by
  simp [remPtr, remPtrPre, hv]

end mono



/-! ## one whole collection -/

section coll
variable {σ : Type} (S : MarkSet σ) (c : Cfg) (h : Heap)

theorem ownsSurvivor_false {m : σ} (hx : ownsSurvivor S h m = false) :
    ∀ b ∈ (sweep S h m).2, ∀ v ∈ h.ownsAt b, ((sweep S h m).1.lookup v).isSome = false := by
  intro b hb v hv
  obtain ⟨hb1, hb2⟩ := (mem_pending S h m b).mp hb
  unfold ownsSurvivor at hx
  rw [List.any_eq_false] at hx
  have h1 := hx b hb1
  simp only [hb2, Bool.true_and, Bool.not_eq_true] at h1
  rw [List.any_eq_false] at h1
  have h2 := h1 v hv
  simpa using h2

/-- conversely: a pending item that owns a surviving entry makes `ownsSurvivor` true -/
theorem ownsSurvivor_true {m : σ} {b : Addr} {v : Word} (hb : b ∈ (sweep S h m).2) (hv : v ∈ h.ownsAt b)
    (hs : ((sweep S h m).1.lookup v).isSome = true) : ownsSurvivor S h m = true := by
  obtain ⟨hb1, hb2⟩ := (mem_pending S h m b).mp hb
  unfold ownsSurvivor
  rw [List.any_eq_true]
  refine ⟨b, hb1, ?_⟩
  simp only [hb2, Bool.true_and]
  rw [List.any_eq_true]
  exact ⟨v, hv, hs⟩

theorem not_swept_of_marked {m : σ} {a : Addr} (hm : S.mem a m = true) : sweeps S h m a = false := by
  cases hs : sweeps S h m a with
  | false => rfl
  | true =>
    obtain ⟨e, _, _, hmf⟩ := (sweeps_iff S h _ a).mp hs
    rw [hm] at hmf; cases hmf

/-- an entry whose bit is set when the mark phase ends survives the whole collection — mark, sweep AND release loop —
    provided no freed object owns a surviving one -/
theorem collectAll_keeps_marked (thread : Obj) (stack : List Word) (m0 : σ) (a : Addr)
    (hmk : S.mem a (gcMarkFrom S c h thread stack m0) = true)
    (hbox : boxExclusive S c h thread stack m0 = true) :
    (collectAll S c h thread stack m0).heap.lookup a = h.lookup a ∧
      a ∉ (collectAll S c h thread stack m0).pending ∧ a ∉ (collectAll S c h thread stack m0).finalised := by
  have hns := not_swept_of_marked S h hmk
  have hnp : a ∉ (collectFrom S c h thread stack m0).2 := by
    intro hp
    have := ((mem_pending S h _ a).mp hp).2
    rw [hns] at this; cases this
  have hx : ownsSurvivor S h (gcMarkFrom S c h thread stack m0) = false := by
    simpa [boxExclusive] using hbox
  obtain ⟨r1, r2⟩ := release_within_pending h (collectFrom S c h thread stack m0).1 (collectFrom S c h thread stack m0).2
    (ownsSurvivor_false S h hx)
  refine ⟨?_, hnp, fun hf => hnp (r2 a hf)⟩
  show (release h (collectFrom S c h thread stack m0).1 (collectFrom S c h thread stack m0).2).heap.lookup a = _
  rw [r1]
  simp only [collectFrom, sweep_lookup, hns]; rfl

theorem collectAll_bounded (thread : Obj) (stack : List Word) (m0 : σ) :
    (collectAll S c h thread stack m0).exhausted = false :=
  release_bounded h _ _

theorem collectAll_pending (thread : Obj) (stack : List Word) (m0 : σ) :
    (collectAll S c h thread stack m0).pending = (collectFrom S c h thread stack m0).2 := rfl

/-- what the sweep frees when the mark phase started from the bits `m0` -/
theorem collectFrom_pending_iff (wf : h.WF) (thread : Obj) (stack : List Word) (m0 : σ) (a : Addr) :
    a ∈ (collectFrom S c h thread stack m0).2 ↔
      ∃ e, h.lookup a = some e ∧ e.root = false ∧ S.mem a m0 = false ∧
        ¬ ReachableUnmarked c h (fun x => S.mem x m0) (rootWords c h thread stack) a := by
  simp only [collectFrom, mem_pending, sweeps_iff]
  constructor
  · rintro ⟨_, e, hl, hr, hm⟩
    have hn : ¬ (S.mem a (gcMarkFrom S c h thread stack m0) = true) := by rw [hm]; simp
    rw [gcMarkFrom_iff S c h wf] at hn
    refine ⟨e, hl, hr, ?_, fun hx => hn (.inr hx)⟩
    cases h0 : S.mem a m0 with
    | false => rfl
    | true => exact absurd (.inl h0) hn
  · rintro ⟨e, hl, hr, h0, hnr⟩
    refine ⟨h.complete a e hl, e, hl, hr, ?_⟩
    cases hm : S.mem a (gcMarkFrom S c h thread stack m0) with
    | false => rfl
    | true =>
      rcases (gcMarkFrom_iff S c h wf thread stack m0 a).mp hm with h1 | h1
      · rw [h0] at h1; cases h1
      · exact absurd h1 hnr

/-! ### the registry stays well formed through the release loop (entries only leave) -/

theorem remPtr_wf (fin : RState → Addr → RState) (hfin : ∀ st a, st.heap.WF → (fin st a).heap.WF)
    (st : RState) (v : Word) (hw : st.heap.WF) : (remPtr fin st v).heap.WF := by
  unfold remPtr
  split
  · exact hw
  unfold remPtrBody
  split
  · exact hfin _ v hw
  · split
    · exact hfin _ v (remove_wf hw v)
    · exact hw

theorem foldl_remPtr_wf (fin : RState → Addr → RState) (hfin : ∀ st a, st.heap.WF → (fin st a).heap.WF) :
    ∀ (vs : List Word) (st : RState), st.heap.WF → (vs.foldl (remPtr fin) st).heap.WF
  | [], _, hw => hw
  | v :: vs, st, hw => by
    simp only [List.foldl_cons]
    exact foldl_remPtr_wf fin hfin vs _ (remPtr_wf fin hfin st v hw)

theorem finaliseAt_wf (h0 : Heap) : ∀ (fuel : Nat) (st : RState) (a : Addr), st.heap.WF → (finaliseAt h0 fuel st a).heap.WF
  | 0, _, _, hw => hw
  | fuel + 1, st, a, hw => by
    unfold finaliseAt
    exact foldl_remPtr_wf _ (finaliseAt_wf h0 fuel) _ _ hw

theorem releaseLoop_wf (h0 : Heap) (fuel : Nat) : ∀ (rest : List Addr) (st : RState), st.heap.WF →
    (releaseLoop h0 fuel rest st).heap.WF
  | [], _, hw => hw
  | a :: rest, st, hw => by
    unfold releaseLoop
    split
    · exact releaseLoop_wf h0 fuel rest _ (finaliseAt_wf h0 fuel _ a hw)
    · exact releaseLoop_wf h0 fuel rest st hw

theorem collectAll_wf (wf : h.WF) (thread : Obj) (stack : List Word) (m0 : σ) :
    (collectAll S c h thread stack m0).heap.WF :=
  releaseLoop_wf h _ _ _ (sweep_wf S h wf _)

end coll

/-! ## histories with the mark bits in the state -/

section hist
variable {σ : Type} (S : MarkSet σ) (c : Cfg)

/-- the hypothesis under which the bits are clear whenever the three phases of a mark phase begin: `GC_Mark` clears them first
    (`GC_Unmark`, fix d8f0c4f: the source as it is), or no exception has left (or will leave) a mark phase -/
def CleanStart (cf : Bool) (s : GState) (ops : List GOp) : Prop :=
  cf = true ∨ (s.stale = [] ∧ ∀ op ∈ ops, op.completes = true)

theorem gstep_wf (cf : Bool) (s : GState) (op : GOp) (wf : s.heap.WF) (hok : op.ok) : (s.step S c cf op).1.heap.WF := by
  cases op with
  | base op =>
    cases op with
    | collect => exact collectAll_wf S c s.heap wf _ _ _
    | alloc a e => exact step_wf S c s.hstate (.alloc a e) wf hok
    | write a o => exact step_wf S c s.hstate (.write a o) wf hok
    | del a => exact step_wf S c s.hstate (.del a) wf hok
    | assign a b => exact step_wf S c s.hstate (.assign a b) wf hok
    | copyTo a b => exact step_wf S c s.hstate (.copyTo a b) wf hok
    | clear a => exact step_wf S c s.hstate (.clear a) wf hok
    | setThread t => exact wf
    | setStack ws => exact wf
  | raise k => exact wf
  | rehash => exact wf

theorem gstep_clean (cf : Bool) (s : GState) (op : GOp) (hc : cf = true ∨ s.stale = []) (hcomp : cf = true ∨ op.completes = true) :
    cf = true ∨ (s.step S c cf op).1.stale = [] := by
  rcases hc with hc | hc
  · exact .inl hc
  rcases hcomp with h1 | h1
  · exact .inl h1
  right
  cases op with
  | base op => cases op <;> simp [GState.step, hc]
  | raise k => cases h1
  | rehash => rfl

theorem gstep_event (cf : Bool) (s : GState) (op : GOp) (ev : GEvent) (he : (s.step S c cf op).2 = some ev) :
    ev.before = s ∧ ev.started = (if cf then [] else s.stale) ∧
      ev.pending = (collectAll S c s.heap s.thread s.stack (seed S ev.started)).pending ∧
      ev.finalised = (collectAll S c s.heap s.thread s.stack (seed S ev.started)).finalised ∧
      ev.after = (collectAll S c s.heap s.thread s.stack (seed S ev.started)).heap := by
  cases op with
  | base op =>
    cases op <;> simp only [GState.step] at he <;> cases he
    exact ⟨rfl, rfl, rfl, rfl, rfl⟩
  | raise k => simp only [GState.step] at he; cases he
  | rehash => simp only [GState.step] at he; cases he

theorem grun_events (cf : Bool) : ∀ (ops : List GOp) (s : GState), s.heap.WF → (∀ op ∈ ops, op.ok) →
    (cf = true ∨ (s.stale = [] ∧ ∀ op ∈ ops, op.completes = true)) →
    (GState.run S c cf ops s).1.heap.WF ∧
    ∀ ev ∈ (GState.run S c cf ops s).2, ev.before.heap.WF ∧ ev.started = [] ∧
      ev.pending = (collectAll S c ev.before.heap ev.before.thread ev.before.stack S.empty).pending ∧
      ev.finalised = (collectAll S c ev.before.heap ev.before.thread ev.before.stack S.empty).finalised ∧
      ev.after = (collectAll S c ev.before.heap ev.before.thread ev.before.stack S.empty).heap := by
  intro ops
  induction ops with
  | nil => intro s wf _ _; exact ⟨wf, fun ev hev => by simp [GState.run] at hev⟩
  | cons op ops ih =>
    intro s wf hok hcl
    have wf1 := gstep_wf S c cf s op wf (hok op List.mem_cons_self)
    have hst : cf = true ∨ s.stale = [] := hcl.imp id (·.1)
    have hcl1 : cf = true ∨ ((s.step S c cf op).1.stale = [] ∧ ∀ o ∈ ops, o.completes = true) := by
      rcases hcl with h1 | h1
      · exact .inl h1
      · rcases gstep_clean S c cf s op (.inr h1.1) (.inr (h1.2 op List.mem_cons_self)) with h2 | h2
        · exact .inl h2
        · exact .inr ⟨h2, fun o ho => h1.2 o (List.mem_cons_of_mem _ ho)⟩
    obtain ⟨h1, h2⟩ := ih (s.step S c cf op).1 wf1 (fun o ho => hok o (List.mem_cons_of_mem _ ho)) hcl1
    simp only [GState.run]
    refine ⟨h1, ?_⟩
    intro ev hev
    cases hs : (s.step S c cf op).2 with
    | none => rw [hs] at hev; exact h2 ev hev
    | some e0 =>
      rw [hs] at hev
      rcases List.mem_cons.mp hev with heq | hmem
      · subst heq
        obtain ⟨hb, hstart, hp, hf, ha⟩ := gstep_event S c cf s op ev hs
        have hs0 : ev.started = [] := by
          rw [hstart]
          rcases hst with h3 | h3
          · simp [h3]
          · simp [h3]
        rw [hs0] at hp hf ha
        rw [hb]
        exact ⟨wf, hs0, hp, hf, ha⟩
      · exact h2 ev hmem

end hist

end Cello.Heap
