/- helper lemmas for C11: closure of `LawfulAs` under Map, Filter, Zip and enumerate -/
import CelloProofs.Lemmas.IterRun
import CelloProofs.Lemmas.IterRange

namespace Cello.Iter

variable {α β : Type}

/-! ### Map -/

theorem map_lawfulAs (I : Iterable α) (f : α → β) {l : List α} (h : LawfulAs I l) : LawfulAs (mapI I f) (l.map f) := by
  refine ⟨?_, ?_, ?_, ?_⟩
  · intro s; exact Run.map I f (h.fwd s)
  · intro s
    have := Run.map I f (h.bwd s)
    rw [List.map_reverse] at this; exact this
  · intro n hn
    have := h.len n hn
    simp [this]
  · intro g hg i hi
    have hi' : i < l.length := by simpa using hi
    cases hIg : I.get with
    | none => simp [mapI, hIg] at hg
    | some g0 =>
      simp only [mapI, hIg, Option.some.injEq] at hg
      subst hg
      have e := h.get g0 hIg i hi'
      show Option.map f (g0 (Int.ofNat i)) = some ((l.map f)[i])
      rw [e]; simp

/-- the embedding `embI` walks, counts and indexes exactly like `mapI` (it differs only in what `get` does to the cursor) -/
theorem emb_lawfulAs (I : Iterable α) (f : α → β) {l : List α} (h : LawfulAs I l) : LawfulAs (embI I f) (l.map f) :=
  let m := map_lawfulAs I f h
  ⟨m.fwd, m.bwd, m.len, m.get⟩

/-! ### Filter -/

theorem filter_lawfulAs (I : Iterable α) (p : α → Bool) (fuel : Nat) {l : List α} (h : LawfulAs I l)
    (hf : l.length < fuel) : LawfulAs (filterI I p fuel) (l.filter p) := by
  refine ⟨?_, ?_, ?_, ?_⟩
  · intro s; exact Run.skip p I.next fuel (h.fwd s) hf fuel hf
  · intro s
    have := Run.skip p I.prev fuel (h.bwd s) (by simpa using hf) fuel (by simpa using hf)
    rw [List.filter_reverse] at this; exact this
  · intro n hn; simp [filterI] at hn
  · intro g hg; simp [filterI] at hg

/-! ### Zip -/

/-- how `zipStep` combines the result of the first input with the result of the remaining ones -/
def zcomb {I : Iterable α} {Is : List (Iterable α)} (rA : I.σ × Res α) (ss0 : ZipSt Is)
    (rB : ZipSt Is × Res (List α)) : ZipSt (I :: Is) × Res (List α) :=
  match rA with
  | (s', .item a) =>
    match rB with
    | (ss', .item as) => ((s', ss'), .item (a :: as))
    | (ss', .term) => ((s', ss'), .term)
    | (ss', .undef) => ((s', ss'), .undef)
    | (ss', .hang) => ((s', ss'), .hang)
  | (s', .term) => ((s', ss0), .term)
  | (s', .undef) => ((s', ss0), .undef)
  | (s', .hang) => ((s', ss0), .hang)

theorem zipStep_cons (f : (I : Iterable α) → I.σ → I.σ × Res α) (I : Iterable α) (Is : List (Iterable α))
    (s : I.σ) (ss : ZipSt Is) :
    zipStep f (I :: Is) (s, ss) = zcomb (f I s) ss (zipStep f Is ss) := by
  simp only [zipStep, zcomb]
  rcases f I s with ⟨s', r⟩
  cases r with
  | item a =>
    rcases zipStep f Is ss with ⟨ss', r2⟩
    cases r2 <;> rfl
  | term => rfl
  | undef => rfl
  | hang => rfl

theorem zip_prod (g : (I : Iterable α) → I.σ → I.σ × Res α) (I : Iterable α) (Is : List (Iterable α))
    {rA : I.σ × Res α} {l : List α} (hA : Run (g I) rA l) :
    ∀ (ss0 : ZipSt Is) {rB : ZipSt Is × Res (List α)} {L : List (List α)}, Run (zipStep g Is) rB L →
      Run (zipStep g (I :: Is)) (zcomb rA ss0 rB) (List.zipWith (fun a as => a :: as) l L) := by
  induction hA with
  | term s => intro ss0 rB L _; simp only [zcomb, List.zipWith_nil_left]; exact Run.term _
  | item s a l _ ih =>
    intro ss0 rB L hB
    cases hB with
    | term ssb => simp only [zcomb, List.zipWith_nil_right]; exact Run.term _
    | item ssb as L' hB' =>
      simp only [zcomb, List.zipWith_cons_cons]
      refine Run.item _ _ _ ?_
      rw [zipStep_cons]
      exact ih ssb hB'

theorem zip_single (g : (I : Iterable α) → I.σ → I.σ × Res α) (I : Iterable α)
    {rA : I.σ × Res α} {l : List α} (hA : Run (g I) rA l) (u : ZipSt ([] : List (Iterable α))) :
    Run (zipStep g [I]) (zcomb (Is := []) rA u (u, .item [])) (l.map (fun a => [a])) := by
  induction hA with
  | term s => simp only [zcomb, List.map_nil]; exact Run.term _
  | item s a l _ ih =>
    simp only [zcomb, List.map_cons]
    refine Run.item _ _ _ ?_
    rw [zipStep_cons]
    exact ih

/-- lock-step walk: if every input walks its list from the result `f` gives, the zipped walk yields the tuples up to
    the shortest -/
theorem zipStep_runs (f g : (I : Iterable α) → I.σ → I.σ × Res α) :
    ∀ (Is : List (Iterable α)) (ls : List (List α)),
      All₂ (fun I l => ∀ s, Run (g I) (f I s) l) Is ls → Is ≠ [] →
      ∀ ss : ZipSt Is, Run (zipStep g Is) (zipStep f Is ss) (zipLists ls) := by
  intro Is ls h
  induction h with
  | nil => intro hne; exact absurd rfl hne
  | @cons I l Is' ls' hI hrest ih =>
    intro _ ss
    obtain ⟨s, ss'⟩ := ss
    cases hrest with
    | nil =>
      rw [zipStep_cons]
      exact zip_single g I (hI s) ss'
    | @cons J l' Js ls'' hJ hrest' =>
      rw [zipStep_cons]
      have hB := ih (by simp) ss'
      exact zip_prod g I (J :: Js) (hI s) ss' hB

theorem zipI_wrap_next (Is : List (Iterable α)) (hne : Is ≠ []) {r : ZipSt Is × Res (List α)} {L : List (List α)}
    (h : Run (zipStep (fun I => I.next) Is) r L) : Run (zipI Is).next ((!r.2.isItem, r.1), r.2) L := by
  have hl : ¬ (Is.length = 0) := by
    intro e; exact hne (List.length_eq_zero_iff.mp e)
  induction h with
  | term s => exact Run.term _
  | item s a L _ ih =>
    refine Run.item _ _ _ ?_
    simpa [zipI, hl, Res.isItem] using ih

theorem zipI_wrap_prev (Is : List (Iterable α)) (hne : Is ≠ []) {r : ZipSt Is × Res (List α)} {L : List (List α)}
    (h : Run (zipStep (fun I => I.prev) Is) r L) : Run (zipI Is).prev ((!r.2.isItem, r.1), r.2) L := by
  have hl : ¬ (Is.length = 0) := by
    intro e; exact hne (List.length_eq_zero_iff.mp e)
  induction h with
  | term s => exact Run.term _
  | item s a L _ ih =>
    refine Run.item _ _ _ ?_
    simpa [zipI, hl, Res.isItem] using ih

theorem zip_fwdAs (Is : List (Iterable α)) (ls : List (List α)) (hne : Is ≠ [])
    (h : All₂ (fun I l => FwdAs I l) Is ls) : FwdAs (zipI Is) (zipLists ls) := by
  intro s
  have hl : ¬ (Is.length = 0) := by
    intro e; exact hne (List.length_eq_zero_iff.mp e)
  have := zipI_wrap_next Is hne (zipStep_runs (fun I => I.init) (fun I => I.next) Is ls h hne s.2)
  simpa [zipI, hl] using this

theorem zipLists_length (n : Nat) : ∀ (ls : List (List α)), ls ≠ [] → (∀ l ∈ ls, l.length = n) →
    (zipLists ls).length = n := by
  intro ls
  induction ls with
  | nil => intro h; exact absurd rfl h
  | cons l ls ih =>
    intro _ hall
    cases ls with
    | nil => simp [zipLists, hall l (by simp)]
    | cons l' ls' =>
      have := ih (by simp) (fun x hx => hall x (by simp [hx]))
      simp only [zipLists, List.length_zipWith, this, hall l (by simp)]
      omega

theorem zipLists_reverse (n : Nat) : ∀ (ls : List (List α)), (∀ l ∈ ls, l.length = n) →
    zipLists (ls.map List.reverse) = (zipLists ls).reverse := by
  intro ls
  induction ls with
  | nil => intro _; rfl
  | cons l ls ih =>
    intro hall
    cases ls with
    | nil => simp [zipLists]
    | cons l' ls' =>
      have hall' : ∀ x ∈ l' :: ls', x.length = n := fun x hx => hall x (by simp [hx])
      have e := ih hall'
      have hlen := zipLists_length n (l' :: ls') (by simp) hall'
      simp only [List.map_cons] at e ⊢
      simp only [zipLists]
      rw [e, List.reverse_zipWith]
      rw [hlen, hall l (by simp)]

theorem forall2_bwd_reverse : ∀ (Is : List (Iterable α)) (ls : List (List α)),
    All₂ (fun I l => BwdAs I l) Is ls →
    All₂ (fun (I : Iterable α) l => ∀ s, Run I.prev (I.last s) l) Is (ls.map List.reverse) := by
  intro Is ls h
  induction h with
  | nil => exact All₂.nil
  | cons hI _ ih => exact All₂.cons hI ih

theorem zip_bwdAs (Is : List (Iterable α)) (ls : List (List α)) (hne : Is ≠ []) (n : Nat)
    (hlen : ∀ l ∈ ls, l.length = n)
    (h : All₂ (fun I l => BwdAs I l) Is ls) : BwdAs (zipI Is) (zipLists ls) := by
  intro s
  have hl : ¬ (Is.length = 0) := by
    intro e; exact hne (List.length_eq_zero_iff.mp e)
  have h' := forall2_bwd_reverse Is ls h
  have hr := zipStep_runs (fun I => I.last) (fun I => I.prev) Is (ls.map List.reverse) h' hne s.2
  rw [zipLists_reverse n ls hlen] at hr
  have := zipI_wrap_prev Is hne hr
  simpa [zipI, hl] using this

theorem All₂.imp {γ δ : Type _} {R S : γ → δ → Prop} (hRS : ∀ a b, R a b → S a b) :
    ∀ {as : List γ} {bs : List δ}, All₂ R as bs → All₂ S as bs := by
  intro as bs h
  induction h with
  | nil => exact All₂.nil
  | cons hab _ ih => exact All₂.cons (hRS _ _ hab) ih

theorem All₂.length_eq {γ δ : Type _} {R : γ → δ → Prop} {as : List γ} {bs : List δ} (h : All₂ R as bs) :
    as.length = bs.length := by
  induction h with
  | nil => rfl
  | cons _ _ ih => simp [ih]

theorem zip_len : ∀ (Is : List (Iterable α)) (ls : List (List α)),
    All₂ (fun I l => ∀ n, I.len = some n → n = l.length) Is ls →
    ∀ m, zipLen Is = some m → m = (zipLists ls).length := by
  intro Is ls h
  induction h with
  | nil => intro m hm; simp [zipLen] at hm; simp [zipLists, hm]
  | @cons I l Is' ls' hI hrest ih =>
    intro m hm
    cases hrest with
    | nil =>
      simp only [zipLen] at hm
      simp [zipLists, hI m hm]
    | @cons J l' Js ls'' hJ hrest' =>
      simp only [zipLen] at hm
      cases ha : I.len with
      | none => simp [ha] at hm
      | some a =>
        cases hb : zipLen (J :: Js) with
        | none => simp [ha, hb] at hm
        | some b =>
          simp only [ha, hb, Option.some.injEq] at hm
          have e1 := hI a ha
          have e2 := ih b hb
          simp only [zipLists, List.length_zipWith]
          omega

/-- the `i`-th element of every list -/
def column : List (List α) → Nat → Option (List α)
  | [], _ => some []
  | l :: ls, i => match l[i]?, column ls i with
    | some a, some as => some (a :: as)
    | _, _ => none

theorem zip_get_column : ∀ (Is : List (Iterable α)) (ls : List (List α)),
    All₂ (fun I l => ∀ g, I.get = some g → ∀ i (h : i < l.length), g (Int.ofNat i) = some l[i]) Is ls →
    ∀ G, zipGet Is = some G → ∀ i, (∀ l ∈ ls, i < l.length) → G (Int.ofNat i) = column ls i := by
  intro Is ls h
  induction h with
  | nil => intro G hG i _; simp only [zipGet, Option.some.injEq] at hG; subst hG; rfl
  | @cons I l Is' ls' hI _ ih =>
    intro G hG i hi
    simp only [zipGet] at hG
    cases hg : I.get with
    | none => simp [hg] at hG
    | some g =>
      cases hgs : zipGet Is' with
      | none => simp [hg, hgs] at hG
      | some gs =>
        simp only [hg, hgs, Option.some.injEq] at hG
        subst hG
        have hil : i < l.length := hi l (by simp)
        have e1 := hI g hg i hil
        have e2 := ih gs hgs i (fun x hx => hi x (by simp [hx]))
        simp only [e1, e2, column, List.getElem?_eq_getElem hil]
        cases column ls' i <;> rfl

theorem column_zipLists : ∀ (ls : List (List α)), ls ≠ [] → ∀ i (h : i < (zipLists ls).length),
    column ls i = some (zipLists ls)[i] ∧ ∀ l ∈ ls, i < l.length := by
  intro ls
  induction ls with
  | nil => intro h; exact absurd rfl h
  | cons l ls ih =>
    intro _ i hi
    cases ls with
    | nil =>
      have hil : i < l.length := by simpa [zipLists] using hi
      constructor
      · simp [column, zipLists, List.getElem?_eq_getElem hil]
      · intro x hx; simp at hx; subst hx; exact hil
    | cons l' ls' =>
      have hi' : i < l.length ∧ i < (zipLists (l' :: ls')).length := by
        simp only [zipLists, List.length_zipWith] at hi
        omega
      obtain ⟨e, hall⟩ := ih (by simp) i hi'.2
      constructor
      · simp only [column] at e ⊢
        simp only [e, List.getElem?_eq_getElem hi'.1, zipLists, List.getElem_zipWith]
      · intro x hx
        simp only [List.mem_cons] at hx
        rcases hx with rfl | hx
        · exact hi'.1
        · exact hall x (by simp only [List.mem_cons]; exact hx)

/-- Zip of lawful inputs: forward walk, len and get are right for inputs of ANY lengths -/
theorem zip_forward (Is : List (Iterable α)) (ls : List (List α)) (hne : Is ≠ [])
    (h : All₂ (fun I l => LawfulAs I l) Is ls) :
    FwdAs (zipI Is) (zipLists ls) ∧ (∀ n, (zipI Is).len = some n → n = (zipLists ls).length) ∧
    (∀ g, (zipI Is).get = some g → ∀ i (hi : i < (zipLists ls).length), g (Int.ofNat i) = some (zipLists ls)[i]) := by
  have hls : ls ≠ [] := by
    intro e; have := h.length_eq; rw [e] at this
    exact hne (List.length_eq_zero_iff.mp (by simpa using this))
  refine ⟨zip_fwdAs Is ls hne (h.imp fun _ _ x => x.fwd), ?_, ?_⟩
  · exact zip_len Is ls (h.imp fun _ _ x => x.len)
  · intro g hg i hi
    obtain ⟨e, hall⟩ := column_zipLists ls hls i hi
    rw [← e]
    exact zip_get_column Is ls (h.imp fun _ _ x => x.get) g hg i hall

/-- … and the backward walk too when the inputs have equal lengths -/
theorem zip_lawfulAs (Is : List (Iterable α)) (ls : List (List α)) (hne : Is ≠ []) (n : Nat)
    (hlen : ∀ l ∈ ls, l.length = n) (h : All₂ (fun I l => LawfulAs I l) Is ls) :
    LawfulAs (zipI Is) (zipLists ls) := by
  obtain ⟨hf, hl, hg⟩ := zip_forward Is ls hne h
  exact ⟨hf, zip_bwdAs Is ls hne n hlen (h.imp fun _ _ x => x.bwd), hl, hg⟩

/-! ### enumerate -/

theorem rangeLen_count (n : Nat) : rangeLen 0 n 1 = n := by
  unfold rangeLen
  by_cases h : (n : Int) ≤ 0
  · simp; omega
  · simp [Int.tdiv_one]; omega

theorem rangeList_count (n : Nat) : rangeList 0 n 1 = (List.range n).map (fun (j : Nat) => (j : Int)) := by
  simp [rangeList, rangeLen_count]

theorem enum_lawfulAs (I : Iterable α) (inj : Int → α) {l : List α} (h : LawfulAs I l) :
    LawfulAs (enumI I l.length inj) (zipLists [(List.range l.length).map (fun (j : Nat) => inj (j : Int)), l]) := by
  have hr := emb_lawfulAs (rangeI 0 l.length 1) inj (range_lawfulAs 0 l.length 1)
  rw [rangeList_count, List.map_map] at hr
  refine zip_lawfulAs _ _ (by simp) l.length ?_ (All₂.cons hr (All₂.cons h All₂.nil))
  intro x hx
  simp only [List.mem_cons, List.not_mem_nil, or_false] at hx
  rcases hx with rfl | rfl <;> simp

end Cello.Iter
