/-
  C13 helper: increments of a plain counter made inside sections of one Mutex are never lost.
  The non-atomic `counter++` is two events, `ld` (reg := counter) and `st` (counter := reg + 1).
-/
import CelloProofs.Lemmas.Thr

namespace Cello.Thr

/-- number of completed increments of counter `c` in a trace -/
def incs (c : Nat) : List (Ev × Out) → Nat
  | [] => 0
  | (.st _ c', .num _) :: tr => (if c' = c then 1 else 0) + incs c tr
  | (.winc _ _ c', .num _) :: tr => (if c' = c then 1 else 0) + incs c tr
  | _ :: tr => incs c tr

/-- the locking discipline for counter `c` guarded by Mutex `m`, checked at event `e` in state `g`
    (`pend t`: thread `t` has loaded `c` and not yet stored it):
    a load or store of `c` is made by the holder of `m`, a store completes a load, a `with`-increment of `c` uses `m`,
    the holder does not release `m` between its load and its store, and does not reuse its register meanwhile -/
def discOk (m c : Nat) (g : G) (pend : Tid → Bool) : Ev → Prop
  | .ld t c' => running g t = true → if c' = c then g.holder m = some t else pend t = false
  | .st t c' => running g t = true → c' = c → (g.holder m = some t ∧ pend t = true)
  | .winc t m' c' => running g t = true → g.holder m' = none → if c' = c then m' = m else pend t = false
  | .unlock t m' => running g t = true → m' = m → g.holder m = some t → pend t = false
  | _ => True

def pendNext (c : Nat) (g : G) (pend : Tid → Bool) : Ev → (Tid → Bool)
  | .ld t c' => if running g t = true ∧ c' = c then upd pend t true else pend
  | .st t c' => if running g t = true ∧ c' = c then upd pend t false else pend
  | _ => pend

/-- the whole schedule keeps the discipline -/
def Disc (cfg : Cfg) (m c : Nat) : List Ev → G → (Tid → Bool) → Prop
  | [], _, _ => True
  | e :: s, g, pend => discOk m c g pend e ∧ Disc cfg m c s (step cfg g e).1 (pendNext c g pend e)

/-- a thread with a pending load holds the Mutex and its register is the current counter value -/
def CInv (m c : Nat) (g : G) (pend : Tid → Bool) : Prop :=
  ∀ t, pend t = true → g.holder m = some t ∧ g.reg t = g.counter c

theorem incs_cons (c : Nat) (x : Ev × Out) (tr : List (Ev × Out)) : incs c (x :: tr) = incs c [x] + incs c tr := by
  rcases x with ⟨e, o⟩
  cases e <;> cases o <;> simp [incs]

theorem step_counter (cfg : Cfg) (m c : Nat) (g : G) (pend : Tid → Bool) (e : Ev)
    (hI : CInv m c g pend) (hd : discOk m c g pend e) :
    CInv m c (step cfg g e).1 (pendNext c g pend e) ∧
    (step cfg g e).1.counter c = g.counter c + incs c [(e, (step cfg g e).2)] := by
  cases e with
  | loc t op => rw [step_loc]; split <;> exact ⟨hI, by simp [incs]⟩
  | spawn t v =>
    have hr := step_spawn_rest cfg g t v
    refine ⟨?_, ?_⟩
    · intro t' hp
      have := hI t' hp
      rw [hr.2.1, hr.2.2.2.1, hr.2.2.1]
      exact this
    · rw [hr.2.2.1]
      generalize (step cfg g (.spawn t v)).2 = o
      cases o <;> simp [incs]
  | join t u =>
    simp only [step]
    repeat' split
    all_goals exact ⟨hI, by simp [incs]⟩
  | bind t u =>
    simp only [step]
    repeat' split
    all_goals exact ⟨hI, by simp [incs]⟩
  | rdo t u =>
    simp only [step]
    repeat' split
    all_goals exact ⟨hI, by simp [incs]⟩
  | arg t u os =>
    simp only [step]
    repeat' split
    all_goals exact ⟨hI, by simp [incs]⟩
  | rdarg t i =>
    simp only [step]
    repeat' split
    all_goals exact ⟨hI, by simp [incs]⟩
  | rd t u => simp only [step]; split <;> exact ⟨hI, by simp [incs]⟩
  | lock t m' =>
    simp only [step]
    split
    · exact ⟨hI, by simp [incs]⟩
    · split
      · rename_i hh
        refine ⟨?_, by simp [incs]⟩
        intro t' hp
        have := hI t' hp
        by_cases hm : m = m'
        · subst hm; rw [hh] at this; cases this.1
        · simp only [pendNext] at hp ⊢
          simpa [upd, hm] using this
      · exact ⟨hI, by simp [incs]⟩
  | trylock t m' =>
    simp only [step]
    split
    · exact ⟨hI, by simp [incs]⟩
    · split
      · rename_i hh
        refine ⟨?_, by simp [incs]⟩
        intro t' hp
        have := hI t' hp
        by_cases hm : m = m'
        · subst hm; rw [hh] at this; cases this.1
        · simpa [upd, hm] using this
      · exact ⟨hI, by simp [incs]⟩
  | unlock t m' =>
    simp only [step]
    split
    · exact ⟨hI, by simp [incs]⟩
    · rename_i hrun
      have hrun' : running g t = true := by simpa using hrun
      split
      · rename_i hh
        refine ⟨?_, by simp [incs]⟩
        intro t' hp
        have h' := hI t' hp
        by_cases hm : m = m'
        · subst hm
          have hpt := hd hrun' rfl hh
          rw [hh] at h'
          have : t = t' := Option.some.inj h'.1
          subst this
          simp only [pendNext] at hp
          rw [hpt] at hp; cases hp
        · simpa [upd, hm] using h'
      · exact ⟨hI, by simp [incs]⟩
  | winc t m' c' =>
    simp only [step]
    split
    · exact ⟨hI, by simp [incs]⟩
    · rename_i hrun
      have hrun' : running g t = true := by simpa using hrun
      split
      · rename_i hh
        have hd' := hd hrun' hh
        by_cases hc : c' = c
        · subst hc
          simp only [if_true] at hd'
          subst hd'
          refine ⟨?_, by simp [incs, upd]⟩
          intro t' hp
          have := hI t' hp
          rw [hh] at this; cases this.1
        · simp only [hc, if_false] at hd'
          have hc' : ¬ c = c' := fun h => hc h.symm
          refine ⟨?_, by simp [incs, upd, hc, hc']⟩
          intro t' hp
          have := hI t' hp
          simp only [pendNext] at hp
          by_cases htt : t' = t
          · subst htt; rw [hd'] at hp; cases hp
          · simpa [upd, htt, hc'] using this
      · exact ⟨hI, by simp [incs]⟩
  | ld t c' =>
    simp only [step]
    split
    · rename_i hrun
      have : ¬ (running g t = true) := by simpa using hrun
      exact ⟨by simpa [pendNext, this] using hI, by simp [incs]⟩
    · rename_i hrun
      have hrun' : running g t = true := by simpa using hrun
      have hd' := hd hrun'
      refine ⟨?_, by simp [incs]⟩
      by_cases hc : c' = c
      · subst hc
        simp only [if_true] at hd'
        intro t' hp
        simp only [pendNext, hrun', and_self, if_true] at hp
        by_cases htt : t' = t
        · subst htt; exact ⟨hd', by simp [upd]⟩
        · have hp' : pend t' = true := by simpa [upd, htt] using hp
          have := hI t' hp'
          rw [hd'] at this
          exact absurd (Option.some.inj this.1).symm htt
      · simp only [hc, if_false] at hd'
        intro t' hp
        simp only [pendNext, hc, and_false, if_false] at hp
        have := hI t' hp
        by_cases htt : t' = t
        · subst htt; rw [hd'] at hp; cases hp
        · simpa [upd, htt] using this
  | st t c' =>
    simp only [step]
    split
    · rename_i hrun
      have : ¬ (running g t = true) := by simpa using hrun
      exact ⟨by simpa [pendNext, this] using hI, by simp [incs]⟩
    · rename_i hrun
      have hrun' : running g t = true := by simpa using hrun
      by_cases hc : c' = c
      · subst hc
        obtain ⟨hh, hp⟩ := hd hrun' rfl
        have hreg := (hI t hp).2
        refine ⟨?_, by simp [incs, upd, hreg]⟩
        intro t' hp'
        simp only [pendNext, hrun', and_self, if_true] at hp'
        by_cases htt : t' = t
        · subst htt; simp [upd] at hp'
        · have hp'' : pend t' = true := by simpa [upd, htt] using hp'
          have := hI t' hp''
          rw [hh] at this
          exact absurd (Option.some.inj this.1).symm htt
      · have hc' : ¬ c = c' := fun h => hc h.symm
        refine ⟨?_, by simp [incs, upd, hc, hc']⟩
        intro t' hp'
        simp only [pendNext, hc, and_false, if_false] at hp'
        simpa [upd, hc'] using hI t' hp'

theorem run_counter (cfg : Cfg) (m c : Nat) (s : List Ev) : ∀ (g : G) (pend : Tid → Bool),
    CInv m c g pend → Disc cfg m c s g pend →
    (run cfg s g).1.counter c = g.counter c + incs c (run cfg s g).2 := by
  induction s with
  | nil => intro g pend _ _; simp [run_nil, incs]
  | cons e s ih =>
    intro g pend hI hD
    obtain ⟨hd, hD'⟩ := hD
    have hs := step_counter cfg m c g pend e hI hd
    rw [run_cons]
    simp only []
    have h2 := incs_cons c (e, (step cfg g e).2) (run cfg s (step cfg g e).1).2
    rw [ih _ _ hs.1 hD', hs.2, h2]
    omega


instance discOkDec (m c : Nat) (g : G) (pend : Tid → Bool) (e : Ev) : Decidable (discOk m c g pend e) := by
  cases e <;> simp only [discOk] <;> infer_instance

instance discDec (cfg : Cfg) (m c : Nat) : ∀ (s : List Ev) (g : G) (pend : Tid → Bool), Decidable (Disc cfg m c s g pend)
  | [], _, _ => isTrue trivial
  | e :: s, g, pend =>
    have := discDec cfg m c s (step cfg g e).1 (pendNext c g pend e)
    by simp only [Disc]; infer_instance

end Cello.Thr
