/-
  C14: the configuration of the scanner as it is in /repo now (CelloGen/Fmt.lean, regenerated on every run).
-/
import Cello.Fmt
import CelloGen.Fmt

namespace Cello.Fmt

/-- scan set and dispatch of `print_to_with` as read from src/Show.c -/
def cfgNow : Cfg := Cfg.ofGen CelloGen.Fmt.printConv CelloGen.Fmt.printDispatch

/-- the formats of the built-in Show instances as read from Num.c, String.c, Array.c, Tuple.c, List.c -/
def showNow : ShowCfg :=
  { intFmt := CelloGen.Fmt.intShowFmt, fltFmt := CelloGen.Fmt.floatShowFmt
    strOpen := CelloGen.Fmt.strShowOpen, strClose := CelloGen.Fmt.strShowClose
    strDefault := CelloGen.Fmt.strShowDefault, strEsc := CelloGen.Fmt.strShowEsc
    arrOpen := CelloGen.Fmt.arrayShowOpen, arrSep := CelloGen.Fmt.arrayShowSep, arrClose := CelloGen.Fmt.arrayShowClose
    tupOpen := CelloGen.Fmt.tupleShowOpen, tupSep := CelloGen.Fmt.tupleShowSep, tupClose := CelloGen.Fmt.tupleShowClose
    lstOpen := CelloGen.Fmt.listShowOpen, lstSep := CelloGen.Fmt.listShowSep, lstClose := CelloGen.Fmt.listShowClose
    tblOpen := CelloGen.Fmt.tableShowOpen, tblPair := CelloGen.Fmt.tableShowPair, tblSep := CelloGen.Fmt.tableShowSep, tblClose := CelloGen.Fmt.tableShowClose
    treOpen := CelloGen.Fmt.treeShowOpen, trePair := CelloGen.Fmt.treeShowPair, treSep := CelloGen.Fmt.treeShowSep, treClose := CelloGen.Fmt.treeShowClose
    rngOpen := CelloGen.Fmt.rangeShowOpen, rngItem := CelloGen.Fmt.rangeShowItem, rngSep := CelloGen.Fmt.rangeShowSep, rngClose := CelloGen.Fmt.rangeShowClose
    slcOpen := CelloGen.Fmt.sliceShowOpen, slcSep := CelloGen.Fmt.sliceShowSep, slcClose := CelloGen.Fmt.sliceShowClose
    boxFmt := CelloGen.Fmt.boxShowFmt, nullFmt := CelloGen.Fmt.nullShowFmt, defaultFmt := CelloGen.Fmt.defaultShowFmt
    typeOff := CelloGen.Fmt.typeShowReturnsOffset }

/-- the OLD variant of the Show instances: `Type_Show` BEFORE fix 0046a69, `return format_to(output, pos, "%s", Type_Builtin_Name(self));`
    — the number of characters written instead of the new position (kept for the regression witness corpus/fmt_fixed_type_show.ops) -/
def showOld : ShowCfg := { showNow with typeOff := true }

/-- the kinds of the dispatch `if`s that fire for conversion character `c`, in source order -/
def firing (cfg : Cfg) (c : Char) : List Kind := (cfg.disp.filter fun mk => mk.1.hit c).map (·.2)

/-- all conversion characters of the property's grammar -/
def grammarConvs : Str := intConvs ++ fltConvs ++ ['c', 's', 'p', '$']

/-- the statements of `String_Format_To` as read from src/String.c -/
def stepsNow : List SStep := CelloGen.Fmt.stringFormatToSteps.map SStep.ofCode

/-- one `format_to` call with the code that is in /repo now, for any libc -/
def primNow (libc : Libc) : Prim := { toLibc := libc, strSteps := stepsNow }

/-- `String_Format_To` BEFORE fix a626877: no `if (size < 0) { return size; }` between the measuring `vsnprintf` and the `realloc` -/
def stepsOld : List SStep := [.measure, .allocCheck, .realloc, .memCheck, .write]

/-- the OLD variant of one `format_to` call (kept for the regression witness corpus/fmt_fixed_libc_reject.ops) -/
def primOld (libc : Libc) : Prim := { toLibc := libc, strSteps := stepsOld }

/-- a test "libc" for examples: literals verbatim, `%%` → `%`, a value as a tag; it rejects `%lc` with a value the "C"
    locale cannot encode (outside 0 … 127) and nothing else -/
def libcTest : Libc where
  text
    | f, .none => if f = ['%', '%'] then ['%'] else f
    | _, .cstr s => s
    | _, .i64 v => if v < 0 then ['-', 'n'] else ['n']
    | _, .dbl _ => ['f']
    | _, .ptr => ['p']
  rej
    | f, .i64 v => decide (f = ['%', 'l', 'c'] ∧ (v < 0 ∨ 127 < v))
    | _, _ => false

def primTest : Prim := primNow libcTest

/-- the OLD variant of `Range_Show` (BEFORE fix 78c2117): each value printed with `"%i"` — libc reads an `int` from the `int64_t` that
    `c_int` yields, so values beyond 32 bits came out truncated (kept for the regression witness corpus/fmt_fixed_range_show.ops) -/
def showOldRange : ShowCfg := { showNow with rngItem := ['%', 'i'] }

/-- the low 32 bits of `v` read as a signed `int` (what `%d` / `%i` without a length modifier print of an `int64_t` vararg) -/
def wrap32 (v : Int) : Int := (v + 2147483648) % 4294967296 - 2147483648

/-- a test "libc" that is sensitive to the WIDTH an integer conversion reads: with `l` (as in `"%li"`) the tag of the 64-bit value, without
    (as in `"%i"`) the tag of its low 32 bits; everything else as `libcTest` -/
def libcWidth : Libc where
  text
    | f, .i64 v => let w := if 'l' ∈ f then v else wrap32 v
                   if w < 0 then ['-', 'n'] else ['n']
    | f, v => libcTest.text f v
  rej := libcTest.rej

def primWidth : Prim := primNow libcWidth

end Cello.Fmt
