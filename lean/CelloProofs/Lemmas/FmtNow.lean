/-
  C14: the configuration of the scanner as it is in /repo now (CelloGen/Fmt.lean, regenerated on every run).
-/
import Cello.Fmt
import CelloGen.Fmt

namespace Cello.Fmt

/-- scan set and dispatch of `print_to_with` as read from src/Show.c -/
def cfgNow : Cfg := Cfg.ofGen CelloGen.Fmt.printConv CelloGen.Fmt.printDispatch

/-- the formats of the built-in Show instances as read from Num.c, String.c, Array.c, Tuple.c, List.c -/
def showNow : ShowCfg :=
  { intFmt := CelloGen.Fmt.intShowFmt, fltFmt := CelloGen.Fmt.floatShowFmt
    strOpen := CelloGen.Fmt.strShowOpen, strClose := CelloGen.Fmt.strShowClose
    strDefault := CelloGen.Fmt.strShowDefault, strEsc := CelloGen.Fmt.strShowEsc
    arrOpen := CelloGen.Fmt.arrayShowOpen, arrSep := CelloGen.Fmt.arrayShowSep, arrClose := CelloGen.Fmt.arrayShowClose
    tupOpen := CelloGen.Fmt.tupleShowOpen, tupSep := CelloGen.Fmt.tupleShowSep, tupClose := CelloGen.Fmt.tupleShowClose
    lstOpen := CelloGen.Fmt.listShowOpen, lstSep := CelloGen.Fmt.listShowSep, lstClose := CelloGen.Fmt.listShowClose }

/-- the kinds of the dispatch `if`s that fire for conversion character `c`, in source order -/
def firing (cfg : Cfg) (c : Char) : List Kind := (cfg.disp.filter fun mk => mk.1.hit c).map (·.2)

/-- all conversion characters of the property's grammar -/
def grammarConvs : Str := intConvs ++ fltConvs ++ ['c', 's', 'p', '$']

/-- a test "libc" for examples: literals verbatim, `%%` → `%`, a value as a tag -/
def primTest : Str → PVal → Str
  | f, .none => if f = ['%', '%'] then ['%'] else f
  | _, .cstr s => s
  | _, .i64 v => if v < 0 then ['-', 'n'] else ['n']
  | _, .dbl _ => ['f']
  | _, .ptr => ['p']

end Cello.Fmt
