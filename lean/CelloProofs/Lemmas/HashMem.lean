/-
  Lemmas for C10 (extension round): `hash_data` as a program over addressable memory (`hashDataMem`: cursor, `end`, the
  `while (d != end)` loop, loads of `loadWidth` bytes, `d[idx]` in the tail switch, the signedness of `d`'s element type — all read
  from the source) computes `hashData` of the bytes at the given address; and the container hashes run as the extracted programs
  (`seqHashSrc`, `mapHashSrc`) are the folds `seqHash` / `mapHash` the C10 theorems are stated about.
-/
import Cello.Hash
import CelloProofs.Lemmas.HashMurmur
set_option linter.unusedSimpArgs false

namespace Cello.Hash
open CelloGen.Hash

/-! ## bytes at an address -/

theorem length_loadBytes (mem : Mem) : ∀ (n p : Nat), (loadBytes mem p n).length = n := by
  intro n
  induction n with
  | zero => intro p; rfl
  | succ n ih => intro p; simp [loadBytes, ih]

theorem loadBytes_take (mem : Mem) : ∀ (a b p : Nat), (loadBytes mem p (a + b)).take a = loadBytes mem p a := by
  intro a
  induction a with
  | zero => intro b p; simp [loadBytes]
  | succ a ih =>
    intro b p
    have : a + 1 + b = (a + b) + 1 := by omega
    rw [this]; simp [loadBytes, ih]

theorem loadBytes_drop (mem : Mem) : ∀ (a b p : Nat), (loadBytes mem p (a + b)).drop a = loadBytes mem (p + a) b := by
  intro a
  induction a with
  | zero => intro b p; simp
  | succ a ih =>
    intro b p
    have : a + 1 + b = (a + b) + 1 := by omega
    rw [this]; simp only [loadBytes, List.drop_succ_cons]
    rw [ih]; congr 1; omega

theorem getD_loadBytes (mem : Mem) : ∀ (n p i : Nat), i < n → (loadBytes mem p n).getD i 0 = mem (p + i) := by
  intro n
  induction n with
  | zero => intro p i h; omega
  | succ n ih =>
    intro p i h
    cases i with
    | zero => simp [loadBytes]
    | succ i =>
      have := ih (p + 1) i (by omega)
      simp only [loadBytes, List.getD_cons_succ]
      rw [this]; congr 1; omega

/-- the bytes at an address are a function of the memory cells in the window only -/
theorem loadBytes_congr (mem mem' : Mem) : ∀ (n p p' : Nat), (∀ i, i < n → mem (p + i) = mem' (p' + i)) →
    loadBytes mem p n = loadBytes mem' p' n := by
  intro n
  induction n with
  | zero => intro p p' _; rfl
  | succ n ih =>
    intro p p' h
    simp only [loadBytes]
    have h0 := h 0 (by omega)
    simp only [Nat.add_zero] at h0
    rw [h0, ih (p + 1) (p' + 1)]
    intro i hi
    have := h (i + 1) (by omega)
    have e1 : p + 1 + i = p + (i + 1) := by omega
    have e2 : p' + 1 + i = p' + (i + 1) := by omega
    rw [e1, e2]; exact this

theorem loadBytes_of_getD (mem : Mem) (fill : UInt8) : ∀ (bs : Bytes) (p : Nat), (∀ i, i < bs.length → mem (p + i) = bs.getD i fill) →
    loadBytes mem p bs.length = bs := by
  intro bs
  induction bs with
  | nil => intro p _; rfl
  | cons b bs ih =>
    intro p h
    have h0 := h 0 (by simp)
    simp only [Nat.add_zero, List.getD_cons_zero] at h0
    simp only [List.length_cons, loadBytes, h0]
    rw [ih (p + 1)]
    intro i hi
    have := h (i + 1) (by simp; omega)
    have e1 : p + 1 + i = p + (i + 1) := by omega
    rw [e1, this, List.getD_cons_succ]

theorem loadBytes_memOf (fill : UInt8) (p : Nat) (bs : Bytes) : loadBytes (memOf fill p bs) p bs.length = bs := by
  apply loadBytes_of_getD _ fill
  intro i hi
  simp [memOf, hi]

/-! ## the block loop -/

/-- with an 8-byte load and an 8-byte step the cursor loop is the counted loop over the byte string -/
theorem memBlockLoop_eq (f : UInt64 → UInt64 → UInt64) (mem : Mem) (r : Nat) :
    ∀ (k fuel d : Nat) (h : UInt64), k < fuel →
      memBlockLoop f mem 8 8 (d + 8 * k) fuel d h = some (d + 8 * k, blockLoop f k h (loadBytes mem d (8 * k + r))) := by
  intro k
  induction k with
  | zero =>
    intro fuel d h hf
    cases fuel with
    | zero => omega
    | succ fuel => simp [memBlockLoop, blockLoop]
  | succ k ih =>
    intro fuel d h hf
    cases fuel with
    | zero => omega
    | succ fuel =>
      have hne : ¬ (d = d + 8 * (k + 1)) := by omega
      have he : d + 8 * (k + 1) = (d + 8) + 8 * k := by omega
      have hl : 8 * (k + 1) + r = 8 + (8 * k + r) := by omega
      simp only [memBlockLoop, hne, if_false]
      rw [he, ih fuel (d + 8) _ (by omega), hl]
      simp only [blockLoop, loadBytes_take, loadBytes_drop]

/-! ## the tail switch -/

def stmtInBounds (n : Nat) : TailStmt → Bool
  | .xorByte idx _ => decide (idx < n)
  | _ => true

theorem widenByte_unsigned (b : UInt8) : widenByte false b = b.toUInt64 := by simp [widenByte]

theorem tail_foldl_mem_eq (m : UInt64) (mem : Mem) (d n : Nat) :
    ∀ (stmts : List TailStmt) (h : UInt64), stmts.all (stmtInBounds n) = true →
      stmts.foldl (runTailStmtMem m false mem d) h = stmts.foldl (runTailStmt m (loadBytes mem d n)) h := by
  intro stmts
  induction stmts with
  | nil => intro h _; rfl
  | cons s ss ih =>
    intro h hall
    simp only [List.all_cons, Bool.and_eq_true] at hall
    simp only [List.foldl_cons]
    rw [ih _ hall.2]
    congr 1
    cases s with
    | xorByte idx shift =>
      have hi : idx < n := by simpa [stmtInBounds] using hall.1
      show h ^^^ (widenByte false (mem (d + idx)) <<< _) = h ^^^ (((loadBytes mem d n).getD idx 0).toUInt64 <<< _)
      rw [widenByte_unsigned, getD_loadBytes mem n d idx hi]
    | mulM => rfl
    | brk => rfl

/-- every statement the extracted switch reaches at `case n` reads a byte in front of `d + n` -/
theorem srcTail_inBounds : (List.range 8).all (fun n => (tailStmtsAt CelloGen.Hash.tail n).all (stmtInBounds n)) = true := by decide

theorem srcTail_inBounds_at (n : Nat) (h : n < 8) : (tailStmtsAt CelloGen.Hash.tail n).all (stmtInBounds n) = true := by
  have := srcTail_inBounds
  rw [List.all_eq_true] at this
  exact this n (List.mem_range.mpr h)

theorem runTail_eq_foldl (m : UInt64) (cases : List (Nat × List TailStmt)) (n : Nat) (d : Bytes) (h : UInt64) :
    runTail m cases n d h = (tailStmtsAt cases n).foldl (runTailStmt m d) h := rfl

/-! ## hash_data on memory = hash_data of the bytes -/

/-- the frame the theorem is about: unsigned bytes, blocks of 8 with an 8-byte step, `size & ~7`, `switch (size & 7)` -/
def murmurFrame : HdFrame := ⟨false, 7, 8, 8, 7⟩

theorem and7 (n : Nat) : n &&& 7 = n % 8 := Nat.and_two_pow_sub_one_eq_mod n 3

theorem hashDataMemWith_murmurFrame (mem : Mem) (p n : Nat) :
    hashDataMemWith murmurFrame CelloGen.Hash.m CelloGen.Hash.r CelloGen.Hash.seed CelloGen.Hash.blockSteps CelloGen.Hash.tail
      CelloGen.Hash.finalSteps mem p n = some (hashData (loadBytes mem p n)) := by
  have hk : n = 8 * (n / 8) + n % 8 := by omega
  have hr : n % 8 < 8 := by omega
  generalize n / 8 = k at hk
  generalize n % 8 = r at hk hr
  subst hk
  have h1 : (8 * k + r) % 8 = r := by omega
  have h2 : (8 * k + r) / 8 = k := by omega
  have h3 : 8 * k + r - r = 8 * k := by omega
  unfold hashDataMemWith hashData hashDataWith
  simp only [murmurFrame, and7, h1, h2, h3, length_loadBytes]
  rw [memBlockLoop_eq _ mem r k (8 * k + r + 1) p _ (by omega)]
  simp only [runTail_eq_foldl, loadBytes_drop]
  rw [tail_foldl_mem_eq _ mem (p + 8 * k) r _ _ (srcTail_inBounds_at r hr)]

/-- the frame read from the current source is that frame -/
theorem srcFrame_eq : srcFrame = murmurFrame := by decide

theorem hashDataMem_eq (mem : Mem) (p n : Nat) : hashDataMem mem p n = some (hashData (loadBytes mem p n)) := by
  unfold hashDataMem; rw [srcFrame_eq]; exact hashDataMemWith_murmurFrame mem p n

/-! ## the container hash programs -/

theorem seqHashSrc_xor (hash : α → UInt64) (xs : List α) :
    seqHashSrc ⟨0, 0, .xor (.t .acc) (.t .elem)⟩ hash xs = seqHash .xor hash xs := by
  simp [seqHashSrc, seqHash, evalH, combine]

theorem mapHashSrc_xor (hk : α → UInt64) (hv : β → UInt64) (es : List (α × β)) :
    mapHashSrc ⟨0, 0, .xor (.xor (.t .acc) (.t .key)) (.t .val)⟩ hk hv es = mapHash .xor hk hv es := by
  simp [mapHashSrc, mapHash, evalH, combine]

end Cello.Hash
