/-
  Lemmas for C19: every operation of the model (`step`) preserves the invariant `WF`, hence every reachable state is
  well formed.
-/
import CelloProofs.Lemmas.HdrBody

namespace Cello.Hdr

variable {cfg : Config}

theorem bodyOK_of_get {s : St} (h : WF cfg s) {id : Nat} {o : Obj} (hget : s.get id = some o) : BodyOK cfg o.body :=
  h.bodies (id, o) (assoc_mem hget)

theorem wf_rtSizes {s : St} (h : WF cfg s) (x : List (Nat × Nat)) : WF cfg { s with rtSizes := x } :=
  ⟨h.bodies, h.reg, h.freed, h.once, h.keys⟩

theorem wf_dealloc {s : St} (h : WF cfg s) {id : Nat} {o : Obj} (hget : s.get id = some o) (hlive : o.live = true)
    (hnreg : ∀ p ∈ s.reg, p.1 ≠ id) : WF cfg (dealloc cfg s id o).1 := by
  unfold dealloc
  split
  · exact h
  · split
    · rename_i hheap; exact wf_release h id o hnreg hget hheap hlive
    · exact h

/-- destruct, then dealloc of the destructed object -/
theorem wf_destruct_dealloc {s : St} (h : WF cfg s) {id : Nat} {o : Obj} (hget : s.get id = some o) (hlive : o.live = true)
    (hnreg : ∀ p ∈ s.reg, p.1 ≠ id) (b : Body) (hb : BodyOK cfg b) :
    WF cfg (dealloc cfg (s.updBody id (fun _ => b)) id { o with body := b }).1 := by
  have h1 : WF cfg (s.updBody id (fun _ => b)) := wf_updBody h id _ (fun _ _ _ => hb)
  refine wf_dealloc h1 ?_ hlive hnreg
  rw [get_updBody, hget]; simp

theorem wf_freeObj (F : Facts cfg) {s : St} (h : WF cfg s) {f : FreeOp} {id : Nat} {o : Obj} (hget : s.get id = some o)
    (hlive : o.live = true) (hguard : f.viaCollector = false → s.isReg id = false) : WF cfg (freeObj cfg s f id o).1 := by
  have hbody : BodyOK cfg o.body := bodyOK_of_get h hget
  have hd : BodyOK cfg (destructBody cfg o.hdr o.body).1 := destructBody_ok hbody
  cases f with
  | dealloc => exact wf_dealloc h hget hlive (isReg_false (hguard rfl))
  | deallocRaw => exact wf_dealloc h hget hlive (isReg_false (hguard rfl))
  | deallocRoot => exact wf_dealloc h hget hlive (isReg_false (hguard rfl))
  | destruct =>
    simp only [freeObj]
    exact wf_updBody h id _ (fun _ _ _ => hd)
  | delRaw =>
    simp only [freeObj]
    cases hdb : destructBody cfg o.hdr o.body with
    | mk b out =>
      rw [hdb] at hd
      cases out with
      | ok => exact wf_destruct_dealloc h hget hlive (isReg_false (hguard rfl)) b hd
      | raised e => exact h
      | ub => exact h
  | del =>
    simp only [freeObj, F.delViaCollector, if_true]
    split
    · cases hdb : destructBody cfg o.hdr o.body with
      | mk b out =>
        rw [hdb] at hd
        cases out with
        | ok => exact wf_destruct_dealloc (wf_unreg h id) hget hlive (not_reg_unreg s id) b hd
        | raised e => exact wf_unreg h id
        | ub => exact wf_unreg h id
    · exact h
  | delRoot =>
    simp only [freeObj, F.delViaCollector, if_true]
    split
    · cases hdb : destructBody cfg o.hdr o.body with
      | mk b out =>
        rw [hdb] at hd
        cases out with
        | ok => exact wf_destruct_dealloc (wf_unreg h id) hget hlive (not_reg_unreg s id) b hd
        | raised e => exact wf_unreg h id
        | ub => exact wf_unreg h id
    · exact h

/-- the element a target designates sits in the body of the (only) entry with that handle -/
theorem elemAt_of_elemOf {s : St} (h : WF cfg s) {t : Target} {e : Elem} (he : s.elemOf t = some e)
    {p : Nat × Obj} (hp : p ∈ s.objs) (hk : p.1 = t.id) : p.2.body.elemAt t = some e := by
  have hg := get_of_mem h hp
  rw [hk] at hg
  unfold St.elemOf at he
  cases t with
  | obj id => cases he
  | elem id i => simp only [Target.id] at hg he; rw [hg] at he; simp only at he; split at he <;> simp_all
  | key id i => simp only [Target.id] at hg he; rw [hg] at he; simp only at he; split at he <;> simp_all
  | val id i => simp only [Target.id] at hg he; rw [hg] at he; simp only at he; split at he <;> simp_all

theorem wf_setElem {s : St} (h : WF cfg s) {t : Target} {e e1 : Elem} (he : s.elemOf t = some e) (hh : e1.hdr = e.hdr) :
    WF cfg (s.updBody t.id (fun b => b.setElemAt t e1)) :=
  wf_updBody h t.id _ (fun p hp hk => bodyOK_setElemAt (h.bodies p hp) (elemAt_of_elemOf h he hp hk) hh)

theorem wf_stepFree (F : Facts cfg) {s : St} (h : WF cfg s) (f : FreeOp) (t : Target) : WF cfg (stepFree cfg s f t).1 := by
  unfold stepFree
  split
  · exact h
  · rename_i o hget
    cases t with
    | obj id =>
      simp only [Target.id] at hget
      simp only
      repeat' split
      all_goals first
        | exact h
        | (rename_i hl hm _ _ _
           apply wf_freeObj F h hget
           · simpa using hl
           · intro hv; simp only [hv, Bool.not_false, Bool.true_and] at hm; simpa using hm)
    | elem id i =>
      simp only
      repeat' split
      all_goals first
        | exact h
        | (rename_i he; exact wf_setElem h he (freeElem_hdr _ _))
    | key id i =>
      simp only
      repeat' split
      all_goals first
        | exact h
        | (rename_i he; exact wf_setElem h he (freeElem_hdr _ _))
    | val id i =>
      simp only
      repeat' split
      all_goals first
        | exact h
        | (rename_i he; exact wf_setElem h he (freeElem_hdr _ _))

theorem wf_stepInplace (F : Facts cfg) {s : St} (h : WF cfg s) (ip : InPlace) (t : Target) :
    WF cfg (stepInplace cfg s ip t).1 := by
  unfold stepInplace
  split
  · exact h
  · rename_i o hget
    have hbody : BodyOK cfg o.body := bodyOK_of_get h hget
    cases t with
    | obj id =>
      simp only
      repeat' split
      all_goals first
        | exact h
        | (rename_i b out hip; exact wf_updBody h id (fun _ => b) (fun _ _ _ => inPlaceObj_ok F hbody hip))
    | elem id i =>
      simp only
      repeat' split
      all_goals first
        | exact h
        | (rename_i he _ _ _ hip; exact wf_setElem h he (inPlaceElem_hdr hip))
    | key id i =>
      simp only
      repeat' split
      all_goals first
        | exact h
        | (rename_i he _ _ _ hip; exact wf_setElem h he (inPlaceElem_hdr hip))
    | val id i =>
      simp only
      repeat' split
      all_goals first
        | exact h
        | (rename_i he _ _ _ hip; exact wf_setElem h he (inPlaceElem_hdr hip))

theorem registers_isHeap (F : Facts cfg) {r : Route} {root : Bool} (h : r.registers cfg = some root) : r.isHeap = true := by
  cases r <;> simp_all [Route.registers, Route.isHeap, F.regRaw]

theorem birth_alloc_heap (F : Facts cfg) (s : St) {r : Route} (ty : Ty) (h : r.isHeap = true) :
    (birthHeader cfg s r ty).1.alloc = cfg.cHeap := by
  cases r <;> simp [Route.isHeap] at h <;> (simp only [birthHeader]; split <;> simp [headerInit_eq F, F.bTypeAlloc, F.bAllocBy])

theorem wf_stepMake (F : Facts cfg) {s : St} (h : WF cfg s) (id : Nat) (r : Route) (i : Init) :
    WF cfg (stepMake cfg s id r i).1 := by
  unfold stepMake
  split
  · exact h
  · rename_i hfresh
    have hnone : s.get id = none := by simpa using hfresh
    split
    · exact h
    · rename_i b hb
      have hw : WF cfg (s.birth cfg id r i.ty b) :=
        wf_birth h id r i.ty b hnone (buildBody_ok F hb) (fun root hr => birth_alloc_heap F s i.ty (registers_isHeap F hr))
      simp only
      split
      · exact wf_rtSizes hw _
      · exact hw

theorem wf_addObj {s : St} (h : WF cfg s) (id : Nat) (o : Obj) (hfresh : s.get id = none) (hb : BodyOK cfg o.body) :
    WF cfg { s with objs := s.objs ++ [(id, o)] } := by
  have hother : ∀ k o', s.get k = some o' → St.get { s with objs := s.objs ++ [(id, o)] } k = some o' := by
    intro k o' hk
    simp only [St.get] at *
    rw [assoc_append, hk]
  constructor
  · intro p hp
    simp only [List.mem_append, List.mem_singleton] at hp
    rcases hp with hp | hp
    · exact h.bodies p hp
    · subst hp; exact hb
  · intro p hp
    obtain ⟨o', ho', ha, hl⟩ := h.reg p hp
    exact ⟨o', hother _ _ ho', ha, hl⟩
  · intro k hk
    obtain ⟨o', ho', ha, hl⟩ := h.freed k hk
    exact ⟨o', hother _ _ ho', ha, hl⟩
  · exact h.once
  · simp only [List.map_append, List.map_cons, List.map_nil]
    rw [List.nodup_append]
    refine ⟨h.keys, by simp, ?_⟩
    intro a ha b' hb'
    simp only [List.mem_singleton] at hb'
    subst hb'
    intro heq; subst heq
    exact assoc_none_not_mem hfresh ha

theorem wf_stepStatic {s : St} (h : WF cfg s) (id : Nat) (name : String) : WF cfg (stepStatic cfg s id name).1 := by
  unfold stepStatic
  split
  · exact h
  · rename_i hc
    split
    · exact h
    · have hnone : s.get id = none := by
        simp only [Bool.or_eq_true, not_or, Bool.not_eq_true, Option.isSome_eq_false_iff, Option.isNone_iff_eq_none] at hc
        exact hc.1
      exact wf_addObj h id _ hnone trivial

theorem wf_stepCopy (F : Facts cfg) {s : St} (h : WF cfg s) (id src : Nat) : WF cfg (stepCopy cfg s id src).1 := by
  unfold stepCopy
  split
  · exact h
  · rename_i hfresh
    have hnone : s.get id = none := by simpa using hfresh
    repeat' split
    all_goals first
      | exact h
      | (rename_i hcp
         exact wf_birth h id .new _ _ hnone (copyBody_ok F hcp)
           (fun root hr => birth_alloc_heap F s _ (registers_isHeap F hr)))

theorem wf_sweepOne {s : St} (h : WF cfg s) (id : Nat) : WF cfg (sweepOne cfg s id) := by
  unfold sweepOne
  split
  · exact h
  · rename_i hr
    have hreg : s.isReg id = true := by simpa using hr
    obtain ⟨p, hp, hpid⟩ := isReg_true hreg
    obtain ⟨o, hget, _, hlive⟩ := h.reg p hp
    rw [hpid] at hget
    rw [hget]
    simp only
    have hd : BodyOK cfg (destructBody cfg o.hdr o.body).1 := destructBody_ok (bodyOK_of_get h hget)
    cases hdb : destructBody cfg o.hdr o.body with
    | mk b out =>
      rw [hdb] at hd
      cases out with
      | ok => exact wf_destruct_dealloc (wf_unreg h id) hget hlive (not_reg_unreg s id) b hd
      | raised e => exact wf_unreg h id
      | ub => exact wf_unreg h id

theorem wf_foldl_sweepOne (l : List Nat) : ∀ {s : St}, WF cfg s → WF cfg (l.foldl (sweepOne cfg) s) := by
  induction l with
  | nil => intro s h; exact h
  | cons x r ih => intro s h; exact ih (wf_sweepOne h x)

/-- **every operation preserves the invariant** -/
theorem wf_step (F : Facts cfg) {s : St} (h : WF cfg s) (op : Op) : WF cfg (step cfg s op).1 := by
  cases op with
  | make id r i => exact wf_stepMake F h id r i
  | static id name => exact wf_stepStatic h id name
  | copy id src => exact wf_stepCopy F h id src
  | obs t => simp only [step]; repeat' split
             all_goals exact h
  | free f t => exact wf_stepFree F h f t
  | inplace ip t => exact wf_stepInplace F h ip t
  | iter id back => simp only [step]; split <;> exact h
  | values id => simp only [step]; split <;> exact h
  | view v => simp only [step]; split <;> exact h
  | sweep victims => simp only [step, St.sweep]; exact wf_foldl_sweepOne _ h
  | finish => exact h

theorem wf_run (F : Facts cfg) (ops : List Op) : ∀ {s : St}, WF cfg s → WF cfg (run cfg s ops) := by
  induction ops with
  | nil => intro s h; exact h
  | cons op r ih => intro s h; exact ih (wf_step F h op)

end Cello.Hdr
