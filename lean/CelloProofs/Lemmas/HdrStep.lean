/-
  Lemmas for C19: every operation of the model (`step`) preserves the invariant `WF`, hence every reachable state is
  well formed.
-/
import CelloProofs.Lemmas.HdrRelease

namespace Cello.Hdr

variable {cfg : Config}

theorem bodyOK_of_get {s : St} (h : WF cfg s) {id : Nat} {o : Obj} (hget : s.get id = some o) : BodyOK cfg o.body :=
  h.bodies (id, o) (assoc_mem hget)

theorem wf_rtSizes {s : St} (h : WF cfg s) (x : List (Nat × Nat)) : WF cfg { s with rtSizes := x } :=
  ⟨h.bodies, h.reg, h.freed, h.once, h.keys⟩

theorem wf_dealloc {s : St} (h : WF cfg s) {id : Nat} {o : Obj} (hget : s.get id = some o) (hlive : o.live = true)
    (hnreg : ∀ p ∈ s.reg, p.1 ≠ id) : WF cfg (dealloc cfg s id o).1 := by
  unfold dealloc
  split
  · exact h
  · split
    · rename_i hheap; exact wf_release h id o hnreg hget hheap hlive
    · exact h

/-- destruct, then dealloc of the destructed object -/
theorem wf_destruct_dealloc {s : St} (h : WF cfg s) {id : Nat} {o : Obj} (hget : s.get id = some o) (hlive : o.live = true)
    (hnreg : ∀ p ∈ s.reg, p.1 ≠ id) (b : Body) (hb : BodyOK cfg b) :
    WF cfg (dealloc cfg (s.updBody id (fun _ => b)) id { o with body := b }).1 := by
  have h1 : WF cfg (s.updBody id (fun _ => b)) := wf_updBody h id _ (fun _ _ _ => hb)
  refine wf_dealloc h1 ?_ hlive hnreg
  rw [get_updBody, hget]; simp

theorem pending_updBody (s : St) (id : Nat) (f : Body → Body) : (s.updBody id f).pending = s.pending := rfl

/-- `destruct` of a whole live object (Box_Del deletes the pointee through the collector, then clears the Box) -/
theorem wf_destructObj (F : Facts cfg) {s : St} (h : WF cfg s) (hnp : NoPend s) {id : Nat} {o : Obj}
    (hget : s.get id = some o) : WF cfg (destructObj cfg s id o).1 ∧ NoPend (destructObj cfg s id o).1 := by
  have hbody : BodyOK cfg o.body := bodyOK_of_get h hget
  have hd : BodyOK cfg (destructBody cfg o.hdr o.body).1 := destructBody_ok hbody
  unfold destructObj
  split
  · rename_i x _
    split
    · have ht := gcRem_top F h hnp x (fuelFor s) (by simp only [fuelFor]; omega)
      split
      · rename_i s1 heq
        rw [heq] at ht
        exact ⟨wf_updBody ht.1 id (fun _ => Body.box none) (fun _ _ _ => trivial), ht.2⟩
      · exact ht
    · exact ⟨wf_updBody h id (fun _ => Body.box none) (fun _ _ _ => trivial), hnp⟩
  · exact ⟨wf_updBody h id (fun _ => (destructBody cfg o.hdr o.body).1) (fun _ _ _ => hd), hnp⟩

/-- a freeing operation on a whole live object, no sweep being under way: the invariant is kept (whatever the destructor
    of a Box deletes in turn) and no sweep is left under way -/
theorem wf_freeObj (F : Facts cfg) {s : St} (h : WF cfg s) (hnp : NoPend s) {f : FreeOp} {id : Nat} {o : Obj}
    (hget : s.get id = some o) (hlive : o.live = true) (hguard : f.viaCollector = false → s.isReg id = false) :
    WF cfg (freeObj cfg s f id o).1 ∧ NoPend (freeObj cfg s f id o).1 := by
  have hbody : BodyOK cfg o.body := bodyOK_of_get h hget
  have hd : BodyOK cfg (destructBody cfg o.hdr o.body).1 := destructBody_ok hbody
  have hpd : ∀ (s' : St) (o' : Obj), NoPend s' → NoPend (dealloc cfg s' id o').1 := by
    intro s' o' hn a ha; rw [pending_dealloc] at ha; exact hn a ha
  cases f with
  | dealloc => exact ⟨wf_dealloc h hget hlive (isReg_false (hguard rfl)), hpd s o hnp⟩
  | deallocRaw => exact ⟨wf_dealloc h hget hlive (isReg_false (hguard rfl)), hpd s o hnp⟩
  | deallocRoot => exact ⟨wf_dealloc h hget hlive (isReg_false (hguard rfl)), hpd s o hnp⟩
  | destruct =>
    simp only [freeObj]
    exact wf_destructObj F h hnp hget
  | delRaw =>
    simp only [freeObj]
    split
    · exact ⟨wf_dealloc h hget hlive (isReg_false (hguard rfl)), hpd s o hnp⟩
    · exact finalise_top F h hnp hget hlive (isReg_false (hguard rfl)) _ (by simp only [fuelFor]; omega)
  | del =>
    simp only [freeObj, F.delViaCollector, if_true]
    exact gcRem_top F h hnp id _ (by simp only [fuelFor]; omega)
  | delRoot =>
    simp only [freeObj, F.delViaCollector, if_true]
    exact gcRem_top F h hnp id _ (by simp only [fuelFor]; omega)

/-- the element a target designates sits in the body of the (only) entry with that handle -/
theorem elemAt_of_elemOf {s : St} (h : WF cfg s) {t : Target} {e : Elem} (he : s.elemOf t = some e)
    {p : Nat × Obj} (hp : p ∈ s.objs) (hk : p.1 = t.id) : p.2.body.elemAt t = some e := by
  have hg := get_of_mem h hp
  rw [hk] at hg
  unfold St.elemOf at he
  cases t with
  | obj id => cases he
  | elem id i => simp only [Target.id] at hg he; rw [hg] at he; simp only at he; split at he <;> simp_all
  | key id i => simp only [Target.id] at hg he; rw [hg] at he; simp only at he; split at he <;> simp_all
  | val id i => simp only [Target.id] at hg he; rw [hg] at he; simp only at he; split at he <;> simp_all

theorem wf_setElem {s : St} (h : WF cfg s) {t : Target} {e e1 : Elem} (he : s.elemOf t = some e) (hh : e1.hdr = e.hdr) :
    WF cfg (s.updBody t.id (fun b => b.setElemAt t e1)) :=
  wf_updBody h t.id _ (fun p hp hk => bodyOK_setElemAt (h.bodies p hp) (elemAt_of_elemOf h he hp hk) hh)

theorem wf_stepFree (F : Facts cfg) {s : St} (h : WF cfg s) (hnp : NoPend s) (f : FreeOp) (t : Target) :
    WF cfg (stepFree cfg s f t).1 ∧ NoPend (stepFree cfg s f t).1 := by
  unfold stepFree
  split
  · exact ⟨h, hnp⟩
  · rename_i o hget
    cases t with
    | obj id =>
      simp only [Target.id] at hget
      simp only
      repeat' split
      all_goals first
        | exact ⟨h, hnp⟩
        | (refine wf_freeObj F h hnp hget (by simp_all) ?_
           intro hv
           cases hr : s.isReg id with
           | false => rfl
           | true => simp_all [St.freeSkip])
    | elem id i =>
      simp only
      repeat' split
      all_goals first
        | exact ⟨h, hnp⟩
        | (rename_i he; exact ⟨wf_setElem h he (freeElem_hdr _ _), hnp⟩)
    | key id i =>
      simp only
      repeat' split
      all_goals first
        | exact ⟨h, hnp⟩
        | (rename_i he; exact ⟨wf_setElem h he (freeElem_hdr _ _), hnp⟩)
    | val id i =>
      simp only
      repeat' split
      all_goals first
        | exact ⟨h, hnp⟩
        | (rename_i he; exact ⟨wf_setElem h he (freeElem_hdr _ _), hnp⟩)

theorem wf_stepInplace (F : Facts cfg) {s : St} (h : WF cfg s) (ip : InPlace) (t : Target) :
    WF cfg (stepInplace cfg s ip t).1 := by
  unfold stepInplace
  split
  · exact h
  · rename_i o hget
    have hbody : BodyOK cfg o.body := bodyOK_of_get h hget
    cases t with
    | obj id =>
      simp only
      repeat' split
      all_goals first
        | exact h
        | (rename_i b out hip; exact wf_updBody h id (fun _ => b) (fun _ _ _ => inPlaceObj_ok F hbody hip))
    | elem id i =>
      simp only
      repeat' split
      all_goals first
        | exact h
        | (rename_i he _ _ _ hip; exact wf_setElem h he (inPlaceElem_hdr hip))
    | key id i =>
      simp only
      repeat' split
      all_goals first
        | exact h
        | (rename_i he _ _ _ hip; exact wf_setElem h he (inPlaceElem_hdr hip))
    | val id i =>
      simp only
      repeat' split
      all_goals first
        | exact h
        | (rename_i he _ _ _ hip; exact wf_setElem h he (inPlaceElem_hdr hip))

theorem registers_isHeap (F : Facts cfg) {r : Route} {root : Bool} (h : r.registers cfg = some root) : r.isHeap = true := by
  cases r <;> simp_all [Route.registers, Route.isHeap, F.regRaw]

theorem birth_alloc_heap (F : Facts cfg) (s : St) {r : Route} (ty : Ty) (h : r.isHeap = true) :
    (birthHeader cfg s r ty).1.alloc = cfg.cHeap := by
  cases r <;> simp [Route.isHeap] at h <;> (simp only [birthHeader]; split <;> simp [headerInit_eq F, F.bTypeAlloc, F.bAllocBy])

theorem wf_stepMake (F : Facts cfg) {s : St} (h : WF cfg s) (id : Nat) (r : Route) (i : Init) :
    WF cfg (stepMake cfg s id r i).1 := by
  unfold stepMake
  split
  · exact h
  · rename_i hfresh
    have hnone : s.get id = none := by simpa using hfresh
    split
    · exact h
    · rename_i b hb
      have hw : WF cfg (s.birth cfg id r i.ty b) :=
        wf_birth h id r i.ty b hnone (buildBody_ok F hb) (fun root hr => birth_alloc_heap F s i.ty (registers_isHeap F hr))
      simp only
      split
      · exact wf_rtSizes hw _
      · exact hw

theorem wf_addObj {s : St} (h : WF cfg s) (id : Nat) (o : Obj) (hfresh : s.get id = none) (hb : BodyOK cfg o.body) :
    WF cfg { s with objs := s.objs ++ [(id, o)] } := by
  have hother : ∀ k o', s.get k = some o' → St.get { s with objs := s.objs ++ [(id, o)] } k = some o' := by
    intro k o' hk
    simp only [St.get] at *
    rw [assoc_append, hk]
  constructor
  · intro p hp
    simp only [List.mem_append, List.mem_singleton] at hp
    rcases hp with hp | hp
    · exact h.bodies p hp
    · subst hp; exact hb
  · intro p hp
    obtain ⟨o', ho', ha, hl⟩ := h.reg p hp
    exact ⟨o', hother _ _ ho', ha, hl⟩
  · intro k hk
    obtain ⟨o', ho', ha, hl⟩ := h.freed k hk
    exact ⟨o', hother _ _ ho', ha, hl⟩
  · exact h.once
  · simp only [List.map_append, List.map_cons, List.map_nil]
    rw [List.nodup_append]
    refine ⟨h.keys, by simp, ?_⟩
    intro a ha b' hb'
    simp only [List.mem_singleton] at hb'
    subst hb'
    intro heq; subst heq
    exact assoc_none_not_mem hfresh ha

theorem wf_stepStatic {s : St} (h : WF cfg s) (id : Nat) (name : String) : WF cfg (stepStatic cfg s id name).1 := by
  unfold stepStatic
  split
  · exact h
  · rename_i hc
    split
    · exact h
    · have hnone : s.get id = none := by
        simp only [Bool.or_eq_true, not_or, Bool.not_eq_true, Option.isSome_eq_false_iff, Option.isNone_iff_eq_none] at hc
        exact hc.1
      exact wf_addObj h id _ hnone trivial

theorem wf_stepCopy (F : Facts cfg) {s : St} (h : WF cfg s) (id src : Nat) : WF cfg (stepCopy cfg s id src).1 := by
  unfold stepCopy
  split
  · exact h
  · rename_i hfresh
    have hnone : s.get id = none := by simpa using hfresh
    repeat' split
    all_goals first
      | exact h
      | (rename_i hcp
         exact wf_birth h id .new _ _ hnone (copyBody_ok F hcp)
           (fun root hr => birth_alloc_heap F s _ (registers_isHeap F hr)))

theorem mem_sweepVictims {s : St} {victims : List Nat} {v : Nat} (h : v ∈ s.sweepVictims victims) : ∃ p ∈ s.reg, p.1 = v := by
  simp only [St.sweepVictims, List.mem_map, List.mem_filter] at h
  obtain ⟨p, ⟨hp, _⟩, e⟩ := h
  exact ⟨p, hp, e⟩

theorem mem_exitVictims {s : St} {v : Nat} (h : v ∈ s.exitVictims) : ∃ p ∈ s.reg, p.1 = v := by
  simp only [St.exitVictims, List.mem_map, List.mem_filter] at h
  obtain ⟨p, ⟨hp, _⟩, e⟩ := h
  exact ⟨p, hp, e⟩

/-- the victims of a collection are registered objects -/
theorem victims_registered {s : St} {victims order : List Nat} {v : Nat}
    (hv : v ∈ arrange order (s.sweepVictims victims)) : ∃ p ∈ s.reg, p.1 = v :=
  mem_sweepVictims ((mem_arrange order _ v).mp hv)

/-- what the proofs below need about the release log of a collection -/
theorem drop_freed_of_ext {s s' : St} {E : List Nat} (h : s'.freed = s.freed ++ E) : s'.freed.drop s.freed.length = E := by
  rw [h]; simp

theorem wf_sweep (F : Facts cfg) {s : St} (h : WF cfg s) (victims order : List Nat) :
    WF cfg (s.sweep cfg victims order).1 ∧ NoPend (s.sweep cfg victims order).1 := by
  have hs := collect_spec F s (arrange order (s.sweepVictims victims)) h
    (fun v hv => mem_sweepVictims ((mem_arrange order _ v).mp hv))
  exact ⟨hs.2.1, hs.2.2.1⟩

theorem wf_updBody_box {s : St} (h : WF cfg s) (id : Nat) (v : Option Nat) : WF cfg (s.updBody id (fun _ => Body.box v)) :=
  wf_updBody h id _ (fun _ _ _ => trivial)

theorem wf_stepOwn {s : St} (h : WF cfg s) (hnp : NoPend s) (id : Nat) (target : Option Nat) :
    WF cfg (stepOwn cfg s id target).1 ∧ NoPend (stepOwn cfg s id target).1 := by
  unfold stepOwn
  repeat' split
  all_goals first
    | exact ⟨h, hnp⟩
    | exact ⟨wf_updBody_box h id _, hnp⟩

/-- **every operation preserves the invariant**, and leaves no sweep under way -/
theorem wf_step (F : Facts cfg) {s : St} (h : WF cfg s) (hnp : NoPend s) (op : Op) :
    WF cfg (step cfg s op).1 ∧ NoPend (step cfg s op).1 := by
  cases op with
  | make id r i =>
    refine ⟨wf_stepMake F h id r i, ?_⟩
    simp only [step, stepMake]
    repeat' split
    all_goals exact hnp
  | static id name =>
    refine ⟨wf_stepStatic h id name, ?_⟩
    simp only [step, stepStatic]
    repeat' split
    all_goals exact hnp
  | copy id src =>
    refine ⟨wf_stepCopy F h id src, ?_⟩
    simp only [step, stepCopy]
    repeat' split
    all_goals exact hnp
  | obs t => simp only [step]; repeat' split
             all_goals exact ⟨h, hnp⟩
  | free f t => exact wf_stepFree F h hnp f t
  | inplace ip t =>
    refine ⟨wf_stepInplace F h ip t, ?_⟩
    simp only [step, stepInplace]
    repeat' split
    all_goals exact hnp
  | iter id back => simp only [step]; split <;> exact ⟨h, hnp⟩
  | values id => simp only [step]; split <;> exact ⟨h, hnp⟩
  | view v => simp only [step]; split <;> exact ⟨h, hnp⟩
  | own id target => exact wf_stepOwn h hnp id target
  | sweep victims order => simp only [step]; split
                           · exact ⟨h, hnp⟩
                           · exact wf_sweep F h victims order
  | thr victims order => simp only [step]; split
                         · exact ⟨h, hnp⟩
                         · exact wf_sweep F h victims order
  | exit order => simp only [step]; exact ⟨h, hnp⟩
  | finish => exact ⟨h, hnp⟩

theorem wf_run (F : Facts cfg) (ops : List Op) : ∀ {s : St}, WF cfg s → NoPend s →
    WF cfg (run cfg s ops) ∧ NoPend (run cfg s ops) := by
  induction ops with
  | nil => intro s h hnp; exact ⟨h, hnp⟩
  | cons op r ih => intro s h hnp; exact ih (wf_step F h hnp op).1 (wf_step F h hnp op).2

end Cello.Hdr
