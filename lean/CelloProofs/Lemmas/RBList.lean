/-
  Lemmas/RBList.lean — in-order sequence (`toList`) of the zipper model of Tree.c:
  rotations and recolourings (`setFix`, `remFix`) do not change it.
-/
import Cello.RBTree

namespace Cello.RB
variable {α β : Type}

/-- in-order items to the left of the hole of a path -/
def ctxL : Path α β → List (α × β)
  | [] => []
  | f :: p =>
    match f.dir with
    | .L => ctxL p
    | .Rt => ctxL p ++ (toList f.sib ++ [(f.k, f.v)])

/-- in-order items to the right of the hole of a path -/
def ctxR : Path α β → List (α × β)
  | [] => []
  | f :: p =>
    match f.dir with
    | .L => (f.k, f.v) :: toList f.sib ++ ctxR p
    | .Rt => ctxR p

@[simp] theorem ctxL_nil : ctxL ([] : Path α β) = [] := rfl
@[simp] theorem ctxR_nil : ctxR ([] : Path α β) = [] := rfl

theorem ctxL_cons_L (f : Frame α β) (p : Path α β) (h : f.dir = .L) : ctxL (f :: p) = ctxL p := by
  simp [ctxL, h]
theorem ctxL_cons_Rt (f : Frame α β) (p : Path α β) (h : f.dir = .Rt) :
    ctxL (f :: p) = ctxL p ++ (toList f.sib ++ [(f.k, f.v)]) := by
  simp [ctxL, h]
theorem ctxR_cons_L (f : Frame α β) (p : Path α β) (h : f.dir = .L) :
    ctxR (f :: p) = (f.k, f.v) :: toList f.sib ++ ctxR p := by
  simp [ctxR, h]
theorem ctxR_cons_Rt (f : Frame α β) (p : Path α β) (h : f.dir = .Rt) : ctxR (f :: p) = ctxR p := by
  simp [ctxR, h]

@[simp] theorem toList_nil : toList (T.nil : T α β) = [] := rfl
@[simp] theorem toList_node (c : Color) (l : T α β) (k : α) (v : β) (r : T α β) :
    toList (T.node c l k v r) = toList l ++ (k, v) :: toList r := rfl

@[simp] theorem toList_setColor (c : Color) (t : T α β) : toList (setColor c t) = toList t := by
  cases t <;> rfl

theorem toList_mk_L (f : Frame α β) (t : T α β) (h : f.dir = .L) :
    toList (mk f t) = toList t ++ (f.k, f.v) :: toList f.sib := by
  simp [mk, h]
theorem toList_mk_Rt (f : Frame α β) (t : T α β) (h : f.dir = .Rt) :
    toList (mk f t) = toList f.sib ++ (f.k, f.v) :: toList t := by
  simp [mk, h]

/-- the in-order sequence of a zipper: left context, focus, right context -/
theorem toList_plug (t : T α β) (p : Path α β) : toList (plug t p) = ctxL p ++ toList t ++ ctxR p := by
  induction p generalizing t with
  | nil => simp [plug]
  | cons f p ih =>
    rw [plug, ih]
    cases h : f.dir
    · rw [toList_mk_L _ _ h, ctxL_cons_L _ _ h, ctxR_cons_L _ _ h]; simp
    · rw [toList_mk_Rt _ _ h, ctxL_cons_Rt _ _ h, ctxR_cons_Rt _ _ h]; simp

/-- `Tree_Set_Fix` only rotates and recolours: the in-order sequence is that of the zipper it was given -/
theorem toList_setFix (t : T α β) (p : Path α β) (t' : T α β) (h : setFix t p = some t') :
    toList t' = ctxL p ++ toList t ++ ctxR p := by
  fun_induction setFix t p generalizing t' with
  | case1 t => simp at h; subst h; simp
  | case2 t f hc => simp at h; subst h; exact toList_plug _ _
  | case3 t f hc => simp at h
  | case4 t f g up hc => simp at h; subst h; exact toList_plug _ _
  | case5 t f g up hc hu ih =>
    rw [ih _ h]
    cases hf : f.dir <;> cases hg : g.dir <;>
      simp [mk, hf, hg, ctxL, ctxR]
  | case6 f g up hc hu n hf hg =>
    simp at h; subst h; rw [toList_plug]; simp [ctxL, ctxR, hg, hf]
  | case7 f g up hc hu c a nk nv b hf hg =>
    simp at h; subst h; rw [toList_plug]; simp [ctxL, ctxR, hg, hf]
  | case8 f g up hc hu n hf hg =>
    simp at h; subst h; rw [toList_plug]; simp [ctxL, ctxR, hg, hf]
  | case9 f g up hc hu c a nk nv b hf hg =>
    simp at h; subst h; rw [toList_plug]; simp [ctxL, ctxR, hg, hf]
  | case10 f g up hc hu x y => simp at h

/-! ### `Tree_Rem_Fix` keeps both contexts of the node's position -/

theorem ctx_remCase2 (f : Frame α β) (rest : Path α β) :
    ctxL ((remCase2 f rest).1 :: (remCase2 f rest).2) = ctxL (f :: rest) ∧
    ctxR ((remCase2 f rest).1 :: (remCase2 f rest).2) = ctxR (f :: rest) := by
  unfold remCase2
  split <;> rename_i hs hd <;> simp_all [ctxL, ctxR]

theorem toList_remCase5 (d : Dir) (sc : Color) (sl : T α β) (sk : α) (sv : β) (sr s : T α β)
    (h : remCase5 d sc sl sk sv sr = some s) : toList s = toList sl ++ (sk, sv) :: toList sr := by
  unfold remCase5 at h
  split at h
  · split at h
    · split at h <;> simp at h; subst h; simp
    · split at h
      · split at h <;> simp at h; subst h; simp
      · simp at h; subst h; simp
  · simp at h; subst h; simp

theorem ctx_remCase6 (f : Frame α β) (rest : Path α β) (s : T α β) (p' : Path α β)
    (hs : toList s = toList f.sib) (h : remCase6 f rest s = some p') :
    ctxL p' = ctxL (f :: rest) ∧ ctxR p' = ctxR (f :: rest) := by
  unfold remCase6 at h
  split at h
  · simp at h
  · split at h <;> rename_i hd <;> split at h <;> simp at h <;> subst h <;>
      simp [ctxL, ctxR, hd, ← hs]

theorem ctx_remFixBody (f : Frame α β) (rest : Path α β) (up : Option (Path α β)) (p' : Path α β)
    (hup : ∀ r', up = some r' → ctxL r' = ctxL rest ∧ ctxR r' = ctxR rest)
    (h : remFixBody f rest up = some p') :
    ctxL p' = ctxL (f :: rest) ∧ ctxR p' = ctxR (f :: rest) := by
  unfold remFixBody at h
  split at h
  · simp at h
  · rename_i sc sl sk sv sr hs
    split at h
    · cases up with
      | none => simp at h
      | some r' =>
        simp at h; subst h
        have := hup r' rfl
        cases hd : f.dir <;> simp_all [ctxL, ctxR]
    · split at h
      · simp at h; subst h
        cases hd : f.dir <;> simp_all [ctxL, ctxR]
      · split at h
        · simp at h
        · rename_i s hs5
          exact ctx_remCase6 f rest s p' (by rw [toList_remCase5 _ _ _ _ _ _ _ hs5, hs]; simp) h

theorem remFixBody_red_irrelevant (f : Frame α β) (rest : Path α β) (up up' : Option (Path α β)) (hc : f.c = .R) :
    remFixBody f rest up = remFixBody f rest up' := by
  unfold remFixBody
  split
  · rfl
  · simp [hc]

theorem remCase2_red (f : Frame α β) (rest : Path α β) (h : color f.sib = .R) : (remCase2 f rest).1.c = .R := by
  unfold remCase2
  split <;> simp_all [color]

theorem ctx_remFix (p p' : Path α β) (h : remFix p = some p') : ctxL p' = ctxL p ∧ ctxR p' = ctxR p := by
  induction p generalizing p' with
  | nil => simp [remFix] at h; subst h; simp
  | cons f rest ih =>
    rw [remFix] at h
    split at h
    · have h2 := ctx_remCase2 f rest
      have := ctx_remFixBody _ _ none p' (by simp) h
      rw [this.1, this.2]; exact h2
    · exact ctx_remFixBody f rest _ p' (fun r' hr => ih r' hr) h

end Cello.RB
