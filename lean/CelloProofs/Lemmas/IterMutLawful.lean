/- helper lemmas for C11: iteration over a List in the doubly-linked invariant is lawful (forward along `next`,
   backward along `prev`, `len` = `nitems`, `get` = the two-ended walk of List_At) -/
import CelloProofs.Lemmas.IterMutListOps

namespace Cello.Iter
open LL

variable {α : Type}

theorem ll_fwd_from (l : LL α) : ∀ (xs : List (Nat × α)) (x : Nat × α) (p : Option Nat), Seg l.mem p (x :: xs) none →
    Run (llI l).next (some x.1, .item x.2) (x.2 :: vals xs) := by
  intro xs
  induction xs with
  | nil =>
    intro x p h
    refine Run.item _ _ _ ?_
    simp only [llI, h.1, firstAddr, follow]
    exact Run.term _
  | cons y r ih =>
    intro x p h
    refine Run.item _ _ _ ?_
    simp only [llI, h.1, firstAddr, follow, cursor, h.2.1]
    exact ih y (some x.1) h.2

theorem ll_bwd_from (l : LL α) : ∀ (m : Nat) (ini : List (Nat × α)) (w : Nat × α) (n : Option Nat), ini.length = m →
    Seg l.mem none (ini ++ [w]) n → Run (llI l).prev (some w.1, .item w.2) (vals (ini ++ [w])).reverse := by
  intro m
  induction m with
  | zero =>
    intro ini w n hm h
    have : ini = [] := List.length_eq_zero_iff.mp hm
    subst this
    refine Run.item _ _ _ ?_
    have h1 : l.mem w.1 = some ⟨w.2, n, none⟩ := h.1
    simp only [llI, h1, follow]
    exact Run.term _
  | succ m ih =>
    intro ini w n hm h
    have hne : ini ≠ [] := by intro e; subst e; simp at hm
    obtain ⟨ini', u, rfl⟩ := snoc_of_ne_nil ini hne
    obtain ⟨h1, h2⟩ := Seg_snoc (ini' ++ [u]) w none n h
    obtain ⟨_, h4⟩ := Seg_snoc ini' u none (some w.1) h1
    rw [lastAddr_snoc] at h2
    have hv : (vals (ini' ++ [u] ++ [w])).reverse = w.2 :: (vals (ini' ++ [u])).reverse := by
      simp [vals]
    rw [hv]
    refine Run.item _ _ _ ?_
    simp only [llI, h2, follow, cursor, h4]
    exact ih ini' u (some w.1) (by simpa using hm) h1

/-- **a List in the doubly-linked invariant iterates lawfully** over the values of its chain -/
theorem ll_lawfulAs (l : LL α) (xs : List (Nat × α)) (h : Chain l xs) : LawfulAs (llI l) (vals xs) := by
  refine ⟨?_, ?_, ?_, ?_⟩
  · intro s
    cases xs with
    | nil =>
      have : l.nitems = 0 := h.nil_iff.mpr rfl
      simp only [llI, this, if_true]
      exact Run.term _
    | cons x r =>
      have hn : l.nitems ≠ 0 := fun c => by have := h.nil_iff.mp c; cases this
      have hx : l.mem x.1 = some ⟨x.2, firstAddr r none, none⟩ := h.seg.1
      simp only [llI, hn, if_false, h.head, firstAddr, cursor, hx]
      exact ll_fwd_from l r x none h.seg
  · intro s
    by_cases e : xs = []
    · subst e
      have : l.nitems = 0 := h.nil_iff.mpr rfl
      simp only [llI, this, if_true]
      exact Run.term _
    · obtain ⟨ini, w, rfl⟩ := snoc_of_ne_nil xs e
      have hn : l.nitems ≠ 0 := fun c => e (h.nil_iff.mp c)
      obtain ⟨_, hw⟩ := Seg_snoc ini w none none h.seg
      simp only [llI, hn, if_false, h.tail, lastAddr_snoc, cursor, hw]
      exact ll_bwd_from l ini.length ini w none rfl h.seg
  · intro n hn
    simp only [llI, Option.some.injEq] at hn
    rw [← hn, h.count, vals_length]
  · intro g hg i hi
    simp only [llI, Option.some.injEq] at hg
    subst hg
    rw [vals_length] at hi
    have hk : idxOf xs.length (Int.ofNat i) = some i := by
      unfold idxOf normI
      have h1 : ¬ ((Int.ofNat i) < 0) := by simp
      rw [if_neg h1, if_neg (by simp; omega)]
      simp
    obtain ⟨_, en⟩ := nodeAt_node l xs h (Int.ofNat i) i hk
    obtain ⟨nd, h1, h2⟩ := Seg_live xs none none h.seg xs[i] (List.getElem_mem hi)
    simp only [en, h1, Option.map_some, h2, vals, List.getElem_map]

/-- the invariant in the words of the C structure: the `prev` word of `head` and the `next` word of `tail` are NULL, and
    for every node whose `next` word is `y`, `y` is a live node whose `prev` word points back -/
theorem chain_links (l : LL α) (xs : List (Nat × α)) (h : Chain l xs) :
    (∀ a, l.head = some a → ∃ nd, l.mem a = some nd ∧ nd.prev = none) ∧
    (∀ a, l.tail = some a → ∃ nd, l.mem a = some nd ∧ nd.next = none) ∧
    (∀ x ∈ xs, ∀ nd, l.mem x.1 = some nd → ∀ y, nd.next = some y → ∃ nd', l.mem y = some nd' ∧ nd'.prev = some x.1) ∧
    (l.nitems = 0 ↔ l.head = none) := by
  refine ⟨?_, ?_, ?_, ?_⟩
  · intro a ha
    cases xs with
    | nil => rw [h.head] at ha; cases ha
    | cons x r =>
      rw [h.head] at ha
      simp only [firstAddr, Option.some.injEq] at ha
      subst ha
      exact ⟨_, h.seg.1, rfl⟩
  · intro a ha
    by_cases e : xs = []
    · subst e; rw [h.tail] at ha; cases ha
    · obtain ⟨ini, w, rfl⟩ := snoc_of_ne_nil xs e
      rw [h.tail, lastAddr_snoc] at ha
      simp only [Option.some.injEq] at ha
      subst ha
      exact ⟨_, (Seg_snoc ini w none none h.seg).2, rfl⟩
  · intro x hx nd hnd y hy
    obtain ⟨pre, post, rfl⟩ := List.append_of_mem hx
    obtain ⟨_, hm, sy, _⟩ := h.split
    rw [hm] at hnd
    simp only [Option.some.injEq] at hnd
    subst hnd
    cases post with
    | nil => cases hy
    | cons y' r =>
      simp only [firstAddr, Option.some.injEq] at hy
      subst hy
      exact ⟨_, sy.1, rfl⟩
  · rw [h.nil_iff, h.head]
    cases xs <;> simp [firstAddr]

end Cello.Iter
