/-
  Lemmas/RBCheck.lean — the executable invariant check the driver evaluates on every state (`Tree.validB`) decides the
  predicate the theorems are about (`Valid`); and the comparison used by the op files (`Key.cmp`) is lawful.
-/
import CelloProofs.Lemmas.RBStore
import CelloProofs.Lemmas.RBArgs

namespace Cello.RB
open Std
variable {α β : Type} {cmp : α → α → Ordering}

theorem bhOf_iff (t : T α β) (n : Nat) : bhOf t = some n ↔ (Bal t ∧ bh t = n) := by
  induction t generalizing n with
  | nil => simp [bhOf, eq_comm]
  | node c l k v r ihl ihr =>
    simp only [bhOf, Bal_node, bh_node]
    cases hl : bhOf l with
    | none =>
      simp only
      constructor
      · intro h; cases h
      · rintro ⟨⟨_, h2, _⟩, _⟩
        have := (ihl (bh l)).mpr ⟨h2, rfl⟩
        rw [hl] at this; cases this
    | some a =>
      cases hr : bhOf r with
      | none =>
        simp only
        constructor
        · intro h; cases h
        · rintro ⟨⟨_, _, h3⟩, _⟩
          have := (ihr (bh r)).mpr ⟨h3, rfl⟩
          rw [hr] at this; cases this
      | some b =>
        obtain ⟨la, lb⟩ := (ihl a).mp hl
        obtain ⟨ra, rb⟩ := (ihr b).mp hr
        simp only
        by_cases hab : a = b
        · subst hab
          simp only [if_true, Option.some.injEq]
          cases c <;> simp [la, ra, lb, rb] <;> omega
        · simp only [hab, if_false]
          constructor
          · intro h; cases h
          · rintro ⟨⟨h1, _, _⟩, _⟩; omega

theorem bhOf_isSome_iff (t : T α β) : (bhOf t).isSome ↔ Bal t := by
  constructor
  · intro h
    obtain ⟨n, hn⟩ := Option.isSome_iff_exists.mp h
    exact ((bhOf_iff t n).mp hn).1
  · intro h
    rw [(bhOf_iff t (bh t)).mpr ⟨h, rfl⟩]; rfl

theorem noRedRed_iff (t : T α β) : noRedRed t = true ↔ RRt t := by
  induction t with
  | nil => simp [noRedRed]
  | node c l k v r ihl ihr =>
    simp only [noRedRed, RRt_node, Bool.and_eq_true, Bool.or_eq_true, decide_eq_true_eq, ihl, ihr]
    cases c <;> simp [and_assoc]

theorem descending_iff [TransCmp cmp] (l : List (α × β)) : descending cmp l = true ↔ Desc cmp l := by
  induction l with
  | nil => simp [descending, Desc]
  | cons a l ih =>
    cases l with
    | nil => simp [descending, Desc]
    | cons b l =>
      simp only [descending, Bool.and_eq_true, decide_eq_true_eq, ih]
      rw [desc_cons (a := a), desc_cons (a := b)]
      constructor
      · rintro ⟨h1, h2, h3⟩
        refine ⟨fun x hx => ?_, h2, h3⟩
        rcases List.mem_cons.mp hx with rfl | hx
        · exact h1
        · exact TransCmp.gt_trans h1 (h2 x hx)
      · rintro ⟨h1, h2, h3⟩
        exact ⟨h1 b (by simp), h2, h3⟩

theorem sizedB_iff [Packed α] [Packed β] (sz : Nat × Nat) (l : List (α × β)) :
    sizedB sz l = true ↔ ∀ e ∈ l, Fits sz e := by
  simp [sizedB, Fits]

/-- the `ok=` flag of the driver is exactly `Valid` -/
theorem validB_iff [Packed α] [Packed β] [TransCmp cmp] (m : Tree α β) : m.validB cmp = true ↔ Valid cmp m := by
  simp only [Tree.validB, Bool.and_eq_true, decide_eq_true_eq, noRedRed_iff, bhOf_isSome_iff, descending_iff,
    sizedB_iff]
  constructor
  · rintro ⟨⟨⟨⟨⟨h1, h2⟩, h3⟩, h4⟩, h5⟩, h6⟩; exact ⟨⟨h1, h2, h3⟩, h4, h5, h6⟩
  · rintro ⟨⟨h1, h2, h3⟩, h4, h5, h6⟩; exact ⟨⟨⟨⟨⟨h1, h2⟩, h3⟩, h4⟩, h5⟩, h6⟩

/-! ### `Key.cmp` (Int_Cmp on Ints, strcmp on ASCII Strings, field by field on plain structs) is a lawful comparison -/

instance : OrientedCmp Key.cmp where
  eq_swap := by
    intro a b
    cases a <;> cases b <;> simp only [Key.cmp, Ordering.swap]
    · exact OrientedCmp.eq_swap (cmp := (compare : Int → Int → Ordering))
    · exact OrientedCmp.eq_swap (cmp := (compare : String → String → Ordering))
    · exact OrientedCmp.eq_swap (cmp := (compare : List Int → List Int → Ordering))

instance : TransCmp Key.cmp where
  isLE_trans := by
    intro a b c h1 h2
    cases a <;> cases b <;> cases c <;> simp only [Key.cmp] at h1 h2 ⊢ <;>
      first
        | exact TransCmp.isLE_trans (cmp := (compare : Int → Int → Ordering)) h1 h2
        | exact TransCmp.isLE_trans (cmp := (compare : String → String → Ordering)) h1 h2
        | exact TransCmp.isLE_trans (cmp := (compare : List Int → List Int → Ordering)) h1 h2
        | rfl
        | exact absurd h1 (by decide)
        | exact absurd h2 (by decide)

instance : LawfulEqCmp Key.cmp where
  eq_of_compare := by
    intro a b h
    cases a <;> cases b <;> simp only [Key.cmp] at h <;> try (cases h; done)
    · rw [LawfulEqCmp.eq_of_compare (cmp := (compare : Int → Int → Ordering)) h]
    · rw [LawfulEqCmp.eq_of_compare (cmp := (compare : String → String → Ordering)) h]
    · have := LawfulEqCmp.eq_of_compare (cmp := (compare : List Int → List Int → Ordering)) h
      simp only [List.cons.injEq] at this
      obtain ⟨rfl, rfl, rfl⟩ := this
      rfl

/-! ### the bytes of the op files' keys and values read back as the key / value -/

theorem intsOf_map (l : List Int) : intsOf (l.map Word.int) = some l := by
  induction l with
  | nil => rfl
  | cons a l ih => simp [intsOf, ih]

instance : LawfulPacked Key where
  ofWords_words := by
    intro x
    cases x with
    | i n => rfl
    | s x => rfl
    | w a b r => simp [Packed.words, Packed.ofWords, intsOf_map]

/-! values of the op files are of the same kinds as the keys (`Val = Key`): the instance above serves both -/

/-! ### well-typedness of a concrete history can be computed -/

/-- executable form of `WellTyped` for the op files' types -/
def wellTypedB : Store (Nat × Nat) → List (Op Key Val) → Bool
  | _, [] => true
  | env, op :: ops =>
    (match op with
     | .new _ ks vs init => sizedB (ks, vs) init
     | .set t k v => match env.get? t with | none => true | some z => sizedB z [(k, v)]
     | _ => true) && wellTypedB (tyStep env op) ops

theorem wellTypedB_sound (env : Store (Nat × Nat)) (ops : List (Op Key Val)) (h : wellTypedB env ops = true) :
    WellTyped env ops := by
  induction ops generalizing env with
  | nil => trivial
  | cons op ops ih =>
    simp only [wellTypedB, Bool.and_eq_true] at h
    refine ⟨?_, ih _ h.2⟩
    cases op <;> simp only [Op.typed] <;> try trivial
    · exact (sizedB_iff _ _).mp h.1
    · intro z hz
      have h1 := h.1
      simp only [hz] at h1
      exact (sizedB_iff _ _).mp h1 _ (by simp)

/-- executable form of `WellTypedA` -/
def wellTypedAB : Store (Nat × Nat) → List (AOp Key Val) → Bool
  | _, [] => true
  | env, op :: ops =>
    (match op with
     | .base (.new _ ks vs init) => sizedB (ks, vs) init
     | .base (.set t k v) => match env.get? t with | none => true | some z => sizedB z [(k, v)]
     | .setA t ka va =>
       (match env.get? t with
        | none => true
        | some z =>
          (match ka with | .val k => 8 * (Packed.words k).length == z.1 | .own _ => true) &&
          (match va with | .val v => 8 * (Packed.words v).length == z.2 | .own _ => true))
     | .assignMap _ ks vs kvs => sizedB (ks, vs) kvs
     | _ => true) && wellTypedAB (tyStepA env op) ops

theorem wellTypedAB_sound (env : Store (Nat × Nat)) (ops : List (AOp Key Val)) (h : wellTypedAB env ops = true) :
    WellTypedA env ops := by
  induction ops generalizing env with
  | nil => trivial
  | cons op ops ih =>
    simp only [wellTypedAB, Bool.and_eq_true] at h
    refine ⟨?_, ih _ h.2⟩
    have h1 := h.1
    cases op with
    | base op =>
      cases op <;> simp only [AOp.typed, Op.typed] <;> try trivial
      · exact (sizedB_iff _ _).mp h1
      · intro z hz
        simp only [hz] at h1
        exact (sizedB_iff _ _).mp h1 _ (by simp)
    | setA t ka va =>
      intro z hz
      simp only [hz, Bool.and_eq_true] at h1
      constructor
      · intro k hk; subst hk; simpa using h1.1
      · intro v hv; subst hv; simpa using h1.2
    | assignMap t ks vs kvs => exact (sizedB_iff _ _).mp h1
    | getK => trivial
    | memK => trivial
    | remK => trivial
    | newOdd => trivial

end Cello.RB
