/-
  C14 helper lemmas: the printf grammar of the property (flags, width, precision, length modifier, conversion) is
  inside the scanner-level grammar `Seg.wf`; facts about the reference semantics `refRun` (who can raise what).
-/
import Cello.Fmt

namespace Cello.Fmt

/-! ### the printf grammar -/

/-- characters a specification body of the printf grammar can contain -/
def bodyChars : Str := flagChars ++ digitChars ++ ['.'] ++ ['h', 'l', 'j', 'z', 't']

theorem mem_or_dropWhile (p : Char → Bool) : ∀ (l : Str) (x : Char), x ∈ l → p x = true ∨ x ∈ l.dropWhile p := by
  intro l
  induction l with
  | nil => intro x hx; simp at hx
  | cons a l ih =>
    intro x hx
    by_cases ha : p a = true
    · rcases List.mem_cons.1 hx with rfl | hx
      · exact Or.inl ha
      · rcases ih x hx with h | h
        · exact Or.inl h
        · right; simpa [List.dropWhile_cons, ha] using h
    · right; simpa [List.dropWhile_cons, ha] using hx

theorem lens_chars : ∀ c : Char, ∀ r ∈ lensFor c, ∀ x ∈ r, x ∈ ['h', 'l', 'j', 'z', 't'] := by
  intro c r hr x hx
  unfold lensFor at hr
  split at hr
  · revert x; revert r; decide
  · split at hr
    · revert x; revert r; decide
    · split at hr
      · revert x; revert r; decide
      · simp at hr

theorem specOK_body {b : Str} {c : Char} (h : specOK b c = true) : ∀ x ∈ b, x ∈ bodyChars := by
  intro x hx
  unfold specOK at h
  simp only [decide_eq_true_eq] at h
  rcases mem_or_dropWhile (· ∈ flagChars) b x hx with h1 | h1
  · simp only [decide_eq_true_eq] at h1; simp [bodyChars, h1]
  rcases mem_or_dropWhile (· ∈ digitChars) _ x h1 with h2 | h2
  · simp only [decide_eq_true_eq] at h2; simp [bodyChars, h2]
  generalize hr : (b.dropWhile (· ∈ flagChars)).dropWhile (· ∈ digitChars) = r at h h2
  have hl : ∀ y ∈ ['h', 'l', 'j', 'z', 't'], y ∈ bodyChars := by decide
  split at h
  · rename_i r'
    rcases List.mem_cons.1 h2 with rfl | h3
    · decide
    rcases mem_or_dropWhile (· ∈ digitChars) r' x h3 with h4 | h4
    · simp only [decide_eq_true_eq] at h4; simp [bodyChars, h4]
    · exact hl x (lens_chars c _ h x h4)
  · exact hl x (lens_chars c _ h x h2)

theorem specOK_conv {b : Str} {c : Char} (h : specOK b c = true) :
    c ∈ intConvs ∨ c ∈ fltConvs ∨ c ∈ ['c', 's', 'p', '$'] := by
  unfold specOK at h
  simp only [decide_eq_true_eq] at h
  unfold lensFor at h
  split at h
  · left; assumption
  · split at h
    · right; left; assumption
    · split at h
      · right; right; assumption
      · simp at h

/-- if the scan set contains every conversion of the grammar and none of the body characters, a specification of the
    printf grammar is a well-formed segment -/
theorem specOK_wf (conv : Str)
    (hconv : ∀ c, (c ∈ intConvs ∨ c ∈ fltConvs ∨ c ∈ ['c', 's', 'p', '$']) → c ∈ conv)
    (hbody : ∀ x ∈ bodyChars, x ∉ conv)
    {b : Str} {c : Char} (h : specOK b c = true) : (Seg.spec b c).wf conv = true := by
  have hb := specOK_body h
  have hc := specOK_conv h
  have hall : ∀ y ∈ intConvs ++ fltConvs ++ ['c', 's', 'p', '$'], y ≠ NUL := by decide
  have hcn : c ≠ NUL := hall c (by
    rcases hc with hc | hc | hc
    · exact List.mem_append_left _ (List.mem_append_left _ hc)
    · exact List.mem_append_left _ (List.mem_append_right _ hc)
    · exact List.mem_append_right _ hc)
  have hbn : ∀ x ∈ bodyChars, x ≠ NUL ∧ x ≠ '%' := by decide
  simp only [Seg.wf, Bool.and_eq_true, decide_eq_true_eq, List.all_eq_true, ne_eq]
  refine ⟨⟨⟨hconv c hc, by simpa using hcn⟩, fun x hx => ?_⟩, ?_⟩
  · have := hbn x (hb x hx); simp [hbody x (hb x hx), this.1]
  · cases b with
    | nil => simp
    | cons a b => have := hbn a (hb a (by simp)); simpa using this.2

/-! ### the reference semantics -/

variable (cfg : Cfg) (prim : Prim) (shw : Obj → Out → Out × Outcome)

theorem call_not_oob (hg : prim.Guarded) (o : Out) (frag : Str) (v : PVal) : (o.call prim frag v).2 ≠ .oob := by
  simp only [Out.call, Out.callOc]
  split
  · cases hs : o.sink with
    | str s => simp [Sink.reject, hg s o.pos]
    | file c => simp [Sink.reject]
  · simp

/-- an argument `print_to_with` can hand to any conversion without undefined behaviour: it is not the destination itself
    and its `show` does not report any -/
def ArgSafe (a : Obj) : Prop := a.isSink = false ∧ ∀ o, (shw a o).2 ≠ .oob

theorem action_not_oob (hg : prim.Guarded) (k : Kind) (buf : Str) (a : Obj) (ha : ArgSafe shw a) (o : Out) :
    (action prim shw k buf a o).2 ≠ .oob := by
  cases k with
  | «show» => exact ha.2 o
  | cstr =>
    have hns : action prim shw .cstr buf a o =
        match cStr a with
        | .ok s => o.call prim buf (.cstr s)
        | .error e => (o, .raised e) := by
      cases a <;> first | rfl | exact absurd ha.1 (by decide)
    rw [hns]; split <;> first | exact call_not_oob prim hg _ _ _ | simp
  | cint => simp only [action]; split <;> first | exact call_not_oob prim hg _ _ _ | simp
  | cfloat => simp only [action]; split <;> first | exact call_not_oob prim hg _ _ _ | simp
  | obj => exact call_not_oob prim hg _ _ _

theorem dispatch_not_oob (hg : prim.Guarded) (c : Char) (buf : Str) (a : Obj) (ha : ArgSafe shw a) :
    ∀ (d : List (Matcher × Kind)) (o : Out), (dispatch prim shw d c buf a o).2 ≠ .oob := by
  intro d
  induction d with
  | nil => intro o; simp [dispatch]
  | cons mk r ih =>
    intro o
    obtain ⟨m, k⟩ := mk
    simp only [dispatch]
    split
    · have := action_not_oob prim shw hg k buf a ha o
      rcases hact : action prim shw k buf a o with ⟨o', oc⟩
      rw [hact] at this
      cases oc with
      | ok => simpa using ih o'
      | raised e => simp
      | oob => simp at this
    · exact ih o

theorem refRun_not_oob (hg : prim.Guarded) (args : List Obj) (hs : ∀ a ∈ args, ArgSafe shw a) :
    ∀ (segs : List Seg) (k : Nat) (o : Out), (refRun cfg prim shw args segs k o).2 ≠ .oob := by
  intro segs
  induction segs with
  | nil => intro k o; simp [refRun]
  | cons s r ih =>
    intro k o
    cases s with
    | lit s =>
      simp only [refRun]
      have := call_not_oob prim hg o s .none
      rcases hc : o.call prim s .none with ⟨o', oc⟩
      rw [hc] at this
      cases oc with
      | ok => simpa using ih k o'
      | raised e => simp
      | oob => simp at this
    | pct =>
      simp only [refRun]
      have := call_not_oob prim hg o ['%', '%'] .none
      rcases hc : o.call prim ['%', '%'] .none with ⟨o', oc⟩
      rw [hc] at this
      cases oc with
      | ok => simpa using ih k o'
      | raised e => simp
      | oob => simp at this
    | spec b c =>
      simp only [refRun]
      cases hk : args[k]? with
      | none => simp
      | some a =>
        have := dispatch_not_oob prim shw hg c ('%' :: (b ++ [c])) a (hs a (List.mem_of_getElem? hk)) cfg.disp o
        rcases hd : dispatch prim shw cfg.disp c ('%' :: (b ++ [c])) a o with ⟨o', oc⟩
        rw [hd] at this
        simp only [hd]
        cases oc with
        | ok => simpa using ih (k + 1) o'
        | raised e => simp
        | oob => simp at this

/-- libc accepts every literal run and `%%`, and every specification that has an argument converts it without raising
    (in particular libc accepts it), whatever the destination -/
def AllOk (args : List Obj) : List Seg → Nat → Prop
  | [], _ => True
  | .lit s :: r, k => prim.rej s .none = false ∧ AllOk args r k
  | .pct :: r, k => prim.rej ['%', '%'] .none = false ∧ AllOk args r k
  | .spec b c :: r, k =>
    (∀ a, args[k]? = some a → ∀ o, (dispatch prim shw cfg.disp c ('%' :: (b ++ [c])) a o).2 = .ok) ∧ AllOk args r (k + 1)

theorem call_of_acc (o : Out) {frag : Str} {v : PVal} (h : prim.rej frag v = false) :
    o.call prim frag v = (o.formatTo prim frag v, .ok) := by
  simp [Out.call, Out.callOc, h]

theorem refRun_outcome (args : List Obj) : ∀ (segs : List Seg) (k : Nat) (o : Out), AllOk cfg prim shw args segs k →
    k ≤ args.length →
    ((refRun cfg prim shw args segs k o).2 = .ok ∧ k + nspecs segs ≤ args.length) ∨
    ((refRun cfg prim shw args segs k o).2 = .raised .FormatError ∧ args.length < k + nspecs segs) := by
  intro segs
  induction segs with
  | nil => intro k o _ hk; left; simpa [refRun, nspecs] using hk
  | cons s r ih =>
    intro k o hok hkl
    cases s with
    | lit s => simpa [refRun, nspecs, call_of_acc prim o hok.1] using ih k _ hok.2 hkl
    | pct => simpa [refRun, nspecs, call_of_acc prim o hok.1] using ih k _ hok.2 hkl
    | spec b c =>
      simp only [refRun, nspecs]
      cases hk : args[k]? with
      | none =>
        right
        have : args.length ≤ k := by simpa using hk
        exact ⟨rfl, by omega⟩
      | some a =>
        have hd := hok.1 a hk o
        rcases hdd : dispatch prim shw cfg.disp c ('%' :: (b ++ [c])) a o with ⟨o', oc⟩
        rw [hdd] at hd
        simp only at hd
        subst hd
        have hlt : k < args.length := by
          rcases Nat.lt_or_ge k args.length with h | h
          · exact h
          · have := List.getElem?_eq_none h; rw [this] at hk; cases hk
        have := ih (k + 1) o' hok.2 hlt
        simp only [hdd]
        rcases this with h | h
        · left; exact ⟨h.1, by omega⟩
        · right; exact ⟨h.1, by omega⟩

end Cello.Fmt
