/-
  Lemmas for C06, part 5: `del(NULL)` and abandoned mark phases.

  (a) With the NULL guard of `GC_Rem_Ptr` (fix d3e4e44, `c.remGuardsNull`) no piece of the collector ever executes
      `dealloc(destruct(NULL))`: the flag `St.ub` is never set — by any operation, destructor cascade or nested
      collection, for every configuration that has the guard.
  (b) A mark phase that an exception leaves (`Op.markAbort`) changes nothing but `St.marked`.
-/
import CelloProofs.Lemmas.LifeSafe

namespace Cello.Life

/-! ### (a) `ub` is never set -/

theorem gcRemNull_ub {c : Cfg} (hc : c.remGuardsNull = true) (s : St) : (gcRemNull c s).ub = s.ub := by
  unfold gcRemNull
  cases hr : s.running <;> simp [hc]

theorem gcRemPtr_ub {fin : St → Addr → St} (hfin : ∀ s a, (fin s a).ub = s.ub) (c : Cfg) (s : St) (x : Addr) :
    (gcRemPtr fin c s x).ub = s.ub := by
  unfold gcRemPtr
  split
  · split
    · rw [hfin]
    · rfl
  · split
    · rw [hfin]
    · rfl

theorem gcRem_ub {fin : St → Addr → St} (hfin : ∀ s a, (fin s a).ub = s.ub) (c : Cfg) (s : St) (x : Addr) :
    (gcRem fin c s x).ub = s.ub := by
  unfold gcRem
  split
  · rfl
  · exact gcRemPtr_ub hfin c s x

theorem foldl_ub {α : Type} {f : St → α → St} (hf : ∀ s x, (f s x).ub = s.ub) (l : List α) :
    ∀ s, (l.foldl f s).ub = s.ub := by
  induction l with
  | nil => intro s; rfl
  | cons x l ih => intro s; rw [List.foldl_cons, ih, hf]

theorem sweepLoopWith_ub {fin : St → Addr → St} (hfin : ∀ s a, (fin s a).ub = s.ub) (c : Cfg) (todo : List Addr) :
    ∀ s, (sweepLoopWith fin c todo s).ub = s.ub := by
  induction todo with
  | nil => intro s; rfl
  | cons a rest ih =>
    intro s
    unfold sweepLoopWith
    rw [ih]
    split
    · rw [hfin]; split <;> rfl
    · rfl

theorem sweepWith_ub {fin : St → Addr → St} (hfin : ∀ s a, (fin s a).ub = s.ub) (c : Cfg) (s : St)
    (marks order : List Addr) : (sweepWith fin c s marks order).ub = s.ub := by
  unfold sweepWith
  show (sweepLoopWith fin c _ _).ub = s.ub
  rw [sweepLoopWith_ub hfin]

theorem gcSet_ub {sw : St → List Addr → List Addr → St} (hsw : ∀ s m o, (sw s m o).ub = s.ub) (c : Cfg) (s : St)
    (a : Addr) (root : Bool) (marks order : List Addr) : (gcSet sw c s a root marks order).ub = s.ub := by
  unfold gcSet
  split
  · rfl
  · show (if _ then sw _ _ _ else _).ub = s.ub
    split
    · rw [hsw]
    · rfl

/-- **the destructor cascade never dereferences NULL** (with the guard of fix d3e4e44) -/
theorem finalise_ub {c : Cfg} (hc : c.remGuardsNull = true) : ∀ (f : Nat) (s : St) (a : Addr), (finalise f c s a).ub = s.ub := by
  intro f
  induction f with
  | zero => intro s a; rfl
  | succ f ih =>
    intro s a
    unfold finalise
    show (if s.nulldel.contains a then gcRemNull c _ else _).ub = s.ub
    have hfold : ((s.ownsOf a).foldl (fun st x => gcRem (finalise f c) c st x)
        ((s.dallocOf a).foldl (fun st d => gcSet (sweepWith (finalise f c) c) c st d.addr false d.marks d.order)
          { s with log := s.log ++ [Ev.fin a] })).ub = s.ub := by
      rw [foldl_ub (fun st x => gcRem_ub ih c st x)]
      rw [foldl_ub (f := fun st (d : DAlloc) => gcSet (sweepWith (finalise f c) c) c st d.addr false d.marks d.order)
        (fun st d => gcSet_ub (fun s m o => sweepWith_ub ih c s m o) c st d.addr false d.marks d.order)]
    split
    · rw [gcRemNull_ub hc, hfold]
    · exact hfold

theorem sweep_ub {c : Cfg} (hc : c.remGuardsNull = true) (s : St) (marks order : List Addr) :
    (sweep c s marks order).ub = s.ub :=
  sweepWith_ub (finalise_ub hc _) c s marks order

theorem sweepAll_ub {c : Cfg} (hc : c.remGuardsNull = true) (order : List Addr) :
    ∀ (n : Nat) (s : St), (sweepAll c n s order).ub = s.ub := by
  intro n
  induction n with
  | zero => intro s; rfl
  | succ n ih =>
    intro s
    show (if ((sweep c s [] order).reg.any fun e => !e.root) = true
      then sweepAll c n (sweep c s [] order) order else sweep c s [] order).ub = s.ub
    split
    · rw [ih, sweep_ub hc]
    · exact sweep_ub hc s [] order

theorem allocBy_ub {c : Cfg} (hc : c.remGuardsNull = true) (s : St) (a : Addr) (k : Kind) (marks order : List Addr) :
    (allocBy c s a k marks order).ub = s.ub := by
  cases k with
  | raw => rfl
  | std => exact gcSet_ub (fun s m o => sweep_ub hc s m o) c s a _ marks order
  | root => exact gcSet_ub (fun s m o => sweep_ub hc s m o) c s a _ marks order

/-- no operation of the model sets `ub` -/
theorem step_ub {c : Cfg} (hc : c.remGuardsNull = true) (s : St) (op : Op) : (step c s op).ub = s.ub := by
  cases op with
  | new a k owned marks order => exact allocBy_ub hc s a k marks order
  | own a owned => rfl
  | del a k =>
    cases k with
    | raw => exact finalise_ub hc _ s a
    | std => exact gcRem_ub (finalise_ub hc _) c s a
    | root => exact gcRem_ub (finalise_ub hc _) c s a
  | collect marks order => exact sweep_ub hc s _ order
  | stop => rfl
  | start => rfl
  | teardown order =>
    show (if c.teardownRepeats then sweepAll c (fuelFor s) s order else sweep c s (teardownBits c s) order).ub = s.ub
    split
    · exact sweepAll_ub hc order _ s
    · exact sweep_ub hc s _ order
  | alloc a k marks order => exact allocBy_ub hc s a k marks order
  | dealloc a k => exact finalise_ub hc _ s a
  | dtor a l => rfl
  | markAbort marks => rfl
  | nulldel a => rfl
  | delNull => exact gcRemNull_ub hc s
  | typed b t => rfl
  | raises a => rfl

theorem run_ub {c : Cfg} (hc : c.remGuardsNull = true) : ∀ (ops : List Op) (s : St), (run c s ops).ub = s.ub := by
  intro ops
  induction ops with
  | nil => intro s; rfl
  | cons op ops ih =>
    intro s
    show (run c (step c s op) ops).ub = s.ub
    rw [ih, step_ub hc]

/-! ### (b) an abandoned mark phase touches the mark bits only -/

theorem step_markAbort_fields (c : Cfg) (s : St) (marks : List Addr) :
    (step c s (.markAbort marks)).reg = s.reg ∧ (step c s (.markAbort marks)).pending = s.pending ∧
    (step c s (.markAbort marks)).running = s.running ∧ (step c s (.markAbort marks)).mitems = s.mitems ∧
    (step c s (.markAbort marks)).owns = s.owns ∧ (step c s (.markAbort marks)).log = s.log ∧
    (step c s (.markAbort marks)).dalloc = s.dalloc ∧ (step c s (.markAbort marks)).nulldel = s.nulldel ∧
    (step c s (.markAbort marks)).ub = s.ub :=
  ⟨rfl, rfl, rfl, rfl, rfl, rfl, rfl, rfl, rfl⟩

/-- in the code that exists a sweep does not depend on the mark bits left in the state (it is given the bits it reads, and
    clears the rest) -/
theorem sweep_ignores_marked (c : Cfg) (s : St) (stale marks order : List Addr) :
    sweep c { s with marked := stale } marks order = sweep c s marks order := rfl

end Cello.Life
