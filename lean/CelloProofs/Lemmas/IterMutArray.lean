/- helper lemmas for C11: the backing store of an Array (`AR`) under every mutation — the first `nitems` cells are
   initialised and hold the abstract sequence, `nitems ≤ nslots` — and iteration over such an Array is lawful -/
import Cello.IterMut
import CelloProofs.Lemmas.IterMutList

namespace Cello.Iter

/-- Array: the abstract effect and the outcome of one mutation -/
def arraySpec {α : Type} [DecidableEq α] (vs : List α) : SOp α → List α × MOut
  | .push v => (vs ++ [v], .ok)
  | .pop => if vs.length = 0 then (vs, .index) else (vs.take (vs.length - 1), .ok)
  | .pushAt v i =>
    if (if i < 0 then (vs.length : Int) + 1 + i else i) < 0 ∨ (if i < 0 then (vs.length : Int) + 1 + i else i) > (vs.length : Int)
    then (vs, .index)
    else (vs.take (if i < 0 then (vs.length : Int) + 1 + i else i).toNat ++
          v :: vs.drop (if i < 0 then (vs.length : Int) + 1 + i else i).toNat, .ok)
  | .popAt i => match idxOf vs.length i with
    | none => (vs, .index)
    | some k => (vs.take k ++ vs.drop (k + 1), .ok)
  | .rem v => if v ∈ vs then (vs.erase v, .ok) else (vs, .value)
  | .put i v => match idxOf vs.length i with
    | none => (vs, .index)
    | some k => (vs.take k ++ v :: vs.drop (k + 1), .ok)
  | .concat ws => (vs ++ ws, .ok)
  | .resize n => (vs.take n, .ok)

namespace AR
variable {α : Type}

/-- **the store invariant**: cells `0 … nitems-1` are initialised and hold `vs` (so `nitems ≤ nslots`) -/
structure Holds (a : AR α) (vs : List α) : Prop where
  cells : a.store.take a.nitems = vs.map some
  count : a.nitems = vs.length

theorem Holds.le {a : AR α} {vs : List α} (h : Holds a vs) : a.nitems ≤ a.store.length := by
  have := congrArg List.length h.cells
  simp only [List.length_take, List.length_map, ← h.count] at this
  omega

theorem realloc_length (s : List (Option α)) (n : Nat) : (realloc s n).length = n := by
  simp only [realloc, List.length_append, List.length_take, List.length_replicate]; omega

theorem realloc_take (s : List (Option α)) (n m : Nat) (h1 : m ≤ n) (h2 : m ≤ s.length) :
    (realloc s n).take m = s.take m := by
  simp only [realloc]
  rw [List.take_append_of_le_length (by simp only [List.length_take]; omega), List.take_take]
  congr 1; omega

/-- `Array_Reserve_More` keeps the initialised cells and makes room for `nitems` cells -/
theorem reserveMore_spec (s : List (Option α)) (m n0 : Nat) (h : n0 ≤ s.length) (_hm : n0 ≤ m) :
    (reserveMore ⟨s, m⟩).nitems = m ∧ m ≤ (reserveMore ⟨s, m⟩).store.length ∧
    (reserveMore ⟨s, m⟩).store.take n0 = s.take n0 := by
  simp only [reserveMore]
  split
  · exact ⟨rfl, by simp only [realloc_length]; omega, realloc_take s _ n0 (by omega) h⟩
  · exact ⟨rfl, by simp only; omega, rfl⟩

/-- `Array_Reserve_Less` keeps cells `0 … nitems-1` -/
theorem reserveLess_spec (s : List (Option α)) (m : Nat) (h : m ≤ s.length) :
    (reserveLess ⟨s, m⟩).nitems = m ∧ m ≤ (reserveLess ⟨s, m⟩).store.length ∧
    (reserveLess ⟨s, m⟩).store.take m = s.take m := by
  simp only [reserveLess]
  split
  · exact ⟨rfl, by simp only [realloc_length]; omega, realloc_take s m m (Nat.le_refl _) h⟩
  · exact ⟨rfl, h, rfl⟩

theorem take_succ_set (s : List (Option α)) (n : Nat) (x : Option α) (h : n < s.length) :
    (s.set n x).take (n + 1) = s.take n ++ [x] := by
  rw [List.take_add_one, List.take_set_of_le (Nat.le_refl _), List.getElem?_set_self h]
  rfl

theorem push_holds (a : AR α) (vs : List α) (h : Holds a vs) (v : α) :
    ∃ a', a.push v = (a', .ok) ∧ Holds a' (vs ++ [v]) := by
  obtain ⟨h1, h2, h3⟩ := reserveMore_spec a.store (a.nitems + 1) a.nitems h.le (by omega)
  have hlt : a.nitems < (reserveMore ⟨a.store, a.nitems + 1⟩).store.length := by omega
  refine ⟨⟨(reserveMore ⟨a.store, a.nitems + 1⟩).store.set a.nitems (some v), a.nitems + 1⟩, ?_, ?_, ?_⟩
  · simp only [push, write, h1, Nat.add_sub_cancel, hlt, if_true]
  · simp only
    rw [take_succ_set _ _ _ hlt, h3, h.cells]; simp
  · simp [h.count]

theorem pop_holds (a : AR α) (vs : List α) (h : Holds a vs) :
    (vs = [] ∧ a.pop = (a, .index)) ∨ (vs ≠ [] ∧ ∃ a', a.pop = (a', .ok) ∧ Holds a' (vs.take (vs.length - 1))) := by
  by_cases e : vs = []
  · refine Or.inl ⟨e, ?_⟩
    have : a.nitems = 0 := by rw [h.count, e]; rfl
    simp [pop, this]
  · refine Or.inr ⟨e, ?_⟩
    have hn : a.nitems ≠ 0 := by rw [h.count]; exact fun c => e (List.length_eq_zero_iff.mp c)
    obtain ⟨h1, h2, h3⟩ := reserveLess_spec a.store (a.nitems - 1) (by have := h.le; omega)
    refine ⟨reserveLess ⟨a.store, a.nitems - 1⟩, by simp only [pop, hn, if_false], ?_, ?_⟩
    · rw [h1, h3]
      have : a.store.take (a.nitems - 1) = (a.store.take a.nitems).take (a.nitems - 1) := by
        rw [List.take_take]; congr 1; omega
      rw [this, h.cells, h.count, List.map_take]
    · rw [h1, h.count, List.length_take]; omega

theorem pushAt_holds (a : AR α) (vs : List α) (h : Holds a vs) (v : α) (j : Int) (hj0 : ¬ (j < 0 ∨ j > (vs.length : Int))) :
    ∃ s a', moveUp (reserveMore ⟨a.store, a.nitems + 1⟩).store j.toNat (a.nitems - j.toNat) = some s ∧
      (⟨s, a.nitems + 1⟩ : AR α).write j.toNat v = some a' ∧ Holds a' (vs.take j.toNat ++ v :: vs.drop j.toNat) := by
  obtain ⟨h1, h2, h3⟩ := reserveMore_spec a.store (a.nitems + 1) a.nitems h.le (by omega)
  generalize (reserveMore ⟨a.store, a.nitems + 1⟩).store = s1 at h2 h3
  have hc := h.count
  have hk : j.toNat ≤ a.nitems := by omega
  generalize j.toNat = k at hk
  have hmv : k + 1 + (a.nitems - k) ≤ s1.length := by omega
  let s2 := s1.take (k + 1) ++ (s1.drop k).take (a.nitems - k) ++ s1.drop (k + 1 + (a.nitems - k))
  have hl2 : s2.length = s1.length := by
    simp only [s2, List.length_append, List.length_take, List.length_drop]; omega
  refine ⟨s2, ⟨s2.set k (some v), a.nitems + 1⟩, by simp only [moveUp, hmv, if_true, s2], ?_, ?_, ?_⟩
  · simp only [write, hl2]
    rw [if_pos (by omega)]
  · simp only
    have e1 : (s2.set k (some v)) = s1.take k ++ some v :: ((s1.drop k).take (a.nitems - k) ++ s1.drop (k + 1 + (a.nitems - k))) := by
      simp only [s2]
      rw [List.take_add_one, List.append_assoc, List.append_assoc, List.set_append_right _ _ (by simp only [List.length_take]; omega)]
      simp only [List.length_take]
      have : k - min k s1.length = 0 := by omega
      rw [this]
      cases hh : s1[k]? with
      | none => have := List.getElem?_eq_none_iff.mp hh; omega
      | some c => simp
    rw [e1]
    have e2 : (s1.drop k).take (a.nitems - k) = (s1.take a.nitems).drop k := by rw [List.drop_take]
    have e3 : s1.take k = (s1.take a.nitems).take k := by rw [List.take_take]; congr 1; omega
    rw [e2, e3, h3, h.cells]
    have hlen : (List.take k (vs.map some) ++ some v :: (List.drop k (vs.map some) ++ s1.drop (k + 1 + (a.nitems - k)))).take (a.nitems + 1)
        = List.take k (vs.map some) ++ some v :: List.drop k (vs.map some) := by
      have : (List.take k (vs.map some) ++ some v :: List.drop k (vs.map some)).length = a.nitems + 1 := by
        simp only [List.length_append, List.length_take, List.length_cons, List.length_drop, List.length_map]; omega
      rw [← this]
      have e4 : List.take k (vs.map some) ++ some v :: (List.drop k (vs.map some) ++ s1.drop (k + 1 + (a.nitems - k)))
          = (List.take k (vs.map some) ++ some v :: List.drop k (vs.map some)) ++ s1.drop (k + 1 + (a.nitems - k)) := by simp
      rw [e4, List.take_left]
    rw [hlen]
    simp [List.map_take, List.map_drop]
  · simp only [List.length_append, List.length_take, List.length_cons, List.length_drop]; omega

theorem popAt_holds (a : AR α) (vs : List α) (h : Holds a vs) (k : Nat) (hk : k < vs.length) :
    ∃ s, moveDown a.store k (a.nitems - 1 - k) = some s ∧
      Holds (reserveLess ⟨s, a.nitems - 1⟩) (vs.take k ++ vs.drop (k + 1)) := by
  have hc := h.count
  have hle := h.le
  have hmv : k + 1 + (a.nitems - 1 - k) ≤ a.store.length := by omega
  let s2 := a.store.take k ++ (a.store.drop (k + 1)).take (a.nitems - 1 - k) ++ a.store.drop (k + (a.nitems - 1 - k))
  have hl2 : s2.length = a.store.length := by
    simp only [s2, List.length_append, List.length_take, List.length_drop]; omega
  obtain ⟨h1, h2, h3⟩ := reserveLess_spec s2 (a.nitems - 1) (by omega)
  refine ⟨s2, by simp only [moveDown, hmv, if_true, s2], ?_, ?_⟩
  · rw [h1, h3]
    have e2 : (a.store.drop (k + 1)).take (a.nitems - 1 - k) = (a.store.take a.nitems).drop (k + 1) := by
      rw [List.drop_take]; congr 1; omega
    have e3 : a.store.take k = (a.store.take a.nitems).take k := by rw [List.take_take]; congr 1; omega
    simp only [s2]
    rw [e2, e3, h.cells]
    have : (List.take k (vs.map some) ++ List.drop (k + 1) (vs.map some)).length = a.nitems - 1 := by
      simp only [List.length_append, List.length_take, List.length_drop, List.length_map]; omega
    rw [← this, List.take_left]
    simp [List.map_take, List.map_drop]
  · rw [h1]; simp only [List.length_append, List.length_take, List.length_drop]; omega

theorem findIdx_some_spec [DecidableEq α] (v : α) : ∀ (vs : List α),
    (v ∉ vs ∧ (vs.map some).findIdx? (fun c => decide (c = some v)) = none) ∨
    (v ∈ vs ∧ ∃ k, (vs.map some).findIdx? (fun c => decide (c = some v)) = some k ∧ k < vs.length ∧
      vs.take k ++ vs.drop (k + 1) = vs.erase v) := by
  intro vs
  induction vs with
  | nil => exact Or.inl ⟨by simp, rfl⟩
  | cons x r ih =>
    by_cases hx : x = v
    · subst hx
      exact Or.inr ⟨by simp, 0, by simp [List.findIdx?_cons], by simp, by simp⟩
    · rcases ih with ⟨h1, h2⟩ | ⟨h1, k, h2, h3, h4⟩
      · refine Or.inl ⟨by simp [h1, Ne.symm hx], ?_⟩
        simp [List.findIdx?_cons, hx, h2]
      · refine Or.inr ⟨by simp [h1], k + 1, ?_, by simpa using h3, ?_⟩
        · simp [List.findIdx?_cons, hx, h2]
        · have : (x :: r).erase v = x :: r.erase v := by
            rw [List.erase_cons_tail]; simpa using hx
          rw [this, ← h4]; simp

theorem writeAll_spec : ∀ (ws : List α) (a : AR α) (at_ : Nat), at_ + ws.length ≤ a.store.length →
    ∃ a', a.writeAll at_ ws = some a' ∧ a'.nitems = a.nitems ∧ a'.store.length = a.store.length ∧
      a'.store.take (at_ + ws.length) = a.store.take at_ ++ ws.map some := by
  intro ws
  induction ws with
  | nil => intro a at_ _; exact ⟨a, rfl, rfl, rfl, by simp⟩
  | cons w ws ih =>
    intro a at_ hl
    simp only [List.length_cons] at hl
    have hlt : at_ < a.store.length := by omega
    obtain ⟨a', e, n', l', t'⟩ := ih ⟨a.store.set at_ (some w), a.nitems⟩ (at_ + 1) (by simp only [List.length_set]; omega)
    refine ⟨a', by simp only [writeAll, write, hlt, if_true, e], n', by rw [l']; simp, ?_⟩
    have : at_ + (w :: ws).length = at_ + 1 + ws.length := by simp only [List.length_cons]; omega
    rw [this, t', take_succ_set _ _ _ hlt]
    simp

/-- **one mutation** of an Array keeps the store invariant; outcome and elements are those of `arraySpec`; a
    mutation that raises changes nothing -/
theorem step_holds [DecidableEq α] (a : AR α) (vs : List α) (h : Holds a vs) (op : SOp α) :
    ∃ a', AR.step a op = (a', (arraySpec vs op).2) ∧ Holds a' (arraySpec vs op).1 ∧
      ((arraySpec vs op).2 ≠ .ok → a' = a) := by
  cases op with
  | push v =>
    obtain ⟨a', e, c⟩ := push_holds a vs h v
    exact ⟨a', e, c, fun hne => absurd rfl hne⟩
  | pop =>
    simp only [step, arraySpec]
    rcases pop_holds a vs h with ⟨e, p⟩ | ⟨e, a', p, c⟩
    · subst e; exact ⟨a, by simpa using p, h, fun _ => rfl⟩
    · have hl : vs.length ≠ 0 := fun c => e (List.length_eq_zero_iff.mp c)
      simp only [hl, if_false]
      exact ⟨a', p, c, fun hne => absurd rfl hne⟩
  | pushAt v i =>
    simp only [step, arraySpec, pushAt, h.count]
    generalize (if i < 0 then (vs.length : Int) + 1 + i else i) = j
    split
    · exact ⟨a, rfl, h, fun _ => rfl⟩
    · next hj =>
      obtain ⟨s, a', e1, e2, c⟩ := pushAt_holds a vs h v j hj
      have h1 := (reserveMore_spec a.store (a.nitems + 1) a.nitems h.le (by omega)).1
      have e1' : moveUp (reserveMore ⟨a.store, vs.length + 1⟩).store j.toNat
          ((reserveMore ⟨a.store, vs.length + 1⟩).nitems - 1 - j.toNat) = some s := by
        rw [← h.count, h1]
        have : a.nitems + 1 - 1 - j.toNat = a.nitems - j.toNat := by omega
        rw [this]; exact e1
      refine ⟨a', ?_, c, fun hne => absurd rfl hne⟩
      simp only [e1']
      have : ({ reserveMore ⟨a.store, vs.length + 1⟩ with store := s } : AR α) = ⟨s, a.nitems + 1⟩ := by
        rw [← h.count]; simp only [h1]
      rw [this, e2]
  | popAt i =>
    simp only [step, arraySpec, popAt, h.count]
    unfold idxOf normI
    generalize (if i < 0 then (vs.length : Int) + i else i) = j
    split
    · exact ⟨a, rfl, h, fun _ => rfl⟩
    · next hj =>
      obtain ⟨s, e1, c⟩ := popAt_holds a vs h j.toNat (by omega)
      rw [h.count] at e1 c
      exact ⟨_, by simp only [e1], c, fun hne => absurd rfl hne⟩
  | rem v =>
    simp only [step, arraySpec, rem, h.cells]
    rcases findIdx_some_spec v vs with ⟨h1, h2⟩ | ⟨h1, k, h2, h3, h4⟩
    · simp only [h1, if_false, h2]; exact ⟨a, rfl, h, fun _ => rfl⟩
    · simp only [h1, if_true, h2]
      obtain ⟨s, e1, c⟩ := popAt_holds a vs h k h3
      have hk1 : ¬ ((k : Int) < 0) := by omega
      have hk2 : ¬ ((k : Int) ≥ (a.nitems : Int)) := by rw [h.count]; omega
      refine ⟨_, ?_, by rw [← h4]; exact c, fun hne => absurd rfl hne⟩
      simp only [popAt, hk1, if_false, false_or, hk2, Int.toNat_natCast, e1]
  | put i v =>
    simp only [step, arraySpec, put, h.count]
    unfold idxOf normI
    generalize (if i < 0 then (vs.length : Int) + i else i) = j
    split
    · exact ⟨a, rfl, h, fun _ => rfl⟩
    · next hj =>
      have hk : j.toNat < vs.length := by omega
      have hlt : j.toNat < a.store.length := by have := h.le; have := h.count; omega
      refine ⟨⟨a.store.set j.toNat (some v), a.nitems⟩, by simp only [write, hlt, if_true], ⟨?_, ?_⟩, fun hne => absurd rfl hne⟩
      · simp only
        rw [List.take_set, h.cells]
        have : (vs.map some).set j.toNat (some v) = (vs.set j.toNat v).map some := by rw [List.map_set]
        rw [this, List.set_eq_take_append_cons_drop, if_pos hk]
      · simp only [List.length_append, List.length_take, List.length_cons, List.length_drop]
        have := h.count; omega
  | concat ws =>
    simp only [step, arraySpec, concat]
    obtain ⟨h1, h2, h3⟩ := reserveMore_spec a.store (a.nitems + ws.length) a.nitems h.le (by omega)
    obtain ⟨a', e, n', l', t'⟩ := writeAll_spec ws (reserveMore ⟨a.store, a.nitems + ws.length⟩) a.nitems (by omega)
    refine ⟨a', by simp only [e], ⟨?_, ?_⟩, fun hne => absurd rfl hne⟩
    · rw [n', h1, t', h3, h.cells]; simp
    · rw [n', h1, h.count]; simp
  | resize n =>
    simp only [step, arraySpec, resize]
    split
    · next hn => subst hn; exact ⟨_, rfl, ⟨by simp, by simp⟩, fun hne => absurd rfl hne⟩
    · refine ⟨_, rfl, ⟨?_, ?_⟩, fun hne => absurd rfl hne⟩
      · simp only
        split
        · next hlt =>
          rw [realloc_take _ _ _ (Nat.le_refl _) (by have := h.le; omega)]
          have : a.store.take n = (a.store.take a.nitems).take n := by rw [List.take_take]; congr 1; omega
          rw [this, h.cells, List.map_take]
        · next hge =>
          rw [realloc_take _ _ _ (by omega) h.le, h.cells, List.take_of_length_le (by have := h.count; omega)]
      · simp only [List.length_take]
        have := h.count
        split <;> omega

/-- the abstract run of a history of Array mutations -/
def specRun {α : Type} [DecidableEq α] : List α → List (SOp α) → List α × List MOut
  | vs, [] => (vs, [])
  | vs, op :: ops =>
    let (vs1, o) := arraySpec vs op
    let (vs2, os) := specRun vs1 ops
    (vs2, o :: os)

theorem arraySpec_ne_undef [DecidableEq α] (vs : List α) (op : SOp α) : (arraySpec vs op).2 ≠ .undef := by
  cases op <;> simp only [arraySpec] <;> (repeat' split) <;> simp

/-- **every history** keeps the store invariant -/
theorem run_holds [DecidableEq α] : ∀ (ops : List (SOp α)) (a : AR α) (vs : List α), Holds a vs →
    ∃ a', AR.run a ops = (a', (specRun vs ops).2) ∧ Holds a' (specRun vs ops).1 := by
  intro ops
  induction ops with
  | nil => intro a vs h; exact ⟨a, rfl, h⟩
  | cons op ops ih =>
    intro a vs h
    obtain ⟨a1, e1, c1, _⟩ := step_holds a vs h op
    obtain ⟨a2, e2, c2⟩ := ih a1 _ c1
    refine ⟨a2, ?_, by simpa only [specRun] using c2⟩
    have hne := arraySpec_ne_undef vs op
    simp only [run, specRun]
    rw [e1]
    generalize hso : (arraySpec vs op) = so at hne e1
    obtain ⟨vs1, o⟩ := so
    cases o <;> simp_all

theorem specRun_no_undef [DecidableEq α] : ∀ (ops : List (SOp α)) (vs : List α),
    (specRun vs ops).2.contains .undef = false := by
  intro ops
  induction ops with
  | nil => intro vs; rfl
  | cons op ops ih =>
    intro vs
    have h1 := arraySpec_ne_undef vs op
    have h2 := ih (arraySpec vs op).1
    simp only [specRun, List.contains_cons, Bool.or_eq_false_iff]
    exact ⟨by simpa using fun e => h1 e.symm, h2⟩

theorem holds_empty : Holds (empty : AR α) [] := ⟨rfl, rfl⟩

theorem pushAll_holds : ∀ (ws : List α) (a : AR α) (vs : List α), Holds a vs →
    ∃ a', a.pushAll ws = (a', .ok) ∧ Holds a' (vs ++ ws) := by
  intro ws
  induction ws with
  | nil => intro a vs h; exact ⟨a, rfl, by simpa using h⟩
  | cons w ws ih =>
    intro a vs h
    obtain ⟨a1, e1, c1⟩ := push_holds a vs h w
    obtain ⟨a2, e2, c2⟩ := ih a1 _ c1
    exact ⟨a2, by simp only [pushAll, e1, e2], by simpa using c2⟩

theorem new_holds (vs : List α) : ∃ a, AR.new vs = (a, .ok) ∧ Holds a vs := by
  obtain ⟨a, e, c⟩ := pushAll_holds vs empty [] holds_empty
  exact ⟨a, e, by simpa using c⟩

end AR

/-! ### iteration over an Array whose store holds `vs` -/

theorem ar_read {α : Type} (a : AR α) (vs : List α) (h : AR.Holds a vs) (i : Nat) (hi : i < vs.length) :
    a.read i = (some i, .item vs[i]) := by
  have h1 : a.store[i]? = (a.store.take a.nitems)[i]? := by
    rw [List.getElem?_take_of_lt (by rw [h.count]; exact hi)]
  simp only [AR.read, h1, h.cells, List.getElem?_map, List.getElem?_eq_getElem hi, Option.map_some]

theorem ar_fwd_from {α : Type} (a : AR α) (vs : List α) (h : AR.Holds a vs) : ∀ (m i : Nat) (hi : i < vs.length),
    vs.length - i = m → Run (arI a).next (some i, .item vs[i]) (vs.drop i) := by
  intro m
  induction m with
  | zero => intro i hi hm; omega
  | succ m ih =>
    intro i hi hm
    rw [List.drop_eq_getElem_cons hi]
    refine Run.item _ _ _ ?_
    by_cases hl : i + 1 ≥ a.nitems
    · have : vs.drop (i + 1) = [] := List.drop_eq_nil_of_le (by rw [← h.count]; exact hl)
      simp only [arI, hl, if_true, this]
      exact Run.term _
    · have hlt : i + 1 < vs.length := by rw [← h.count]; omega
      simp only [arI, hl, if_false, ar_read a vs h (i + 1) hlt]
      exact ih (i + 1) hlt (by omega)

theorem ar_bwd_from {α : Type} (a : AR α) (vs : List α) (h : AR.Holds a vs) : ∀ (i : Nat) (hi : i < vs.length),
    Run (arI a).prev (some i, .item vs[i]) (vs.take (i + 1)).reverse := by
  intro i
  induction i with
  | zero =>
    intro hi
    have : vs.take 1 = [vs[0]] := by
      cases vs with
      | nil => simp at hi
      | cons x t => simp
    rw [this]
    refine Run.item _ _ _ ?_
    simp only [arI, Nat.le_refl, if_true]
    exact Run.term _
  | succ i ih =>
    intro hi
    have hi' : i < vs.length := by omega
    have : vs.take (i + 1 + 1) = vs.take (i + 1) ++ [vs[i + 1]] := by
      rw [List.take_add_one, List.getElem?_eq_getElem hi]; rfl
    rw [this, List.reverse_append]
    refine Run.item _ _ _ ?_
    have hne : ¬ (i + 1 ≤ 0) := by omega
    simp only [arI, hne, if_false, Nat.add_sub_cancel, ar_read a vs h i hi']
    exact ih hi'

/-- **an Array whose store holds `vs` iterates lawfully over `vs`** -/
theorem ar_lawfulAs {α : Type} (a : AR α) (vs : List α) (h : AR.Holds a vs) : LawfulAs (arI a) vs := by
  refine ⟨?_, ?_, ?_, ?_⟩
  · intro s
    by_cases h0 : vs.length = 0
    · have e : vs = [] := List.length_eq_zero_iff.mp h0
      have : a.nitems = 0 := by rw [h.count]; exact h0
      subst e
      simp only [arI, this, if_true]
      exact Run.term _
    · have hp : 0 < vs.length := by omega
      have hn : a.nitems ≠ 0 := by rw [h.count]; exact h0
      have := ar_fwd_from a vs h vs.length 0 hp rfl
      simpa [arI, hn, ar_read a vs h 0 hp] using this
  · intro s
    by_cases h0 : vs.length = 0
    · have e : vs = [] := List.length_eq_zero_iff.mp h0
      have : a.nitems = 0 := by rw [h.count]; exact h0
      subst e
      simp only [arI, this, if_true]
      exact Run.term _
    · have hp : vs.length - 1 < vs.length := by omega
      have hn : a.nitems ≠ 0 := by rw [h.count]; exact h0
      have := ar_bwd_from a vs h (vs.length - 1) hp
      have e : vs.length - 1 + 1 = vs.length := by omega
      rw [e, List.take_length] at this
      have hne : vs ≠ [] := fun c => h0 (by simp [c])
      simpa [arI, hn, hne, h.count, ar_read a vs h _ hp] using this
  · intro n hn
    simp only [arI, Option.some.injEq] at hn
    rw [← hn, h.count]
  · intro g hg i hi
    simp only [arI, Option.some.injEq] at hg
    subst hg
    have h1 : ¬ ((Int.ofNat i) < 0) := by simp
    have h2 : ¬ (False ∨ (Int.ofNat i) ≥ (a.nitems : Int)) := by rw [h.count]; simp; omega
    have h3 : a.store[i]? = some (some vs[i]) := by
      have h4 : a.store[i]? = (a.store.take a.nitems)[i]? := by
        rw [List.getElem?_take_of_lt (by rw [h.count]; exact hi)]
      rw [h4, h.cells, List.getElem?_map, List.getElem?_eq_getElem hi]; rfl
    simp only [h1, if_false]
    rw [if_neg h2]
    have h5 : (Int.ofNat i).toNat = i := rfl
    rw [h5, h3]

end Cello.Iter
