/-
  Helper lemmas for C09, part 2: `valCmp` on the whole value universe (nested containers), float keys as bit patterns.
-/
import Cello.Cmp
import CelloGen.Cmp
import CelloProofs.Lemmas.Cmp

set_option linter.unusedSimpArgs false
set_option linter.unusedVariables false

namespace Cello.Cmp
open CelloGen.Cmp (FloatOps)

/-! ### transporting a strict comparison along a projection -/

theorem StrictCmpOn.pullback {α β : Type} {P : β → Prop} {E : β → β → Prop} {c : β → β → Int}
    (h : StrictCmpOn P E c) {Q : α → Prop} {E' : α → α → Prop} {c' : α → α → Int} (g : α → β)
    (hP : ∀ a, Q a → P (g a)) (hc : ∀ a b, Q a → Q b → c' a b = c (g a) (g b))
    (hE : ∀ a b, Q a → Q b → (E' a b ↔ E (g a) (g b))) : StrictCmpOn Q E' c' where
  antisymm a b qa qb := by
    rw [hc a b qa qb, hc b a qb qa]; exact h.antisymm _ _ (hP a qa) (hP b qb)
  le_trans a b d qa qb qd := by
    rw [hc a b qa qb, hc b d qb qd, hc a d qa qd]; exact h.le_trans _ _ _ (hP a qa) (hP b qb) (hP d qd)
  zero_iff a b qa qb := by
    rw [hc a b qa qb, hE a b qa qb]; exact h.zero_iff _ _ (hP a qa) (hP b qb)

/-! ### float keys -/

theorem fkey_eq (b : UInt64) :
    fkey b = if 9223372036854775808 ≤ b.toNat then -((b.toNat % 9223372036854775808 : Nat) : Int)
             else ((b.toNat % 9223372036854775808 : Nat) : Int) := by
  have h1 : (b &&& 0x7fffffffffffffff).toNat = b.toNat % 9223372036854775808 := by
    rw [UInt64.toNat_and]
    exact Nat.and_two_pow_sub_one_eq_mod b.toNat 63
  have h2 : (b ≥ 0x8000000000000000) ↔ 9223372036854775808 ≤ b.toNat := by
    show (0x8000000000000000 : UInt64) ≤ b ↔ _
    rw [UInt64.le_iff_toNat_le]; rfl
  unfold fkey
  simp only [h1]
  by_cases h : 9223372036854775808 ≤ b.toNat
  · rw [if_pos (h2.2 h), if_pos h]
  · rw [if_neg (fun q => h (h2.1 q)), if_neg h]

theorem fkey_inj {a b : UInt64} (h : fkey a = fkey b) (hz : fkey a ≠ 0) : a = b := by
  rw [fkey_eq a, fkey_eq b] at h
  rw [fkey_eq a] at hz
  have ha := a.toNat_lt
  have hb := b.toNat_lt
  apply UInt64.toNat_inj.mp
  split at h <;> split at h <;> split at hz <;> omega

/-- numerically equal non-NaN doubles are the same bit pattern, or both are zeros (`0.0`, `-0.0`) -/
theorem fkey_eq_iff (a b : UInt64) :
    fkey a = fkey b ↔ (if fkey a = 0 then (0 : UInt64) else a) = (if fkey b = 0 then 0 else b) := by
  constructor
  · intro h
    by_cases hz : fkey a = 0
    · have hz' : fkey b = 0 := by omega
      simp [hz, hz']
    · have hz' : ¬ fkey b = 0 := by omega
      simp [hz, hz', fkey_inj h hz]
  · intro h
    by_cases hz : fkey a = 0
    · by_cases hz' : fkey b = 0
      · omega
      · simp only [hz, hz', if_true, if_false] at h
        rw [← h] at hz'; exact absurd fkey_zero hz'
    · by_cases hz' : fkey b = 0
      · simp only [hz, hz', if_true, if_false] at h
        rw [h] at hz; exact absurd fkey_zero hz
      · simp only [hz, hz', if_false] at h
        rw [h]

/-! ### the mutual recursion of the model is the lexicographic lifting -/

theorem seqCmp_eq (ops : FloatOps UInt64) : ∀ xs ys, seqCmp ops xs ys = lexCmp (valCmp ops) xs ys := by
  intro xs
  induction xs with
  | nil => intro ys; cases ys <;> simp [seqCmp, lexCmp]
  | cons x xs ih => intro ys; cases ys <;> simp [seqCmp, lexCmp, ih]

theorem entriesCmp_eq (ops : FloatOps UInt64) :
    ∀ xs ys, entriesCmp ops xs ys = pairsCmp (valCmp ops) (valCmp ops) xs ys := by
  intro xs
  induction xs with
  | nil => intro ys; cases ys <;> simp [entriesCmp, pairsCmp]
  | cons x xs ih =>
    intro ys
    obtain ⟨k, v⟩ := x
    cases ys with
    | nil => simp [entriesCmp, pairsCmp]
    | cons y ys => obtain ⟨k', v'⟩ := y; simp [entriesCmp, pairsCmp, ih]

theorem normList_eq_iff : ∀ xs ys, normList xs = normList ys ↔ Pointwise (fun x y => norm x = norm y) xs ys := by
  intro xs
  induction xs with
  | nil => intro ys; cases ys <;> simp [normList, Pointwise]
  | cons x xs ih => intro ys; cases ys <;> simp [normList, Pointwise, ih]

theorem normPairs_eq_iff : ∀ xs ys,
    normPairs xs = normPairs ys ↔ Pointwise (fun p q : Val × Val => norm p.1 = norm q.1 ∧ norm p.2 = norm q.2) xs ys := by
  intro xs
  induction xs with
  | nil => intro ys; cases ys <;> simp [normPairs, Pointwise]
  | cons x xs ih =>
    intro ys
    obtain ⟨k, v⟩ := x
    cases ys with
    | nil => simp [normPairs, Pointwise]
    | cons y ys => obtain ⟨k', v'⟩ := y; simp [normPairs, Pointwise, ih, and_assoc]

/-! ### shape of the values of each kind -/

theorem hasKind_int {a : Val} (h : hasKind .int a) : ∃ v, a = .int v := by
  cases a <;> simp [hasKind] at h ⊢
theorem hasKind_flt {a : Val} (h : hasKind .flt a) : ∃ b, a = .flt b ∧ fIsNaN b = false := by
  cases a <;> simp [hasKind] at h ⊢; exact h
theorem hasKind_str {a : Val} (h : hasKind .str a) : ∃ b, a = .str b := by
  cases a <;> simp [hasKind] at h ⊢
theorem hasKind_typ {a : Val} (h : hasKind .typ a) : ∃ b, a = .typ b := by
  cases a <;> simp [hasKind] at h ⊢
theorem hasKind_plain {t : Nat} {a : Val} (h : hasKind (.plain t) a) : ∃ b, a = .plain t b := by
  cases a <;> simp [hasKind] at h ⊢; exact h.1
theorem hasKind_seq {e : Kind} {a : Val} (h : hasKind (.seq e) a) : ∃ s xs, a = .seq s xs ∧ ∀ x ∈ xs, hasKind e x := by
  cases a with
  | seq s xs => exact ⟨s, xs, rfl, by simpa [hasKind] using h⟩
  | _ => simp [hasKind] at h
theorem hasKind_tree {k v : Kind} {a : Val} (h : hasKind (.tree k v) a) :
    ∃ kvs, a = .tree kvs ∧ ∀ p ∈ kvs, hasKind k p.1 ∧ hasKind v p.2 := by
  cases a <;> simp [hasKind] at h ⊢; exact h

theorem hasKind_nil {a : Val} (h : hasKind .nil a) : ∃ s, a = .seq s [] := by
  cases a with
  | seq s xs => simp [hasKind] at h; exact ⟨s, by rw [h]⟩
  | _ => simp [hasKind] at h
theorem hasKind_cons {h t : Kind} {a : Val} (hk : hasKind (.cons h t) a) :
    ∃ s xs, a = .seq s xs ∧ (xs = [] ∨ ∃ x xs', xs = x :: xs' ∧ hasKind h x ∧ hasKind t (.seq s xs')) := by
  cases a with
  | seq s xs =>
    cases xs with
    | nil => exact ⟨s, [], rfl, Or.inl rfl⟩
    | cons x xs' => simp only [hasKind] at hk; exact ⟨s, x :: xs', rfl, Or.inr ⟨x, xs', rfl, hk⟩⟩
  | _ => simp [hasKind] at hk

/-! ### a sequence as "nothing, or a first element and the rest": the view the per-slot kinds `cons h t` are proved through -/

/-- the empty list for an empty sequence, else the one pair (first element, the remaining sequence) -/
def Val.uncons : Val → List (Val × Val)
  | .seq s (x :: xs) => [(x, .seq s xs)]
  | _ => []

theorem seqCmp_range (ops : FloatOps UInt64) (xs ys : List Val) :
    seqCmp ops xs ys = -1 ∨ seqCmp ops xs ys = 0 ∨ seqCmp ops xs ys = 1 := by
  rw [seqCmp_eq]; exact lexCmp_range xs ys

/-- the comparison of two sequences is the comparison of their views: nothing is smallest, first elements decide, then
    the remaining sequences -/
theorem valCmp_uncons (ops : FloatOps UInt64) (s s' : SeqKind) (xs ys : List Val) :
    valCmp ops (.seq s xs) (.seq s' ys) =
      lexCmp (pairCmp (valCmp ops) (valCmp ops)) (Val.uncons (.seq s xs)) (Val.uncons (.seq s' ys)) := by
  cases xs with
  | nil => cases ys <;> simp [valCmp, seqCmp, Val.uncons, lexCmp]
  | cons x xs =>
    cases ys with
    | nil => simp [valCmp, seqCmp, Val.uncons, lexCmp]
    | cons y ys =>
      have hr := seqCmp_range ops xs ys
      simp only [valCmp, seqCmp, Val.uncons, lexCmp, pairCmp]
      by_cases h1 : valCmp ops x y < 0
      · simp [h1]
      · by_cases h2 : valCmp ops x y > 0
        · simp [h1, h2]
        · simp only [h1, h2, if_false]
          rcases hr with h | h | h <;> simp [h]

theorem norm_uncons (s s' : SeqKind) (xs ys : List Val) :
    norm (.seq s xs) = norm (.seq s' ys) ↔
      Pointwise (fun p q : Val × Val => norm p.1 = norm q.1 ∧ norm p.2 = norm q.2) (Val.uncons (.seq s xs)) (Val.uncons (.seq s' ys)) := by
  cases xs with
  | nil => cases ys <;> simp [norm, normList, Val.uncons, Pointwise]
  | cons x xs =>
    cases ys with
    | nil => simp [norm, normList, Val.uncons, Pointwise]
    | cons y ys => simp [norm, normList, Val.uncons, Pointwise]

/-! ### the main induction -/

theorem valCmp_strict (ops : FloatOps UInt64)
    (hflt : StrictCmpOn (fun a => fIsNaN a = false) (fun a b => fkey a = fkey b) (floatCmp ops))
    (hint : StrictCmp intCmp) :
    ∀ k : Kind, StrictCmpOn (hasKind k) (fun a b => norm a = norm b) (valCmp ops) := by
  intro k
  induction k with
  | int =>
    refine hint.pullback Val.intOf (fun _ _ => trivial) ?_ ?_
    · intro a b ha hb
      obtain ⟨x, rfl⟩ := hasKind_int ha; obtain ⟨y, rfl⟩ := hasKind_int hb
      simp [valCmp, Val.intOf]
    · intro a b ha hb
      obtain ⟨x, rfl⟩ := hasKind_int ha; obtain ⟨y, rfl⟩ := hasKind_int hb
      simp [norm, Val.intOf]
  | flt =>
    refine hflt.pullback Val.bitsOf ?_ ?_ ?_
    · intro a ha; obtain ⟨x, rfl, hx⟩ := hasKind_flt ha; exact hx
    · intro a b ha hb
      obtain ⟨x, rfl, _⟩ := hasKind_flt ha; obtain ⟨y, rfl, _⟩ := hasKind_flt hb
      simp [valCmp, Val.bitsOf]
    · intro a b ha hb
      obtain ⟨x, rfl, _⟩ := hasKind_flt ha; obtain ⟨y, rfl, _⟩ := hasKind_flt hb
      simp only [norm, Val.bitsOf, Val.flt.injEq]
      exact (fkey_eq_iff x y).symm
  | str =>
    refine bytesCmp_strict.pullback Val.bytesOf (fun _ _ => trivial) ?_ ?_
    · intro a b ha hb
      obtain ⟨x, rfl⟩ := hasKind_str ha; obtain ⟨y, rfl⟩ := hasKind_str hb
      simp [valCmp, Val.bytesOf]
    · intro a b ha hb
      obtain ⟨x, rfl⟩ := hasKind_str ha; obtain ⟨y, rfl⟩ := hasKind_str hb
      simp [norm, Val.bytesOf]
  | typ =>
    refine bytesCmp_strict.pullback Val.bytesOf (fun _ _ => trivial) ?_ ?_
    · intro a b ha hb
      obtain ⟨x, rfl⟩ := hasKind_typ ha; obtain ⟨y, rfl⟩ := hasKind_typ hb
      simp [valCmp, Val.bytesOf]
    · intro a b ha hb
      obtain ⟨x, rfl⟩ := hasKind_typ ha; obtain ⟨y, rfl⟩ := hasKind_typ hb
      simp [norm, Val.bytesOf]
  | plain t =>
    refine bytesCmp_strict.pullback Val.bytesOf (fun _ _ => trivial) ?_ ?_
    · intro a b ha hb
      obtain ⟨x, rfl⟩ := hasKind_plain ha; obtain ⟨y, rfl⟩ := hasKind_plain hb
      simp [valCmp, Val.bytesOf]
    · intro a b ha hb
      obtain ⟨x, rfl⟩ := hasKind_plain ha; obtain ⟨y, rfl⟩ := hasKind_plain hb
      simp [norm, Val.bytesOf]
  | seq e ih =>
    refine (lexCmp_strict ih).pullback Val.elems ?_ ?_ ?_
    · intro a ha; obtain ⟨s, xs, rfl, hx⟩ := hasKind_seq ha; exact hx
    · intro a b ha hb
      obtain ⟨s, xs, rfl, _⟩ := hasKind_seq ha; obtain ⟨s', ys, rfl, _⟩ := hasKind_seq hb
      simp [valCmp, Val.elems, seqCmp_eq]
    · intro a b ha hb
      obtain ⟨s, xs, rfl, _⟩ := hasKind_seq ha; obtain ⟨s', ys, rfl, _⟩ := hasKind_seq hb
      simp only [norm, Val.elems, Val.seq.injEq, true_and]
      exact normList_eq_iff xs ys
  | tree k v ihk ihv =>
    have hp := lexCmp_strict (pairCmp_strict ihk ihv)
    refine hp.pullback Val.entries ?_ ?_ ?_
    · intro a ha; obtain ⟨kvs, rfl, hx⟩ := hasKind_tree ha; exact hx
    · intro a b ha hb
      obtain ⟨xs, rfl, _⟩ := hasKind_tree ha; obtain ⟨ys, rfl, _⟩ := hasKind_tree hb
      simp [valCmp, Val.entries, entriesCmp_eq, pairsCmp_eq_lexCmp]
    · intro a b ha hb
      obtain ⟨xs, rfl, _⟩ := hasKind_tree ha; obtain ⟨ys, rfl, _⟩ := hasKind_tree hb
      simp only [norm, Val.entries, Val.tree.injEq]
      exact normPairs_eq_iff xs ys

  | nil =>
    refine ⟨⟨fun a b ha hb => ?_, fun a b d ha hb hd _ _ => ?_⟩, fun a b ha hb => ?_⟩
    · obtain ⟨s, rfl⟩ := hasKind_nil ha; obtain ⟨s', rfl⟩ := hasKind_nil hb
      simp [valCmp, seqCmp, sgn]
    · obtain ⟨s, rfl⟩ := hasKind_nil ha; obtain ⟨s', rfl⟩ := hasKind_nil hd
      simp [valCmp, seqCmp]
    · obtain ⟨s, rfl⟩ := hasKind_nil ha; obtain ⟨s', rfl⟩ := hasKind_nil hb
      simp [valCmp, seqCmp, norm, normList]
  | cons h t ihh iht =>
    have hp := lexCmp_strict (pairCmp_strict ihh iht)
    refine hp.pullback Val.uncons ?_ ?_ ?_
    · intro a ha
      obtain ⟨s, xs, rfl, hx⟩ := hasKind_cons ha
      rcases hx with rfl | ⟨x, xs', rfl, h1, h2⟩
      · simp [Val.uncons]
      · intro p hp'
        simp only [Val.uncons, List.mem_singleton] at hp'
        rw [hp']; exact ⟨h1, h2⟩
    · intro a b ha hb
      obtain ⟨s, xs, rfl, _⟩ := hasKind_cons ha; obtain ⟨s', ys, rfl, _⟩ := hasKind_cons hb
      exact valCmp_uncons ops s s' xs ys
    · intro a b ha hb
      obtain ⟨s, xs, rfl, _⟩ := hasKind_cons ha; obtain ⟨s', ys, rfl, _⟩ := hasKind_cons hb
      exact norm_uncons s s' xs ys

/-! ### float-free kinds do not depend on the floating-point operations -/

theorem lexCmp_congr {α : Type} {c c' : α → α → Int} :
    ∀ xs ys : List α, (∀ x ∈ xs, ∀ y ∈ ys, c x y = c' x y) → lexCmp c xs ys = lexCmp c' xs ys := by
  intro xs
  induction xs with
  | nil => intro ys _; cases ys <;> rfl
  | cons x xs ih =>
    intro ys h
    cases ys with
    | nil => rfl
    | cons y ys =>
      rw [lexCmp_cons_cons, lexCmp_cons_cons, h x (by simp) y (by simp),
        ih ys (fun a ha b hb => h a (by simp [ha]) b (by simp [hb]))]

theorem pairCmp_congr {κ ν : Type} {ck ck' : κ → κ → Int} {cv cv' : ν → ν → Int} (p q : κ × ν)
    (hk : ck p.1 q.1 = ck' p.1 q.1) (hv : cv p.2 q.2 = cv' p.2 q.2) : pairCmp ck cv p q = pairCmp ck' cv' p q := by
  simp only [pairCmp, hk, hv]

theorem valCmp_ops_irrelevant (ops ops' : FloatOps UInt64) :
    ∀ k : Kind, k.floatFree → ∀ a b, hasKind k a → hasKind k b → valCmp ops a b = valCmp ops' a b := by
  intro k
  induction k with
  | int => intro _ a b ha hb; obtain ⟨x, rfl⟩ := hasKind_int ha; obtain ⟨y, rfl⟩ := hasKind_int hb; simp [valCmp]
  | flt => intro h; exact absurd h (by simp [Kind.floatFree])
  | str => intro _ a b ha hb; obtain ⟨x, rfl⟩ := hasKind_str ha; obtain ⟨y, rfl⟩ := hasKind_str hb; simp [valCmp]
  | typ => intro _ a b ha hb; obtain ⟨x, rfl⟩ := hasKind_typ ha; obtain ⟨y, rfl⟩ := hasKind_typ hb; simp [valCmp]
  | plain t => intro _ a b ha hb; obtain ⟨x, rfl⟩ := hasKind_plain ha; obtain ⟨y, rfl⟩ := hasKind_plain hb; simp [valCmp]
  | seq e ih =>
    intro hf a b ha hb
    obtain ⟨s, xs, rfl, hx⟩ := hasKind_seq ha; obtain ⟨s', ys, rfl, hy⟩ := hasKind_seq hb
    simp only [valCmp, seqCmp_eq]
    exact lexCmp_congr xs ys (fun x mx y my => ih hf x y (hx x mx) (hy y my))
  | tree k v ihk ihv =>
    intro hf a b ha hb
    obtain ⟨xs, rfl, hx⟩ := hasKind_tree ha; obtain ⟨ys, rfl, hy⟩ := hasKind_tree hb
    simp only [valCmp, entriesCmp_eq, pairsCmp_eq_lexCmp]
    exact lexCmp_congr xs ys (fun p mp q mq =>
      pairCmp_congr p q (ihk hf.1 p.1 q.1 (hx p mp).1 (hy q mq).1) (ihv hf.2 p.2 q.2 (hx p mp).2 (hy q mq).2))

  | nil => intro _ a b ha hb; obtain ⟨s, rfl⟩ := hasKind_nil ha; obtain ⟨s', rfl⟩ := hasKind_nil hb; simp [valCmp, seqCmp]
  | cons h t ihh iht =>
    intro hf a b ha hb
    obtain ⟨s, xs, rfl, hx⟩ := hasKind_cons ha; obtain ⟨s', ys, rfl, hy⟩ := hasKind_cons hb
    rw [valCmp_uncons ops, valCmp_uncons ops']
    rcases hx with rfl | ⟨x, xs', rfl, hx1, hx2⟩
    · cases ys <;> simp [Val.uncons, lexCmp]
    · rcases hy with rfl | ⟨y, ys', rfl, hy1, hy2⟩
      · simp [Val.uncons, lexCmp]
      · simp only [Val.uncons]
        exact lexCmp_congr _ _ (fun p mp q mq => by
          simp only [List.mem_singleton] at mp mq
          subst mp; subst mq
          exact pairCmp_congr _ _ (ihh hf.1 x y hx1 hy1) (iht hf.2 _ _ hx2 hy2))

/-! ### Tree iteration order: `treeOf` is strictly descending and holds each key once -/

section tree
variable {κ ν : Type} {P : κ → Prop} {c : κ → κ → Int}

theorem sortedInsert_keys (k : κ) (v : ν) : ∀ l : List (κ × ν), ∀ q ∈ sortedInsert c k v l, q.1 = k ∨ q ∈ l := by
  intro l
  induction l with
  | nil => intro q hq; simp [sortedInsert] at hq; simp [hq]
  | cons p rest ih =>
    intro q hq
    obtain ⟨k', v'⟩ := p
    simp only [sortedInsert] at hq
    split at hq
    · simp at hq; rcases hq with rfl | h
      · simp
      · simp [h]
    · split at hq
      · simp at hq; rcases hq with rfl | rfl | h
        · simp
        · simp
        · simp [h]
      · simp at hq; rcases hq with rfl | h
        · simp
        · rcases ih q h with h' | h'
          · simp [h']
          · simp [h']

theorem sortedInsert_descending (h : LawfulCmpOn P c) (k : κ) (v : ν) (pk : P k) :
    ∀ l : List (κ × ν), (∀ q ∈ l, P q.1) → Descending c l → Descending c (sortedInsert c k v l) := by
  intro l
  induction l with
  | nil => intro _ _; simp [sortedInsert, Descending]
  | cons p rest ih =>
    intro hP hd
    obtain ⟨k', v'⟩ := p
    have pk' : P k' := hP (k', v') (by simp)
    have hPr : ∀ q ∈ rest, P q.1 := fun q hq => hP q (by simp [hq])
    obtain ⟨hd1, hd2⟩ := hd
    simp only [sortedInsert]
    split
    · -- equal key: replaced in place
      rename_i h0
      refine ⟨fun q hq => ?_, hd2⟩
      have := hd1 q hq
      have f := h.flip pk' pk
      have := h.lt_of_lt_of_le (hPr q hq) pk' pk this (by omega)
      exact this
    · split
      · -- node key smaller: new entry goes in front
        rename_i h0 h1
        refine ⟨fun q hq => ?_, hd1, hd2⟩
        simp at hq
        rcases hq with rfl | hq
        · exact h1
        · exact h.lt_trans (hPr q hq) pk' pk (hd1 q hq) h1
      · rename_i h0 h1
        refine ⟨fun q hq => ?_, ih hPr hd2⟩
        rcases sortedInsert_keys k v rest q hq with e | hq'
        · rw [e]; show c k k' < 0; have f := h.flip pk' pk; omega
        · exact hd1 q hq'

theorem sortedInsert_P (k : κ) (v : ν) (pk : P k) :
    ∀ l : List (κ × ν), (∀ q ∈ l, P q.1) → ∀ q ∈ sortedInsert c k v l, P q.1 := by
  intro l hP q hq
  rcases sortedInsert_keys k v l q hq with e | h
  · rw [e]; exact pk
  · exact hP q h

theorem treeOf_descending (h : LawfulCmpOn P c) (kvs : List (κ × ν)) (hP : ∀ q ∈ kvs, P q.1) :
    Descending c (treeOf c kvs) := by
  unfold treeOf
  suffices H : ∀ (l acc : List (κ × ν)), (∀ q ∈ l, P q.1) → (∀ q ∈ acc, P q.1) → Descending c acc →
      (∀ q ∈ l.foldl (fun acc kv => sortedInsert c kv.1 kv.2 acc) acc, P q.1) ∧
      Descending c (l.foldl (fun acc kv => sortedInsert c kv.1 kv.2 acc) acc) from
    (H kvs [] hP (by simp) (by simp [Descending])).2
  intro l
  induction l with
  | nil => intro acc _ ha hd; exact ⟨ha, hd⟩
  | cons p rest ih =>
    intro acc hl ha hd
    simp only [List.foldl_cons]
    have pp : P p.1 := hl p (by simp)
    exact ih _ (fun q hq => hl q (by simp [hq])) (sortedInsert_P p.1 p.2 pp acc ha)
      (sortedInsert_descending h p.1 p.2 pp acc ha hd)

theorem mem_sortedInsert_self (k : κ) (v : ν) : ∀ l : List (κ × ν), (k, v) ∈ sortedInsert c k v l := by
  intro l
  induction l with
  | nil => simp [sortedInsert]
  | cons p rest ih =>
    obtain ⟨k', v'⟩ := p
    simp only [sortedInsert]
    split
    · simp
    · split
      · simp
      · simp [ih]

/-- an insertion never loses a key: whatever was findable stays findable -/
theorem sortedInsert_keeps (h : LawfulCmpOn P c) (k : κ) (v : ν) (pk : P k) :
    ∀ l : List (κ × ν), (∀ q ∈ l, P q.1) → ∀ k0, P k0 → (∃ q ∈ l, c q.1 k0 = 0) →
      ∃ q ∈ sortedInsert c k v l, c q.1 k0 = 0 := by
  intro l
  induction l with
  | nil => intro _ k0 _ ⟨q, hq, _⟩; simp at hq
  | cons p rest ih =>
    intro hP k0 pk0 ⟨q, hq, hq0⟩
    obtain ⟨k', v'⟩ := p
    have pk' : P k' := hP (k', v') (by simp)
    have hPr : ∀ q ∈ rest, P q.1 := fun q hq => hP q (by simp [hq])
    simp only [sortedInsert]
    simp only [List.mem_cons] at hq
    split
    · rename_i h0
      rcases hq with rfl | hq
      · have f := h.flip pk' pk
        have e : c k k' = 0 := by omega
        exact ⟨(k, v), by simp, h.zero_trans pk pk' pk0 e hq0⟩
      · exact ⟨q, by simp [hq], hq0⟩
    · split
      · rcases hq with rfl | hq
        · exact ⟨(k', v'), by simp, hq0⟩
        · exact ⟨q, by simp [hq], hq0⟩
      · rcases hq with rfl | hq
        · exact ⟨(k', v'), by simp, hq0⟩
        · obtain ⟨q', hq', hq0'⟩ := ih hPr k0 pk0 ⟨q, hq, hq0⟩
          exact ⟨q', by simp [hq'], hq0'⟩

theorem treeOf_finds (h : LawfulCmpOn P c) (kvs : List (κ × ν)) (hP : ∀ q ∈ kvs, P q.1) :
    ∀ p ∈ kvs, ∃ q ∈ treeOf c kvs, c q.1 p.1 = 0 := by
  unfold treeOf
  suffices H : ∀ (l acc : List (κ × ν)), (∀ q ∈ l, P q.1) → (∀ q ∈ acc, P q.1) → ∀ k0, P k0 →
      ((∃ q ∈ acc, c q.1 k0 = 0) ∨ (∃ p ∈ l, p.1 = k0)) →
      ∃ q ∈ l.foldl (fun acc kv => sortedInsert c kv.1 kv.2 acc) acc, c q.1 k0 = 0 from
    fun p hp => H kvs [] hP (by simp) p.1 (hP p hp) (Or.inr ⟨p, hp, rfl⟩)
  intro l
  induction l with
  | nil =>
    intro acc _ _ k0 _ hk
    rcases hk with hk | ⟨p, hp, _⟩
    · exact hk
    · simp at hp
  | cons p rest ih =>
    intro acc hl ha k0 pk0 hk
    simp only [List.foldl_cons]
    have pp : P p.1 := hl p (by simp)
    apply ih _ (fun q hq => hl q (by simp [hq])) (sortedInsert_P p.1 p.2 pp acc ha) k0 pk0
    rcases hk with hk | ⟨p', hp', e⟩
    · exact Or.inl (sortedInsert_keeps h p.1 p.2 pp acc ha k0 pk0 hk)
    · simp only [List.mem_cons] at hp'
      rcases hp' with rfl | hp'
      · refine Or.inl ⟨(p'.1, p'.2), mem_sortedInsert_self p'.1 p'.2 acc, ?_⟩
        rw [← e]; exact h.refl pp
      · exact Or.inr ⟨p', hp', e⟩

end tree

end Cello.Cmp
