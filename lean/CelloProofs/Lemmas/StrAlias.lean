/-
  CelloProofs/Lemmas/StrAlias.lean — helper lemmas for C16, part 5: operands that alias the target.
  * a history none of whose operands points into the target is the by-value history (`stepA_noAlias`, `runA_eq_run`);
  * `concat(s, s)` is `strcat(p, p)` whatever the allocator does: overlapping, for every well-formed `s` (`concatA_self_ub`);
  * an aliased `assign` is undefined whatever the allocator does (`assignAt_ub`);
  * the proposed repair (`assignFix`, `concatFix`) gives the by-value result for every operand form (`assignFix_ok`,
    `concatFix_ok`);
  * calls in contract (`AOp.InContract`: by value; `assign` with the target itself — the early return of 744a45f,
    `assignA_self`; `rem` with any operand form) refine the by-value operation on the text (`stepA_ok`), histories of them by
    induction (`runA_ok`); by-value histories are a special case (`histOK_of_noAlias`).
-/
import CelloProofs.Lemmas.StrRun
namespace Cello.Str

theorem toOp_noAlias {op : AOp} (h : op.NoAlias) (s : Str) : op.toOp s = op.plain := by
  cases op with
  | assign src | concat src | append src | rem src => cases src <;> first | rfl | exact absurd h id
  | formatS pos src => cases src <;> first | rfl | exact absurd h id
  | _ => rfl

theorem stepA_noAlias (P : Params) (J : Nat → Byte) (mv : Bool) (s : Str) {op : AOp} (h : op.NoAlias) :
    stepA P J mv s op = step P J s op.plain := by
  cases op with
  | assign src | concat src | append src | rem src => cases src <;> first | rfl | exact absurd h id
  | formatS pos src => cases src <;> first | rfl | exact absurd h id
  | _ => rfl

theorem runA_eq_run (P : Params) (J : Nat → Byte) (mv : Nat → Bool) :
    ∀ (ops : List AOp) (i : Nat) (s : Str), (∀ op ∈ ops, op.NoAlias) → runA P J mv i s ops = run P J s (ops.map AOp.plain)
  | [], _, _, _ => rfl
  | op :: ops, i, s, h => by
    have h1 := stepA_noAlias P J (mv i) s (h op (by simp))
    have ih := runA_eq_run P J mv ops (i + 1) (stepA P J (mv i) s op).st (fun o ho => h o (by simp [ho]))
    rw [h1] at ih
    simp only [runA, run, List.map_cons, h1, ih]

theorem nulFree_plain {op : AOp} (h : op.NoAlias) (s : Str) (hn : op.NulFree s) : op.plain.NulFree := by
  rw [← toOp_noAlias h s]; exact hn

/-! ### what the allocator cannot save -/

theorem inBlock_view (c r : List Byte) (hc : (0 : Byte) ∉ c) (p : Nat) (hp : p ≤ c.length) : inBlock (c ++ 0 :: r) p = true := by
  simp only [inBlock, strlen_view c r hc p hp, decide_eq_true_eq, List.length_append, List.length_cons]
  omega

/-- `concat(s, s)`: whether or not the block moves, `strcat` gets the same pointer twice -/
theorem concatA_self_ub {P : Params} (hP : P.Lawful) (J : Nat → Byte) (mv : Bool) (s : Str) (hs : s.WF) :
    (concatA P J mv s .self).out = .ub .overlap := by
  obtain ⟨c, r, rfl, hc, _⟩ := hs.view
  obtain ⟨r', hr, hrl⟩ := realloc_prefix J (c ++ [0]) r (c.length + c.length + 1) (by simp)
  have hb1 : realloc J (c ++ 0 :: r) (P.concatSize c.length c.length) = c ++ 0 :: r' := by
    rw [hP.concat]; simpa using hr
  simp only [concatA, strlen_view0 c r hc, hb1, strcatWithin, strlen_view0 c r' hc, inBlock_view c r' hc 0 (by omega)]
  simp [disjointRanges]

/-- an aliased operand of `assign` / `concat` / a `%s` argument, when `realloc` moves the block: the copy reads freed memory -/
theorem moved_is_useAfterFree (P : Params) (J : Nat → Byte) (s : Str) (off : Nat) (h : inBlock s.buf off = true)
    (pos : Nat) (render : List Byte → List Byte) :
    (assignAt P J true s off).out = .ub .useAfterFree ∧ (concatA P J true s (.view off)).out = .ub .useAfterFree ∧
    (formatAt P J true s pos render off).out = .ub .useAfterFree := by
  simp [assignAt, concatA, formatAt, h]

theorem strlen_nulFree (l : List Byte) (hl : (0 : Byte) ∉ l) (p : Nat) : strlen l p = l.length - p := by
  have key : ∀ m : List Byte, (0 : Byte) ∉ m → m.takeWhile (· != 0) = m := by
    intro m
    induction m with
    | nil => intro _; rfl
    | cons a t ih =>
      intro hm
      have h1 : a ≠ 0 := by intro h; apply hm; simp [h]
      have ht : (0 : Byte) ∉ t := by intro h; apply hm; simp [h]
      simp [h1, ih ht]
  have := key (l.drop p) (not_mem_drop hl p)
  simp only [strlen, cstrAt, this, List.length_drop]

theorem realloc_shrink (J : Nat → Byte) (buf : List Byte) (n : Nat) (h : n ≤ buf.length) : realloc J buf n = buf.take n := by
  simp [realloc, junk, Nat.sub_eq_zero_of_le h]

/-- an aliased `assign` is undefined whatever the allocator does: moved — the copy reads the freed block; in place — the block
    was cut to `strlen(val) + 1` bytes, so `val` is either the block itself (`strcpy(p, p)`) or its terminator is gone -/
theorem assignAt_ub {P : Params} (hP : P.Lawful) (J : Nat → Byte) (mv : Bool) (s : Str) (hs : s.WF) (off : Nat)
    (hoff : off ≤ s.abs.length) : (assignAt P J mv s off).out.isUB = true := by
  obtain ⟨c, r, rfl, hc, habs⟩ := hs.view
  rw [habs] at hoff
  have hin := inBlock_view c r hc off hoff
  cases mv with
  | true => simp [assignAt, hin, Outcome.isUB]
  | false =>
    have hn : strlen (c ++ 0 :: r) off = c.length - off := strlen_view c r hc off hoff
    have hb1 : realloc J (c ++ 0 :: r) (P.assignSize (c.length - off)) = (c ++ 0 :: r).take (c.length - off + 1) := by
      rw [hP.assign]; exact realloc_shrink J _ _ (by simp; omega)
    by_cases h0 : off = 0
    · subst h0
      have hb : (c ++ 0 :: r).take (c.length - 0 + 1) = c ++ 0 :: [] := by
        rw [show c ++ 0 :: r = (c ++ [0]) ++ r by simp, List.take_append_of_le_length (by simp)]
        rw [List.take_of_length_le (by simp)]
      simp only [assignAt, hin, hn, hb1, hb, inBlock_view c [] hc 0 (by omega), strlen_view0 c [] hc]
      simp [disjointRanges, Outcome.isUB]
    · have hb : (c ++ 0 :: r).take (c.length - off + 1) = c.take (c.length - off + 1) :=
        List.take_append_of_le_length (by omega)
      have hnf := not_mem_take hc (c.length - off + 1)
      have hnot : inBlock (c.take (c.length - off + 1)) off = false := by
        simp only [inBlock, strlen_nulFree _ hnf, decide_eq_false_iff_not, List.length_take]
        omega
      simp only [assignAt, hin, hn, hb1, hb, hnot]
      simp [Outcome.isUB]

/-- an aliased `concat` / `append` through a view is undefined whatever the allocator does: moved — `strcat` reads the freed
    block; in place — the source ends exactly where the destination's terminator is, the first byte copied destroys it -/
theorem concatA_view_ub {P : Params} (hP : P.Lawful) (J : Nat → Byte) (mv : Bool) (s : Str) (hs : s.WF) (off : Nat)
    (hoff : off ≤ s.abs.length) : (concatA P J mv s (.view off)).out.isUB = true := by
  obtain ⟨c, r, rfl, hc, habs⟩ := hs.view
  rw [habs] at hoff
  have hin := inBlock_view c r hc off hoff
  cases mv with
  | true => simp [concatA, hin, Outcome.isUB]
  | false =>
    obtain ⟨r', hr, _⟩ := realloc_prefix J (c ++ [0]) r (c.length + (c.length - off) + 1) (by simp)
    have hb1 : realloc J (c ++ 0 :: r) (P.concatSize c.length (c.length - off)) = c ++ 0 :: r' := by
      rw [hP.concat]; simpa using hr
    simp only [concatA, hin, strlen_view0 c r hc, strlen_view c r hc off hoff, hb1, strcatWithin, strlen_view0 c r' hc,
      strlen_view c r' hc off hoff, inBlock_view c r' hc 0 (by omega), inBlock_view c r' hc off hoff]
    have : disjointRanges off (c.length - off + 1) 0 (c.length + (c.length - off) + 1) = false := by
      simp only [disjointRanges, Bool.or_eq_false_iff, decide_eq_false_iff_not]; omega
    simp [this, Outcome.isUB]

/-- `print_to(s, pos, "%s", obj)` with `obj` the target or a view into it, at a position inside the text, is undefined
    whatever the allocator does: moved — `vsprintf` reads the freed block; in place — either the block was cut in front of
    the argument's terminator (`pos < off`) or the text written overlaps the argument it is read from -/
theorem formatAt_id_ub {P : Params} (hP : P.Lawful) (J : Nat → Byte) (mv : Bool) (s : Str) (hs : s.WF) (pos off : Nat)
    (hpos : pos ≤ s.abs.length) (hoff : off ≤ s.abs.length) : (formatAt P J mv s pos id off).out.isUB = true := by
  obtain ⟨c, r, rfl, hc, habs⟩ := hs.view
  rw [habs] at hoff hpos
  have hin := inBlock_view c r hc off hoff
  cases mv with
  | true => simp [formatAt, hin, Outcome.isUB]
  | false =>
    have hx : cstrAt (c ++ 0 :: r) off = c.drop off := cstrAt_view c r hc off hoff
    by_cases hpo : off ≤ pos
    · obtain ⟨r', hr, _⟩ := realloc_prefix J (c ++ [0]) r (pos + (c.length - off) + 1) (by simp; omega)
      have hb1 : realloc J (c ++ 0 :: r) (P.formatSize pos (c.length - off)) = c ++ 0 :: r' := by
        rw [hP.format]; simpa using hr
      have hd : disjointRanges off (c.length - off + 1) pos (c.length - off + 1) = false := by
        simp only [disjointRanges, Bool.or_eq_false_iff, decide_eq_false_iff_not]; omega
      simp only [formatAt, hin, hx, id, List.length_drop, hb1, inBlock_view c r' hc off hoff, cstrAt_view c r' hc off hoff]
      simp [hd, Outcome.isUB]
    · have hb1 : realloc J (c ++ 0 :: r) (P.formatSize pos (c.length - off)) = c.take (pos + (c.length - off) + 1) := by
        rw [hP.format, realloc_shrink J _ _ (by simp; omega)]
        exact List.take_append_of_le_length (by omega)
      have hnf := not_mem_take hc (pos + (c.length - off) + 1)
      have hnot : inBlock (c.take (pos + (c.length - off) + 1)) off = false := by
        simp only [inBlock, strlen_nulFree _ hnf, decide_eq_false_iff_not, List.length_take]
        omega
      simp only [formatAt, hin, hx, id, List.length_drop, hb1, hnot]
      simp [Outcome.isUB]

/-! ### the proposed repair gives the by-value result for every operand form -/

theorem read_alias (c r : List Byte) (hc : (0 : Byte) ∉ c) (src : Src) (hv : ¬ src.Disjoint) (h : src.off ≤ c.length) :
    src.read ⟨c ++ 0 :: r⟩ = c.drop src.off := by
  cases src with
  | val x => exact absurd trivial hv
  | self => simp only [Src.read, Src.off]; rw [cstrAt_view c r hc 0 (by omega)]
  | view off => simp only [Src.read, Src.off] at h ⊢; rw [cstrAt_view c r hc off h]

theorem assignFix_ok {P : Params} (hP : P.Lawful) (J : Nat → Byte) (s : Str) (hs : s.WF) (src : Src)
    (hoff : src.off ≤ s.abs.length) :
    (assignFix P J s src).st.buf = src.read s ++ [0] ∧ (assignFix P J s src).out = .ok 0 ∧
      (assignFix P J s src).safe = true := by
  by_cases hv : src.Disjoint
  · cases src with
    | val x => exact ⟨(assign_buf hP J s x).1, rfl, (assign_buf hP J s x).2⟩
    | self => exact absurd hv id
    | view off => exact absurd hv id
  · obtain ⟨c, r, rfl, hc, habs⟩ := hs.view
    rw [habs] at hoff
    have hin := inBlock_view c r hc src.off hoff
    have hn := strlen_view c r hc src.off hoff
    have hrd : readAt (c ++ 0 :: r) src.off (c.length - src.off + 1) = c.drop src.off ++ [0] := by
      simp only [readAt]
      rw [List.drop_append_of_le_length hoff, show c.drop src.off ++ 0 :: r = (c.drop src.off ++ [0]) ++ r by simp,
        List.take_append_of_le_length (by simp), List.take_of_length_le (by simp)]
    have hb0 : writeAt (c ++ 0 :: r) 0 (c.drop src.off ++ [0]) = (c.drop src.off ++ [0]) ++ (c ++ 0 :: r).drop (c.length - src.off + 1) := by
      simp only [writeAt]
      rw [if_pos (by simp; omega)]
      simp
    have hfix : assignFix P J ⟨c ++ 0 :: r⟩ src =
        { st := ⟨realloc J (writeAt (c ++ 0 :: r) 0 (readAt (c ++ 0 :: r) src.off (strlen (c ++ 0 :: r) src.off + 1)))
                  (P.assignSize (strlen (c ++ 0 :: r) src.off))⟩, out := .ok 0,
          log := [.rd src.off (strlen (c ++ 0 :: r) src.off + 1) (c ++ 0 :: r).length,
                  .rd 0 (strlen (c ++ 0 :: r) 0 + 1) (c ++ 0 :: r).length,
                  .rd src.off (strlen (c ++ 0 :: r) src.off + 1) (c ++ 0 :: r).length,
                  .wr 0 (strlen (c ++ 0 :: r) src.off + 1) (c ++ 0 :: r).length] } := by
      cases src with
      | val x => exact absurd trivial hv
      | self => simp only [assignFix, Src.off] at hin ⊢; simp [hin]
      | view off => simp only [assignFix, Src.off] at hin ⊢; simp [hin]
    rw [hfix, read_alias c r hc src hv hoff]
    refine ⟨?_, rfl, ?_⟩
    · simp only [hn, hrd, hb0, hP.assign]
      rw [realloc_shrink J _ _ (by simp), List.take_append_of_le_length (by simp)]
      rw [List.take_of_length_le (by simp)]
    · simp only [hn, strlen_view0 c r hc]
      simp [Res.safe, Acc.inBounds, Acc.rd, Acc.wr]; omega

theorem concatFix_ok {P : Params} (hP : P.Lawful) (J : Nat → Byte) (s : Str) (hs : s.WF) (src : Src)
    (hoff : src.off ≤ s.abs.length) :
    (concatFix P J s src).st.buf = s.abs ++ src.read s ++ [0] ∧ (concatFix P J s src).out = .ok 0 ∧
      (concatFix P J s src).safe = true := by
  obtain ⟨c, r, rfl, hc, habs⟩ := hs.view
  rw [habs] at hoff ⊢
  by_cases hv : src.Disjoint
  · cases src with
    | val x => exact ⟨(concat_buf hP J x c r hc).1, rfl, (concat_buf hP J x c r hc).2⟩
    | self => exact absurd hv id
    | view off => exact absurd hv id
  · have hin := inBlock_view c r hc src.off hoff
    have hm := strlen_view c r hc src.off hoff
    obtain ⟨r', hr, hrl⟩ := realloc_prefix J (c ++ [0]) r (c.length + (c.length - src.off) + 1) (by simp)
    have hb1 : realloc J (c ++ 0 :: r) (P.concatSize c.length (c.length - src.off)) = c ++ 0 :: r' := by
      rw [hP.concat]; simpa using hr
    have hrl' : r'.length = c.length - src.off := by simp at hrl; omega
    have hrd : readAt (c ++ 0 :: r') src.off (c.length - src.off) = c.drop src.off := by
      simp only [readAt]
      rw [List.drop_append_of_le_length hoff, List.take_append_of_le_length (by simp), List.take_of_length_le (by simp)]
    have hb2 : writeAt (c ++ 0 :: r') c.length (c.drop src.off) = c ++ c.drop src.off ++ (0 :: r').drop (c.length - src.off) := by
      have := writeAt_mid c ((0 :: r').take (c.length - src.off)) ((0 :: r').drop (c.length - src.off)) (c.drop src.off)
        (by simp [hrl'])
      rw [List.append_assoc, List.take_append_drop] at this
      exact this
    have hlast : ∃ z, (0 :: r').drop (c.length - src.off) = [z] := by
      have hl : ((0 :: r').drop (c.length - src.off)).length = 1 := by simp [hrl']
      match h : (0 :: r').drop (c.length - src.off), hl with
      | [z], _ => exact ⟨z, rfl⟩
    obtain ⟨z, hz⟩ := hlast
    have hb3 : writeAt (c ++ c.drop src.off ++ [z]) (c.length + (c.length - src.off)) [0] = c ++ c.drop src.off ++ [0] := by
      have := writeAt_mid (c ++ c.drop src.off) [z] [] [0] rfl
      simpa using this
    have hfix : concatFix P J ⟨c ++ 0 :: r⟩ src =
        (let n := strlen (c ++ 0 :: r) 0
         let m := strlen (c ++ 0 :: r) src.off
         let b1 := realloc J (c ++ 0 :: r) (P.concatSize n m)
         { st := ⟨writeAt (writeAt b1 n (readAt b1 src.off m)) (n + m) [0]⟩, out := .ok 0,
           log := [.rd 0 (n + 1) (c ++ 0 :: r).length, .rd src.off (m + 1) (c ++ 0 :: r).length, .rd src.off m b1.length,
                   .wr n m b1.length, .wr (n + m) 1 b1.length] }) := by
      cases src with
      | val x => exact absurd trivial hv
      | self => simp only [concatFix, Src.off] at hin ⊢; simp [hin]
      | view off => simp only [concatFix, Src.off] at hin ⊢; simp [hin]
    rw [hfix, read_alias c r hc src hv hoff]
    simp only [hm, strlen_view0 c r hc, hb1, hrd, hb2, hz, hb3]
    refine ⟨trivial, trivial, ?_⟩
    simp [Res.safe, Acc.inBounds, Acc.rd, Acc.wr, hrl']; omega

theorem step_not_ub (P : Params) (J : Nat → Byte) (s : Str) (op : Op) : (step P J s op).out.isUB = false := by
  cases op <;> simp only [step, assign, concat, resize, clear, formatTo, rem] <;> (repeat' split) <;> rfl

theorem run_not_ub (P : Params) (J : Nat → Byte) : ∀ (ops : List Op) (s : Str), ∀ r ∈ (run P J s ops).2, r.out.isUB = false
  | [], _, r, h => by simp [run] at h
  | op :: ops, s, r, h => by
    simp only [run, List.mem_cons] at h
    rcases h with h | h
    · rw [h]; exact step_not_ub P J s op
    · exact run_not_ub P J ops _ r h

theorem buf_eq {t : Str} {b : List Byte} (h : t.buf = b) : t = ⟨b⟩ := by cases t; simp_all

/-- every operand form, the code with the three repairs: defined, well-formed, and the by-value result -/
theorem stepFix_ok {P : Params} (hP : P.Lawful) (J : Nat → Byte) (mv : Bool) (s : Str) (op : AOp) (hs : s.WF)
    (hin : op.InText s) (hnf : op.NulFree s) :
    (stepFix P J mv s op).defined = true ∧ (stepFix P J mv s op).st.WF ∧
      (stepFix P J mv s op).st.abs = Spec.step s.abs (op.toOp s) := by
  have hview := hs.view
  have byval : ∀ o : Op, o.NulFree → (step P J s o).defined = true ∧ (step P J s o).st.WF ∧
      (step P J s o).st.abs = Spec.step s.abs o := by
    intro o ho
    have h := step_ok hP J s o hs ho
    exact ⟨by simp [Res.defined, h.safe, step_not_ub], h.wf, h.abs⟩
  have inblk : ∀ src : Src, src.off ≤ (cstrAt s.buf 0).length → inBlock s.buf src.off = true := by
    intro src h
    obtain ⟨c, r, rfl, hc, habs⟩ := hview
    have : cstrAt (c ++ 0 :: r) 0 = c := habs
    rw [this] at h
    exact inBlock_view c r hc _ h
  cases op with
  | assign src =>
    obtain ⟨hb, ho, hsafe⟩ := assignFix_ok hP J s hs src hin
    have hn : NulFree (src.read s) := hnf
    rw [show stepFix P J mv s (.assign src) = assignFix P J s src from rfl, buf_eq hb]
    refine ⟨?_, wf_view _ _, ?_⟩
    · simp [Res.defined, hsafe, ho, Outcome.isUB]
    · rw [abs_view _ [] hn]; rfl
  | concat src =>
    obtain ⟨hb, ho, hsafe⟩ := concatFix_ok hP J s hs src hin
    have hn : (0 : Byte) ∉ s.abs ++ src.read s := by
      simp only [List.mem_append, not_or]; exact ⟨abs_nulFree s, hnf⟩
    rw [show stepFix P J mv s (.concat src) = concatFix P J s src from rfl, buf_eq hb]
    refine ⟨?_, wf_view _ _, ?_⟩
    · simp [Res.defined, hsafe, ho, Outcome.isUB]
    · rw [abs_view _ [] hn]; rfl
  | append src =>
    obtain ⟨hb, ho, hsafe⟩ := concatFix_ok hP J s hs src hin
    have hn : (0 : Byte) ∉ s.abs ++ src.read s := by
      simp only [List.mem_append, not_or]; exact ⟨abs_nulFree s, hnf⟩
    rw [show stepFix P J mv s (.append src) = concatFix P J s src from rfl, buf_eq hb]
    refine ⟨?_, wf_view _ _, ?_⟩
    · simp [Res.defined, hsafe, ho, Outcome.isUB]
    · rw [abs_view _ [] hn]; rfl
  | resize n => exact byval (.resize n) hnf
  | clear => exact byval .clear hnf
  | format pos f => exact byval (.format pos f) hnf
  | rem src =>
    have e : stepFix P J mv s (.rem src) = step P J s (.rem (src.read s)) := by
      cases src with
      | val x => rfl
      | self => rfl
      | view off =>
        have := inblk (.view off) hin
        simp only [Src.off] at this
        simp [stepFix, remA, this, step, Src.read]
    rw [e]; exact byval _ hnf
  | formatS pos src =>
    have e : stepFix P J mv s (.formatS pos src) = step P J s (.format pos (src.read s)) := by
      have := inblk src hin
      simp [stepFix, formatFix, this, step]
    rw [e]; exact byval _ hnf

/-! ### calls in contract (`AOp.InContract`): the target itself / a view where the code defines it -/

/-- on a well-formed target a view inside the text reads the text's suffix -/
theorem read_eq_readAbs {s : Str} (hs : s.WF) (src : Src) (h : src.off ≤ s.abs.length) : src.read s = src.readAbs s.abs := by
  obtain ⟨c, r, rfl, hc, habs⟩ := hs.view
  rw [habs] at h ⊢
  cases src with
  | val x => rfl
  | self => exact habs
  | view off => exact cstrAt_view c r hc off h

theorem toOp_eq_absOp {s : Str} (hs : s.WF) {op : AOp} (h : op.InText s) : op.toOp s = op.absOp s.abs := by
  cases op <;> simp only [AOp.toOp, AOp.absOp] <;> first | rfl | (rw [read_eq_readAbs hs _ h])

theorem readAbs_nulFree {a : List Byte} (ha : NulFree a) (src : Src) (h : NulFree (src.read ⟨[]⟩)) : NulFree (src.readAbs a) := by
  cases src with
  | val x => exact h
  | self => exact ha
  | view off => exact not_mem_drop ha off

theorem absOp_nulFree {a : List Byte} (ha : NulFree a) {op : AOp} (h : op.plain.NulFree) : (op.absOp a).NulFree := by
  cases op <;> first | exact h | exact readAbs_nulFree ha _ h

theorem absOp_noAlias {op : AOp} (h : op.NoAlias) (a : List Byte) : op.absOp a = op.plain := by
  cases op with
  | assign src | concat src | append src | rem src => cases src <;> first | rfl | exact absurd h id
  | formatS pos src => cases src <;> first | rfl | exact absurd h id
  | _ => rfl

theorem inContract_of_noAlias {op : AOp} (h : op.NoAlias) (a : List Byte) : op.InContract a := by
  cases op with
  | assign src => cases src <;> first | exact Or.inl trivial | exact absurd h id
  | concat src | append src => exact h
  | formatS pos src => exact h
  | rem src => cases src <;> first | exact Nat.zero_le _ | exact absurd h id
  | _ => trivial

/-- a history whose operands are all by value is in contract, and its specification is the by-value one -/
theorem histOK_of_noAlias : ∀ (ops : List AOp) (a : List Byte), (∀ op ∈ ops, op.NoAlias) →
    HistOK a ops ∧ Spec.runA a ops = Spec.run a (ops.map AOp.plain)
  | [], _, _ => ⟨trivial, rfl⟩
  | op :: ops, a, h => by
    have h1 := h op (by simp)
    have ih := histOK_of_noAlias ops (Spec.step a (op.absOp a)) (fun o ho => h o (by simp [ho]))
    refine ⟨⟨inContract_of_noAlias h1 a, ih.1⟩, ?_⟩
    simp only [Spec.runA, List.map_cons, Spec.run]
    rw [ih.2, absOp_noAlias h1]

/-- `assign(s, obj)` where `c_str(obj)` is `s->val` (the target itself or a view at offset 0): the early return of 744a45f —
    the object is untouched, not a byte read or written, whatever the allocator would have done -/
theorem assignA_self {P : Params} (hP : P.Lawful) (J : Nat → Byte) (mv : Bool) (s : Str) (src : Src) (hv : ¬ src.Disjoint)
    (h0 : src.off = 0) : assignA P J mv s src = { st := s, out := .ok 0, log := [] } := by
  cases src with
  | val x => exact absurd trivial hv
  | self => simp [assignA, hP.assignSelf, Src.off]
  | view off => simp only [Src.off] at h0; subst h0; simp [assignA, hP.assignSelf, Src.off]

/-- a view at an offset > 0 is a different pointer: the guard does not fire -/
theorem assignA_view_pos (P : Params) (J : Nat → Byte) (mv : Bool) (s : Str) (off : Nat) (h : 0 < off) :
    assignA P J mv s (.view off) = assignAt P J mv s off := by
  have : (off == 0) = false := by simp; omega
  simp [assignA, Src.off, this]

/-- one call in contract: everything the property says about the by-value operation, and nothing undefined -/
theorem stepA_ok {P : Params} (hP : P.Lawful) (J : Nat → Byte) (mv : Bool) (s : Str) (op : AOp) (hs : s.WF)
    (hc : op.InContract s.abs) (hn : (op.absOp s.abs).NulFree) :
    StepOK s (op.absOp s.abs) (stepA P J mv s op) ∧ (stepA P J mv s op).out.isUB = false := by
  have byval : ∀ o : Op, o.NulFree → stepA P J mv s op = step P J s o → op.absOp s.abs = o →
      StepOK s (op.absOp s.abs) (stepA P J mv s op) ∧ (stepA P J mv s op).out.isUB = false := by
    intro o ho e1 e2; rw [e1, e2]; exact ⟨step_ok hP J s o hs ho, step_not_ub P J s o⟩
  cases op with
  | assign src =>
    by_cases hv : src.Disjoint
    · cases src with
      | val x => exact byval (.assign x) hn rfl rfl
      | self => exact absurd hv id
      | view off => exact absurd hv id
    · have h0 : src.off = 0 := by
        rcases hc with h | h
        · exact absurd h hv
        · exact h
      have e : stepA P J mv s (.assign src) = { st := s, out := .ok 0, log := [] } := assignA_self hP J mv s src hv h0
      have ea : (AOp.assign src).absOp s.abs = .assign s.abs := by
        cases src with
        | val x => exact absurd trivial hv
        | self => rfl
        | view off => simp only [Src.off] at h0; subst h0; simp [AOp.absOp, Src.readAbs]
      rw [e, ea]
      exact ⟨⟨hs, rfl, rfl, by simp [Spec.raises], fun _ => rfl⟩, rfl⟩
  | concat src =>
    cases src with
    | val x => exact byval (.concat x) hn rfl rfl
    | self => exact absurd hc id
    | view off => exact absurd hc id
  | append src =>
    cases src with
    | val x => exact byval (.append x) hn rfl rfl
    | self => exact absurd hc id
    | view off => exact absurd hc id
  | formatS pos src =>
    cases src with
    | val x => exact byval (.format pos x) hn rfl rfl
    | self => exact absurd hc id
    | view off => exact absurd hc id
  | resize n => exact byval (.resize n) hn rfl rfl
  | clear => exact byval .clear hn rfl rfl
  | format pos f => exact byval (.format pos f) hn rfl rfl
  | rem src =>
    have hr : src.read s = src.readAbs s.abs := read_eq_readAbs hs src hc
    have e : stepA P J mv s (.rem src) = step P J s (.rem (src.readAbs s.abs)) := by
      rw [← hr]
      cases src with
      | val x => rfl
      | self => rfl
      | view off =>
        obtain ⟨c, r, rfl, hcc, habs⟩ := hs.view
        have hoff : off ≤ c.length := by rw [habs] at hc; exact hc
        have := inBlock_view c r hcc off hoff
        simp [stepA, remA, this, step, Src.read]
    exact byval _ hn e rfl

/-- **histories in contract**: by induction, the object stays well-formed, holds the text the specification computes (operands
    that are the target or a view are read from the text at the moment of the call), every step is in bounds and defined -/
theorem runA_ok {P : Params} (hP : P.Lawful) (J : Nat → Byte) (mv : Nat → Bool) : ∀ (ops : List AOp) (i : Nat) (s : Str), s.WF →
    HistOK s.abs ops → (∀ op ∈ ops, op.plain.NulFree) →
    (runA P J mv i s ops).1.WF ∧ (runA P J mv i s ops).1.abs = Spec.runA s.abs ops ∧
    (runA P J mv i s ops).2.length = ops.length ∧
    ∀ r ∈ (runA P J mv i s ops).2, r.safe = true ∧ r.st.WF ∧ r.out.isUB = false
  | [], _, s, hs, _, _ => by simp [runA, Spec.runA, hs]
  | op :: ops, i, s, hs, hok, hops => by
    obtain ⟨h1, hub⟩ := stepA_ok hP J (mv i) s op hs hok.1 (absOp_nulFree (abs_nulFree s) (hops op (by simp)))
    have hok' : HistOK (stepA P J (mv i) s op).st.abs ops := by rw [h1.abs]; exact hok.2
    have ih := runA_ok hP J mv ops (i + 1) (stepA P J (mv i) s op).st h1.wf hok' (fun o ho => hops o (by simp [ho]))
    simp only [runA, Spec.runA]
    refine ⟨ih.1, by rw [ih.2.1, h1.abs], by simp [ih.2.2.1], ?_⟩
    intro r hr
    rcases List.mem_cons.mp hr with hr | hr
    · subst hr; exact ⟨h1.safe, h1.wf, hub⟩
    · exact ih.2.2.2 r hr

/-! ### String_Show into the String it shows -/

theorem showChar_text_ne_nil (b : Byte) : (showChar b).text ≠ [] := by
  unfold showChar; split <;> simp [Item.text]

/-- `show_to(s, s, pos)` at a position inside the text: the block is never empty when the walk starts (it holds the opening
    quote at least), so one `print_to` is made; if that `realloc` moves the block the next `*v` reads freed memory -/
theorem showSelf_moved_ub {P : Params} (hP : P.Lawful) (J : Nat → Byte) (mv : Nat → Bool) (hmv : mv 1 = true) (fuel : Nat)
    (s : Str) (hs : s.WF) (pos : Nat) (hpos : pos ≤ s.abs.length) :
    ∃ r, showSelf P J mv (fuel + 2) s pos = some r ∧ r.out = .ub .useAfterFree := by
  obtain ⟨c, r, rfl, hc, habs⟩ := hs.view
  rw [habs] at hpos
  obtain ⟨hb, _⟩ := format_in_buf hP J pos [34] c r hpos
  have hst := buf_eq hb
  obtain ⟨b, t, hbt, hb0⟩ : ∃ b t, c.take pos ++ [34] ++ [0] = b :: t ∧ b ≠ 0 := by
    cases hq : c.take pos with
    | nil => exact ⟨34, [0], by simp, by decide⟩
    | cons a q =>
      refine ⟨a, q ++ [34] ++ [0], by simp, ?_⟩
      intro h0
      have : (0 : Byte) ∈ c.take pos := by rw [hq, h0]; simp
      exact not_mem_take hc pos this
  have hb0' : (b == 0) = false := by simpa using hb0
  simp only [showSelf, hst, hbt, showSelfLoop, List.getElem?_cons_zero, hb0', hmv]
  exact ⟨_, rfl, rfl⟩

end Cello.Str
