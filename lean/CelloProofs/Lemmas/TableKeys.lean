/-
  CelloProofs/Lemmas/TableKeys.lean — the two key classes the property names, Int and String, as instances of the abstract
  key type of the Table model: the model's key test `r.key = c.key` is run with the decision procedure that the C code runs,
  `eq(a, b)` of src/Cmp.c over `Int_Cmp` of src/Num.c resp. `strcmp` (`String_Cmp`), and the hash is `Int_Hash` resp.
  `String_Hash` = `hash_data` of src/Hash.c.  `CelloGen.Cmp.eq`, `CelloGen.Cmp.intCmp` and the constants of `hashData` are
  regenerated from the source on every run (generators Cmp, Hash), so a change of `Int_Cmp`/`eq`/`hash_data` that breaks
  "eq is equality of the value" breaks the proofs below.

  `String_Cmp` is a call of libc's `strcmp`: there is nothing to translate, the model of it is `Cello.Cmp.bytesCmp` (first
  differing byte as unsigned char; a proper prefix is smaller).  That `String_Cmp` IS that call is an assumption of the String
  instance, stated as `StringCmpIsStrcmp` over the texts generator Table reads from src/String.c on every run: a `String_Cmp`
  that compares anything else (a prefix, a folded case, 7 bits, the hash) no longer meets it.
-/
import Cello.Cmp
import CelloGen.Cmp
import CelloGen.Table
import CelloProofs.Lemmas.Cmp
import Cello.Hash
import CelloProofs.Lemmas.HashVal
namespace Cello.Table

/-- **Int keys: `eq` is equality of the 64-bit value**, all 2^128 pairs (`eq` and `Int_Cmp` as translated from the source) -/
theorem int_eq_iff (a b : BitVec 64) : CelloGen.Cmp.eq Cello.Cmp.intCmp a b = true ↔ a = b := by
  have key : (Cello.Cmp.intCmp a b < 0 ↔ a.toInt < b.toInt) ∧ (Cello.Cmp.intCmp a b = 0 ↔ a.toInt = b.toInt) ∧
      (0 < Cello.Cmp.intCmp a b ↔ b.toInt < a.toInt) := by
    simp only [Cello.Cmp.intCmp, CelloGen.Cmp.intCmp]; int_cmp_tac
  simp only [CelloGen.Cmp.eq, beq_iff_eq]
  rw [key.2.1, BitVec.toInt_inj]

/-- the key test of the model for Int keys: the C predicate `eq(a, b)` -/
def intKeyEq : DecidableEq (BitVec 64) := fun a b => decidable_of_iff _ (int_eq_iff a b)

/-- `Int_Hash`: `(uint64_t)c_int(self)` -/
def intKeyHash (k : BitVec 64) : Nat := k.toNat

/-- the texts the String key instance is written against: `String_Cmp` is `strcmp` on the two character buffers -/
def stringCmpModelled : String := "return strcmp(String_C_Str(self), c_str(obj));"
def stringCStrModelled : String := "struct String* s = self; return s->val;"
def cStrModelled : String := "if (type_of(self) is String) { return ((struct String*)self)->val; } return method(self, C_Str, c_str);"

/-- **the assumption of the String instance, about the source as it is now**: `eq` on two String keys runs
    `strcmp(self->val, obj->val)` — the body of `String_Cmp` (String's registered Cmp instance) and of the two accessors it reads
    its operands through are the texts `bytesCmp` models -/
def StringCmpIsStrcmp : Prop :=
  CelloGen.Table.stringCmpText = stringCmpModelled ∧ CelloGen.Table.stringCStrText = stringCStrModelled ∧
  CelloGen.Table.cStrText = cStrModelled

/-- a key test weaker than `strcmp`: `memcmp` over the shorter of the two lengths, the tie-break on the length forgotten -/
def prefixCmp (a b : List UInt8) : Int :=
  Cello.Cmp.bytesCmp (a.take (min a.length b.length)) (b.take (min a.length b.length))

/-- **String keys: `eq` (`strcmp(a, b) is 0`) is equality of the byte strings** -/
theorem string_eq_iff (a b : List UInt8) : CelloGen.Cmp.eq Cello.Cmp.bytesCmp a b = true ↔ a = b := by
  simp only [CelloGen.Cmp.eq, beq_iff_eq]
  exact Cello.Cmp.bytesCmp_strict.zero_iff a b trivial trivial

/-- the key test of the model for String keys: the C predicate `eq(a, b)` over `strcmp` -/
def stringKeyEq : DecidableEq (List UInt8) := fun a b => decidable_of_iff _ (string_eq_iff a b)

/-- `String_Hash`: `hash_data(s->val, strlen(s->val))` -/
def stringKeyHash (k : List UInt8) : Nat := (Cello.Hash.hashData k).toNat

/-- equal keys hash equally (C10), for the two classes: what makes `hash` a function of the abstract key -/
theorem int_eq_hash (a b : BitVec 64) (h : CelloGen.Cmp.eq Cello.Cmp.intCmp a b = true) : intKeyHash a = intKeyHash b := by
  rw [(int_eq_iff a b).mp h]

theorem string_eq_hash (a b : List UInt8) (h : CelloGen.Cmp.eq Cello.Cmp.bytesCmp a b = true) :
    stringKeyHash a = stringKeyHash b := by
  rw [(string_eq_iff a b).mp h]

/-- Float keys are outside: `eq` on doubles is not equality of the value and not even an equivalence — a NaN compares equal
    to every double (`Float_Cmp` answers 0 when the difference is NaN), so 1.0 "=" NaN "=" 2.0 while 1.0 ≠ 2.0 -/
theorem float_eq_not_an_equivalence :
    Cello.Hash.floatCmp 0x3ff0000000000000 0x7ff8000000000000 = 0 ∧ Cello.Hash.floatCmp 0x7ff8000000000000 0x4000000000000000 = 0 ∧
    Cello.Hash.floatCmp 0x3ff0000000000000 0x4000000000000000 ≠ 0 := by decide

end Cello.Table
