/-
  The capacity of the jump-buffer stack (`EXCEPTION_MAX_DEPTH`, the parameter `maxDepth` of `runWith`, Cello/Exn.lean) is
  unobservable for every program whose try-nesting fits: `exception_try`'s overflow branch is never taken, so the machine
  does exactly what a machine with any other sufficient capacity does, and it never ends `abort` (the underflow branch of
  `exception_try_end` is not taken either). No hypothesis on the program (object domain, filters): it holds for
  `throw(NULL)`, malformed messages, clashes, … as well. Used by CelloProofs/Props/C07.lean with the FIXED nesting bound of
  the property (`nestBound` = 2048) and the generated capacity `CelloGen.Exn.maxDepth`.
-/
import Cello.Exn
import CelloGen.Exn
import CelloProofs.Lemmas.ExnWalk
import CelloProofs.Lemmas.ExnDomain
import CelloProofs.Lemmas.ExnRefine

namespace Cello.Exn

/-- `exception_try_end(); exception_catch(…)` and the handler, from a state one level in: the handler runner matters only
    on states one level further out with nothing pending; if two runners agree there and do not abort, the two catch
    phases agree and do not abort. -/
theorem catchPhase_capacity (dec : List Nat → Nat → Walk) (R1 R2 : Nat → St → St × List Ev × Sig) (f : List Nat)
    (s3 : St) (t : List Ev) (d : Nat) (hd : s3.depth = d + 1)
    (h : ∀ (y : Nat) (s : St), s.active = false → s.depth = d → R1 y s = R2 y s ∧ (R1 y s).2.2 ≠ .abort) :
    catchPhase dec true R1 f s3 t = catchPhase dec true R2 f s3 t ∧ (catchPhase dec true R1 f s3 t).2.2 ≠ .abort := by
  have key := h s3.obj { depth := d, active := false, obj := s3.obj } rfl rfl
  simp only [catchPhase, hd, Nat.add_one_ne_zero, if_false, Nat.add_sub_cancel, if_true]
  cases hact : s3.active with
  | false => simp
  | true =>
    simp only [Bool.not_true, Bool.false_eq_true, if_false]
    cases hdc : dec f s3.obj with
    | matched =>
      by_cases ho : s3.obj = 0
      · simp [ho]
      · simp only [ho, if_false]
        rw [← key.1]
        exact ⟨rfl, key.2⟩
    | exhausted => by_cases hd1 : d ≥ 1 <;> simp [hd1]
    | hang => simp
    | nullCmp => by_cases hd1 : d ≥ 1 <;> simp [hd1]
    | cmpRaises exc => by_cases hd1 : d ≥ 1 <;> simp [hd1]

/-- **Within its capacity the machine does not depend on the capacity, and never aborts** — for every program and
    every filter walk that ends. -/
theorem runWith_within_capacity (dec : List Nat → Nat → Walk) (hdec : ∀ f obj, dec f obj ≠ .hang) (m1 m2 : Nat)
    (p : Prog) :
    ∀ (x : Nat) (s : St), s.active = false → s.depth + nest p ≤ m1 → s.depth + nest p ≤ m2 →
      runWith dec true m1 p x s = runWith dec true m2 p x s ∧ (runWith dec true m1 p x s).2.2 ≠ .abort := by
  induction p with
  | stmt t => intro x s _ _ _; simp [runWith]
  | throw e => intro x s _ _ _; simp only [runWith, throwObj]; split <;> simp
  | throwBad e => intro x s _ _ _; simp only [runWith, throwObj]; split <;> simp
  | rethrow => intro x s _ _ _; simp only [runWith, throwObj]; split <;> simp
  | call p ih => intro x s h h1 h2; simpa [runWith] using ih x s h (by simpa [nest] using h1) (by simpa [nest] using h2)
  | seq p q ihp ihq =>
    intro x s h h1 h2
    have hp := ihp x s h (by simp only [nest] at h1; omega) (by simp only [nest] at h2; omega)
    have hsafe := runWith_safe dec hdec m1 p x s h
    simp only [runWith]
    rw [← hp.1]
    rcases hr : runWith dec true m1 p x s with ⟨s1, t1, g1⟩
    rw [hr] at hp hsafe
    cases g1 with
    | normal =>
      simp only [Safe] at hsafe
      have hq := ihq x s1 hsafe.2 (by simp only [nest] at h1; omega) (by simp only [nest] at h2; omega)
      simp only
      rw [← hq.1]
      rcases hr2 : runWith dec true m1 q x s1 with ⟨s2, t2, g2⟩
      rw [hr2] at hq
      exact ⟨rfl, hq.2⟩
    | abort => exact absurd rfl hp.2
    | jump tgt => simp
    | fatal => simp
    | ub => simp
    | hang => simp
  | tryCatch b f h ihb ihh =>
    intro x s hs h1 h2
    have hlt1 : s.depth ≠ m1 := by simp only [nest] at h1; omega
    have hlt2 : s.depth ≠ m2 := by simp only [nest] at h2; omega
    simp only [runWith, hlt1, hlt2, if_false]
    have hb := ihb x { s with depth := s.depth + 1, active := false } rfl
      (by simp only [nest] at h1; simp; omega) (by simp only [nest] at h2; simp; omega)
    have hsafe := runWith_safe dec hdec m1 b x { s with depth := s.depth + 1, active := false } rfl
    rw [← hb.1]
    rcases hr : runWith dec true m1 b x { s with depth := s.depth + 1, active := false } with ⟨s2, t, g⟩
    rw [hr] at hb hsafe
    have hH : ∀ (y : Nat) (s' : St), s'.active = false → s'.depth = s.depth →
        runWith dec true m1 h y s' = runWith dec true m2 h y s' ∧ (runWith dec true m1 h y s').2.2 ≠ .abort := by
      intro y s' ha' hd'
      exact ihh y s' ha' (by simp only [nest] at h1; omega) (by simp only [nest] at h2; omega)
    cases g with
    | normal =>
      simp only [Safe] at hsafe
      exact catchPhase_capacity dec _ _ f s2 t s.depth hsafe.1 hH
    | jump tgt =>
      simp only [Safe] at hsafe
      obtain ⟨_, ht, hd2⟩ := hsafe
      have : tgt = s.depth := by simpa using ht
      subst this
      simp only [if_true]
      exact catchPhase_capacity dec _ _ f { s2 with active := true } t s.depth hd2 hH
    | abort => exact absurd rfl hb.2
    | fatal => simp
    | ub => simp
    | hang => simp

end Cello.Exn
