/-
  Lemmas/ThrSync.lean — extension round for C13: the composition `syncStep` (Cello/ThreadsSync.lean: flag test, pthread
  primitive, extracted translation table) is the holder / phase machine `step` of Cello/Threads.lean whenever the tables
  agree with the model on the return values the primitives can produce.
-/
import Cello.ThreadsSync
import CelloProofs.Lemmas.Thr

namespace Cello.Thr

/-- what `syncStep` needs to know about a set of tables to be the holder / phase machine `step` -/
structure TabsAgree (cfg : Cfg) (tabs : SyncTabs) : Prop where
  lock0 : trTable tabs.lock .zero = none
  try0 : tryTable tabs.trylock tabs.tryDefault .zero = .val true
  tryBusy : tryTable tabs.trylock tabs.tryDefault .ebusy = .val false
  unlock0 : trTable tabs.unlock .zero = none
  join0 : trTable tabs.join .zero = none
  joinDeadlk : trTable tabs.join .edeadlk = joinTrOf cfg .edeadlk

theorem syncStep_eq_step (cfg : Cfg) (tabs : SyncTabs) (h : TabsAgree cfg tabs) (g : G) (e : Ev) (r : G × Out)
    (hs : syncStep tabs g e = some r) : step cfg g e = r := by
  cases e with
  | lock t m =>
    simp only [syncStep, Option.some.injEq] at hs
    subst hs
    simp only [step, pmLock]
    split
    · rfl
    · cases hh : g.holder m <;> simp [h.lock0, acquireIf]
  | trylock t m =>
    simp only [syncStep, Option.some.injEq] at hs
    subst hs
    simp only [step, pmTrylock]
    split
    · rfl
    · cases hh : g.holder m <;> simp [h.try0, h.tryBusy, acquireIf]
  | unlock t m =>
    simp only [syncStep, Option.some.injEq] at hs
    subst hs
    simp only [step, pmUnlock]
    split
    · rfl
    · by_cases hh : g.holder m = some t <;> simp [hh, h.unlock0]
  | join t u =>
    simp only [syncStep, Option.some.injEq] at hs
    subst hs
    simp only [step, pJoin, threadField]
    split
    · rfl
    · rename_i hr
      split
      · rfl
      · by_cases htu : t = u
        · subst htu
          have hph : (g.thr t).phase = .running := by simpa [running] using hr
          have hjd := h.joinDeadlk
          cases hx : joinTrOf cfg .edeadlk <;> rw [hx] at hjd <;> simp [raiseIn, hph, hjd]
        · simp only [htu, if_false]
          cases hp : (g.thr u).phase <;> simp
          cases g.joined u <;> simp [h.join0]
  | _ => simp [syncStep] at hs

/-- the two readers of the tables agree (`trTable` lives with the model so that the driver can run it, `tableTr` with the lemmas) -/
theorem trTable_eq_tableTr (tab : List (String × String)) (e : Errno) : trTable tab e = tableTr tab e := by
  have h1 : e.cname = e.name := by cases e <;> rfl
  have h2 : excNamed = excOfName := by funext s; rfl
  simp [trTable, tableTr, h1, h2]


end Cello.Thr
