/-
  CelloProofs/Lemmas/TableMark.lean — `Table_Mark` and `Table_Hash` (Cello/TableMark.lean) against the association-list
  specification: what the collector is told and what `hash(t)` answers are functions of the bindings alone.
-/
import CelloProofs.Lemmas.TableArgs
import Cello.TableMark
set_option linter.unusedSectionVars false
set_option linter.unusedVariables false
namespace Cello.Table
open RH
variable {κ ν : Type} [DecidableEq κ]

/-! ### `Table_Mark` -/

/-- the reports of the marking loop come in (key object, value object of the same record) pairs, and read as bindings they
    are the occupied records in slot order -/
theorem pairsOf_markLoop (l : List (Option (Entry κ ν))) (i : Nat) :
    pairsOf (markLoop l i) = some (l.filterMap (Option.map kv)) := by
  induction l generalizing i with
  | nil => rfl
  | cons a r ih =>
    cases a with
    | none => simp [markLoop, ih]
    | some e => simp [markLoop, pairsOf, ih, kv]

theorem markLoop_length (l : List (Option (Entry κ ν))) (i : Nat) : (markLoop l i).length = 2 * occ l := by
  induction l generalizing i with
  | nil => rfl
  | cons a r ih =>
    cases a with
    | none => simp [markLoop, ih, occ]
    | some e => simp [markLoop, ih, occ]; omega

/-- every reported object lies in an occupied record at or after the loop's start, and is that record's key or value object -/
theorem markLoop_slot (l : List (Option (Entry κ ν))) (i : Nat) :
    ∀ x ∈ markLoop l i, i ≤ x.slot ∧ ∃ e, l[x.slot - i]? = some (some e) ∧ (x = .key x.slot e.key ∨ x = .val x.slot e.val) := by
  induction l generalizing i with
  | nil => intro x hx; simp [markLoop] at hx
  | cons a r ih =>
    have tail : ∀ x ∈ markLoop r (i + 1),
        i ≤ x.slot ∧ ∃ e, (a :: r)[x.slot - i]? = some (some e) ∧ (x = .key x.slot e.key ∨ x = .val x.slot e.val) := by
      intro x hx
      obtain ⟨h1, e, h2, h3⟩ := ih (i + 1) x hx
      refine ⟨by omega, e, ?_, h3⟩
      have : x.slot - i = (x.slot - (i + 1)) + 1 := by omega
      rw [this, List.getElem?_cons_succ]; exact h2
    cases a with
    | none => intro x hx; exact tail x (by simpa [markLoop] using hx)
    | some e =>
      intro x hx
      simp only [markLoop, List.mem_cons] at hx
      rcases hx with rfl | rfl | hx
      · exact ⟨Nat.le_refl _, e, by simp [Reported.slot], Or.inl rfl⟩
      · exact ⟨Nat.le_refl _, e, by simp [Reported.slot], Or.inr rfl⟩
      · exact tail x hx

/-- **`Table_Mark` on a table in the invariant**: the calls of the callback, read as bindings, are exactly what iteration
    yields (`foreach`), there are two per item, and each names the key / value object of an OCCUPIED record inside the array —
    no empty (zeroed) record and nothing outside `data[0 .. nslots)` is ever handed to the collector. -/
theorem mark_spec (hash : κ → Nat) (t : Tab κ ν) (w : WF hash t) :
    pairsOf (mark t) = some (foreach t) ∧ (mark t).length = 2 * t.nitems ∧
      ∀ x ∈ mark t, ∃ (h : x.slot < t.n) (e : Entry κ ν), t.slots[x.slot] = some e ∧ (x = .key x.slot e.key ∨ x = .val x.slot e.val) := by
  refine ⟨?_, ?_, ?_⟩
  · rw [foreach_eq hash t w]; exact pairsOf_markLoop _ 0
  · rw [mark, markLoop_length, occ_toList, w.cnt]
  · intro x hx
    obtain ⟨_, e, h2, h3⟩ := markLoop_slot t.slots.toList 0 x hx
    simp only [Nat.sub_zero] at h2
    obtain ⟨hl, he⟩ := List.getElem?_eq_some_iff.mp h2
    have hn : x.slot < t.n := by simpa using hl
    refine ⟨hn, e, ?_, h3⟩
    simpa using he

/-- … against the map: the reported bindings are a permutation of the map's (every bound key object and its value object is
    reported exactly once, nothing else is) -/
theorem mark_rep (hash : κ → Nat) (t : Tab κ ν) (m : Spec κ ν) (r : Rep0 hash t m) :
    ∃ ps, pairsOf (mark t) = some ps ∧ ps.Perm m ∧ (mark t).length = 2 * m.length := by
  obtain ⟨h1, h2, _⟩ := mark_spec hash t r.toWF
  exact ⟨foreach t, h1, foreach_perm hash t m r, by rw [h2, r.len]⟩

/-! ### `Table_Hash` -/

theorem hashStep_comm (hk : κ → Nat) (hv : ν → Nat) (z : Nat) (x y : κ × ν) :
    hashStep hk hv (hashStep hk hv z x) y = hashStep hk hv (hashStep hk hv z y) x := by
  simp only [hashStep]
  ac_rfl

/-- the map's hash does not depend on the order its bindings are listed in -/
theorem specHash_perm (hk : κ → Nat) (hv : ν → Nat) {m1 m2 : Spec κ ν} (p : m1.Perm m2) :
    Spec.hash hk hv m1 = Spec.hash hk hv m2 :=
  List.Perm.foldl_eq' p (fun x _ y _ z => hashStep_comm hk hv z x y) 0

/-- **`Table_Hash` on a table in the invariant** is the hash of the map it represents -/
theorem tableHash_rep (hash : κ → Nat) (hk : κ → Nat) (hv : ν → Nat) (t : Tab κ ν) (m : Spec κ ν) (r : Rep0 hash t m) :
    tableHash hk hv t = Spec.hash hk hv m :=
  specHash_perm hk hv (foreach_perm hash t m r)

/-! ### histories -/

def XObsRel (a : XObs κ ν) (b : XSpecObs κ ν) : Prop :=
  match a, b with
  | .base o, .base o' => ObsRel o o'
  | .marked l, .bindings m => ∃ ps, pairsOf l = some ps ∧ ps.Perm m ∧ l.length = 2 * m.length
  | .hashed h, .hashed h' => h = h'
  | _, _ => False

theorem stepX_refines (cfg : Cfg) (g : GoodCfg cfg) (hc : cfg.getChecksKey = true) (hash : κ → Nat) (asKey : ν → Option κ)
    (asVal : κ → Option ν) (hk : κ → Nat) (hv : ν → Nat) (ts : List (Tab κ ν)) (ms : List (Spec κ ν)) (R : StRel hash ts ms)
    (op : XOp κ ν) :
    ∃ ts' o, stepX cfg hash asKey asVal hk hv ts op = .ok (ts', o) ∧ StRel hash ts' (specStepX asKey asVal hk hv ms op).1 ∧
      XObsRel o (specStepX asKey asVal hk hv ms op).2 := by
  cases op with
  | base op =>
    obtain ⟨ts', o, e, R', ho⟩ := stepA_refines cfg g hc hash asKey asVal ts ms R op
    exact ⟨ts', .base o, by simp only [stepX, e], R', ho⟩
  | mark t =>
    cases ht : ts[t]? with
    | none =>
      have hm := R.none ht
      exact ⟨ts, .base .badOp, by simp only [stepX, ht], by simpa only [specStepX, hm] using R, by simp only [specStepX, hm]; rfl⟩
    | some tb =>
      obtain ⟨m, hm, r⟩ := R.get ht
      refine ⟨ts, .marked (mark tb), by simp only [stepX, ht], by simpa only [specStepX, hm] using R, ?_⟩
      simp only [specStepX, hm]
      exact mark_rep hash tb m r.toRep0
  | hash t =>
    cases ht : ts[t]? with
    | none =>
      have hm := R.none ht
      exact ⟨ts, .base .badOp, by simp only [stepX, ht], by simpa only [specStepX, hm] using R, by simp only [specStepX, hm]; rfl⟩
    | some tb =>
      obtain ⟨m, hm, r⟩ := R.get ht
      refine ⟨ts, .hashed (tableHash hk hv tb), by simp only [stepX, ht], by simpa only [specStepX, hm] using R, ?_⟩
      simp only [specStepX, hm]
      exact tableHash_rep hash hk hv tb m r.toRep0

theorem runX_refines (cfg : Cfg) (g : GoodCfg cfg) (hc : cfg.getChecksKey = true) (hash : κ → Nat) (asKey : ν → Option κ)
    (asVal : κ → Option ν) (hk : κ → Nat) (hv : ν → Nat) :
    ∀ (ops : List (XOp κ ν)) (ts : List (Tab κ ν)) (ms : List (Spec κ ν)), StRel hash ts ms →
      ∃ ts' os, runX cfg hash asKey asVal hk hv ts ops = .ok (ts', os) ∧ StRel hash ts' (specRunX asKey asVal hk hv ms ops).1 ∧
        List.Forall₂ XObsRel os (specRunX asKey asVal hk hv ms ops).2 := by
  intro ops
  induction ops with
  | nil => intro ts ms R; exact ⟨ts, [], rfl, R, List.Forall₂.nil⟩
  | cons op ops ih =>
    intro ts ms R
    obtain ⟨ts1, o, e1, R1, ho⟩ := stepX_refines cfg g hc hash asKey asVal hk hv ts ms R op
    obtain ⟨ts2, os, e2, R2, hos⟩ := ih ts1 (specStepX asKey asVal hk hv ms op).1 R1
    refine ⟨ts2, o :: os, ?_, ?_, ?_⟩
    · simp only [runX, e1, e2]
    · simpa [specRunX] using R2
    · simpa [specRunX] using List.Forall₂.cons ho hos

/-- a history without `mark` / `hash` is the history of the layer below -/
theorem runX_base (cfg : Cfg) (hash : κ → Nat) (asKey : ν → Option κ) (asVal : κ → Option ν) (hk : κ → Nat) (hv : ν → Nat) :
    ∀ (ops : List (AOp κ ν)) (ts : List (Tab κ ν)),
      runX cfg hash asKey asVal hk hv ts (ops.map .base) = (runA cfg hash asKey asVal ts ops).map (fun r => (r.1, r.2.map .base)) := by
  intro ops
  induction ops with
  | nil => intro ts; rfl
  | cons op ops ih =>
    intro ts
    simp only [List.map_cons, runX, runA, stepX]
    cases stepA cfg hash asKey asVal ts op with
    | error f => rfl
    | ok p =>
      simp only [ih]
      cases runA cfg hash asKey asVal p.1 ops with
      | error f => rfl
      | ok q => rfl

end Cello.Table
