/-
  Lemmas for C15 (engine `text`): the String writer/reader pair.
-/
import Cello.Text

namespace Cello.Text

/-! ## table facts, as an executable check + its meaning -/

/-- everything the round trip needs from the two escape tables and the delimiter bytes, as a `Bool` (decided on the generated tables) -/
def tablesOK (c : Cfg) : Bool :=
  c.showEsc.all (fun p => match p.2 with
    | [e, l] => e == c.look.escb && c.look.esc.lookup l == some [p.1]
    | _ => false) &&
  (c.showEsc.lookup c.look.cls).isSome && (c.showEsc.lookup c.look.escb).isSome &&
  c.look.escb != c.look.cls && c.showOpen == [c.look.opn] && c.showClose == [c.look.cls]

theorem mem_of_lookup {α : Type} (l : List (Nat × α)) (k : Nat) (v : α) (h : l.lookup k = some v) : (k, v) ∈ l := by
  induction l with
  | nil => simp [List.lookup] at h
  | cons p ps ih =>
    obtain ⟨a, b⟩ := p
    simp only [List.lookup] at h
    split at h
    · rename_i heq
      have : k = a := by simpa using heq
      simp only [Option.some.injEq] at h
      subst this h
      exact List.mem_cons_self
    · exact List.mem_cons_of_mem _ (ih h)

structure Tables (c : Cfg) : Prop where
  back : ∀ b t, c.showEsc.lookup b = some t → ∃ l, t = [c.look.escb, l] ∧ c.look.esc.lookup l = some [b]
  cls_esc : (c.showEsc.lookup c.look.cls).isSome = true
  escb_esc : (c.showEsc.lookup c.look.escb).isSome = true
  escb_ne_cls : c.look.escb ≠ c.look.cls
  opn : c.showOpen = [c.look.opn]
  cls : c.showClose = [c.look.cls]

theorem tables_of_ok (c : Cfg) (h : tablesOK c = true) : Tables c := by
  simp only [tablesOK, Bool.and_eq_true, List.all_eq_true, bne_iff_ne, ne_eq, beq_iff_eq] at h
  obtain ⟨⟨⟨⟨⟨h1, h2⟩, h3⟩, h4⟩, h5⟩, h6⟩ := h
  refine ⟨?_, h2, h3, h4, h5, h6⟩
  intro b t hb
  have hm := mem_of_lookup _ _ _ hb
  have := h1 _ hm
  rcases t with _ | ⟨e, _ | ⟨l, _ | ⟨x, r⟩⟩⟩ <;> simp at this
  exact ⟨l, by rw [this.1], this.2⟩

theorem cstr_single {b : Nat} (hb : b ≠ 0) : cstr [b] = [b] := by
  simp [cstr, List.takeWhile, hb]

/-! ## the reader undoes the writer -/

theorem lookLoop_cls (c : LookCfg) (r : List Nat) (pos : Nat) (acc : List Nat) :
    lookLoop c (c.cls :: r) pos acc = (acc, .ok (r, pos + 1)) := by
  cases r <;> simp [lookLoop]

theorem lookLoop_plain (c : LookCfg) (b : Nat) (r : List Nat) (pos : Nat) (acc : List Nat)
    (h1 : b ≠ c.cls) (h2 : b ≠ c.escb) :
    lookLoop c (b :: r) pos acc = lookLoop c r (pos + 1) (acc ++ cstr [b]) := by
  cases r <;> simp [lookLoop, h1, h2]

theorem lookLoop_esc (c : LookCfg) (l : Nat) (t : List Nat) (r : List Nat) (pos : Nat) (acc : List Nat)
    (h : c.escb ≠ c.cls) (hl : c.esc.lookup l = some t) :
    lookLoop c (c.escb :: l :: r) pos acc =
      if c.continues then lookLoop c r (pos + 2) (acc ++ cstr t) else lookLoop c r (pos + 2) (acc ++ cstr t ++ cstr [l]) := by
  simp [lookLoop, h, hl]

/-- the loop of `String_Look` on the body `String_Show` wrote for `s`, followed by the closing delimiter and anything at all -/
theorem lookLoop_show (c : Cfg) (T : Tables c) (hc : c.look.continues = true) (s : List Nat) (hs : ∀ b ∈ s, b ≠ 0) :
    ∀ (rest : List Nat) (pos : Nat) (acc : List Nat),
      lookLoop c.look (s.flatMap (showByte c.showEsc) ++ c.look.cls :: rest) pos acc
        = (acc ++ s, .ok (rest, pos + (s.flatMap (showByte c.showEsc)).length + 1)) := by
  induction s with
  | nil => intro rest pos acc; simp [lookLoop_cls]
  | cons b s ih =>
    intro rest pos acc
    have hb : b ≠ 0 := hs b List.mem_cons_self
    have hs' : ∀ x ∈ s, x ≠ 0 := fun x hx => hs x (List.mem_cons_of_mem _ hx)
    simp only [List.flatMap_cons, List.append_assoc]
    cases hl : c.showEsc.lookup b with
    | some t =>
      obtain ⟨l, ht, hl2⟩ := T.back b t hl
      have hsb : showByte c.showEsc b = [c.look.escb, l] := by simp [showByte, hl, ht]
      rw [hsb]
      simp only [List.cons_append, List.nil_append]
      rw [lookLoop_esc _ _ _ _ _ _ T.escb_ne_cls hl2]
      simp only [hc, if_true]
      rw [ih hs', cstr_single hb]
      simp only [List.append_assoc, List.singleton_append, List.length_cons]
      congr 3; omega
    | none =>
      have hsb : showByte c.showEsc b = [b] := by simp [showByte, hl]
      have h1 : b ≠ c.look.cls := by
        intro h; have := T.cls_esc; rw [← h, hl] at this; simp at this
      have h2 : b ≠ c.look.escb := by
        intro h; have := T.escb_esc; rw [← h, hl] at this; simp at this
      rw [hsb]
      simp only [List.cons_append, List.nil_append]
      rw [lookLoop_plain _ _ _ _ _ h1 h2]
      rw [ih hs', cstr_single hb]
      simp only [List.append_assoc, List.singleton_append, List.length_cons]
      congr 3; omega

/-- `String_Look` on what `String_Show` wrote, followed by anything: the value, the untouched rest, and `pos` advanced by exactly
    the number of characters written -/
theorem lookString_show (c : Cfg) (T : Tables c) (hc : c.look.continues = true) (s : List Nat) (hs : ∀ b ∈ s, b ≠ 0)
    (rest : List Nat) (pos : Nat) :
    lookString c.look (showString c.showEsc c.showOpen c.showClose s ++ rest) pos
      = (s, .ok (rest, pos + (showString c.showEsc c.showOpen c.showClose s).length)) := by
  simp only [showString, T.opn, T.cls, List.cons_append, List.nil_append, List.append_assoc, lookString, if_true]
  rw [lookLoop_show c T hc s hs]
  simp only [List.nil_append, List.length_cons, List.length_append, List.length_nil]
  congr 3; omega

end Cello.Text

namespace Cello.Text

/-! ## integers: `scanNumber` undoes the digits printf writes, in base 8, 10 and 16 -/

theorem natDigits_zero : natDigits 0 = [48] := by rw [natDigits]; simp

/-- evaluation rules for concrete numbers (`natDigits` is defined by well-founded recursion, which `decide` does not unfold) -/
theorem natDigits_lt10 (n : Nat) (h : n < 10) : natDigits n = [48 + n] := by rw [natDigits]; simp [h]
theorem natDigits_ge10 (n : Nat) (h : 10 ≤ n) : natDigits n = natDigits (n / 10) ++ [48 + n % 10] := by
  rw [natDigits]; simp [Nat.not_lt.2 h]

theorem digitsB_lt (base : Nat) (upper : Bool) (n : Nat) (h : n < base) : digitsB base upper n = [digitChar upper n] := by
  rw [digitsB]; simp [h]
theorem digitsB_ge (base : Nat) (upper : Bool) (n : Nat) (hb : 2 ≤ base) (h : base ≤ n) :
    digitsB base upper n = digitsB base upper (n / base) ++ [digitChar upper (n % base)] := by
  rw [digitsB]; have : ¬(n < base ∨ base < 2) := by omega
  simp [this]

/-- decimal digits are the base-10 instance of `digitsB` -/
theorem natDigits_eq (n : Nat) : natDigits n = digitsB 10 false n := by
  induction n using Nat.strongRecOn with
  | _ n ih =>
    by_cases h : n < 10
    · rw [natDigits_lt10 n h, digitsB_lt 10 false n h]; simp [digitChar, h]
    · rw [natDigits_ge10 n (by omega), digitsB_ge 10 false n (by omega) (by omega), ih (n / 10) (by omega)]
      have : n % 10 < 10 := Nat.mod_lt _ (by omega)
      simp [digitChar, this]

theorem digitVal_digitChar (base : Nat) (upper : Bool) (d : Nat) (hd : d < base) (hb : base ≤ 16) :
    digitVal base (digitChar upper d) = some d := by
  unfold digitVal digitChar
  by_cases h10 : d < 10
  · have h1 : 48 ≤ 48 + d ∧ 48 + d ≤ 57 := by omega
    simp only [h10, if_true, h1, and_self]
    simp [hd]
  · cases upper with
    | true =>
      have h1 : ¬(48 ≤ 55 + d ∧ 55 + d ≤ 57) := by omega
      have h2 : ¬(97 ≤ 55 + d ∧ 55 + d ≤ 102) := by omega
      have h3 : (65 ≤ 55 + d ∧ 55 + d ≤ 70) := by omega
      simp only [h10, if_false, if_true, h1, h2, h3, and_self]
      have : 55 + d - 55 = d := by omega
      simp [this, hd]
    | false =>
      have h1 : ¬(48 ≤ 87 + d ∧ 87 + d ≤ 57) := by omega
      have h2 : (97 ≤ 87 + d ∧ 87 + d ≤ 102) := by omega
      simp only [h10, if_false, Bool.false_eq_true, h1, h2, and_self, if_true]
      have : 87 + d - 87 = d := by omega
      simp [this, hd]

/-- value of a digit list read left to right in base `base`, starting from `acc` (what `readDigits` accumulates) -/
def evalDV (base : Nat) (acc : Nat) (ds : List Nat) : Nat := ds.foldl (fun a b => a * base + (digitVal base b).getD 0) acc

/-- every character of `digitsB` is a digit of the base -/
theorem digitsB_valid (base : Nat) (upper : Bool) (hb2 : 2 ≤ base) (hb : base ≤ 16) (n : Nat) :
    ∀ b ∈ digitsB base upper n, ∃ d, d < base ∧ b = digitChar upper d ∧ digitVal base b = some d := by
  induction n using Nat.strongRecOn with
  | _ n ih =>
    by_cases h : n < base
    · rw [digitsB_lt base upper n h]
      intro b hb'; simp at hb'; subst hb'
      exact ⟨n, h, rfl, digitVal_digitChar base upper n h hb⟩
    · rw [digitsB_ge base upper n hb2 (by omega)]
      intro b hb'
      simp only [List.mem_append, List.mem_singleton] at hb'
      rcases hb' with hb' | hb'
      · exact ih (n / base) (Nat.div_lt_self (by omega) (by omega)) b hb'
      · subst hb'
        have : n % base < base := Nat.mod_lt _ (by omega)
        exact ⟨n % base, this, rfl, digitVal_digitChar base upper _ this hb⟩

theorem evalDV_digitsB (base : Nat) (upper : Bool) (hb2 : 2 ≤ base) (hb : base ≤ 16) (n : Nat) :
    ∀ acc, evalDV base acc (digitsB base upper n) = acc * base ^ (digitsB base upper n).length + n := by
  induction n using Nat.strongRecOn with
  | _ n ih =>
    intro acc
    by_cases h : n < base
    · rw [digitsB_lt base upper n h]
      simp [evalDV, digitVal_digitChar base upper n h hb]
    · rw [digitsB_ge base upper n hb2 (by omega)]
      have := ih (n / base) (Nat.div_lt_self (by omega) (by omega)) acc
      have hm : n % base < base := Nat.mod_lt _ (by omega)
      simp only [evalDV] at this ⊢
      rw [List.foldl_append, this]
      simp only [List.foldl_cons, List.foldl_nil, List.length_append, List.length_cons, List.length_nil, Nat.pow_succ,
        digitVal_digitChar base upper _ hm hb, Option.getD_some, Nat.zero_add]
      have hdm := Nat.div_add_mod n base
      generalize (digitsB base upper (n / base)).length = L at *
      rw [Nat.add_mul, Nat.mul_assoc]
      rw [Nat.mul_comm (n / base) base, Nat.add_assoc, hdm]

theorem digitChar_facts (upper : Bool) (d : Nat) (h0 : 0 < d) (h : d < 16) :
    digitChar upper d ≠ 48 ∧ isSpace (digitChar upper d) = false ∧ digitChar upper d ≠ 45 ∧ digitChar upper d ≠ 43 := by
  unfold digitChar isSpace
  by_cases h10 : d < 10
  · simp only [h10, if_true]
    refine ⟨by omega, ?_, by omega, by omega⟩
    simp; omega
  · cases upper with
    | true =>
      simp only [h10, if_false, if_true]
      refine ⟨by omega, ?_, by omega, by omega⟩
      simp; omega
    | false =>
      simp only [h10, if_false, Bool.false_eq_true]
      refine ⟨by omega, ?_, by omega, by omega⟩
      simp; omega

/-- a positive number's first digit is not `0` -/
theorem digitsB_head (base : Nat) (upper : Bool) (hb2 : 2 ≤ base) (hb : base ≤ 16) (n : Nat) (hn : 0 < n) :
    ∃ d r, digitsB base upper n = d :: r ∧ d ≠ 48 ∧ isSpace d = false ∧ d ≠ 45 ∧ d ≠ 43 ∧ digitVal base d ≠ none := by
  induction n using Nat.strongRecOn with
  | _ n ih =>
    by_cases h : n < base
    · rw [digitsB_lt base upper n h]
      obtain ⟨f1, f2, f3, f4⟩ := digitChar_facts upper n hn (by omega)
      refine ⟨digitChar upper n, [], rfl, f1, f2, f3, f4, ?_⟩
      rw [digitVal_digitChar base upper n h hb]; simp
    · rw [digitsB_ge base upper n hb2 (by omega)]
      have hpos : 0 < n / base := Nat.div_pos (by omega) (by omega)
      obtain ⟨d, r, h1, h2⟩ := ih (n / base) (Nat.div_lt_self (by omega) (by omega)) hpos
      exact ⟨d, r ++ [digitChar upper (n % base)], by rw [h1]; rfl, h2⟩

theorem digitsB_ne_nil (base : Nat) (upper : Bool) (n : Nat) : digitsB base upper n ≠ [] := by
  rw [digitsB]; split <;> simp

theorem digitVal_nondigit (base b : Nat) (hb : base ≤ 10) (h : isDigit b = false) : digitVal base b = none := by
  simp only [isDigit, Bool.and_eq_false_iff, decide_eq_false_iff_not, Nat.not_le] at h
  unfold digitVal
  by_cases h1 : 97 ≤ b ∧ b ≤ 102
  · have : ¬(48 ≤ b ∧ b ≤ 57) := by omega
    simp only [this, if_false, h1]
    have : ¬ (b - 87 < base) := by omega
    simp [this]
  · by_cases h2 : 65 ≤ b ∧ b ≤ 70
    · have : ¬(48 ≤ b ∧ b ≤ 57) := by omega
      simp only [this, if_false, h1, h2]
      have : ¬ (b - 55 < base) := by omega
      simp [this]
    · have : ¬(48 ≤ b ∧ b ≤ 57) := by omega
      simp [this, h1, h2]

theorem digitVal_nonhex (base b : Nat) (h : isHexDigit b = false) : digitVal base b = none := by
  have h1 : ¬(48 ≤ b ∧ b ≤ 57) := by
    intro hh; simp [isHexDigit, isDigit, hh.1, hh.2] at h
  have h2 : ¬(97 ≤ b ∧ b ≤ 102) := by
    intro hh
    have hl : lower b = b := by unfold lower; split <;> omega
    simp [isHexDigit, hl, hh.1, hh.2] at h
  have h3 : ¬(65 ≤ b ∧ b ≤ 70) := by
    intro hh
    have hl : lower b = b + 32 := by unfold lower; split <;> omega
    have e1 : 97 ≤ b + 32 := by omega
    have e2 : b + 32 ≤ 102 := by omega
    simp [isHexDigit, hl, e1, e2] at h
  unfold digitVal
  simp [h1, h2, h3]

theorem digitVal_mono (base base' b : Nat) (hb : base' ≤ base) (h : digitVal base b = none) : digitVal base' b = none := by
  unfold digitVal at *
  generalize (if 48 ≤ b ∧ b ≤ 57 then some (b - 48) else if 97 ≤ b ∧ b ≤ 102 then some (b - 87) else if 65 ≤ b ∧ b ≤ 70 then some (b - 55) else none) = v at *
  cases v with
  | none => rfl
  | some d =>
    simp only at h ⊢
    split at h
    · exact absurd h (by simp)
    · have : ¬ d < base' := by omega
      simp [this]

/-- `readDigits` over a run of digits valid in the base, followed by text whose first byte is not a digit of the base -/
theorem readDigits_run (base : Nat) (ds rest : List Nat)
    (hds : ∀ b ∈ ds, digitVal base b ≠ none)
    (hrest : ∀ b r, rest = b :: r → digitVal base b = none) :
    ∀ acc k, readDigits base (ds ++ rest) acc k = (evalDV base acc ds, k + ds.length, rest) := by
  induction ds with
  | nil =>
    intro acc k
    cases rest with
    | nil => simp [readDigits, evalDV]
    | cons b r => simp [readDigits, evalDV, hrest b r rfl]
  | cons d ds ih =>
    intro acc k
    have hd := hds d List.mem_cons_self
    obtain ⟨v, hv⟩ := Option.ne_none_iff_exists'.1 hd
    have := ih (fun b hb => hds b (List.mem_cons_of_mem _ hb)) (acc * base + v) (k + 1)
    simp only [List.cons_append, readDigits, hv, this, evalDV, List.foldl_cons, List.length_cons, Option.getD_some]
    congr 2; omega

theorem headIs_false_iff (p : Nat → Bool) (l : List Nat) : headIs p l = false ↔ ∀ b r, l = b :: r → p b = false := by
  cases l with
  | nil => simp [headIs]
  | cons a t => simp [headIs]

theorem skipSpace_nonspace (b : Nat) (r : List Nat) (h : isSpace b = false) : skipSpace (b :: r) = b :: r := by
  simp [skipSpace, h]

theorem autoBase_nonzero (d : Nat) (r : List Nat) (h : d ≠ 48) : autoBase (d :: r) = 10 := by
  unfold autoBase
  split <;> simp_all

theorem autoBase_zero (rest : List Nat) (h : headIs isXx rest = false) : autoBase (48 :: rest) = 8 := by
  cases rest with
  | nil => simp [autoBase]
  | cons x r =>
    simp only [headIs, isXx, Bool.or_eq_false_iff, beq_eq_false_iff_ne] at h
    simp [autoBase, h.1, h.2]

theorem hexPrefix_nonzero (d : Nat) (r : List Nat) (h : d ≠ 48) : hexPrefix (d :: r) = false := by
  unfold hexPrefix
  split <;> simp_all

theorem hexPrefix_zero (rest : List Nat) (h : headIs isXx rest = false) : hexPrefix (48 :: rest) = false := by
  cases rest with
  | nil => simp [hexPrefix]
  | cons x r =>
    simp only [headIs, isXx] at h
    simp [hexPrefix, h]

/-- the base printf writes a conversion in -/
def IConv.printBase : IConv → Nat
  | .o => 8
  | .x | .X => 16
  | _ => 10

/-- "the text that follows does not continue a number read in base `base`" -/
def noDigitOf (base : Nat) (rest : List Nat) : Prop := ∀ b r, rest = b :: r → digitVal base b = none

/-- what `scanNumber` makes of magnitude `v` and sign `neg` -/
def finNum (c : IConv) (neg : Bool) (v : Nat) : Nat :=
  if c.signed then (clampLong neg v % (2 : Int) ^ 64).toNat else clampULong neg v

/-- digits of `m > 0` in the base of the conversion, optionally after a minus sign, then text that does not continue them: the
    scanner reads exactly the digits, in that base (whether fixed by the conversion or chosen by `%i` from the prefix) -/
theorem scanNumber_pos (c : IConv) (upper neg : Bool) (m : Nat) (hm : 0 < m) (rest : List Nat)
    (hr : noDigitOf c.printBase rest) :
    scanNumber c ((if neg then [45] else []) ++ digitsB c.printBase upper m ++ rest) = .ok (finNum c neg m, rest) := by
  have hb2 : 2 ≤ c.printBase := by cases c <;> simp [IConv.printBase]
  have hb16 : c.printBase ≤ 16 := by cases c <;> simp [IConv.printBase]
  obtain ⟨d, r, hd, h48, hsp, h45, h43, _⟩ := digitsB_head c.printBase upper hb2 hb16 m hm
  have hrun := readDigits_run c.printBase (digitsB c.printBase upper m) rest
    (fun b hb => by obtain ⟨d', _, _, h⟩ := digitsB_valid c.printBase upper hb2 hb16 m b hb; rw [h]; simp) hr 0 0
  have hval := evalDV_digitsB c.printBase upper hb2 hb16 m 0
  have hlen : (digitsB c.printBase upper m).length ≠ 0 := by rw [hd]; simp
  have hbase : c.scanBase (digitsB c.printBase upper m ++ rest) = c.printBase := by
    rw [hd]
    cases c <;> simp only [IConv.scanBase, IConv.printBase]
    exact autoBase_nonzero d _ h48
  have hpre : hexPrefix (digitsB c.printBase upper m ++ rest) = false := by
    rw [hd]; exact hexPrefix_nonzero d _ h48
  have hrun' : readDigits (c.scanBase (digitsB c.printBase upper m ++ rest)) (digitsB c.printBase upper m ++ rest) 0 0
      = (m, (digitsB c.printBase upper m).length, rest) := by
    rw [hbase, hrun, hval]; simp
  cases neg with
  | true =>
    simp only [if_true, List.cons_append, List.nil_append, scanNumber]
    rw [skipSpace_nonspace 45 _ (by decide)]
    simp only [true_or, if_true, hpre, Bool.false_eq_true, and_false, if_false]
    rw [hrun']
    simp [hlen, finNum]
  | false =>
    simp only [Bool.false_eq_true, if_false, List.nil_append, scanNumber]
    rw [hd] at hrun' hpre hlen ⊢
    simp only [List.cons_append] at hrun' hpre ⊢
    rw [skipSpace_nonspace d _ hsp]
    have e1 : ¬ (d = 45 ∨ d = 43) := by omega
    simp only [e1, if_false, hpre, Bool.false_eq_true, and_false]
    rw [hrun']
    have : ¬ d = 45 := by omega
    simp [this, finNum] at hlen ⊢

/-- the text `"0"` followed by text that starts neither with a digit of the base nor (for `%i %x %X`) with `x`/`X` -/
theorem scanNumber_zero (c : IConv) (rest : List Nat) (hr : noDigitOf c.printBase rest)
    (hx : c = .i ∨ c = .x ∨ c = .X → headIs isXx rest = false) :
    scanNumber c (48 :: rest) = .ok (0, rest) := by
  have hd0 : ∀ base, 1 ≤ base → digitVal base 48 = some 0 := by
    intro base hb; unfold digitVal; simp; omega
  -- the base scanf reads in: 8 after a lone 0 under `%i`, the conversion's own otherwise; either stops where the printed base stops
  have hbase : c.scanBase (48 :: rest) = (if c = .i then 8 else c.printBase) := by
    cases c <;> simp only [IConv.scanBase, IConv.printBase] <;> simp
    exact autoBase_zero rest (hx (Or.inl rfl))
  have hnd : noDigitOf (c.scanBase (48 :: rest)) rest := by
    rw [hbase]
    intro b r hbr
    have := hr b r hbr
    by_cases hc : c = .i
    · subst hc; simp only [if_true]
      exact digitVal_mono 10 8 b (by omega) this
    · simp only [hc, if_false]; exact this
  have hb1 : 1 ≤ c.scanBase (48 :: rest) := by
    rw [hbase]; cases c <;> simp [IConv.printBase]
  have hrun := readDigits_run (c.scanBase (48 :: rest)) [48] rest (fun b hb => by
      simp at hb; subst hb; rw [hd0 _ hb1]; simp) hnd 0 0
  have hnp : ¬(c.scanBase (48 :: rest) = 16 ∧ hexPrefix (48 :: rest) = true) := by
    intro ⟨h16, hp⟩
    have hcx : c = .x ∨ c = .X := by
      rw [hbase] at h16
      cases c <;> simp [IConv.printBase] at h16 <;> simp
    have := hexPrefix_zero rest (hx (by rcases hcx with h | h <;> simp [h]))
    rw [this] at hp; exact absurd hp (by decide)
  simp only [scanNumber]
  rw [skipSpace_nonspace 48 _ (by decide)]
  simp only [show ¬((48:Nat) = 45 ∨ (48:Nat) = 43) by omega, if_false, hnp]
  simp only [List.cons_append, List.nil_append] at hrun
  rw [hrun]
  simp only [evalDV, List.foldl_cons, List.foldl_nil, hd0 _ hb1]
  cases c <;> simp [IConv.signed, clampLong, clampULong]

end Cello.Text
