/-
  Lemmas for C15 (engine `text`): the String writer/reader pair.
-/
import Cello.Text

namespace Cello.Text

/-! ## table facts, as an executable check + its meaning -/

/-- everything the round trip needs from the two escape tables and the delimiter bytes, as a `Bool` (decided on the generated tables) -/
def tablesOK (c : Cfg) : Bool :=
  c.showEsc.all (fun p => match p.2 with
    | [e, l] => e == c.look.escb && c.look.esc.lookup l == some [p.1]
    | _ => false) &&
  (c.showEsc.lookup c.look.cls).isSome && (c.showEsc.lookup c.look.escb).isSome &&
  c.look.escb != c.look.cls && c.showOpen == [c.look.opn] && c.showClose == [c.look.cls]

theorem mem_of_lookup {α : Type} (l : List (Nat × α)) (k : Nat) (v : α) (h : l.lookup k = some v) : (k, v) ∈ l := by
  induction l with
  | nil => simp [List.lookup] at h
  | cons p ps ih =>
    obtain ⟨a, b⟩ := p
    simp only [List.lookup] at h
    split at h
    · rename_i heq
      have : k = a := by simpa using heq
      simp only [Option.some.injEq] at h
      subst this h
      exact List.mem_cons_self
    · exact List.mem_cons_of_mem _ (ih h)

structure Tables (c : Cfg) : Prop where
  back : ∀ b t, c.showEsc.lookup b = some t → ∃ l, t = [c.look.escb, l] ∧ c.look.esc.lookup l = some [b]
  cls_esc : (c.showEsc.lookup c.look.cls).isSome = true
  escb_esc : (c.showEsc.lookup c.look.escb).isSome = true
  escb_ne_cls : c.look.escb ≠ c.look.cls
  opn : c.showOpen = [c.look.opn]
  cls : c.showClose = [c.look.cls]

theorem tables_of_ok (c : Cfg) (h : tablesOK c = true) : Tables c := by
  simp only [tablesOK, Bool.and_eq_true, List.all_eq_true, bne_iff_ne, ne_eq, beq_iff_eq] at h
  obtain ⟨⟨⟨⟨⟨h1, h2⟩, h3⟩, h4⟩, h5⟩, h6⟩ := h
  refine ⟨?_, h2, h3, h4, h5, h6⟩
  intro b t hb
  have hm := mem_of_lookup _ _ _ hb
  have := h1 _ hm
  rcases t with _ | ⟨e, _ | ⟨l, _ | ⟨x, r⟩⟩⟩ <;> simp at this
  exact ⟨l, by rw [this.1], this.2⟩

theorem cstr_single {b : Byte} (hb : b ≠ 0) : cstr [b] = [b] := by
  simp [cstr, List.takeWhile, hb]

/-! ## the reader undoes the writer -/

theorem lookLoop_cls (c : LookCfg) (r : List Byte) (pos : Nat) (acc : List Byte) :
    lookLoop c (c.cls :: r) pos acc = (acc, .ok (r, pos + 1)) := by
  cases r <;> simp [lookLoop]

theorem lookLoop_plain (c : LookCfg) (b : Byte) (r : List Byte) (pos : Nat) (acc : List Byte)
    (h1 : b ≠ c.cls) (h2 : b ≠ c.escb) :
    lookLoop c (b :: r) pos acc = lookLoop c r (pos + 1) (acc ++ cstr [b]) := by
  cases r <;> simp [lookLoop, h1, h2]

theorem lookLoop_esc (c : LookCfg) (l : Byte) (t : List Byte) (r : List Byte) (pos : Nat) (acc : List Byte)
    (h : c.escb ≠ c.cls) (hl : c.esc.lookup l = some t) :
    lookLoop c (c.escb :: l :: r) pos acc =
      if c.continues then lookLoop c r (pos + 2) (acc ++ cstr t) else lookLoop c r (pos + 2) (acc ++ cstr t ++ cstr [l]) := by
  simp [lookLoop, h, hl]

/-- the loop of `String_Look` on the body `String_Show` wrote for `s`, followed by the closing delimiter and anything at all -/
theorem lookLoop_show (c : Cfg) (T : Tables c) (hc : c.look.continues = true) (s : List Byte) (hs : ∀ b ∈ s, b ≠ 0) :
    ∀ (rest : List Byte) (pos : Nat) (acc : List Byte),
      lookLoop c.look (s.flatMap (showByte c.showEsc) ++ c.look.cls :: rest) pos acc
        = (acc ++ s, .ok (rest, pos + (s.flatMap (showByte c.showEsc)).length + 1)) := by
  induction s with
  | nil => intro rest pos acc; simp [lookLoop_cls]
  | cons b s ih =>
    intro rest pos acc
    have hb : b ≠ 0 := hs b List.mem_cons_self
    have hs' : ∀ x ∈ s, x ≠ 0 := fun x hx => hs x (List.mem_cons_of_mem _ hx)
    simp only [List.flatMap_cons, List.append_assoc]
    cases hl : c.showEsc.lookup b with
    | some t =>
      obtain ⟨l, ht, hl2⟩ := T.back b t hl
      have hsb : showByte c.showEsc b = [c.look.escb, l] := by simp [showByte, hl, ht]
      rw [hsb]
      simp only [List.cons_append, List.nil_append]
      rw [lookLoop_esc _ _ _ _ _ _ T.escb_ne_cls hl2]
      simp only [hc, if_true]
      rw [ih hs', cstr_single hb]
      simp only [List.append_assoc, List.singleton_append, List.length_cons]
      congr 3; omega
    | none =>
      have hsb : showByte c.showEsc b = [b] := by simp [showByte, hl]
      have h1 : b ≠ c.look.cls := by
        intro h; have := T.cls_esc; rw [← h, hl] at this; simp at this
      have h2 : b ≠ c.look.escb := by
        intro h; have := T.escb_esc; rw [← h, hl] at this; simp at this
      rw [hsb]
      simp only [List.cons_append, List.nil_append]
      rw [lookLoop_plain _ _ _ _ _ h1 h2]
      rw [ih hs', cstr_single hb]
      simp only [List.append_assoc, List.singleton_append, List.length_cons]
      congr 3; omega

/-- `String_Look` on what `String_Show` wrote, followed by anything: the value, the untouched rest, and `pos` advanced by exactly
    the number of characters written -/
theorem lookString_show (c : Cfg) (T : Tables c) (hc : c.look.continues = true) (s : List Byte) (hs : ∀ b ∈ s, b ≠ 0)
    (rest : List Byte) (pos : Nat) :
    lookString c.look (showString c.showEsc c.showOpen c.showClose s ++ rest) pos
      = (s, .ok (rest, pos + (showString c.showEsc c.showOpen c.showClose s).length)) := by
  simp only [showString, T.opn, T.cls, List.cons_append, List.nil_append, List.append_assoc, lookString, if_true]
  rw [lookLoop_show c T hc s hs]
  simp only [List.nil_append, List.length_cons, List.length_append, List.length_nil]
  congr 3; omega

end Cello.Text
