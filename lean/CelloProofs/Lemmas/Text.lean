/-
  Lemmas for C15 (engine `text`): the String writer/reader pair.
-/
import Cello.Text

namespace Cello.Text

/-! ## table facts, as an executable check + its meaning -/

/-- everything the round trip needs from the two escape tables and the delimiter bytes, as a `Bool` (decided on the generated tables) -/
def tablesOK (c : Cfg) : Bool :=
  c.showEsc.all (fun p => match p.2 with
    | [e, l] => e == c.look.escb && c.look.esc.lookup l == some [p.1]
    | _ => false) &&
  (c.showEsc.lookup c.look.cls).isSome && (c.showEsc.lookup c.look.escb).isSome &&
  c.look.escb != c.look.cls && c.showOpen == [c.look.opn] && c.showClose == [c.look.cls]

theorem mem_of_lookup {α : Type} (l : List (Nat × α)) (k : Nat) (v : α) (h : l.lookup k = some v) : (k, v) ∈ l := by
  induction l with
  | nil => simp [List.lookup] at h
  | cons p ps ih =>
    obtain ⟨a, b⟩ := p
    simp only [List.lookup] at h
    split at h
    · rename_i heq
      have : k = a := by simpa using heq
      simp only [Option.some.injEq] at h
      subst this h
      exact List.mem_cons_self
    · exact List.mem_cons_of_mem _ (ih h)

structure Tables (c : Cfg) : Prop where
  back : ∀ b t, c.showEsc.lookup b = some t → ∃ l, t = [c.look.escb, l] ∧ c.look.esc.lookup l = some [b]
  cls_esc : (c.showEsc.lookup c.look.cls).isSome = true
  escb_esc : (c.showEsc.lookup c.look.escb).isSome = true
  escb_ne_cls : c.look.escb ≠ c.look.cls
  opn : c.showOpen = [c.look.opn]
  cls : c.showClose = [c.look.cls]

theorem tables_of_ok (c : Cfg) (h : tablesOK c = true) : Tables c := by
  simp only [tablesOK, Bool.and_eq_true, List.all_eq_true, bne_iff_ne, ne_eq, beq_iff_eq] at h
  obtain ⟨⟨⟨⟨⟨h1, h2⟩, h3⟩, h4⟩, h5⟩, h6⟩ := h
  refine ⟨?_, h2, h3, h4, h5, h6⟩
  intro b t hb
  have hm := mem_of_lookup _ _ _ hb
  have := h1 _ hm
  rcases t with _ | ⟨e, _ | ⟨l, _ | ⟨x, r⟩⟩⟩ <;> simp at this
  exact ⟨l, by rw [this.1], this.2⟩

theorem cstr_single {b : Nat} (hb : b ≠ 0) : cstr [b] = [b] := by
  simp [cstr, List.takeWhile, hb]

/-! ## the reader undoes the writer -/

theorem lookLoop_cls (c : LookCfg) (r : List Nat) (pos : Nat) (acc : List Nat) :
    lookLoop c (c.cls :: r) pos acc = (acc, .ok (r, pos + 1)) := by
  cases r <;> simp [lookLoop]

theorem lookLoop_plain (c : LookCfg) (b : Nat) (r : List Nat) (pos : Nat) (acc : List Nat)
    (h1 : b ≠ c.cls) (h2 : b ≠ c.escb) :
    lookLoop c (b :: r) pos acc = lookLoop c r (pos + 1) (acc ++ cstr [b]) := by
  cases r <;> simp [lookLoop, h1, h2]

theorem lookLoop_esc (c : LookCfg) (l : Nat) (t : List Nat) (r : List Nat) (pos : Nat) (acc : List Nat)
    (h : c.escb ≠ c.cls) (hl : c.esc.lookup l = some t) :
    lookLoop c (c.escb :: l :: r) pos acc =
      if c.continues then lookLoop c r (pos + 2) (acc ++ cstr t) else lookLoop c r (pos + 2) (acc ++ cstr t ++ cstr [l]) := by
  simp [lookLoop, h, hl]

/-- the loop of `String_Look` on the body `String_Show` wrote for `s`, followed by the closing delimiter and anything at all -/
theorem lookLoop_show (c : Cfg) (T : Tables c) (hc : c.look.continues = true) (s : List Nat) (hs : ∀ b ∈ s, b ≠ 0) :
    ∀ (rest : List Nat) (pos : Nat) (acc : List Nat),
      lookLoop c.look (s.flatMap (showByte c.showEsc) ++ c.look.cls :: rest) pos acc
        = (acc ++ s, .ok (rest, pos + (s.flatMap (showByte c.showEsc)).length + 1)) := by
  induction s with
  | nil => intro rest pos acc; simp [lookLoop_cls]
  | cons b s ih =>
    intro rest pos acc
    have hb : b ≠ 0 := hs b List.mem_cons_self
    have hs' : ∀ x ∈ s, x ≠ 0 := fun x hx => hs x (List.mem_cons_of_mem _ hx)
    simp only [List.flatMap_cons, List.append_assoc]
    cases hl : c.showEsc.lookup b with
    | some t =>
      obtain ⟨l, ht, hl2⟩ := T.back b t hl
      have hsb : showByte c.showEsc b = [c.look.escb, l] := by simp [showByte, hl, ht]
      rw [hsb]
      simp only [List.cons_append, List.nil_append]
      rw [lookLoop_esc _ _ _ _ _ _ T.escb_ne_cls hl2]
      simp only [hc, if_true]
      rw [ih hs', cstr_single hb]
      simp only [List.append_assoc, List.singleton_append, List.length_cons]
      congr 3; omega
    | none =>
      have hsb : showByte c.showEsc b = [b] := by simp [showByte, hl]
      have h1 : b ≠ c.look.cls := by
        intro h; have := T.cls_esc; rw [← h, hl] at this; simp at this
      have h2 : b ≠ c.look.escb := by
        intro h; have := T.escb_esc; rw [← h, hl] at this; simp at this
      rw [hsb]
      simp only [List.cons_append, List.nil_append]
      rw [lookLoop_plain _ _ _ _ _ h1 h2]
      rw [ih hs', cstr_single hb]
      simp only [List.append_assoc, List.singleton_append, List.length_cons]
      congr 3; omega

/-- `String_Look` on what `String_Show` wrote, followed by anything: the value, the untouched rest, and `pos` advanced by exactly
    the number of characters written -/
theorem lookString_show (c : Cfg) (T : Tables c) (hc : c.look.continues = true) (s : List Nat) (hs : ∀ b ∈ s, b ≠ 0)
    (rest : List Nat) (pos : Nat) :
    lookString c.look (showString c.showEsc c.showOpen c.showClose s ++ rest) pos
      = (s, .ok (rest, pos + (showString c.showEsc c.showOpen c.showClose s).length)) := by
  simp only [showString, T.opn, T.cls, List.cons_append, List.nil_append, List.append_assoc, lookString, if_true]
  rw [lookLoop_show c T hc s hs]
  simp only [List.nil_append, List.length_cons, List.length_append, List.length_nil]
  congr 3; omega

end Cello.Text

namespace Cello.Text

/-! ## decimal integers: `scanLong` undoes `printInt` -/

theorem natDigits_digits (n : Nat) : ∀ b ∈ natDigits n, 48 ≤ b ∧ b ≤ 57 := by
  induction n using Nat.strongRecOn with
  | _ n ih =>
    rw [natDigits]; split
    · intro b hb; simp at hb; omega
    · intro b hb
      simp only [List.mem_append, List.mem_singleton] at hb
      rcases hb with hb | hb
      · exact ih (n / 10) (by omega) b hb
      · omega

/-- a positive number's first digit is not `0` -/
theorem natDigits_head (n : Nat) (hn : 0 < n) : ∃ d r, natDigits n = d :: r ∧ 49 ≤ d ∧ d ≤ 57 := by
  induction n using Nat.strongRecOn with
  | _ n ih =>
    rw [natDigits]; split
    · exact ⟨48 + n, [], rfl, by omega, by omega⟩
    · obtain ⟨d, r, h, h1, h2⟩ := ih (n / 10) (by omega) (by omega)
      exact ⟨d, r ++ [48 + n % 10], by rw [h]; rfl, h1, h2⟩

/-- value of a digit list read left to right, starting from `acc` (what `readDigits 10` accumulates) -/
def evalDigits (base : Nat) (acc : Nat) (ds : List Nat) : Nat := ds.foldl (fun a b => a * base + (b - 48)) acc

theorem evalDigits_natDigits (n : Nat) : ∀ acc, evalDigits 10 acc (natDigits n) = acc * 10 ^ (natDigits n).length + n := by
  induction n using Nat.strongRecOn with
  | _ n ih =>
    intro acc
    rw [natDigits]; split
    · simp [evalDigits]
    · have := ih (n / 10) (by omega) acc
      simp only [evalDigits] at this ⊢
      rw [List.foldl_append, this]
      simp only [List.foldl_cons, List.foldl_nil, List.length_append, List.length_cons, List.length_nil, Nat.pow_succ,
        ← Nat.mul_assoc]
      generalize acc * 10 ^ (natDigits (n / 10)).length = X
      omega

theorem digitVal_digit (base b : Nat) (h1 : 48 ≤ b) (h2 : b ≤ 57) (h3 : b - 48 < base) : digitVal base b = some (b - 48) := by
  simp [digitVal, h1, h2, h3]

theorem digitVal_nondigit (base b : Nat) (hb : base ≤ 10) (h : isDigit b = false) : digitVal base b = none := by
  simp only [isDigit, Bool.and_eq_false_iff, decide_eq_false_iff_not, Nat.not_le] at h
  unfold digitVal
  by_cases h1 : 97 ≤ b ∧ b ≤ 102
  · have : ¬(48 ≤ b ∧ b ≤ 57) := by omega
    simp only [this, if_false, h1, if_true]
    have : ¬ (b - 87 < base) := by omega
    simp [this]
  · by_cases h2 : 65 ≤ b ∧ b ≤ 70
    · have : ¬(48 ≤ b ∧ b ≤ 57) := by omega
      simp only [this, if_false, h1, h2, if_true]
      have : ¬ (b - 55 < base) := by omega
      simp [this]
    · have : ¬(48 ≤ b ∧ b ≤ 57) := by omega
      simp [this, h1, h2]

/-- `readDigits` over a run of digits valid in the base, followed by text whose first byte is not a digit of the base -/
theorem readDigits_run (base : Nat) (ds rest : List Nat)
    (hds : ∀ b ∈ ds, digitVal base b = some (b - 48))
    (hrest : ∀ b r, rest = b :: r → digitVal base b = none) :
    ∀ acc k, readDigits base (ds ++ rest) acc k = (evalDigits base acc ds, k + ds.length, rest) := by
  induction ds with
  | nil =>
    intro acc k
    cases rest with
    | nil => simp [readDigits, evalDigits]
    | cons b r => simp [readDigits, evalDigits, hrest b r rfl]
  | cons d ds ih =>
    intro acc k
    have hd := hds d List.mem_cons_self
    have := ih (fun b hb => hds b (List.mem_cons_of_mem _ hb)) (acc * base + (d - 48)) (k + 1)
    simp only [List.cons_append, readDigits, hd, this, evalDigits, List.foldl_cons, List.length_cons]
    congr 2; omega

theorem headIs_false_iff (p : Nat → Bool) (l : List Nat) : headIs p l = false ↔ ∀ b r, l = b :: r → p b = false := by
  cases l with
  | nil => simp [headIs]
  | cons a t => simp [headIs]

theorem skipSpace_nonspace (b : Nat) (r : List Nat) (h : isSpace b = false) : skipSpace (b :: r) = b :: r := by
  simp [skipSpace, h]

theorem autoBase_nonzero (d : Nat) (r : List Nat) (h : d ≠ 48) : autoBase (d :: r) = 10 := by
  unfold autoBase
  split <;> simp_all

theorem autoBase_zero (rest : List Nat) (h : headIs (fun b => b == 120 || b == 88) rest = false) : autoBase (48 :: rest) = 8 := by
  cases rest with
  | nil => simp [autoBase]
  | cons x r =>
    simp only [headIs, Bool.or_eq_false_iff, beq_eq_false_iff_ne] at h
    simp [autoBase, h.1, h.2]

/-- digits of `m > 0`, then text that does not start with a digit: read in base 10 (whether chosen by `%ld` or by `%li`) -/
theorem scanLong_pos (auto neg : Bool) (m : Nat) (hm : 0 < m) (rest : List Nat) (hr : headIs isDigit rest = false) :
    scanLong auto ((if neg then [45] else []) ++ natDigits m ++ rest) = .ok (clampLong neg m, rest) := by
  obtain ⟨d, r, hd, h1, h2⟩ := natDigits_head m hm
  have hrun := readDigits_run 10 (natDigits m) rest
    (fun b hb => by have := natDigits_digits m b hb; exact digitVal_digit 10 b this.1 this.2 (by omega))
    (fun b r' hbr => digitVal_nondigit 10 b (by omega) ((headIs_false_iff _ _).1 hr b r' hbr)) 0 0
  have hval := evalDigits_natDigits m 0
  have hlen : (natDigits m).length ≠ 0 := by rw [hd]; simp
  have hsp : isSpace d = false := by simp [isSpace]; omega
  have hb10 : (if auto = true then autoBase (natDigits m ++ rest) else 10) = 10 := by
    split
    · rw [hd]; exact autoBase_nonzero d _ (by omega)
    · rfl
  cases neg with
  | true =>
    simp only [if_true, List.cons_append, List.nil_append, scanLong]
    rw [skipSpace_nonspace 45 _ (by decide)]
    simp only [true_or, if_true, hb10]
    rw [hrun, hval]
    simp [hlen]
  | false =>
    simp only [Bool.false_eq_true, if_false, List.nil_append, scanLong]
    rw [hd] at hrun hb10 hval hlen ⊢
    simp only [List.cons_append] at hrun hb10 ⊢
    rw [skipSpace_nonspace d _ hsp]
    have e1 : ¬ (d = 45 ∨ d = 43) := by omega
    simp only [e1, if_false, hb10]
    rw [hrun, hval]
    have : ¬ d = 45 := by omega
    simp [this]

/-- the text `"0"` followed by text that starts neither with a digit nor (for `%li`) with `x`/`X` -/
theorem scanLong_zero (auto : Bool) (rest : List Nat) (hr : headIs isDigit rest = false)
    (hx : auto = true → headIs (fun b => b == 120 || b == 88) rest = false) :
    scanLong auto (48 :: rest) = .ok (0, rest) := by
  have hrun : ∀ base, 1 ≤ base → base ≤ 10 → readDigits base ([48] ++ rest) 0 0 = (evalDigits base 0 [48], 0 + 1, rest) := by
    intro base hb1 hb2
    exact readDigits_run base [48] rest (fun b hb => by simp at hb; subst hb; exact digitVal_digit base 48 (by omega) (by omega) (by omega))
      (fun b r' hbr => digitVal_nondigit base b hb2 ((headIs_false_iff _ _).1 hr b r' hbr)) 0 0
  simp only [scanLong]
  rw [skipSpace_nonspace 48 _ (by decide)]
  cases auto with
  | true =>
    have h8 := autoBase_zero rest (hx rfl)
    simp only [show ¬((48:Nat) = 45 ∨ (48:Nat) = 43) by omega, if_false, if_true, h8]
    have := hrun 8 (by omega) (by omega)
    simp only [List.cons_append, List.nil_append] at this
    rw [this]
    simp [evalDigits, clampLong]
  | false =>
    simp only [show ¬((48:Nat) = 45 ∨ (48:Nat) = 43) by omega, if_false, Bool.false_eq_true]
    have := hrun 10 (by omega) (by omega)
    simp only [List.cons_append, List.nil_append] at this
    rw [this]
    simp [evalDigits, clampLong]

theorem natDigits_zero : natDigits 0 = [48] := by rw [natDigits]; simp

/-- evaluation rules for concrete numbers (`natDigits` is defined by well-founded recursion, which `decide` does not unfold) -/
theorem natDigits_lt10 (n : Nat) (h : n < 10) : natDigits n = [48 + n] := by rw [natDigits]; simp [h]
theorem natDigits_ge10 (n : Nat) (h : 10 ≤ n) : natDigits n = natDigits (n / 10) ++ [48 + n % 10] := by
  rw [natDigits]; simp [Nat.not_lt.2 h]

/-- **`%li` / `%ld` read back what `%li` printed**, for every int64 and every following text that does not continue the number -/
theorem scanLong_printInt (auto : Bool) (n : Int) (hn : inInt64 n = true) (rest : List Nat)
    (hs : intSafe auto n rest = true) :
    scanLong auto (printInt n ++ rest) = .ok (n, rest) := by
  simp only [inInt64, Bool.and_eq_true, decide_eq_true_eq] at hn
  simp only [intSafe, Bool.and_eq_true, Bool.not_eq_true', Bool.and_eq_false_iff, beq_eq_false_iff_ne] at hs
  obtain ⟨hdig, hx⟩ := hs
  by_cases hneg : n < 0
  · have hm : 0 < n.natAbs := by omega
    have := scanLong_pos auto true n.natAbs hm rest hdig
    simp only [if_true, List.cons_append, List.nil_append] at this
    simp only [printInt, hneg, if_true, List.cons_append]
    rw [this]
    simp only [clampLong, if_true]
    have : ¬ (n.natAbs ≥ 2 ^ 63) ∨ n = -(2^63 : Int) := by omega
    rcases this with h | h
    · simp only [h, if_false]; congr 2; omega
    · subst h; simp
  · by_cases hz : n = 0
    · subst hz
      simp only [printInt, Int.natAbs_zero, natDigits_zero, List.cons_append, List.nil_append]
      simp
      apply scanLong_zero auto rest hdig
      intro ha
      rcases hx with (h | h) | h
      · simp [ha] at h
      · simp at h
      · exact h
    · have hm : 0 < n.natAbs := by omega
      have := scanLong_pos auto false n.natAbs hm rest hdig
      simp only [Bool.false_eq_true, if_false, List.nil_append] at this
      simp only [printInt, hneg, if_false]
      rw [this]
      simp only [clampLong, Bool.false_eq_true, if_false]
      have h : ¬ (n.natAbs ≥ 2 ^ 63) := by omega
      simp only [h, if_false]; congr 2; omega

end Cello.Text
