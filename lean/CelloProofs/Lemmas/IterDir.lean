/- helper lemmas for C11: closure PER DIRECTION (a view whose forward walk is right over an input whose forward walk is
   right — whatever the backward walks do), closure of `len` / `get`, and closure of Terminal-absorption (Map / Filter /
   Slice over Tuple and Range) with the true parameter region of a Slice over an absorbing iterable -/
import CelloProofs.Lemmas.IterViews
import CelloProofs.Lemmas.IterSlice
import CelloProofs.Lemmas.IterAbs

namespace Cello.Iter

variable {σ α β : Type}

theorem LawfulAs.lg {I : Iterable α} {l : List α} (h : LawfulAs I l) : LenGetAs I l := ⟨h.len, h.get⟩

theorem lawfulAs_iff (I : Iterable α) (l : List α) : LawfulAs I l ↔ LawfulFwdAs I l ∧ LawfulBwdAs I l :=
  ⟨fun h => ⟨⟨h.fwd, h.lg⟩, ⟨h.bwd, h.lg⟩⟩, fun h => ⟨h.1.fwd, h.2.bwd, h.1.lg.len, h.1.lg.get⟩⟩

/-! ### Map and the embedding -/

theorem map_fwdAs (I : Iterable α) (f : α → β) {l : List α} (h : FwdAs I l) : FwdAs (mapI I f) (l.map f) :=
  fun s => Run.map I f (h s)

theorem map_bwdAs (I : Iterable α) (f : α → β) {l : List α} (h : BwdAs I l) : BwdAs (mapI I f) (l.map f) := by
  intro s
  have := Run.map I f (h s)
  rw [List.map_reverse] at this; exact this

theorem map_lenGet (I : Iterable α) (f : α → β) {l : List α} (h : LenGetAs I l) : LenGetAs (mapI I f) (l.map f) := by
  refine ⟨?_, ?_⟩
  · intro n hn
    have := h.len n hn
    simp [this]
  · intro g hg i hi
    have hi' : i < l.length := by simpa using hi
    cases hIg : I.get with
    | none => simp [mapI, hIg] at hg
    | some g0 =>
      simp only [mapI, hIg, Option.some.injEq] at hg
      subst hg
      have e := h.get g0 hIg i hi'
      show Option.map f (g0 (Int.ofNat i)) = some ((l.map f)[i])
      rw [e]; simp

theorem emb_fwdAs (I : Iterable α) (f : α → β) {l : List α} (h : FwdAs I l) : FwdAs (embI I f) (l.map f) := map_fwdAs I f h
theorem emb_bwdAs (I : Iterable α) (f : α → β) {l : List α} (h : BwdAs I l) : BwdAs (embI I f) (l.map f) := map_bwdAs I f h
theorem emb_lenGet (I : Iterable α) (f : α → β) {l : List α} (h : LenGetAs I l) : LenGetAs (embI I f) (l.map f) :=
  let m := map_lenGet I f h
  ⟨m.len, m.get⟩

theorem map_absFwd (I : Iterable α) (f : α → β) {l : List α} (h : AbsFwdAs I l) : AbsFwdAs (mapI I f) (l.map f) :=
  ⟨map_fwdAs I f h.1, fun hne s => Traces.map f (h.2 (by intro e; exact hne (by simp [e])) s)⟩

theorem map_absBwd (I : Iterable α) (f : α → β) {l : List α} (h : AbsBwdAs I l) : AbsBwdAs (mapI I f) (l.map f) :=
  ⟨map_bwdAs I f h.1, fun hne s => by
    have := Traces.map f (h.2 (by intro e; exact hne (by simp [e])) s)
    rw [List.map_reverse] at this; exact this⟩

theorem emb_absFwd (I : Iterable α) (f : α → β) {l : List α} (h : AbsFwdAs I l) : AbsFwdAs (embI I f) (l.map f) :=
  let m := map_absFwd I f h
  ⟨m.1, m.2⟩
theorem emb_absBwd (I : Iterable α) (f : α → β) {l : List α} (h : AbsBwdAs I l) : AbsBwdAs (embI I f) (l.map f) :=
  let m := map_absBwd I f h
  ⟨m.1, m.2⟩

/-! ### Filter -/

theorem filter_fwdAs (I : Iterable α) (p : α → Bool) (fuel : Nat) {l : List α} (h : FwdAs I l) (hf : l.length < fuel) :
    FwdAs (filterI I p fuel) (l.filter p) :=
  fun s => Run.skip p I.next fuel (h s) hf fuel hf

theorem filter_bwdAs (I : Iterable α) (p : α → Bool) (fuel : Nat) {l : List α} (h : BwdAs I l) (hf : l.length < fuel) :
    BwdAs (filterI I p fuel) (l.filter p) := by
  intro s
  have := Run.skip p I.prev fuel (h s) (by simpa using hf) fuel (by simpa using hf)
  rw [List.filter_reverse] at this; exact this

theorem filter_lenGet (I : Iterable α) (p : α → Bool) (fuel : Nat) (l : List α) : LenGetAs (filterI I p fuel) l :=
  ⟨fun n hn => by simp [filterI] at hn, fun g hg => by simp [filterI] at hg⟩

theorem filter_ne_nil {p : α → Bool} {l : List α} (h : l.filter p ≠ []) : l ≠ [] := by
  intro e; exact h (by simp [e])

theorem filter_absFwd (I : Iterable α) (p : α → Bool) (fuel : Nat) {l : List α} (h : AbsFwdAs I l) (hf : l.length < fuel) :
    AbsFwdAs (filterI I p fuel) (l.filter p) :=
  ⟨filter_fwdAs I p fuel h.1 hf, fun hne s => Traces.skip p I.next fuel (h.1 s) (h.2 (filter_ne_nil hne) s) hf fuel hf⟩

theorem filter_absBwd (I : Iterable α) (p : α → Bool) (fuel : Nat) {l : List α} (h : AbsBwdAs I l) (hf : l.length < fuel) :
    AbsBwdAs (filterI I p fuel) (l.filter p) :=
  ⟨filter_bwdAs I p fuel h.1 hf, fun hne s => by
    have := Traces.skip p I.prev fuel (h.1 s) (h.2 (filter_ne_nil hne) s) (by simpa using hf) fuel (by simpa using hf)
    rw [List.filter_reverse] at this; exact this⟩

/-! ### Zip and enumerate -/

theorem zip_lenGet (Is : List (Iterable α)) (ls : List (List α)) (hne : Is ≠ [])
    (h : All₂ (fun I l => LenGetAs I l) Is ls) : LenGetAs (zipI Is) (zipLists ls) := by
  have hls : ls ≠ [] := by
    intro e; have := h.length_eq; rw [e] at this
    exact hne (List.length_eq_zero_iff.mp (by simpa using this))
  refine ⟨zip_len Is ls (h.imp fun _ _ x => x.len), ?_⟩
  intro g hg i hi
  obtain ⟨e, hall⟩ := column_zipLists ls hls i hi
  rw [← e]
  exact zip_get_column Is ls (h.imp fun _ _ x => x.get) g hg i hall

theorem zipLists_nil_of_mem : ∀ (ls : List (List α)), (∃ l ∈ ls, l = []) → zipLists ls = []
  | [], h => rfl
  | [l], h => by
    obtain ⟨x, hx, rfl⟩ := h
    simp only [List.mem_singleton] at hx; subst hx; rfl
  | l :: l' :: ls, h => by
    obtain ⟨x, hx, rfl⟩ := h
    simp only [zipLists]
    rcases List.mem_cons.mp hx with e | hx'
    · subst e; simp
    · rw [zipLists_nil_of_mem (l' :: ls) ⟨[], hx', rfl⟩]; simp

/-- Zip_Iter_Last over inputs one of which is EMPTY: that input answers Terminal, so does the Zip -/
theorem zipStep_last_term : ∀ (Is : List (Iterable α)) (ls : List (List α)), All₂ (fun I l => BwdAs I l) Is ls →
    (∃ l ∈ ls, l = []) → ∀ ss : ZipSt Is, (zipStep (fun I => I.last) Is ss).2 = .term := by
  intro Is ls h
  induction h with
  | nil => intro hemp; obtain ⟨_, hx, _⟩ := hemp; simp at hx
  | @cons I l Is' ls' hI _ ih =>
    intro hemp ss
    obtain ⟨s, ss'⟩ := ss
    rw [zipStep_cons]
    have hrun := hI s
    cases l with
    | nil =>
      have h0 : (I.last s).2 = .term := by simpa using hrun.inv_nil
      rcases hl : I.last s with ⟨s', x⟩
      rw [hl] at h0; simp only at h0; subst h0; rfl
    | cons a t =>
      have hemp' : ∃ l ∈ ls', l = [] := by
        obtain ⟨x, hx, rfl⟩ := hemp
        rcases List.mem_cons.mp hx with e | hx'
        · simp at e
        · exact ⟨[], hx', rfl⟩
      have hrest := ih hemp' ss'
      obtain ⟨b, u, hb⟩ : ∃ b u, (a :: t).reverse = b :: u := by
        cases hr : (a :: t).reverse with
        | nil => simp at hr
        | cons b u => exact ⟨b, u, rfl⟩
      rw [hb] at hrun
      obtain ⟨h1, _⟩ := hrun.inv_cons
      rcases hl : I.last s with ⟨s', x⟩
      rw [hl] at h1; simp only at h1; subst h1
      rcases hr : zipStep (fun I => I.last) Is' ss' with ⟨ss'', y⟩
      rw [hr] at hrest; simp only at hrest; subst hrest
      rfl

/-- **Zip backward, one input empty**: the zipped sequence is empty and the backward walk answers Terminal at once (the
    lengths need not be equal) -/
theorem zip_bwdAs_of_empty (Is : List (Iterable α)) (ls : List (List α)) (hne : Is ≠ [])
    (h : All₂ (fun I l => BwdAs I l) Is ls) (hemp : ∃ l ∈ ls, l = []) : BwdAs (zipI Is) (zipLists ls) := by
  intro s
  have hl : ¬ (Is.length = 0) := by
    intro e; exact hne (List.length_eq_zero_iff.mp e)
  rw [zipLists_nil_of_mem ls hemp]
  apply Run.of_term
  have := zipStep_last_term Is ls h hemp s.2
  simp only [zipI, hl, if_false]
  exact this

/-- the sequence enumerate is defined to yield: the pairs `(i, x_i)` -/
def enumSpec (inj : Int → α) (l : List α) : List (List α) :=
  zipLists [(List.range l.length).map (fun (j : Nat) => inj (j : Int)), l]

theorem enum_counter (inj : Int → α) (n : Nat) :
    LawfulAs (embI (rangeI 0 n 1) inj) ((List.range n).map (fun (j : Nat) => inj (j : Int))) := by
  have hr := emb_lawfulAs (rangeI 0 n 1) inj (range_lawfulAs 0 n 1)
  rw [rangeList_count, List.map_map] at hr
  exact hr

theorem enum_fwdAs (I : Iterable α) (inj : Int → α) {l : List α} (h : FwdAs I l) :
    FwdAs (enumI I l.length inj) (enumSpec inj l) :=
  zip_fwdAs _ _ (by simp) (All₂.cons (enum_counter inj l.length).fwd (All₂.cons h All₂.nil))

theorem enum_bwdAs (I : Iterable α) (inj : Int → α) {l : List α} (h : BwdAs I l) :
    BwdAs (enumI I l.length inj) (enumSpec inj l) := by
  refine zip_bwdAs _ _ (by simp) l.length ?_ (All₂.cons (enum_counter inj l.length).bwd (All₂.cons h All₂.nil))
  intro x hx
  simp only [List.mem_cons, List.not_mem_nil, or_false] at hx
  rcases hx with rfl | rfl <;> simp

theorem enum_lenGet (I : Iterable α) (inj : Int → α) {l : List α} (h : LenGetAs I l) :
    LenGetAs (enumI I l.length inj) (enumSpec inj l) :=
  zip_lenGet _ _ (by simp) (All₂.cons (enum_counter inj l.length).lg (All₂.cons h All₂.nil))

/-! ### Slice over an absorbing iterable -/

theorem sliceSpec_nil (a b c : Int) : sliceSpec ([] : List α) a b c = [] := by
  simp [sliceSpec]

theorem sliceSpec_of_positions (l : List α) {a b c a' b' c' : Int} (h : rangeList a b c = rangeList a' b' c') :
    sliceSpec l a b c = sliceSpec l a' b' c' := by
  simp only [sliceSpec, h]

theorem sliceSpec_of_positions_rev (l : List α) {a b c a' b' c' : Int} (h : rangeList a b c = (rangeList a' b' c').reverse) :
    sliceSpec l a b c = (sliceSpec l a' b' c').reverse := by
  simp only [sliceSpec, h, List.filterMap_reverse]

/-- the `k`-th element a positive stride selects, to the end of the sequence -/
theorem getElem?_sliceSpec_pos (l : List α) (A C : Nat) (hC : 1 ≤ C) (k : Nat) :
    (sliceSpec l A l.length C)[k]? = l[A + k * C]? := by
  rw [sliceSpec_pos l A l.length C hC]
  have hiff : ∀ j : Nat, j < rangeLen A l.length C ↔ A + C * j < l.length := by
    intro j
    rw [← rangeLen_pos_iff (A : Int) (l.length : Int) (C : Int) (by omega) j]
    have e : (A : Int) + (C : Int) * (j : Int) = ((A + C * j : Nat) : Int) := by push_cast; rfl
    rw [e]; omega
  have hall : ∀ x ∈ List.range (rangeLen A l.length C), ((fun j => l[A + C * j]?) x).isSome := by
    intro j hj
    have := (hiff j).mp (List.mem_range.mp hj)
    simp [List.getElem?_eq_getElem this]
  rw [getElem?_filterMap_all_some _ _ hall, Nat.mul_comm k C]
  by_cases hk : k < rangeLen A l.length C
  · simp [List.getElem?_range hk]
  · have h1 : ¬ (A + C * k < l.length) := fun h => hk ((hiff k).mpr h)
    rw [List.getElem?_eq_none (by simpa using hk), List.getElem?_eq_none (by omega)]; rfl

/-- the `k`-th element a negative stride selects from `B-1` downwards, to the beginning of the sequence -/
theorem getElem?_sliceSpec_neg (l : List α) (B K : Nat) (hK : 1 ≤ K) (hB : B ≤ l.length) (k : Nat) :
    (sliceSpec l 0 B (-(K : Int)))[k]? = l.reverse[(l.length - B) + k * K]? := by
  have h0 := sliceSpec_neg l 0 B K hK
  simp only [Int.natCast_zero] at h0
  rw [h0]
  have hiff : ∀ j : Nat, j < rangeLen 0 B (-(K : Int)) ↔ K * j + 1 ≤ B := by
    intro j
    rw [← rangeLen_neg_iff (0 : Int) (B : Int) (-(K : Int)) (by omega) j]
    have hm : -(K : Int) * (j : Int) = -(((K * j : Nat)) : Int) := by push_cast; rw [Int.neg_mul]
    rw [hm]; omega
  have hall : ∀ x ∈ List.range (rangeLen 0 B (-(K : Int))), ((fun j => l[B - 1 - K * j]?) x).isSome := by
    intro j hj
    have := (hiff j).mp (List.mem_range.mp hj)
    have hlt : B - 1 - K * j < l.length := by omega
    simp [List.getElem?_eq_getElem hlt]
  rw [getElem?_filterMap_all_some _ _ hall, Nat.mul_comm k K]
  by_cases hk : k < rangeLen 0 B (-(K : Int))
  · have h1 := (hiff k).mp hk
    have hlt : l.length - B + K * k < l.length := by omega
    rw [List.getElem?_reverse hlt]
    simp only [List.getElem?_range hk, Option.bind_some]
    congr 1; omega
  · have h1 : ¬ (K * k + 1 ≤ B) := fun h => hk ((hiff k).mpr h)
    rw [List.getElem?_eq_none (by simpa using hk), List.getElem?_eq_none (by simp; omega)]; rfl

/-- positive stride along a traced walk over `l`, from its `A`-th call -/
theorem slice_traces_pos (step : σ → σ × Res α) {r : σ × Res α} {l : List α} (h : Traces step r l) (A C : Nat)
    (hC : 1 ≤ C) :
    Traces (fun s => stepN step (C - 1) (step s)) (stepN step A r) (sliceSpec l A l.length C) :=
  Traces.stride step C hC h A _ (getElem?_sliceSpec_pos l A C hC)

/-- stride `K` along a traced walk over the REVERSE of `l`, from its `(n-B)`-th call: the positions `B-1, B-1-K, …` -/
theorem slice_traces_neg (step : σ → σ × Res α) {r : σ × Res α} {l : List α} (h : Traces step r l.reverse) (B K : Nat)
    (hK : 1 ≤ K) (hB : B ≤ l.length) :
    Traces (fun s => stepN step (K - 1) (step s)) (stepN step (l.length - B) r) (sliceSpec l 0 B (-(K : Int))) :=
  Traces.stride step K hK h (l.length - B) _ (getElem?_sliceSpec_neg l B K hK hB)

theorem run_nil_term {step : σ → σ × Res α} {r : σ × Res α} (h : Run step r []) : r.2 = .term := h.inv_nil

/-- **Slice over an absorbing iterable, forward walk**: whatever the parameters, the walk visits the positions
    `sliceVisitFwd`; it is right — and the Slice absorbs a Terminal cursor in its turn — exactly when these are the positions
    the definition selects (`SliceRegionFwdAbs`: the stride need not fit, only `stop` / `start` must not cut) -/
theorem slice_absFwd (I : Iterable α) {l : List α} {c : Int} (hfw : c > 0 → AbsFwdAs I l) (hbw : c < 0 → AbsBwdAs I l)
    (A B : Nat) (hA : A ≤ l.length) (hB : B ≤ l.length) (hr : SliceRegionFwdAbs l.length A B c) :
    AbsFwdAs (sliceI I l.length A B c) (sliceSpec l A B c) := by
  rcases Int.lt_trichotomy c 0 with hc | hc | hc
  · -- negative step: iter_last, `n - B` × iter_prev, then `K` × iter_prev per item
    obtain ⟨K, hK⟩ := Int.eq_ofNat_of_zero_le (show 0 ≤ -c by omega)
    have : c = -(K : Int) := by omega
    subst this
    have hK1 : 1 ≤ K := by omega
    have hnc : ¬ (-(K : Int) > 0) := by omega
    have hk : (- -(K : Int)).toNat - 1 = K - 1 := by omega
    have hnext : (sliceI I l.length A B (-(K : Int))).next = fun s => stepN I.prev (K - 1) (I.prev s) := by
      funext s; simp only [sliceI, hnc, if_false, hc, if_true, hk]
    have hinit : ∀ s, (sliceI I l.length A B (-(K : Int))).init s = stepN I.prev (l.length - B) (I.last s) := by
      intro s
      have : ((l.length : Int) - (B : Int)).toNat = l.length - B := by omega
      simp only [sliceI, hnc, if_false, hc, if_true, this]
    have hspec : sliceSpec l 0 B (-(K : Int)) = sliceSpec l A B (-(K : Int)) := by
      apply sliceSpec_of_positions
      have := hr
      simp only [SliceRegionFwdAbs, sliceVisitFwd, hnc, if_false, hc, if_true] at this
      exact this
    obtain ⟨hrun, htr⟩ := hbw hc
    by_cases hl : l = []
    · subst hl
      have hB0 : B = 0 := by simpa using hB
      subst hB0
      rw [sliceSpec_nil]
      refine ⟨fun s => ?_, fun h => absurd rfl h⟩
      rw [hnext, hinit]
      exact Run.of_term (by simpa using run_nil_term (hrun s))
    · have T : ∀ s, Traces (sliceI I l.length A B (-(K : Int))).next ((sliceI I l.length A B (-(K : Int))).init s)
          (sliceSpec l A B (-(K : Int))) := by
        intro s
        rw [hnext, hinit, ← hspec]
        exact slice_traces_neg I.prev (htr hl s) B K hK1 hB
      exact ⟨fun s => (T s).run, fun _ s => T s⟩
  · subst hc
    have hs : sliceSpec l A B 0 = [] := by simp [sliceSpec, rangeList, rangeLen]
    rw [hs]
    exact ⟨fun s => Run.of_term (by simp [sliceI]), fun h => absurd rfl h⟩
  · obtain ⟨C, rfl⟩ := Int.eq_ofNat_of_zero_le (show 0 ≤ c by omega)
    have hC : 1 ≤ C := by omega
    have hnext : (sliceI I l.length A B C).next = fun s => stepN I.next (C - 1) (I.next s) := by
      funext s; simp only [sliceI, hc, if_true, Int.toNat_natCast]
    have hinit : ∀ s, (sliceI I l.length A B C).init s = stepN I.next A (I.init s) := by
      intro s; simp only [sliceI, hc, if_true, Int.toNat_natCast]
    have hspec : sliceSpec l A l.length C = sliceSpec l A B C := by
      apply sliceSpec_of_positions
      have := hr
      simp only [SliceRegionFwdAbs, sliceVisitFwd, hc, if_true] at this
      exact this
    obtain ⟨hrun, htr⟩ := hfw hc
    by_cases hl : l = []
    · subst hl
      have hA0 : A = 0 := by simpa using hA
      subst hA0
      rw [sliceSpec_nil]
      refine ⟨fun s => ?_, fun h => absurd rfl h⟩
      rw [hnext, hinit]
      exact Run.of_term (by simpa using run_nil_term (hrun s))
    · have T : ∀ s, Traces (sliceI I l.length A B C).next ((sliceI I l.length A B C).init s) (sliceSpec l A B C) := by
        intro s
        rw [hnext, hinit, ← hspec]
        exact slice_traces_pos I.next (htr hl s) A C hC
      exact ⟨fun s => (T s).run, fun _ s => T s⟩

/-- **Slice over an absorbing iterable, backward walk** -/
theorem slice_absBwd (I : Iterable α) {l : List α} {c : Int} (hbw : c > 0 → AbsBwdAs I l) (hfw : c < 0 → AbsFwdAs I l)
    (A B : Nat) (hA : A ≤ l.length) (hB : B ≤ l.length) (hr : SliceRegionBwdAbs l.length A B c) :
    AbsBwdAs (sliceI I l.length A B c) (sliceSpec l A B c) := by
  rcases Int.lt_trichotomy c 0 with hc | hc | hc
  · -- negative step: the backward walk runs FORWARDS over the underlying iterable from position `A`
    obtain ⟨K, hK⟩ := Int.eq_ofNat_of_zero_le (show 0 ≤ -c by omega)
    have : c = -(K : Int) := by omega
    subst this
    have hK1 : 1 ≤ K := by omega
    have hnc : ¬ (-(K : Int) > 0) := by omega
    have hk : (- -(K : Int)).toNat - 1 = K - 1 := by omega
    have hprev : (sliceI I l.length A B (-(K : Int))).prev = fun s => stepN I.next (K - 1) (I.next s) := by
      funext s; simp only [sliceI, hnc, if_false, hc, if_true, hk]
    have hlast : ∀ s, (sliceI I l.length A B (-(K : Int))).last s = stepN I.next A (I.init s) := by
      intro s; simp only [sliceI, hnc, if_false, hc, if_true, Int.toNat_natCast]
    have hspec : sliceSpec l A l.length K = (sliceSpec l A B (-(K : Int))).reverse := by
      apply sliceSpec_of_positions_rev
      have := hr
      simp only [SliceRegionBwdAbs, sliceVisitBwd, hnc, if_false, hc, if_true, Int.neg_neg] at this
      exact this
    obtain ⟨hrun, htr⟩ := hfw hc
    by_cases hl : l = []
    · subst hl
      have hA0 : A = 0 := by simpa using hA
      subst hA0
      rw [sliceSpec_nil]
      refine ⟨fun s => ?_, fun h => absurd rfl h⟩
      rw [hprev, hlast]
      exact Run.of_term (by simpa using run_nil_term (hrun s))
    · have T : ∀ s, Traces (sliceI I l.length A B (-(K : Int))).prev ((sliceI I l.length A B (-(K : Int))).last s)
          (sliceSpec l A B (-(K : Int))).reverse := by
        intro s
        rw [hprev, hlast, ← hspec]
        exact slice_traces_pos I.next (htr hl s) A K hK1
      exact ⟨fun s => (T s).run, fun _ s => T s⟩
  · subst hc
    have hs : sliceSpec l A B 0 = [] := by simp [sliceSpec, rangeList, rangeLen]
    rw [hs]
    exact ⟨fun s => Run.of_term (by simp [sliceI]), fun h => absurd rfl h⟩
  · obtain ⟨C, rfl⟩ := Int.eq_ofNat_of_zero_le (show 0 ≤ c by omega)
    have hC : 1 ≤ C := by omega
    have hprev : (sliceI I l.length A B C).prev = fun s => stepN I.prev (C - 1) (I.prev s) := by
      funext s; simp only [sliceI, hc, if_true, Int.toNat_natCast]
    have hlast : ∀ s, (sliceI I l.length A B C).last s = stepN I.prev (l.length - B) (I.last s) := by
      intro s
      have : ((l.length : Int) - (B : Int)).toNat = l.length - B := by omega
      simp only [sliceI, hc, if_true, this]
    have hspec : sliceSpec l 0 B (-(C : Int)) = (sliceSpec l A B C).reverse := by
      apply sliceSpec_of_positions_rev
      have := hr
      simp only [SliceRegionBwdAbs, sliceVisitBwd, hc, if_true] at this
      exact this
    obtain ⟨hrun, htr⟩ := hbw hc
    by_cases hl : l = []
    · subst hl
      have hB0 : B = 0 := by simpa using hB
      subst hB0
      rw [sliceSpec_nil]
      refine ⟨fun s => ?_, fun h => absurd rfl h⟩
      rw [hprev, hlast]
      exact Run.of_term (by simpa using run_nil_term (hrun s))
    · have T : ∀ s, Traces (sliceI I l.length A B C).prev ((sliceI I l.length A B C).last s) (sliceSpec l A B C).reverse := by
        intro s
        rw [hprev, hlast, ← hspec]
        exact slice_traces_neg I.prev (htr hl s) B C hC hB
      exact ⟨fun s => (T s).run, fun _ s => T s⟩

end Cello.Iter
