/-
  C04 helper lemmas: aliased arguments (`concat(l, l)` on a List never terminates).
-/
import CelloProofs.Lemmas.SeqLst

namespace Cello.Seq
variable {α : Type}

/-- the iterator of `List_Concat(l, l)` never reaches the end of the list it is extending -/
theorem Lst.concatSelfLoop_diverges : ∀ (fuel : Nat) (l : Lst α) (k : Nat), k < l.items.length →
    Lst.concatSelfLoop fuel l (some k) = none := by
  intro fuel
  induction fuel with
  | zero => intro l k _; rfl
  | succ fuel ih =>
    intro l k hk
    simp only [Lst.concatSelfLoop, List.getElem?_eq_getElem hk]
    have hnext : ((l.push l.items[k]).1).iterNext k = some (k + 1) := by
      simp only [Lst.iterNext, Lst.push, List.length_append, List.length_singleton]
      rw [if_pos (by omega)]
    rw [hnext]
    exact ih _ (k + 1) (by simp only [Lst.push, List.length_append, List.length_singleton]; omega)

theorem Lst.concatSelf_diverges (l : Lst α) (hinv : l.Inv) (hne : l.items ≠ []) (fuel : Nat) :
    l.concatSelf fuel = none := by
  have hi : l.nitems = l.items.length := hinv
  have hpos : 0 < l.items.length := List.length_pos_iff.2 hne
  unfold Lst.concatSelf Lst.iterInit
  rw [if_neg (by omega)]
  exact Lst.concatSelfLoop_diverges fuel l 0 hpos

end Cello.Seq
