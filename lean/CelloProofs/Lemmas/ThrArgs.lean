/-
  Helper lemmas for C13 (threads), round 3:
  * arguments handed to a thread (`G.args`, `Ev.arg`, `Ev.rdarg`): under `ArgsSafe` no argument a live thread holds is finalised;
  * the narrow isolation hypothesis `IsolatedN` (`walkNeutral`): projection lemma `run_projM`.
-/
import CelloProofs.Lemmas.Thr

namespace Cello.Thr

/-! ### what one local operation adds to the ledger -/

/-- the objects operation `op` of thread `t` can finalise -/
def killedBy (t : Tid) (fm : List Obj) (ts : TS) : LOp → Obj → Prop
  | .end_, x => ∃ g, ts.gc = some g ∧ (x, false) ∈ g.reg
  | .del o, x => x = o
  | .collect stack, x => ∃ g, ts.gc = some g ∧ (x, false) ∈ g.reg ∧
      x ∉ (ts.tls.map (·.2) ++ stack.map (fun k => (⟨t, k⟩ : Obj)) ++ fm)
  | _, _ => False

theorem GC.rem_dead (g : GC) (o : Obj) : ∀ x ∈ (g.rem o).2, x = o := by
  intro x hx
  unfold GC.rem at hx
  split at hx
  · simpa using hx
  · cases hx

theorem GC.sweep_dead (g : GC) (marked : List Obj) : ∀ x ∈ (g.sweep marked).2, (x, false) ∈ g.reg ∧ x ∉ marked := by
  intro x hx
  obtain ⟨e, he, h1, h2, h3⟩ := (GC.sweep_sub g marked).2 x hx
  refine ⟨?_, h3⟩
  have : e = (x, false) := by rw [← h1, ← h2]
  rw [← this]; exact he

theorem lrun_fin (cfg : Cfg) (t : Tid) (c : Cache) (fm : List Obj) (op : LOp) (ts : TS) :
    ∀ x ∈ (lrun cfg t c fm op ts).1.fin, x ∈ ts.fin ∨ killedBy t fm ts op x := by
  intro x hx
  cases op with
  | begin_ => exact Or.inl hx
  | end_ =>
    simp only [lrun] at hx
    cases hg : ts.gc with
    | none => rw [hg] at hx; exact Or.inl hx
    | some g =>
      rw [hg] at hx
      simp only [] at hx
      have key : x ∈ ts.fin ++ (g.sweep []).2 → x ∈ ts.fin ∨ killedBy t fm ts .end_ x := by
        intro h
        rcases List.mem_append.mp h with h | h
        · exact Or.inl h
        · exact Or.inr ⟨g, hg, (GC.sweep_dead g [] x h).1⟩
      split at hx <;> exact key hx
  | new k root xdtor =>
    simp only [lrun] at hx
    split at hx
    · exact Or.inl hx
    · cases hg : ts.gc with
      | none => rw [hg] at hx; exact Or.inl hx
      | some g => rw [hg] at hx; exact Or.inl hx
  | del o =>
    simp only [lrun] at hx
    cases hg : ts.gc with
    | none => rw [hg] at hx; exact Or.inl hx
    | some g =>
      rw [hg] at hx
      simp only [] at hx
      have key : x ∈ ts.fin ++ (g.rem o).2 → x ∈ ts.fin ∨ killedBy t fm ts (.del o) x := by
        intro h
        rcases List.mem_append.mp h with h | h
        · exact Or.inl h
        · exact Or.inr (GC.rem_dead g o x h)
      split at hx <;> exact key hx
  | collect st =>
    simp only [lrun] at hx
    cases hg : ts.gc with
    | none => rw [hg] at hx; exact Or.inl hx
    | some g =>
      rw [hg] at hx
      simp only [] at hx
      have key : x ∈ ts.fin ++ (g.sweep (ts.tls.map (·.2) ++ st.map (fun k => (⟨t, k⟩ : Obj)) ++ fm)).2 →
          x ∈ ts.fin ∨ killedBy t fm ts (.collect st) x := by
        intro h
        rcases List.mem_append.mp h with h | h
        · exact Or.inl h
        · have := GC.sweep_dead g _ x h
          exact Or.inr ⟨g, hg, this.1, this.2⟩
      split at hx <;> exact key hx
  | churn n =>
    simp only [lrun] at hx
    cases hg : ts.gc with
    | none => rw [hg] at hx; exact Or.inl hx
    | some g => rw [hg] at hx; exact Or.inl hx
  | tset key o => simp only [lrun] at hx; split at hx <;> exact Or.inl hx
  | tget key => simp only [lrun] at hx; split at hx <;> exact Or.inl hx
  | tmem key => exact Or.inl hx
  | trem key => simp only [lrun] at hx; split at hx <;> exact Or.inl hx
  | exn p => simp only [lrun] at hx; split at hx <;> exact Or.inl hx
  | lookup ty cls => exact Or.inl hx
  | pub v => exact Or.inl hx
  | pubo o => exact Or.inl hx
  | work a b c' => exact Or.inl hx
  | perr f e => simp only [lrun] at hx; cases f <;> simp only [] at hx <;> split at hx <;> exact Or.inl hx

theorem lstep_fin (cfg : Cfg) (t : Tid) (c : Cache) (fm : List Obj) (op : LOp) (ts : TS) :
    ∀ x ∈ (lstep cfg t c fm op ts).1.fin, x ∈ ts.fin ∨ killedBy t fm ts op x := by
  intro x hx
  by_cases hr : ts.phase = .running
  · have := lrun_fin cfg t c fm op ts x
    cases op <;> first
      | (simp only [lstep, hr, if_true] at hx; exact this hx)
      | (simp [lstep, hr] at hx; exact Or.inl hx)
  · cases op <;> first
      | (simp only [lstep, hr, if_false] at hx; exact Or.inl hx)
      | (simp only [lstep] at hx; split at hx <;> exact Or.inl hx)

/-- a local operation makes no thread live that was not -/
theorem lstep_live (cfg : Cfg) (t : Tid) (c : Cache) (fm : List Obj) (op : LOp) (ts : TS)
    (h : isLive (lstep cfg t c fm op ts).1.phase = true) : isLive ts.phase = true := by
  by_cases hr : ts.phase = .running
  · simp [isLive, hr]
  · by_cases hy : ts.phase = .ready
    · simp [isLive, hy]
    · rw [lstep_not_running cfg t c fm op ts hr hy] at h; exact h

/-! ### the arguments of live threads are not finalised -/

/-- no argument object a live thread was given has been finalised -/
def ArgInv (g : G) : Prop := ∀ o ∈ liveArgs g, (g.thr o.owner).fin.contains o = false

theorem mem_liveArgs (g : G) (o : Obj) :
    o ∈ liveArgs g ↔ ∃ a ∈ g.args, isLive (g.thr a.1).phase = true ∧ o ∈ a.2 := by
  simp only [liveArgs, List.mem_flatMap]
  constructor
  · rintro ⟨a, ha, ho⟩
    split at ho
    · rename_i hl; exact ⟨a, ha, hl, ho⟩
    · cases ho
  · rintro ⟨a, ha, hl, ho⟩
    exact ⟨a, ha, by simp [hl, ho]⟩

theorem argInv_init : ArgInv G.init := by
  intro o ho
  simp [liveArgs, G.init] at ho

/-- events other than `spawn` and `arg` leave the argument tuples alone -/
theorem step_args (cfg : Cfg) (g : G) (e : Ev) (h1 : ∀ t u, e ≠ .spawn t u) (h2 : ∀ t u os, e ≠ .arg t u os) :
    (step cfg g e).1.args = g.args := by
  cases e with
  | spawn t u => exact absurd rfl (h1 t u)
  | arg t u os => exact absurd rfl (h2 t u os)
  | loc t op => rw [step_loc]; split <;> rfl
  | _ =>
    simp only [step]
    repeat' split
    all_goals rfl

theorem step_spawn_args (cfg : Cfg) (g : G) (t v : Tid) (h : (step cfg g (.spawn t v)).2 = .spawned) :
    (step cfg g (.spawn t v)).1.args = g.args.filter (fun a => a.1 ≠ v) := by
  revert h
  simp only [step]
  repeat' split
  all_goals first | (intro _; rfl) | (intro h; cases h)

theorem notPlain_of_rootReg (ts : TS) (o : Obj) (g : GC) (hg : ts.gc = some g) (h : rootReg ts o = true) :
    (o, false) ∉ g.reg := by
  simpa [rootReg, hg] using h

theorem step_argInv (cfg : Cfg) (g : G) (e : Ev) (hI : ArgInv g) (hs : argSafeEv g e = true) : ArgInv (step cfg g e).1 := by
  have sync : ∀ e : Ev, (∀ t op, e ≠ .loc t op) → (∀ t v, e ≠ .spawn t v) → (∀ t v, e ≠ .join t v) → (∀ t u os, e ≠ .arg t u os) →
      ArgInv (step cfg g e).1 := by
    intro e h1 h2 h3 h4 o ho
    have hthr := (step_sync_frame cfg g e h1 h2 h3).1
    have hargs := step_args cfg g e h2 h4
    have : o ∈ liveArgs g := by
      rw [mem_liveArgs] at ho ⊢
      rw [hargs, hthr] at ho
      exact ho
    rw [hthr]
    exact hI o this
  cases e with
  | loc t op =>
    rw [step_loc]
    split
    · exact hI
    · intro o ho
      have hsub : o ∈ liveArgs g := by
        rw [mem_liveArgs] at ho ⊢
        obtain ⟨a, ha, hl, hoa⟩ := ho
        refine ⟨a, ha, ?_, hoa⟩
        by_cases hat : a.1 = t
        · simp only [hat, upd_same] at hl
          rw [hat]
          exact lstep_live cfg t _ _ op _ hl
        · simpa [upd_other _ _ _ _ hat] using hl
      have hold := hI o hsub
      by_cases hot : o.owner = t
      · simp only [hot, upd_same]
        rw [hot] at hold
        cases hc : ((lstep cfg t g.cache (foreignMarks cfg g t op) op (g.thr t)).1.fin.contains o) with
        | false => rfl
        | true =>
          exfalso
          have hmem : o ∈ (lstep cfg t g.cache (foreignMarks cfg g t op) op (g.thr t)).1.fin := by simpa using hc
          rcases lstep_fin cfg t _ _ op _ o hmem with h | h
          · have : (g.thr t).fin.contains o = true := by simpa using h
            rw [hold] at this; cases this
          · cases op with
            | end_ =>
              obtain ⟨gc, hg, hreg⟩ := h
              simp only [argSafeEv, argsNotDestroyedEv, List.all_eq_true] at hs
              have := hs o hsub
              simp only [hot, ne_eq, not_true_eq_false, decide_false, Bool.false_or] at this
              exact notPlain_of_rootReg _ _ gc hg this hreg
            | del o' =>
              simp only [killedBy] at h
              subst h
              simp only [argSafeEv, argsNotDestroyedEv, Bool.or_eq_true, Bool.not_eq_true', List.contains_eq_mem,
                decide_eq_false_iff_not, decide_eq_true_eq] at hs
              rcases hs with hs | hs
              · exact hs hsub
              · exact hs hot
            | collect st =>
              obtain ⟨gc, hg, hreg, hnm⟩ := h
              simp only [argSafeEv, List.all_eq_true] at hs
              have := hs o hsub
              simp only [hot, ne_eq, not_true_eq_false, decide_false, Bool.false_or, Bool.or_eq_true] at this
              simp only [List.mem_append, not_or] at hnm
              rcases this with (h1 | h2) | h3
              · apply hnm.1.2
                rw [List.mem_map]
                refine ⟨o.k, by simpa using h1, ?_⟩
                rw [← hot]
              · apply hnm.1.1
                rw [List.mem_map]
                obtain ⟨e, he, heq⟩ := List.any_eq_true.mp h2
                exact ⟨e, he, by simpa using heq⟩
              · exact notPlain_of_rootReg _ _ gc hg h3 hreg
            | _ => exact h
      · simp only [upd_other _ _ _ _ hot]
        exact hold
  | spawn t v =>
    intro o ho
    rcases step_spawn cfg g t v with ⟨_, _, hthr⟩ | ⟨_, hg⟩
    · rename_i hsp _
      have hargs := step_spawn_args cfg g t v hsp
      rw [mem_liveArgs] at ho
      obtain ⟨a, ha, hl, hoa⟩ := ho
      rw [hargs, List.mem_filter] at ha
      have hav : a.1 ≠ v := by simpa using ha.2
      rw [hthr, upd_other _ _ _ _ hav] at hl
      have hin : o ∈ liveArgs g := (mem_liveArgs g o).mpr ⟨a, ha.1, hl, hoa⟩
      have := hI o hin
      rw [hthr]
      by_cases hov : o.owner = v
      · simp only [hov, upd_same]; rw [hov] at this; exact this
      · simp only [upd_other _ _ _ _ hov]; exact this
    · rw [hg] at ho ⊢; exact hI o ho
  | join t w =>
    intro o ho
    have hargs := step_args cfg g (.join t w) (by intros; simp) (by intros; simp)
    rcases step_join cfg g t w with ⟨hthr, _⟩ | ⟨x, _, _, _, _, hthr⟩
    · have : o ∈ liveArgs g := by
        rw [mem_liveArgs] at ho ⊢
        rw [hargs, hthr] at ho
        exact ho
      rw [hthr]; exact hI o this
    · have : o ∈ liveArgs g := by
        rw [mem_liveArgs] at ho ⊢
        rw [hargs, hthr] at ho
        obtain ⟨a, ha, hl, hoa⟩ := ho
        refine ⟨a, ha, ?_, hoa⟩
        by_cases hat : a.1 = t
        · simp only [hat, upd_same] at hl; rw [hat]; exact hl
        · simpa [upd_other _ _ _ _ hat] using hl
      have hh := hI o this
      rw [hthr]
      by_cases hot : o.owner = t
      · simp only [hot, upd_same]; rw [hot] at hh; exact hh
      · simp only [upd_other _ _ _ _ hot]; exact hh
  | arg t u os =>
    intro o ho
    have hthr := (step_sync_frame cfg g (.arg t u os) (by intros; simp) (by intros; simp) (by intros; simp)).1
    rw [hthr]
    simp only [argSafeEv, argsNotDestroyedEv, List.all_eq_true, Bool.not_eq_true'] at hs
    rw [mem_liveArgs, hthr] at ho
    obtain ⟨a, ha, hl, hoa⟩ := ho
    have hcases : (step cfg g (.arg t u os)).1.args = g.args ∨
        (step cfg g (.arg t u os)).1.args = (u, os) :: g.args.filter (fun a => a.1 ≠ u) := by
      simp only [step]
      repeat' split
      all_goals first | exact Or.inl rfl | exact Or.inr rfl
    rcases hcases with h | h
    · rw [h] at ha
      exact hI o ((mem_liveArgs g o).mpr ⟨a, ha, hl, hoa⟩)
    · rw [h] at ha
      rcases List.mem_cons.mp ha with rfl | ha
      · exact hs o hoa
      · exact hI o ((mem_liveArgs g o).mpr ⟨a, (List.mem_filter.mp ha).1, hl, hoa⟩)
  | lock t m => exact sync _ (by intros; simp) (by intros; simp) (by intros; simp) (by intros; simp)
  | trylock t m => exact sync _ (by intros; simp) (by intros; simp) (by intros; simp) (by intros; simp)
  | unlock t m => exact sync _ (by intros; simp) (by intros; simp) (by intros; simp) (by intros; simp)
  | winc t m c => exact sync _ (by intros; simp) (by intros; simp) (by intros; simp) (by intros; simp)
  | ld t c => exact sync _ (by intros; simp) (by intros; simp) (by intros; simp) (by intros; simp)
  | st t c => exact sync _ (by intros; simp) (by intros; simp) (by intros; simp) (by intros; simp)
  | rd t w => exact sync _ (by intros; simp) (by intros; simp) (by intros; simp) (by intros; simp)
  | bind t w => exact sync _ (by intros; simp) (by intros; simp) (by intros; simp) (by intros; simp)
  | rdo t w => exact sync _ (by intros; simp) (by intros; simp) (by intros; simp) (by intros; simp)
  | rdarg t i => exact sync _ (by intros; simp) (by intros; simp) (by intros; simp) (by intros; simp)

/-- a running thread that reads an argument it was given reads a live argument -/
theorem step_rdarg (cfg : Cfg) (g : G) (t : Tid) (i : Nat) (hI : ArgInv g) :
    ∀ o, (step cfg g (.rdarg t i)).2 ≠ .dangling o := by
  intro o h
  simp only [step] at h
  split at h
  · cases h
  · rename_i hrun
    split at h
    · cases h
    · rename_i o' hl
      split at h
      · rename_i hfin
        have hrun' : (g.thr t).phase = .running := by simpa [running] using hrun
        obtain ⟨os, hos, hi⟩ : ∃ os, g.args.lookup t = some os ∧ os[i]? = some o' := by
          cases hlk : g.args.lookup t with
          | none => rw [hlk] at hl; cases hl
          | some os => rw [hlk] at hl; exact ⟨os, rfl, by simpa using hl⟩
        have hmem : (t, os) ∈ g.args := by
          have := List.lookup_eq_some_iff.mp hos
          obtain ⟨l1, l2, hl12, _⟩ := this
          rw [hl12]; simp
        have ho' : o' ∈ os := List.mem_of_getElem? hi
        have := hI o' ((mem_liveArgs g o').mpr ⟨(t, os), hmem, by simp [isLive, hrun'], ho'⟩)
        rw [this] at hfin; cases hfin
      · cases h

theorem run_args_safe (cfg : Cfg) (s : List Ev) : ∀ g : G, ArgInv g → ArgsSafe cfg s g = true →
    ∀ eo ∈ (run cfg s g).2, ∀ t i, eo.1 = .rdarg t i → ∀ o, eo.2 ≠ .dangling o := by
  induction s with
  | nil => intro g _ _ eo h; cases h
  | cons e s ih =>
    intro g hI hs eo hmem t i he
    simp only [ArgsSafe, Bool.and_eq_true] at hs
    rw [run_cons] at hmem
    rcases List.mem_cons.mp hmem with rfl | hmem
    · simp only at he
      subst he
      exact step_rdarg cfg g t i hI
    · exact ih _ (step_argInv cfg g e hI hs.1) hs.2 eo hmem t i he

theorem run_argInv (cfg : Cfg) (s : List Ev) : ∀ g : G, ArgInv g → ArgsSafe cfg s g = true → ArgInv (run cfg s g).1 := by
  induction s with
  | nil => intro g h _; exact h
  | cons e s ih =>
    intro g hI hs
    simp only [ArgsSafe, Bool.and_eq_true] at hs
    rw [run_cons]
    exact ih _ (step_argInv cfg g e hI hs.1) hs.2

/-- what `rdarg` yields when the argument has not been finalised: the object that was handed over -/
theorem step_rdarg_val (cfg : Cfg) (g : G) (t : Tid) (i : Nat) (os : List Obj) (o : Obj) (hr : running g t = true)
    (hl : g.args.lookup t = some os) (hi : os[i]? = some o) (hf : (g.thr o.owner).fin.contains o = false) :
    step cfg g (.rdarg t i) = (g, .val o) := by
  have hf' : o ∉ (g.thr o.owner).fin := by simpa using hf
  simp [step, hr, hl, hi, hf']

end Cello.Thr

namespace Cello.Thr

/-! ### the narrow isolation hypothesis -/

theorem GC.sweep_congr (g : GC) (a b : List Obj) (h : ∀ e ∈ g.reg, e.2 = false → a.contains e.1 = b.contains e.1) :
    g.sweep a = g.sweep b := by
  have hf : ∀ e ∈ g.reg, (e.2 || a.contains e.1) = (e.2 || b.contains e.1) := by
    intro e he
    cases h2 : e.2 with
    | true => rfl
    | false => rw [h e he h2]
  have h1 : g.reg.filter (fun e => e.2 || a.contains e.1) = g.reg.filter (fun e => e.2 || b.contains e.1) :=
    List.filter_congr hf
  have h2 : g.reg.filter (fun e => !(e.2 || a.contains e.1)) = g.reg.filter (fun e => !(e.2 || b.contains e.1)) :=
    List.filter_congr (fun e he => by rw [hf e he])
  simp only [GC.sweep, h1, h2]

/-- a collection whose walk of live threads' tables is neutral does what it does when only the tables of the threads
    that are not live are walked -/
theorem lstep_walk (cfg : Cfg) (g : G) (t : Tid) (c : Cache) (op : LOp) (h : walkNeutral cfg g t op = true) :
    lstep cfg t c (foreignMarks cfg g t op) op (g.thr t) = lstep cfg t c (frozenMarks cfg g t op) op (g.thr t) := by
  cases op with
  | collect st =>
    simp only [lstep]
    split
    · simp only [lrun]
      cases hg : (g.thr t).gc with
      | none => rfl
      | some gc =>
        simp only [walkNeutral, hg, List.all_eq_true, Bool.or_eq_true, beq_iff_eq] at h
        have := GC.sweep_congr gc
          ((g.thr t).tls.map (·.2) ++ st.map (fun k => (⟨t, k⟩ : Obj)) ++ foreignMarks cfg g t (.collect st))
          ((g.thr t).tls.map (·.2) ++ st.map (fun k => (⟨t, k⟩ : Obj)) ++ frozenMarks cfg g t (.collect st))
          (by intro e he h2
              rcases h e he with h' | h'
              · rw [h2] at h'; cases h'
              · exact h')
        simp only [this]
    · rfl
  | _ => simp [foreignMarks, frozenMarks, heldOf]

theorem isolatedN_cons (cfg : Cfg) (e : Ev) (s : List Ev) (g : G) (h : IsolatedN cfg (e :: s) g = true) :
    isolatedEvN cfg g e = true ∧ IsolatedN cfg s (step cfg g e).1 = true := by
  simpa [IsolatedN] using h

theorem step_loc_isolatedN (cfg : Cfg) (g : G) (t : Tid) (op : LOp) (h : isolatedEvN cfg g (.loc t op) = true) :
    step cfg g (.loc t op) =
      ({ g with thr := upd g.thr t (lstep cfg t g.cache (frozenMarks cfg g t op) op (g.thr t)).1,
                cache := (lstep cfg t g.cache (frozenMarks cfg g t op) op (g.thr t)).2.1 },
       (lstep cfg t g.cache (frozenMarks cfg g t op) op (g.thr t)).2.2) := by
  simp only [isolatedEvN, keepsWrappersEv, Bool.and_eq_true, Bool.not_eq_true'] at h
  rw [step_loc, h.2, ← lstep_walk cfg g t g.cache op h.1]
  simp

theorem soloSpec_append_nil (cfg : Cfg) (u : Tid) (as : List Act) (ts : TS) : soloSpec cfg u ([] ++ as) ts = soloSpec cfg u as ts := rfl

/-- **projection under the narrow hypothesis**: thread `u`'s final component and the outcomes of its local operations
    are those of `u` alone on `projM` — its own operations, its collections being handed the tables of the Thread
    objects that are *not live* -/
theorem run_projM (cfg : Cfg) (u : Tid) (s : List Ev) : ∀ g : G, CacheOK cfg g.cache → IsolatedN cfg s g = true →
    (run cfg s g).1.thr u = (soloSpec cfg u (projM cfg u s g) (g.thr u)).1 ∧
    localOuts u (run cfg s g).2 = (soloSpec cfg u (projM cfg u s g) (g.thr u)).2 ∧
    CacheOK cfg (run cfg s g).1.cache := by
  induction s with
  | nil => intro g hc _; exact ⟨rfl, rfl, hc⟩
  | cons e s ih =>
    intro g hc hiso
    obtain ⟨hie, hiso'⟩ := isolatedN_cons cfg e s g hiso
    rw [run_cons]
    have sync : (∀ t op, e ≠ .loc t op) → (∀ t v, e ≠ .spawn t v) → (∀ t v, e ≠ .join t v) →
        (∀ o, actM cfg u g e o = []) →
        (run cfg s (step cfg g e).1).1.thr u = (soloSpec cfg u (projM cfg u (e :: s) g) (g.thr u)).1 ∧
        localOuts u ((e, (step cfg g e).2) :: (run cfg s (step cfg g e).1).2) = (soloSpec cfg u (projM cfg u (e :: s) g) (g.thr u)).2 ∧
        CacheOK cfg (run cfg s (step cfg g e).1).1.cache := by
      intro h1 h2 h3 ha
      have hf := step_sync_frame cfg g e h1 h2 h3
      have ih' := ih (step cfg g e).1 (by rw [hf.2]; exact hc) hiso'
      have hp := proj_sync u e (step cfg g e).2 (run cfg s (step cfg g e).1).2 h1 h2 h3
      rw [hp.2]
      simp only [projM, ha, List.nil_append]
      rw [hf.1] at ih'
      exact ih'
    cases e with
    | loc t op =>
      have hs := lstep_spec hc t (frozenMarks cfg g t op) op (g.thr t)
      have hstep := step_loc_isolatedN cfg g t op hie
      simp only [projM, actM]
      rw [hstep] at hiso' ⊢
      have ih' := ih { g with thr := upd g.thr t (lstep cfg t g.cache (frozenMarks cfg g t op) op (g.thr t)).1,
                              cache := (lstep cfg t g.cache (frozenMarks cfg g t op) op (g.thr t)).2.1 } hs.2 hiso'
      by_cases htu : t = u
      · subst htu
        simp only [upd_same] at ih'
        have h1 : (lstep cfg t g.cache (frozenMarks cfg g t op) op (g.thr t)).1 = (lstepSpec cfg t (frozenMarks cfg g t op) op (g.thr t)).1 := by rw [← hs.1]
        have h2 : (lstep cfg t g.cache (frozenMarks cfg g t op) op (g.thr t)).2.2 = (lstepSpec cfg t (frozenMarks cfg g t op) op (g.thr t)).2 := by rw [← hs.1]
        simp only [localOuts, if_true, soloSpec, List.singleton_append]
        rw [← h1, ← h2]
        exact ⟨ih'.1, by rw [ih'.2.1], ih'.2.2⟩
      · have hut : u ≠ t := fun h => htu h.symm
        simp only [upd_other _ _ _ _ hut] at ih'
        simp only [localOuts, htu, if_false, List.nil_append]
        exact ih'
    | spawn t v =>
      have hrest := step_spawn_rest cfg g t v
      have ih' := ih (step cfg g (.spawn t v)).1 (by rw [hrest.1]; exact hc) hiso'
      simp only [projM]
      rcases step_spawn cfg g t v with ⟨ho, hph, hthr⟩ | ⟨ho, hg⟩
      · rw [hthr] at ih'
        rw [ho]
        by_cases hvu : v = u
        · subst hvu
          simp only [upd_same] at ih'
          simp only [actM, localOuts, if_true, soloSpec, List.singleton_append]
          rw [if_pos hph]
          exact ih'
        · have huv : u ≠ v := fun h => hvu h.symm
          simp only [upd_other _ _ _ _ huv] at ih'
          simp only [actM, localOuts, hvu, if_false, List.nil_append]
          exact ih'
      · have ha : actM cfg u g (.spawn t v) (step cfg g (.spawn t v)).2 = [] := by
          generalize (step cfg g (.spawn t v)).2 = o at ho
          cases o <;> first | rfl | exact absurd rfl ho
        have hl : localOuts u ((Ev.spawn t v, (step cfg g (.spawn t v)).2) :: (run cfg s (step cfg g (.spawn t v)).1).2) =
            localOuts u (run cfg s (step cfg g (.spawn t v)).1).2 := by
          generalize (step cfg g (.spawn t v)).2 = o
          cases o <;> rfl
        rw [ha, hl, List.nil_append]
        rw [hg] at ih' ⊢
        exact ih'
    | join t w =>
      have ih' := ih (step cfg g (.join t w)).1 (by rw [(step_join_rest cfg g t w).1]; exact hc) hiso'
      simp only [projM]
      rcases step_join cfg g t w with ⟨hthr, hnr⟩ | ⟨x, htw, hrun, hx, hout, hthr⟩
      · have hp := proj_join_nr u t w (step cfg g (.join t w)).2 (run cfg s (step cfg g (.join t w)).1).2 hnr
        have ha : actM cfg u g (.join t w) (step cfg g (.join t w)).2 = [] := by
          generalize (step cfg g (.join t w)).2 = o at hnr
          cases o <;> first | rfl | exact absurd rfl (hnr _)
        rw [hp.2, ha, List.nil_append]
        rw [hthr] at ih'
        exact ih'
      · subst htw
        rw [hthr] at ih'
        rw [hout]
        by_cases htu : t = u
        · subst htu
          simp only [upd_same] at ih'
          have hph : (g.thr t).phase = .running := by simpa [running] using hrun
          have hl : lstepSpec cfg t [] (.perr .join .edeadlk) (g.thr t) =
              ({ g.thr t with exc := caught x (g.thr t).exc }, .raised x) := by
            simp only [lstepSpec, lstep_perr_join cfg t [] [] (g.thr t) hph x hx]
          simp only [actM, localOuts, and_self, if_true, soloSpec, hl, List.singleton_append]
          exact ⟨ih'.1, by rw [ih'.2.1], ih'.2.2⟩
        · have hut : u ≠ t := fun h => htu h.symm
          simp only [upd_other _ _ _ _ hut] at ih'
          simp only [actM, localOuts, htu, and_false, if_false, List.nil_append]
          exact ih'
    | lock t m => exact sync (by intros; simp) (by intros; simp) (by intros; simp) (fun o => rfl)
    | trylock t m => exact sync (by intros; simp) (by intros; simp) (by intros; simp) (fun o => rfl)
    | unlock t m => exact sync (by intros; simp) (by intros; simp) (by intros; simp) (fun o => rfl)
    | winc t m c => exact sync (by intros; simp) (by intros; simp) (by intros; simp) (fun o => rfl)
    | ld t c => exact sync (by intros; simp) (by intros; simp) (by intros; simp) (fun o => rfl)
    | st t c => exact sync (by intros; simp) (by intros; simp) (by intros; simp) (fun o => rfl)
    | rd t w => exact sync (by intros; simp) (by intros; simp) (by intros; simp) (fun o => rfl)
    | bind t w => exact sync (by intros; simp) (by intros; simp) (by intros; simp) (fun o => rfl)
    | rdo t w => exact sync (by intros; simp) (by intros; simp) (by intros; simp) (fun o => rfl)
    | arg t w os => exact sync (by intros; simp) (by intros; simp) (by intros; simp) (fun o => rfl)
    | rdarg t i => exact sync (by intros; simp) (by intros; simp) (by intros; simp) (fun o => rfl)

/-! ### `Isolated` is the special case in which no table at all is read -/

theorem frozenMarks_nil_of_isolated (cfg : Cfg) (g : G) (t : Tid) (op : LOp) (h : isolatedEv cfg g (.loc t op) = true) :
    frozenMarks cfg g t op = [] := by
  simp only [isolatedEv, Bool.and_eq_true, Bool.or_eq_true, Bool.not_eq_true'] at h
  unfold frozenMarks
  rcases h.1 with hf | hq
  · simp [hf]
  · split
    · rw [List.flatMap_eq_nil_iff]
      intro u hu
      have := List.all_eq_true.mp hq u (List.mem_filter.mp hu).1
      simp only [quiet, Bool.and_eq_true, List.isEmpty_iff] at this
      simp [this.2]
    · rfl

theorem isolatedEvN_of_isolatedEv (cfg : Cfg) (g : G) (e : Ev) (h : isolatedEv cfg g e = true) : isolatedEvN cfg g e = true := by
  cases e with
  | loc t op =>
    have hfm := (isolated_loc cfg g t op h).1
    have hfz := frozenMarks_nil_of_isolated cfg g t op h
    have hk : keepsWrappersEv cfg g (.loc t op) = true := by
      simp only [isolatedEv, Bool.and_eq_true] at h; exact h.2
    simp only [isolatedEvN, Bool.and_eq_true]
    refine ⟨?_, hk⟩
    cases op with
    | collect st =>
      simp only [walkNeutral]
      split
      · rfl
      · rw [hfm, hfz]; simp
    | _ => rfl
  | _ => rfl

theorem isolatedN_of_isolated (cfg : Cfg) (s : List Ev) : ∀ g : G, Isolated cfg s g = true → IsolatedN cfg s g = true := by
  induction s with
  | nil => intro g _; rfl
  | cons e s ih =>
    intro g h
    simp only [Isolated, Bool.and_eq_true] at h
    simp only [IsolatedN, Bool.and_eq_true]
    exact ⟨isolatedEvN_of_isolatedEv cfg g e h.1, ih _ h.2⟩

end Cello.Thr
