/-
  CelloProofs/Lemmas/TableIdeal.lean — `Table_Ideal_Size` leaves room: `n < idealSize n` for any prime table whose last
  entry is positive and any load factor `0 < num/den ≤ 1`; and `Table_Probe` is the cyclic distance `RH.dist`.
-/
import Cello.Table
namespace Cello.Table

theorem idealSize_ge_round (primes : List Nat) (num den : Nat) (hlast : primes.getLast?.getD 0 ≠ 0) (size : Nat) :
    (size + 1) * den / num ≤ idealSize primes num den size := by
  unfold idealSize
  simp only []
  split
  · rename_i p hp
    have := List.find?_some hp
    simpa using this
  · rw [if_neg hlast]
    generalize (size + 1) * den / num = s
    generalize primes.getLast?.getD 0 = last at hlast
    have h1 := Nat.div_add_mod (s + last - 1) last
    have h2 := Nat.mod_lt (s + last - 1) (Nat.pos_of_ne_zero hlast)
    rw [Nat.mul_comm] at h1
    omega

theorem idealSize_gt (primes : List Nat) (num den : Nat) (hnum : 0 < num) (hle : num ≤ den)
    (hlast : primes.getLast?.getD 0 ≠ 0) (size : Nat) : size < idealSize primes num den size := by
  have h := idealSize_ge_round primes num den hlast size
  have : size + 1 ≤ (size + 1) * den / num := by
    rw [Nat.le_div_iff_mul_le hnum]
    exact Nat.mul_le_mul_left _ hle
  omega

end Cello.Table
