/-
  CelloProofs/Lemmas/RHSweep.lean — the in-place compaction loop of GC_Sweep (`sweepLoop` in Cello/Registry.lean):
  `while (i < nslots)` skipping empty, marked and root slots and erasing every other entry by backward shift *without
  advancing*, so that the entry shifted into slot `i` (possibly from slot 0 through the wrap-around) is examined next.
  Loop invariant: the table satisfies the robin-hood invariant and every occupied slot below `i` holds an entry that is kept.
-/
import Cello.Registry
import CelloProofs.Lemmas.RHErase
import CelloProofs.Lemmas.RegistryIns
set_option linter.unusedSectionVars false
set_option linter.unusedVariables false
namespace Cello.Registry
open RH

/-- the entries GC_Sweep keeps -/
def Keep (e : Ent) : Prop := e.val.marked = true ∨ e.val.root = true

theorem push_append_keys (pend : Array (Option Nat)) (e : Ent) (l : List Ent) :
    pend.push (some e.key) ++ (l.map (fun x => some x.key)).toArray = pend ++ ((e :: l).map (fun x => some x.key)).toArray := by
  apply Array.ext'
  simp

/-- **Sweep compaction.**  From slot `i` on, with every occupied slot below `i` kept: the loop terminates (fuel
    `(n - i) + occupied + 1`), the invariant holds for the result, the result stores exactly the kept entries, the others are
    appended to the pending list once each in the order met, and the item count drops by their number.  The empty slot `z`
    witnesses that a shift never runs all the way round. -/
theorem sweepLoop_spec {n : Nat} (hash : Nat → Nat) :
    ∀ (fuel : Nat) (s : Slots Nat Payload n) (i : Nat) (pend : Array (Option Nat)) (ni : Nat) (z : Nat) (hz : z < n),
      Inv0 hash s → s[z] = none → i ≤ n →
      (∀ q (hq : q < n), q < i → ∀ e, s[q] = some e → Keep e) →
      (n - i) + occ s < fuel →
      ∃ (s' : Slots Nat Payload n) (removed : List Ent),
        sweepLoop fuel s i pend ni = some (s', pend ++ (removed.map (fun x => some x.key)).toArray, ni - removed.length) ∧
        Inv0 hash s' ∧ s'[z] = none ∧
        (∀ e, Mem s e ↔ Mem s' e ∨ e ∈ removed) ∧ (∀ e, Mem s' e → Keep e) ∧ (∀ e, e ∈ removed → ¬ Keep e) ∧
        (∀ e, e ∈ removed → ¬ Mem s' e) ∧ removed.Nodup ∧ occ s' + removed.length = occ s := by
  intro fuel
  induction fuel with
  | zero => intro s i pend ni z hz _ _ _ _ h; omega
  | succ fuel ih =>
    intro s i pend ni z hz inv hze hile hex hf
    unfold sweepLoop
    split
    · rename_i hi
      -- advancing past slot `i` whose content (if any) is kept
      have advance : (∀ e, s[i] = some e → Keep e) →
          ∃ (s' : Slots Nat Payload n) (removed : List Ent),
            sweepLoop fuel s (i+1) pend ni = some (s', pend ++ (removed.map (fun x => some x.key)).toArray, ni - removed.length) ∧
            Inv0 hash s' ∧ s'[z] = none ∧
            (∀ e, Mem s e ↔ Mem s' e ∨ e ∈ removed) ∧ (∀ e, Mem s' e → Keep e) ∧ (∀ e, e ∈ removed → ¬ Keep e) ∧
            (∀ e, e ∈ removed → ¬ Mem s' e) ∧ removed.Nodup ∧ occ s' + removed.length = occ s := by
        intro hk
        apply ih s (i+1) pend ni z hz inv hze (by omega) _ (by omega)
        intro q hq hqi e he
        by_cases h : q = i
        · subst h; exact hk e he
        · exact hex q hq (by omega) e he
      split
      · rename_i hnone
        exact advance (by intro e he; rw [hnone] at he; cases he)
      · rename_i e he
        by_cases hm : e.val.marked = true
        · rw [if_pos hm]
          exact advance (by intro e' he'; rw [he] at he'; cases he'; exact Or.inl hm)
        · rw [if_neg hm]
          by_cases hr : e.val.root = true
          · have hc : ¬ ((!e.val.root && !e.val.marked) = true) := by simp [hr]
            rw [if_neg hc]
            exact advance (by intro e' he'; rw [he] at he'; cases he'; exact Or.inr hr)
          · have hc : (!e.val.root && !e.val.marked) = true := by
              cases h1 : e.val.root <;> cases h2 : e.val.marked <;> simp_all
            rw [if_pos hc]
            obtain ⟨s1, hs1, inv1, hz1, hmem1, hocc1, hpos1⟩ := eraseAt_spec hash s inv i hi e he z hz hze
            rw [hs1]
            simp only []
            have hex1 : ∀ q (hq : q < n), q < i → ∀ e', s1[q] = some e' → Keep e' := by
              intro q hq hqi e' he'
              rcases hpos1 q hq e' he' with ⟨_, h⟩ | ⟨hne, h⟩
              · exact hex q hq hqi e' h
              · have hnq : next n q = q + 1 := by unfold next; split <;> omega
                have hlt : q + 1 < i := by
                  rcases Nat.lt_or_ge (q + 1) i with h' | h'
                  · exact h'
                  · exact absurd (by omega : next n q = i) hne
                exact hex (next n q) (next_lt hq) (by omega) e' h
            obtain ⟨s', removed, hs', inv', hz', hmem', hkeep', hrem', hnot', hnd', hocc'⟩ :=
              ih s1 i (pend.push (some e.key)) (ni - 1) z hz inv1 hz1 hile hex1 (by omega)
            have hnotKeep : ¬ Keep e := by
              intro h; rcases h with h | h
              · exact hm h
              · exact hr h
            have he_not1 : ¬ Mem s1 e := by intro h; exact ((hmem1 e).1 h).2 rfl
            have he_notrem : e ∉ removed := by
              intro h
              exact he_not1 ((hmem' e).2 (Or.inr h))
            refine ⟨s', e :: removed, ?_, inv', hz', ?_, hkeep', ?_, ?_, ?_, ?_⟩
            · rw [hs', push_append_keys]
              simp only [List.length_cons, Nat.sub_sub]
              rw [Nat.add_comm 1]
            · intro e0
              constructor
              · intro h
                by_cases h0 : e0 = e
                · exact Or.inr (by rw [h0]; exact List.mem_cons_self)
                · rcases (hmem' e0).1 ((hmem1 e0).2 ⟨h, h0⟩) with h' | h'
                  · exact Or.inl h'
                  · exact Or.inr (List.mem_cons_of_mem _ h')
              · rintro (h | h)
                · exact ((hmem1 e0).1 ((hmem' e0).2 (Or.inl h))).1
                · rcases List.mem_cons.1 h with h | h
                  · rw [h]; exact ⟨i, hi, he⟩
                  · exact ((hmem1 e0).1 ((hmem' e0).2 (Or.inr h))).1
            · intro e0 h
              rcases List.mem_cons.1 h with h | h
              · rw [h]; exact hnotKeep
              · exact hrem' e0 h
            · intro e0 h
              rcases List.mem_cons.1 h with h | h
              · rw [h]; intro hm'; exact he_not1 ((hmem' e).2 (Or.inl hm'))
              · exact hnot' e0 h
            · exact List.nodup_cons.2 ⟨he_notrem, hnd'⟩
            · simp only [List.length_cons]; omega
    · rename_i hi
      refine ⟨s, [], by simp, inv, hze, by intro e; simp, ?_, by simp, by simp, List.nodup_nil, by simp⟩
      rintro e ⟨q, hq, he⟩
      exact hex q hq (by omega) e he

end Cello.Registry
