/-
  C02 — Table behaves as a finite map whatever the hashing does.

  Property theorems only; the lemmas are in CelloProofs/Lemmas/Table*.lean, RHAbsIns.lean (insert abstraction),
  RHIns.lean / RH.lean / RHErase.lean (shared robin-hood core).
  Model: Cello/Table.lean (`step`, `run`: src/Table.c as it is now; `specStep`, `specRun`: association lists).
  Source-derived facts: CelloGen/Table.lean (`primes`, `loadNum/loadDen`, `tieGe`, `setGrowsEmpty`, `assignGuardsSelf`,
  `getShortcutChecksKey`, `probe`, `stringCmpText`/`stringCStrText`/`cStrText`, `shape…`/`shape…Modelled`);
  CelloGen/Cmp.lean (`eq`, `Int_Cmp`) and CelloGen/Hash.lean (`hash_data`) for the Int / String key classes.

  Key objects.  In the model an object is a value; `Table_Get` alone looks at the *address* of its key argument.
  `Op.get t k` is a `get` whose key object lies outside the table's slot array (`KeyArg.obj k`); a key
  argument that points into the table's own storage is `KeyArg.inSlot`.  Since fix bc940bb (the address short cut is taken only
  for the stored key object of an occupied record) `C02_get_mem_agree` holds for EVERY key argument, `C02_get_any_key_object`
  is a theorem about the current source, and `C02_get_value_pointer_old_refuted` speaks about the explicit OLD variant
  `cfgAnyAddress` (was known finding KF-C02-get-alias).  `get` changes no state, so these single-table statements apply at every
  point of every history (`C02_invariant_every_step` supplies `Rep`).

  Key equality.  The model's key test is Lean equality of the abstract key, decided — for the two key classes the property
  names — by the C predicate `eq` over the comparison the type registers.  That the predicate IS equality is proved from the
  translated `eq`/`Int_Cmp` for Int keys; for String keys it needs `String_Cmp` = `strcmp`, the explicit assumption
  `StringCmpIsStrcmp` about the source text, which `C02_string_keys` proves for the text that is in src/String.c now.
-/
import Cello.Table
import CelloGen.Table
import CelloProofs.Lemmas.TableIdeal
import CelloProofs.Lemmas.TableRefine
import CelloProofs.Lemmas.TableKeys
import CelloProofs.Lemmas.TableArgs
import CelloProofs.Lemmas.TableMark

namespace Cello.Table
open RH

/-- `Table_Ideal_Size`, with the prime table and the load factor read from src/Table.c by the translator -/
def idealNow : Nat → Nat := idealSize CelloGen.Table.primes CelloGen.Table.loadNum CelloGen.Table.loadDen

/-- the model parameters of the source as it is now -/
def cfgNow : Cfg :=
  { ge := CelloGen.Table.tieGe, growEmpty := CelloGen.Table.setGrowsEmpty, ideal := idealNow,
    selfGuard := CelloGen.Table.assignGuardsSelf, getChecksKey := CelloGen.Table.getShortcutChecksKey }

/-- `N` table variables, each `new(Table, K, V)` -/
def fresh (cfg : Cfg) (κ ν : Type) (N : Nat) : List (Tab κ ν) := List.replicate N (new cfg)

/-- the slot array as `(index, stored home, key, value)` -/
def slotList' (t : Tab Nat Nat) : List (Nat × Nat × Nat × Nat) :=
  (t.slots.toList.zipIdx.filterMap (fun p => p.1.map (fun e => (p.2, e.home, e.key, e.val))))

/-- Int keys: `hash = (uint64_t) value` -/
def hid (k : Nat) : Nat := k

variable {κ ν : Type} [DecidableEq κ]

/-- **Growth leaves room**: the slot count chosen for `n` items exceeds `n`, for the prime table and load factor that are in
    src/Table.c now (a load factor ≥ 1 or a zero last prime makes this fail). -/
theorem C02_idealSize_gt (n : Nat) : n < idealNow n :=
  idealSize_gt _ _ _ (by decide) (by decide) (by decide) n

/-- **The source as it is now has the parameters the refinement needs**: strict displacement test `j > p` (F02 fixed),
    `Table_Set` grows an `nslots = 0` table (F03 fixed), `Table_Ideal_Size n > n`, `Table_Assign` returns at once when
    `self is obj` (self-assignment fixed).  Stops type-checking when src/Table.c changes any of them. -/
theorem C02_current_source_good : GoodCfg cfgNow := ⟨rfl, rfl, C02_idealSize_gt, rfl⟩

/-- **… and the address short cut of `Table_Get` is taken only for the stored key object of an occupied record** (fix bc940bb):
    what the lookup theorems for arbitrary key objects need.  Stops type-checking when the test is weakened again. -/
theorem C02_current_source_checks_key : cfgNow.getChecksKey = true := rfl

/-! ### the functions the model mirrors by hand, pinned to the source text

    `setLoop`/`setMove`, `rehash`, `find`/`shiftBack`/`rem`, `get`/`mem`, `clear`/`resize`, `scanUp`/`scanDown`/`iter*` were written
    against the texts `shape…Modelled` (kept in translate/g_table.py); `shape…` is what src/Table.c says on this run
    (whitespace-normalised; in `Table_Set_Move` the displacement operator and in `Table_Get` the address test are masked — they
    are the parameters `tieGe` / `getShortcutChecksKey` the model follows).  An edit of one of these functions stops the theorem
    named after it, whether or not a generated input still tells the difference. -/

theorem C02_source_as_modelled_set_move : CelloGen.Table.shapeSetMove = CelloGen.Table.shapeSetMoveModelled := rfl
theorem C02_source_as_modelled_rehash : CelloGen.Table.shapeRehash = CelloGen.Table.shapeRehashModelled := rfl
theorem C02_source_as_modelled_rem : CelloGen.Table.shapeRem = CelloGen.Table.shapeRemModelled := rfl
theorem C02_source_as_modelled_lookup : CelloGen.Table.shapeLookup = CelloGen.Table.shapeLookupModelled := rfl
theorem C02_source_as_modelled_clear_resize : CelloGen.Table.shapeClearResize = CelloGen.Table.shapeClearResizeModelled := rfl
theorem C02_source_as_modelled_iter : CelloGen.Table.shapeIter = CelloGen.Table.shapeIterModelled := rfl
-- `Table_Mark` and `Table_Hash` (model: Cello/TableMark.lean `markLoop`/`mark`, `hashStep`/`tableHash`)
theorem C02_source_as_modelled_mark_hash : CelloGen.Table.shapeMarkHash = CelloGen.Table.shapeMarkHashModelled := rfl

/-- **C02 (core).** For every key type with decidable equality, every value type, *every hash function*, every number of
    table variables and every history of `new / set / rem / get / mem / len / iter / riter / resize / assign / copy`
    (`assign(t, t)` included), `new` with initial pairs (`newWith`: repeated keys, odd argument count) and `assign` from a
    map that is not a Table (`assignMap`), under the four source-derived conditions `GoodCfg`:
    the model of src/Table.c never divides by zero and never loops for ever, its observations are those of the
    association-list specification (iteration: a permutation of the bindings), and afterwards every table satisfies the
    representation invariant `Rep` (stored home = hash % nslots, distinct keys, probe-distance order, `nitems` = occupied
    slots = number of bindings, an empty slot, same bindings as the specification).  Because the statement holds for every
    history it holds after every prefix: the invariant holds at every step.
    (`Op.set / rem / mem / get` carry values: their argument objects lie outside the slot arrays.  Argument objects that are the
    table's own stored key / value objects: `C02_refines_map_own_objects` below.) -/
theorem C02_refines_map (cfg : Cfg) (g : GoodCfg cfg) (hash : κ → Nat) (N : Nat) (ops : List (Op κ ν)) :
    ∃ ts' os, run cfg hash (fresh cfg κ ν N) ops = .ok (ts', os) ∧
      List.Forall₂ ObsRel os (specRun (List.replicate N []) ops).2 ∧
      StRel hash ts' (specRun (List.replicate N []) ops).1 := by
  obtain ⟨ts', os, h1, h2, h3⟩ := run_refines cfg g hash ops (fresh cfg κ ν N) (List.replicate N [])
    (strel_replicate cfg g hash N)
  exact ⟨ts', os, h1, h3, h2⟩

/-- **C02 for the code as it is in /repo now.** -/
theorem C02_current_source (hash : κ → Nat) (N : Nat) (ops : List (Op κ ν)) :
    ∃ ts' os, run cfgNow hash (fresh cfgNow κ ν N) ops = .ok (ts', os) ∧
      List.Forall₂ ObsRel os (specRun (List.replicate N []) ops).2 ∧
      StRel hash ts' (specRun (List.replicate N []) ops).1 :=
  C02_refines_map cfgNow C02_current_source_good hash N ops

/-- **The invariant holds at every step** of every history (every prefix of the op list). -/
theorem C02_invariant_every_step (hash : κ → Nat) (N : Nat) (ops : List (Op κ ν)) (i : Nat) : ∃ ts' os, run cfgNow hash (fresh cfgNow κ ν N) (ops.take i) = .ok (ts', os) ∧
      StRel hash ts' (specRun (List.replicate N []) (ops.take i)).1 := by
  obtain ⟨ts', os, h1, _, h3⟩ := C02_current_source hash N (ops.take i)
  exact ⟨ts', os, h1, h3⟩

/-- **The outcome never depends on the hash function** (collisions, wrap-around, rehashing): two runs of the same history
    under two arbitrary hash functions both succeed and give observations related to the same specification observations
    (equal, except that iteration may enumerate the same bindings in another order). -/
theorem C02_hash_independent (h1 h2 : κ → Nat) (N : Nat) (ops : List (Op κ ν)) :
    ∃ ts1 os1 ts2 os2, run cfgNow h1 (fresh cfgNow κ ν N) ops = .ok (ts1, os1) ∧
      run cfgNow h2 (fresh cfgNow κ ν N) ops = .ok (ts2, os2) ∧
      List.Forall₂ ObsRel os1 (specRun (List.replicate N []) ops).2 ∧
      List.Forall₂ ObsRel os2 (specRun (List.replicate N []) ops).2 := by
  obtain ⟨ts1, os1, a1, a2, _⟩ := C02_current_source h1 N ops
  obtain ⟨ts2, os2, b1, b2, _⟩ := C02_current_source h2 N ops
  exact ⟨ts1, os1, ts2, os2, a1, b1, a2, b2⟩

/-- **"The bindings of the last set of each key not since removed"** — for EVERY history (no restriction on the operations):
    after any history of `new/set/rem/get/mem/len/iter/riter/resize/assign/copy`, `new` with pairs and `assign` from another
    kind of map on fresh tables, under any hash function, `get t k` answers what `lastBinding` computes from the operation
    list alone — the value of the last `set t k _` that no `rem t k`, `resize(t, 0)` or `new t` followed; through
    `assign(t, s)` / `t = copy(s)` the pending binding of `s` at that moment (and nothing of what `t` held before); after
    `new(Table, K, V, k1, v1, …)` / `assign(t, other map)` the value of the last pair naming `k` — and raises `KeyError` if
    there is none, whatever was inserted, displaced, shifted or rehashed in between. -/
theorem C02_last_set_wins (hash : κ → Nat) (N : Nat) (ops : List (Op κ ν)) (t : Nat) (ht : t < N) (k : κ) :
    ∃ ts' os, ∃ ht' : t < ts'.length, run cfgNow hash (fresh cfgNow κ ν N) ops = .ok (ts', os) ∧
      get hash ts'[t] k = .ok (match lastBinding N ops t k with | none => .raised .KeyError | some v => .val v) := by
  obtain ⟨ts', os, h1, _, R⟩ := C02_current_source hash N ops
  have hw := spec_last_binding N ops (List.replicate N ([] : Spec κ ν)) (fun _ _ => none) (by simp)
    (by intro t k ht; simp [ht, Spec.get]) t k ht
  have hlen : (specRun (List.replicate N ([] : Spec κ ν)) ops).1.length = ts'.length := R.1.symm
  cases hA : (specRun (List.replicate N ([] : Spec κ ν)) ops).1[t]? with
  | none => rw [hA] at hw; cases hw
  | some m =>
    rw [hA] at hw
    obtain ⟨ht2, hm⟩ := List.getElem?_eq_some_iff.mp hA
    have ht' : t < ts'.length := by rw [← hlen]; exact ht2
    have r := R.2 t ht' ht2
    rw [hm] at r
    refine ⟨ts', os, ht', h1, ?_⟩
    rw [get_rep hash ts'[t] m r k]
    simp only [Option.map_some, Option.some.injEq] at hw
    rw [hw]; rfl

/-- (the history of the example below) -/
def exHistory : List (Op Nat Nat) :=
  [.set 0 9 1, .newWith 1 [(4, 1), (3, 2), (4, 3)] false, .assign 0 1, .set 0 4 8, .rem 0 3, .copy 2 0, .assignMap 1 [(7, 7)], .set 2 3 5]

/-- a history through `assign`, `copy`, a constructor with pairs and an assignment from another map: table 1 is built from
    pairs (key 4 named twice: the later pair wins), assigned to table 0 (whose own binding of 9 is dropped), table 0 then
    updates 4 and removes 3, and is copied into table 2.  `lastBinding` follows all of it, and `get` on the model's final
    tables answers exactly that. -/
example :
    [lastBinding 3 exHistory 0 4, lastBinding 3 exHistory 0 3, lastBinding 3 exHistory 0 9, lastBinding 3 exHistory 2 4,
      lastBinding 3 exHistory 2 3, lastBinding 3 exHistory 1 4, lastBinding 3 exHistory 1 7]
      = [some 8, none, none, some 8, some 5, none, some 7] ∧
    (run cfgNow (fun k => k) (fresh cfgNow Nat Nat 3) exHistory).toOption.map
      (fun r => r.1.map (fun t => [4, 3, 9, 7].map (fun k => (get (fun k => k) t k).toOption.map
        (fun o => match o with | .val v => v | _ => 99))))
      = some [[some 8, some 99, some 99, some 99], [some 99, some 99, some 99, some 7], [some 8, some 5, some 99, some 99]] := by
  refine ⟨by decide, by decide⟩

/-- the single-key reading for histories of `new/set/rem/get/mem/len/iter/riter/resize` only (the statement this file had
    before the general one): there `lastBinding` is `lastWrite`, a fold over the operations that name `t` and `k` -/
theorem C02_last_set_wins_plain (hash : κ → Nat) (N : Nat) (ops : List (Op κ ν)) (hplain : ∀ op ∈ ops, op.isPlain)
    (t : Nat) (ht : t < N) (k : κ) :
    ∃ ts' os, ∃ ht' : t < ts'.length, run cfgNow hash (fresh cfgNow κ ν N) ops = .ok (ts', os) ∧
      get hash ts'[t] k = .ok (match lastWrite t k ops none with | none => .raised .KeyError | some v => .val v) := by
  have := C02_last_set_wins hash N ops t ht k
  rwa [show lastBinding N ops t k = lastWrite t k ops none from foldl_writeAll_plain N t k ops _ hplain] at this

/-- a plain history with a growing resize, a refused resize, `resize(t, 0)` and `new`: the hypothesis of `C02_last_set_wins_plain`
    is met, and the last write is what the theorem says `get` answers (7 for key 9: set after the `resize(t, 0)`; nothing
    for key 4: its `set` came before it) -/
example :
    let ops : List (Op Nat Nat) := [.set 0 4 1, .resize 0 40, .set 0 9 2, .resize 0 1, .resize 0 0, .set 0 9 7, .new 1, .len 0]
    (∀ op ∈ ops, op.isPlain) ∧ lastWrite 0 9 ops none = some 7 ∧ lastWrite 0 4 ops none = none ∧
    (run cfgNow (fun k => k) (fresh cfgNow Nat Nat 2) ops).toOption.map
      (fun r => r.1.map (fun t => ((get (fun k => k) t 9).toOption.map (fun o => match o with | .val v => v | _ => 0),
                                   (get (fun k => k) t 4).toOption.map (fun o => match o with | .raised _ => 99 | _ => 0))))
      = some [(some 7, some 99), (some 0, some 99)] := by
  refine ⟨?_, by decide, by decide, by decide⟩
  intro op h
  simp only [List.mem_cons, List.not_mem_nil, or_false] at h
  rcases h with h | h | h | h | h | h | h | h <;> subst h <;> simp [Op.isPlain]

/-! ### argument objects that live in the table itself -/

/-- **C02 with argument objects of the table's own.**  `Op.set / rem / mem / get` carry VALUES: in `C02_refines_map` their
    argument objects lie outside every slot array.  Here the key argument of `set / rem / mem / get` and the value argument of
    `set` may also be the key object the table itself stores for some key (what `foreach (p in t)` hands out) or the value
    object of one of its records (what `get` returned) — `set(t, p, get(t, k2))`, `rem(t, p)`, `mem(t, p)` while walking,
    `set(t, newkey, get(t, k))` growing the table under its own value object.  For every hash function and every history the
    model of src/Table.c — which reads such an object exactly where the C code does: at the casts, `hash(key)` and the
    `assign` into sspace0 of `Table_Set_Move`, before the first write; while probing in `Table_Rem` / `Table_Mem`; at the
    address test of `Table_Get` — never fails, observes what the map observes for the values those objects hold
    (`Ref.specKey` / `Ref.specVal`: the stored key object of a bound `k` holds `k`, the value object holds what the map binds
    to `k`; an object read as the other type goes through the cast: `ValueError`, nothing changed; no object exists for an
    unbound key), and keeps the invariant.  Needs the checked address test of `Table_Get` (fix bc940bb) besides `GoodCfg`. -/
theorem C02_refines_map_own_objects (cfg : Cfg) (g : GoodCfg cfg) (hc : cfg.getChecksKey = true) (hash : κ → Nat)
    (asKey : ν → Option κ) (asVal : κ → Option ν) (N : Nat) (ops : List (AOp κ ν)) :
    ∃ ts' os, runA cfg hash asKey asVal (fresh cfg κ ν N) ops = .ok (ts', os) ∧
      List.Forall₂ ObsRel os (specRunA asKey asVal (List.replicate N []) ops).2 ∧
      StRel hash ts' (specRunA asKey asVal (List.replicate N []) ops).1 := by
  obtain ⟨ts', os, h1, h2, h3⟩ := runA_refines cfg g hc hash asKey asVal ops (fresh cfg κ ν N) (List.replicate N [])
    (strel_replicate cfg g hash N)
  exact ⟨ts', os, h1, h3, h2⟩

/-- … for the code as it is in /repo now -/
theorem C02_own_objects_current_source (hash : κ → Nat) (asKey : ν → Option κ) (asVal : κ → Option ν) (N : Nat)
    (ops : List (AOp κ ν)) :
    ∃ ts' os, runA cfgNow hash asKey asVal (fresh cfgNow κ ν N) ops = .ok (ts', os) ∧
      List.Forall₂ ObsRel os (specRunA asKey asVal (List.replicate N []) ops).2 ∧
      StRel hash ts' (specRunA asKey asVal (List.replicate N []) ops).1 :=
  C02_refines_map_own_objects cfgNow C02_current_source_good C02_current_source_checks_key hash asKey asVal N ops

/-- … and it says the same as `C02_refines_map` about histories whose argument objects are all outside the tables -/
theorem C02_own_objects_extends_plain (hash : κ → Nat) (asKey : ν → Option κ) (asVal : κ → Option ν) (N : Nat)
    (ops : List (Op κ ν)) :
    runA cfgNow hash asKey asVal (fresh cfgNow κ ν N) (ops.map .plain) = run cfgNow hash (fresh cfgNow κ ν N) ops :=
  runA_plain cfgNow hash asKey asVal ops _

/-- (the history of the example below) -/
def exOwnObjects : List (AOp Nat Nat) :=
  [.plain (.set 0 4 1), .plain (.set 0 9 2), .plain (.set 0 14 3), .plain (.set 0 1 6),
   .setA 0 (.keyOf 9) (.valOf 4), .plain (.get 0 9), .setA 0 (.valOf 14) (.valOf 9), .plain (.get 0 3), .plain (.len 0),
   .remA 0 (.keyOf 4), .memA 0 (.keyOf 4), .memA 0 (.valOf 3), .getA 0 (.valOf 3), .setA 0 (.keyOf 77) (.obj 0)]
def exObsNat (o : Obs Nat Nat) : Nat :=
  match o with
  | .val v => v | .nat n => n | .bool b => if b then 1 else 0 | .raised _ => 99 | .badOp => 77 | _ => 0

/-- Int → Int, keys 4, 9, 14 in one cluster that wraps the array end (5 slots), and key 1: `set(t, p9, v4)` with the stored
    key object of 9 and the value object of 4 (replace in place: the record the key object lies in is destructed and
    rewritten; 9 ↦ 1); `set(t, v14, v9)` with the VALUE object of 14 (it says 3) read as a key — a new key, the fifth: the
    table grows to 11 slots under both argument objects (3 ↦ 1); `rem` with the stored key object of 4 (back shift, shrink to
    5 slots); `mem` with it afterwards (no such object any more: nothing is called); `mem` / `get` through the value object
    of 3 (it says 1, bound to 6); `set` with the key object of an unbound key.  Model and map agree on every observation. -/
example :
    (runA cfgNow hid some some (fresh cfgNow Nat Nat 1) exOwnObjects).toOption.map
        (fun r => (r.2.map exObsNat, r.1.map (fun t => (t.n, t.nitems))))
      = some ([0, 0, 0, 0, 0, 1, 0, 1, 5, 0, 77, 1, 6, 77], [(5, 4)]) ∧
    (runA cfgNow hid some some (fresh cfgNow Nat Nat 1) (exOwnObjects.take 7)).toOption.map (fun r => r.1.map (fun t => (t.n, t.nitems)))
      = some [(11, 5)] ∧
    (specRunA some some (List.replicate 1 ([] : Spec Nat Nat)) exOwnObjects).2.map exObsNat
      = [0, 0, 0, 0, 0, 1, 0, 1, 5, 0, 77, 1, 6, 77] := by
  decide

/-! ### what the collector is told (`Table_Mark`) and what `hash(t)` answers (`Table_Hash`)

    Extension round: the two functions of the class that read the whole slot array for another subsystem are in the model
    (Cello/TableMark.lean) and in the histories (`XOp.mark`, `XOp.hash` around the operations above). -/

/-- **C02 with `mark` and `hash` in the history.**  For every hash function (slot placement), every pair of element hash
    functions `hk` / `hv` (what `hash` answers for a key / value object), every history of the operations of
    `C02_refines_map_own_objects` interleaved with `Table_Mark(t, gc, f)` and `hash(t)`: the model never fails, keeps the
    invariant, and observes
      * for `mark`: calls of `f` that come in (key object, value object of the same record) pairs which — read as bindings —
        are a permutation of the map's bindings, two calls per binding: every object the table binds is reported to the
        collector exactly once and nothing else is (no empty record, no record twice);
      * for `hash`: `Spec.hash hk hv m`, the xor-fold over the bindings of the map — a function of the map alone
        (`C02_hash_depends_on_bindings_only`). -/
theorem C02_refines_map_mark_hash (cfg : Cfg) (g : GoodCfg cfg) (hc : cfg.getChecksKey = true) (hash : κ → Nat)
    (asKey : ν → Option κ) (asVal : κ → Option ν) (hk : κ → Nat) (hv : ν → Nat) (N : Nat) (ops : List (XOp κ ν)) :
    ∃ ts' os, runX cfg hash asKey asVal hk hv (fresh cfg κ ν N) ops = .ok (ts', os) ∧
      List.Forall₂ XObsRel os (specRunX asKey asVal hk hv (List.replicate N []) ops).2 ∧
      StRel hash ts' (specRunX asKey asVal hk hv (List.replicate N []) ops).1 := by
  obtain ⟨ts', os, h1, h2, h3⟩ := runX_refines cfg g hc hash asKey asVal hk hv ops (fresh cfg κ ν N) (List.replicate N [])
    (strel_replicate cfg g hash N)
  exact ⟨ts', os, h1, h3, h2⟩

/-- … for the code as it is in /repo now -/
theorem C02_mark_hash_current_source (hash : κ → Nat) (asKey : ν → Option κ) (asVal : κ → Option ν) (hk : κ → Nat)
    (hv : ν → Nat) (N : Nat) (ops : List (XOp κ ν)) :
    ∃ ts' os, runX cfgNow hash asKey asVal hk hv (fresh cfgNow κ ν N) ops = .ok (ts', os) ∧
      List.Forall₂ XObsRel os (specRunX asKey asVal hk hv (List.replicate N []) ops).2 ∧
      StRel hash ts' (specRunX asKey asVal hk hv (List.replicate N []) ops).1 :=
  C02_refines_map_mark_hash cfgNow C02_current_source_good C02_current_source_checks_key hash asKey asVal hk hv N ops

/-- … and it says the same as `C02_refines_map_own_objects` about histories without `mark` / `hash` -/
theorem C02_mark_hash_extends_own_objects (hash : κ → Nat) (asKey : ν → Option κ) (asVal : κ → Option ν) (hk : κ → Nat)
    (hv : ν → Nat) (N : Nat) (ops : List (AOp κ ν)) :
    runX cfgNow hash asKey asVal hk hv (fresh cfgNow κ ν N) (ops.map .base)
      = (runA cfgNow hash asKey asVal (fresh cfgNow κ ν N) ops).map (fun r => (r.1, r.2.map .base)) :=
  runX_base cfgNow hash asKey asVal hk hv ops _

/-- **`Table_Mark` on any table in the invariant** (every table of every reachable state): the calls of the callback are
    (key object, value object) pairs of the records iteration yields — each bound key once —, two calls per item, and every
    reported address is the key or the value object of an OCCUPIED record `< nslots`: the collector is never handed the
    zeroed memory of an empty record (it would read a header there) nor anything twice. -/
theorem C02_mark_reports_bindings (hash : κ → Nat) (t : Tab κ ν) (m : Spec κ ν) (r : Rep hash t m) :
    (∃ ps, pairsOf (mark t) = some ps ∧ ps.Perm m ∧ (ps.map Prod.fst).Nodup) ∧ (mark t).length = 2 * t.nitems ∧
      ∀ x ∈ mark t, ∃ (h : x.slot < t.n) (e : Entry κ ν), t.slots[x.slot] = some e ∧ (x = .key x.slot e.key ∨ x = .val x.slot e.val) := by
  obtain ⟨h1, h2, h3⟩ := mark_spec hash t r.toWF
  exact ⟨⟨foreach t, h1, foreach_perm hash t m r.toRep0, foreach_keys_nodup hash t r.toWF⟩, h2, h3⟩

/-- **`hash(t)` depends on the bindings only** — not on the hash function that placed the records, not on collisions, growth,
    shrinking or the order of the operations: after two arbitrary histories under two arbitrary placement hashes, two table
    variables whose maps hold the same bindings (in any order) hash equally. -/
theorem C02_hash_depends_on_bindings_only (h1 h2 : κ → Nat) (hk : κ → Nat) (hv : ν → Nat) (N : Nat) (ops1 ops2 : List (Op κ ν))
    (t1 t2 : Nat) :
    ∃ ts1 os1 ts2 os2, run cfgNow h1 (fresh cfgNow κ ν N) ops1 = .ok (ts1, os1) ∧ run cfgNow h2 (fresh cfgNow κ ν N) ops2 = .ok (ts2, os2) ∧
      ∀ (a1 : t1 < ts1.length) (a2 : t2 < ts2.length) (b1 : t1 < (specRun (List.replicate N ([] : Spec κ ν)) ops1).1.length)
        (b2 : t2 < (specRun (List.replicate N ([] : Spec κ ν)) ops2).1.length),
        ((specRun (List.replicate N ([] : Spec κ ν)) ops1).1[t1]).Perm ((specRun (List.replicate N ([] : Spec κ ν)) ops2).1[t2]) →
        tableHash hk hv ts1[t1] = tableHash hk hv ts2[t2] := by
  obtain ⟨ts1, os1, e1, _, R1⟩ := C02_current_source h1 N ops1
  obtain ⟨ts2, os2, e2, _, R2⟩ := C02_current_source h2 N ops2
  refine ⟨ts1, os1, ts2, os2, e1, e2, ?_⟩
  intro a1 a2 b1 b2 p
  rw [tableHash_rep h1 hk hv _ _ (R1.2 t1 a1 b1).toRep0, tableHash_rep h2 hk hv _ _ (R2.2 t2 a2 b2).toRep0]
  exact specHash_perm hk hv p

/-- (the history of the example below) -/
def exMarkHash : List (XOp Nat Nat) :=
  [.base (.plain (.set 0 0 1)), .base (.plain (.set 0 5 2)), .base (.plain (.set 0 10 3)), .base (.plain (.set 0 4 9)),
   .base (.plain (.set 1 10 8)), .base (.plain (.set 1 4 9)), .base (.plain (.set 1 5 2)), .base (.plain (.set 1 0 1)),
   .base (.plain (.set 1 10 3)), .base (.plain (.len 1)), .hash 0, .hash 1, .mark 0, .mark 1, .base (.plain (.resize 1 0)), .mark 1, .hash 1, .mark 7]
def exXObsNat (o : XObs Nat Nat) : List Nat :=
  match o with
  | .hashed h => [h]
  | .marked l => l.map (fun x => match x with | .key i k => 100 * i + k | .val i v => 1000 + 100 * i + v)
  | .base _ => [77]

/-- Int → Int, keys 0, 5, 10 (one cluster at 5 slots) and 4 bound in two different orders in two table variables, table 1
    updating one binding in between: the slot arrays differ, iteration order differs, `hash` agrees;
    `mark` reports each table's records in its own slot order, key object then value object; a table emptied by
    `resize(t, 0)` (no slots) reports nothing and hashes to 0; a table variable that does not exist: `badOp`. -/
example :
    ((runX cfgNow hid some some hid hid (fresh cfgNow Nat Nat 2) exMarkHash).toOption.map
        (fun r => (r.1.map slotList', (r.2.drop 10).map exXObsNat))
      == some ([[(0, 0, 0, 1), (1, 0, 5, 2), (2, 0, 10, 3), (4, 4, 4, 9)], []],
              [[2], [2], [0, 1001, 105, 1102, 210, 1203, 404, 1409],
               [10, 1003, 105, 1102, 200, 1201, 404, 1409], [77], [], [0], [77]])) = true := by
  decide

/-! ### corollaries -/

/-- **`len` is the number of bindings**, after every history, for every table variable -/
theorem C02_len_eq_size (hash : κ → Nat) (N : Nat) (ops : List (Op κ ν)) :
    ∃ ts' os, run cfgNow hash (fresh cfgNow κ ν N) ops = .ok (ts', os) ∧
      ts'.length = (specRun (List.replicate N ([] : Spec κ ν)) ops).1.length ∧
      ∀ t (h1 : t < ts'.length) (h2 : t < (specRun (List.replicate N ([] : Spec κ ν)) ops).1.length),
        ts'[t].nitems = ((specRun (List.replicate N ([] : Spec κ ν)) ops).1[t]).length := by
  obtain ⟨ts', os, h1, _, R⟩ := C02_current_source hash N ops
  exact ⟨ts', os, h1, R.1, fun t a b => len_rep hash _ _ (R.2 t a b)⟩

/-! … for a table in the invariant `Rep` (every table of every reachable state, by `C02_refines_map`) -/

/-- iteration yields every key exactly once, with its value: no key twice, the same bindings as the map; backward
    iteration is forward iteration reversed -/
theorem C02_iteration_each_key_once (hash : κ → Nat) (t : Tab κ ν) (m : Spec κ ν) (r : Rep hash t m) :
    ((foreach t).map Prod.fst).Nodup ∧ (foreach t).Perm m ∧ (foreach t).length = t.nitems ∧
      foreachRev t = (foreach t).reverse := by
  refine ⟨foreach_keys_nodup hash t r.toWF, foreach_perm hash t m r.toRep0, ?_, foreachRev_eq_reverse hash t r.toWF⟩
  rw [(foreach_perm hash t m r.toRep0).length_eq, r.len]

/-- **`get` and `mem` agree with the map — for EVERY key object**, the source as it is now (`getArg` is the whole of
    `Table_Get`, `hc` is `C02_current_source_checks_key`): an object outside the table (`.obj k`), the key object the table
    stores in record `i` (what iteration hands out), the value object of record `i`, an address inside an empty record.
    `a.denote` is the key value the object has when read as a key (`cast(key, t->ktype)`): `get` answers what the map binds to
    that value, `KeyError` when it binds nothing, and the cast's `ValueError` when the object is not of the key type.
    (Before fix bc940bb this needed the hypothesis `a.outside`: `C02_get_value_pointer_old_refuted`.) -/
theorem C02_get_mem_agree (cfg : Cfg) (hc : cfg.getChecksKey = true) (hash : κ → Nat) (asKey : ν → Option κ) (t : Tab κ ν)
    (m : Spec κ ν) (r : Rep hash t m) (a : KeyArg κ) :
    getArg cfg hash asKey t a = .ok (match a.denote asKey t with
      | none => .badOp
      | some (.error e) => .raised e
      | some (.ok k) => match Spec.get m k with | none => .raised .KeyError | some v => .val v) ∧
    ∀ k, a.denote asKey t = some (.ok k) → mem hash t k = .ok (.bool (Spec.get m k).isSome) :=
  ⟨getArg_rep_checked cfg hc hash asKey t m r a, fun k _ => mem_rep hash t m r k⟩

/-- the same for the code as it is in /repo now -/
theorem C02_get_mem_agree_current_source (hash : κ → Nat) (asKey : ν → Option κ) (t : Tab κ ν) (m : Spec κ ν)
    (r : Rep hash t m) (a : KeyArg κ) :
    getArg cfgNow hash asKey t a = .ok (match a.denote asKey t with
      | none => .badOp
      | some (.error e) => .raised e
      | some (.ok k) => match Spec.get m k with | none => .raised .KeyError | some v => .val v) :=
  (C02_get_mem_agree cfgNow C02_current_source_checks_key hash asKey t m r a).1

/-- every kind of key argument on a reachable table `{4 → 9, 9 → 2}` (Int → Int): a stack object, the stored key object of
    9 (slot 4), the value object of 4 (slot 0 after the wrap; it says 9, bound to 2), the value object of 9 (it says 2: not
    bound), an address inside an empty record, an address outside the array -/
example :
    (run cfgNow (fun k => k) (fresh cfgNow Nat Nat 1) [.set 0 9 2, .set 0 4 9]).toOption.map
        (fun r => r.1.map (fun t => ([KeyArg.obj 9, .inSlot 4 .key, .inSlot 0 .val, .inSlot 4 .val, .inSlot 2 .key, .inSlot 5 .val].map
          (fun a => (getArg cfgNow (fun k => k) some t a).toOption.map
            (fun o => match o with | .val v => v | .raised .KeyError => 100 | .raised .ValueError => 101 | .badOp => 102 | _ => 0)))))
      = some [[some 2, some 2, some 2, some 100, some 101, some 102]] := by decide

/-- **the intended use of the address test**: `get(t, p)` for the key object `p` that the table stores for `k` — what
    `foreach (p in t)` hands out — answers what the map binds to `k` (and `KeyError` when `k` is not bound and there is no
    such object); with the test as it is and with the old test -/
theorem C02_get_iteration_pointer (cfg : Cfg) (hash : κ → Nat) (asKey : ν → Option κ) (t : Tab κ ν) (m : Spec κ ν)
    (r : Rep hash t m) (k : κ) :
    getViaKey cfg hash asKey t k = .ok (match Spec.get m k with | none => .raised .KeyError | some v => .val v) :=
  getViaKey_rep cfg hash asKey t m r k

/-- the full statement for `get`, for a configuration of the model: whatever object is passed as the key — also the value
    object of one of the table's own records, read as a key by `asKey` (`cast(x, t->ktype)`; Int → Int tables: the identity)
    — the answer is what the map binds to the value of that object -/
def C02_get_any_key_object_statement (cfg : Cfg) : Prop :=
  ∀ (κ ν : Type) [DecidableEq κ] (hash : κ → Nat) (asKey : ν → Option κ) (t : Tab κ ν) (m : Spec κ ν), Rep hash t m → ∀ k,
    getViaVal cfg hash asKey t k = .ok (Spec.getOfVal asKey m k)

/-- OLD variant: `Table_Get` as it was before fix bc940bb (any address inside the slot array takes the short cut), whatever
    the translator finds for the other parameters -/
def cfgAnyAddress : Cfg := { cfgNow with getChecksKey := false }
/-- the checked address test, explicitly (what `cfgNow` is as long as the fix is in the source) -/
def cfgKeyChecked : Cfg := { cfgNow with getChecksKey := true }

/-- **`get(t, get(t, k))` for the code as it is in /repo now**: the full statement holds (it was refuted before fix bc940bb) -/
theorem C02_get_any_key_object : C02_get_any_key_object_statement cfgNow := by
  intro κ ν _ hash asKey t m r k
  exact getViaVal_rep_checked cfgNow C02_current_source_checks_key hash asKey t m r k

/-- … and for the explicit checked variant, independent of what the translator reads -/
theorem C02_get_any_key_object_repaired : C02_get_any_key_object_statement cfgKeyChecked := by
  intro κ ν _ hash asKey t m r k
  exact getViaVal_rep_checked cfgKeyChecked rfl hash asKey t m r k

/-- what the OLD test answered to `get(t, get(t, k))`: the value bound to `k` once more — it never looked at what the
    *value* object says when read as a key -/
theorem C02_get_value_pointer_old_answer (cfg : Cfg) (hc : cfg.getChecksKey = false) (hash : κ → Nat) (asKey : ν → Option κ)
    (t : Tab κ ν) (m : Spec κ ν) (r : Rep hash t m) (k : κ) :
    getViaVal cfg hash asKey t k = .ok (match Spec.get m k with | none => .raised .KeyError | some v => .val v) :=
  getViaVal_rep cfg hc hash asKey t m r k

/-- `get` or `rem` of an absent key raises `KeyError` and leaves the table exactly as it was -/
theorem C02_absent_key_KeyError_unchanged (cfg : Cfg) (hash : κ → Nat) (t : Tab κ ν) (m : Spec κ ν)
    (r : Rep hash t m) (k : κ) (habs : Spec.get m k = none) :
    get hash t k = .ok (.raised .KeyError) ∧ rem cfg hash t k = .ok (t, .raised .KeyError) := by
  constructor
  · rw [get_rep hash t m r k, habs]
  · rcases find_rep hash t m r k with ⟨_, h2⟩ | ⟨v, _, _, _, h1, _⟩
    · simp only [rem, h2]
    · rw [habs] at h1; cases h1

/-- an emptied table keeps working — also after `resize(t, 0)`, which leaves `nslots = 0`: a following `set` succeeds and
    the key is then found with its value -/
theorem C02_emptied_keeps_working (cfg : Cfg) (g : GoodCfg cfg) (hash : κ → Nat) (t : Tab κ ν) (r : Rep hash t [])
    (k : κ) (v : ν) :
    ∃ t', set cfg hash t k v = .ok t' ∧ t'.nitems = 1 ∧ get hash t' k = .ok (.val v) ∧ mem hash t' k = .ok (.bool true) := by
  obtain ⟨t', h1, r1⟩ := set_rep cfg g hash t [] r k v
  have hg : Spec.get (Spec.set ([] : Spec κ ν) k v) k = some v := by simp [Spec.get, Spec.set, Spec.rem]
  refine ⟨t', h1, ?_, ?_, ?_⟩
  · rw [len_rep hash t' _ r1]; simp [Spec.set, Spec.rem]
  · rw [get_rep hash t' _ r1 k, hg]
  · rw [mem_rep hash t' _ r1 k, hg]; rfl

/-- `resize(t, 0)` of any table in the invariant gives such an emptied table (with `nslots = 0`) -/
theorem C02_resize_zero_empties (cfg : Cfg) (hash : κ → Nat) (t : Tab κ ν) : ∃ t', resize cfg hash t 0 = .ok (t', .done) ∧ t'.n = 0 ∧ Rep hash t' [] :=
  ⟨clear t, rfl, rfl, rep_empty_zero hash⟩

/-- **`new(Table, K, V, k1, v1, …)` and `assign` from a map that is not a Table** (`fill`: sized once for the number of
    pairs, then one `Table_Set_Move` per pair with no growth in between): never fails, ends in the invariant, and binds
    every key to the value of the *last* pair that names it; for a source with distinct keys the bindings are exactly the
    source's pairs. -/
theorem C02_new_with_pairs (hash : κ → Nat) (kvs : List (κ × ν)) :
    ∃ t', fill cfgNow hash kvs = .ok t' ∧ Rep hash t' (Spec.ofPairs kvs) ∧
      (∀ k, get hash t' k = .ok (match (kvs.reverse.find? (fun p => decide (p.1 = k))).map (·.2) with
                                  | none => .raised .KeyError | some v => .val v)) ∧
      ((kvs.map Prod.fst).Nodup → (foreach t').Perm kvs) := by
  obtain ⟨t', e, r⟩ := fill_rep cfgNow C02_current_source_good hash kvs
  refine ⟨t', e, r, ?_, ?_⟩
  · intro k; rw [get_rep hash t' _ r k, ofPairs_get]; rfl
  · intro hnd
    have := foreach_perm hash t' _ r.toRep0
    rw [ofPairs_of_nodup kvs hnd] at this
    exact this.trans (List.reverse_perm kvs)

/-- constructor arguments that repeat a key and collide (0, 5, 10 modulo 5) in an array sized for three pairs -/
example : (((fill cfgNow (fun k => k) [(0, 1), (5, 2), (0, 3), (10, 4)]).toOption.map (fun t => (t.n, t.nitems, slotList' t)))
    == some (5, 3, [(0, 0, 0, 3), (1, 0, 5, 2), (2, 0, 10, 4)])) = true := by decide

/-! ### the key classes the property names -/

/-- **Int keys.**  `eq(a, b)` of src/Cmp.c over `Int_Cmp` of src/Num.c (both translated from the source on every run) is
    equality of the 64-bit value, equal keys hash equally, and the model run *with that `eq` as its key test* and with
    `Int_Hash` as its hash refines the map, for every history. -/
theorem C02_int_keys (N : Nat) (ops : List (Op (BitVec 64) ν)) :
    (∀ a b : BitVec 64, CelloGen.Cmp.eq Cello.Cmp.intCmp a b = true ↔ a = b) ∧
    (∀ a b : BitVec 64, CelloGen.Cmp.eq Cello.Cmp.intCmp a b = true → intKeyHash a = intKeyHash b) ∧
    ∃ ts' os, @run _ ν intKeyEq cfgNow intKeyHash (fresh cfgNow _ ν N) ops = .ok (ts', os) ∧
      List.Forall₂ (@ObsRel _ ν) os (@specRun _ ν intKeyEq (List.replicate N []) ops).2 ∧
      StRel intKeyHash ts' (@specRun _ ν intKeyEq (List.replicate N []) ops).1 :=
  ⟨int_eq_iff, int_eq_hash, @C02_current_source _ ν intKeyEq intKeyHash N ops⟩

/-- **String keys.**  The assumption first, proved for the source as it is now: `String_Cmp` — the comparison `eq` runs on two
    String keys — is `strcmp` of the two character buffers (`StringCmpIsStrcmp`: the bodies of `String_Cmp`, `String_C_Str`,
    `c_str` read from src/String.c on every run are the texts `bytesCmp` models; a `String_Cmp` that compares a prefix, folds
    case, masks a bit or looks at anything but the bytes up to the terminator stops this theorem).  Then: `eq` over `strcmp`
    is equality of the byte strings, equal keys hash equally (`String_Hash` = `hash_data` of the bytes, constants from
    src/Hash.c), and the model run with that key test and that hash refines the map, for every history. -/
theorem C02_string_keys (N : Nat) (ops : List (Op (List UInt8) ν)) :
    StringCmpIsStrcmp ∧
    (∀ a b : List UInt8, CelloGen.Cmp.eq Cello.Cmp.bytesCmp a b = true ↔ a = b) ∧
    (∀ a b : List UInt8, CelloGen.Cmp.eq Cello.Cmp.bytesCmp a b = true → stringKeyHash a = stringKeyHash b) ∧
    ∃ ts' os, @run _ ν stringKeyEq cfgNow stringKeyHash (fresh cfgNow _ ν N) ops = .ok (ts', os) ∧
      List.Forall₂ (@ObsRel _ ν) os (@specRun _ ν stringKeyEq (List.replicate N []) ops).2 ∧
      StRel stringKeyHash ts' (@specRun _ ν stringKeyEq (List.replicate N []) ops).1 :=
  ⟨(show _ ∧ _ ∧ _ from ⟨rfl, rfl, rfl⟩), string_eq_iff, string_eq_hash, @C02_current_source _ ν stringKeyEq stringKeyHash N ops⟩

/-- **why the assumption is needed**: the translated `eq` over a comparison that is `memcmp` on the shorter of the two lengths
    (the tie-break on the length forgotten) holds for "item" and "items" — two keys for the map, one key for a table that tests
    keys with it whenever the second meets the first on its probe path; over `strcmp` (`bytesCmp`) it does not.  Near keys of
    this kind (proper prefixes, last byte, case, bit 7) on one probe path are what the correspondence check feeds the real
    Table. -/
theorem C02_weak_string_cmp_is_not_equality :
    CelloGen.Cmp.eq prefixCmp [105, 116, 101, 109] [105, 116, 101, 109, 115] = true ∧
    CelloGen.Cmp.eq Cello.Cmp.bytesCmp [105, 116, 101, 109] [105, 116, 101, 109, 115] = false ∧
    ([105, 116, 101, 109] : List UInt8) ≠ [105, 116, 101, 109, 115] := by decide

/-- the String instance runs: "item" and "items" stay two keys although both land in one cluster (the hash is arbitrary in the
    model; here constant), the longer one is found with its own value, removing the shorter one leaves it -/
example : ((@run _ Nat stringKeyEq cfgNow (fun _ => 7) (fresh cfgNow _ Nat 1)
      [.set 0 [105, 116, 101, 109] 1, .set 0 [105, 116, 101, 109, 115] 2, .len 0, .get 0 [105, 116, 101, 109],
       .rem 0 [105, 116, 101, 109], .mem 0 [105, 116, 101, 109, 115], .get 0 [105, 116, 101, 109, 115]]).toOption.map
        (fun r => r.2.map (fun o => match o with | .nat n => n | .val v => v | .bool b => if b then 1 else 0 | _ => 0)))
      = some [0, 0, 2, 1, 0, 1, 2] := by decide

/-- the instances run: Int keys 2^32 apart that collide modulo 5 stay two keys (a comparison narrower than 64 bits would merge
    them), `get` finds the second -/
example : ((@run _ Nat intKeyEq cfgNow intKeyHash (fresh cfgNow _ Nat 1)
      [.set 0 0 1, .set 0 (BitVec.ofNat 64 (5 * 2^32)) 2, .len 0, .get 0 (BitVec.ofNat 64 (5 * 2^32))]).toOption.map
        (fun r => r.2.map (fun o => match o with | .nat n => n | .val v => v | _ => 0))) = some [0, 0, 2, 2] := by decide

/-- Float keys are not covered: `eq` on doubles is not an equivalence (NaN equals everything) -/
theorem C02_float_keys_excluded :
    Cello.Hash.floatCmp 0x3ff0000000000000 0x7ff8000000000000 = 0 ∧ Cello.Hash.floatCmp 0x7ff8000000000000 0x4000000000000000 = 0 ∧
    Cello.Hash.floatCmp 0x3ff0000000000000 0x4000000000000000 ≠ 0 := float_eq_not_an_equivalence

/-- **F02's fix as a theorem** (`Table.update_hits_existing`): under the invariant, `Table_Set_Move` with the strict test
    `j > p`, given a key already stored at slot `p`, reaches `p` before any displacement and before any empty slot and
    replaces that record in place. -/
theorem C02_update_hits_existing {n : Nat} (hash : κ → Nat) (s : Slots κ ν n) (inv : Inv0 hash s) (hn : 0 < n) (k : κ) (v : ν)
    (p : Nat) (hp : p < n) (e : Entry κ ν) (hpe : s[p] = some e) (hk : e.key = k) :
    setLoop false n s ⟨k, hash k % n, v⟩ (hash k % n) 0 (Nat.mod_lt _ hn)
      = some (s.set p (some ⟨k, hash k % n, v⟩) hp, false) :=
  update_hits_existing hash s inv hn k v p hp e hpe hk

/-- **`Table_Rehash` as a fold**: re-inserting every slot in slot order into a fresh array with more slots than items
    preserves the bindings and establishes the invariant (for either tie rule). -/
theorem C02_rehash_preserves (cfg : Cfg) (hash : κ → Nat) (t : Tab κ ν) (m : Spec κ ν) (r : Rep0 hash t m)
    (newSize : Nat) (hbig : t.nitems < newSize) :
    ∃ t', rehash cfg hash t newSize = .ok t' ∧ t'.n = newSize ∧ Rep hash t' m :=
  rehash_rep cfg hash t m r newSize hbig

/-- **`Table_Probe` is the cyclic distance** the model uses (G11: the function text is regenerated from the source):
    for a slot `i < nslots` and a stored hash `h = home + 1` with `home < nslots`. -/
theorem C02_probe_is_dist (n i home : Nat) (_hi : i < n) (hh : home < n) :
    CelloGen.Table.probe (n : Int) (i : Int) ((home : Int) + 1) = ((dist n i home : Nat) : Int) := by
  unfold CelloGen.Table.probe dist
  simp only []
  split <;> split <;> omega

/-! ### known findings and repaired defects, refuted on the model with the defective parameter -/


/-- **F02 (repaired in /repo).** With the displacement test `j >= p`, updating a key that is not first in its collision
    cluster stores it twice: after `set 0; set 5; set 0` (0 and 5 collide modulo 5, 5 displaces 0 to the second place of the cluster) `len` is 3, the specification says 2. -/
theorem C02_F02_refuted :
    let bad : Cfg := { cfgNow with ge := true }
    let ops : List (Op Nat Nat) := [.set 0 0 10, .set 0 5 50, .set 0 0 11, .len 0]
    (run bad hid (fresh bad Nat Nat 1) ops).toOption.map (fun r => r.2.getLast?.map (fun o => match o with | .nat n => n | _ => 0))
        = some (some 3) ∧
    (specRun (List.replicate 1 []) ops).2.getLast?.map (fun o => match o with | .nat n => n | _ => 0) = some 2 := by
  decide

/-- **F03 (repaired in /repo).** Without the `nslots is 0` guard in `Table_Set`, `set` after `resize(t, 0)` computes
    `hash % 0`. -/
theorem C02_F03_refuted :
    let bad : Cfg := { cfgNow with growEmpty := false }
    (run bad hid (fresh bad Nat Nat 1) [.resize 0 0, .set 0 1 1]).toOption.isNone = true ∧
    (match run bad hid (fresh bad Nat Nat 1) [.resize 0 0, .set 0 1 1] with | .error .ub => true | _ => false) = true := by
  decide

/-- **Self-assignment (repaired in /repo, a3140e4).** Without the `self is obj` guard `assign(t, t)` empties the table:
    `Table_Assign` clears `self` before it reads `obj`.  The old variant of the model departs from the specification on this
    witness; with the guard that is in the source now the same history keeps its binding. -/
theorem C02_self_assign_refuted :
    let old : Cfg := { cfgNow with selfGuard := false }
    let ops : List (Op Nat Nat) := [.set 0 1 1, .assign 0 0, .len 0]
    (run old hid (fresh old Nat Nat 1) ops).toOption.map (fun r => r.2.getLast?.map (fun o => match o with | .nat n => n | _ => 7))
        = some (some 0) ∧
    (specRun (List.replicate 1 []) ops).2.getLast?.map (fun o => match o with | .nat n => n | _ => 7) = some 1 ∧
    (run cfgNow hid (fresh cfgNow Nat Nat 1) ops).toOption.map (fun r => r.2.getLast?.map (fun o => match o with | .nat n => n | _ => 7))
        = some (some 1) := by
  decide

/-- **The address short cut of `Table_Get` (repaired in /repo, bc940bb; was known finding KF-C02-get-alias).**  The OLD
    `Table_Get` answered any address inside its own slot array with the value of that record.  On the reachable table
    `{1 → 2, 2 → 3}` (Int → Int), `v = get(t, 1)` is an Int object with value 2 that lives in the table; `get(t, v)` answered
    2, the map binds 2 to 3.  Hence the full statement fails for the OLD variant `cfgAnyAddress` (and holds for the current
    source: `C02_get_any_key_object`). -/
theorem C02_get_value_pointer_old_refuted : ¬ C02_get_any_key_object_statement cfgAnyAddress := by
  intro h
  obtain ⟨ts', os, h1, _, R⟩ := C02_current_source hid 1 ([.set 0 1 2, .set 0 2 3] : List (Op Nat Nat))
  have hrun : run cfgNow hid (fresh cfgNow Nat Nat 1) ([.set 0 1 2, .set 0 2 3] : List (Op Nat Nat))
      = .ok ([⟨5, #v[none, some ⟨1, 1, 2⟩, some ⟨2, 2, 3⟩, none, none], 2⟩], [.done, .done]) := by rfl
  rw [hrun] at h1
  cases h1
  have r := R.2 0 (by decide) (by decide)
  have := congrArg (fun x => x.toOption.map (fun o => match o with | Obs.val v => v | _ => 0)) (h Nat Nat hid some _ _ r 1)
  revert this
  decide

/-- the same on the model, evaluated: the answer of the OLD code, of the code as it is now, and of the map -/
example :
    (run cfgNow hid (fresh cfgNow Nat Nat 1) [.set 0 1 2, .set 0 2 3]).toOption.map
        (fun r => r.1.map (fun t => ((getViaVal cfgAnyAddress hid some t 1).toOption.map (fun o => match o with | .val v => v | _ => 0),
                                     (getViaVal cfgNow hid some t 1).toOption.map (fun o => match o with | .val v => v | _ => 0))))
      = some [(some 2, some 3)] ∧
    (match Spec.getOfVal some (specRun (List.replicate 1 ([] : Spec Nat Nat)) [.set 0 1 2, .set 0 2 3]).1[0]! 1 with
      | .val w => w | _ => 0) = 3 := by decide

/-- the OLD address test did not look at whether the record is occupied either: an address inside an empty record of a fresh
    table was answered with a pointer to zeroed memory; the current test lets it fall through to the cast, which refuses it -/
theorem C02_get_unoccupied_record_old_refuted :
    (getArg cfgAnyAddress hid some (new cfgNow : Tab Nat Nat) (.inSlot 0 .key)).toOption.map (fun o => match o with | .zeroed => true | _ => false)
      = some true ∧
    (getArg cfgNow hid some (new cfgNow : Tab Nat Nat) (.inSlot 0 .key)).toOption.map (fun o => match o with | .raised .ValueError => true | _ => false)
      = some true := by decide

/-! ### non-vacuity -/

/-- the slot array as `(index, stored home, key, value)` -/
def slotList (t : Tab Nat Nat) : List (Nat × Nat × Nat × Nat) := slotList' t

/-- A reachable state (hence, by `C02_current_source`, one that satisfies `StRel`/`Rep`) with a collision cluster that wraps
    the end of the array, an update of a non-first cluster member and a removal of the cluster's first member (backward
    shift across the array end): keys 4, 9, 14 all have home slot 4 of 5. -/
example :
    ((run cfgNow hid (fresh cfgNow Nat Nat 1) [.set 0 4 1, .set 0 9 2, .set 0 14 3, .set 0 9 7, .rem 0 4]).toOption.map
        (fun r => (r.1.map (fun t => (t.n, t.nitems, slotList t)), r.2.length))
      == some ([(5, 2, [(0, 4, 14, 3), (4, 4, 9, 7)])], 5)) = true := by
  decide

/-- the hypotheses of `C02_refines_map` are met by the source-derived configuration; a history with self-assignment,
    a constructor with pairs and an assignment from another map runs and agrees with the specification -/
example : GoodCfg cfgNow ∧
    ((run cfgNow hid (fresh cfgNow Nat Nat 2)
        [.newWith 0 [(4, 1), (9, 2), (4, 3)] false, .assign 0 0, .len 0, .get 0 4, .assignMap 1 [(1, 1), (6, 6)], .len 1,
         .newWith 1 [] true, .len 1]).toOption.map
      (fun r => r.2.map (fun o => match o with | .nat n => n | .val v => v | .raised _ => 99 | _ => 0)))
      = some [0, 0, 2, 3, 0, 2, 99, 2] := by
  refine ⟨C02_current_source_good, ?_⟩
  decide

end Cello.Table
