/-
  C02 — Table behaves as a finite map whatever the hashing does.

  Property theorems only; the lemmas are in CelloProofs/Lemmas/Table*.lean, RHAbsIns.lean (insert abstraction),
  RHIns.lean / RH.lean / RHErase.lean (shared robin-hood core).
  Model: Cello/Table.lean (`step`, `run`: src/Table.c as it is now; `specStep`, `specRun`: association lists).
  Source-derived facts: CelloGen/Table.lean (`primes`, `loadNum/loadDen`, `tieGe`, `setGrowsEmpty`, `probe`).
-/
import Cello.Table
import CelloGen.Table
import CelloProofs.Lemmas.TableIdeal
import CelloProofs.Lemmas.TableRefine

namespace Cello.Table
open RH

/-- `Table_Ideal_Size`, with the prime table and the load factor read from src/Table.c by the translator -/
def idealNow : Nat → Nat := idealSize CelloGen.Table.primes CelloGen.Table.loadNum CelloGen.Table.loadDen

/-- the model parameters of the source as it is now -/
def cfgNow : Cfg := { ge := CelloGen.Table.tieGe, growEmpty := CelloGen.Table.setGrowsEmpty, ideal := idealNow }

/-- `N` table variables, each `new(Table, K, V)` -/
def fresh (cfg : Cfg) (κ ν : Type) (N : Nat) : List (Tab κ ν) := List.replicate N (new cfg)

variable {κ ν : Type} [DecidableEq κ]

/-- **Growth leaves room**: the slot count chosen for `n` items exceeds `n`, for the prime table and load factor that are in
    src/Table.c now (a load factor ≥ 1 or a zero last prime makes this fail). -/
theorem C02_idealSize_gt (n : Nat) : n < idealNow n :=
  idealSize_gt _ _ _ (by decide) (by decide) (by decide) n

/-- **The source as it is now has the parameters the refinement needs**: strict displacement test `j > p` (F02 fixed),
    `Table_Set` grows an `nslots = 0` table (F03 fixed), `Table_Ideal_Size n > n`.  Stops type-checking when src/Table.c
    changes any of them. -/
theorem C02_current_source_good : GoodCfg cfgNow := ⟨rfl, rfl, C02_idealSize_gt⟩

/-- **C02 (core).** For every key type with decidable equality, every value type, *every hash function*, every number of
    table variables and every history of `new / set / rem / get / mem / len / iter / riter / resize / assign / copy`
    (without `assign(t, t)`), under the three source-derived conditions `GoodCfg`:
    the model of src/Table.c never divides by zero and never loops for ever, its observations are those of the
    association-list specification (iteration: a permutation of the bindings), and afterwards every table satisfies the
    representation invariant `Rep` (stored home = hash % nslots, distinct keys, probe-distance order, `nitems` = occupied
    slots = number of bindings, an empty slot, same bindings as the specification).  Because the statement holds for every
    history it holds after every prefix: the invariant holds at every step. -/
theorem C02_refines_map (cfg : Cfg) (g : GoodCfg cfg) (hash : κ → Nat) (N : Nat) (ops : List (Op κ ν))
    (hops : ∀ op ∈ ops, op.noSelfAssign) :
    ∃ ts' os, run cfg hash (fresh cfg κ ν N) ops = .ok (ts', os) ∧
      List.Forall₂ ObsRel os (specRun (List.replicate N []) ops).2 ∧
      StRel hash ts' (specRun (List.replicate N []) ops).1 := by
  obtain ⟨ts', os, h1, h2, h3⟩ := run_refines cfg g hash ops (fresh cfg κ ν N) (List.replicate N [])
    (strel_replicate cfg g hash N) hops
  exact ⟨ts', os, h1, h3, h2⟩

/-- **C02 for the code as it is in /repo now.** -/
theorem C02_current_source (hash : κ → Nat) (N : Nat) (ops : List (Op κ ν)) (hops : ∀ op ∈ ops, op.noSelfAssign) :
    ∃ ts' os, run cfgNow hash (fresh cfgNow κ ν N) ops = .ok (ts', os) ∧
      List.Forall₂ ObsRel os (specRun (List.replicate N []) ops).2 ∧
      StRel hash ts' (specRun (List.replicate N []) ops).1 :=
  C02_refines_map cfgNow C02_current_source_good hash N ops hops

/-- **The invariant holds at every step** of every history (every prefix of the op list). -/
theorem C02_invariant_every_step (hash : κ → Nat) (N : Nat) (ops : List (Op κ ν)) (hops : ∀ op ∈ ops, op.noSelfAssign)
    (i : Nat) : ∃ ts' os, run cfgNow hash (fresh cfgNow κ ν N) (ops.take i) = .ok (ts', os) ∧
      StRel hash ts' (specRun (List.replicate N []) (ops.take i)).1 := by
  obtain ⟨ts', os, h1, _, h3⟩ := C02_current_source hash N (ops.take i) (fun op h => hops op (List.mem_of_mem_take h))
  exact ⟨ts', os, h1, h3⟩

/-- **The outcome never depends on the hash function** (collisions, wrap-around, rehashing): two runs of the same history
    under two arbitrary hash functions both succeed and give observations related to the same specification observations
    (equal, except that iteration may enumerate the same bindings in another order). -/
theorem C02_hash_independent (h1 h2 : κ → Nat) (N : Nat) (ops : List (Op κ ν)) (hops : ∀ op ∈ ops, op.noSelfAssign) :
    ∃ ts1 os1 ts2 os2, run cfgNow h1 (fresh cfgNow κ ν N) ops = .ok (ts1, os1) ∧
      run cfgNow h2 (fresh cfgNow κ ν N) ops = .ok (ts2, os2) ∧
      List.Forall₂ ObsRel os1 (specRun (List.replicate N []) ops).2 ∧
      List.Forall₂ ObsRel os2 (specRun (List.replicate N []) ops).2 := by
  obtain ⟨ts1, os1, a1, a2, _⟩ := C02_current_source h1 N ops hops
  obtain ⟨ts2, os2, b1, b2, _⟩ := C02_current_source h2 N ops hops
  exact ⟨ts1, os1, ts2, os2, a1, b1, a2, b2⟩

/-- **"The bindings of the last set of each key not since removed"**: after a history of `set/rem/get/mem/len/iter` on fresh
    tables, under any hash function, `get t k` answers the value of the last `set t k _` that no `rem t k` followed, and
    raises `KeyError` if there is none — whatever was inserted, displaced, shifted or rehashed in between. -/
theorem C02_last_set_wins (hash : κ → Nat) (N : Nat) (ops : List (Op κ ν)) (hplain : ∀ op ∈ ops, op.isPlain)
    (t : Nat) (ht : t < N) (k : κ) :
    ∃ ts' os, ∃ ht' : t < ts'.length, run cfgNow hash (fresh cfgNow κ ν N) ops = .ok (ts', os) ∧
      get hash ts'[t] k = .ok (match lastWrite t k ops none with | none => .raised .KeyError | some v => .val v) := by
  have hns : ∀ op ∈ ops, op.noSelfAssign := by
    intro op h
    have := hplain op h
    cases op <;> simp [Op.isPlain, Op.noSelfAssign] at this ⊢
  obtain ⟨ts', os, h1, _, R⟩ := C02_current_source hash N ops hns
  have hw := spec_last_write t k ops (List.replicate N ([] : Spec κ ν)) hplain
  have hlen : (specRun (List.replicate N ([] : Spec κ ν)) ops).1.length = ts'.length := R.1.symm
  have hr0 : (List.replicate N ([] : Spec κ ν))[t]? = some [] := by simp [ht]
  rw [hr0] at hw
  cases hA : (specRun (List.replicate N ([] : Spec κ ν)) ops).1[t]? with
  | none => rw [hA] at hw; cases hw
  | some m =>
    rw [hA] at hw
    obtain ⟨ht2, hm⟩ := List.getElem?_eq_some_iff.mp hA
    have ht' : t < ts'.length := by rw [← hlen]; exact ht2
    have r := R.2 t ht' ht2
    rw [hm] at r
    refine ⟨ts', os, ht', h1, ?_⟩
    rw [get_rep hash ts'[t] m r k]
    simp only [Option.map_some, Option.some.injEq] at hw
    rw [hw]; rfl

/-! ### corollaries for a table in the invariant (every table of every reachable state, by `C02_refines_map`) -/

/-- `len` is the number of bindings -/
theorem C02_len_eq_size (hash : κ → Nat) (t : Tab κ ν) (m : Spec κ ν) (r : Rep hash t m) : t.nitems = m.length :=
  len_rep hash t m r

/-- iteration yields every key exactly once, with its value: no key twice, the same bindings as the map; backward
    iteration is forward iteration reversed -/
theorem C02_iteration_each_key_once (hash : κ → Nat) (t : Tab κ ν) (m : Spec κ ν) (r : Rep hash t m) :
    ((foreach t).map Prod.fst).Nodup ∧ (foreach t).Perm m ∧ (foreach t).length = t.nitems ∧
      foreachRev t = (foreach t).reverse := by
  refine ⟨foreach_keys_nodup hash t r.toWF, foreach_perm hash t m r.toRep0, ?_, foreachRev_eq_reverse hash t r.toWF⟩
  rw [(foreach_perm hash t m r.toRep0).length_eq, r.len]

/-- `get` and `mem` agree with the map -/
theorem C02_get_mem_agree (hash : κ → Nat) (t : Tab κ ν) (m : Spec κ ν) (r : Rep hash t m) (k : κ) :
    get hash t k = .ok (match Spec.get m k with | none => .raised .KeyError | some v => .val v) ∧
    mem hash t k = .ok (.bool (Spec.get m k).isSome) :=
  ⟨get_rep hash t m r k, mem_rep hash t m r k⟩

/-- `get` or `rem` of an absent key raises `KeyError` and leaves the table exactly as it was -/
theorem C02_absent_key_KeyError_unchanged (cfg : Cfg) (hash : κ → Nat) (t : Tab κ ν) (m : Spec κ ν)
    (r : Rep hash t m) (k : κ) (habs : Spec.get m k = none) :
    get hash t k = .ok (.raised .KeyError) ∧ rem cfg hash t k = .ok (t, .raised .KeyError) := by
  constructor
  · rw [get_rep hash t m r k, habs]
  · rcases find_rep hash t m r k with ⟨_, h2⟩ | ⟨v, _, _, _, h1, _⟩
    · simp only [rem, h2]
    · rw [habs] at h1; cases h1

/-- an emptied table keeps working — also after `resize(t, 0)`, which leaves `nslots = 0`: a following `set` succeeds and
    the key is then found with its value -/
theorem C02_emptied_keeps_working (cfg : Cfg) (g : GoodCfg cfg) (hash : κ → Nat) (t : Tab κ ν) (r : Rep hash t [])
    (k : κ) (v : ν) :
    ∃ t', set cfg hash t k v = .ok t' ∧ t'.nitems = 1 ∧ get hash t' k = .ok (.val v) ∧ mem hash t' k = .ok (.bool true) := by
  obtain ⟨t', h1, r1⟩ := set_rep cfg g hash t [] r k v
  have hg : Spec.get (Spec.set ([] : Spec κ ν) k v) k = some v := by simp [Spec.get, Spec.set, Spec.rem]
  refine ⟨t', h1, ?_, ?_, ?_⟩
  · rw [len_rep hash t' _ r1]; simp [Spec.set, Spec.rem]
  · rw [get_rep hash t' _ r1 k, hg]
  · rw [mem_rep hash t' _ r1 k, hg]; rfl

/-- `resize(t, 0)` of any table in the invariant gives such an emptied table (with `nslots = 0`) -/
theorem C02_resize_zero_empties (cfg : Cfg) (hash : κ → Nat) (t : Tab κ ν) : ∃ t', resize cfg hash t 0 = .ok (t', .done) ∧ t'.n = 0 ∧ Rep hash t' [] :=
  ⟨clear t, rfl, rfl, rep_empty_zero hash⟩

/-- **F02's fix as a theorem** (`Table.update_hits_existing`): under the invariant, `Table_Set_Move` with the strict test
    `j > p`, given a key already stored at slot `p`, reaches `p` before any displacement and before any empty slot and
    replaces that record in place. -/
theorem C02_update_hits_existing {n : Nat} (hash : κ → Nat) (s : Slots κ ν n) (inv : Inv0 hash s) (hn : 0 < n) (k : κ) (v : ν)
    (p : Nat) (hp : p < n) (e : Entry κ ν) (hpe : s[p] = some e) (hk : e.key = k) :
    setLoop false n s ⟨k, hash k % n, v⟩ (hash k % n) 0 (Nat.mod_lt _ hn)
      = some (s.set p (some ⟨k, hash k % n, v⟩) hp, false) :=
  update_hits_existing hash s inv hn k v p hp e hpe hk

/-- **`Table_Rehash` as a fold**: re-inserting every slot in slot order into a fresh array with more slots than items
    preserves the bindings and establishes the invariant (for either tie rule). -/
theorem C02_rehash_preserves (cfg : Cfg) (hash : κ → Nat) (t : Tab κ ν) (m : Spec κ ν) (r : Rep0 hash t m)
    (newSize : Nat) (hbig : t.nitems < newSize) :
    ∃ t', rehash cfg hash t newSize = .ok t' ∧ t'.n = newSize ∧ Rep hash t' m :=
  rehash_rep cfg hash t m r newSize hbig

/-- **`Table_Probe` is the cyclic distance** the model uses (G11: the function text is regenerated from the source):
    for a slot `i < nslots` and a stored hash `h = home + 1` with `home < nslots`. -/
theorem C02_probe_is_dist (n i home : Nat) (_hi : i < n) (hh : home < n) :
    CelloGen.Table.probe (n : Int) (i : Int) ((home : Int) + 1) = ((dist n i home : Nat) : Int) := by
  unfold CelloGen.Table.probe dist
  simp only []
  split <;> split <;> omega

/-! ### known findings and repaired defects, refuted on the model with the defective parameter -/

/-- Int keys: `hash = (uint64_t) value` -/
def hid (k : Nat) : Nat := k

/-- **F02 (repaired in /repo).** With the displacement test `j >= p`, updating a key that is not first in its collision
    cluster stores it twice: after `set 0; set 5; set 0` (0 and 5 collide modulo 5, 5 displaces 0 to the second place of the cluster) `len` is 3, the specification says 2. -/
theorem C02_F02_refuted :
    let bad : Cfg := { cfgNow with ge := true }
    let ops : List (Op Nat Nat) := [.set 0 0 10, .set 0 5 50, .set 0 0 11, .len 0]
    (run bad hid (fresh bad Nat Nat 1) ops).toOption.map (fun r => r.2.getLast?.map (fun o => match o with | .nat n => n | _ => 0))
        = some (some 3) ∧
    (specRun (List.replicate 1 []) ops).2.getLast?.map (fun o => match o with | .nat n => n | _ => 0) = some 2 := by
  decide

/-- **F03 (repaired in /repo).** Without the `nslots is 0` guard in `Table_Set`, `set` after `resize(t, 0)` computes
    `hash % 0`. -/
theorem C02_F03_refuted :
    let bad : Cfg := { cfgNow with growEmpty := false }
    (run bad hid (fresh bad Nat Nat 1) [.resize 0 0, .set 0 1 1]).toOption.isNone = true ∧
    (match run bad hid (fresh bad Nat Nat 1) [.resize 0 0, .set 0 1 1] with | .error .ub => true | _ => false) = true := by
  decide

/-- **Known finding KF-C02-self-assign (not repaired).** `assign(t, t)` empties the table: `Table_Assign` clears `self`
    before it reads `obj`.  The model (which mirrors the code) departs from the specification on this witness; the
    refinement theorem therefore excludes self-assignment. -/
theorem C02_self_assign_refuted :
    let ops : List (Op Nat Nat) := [.set 0 1 1, .assign 0 0, .len 0]
    (run cfgNow hid (fresh cfgNow Nat Nat 1) ops).toOption.map (fun r => r.2.getLast?.map (fun o => match o with | .nat n => n | _ => 7))
        = some (some 0) ∧
    (specRun (List.replicate 1 []) ops).2.getLast?.map (fun o => match o with | .nat n => n | _ => 7) = some 1 := by
  decide

/-! ### non-vacuity -/

/-- the slot array as `(index, stored home, key, value)` -/
def slotList (t : Tab Nat Nat) : List (Nat × Nat × Nat × Nat) :=
  (t.slots.toList.zipIdx.filterMap (fun p => p.1.map (fun e => (p.2, e.home, e.key, e.val))))

/-- A reachable state (hence, by `C02_current_source`, one that satisfies `StRel`/`Rep`) with a collision cluster that wraps
    the end of the array, an update of a non-first cluster member and a removal of the cluster's first member (backward
    shift across the array end): keys 4, 9, 14 all have home slot 4 of 5. -/
example :
    ((run cfgNow hid (fresh cfgNow Nat Nat 1) [.set 0 4 1, .set 0 9 2, .set 0 14 3, .set 0 9 7, .rem 0 4]).toOption.map
        (fun r => (r.1.map (fun t => (t.n, t.nitems, slotList t)), r.2.length))
      == some ([(5, 2, [(0, 4, 14, 3), (4, 4, 9, 7)])], 5)) = true := by
  decide

/-- the hypotheses of `C02_refines_map` are met by the source-derived configuration and an ordinary history -/
example : GoodCfg cfgNow ∧ (∀ op ∈ ([.set 0 4 1, .assign 1 0, .copy 0 1, .resize 1 0, .set 1 3 3] : List (Op Nat Nat)), op.noSelfAssign) := by
  refine ⟨C02_current_source_good, ?_⟩
  intro op h
  simp only [List.mem_cons, List.not_mem_nil, or_false] at h
  rcases h with h | h | h | h | h <;> subst h <;> simp [Op.noSelfAssign]

end Cello.Table
