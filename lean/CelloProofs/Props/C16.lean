/-
  C16 — String behaves as a C-string value.

  Property theorems only; helper lemmas are in CelloProofs/Lemmas/Str.lean, StrOps.lean, StrRun.lean, StrPrint.lean.
  Model: Cello/Str.lean — `Str.buf` is the heap allocation of a String (its length = the size last passed to
  realloc/calloc); every operation mirrors src/String.c call by call over that buffer and logs every access
  (offset, length, size of the allocation at that moment).  Spec: `Str.abs` — the byte list up to the first NUL —
  manipulated with list functions (`++`, `take`, `removeFirst`, `<:+:`, `lexCmp`).
  Source-derived facts: CelloGen/Str.lean (allocation sizes and the `memmove` count, regenerated from
  src/String.c on every run).  All theorems hold for every junk function `J` (the indeterminate bytes `realloc`
  adds) and every lawful parameter set; `C16_current_source` instantiates them with the current source.

  Operands.  Histories are lists of `AOp`: the operand of assign / concat / append / rem / a `%s` argument is a `Src` —
  a C string by value, the target itself, or a view into the target's allocation — and every step takes the allocator's
  choice `mv` (does `realloc` move the block).  The history theorems carry the explicit, decidable hypothesis `HistOK`
  (every call is `AOp.InContract` for the text the target holds when it is made): operands by value always; the target itself
  or a view at offset 0 for `assign` (early return, fix 744a45f: `C16_assign_self`); ANY operand form for `rem` (a view must
  start inside the text).  What it excludes is exactly the territory of known finding KF-C16-alias-operand — `assign` with a
  view at an offset > 0, `concat` / `append` / a `%s` write with the target or any view — and all of it is undefined
  (`C16_contract_is_exact`): the full statement `C16_alias_statement stepA` is refuted (`C16_alias_refuted`,
  `C16_alias_operand_refuted`, `C16_alias_always_undefined`, and `C16_show_self_refuted` for `show_to(s, s, pos)`), and the
  proposed repair satisfies the full statement (`C16_alias_repaired`).
  Allocation failure: `String_Resize` whose `realloc` returns NULL raises OutOfMemoryError before anything is written
  (fix 63509f2, `C16_resize_alloc_failure`; the old order is refuted in `C16_resize_alloc_failure_old_refuted`).
  `hash`: `String_Hash` is `hash_data(s->val, strlen(s->val))`; `hash_data` is engine `hash`'s (C10) model `Cello.Hash.hashData`,
  proved there to be MurmurHash64A — `C16_hash_is_murmur` composes the two; `C16_hash_test_vectors` /
  `C16_hash_tail_bytes_count` evaluate it on recorded inputs (the constants of tests/test.c; lengths 0, 8, 9, 16; texts that differ
  only behind the last full 8-byte block), the same values the harness's independent reference is validated with.
  `String_Look` (extension round; Cello/StrLook.lean): `look_from(s, input, pos)` / `scan_from(input, pos, "%$", s)` is one `String_Clear`
  and one `String_Concat` per character read — `C16_look_is_history` makes it a history of the property's own operations (same object,
  same accesses), so `C16_look_refines` gives the full statement for it on EVERY input (also where FormatError leaves);
  `C16_look_reads_back_show`: what `show_to` wrote is read back exactly, the position returned is behind the closing quote; the quote
  tests, the escape lead, the escape table and the place of `String_Clear` are read from the source (`C16_look_current_source`).
  Receivers that are not on the heap (Cello/StrRecv.lean): where the `CELLO_ALLOC_CHECK` test of each reallocating function stands is read
  from the source (`C16_guards_current_source`); on a stack / static String every one of them raises ValueError before anything is touched,
  `rem` keeps the full statement in place, `assign(s, s)` returns at once (`C16_non_heap_receiver`); a missing test hands a pointer that did
  not come from `malloc` to `realloc` (`C16_missing_alloc_check_refuted`).
-/
import Cello.Str
import Cello.Hash
import CelloGen.Str
import CelloProofs.Lemmas.StrRun
import CelloProofs.Lemmas.StrBytes
import CelloProofs.Lemmas.StrPrint
import CelloProofs.Lemmas.StrAlias
import CelloProofs.Lemmas.HashMurmur
import CelloProofs.Lemmas.StrLook
import Cello.StrRecv

namespace Cello.Str

/-- **One step.** From any well-formed object (a terminator somewhere in the allocation), any operation of the
    property that is in contract for the text the object holds (`op.InContract s.abs`, decidable: everything but the
    territory of KF-C16-alias-operand — the operand may be the target itself for `assign` and `rem`, a view for `rem`) and
    whose operand is NUL-free, whatever the allocator does (`mv`): the object stays well-formed, its text is the list function
    applied to the old text and the bytes the operand denoted when the call was made (`op.absOp s.abs`), every access stayed
    inside the allocation and nothing undefined happened, and it raises (ValueError) exactly when the spec says `rem` has
    nothing to remove — in which case the object is unchanged, the whole allocation included. -/
theorem C16_step_refines {P : Params} (hP : P.Lawful) (J : Nat → Byte) (mv : Bool) (s : Str) (op : AOp)
    (hs : s.WF) (hc : op.InContract s.abs) (hop : (op.absOp s.abs).NulFree) :
    let r := stepA P J mv s op
    r.st.WF ∧ r.st.abs = Spec.step s.abs (op.absOp s.abs) ∧ r.defined = true ∧
      (r.out = .raised .ValueError ↔ Spec.raises s.abs (op.absOp s.abs) = true) ∧
      (Spec.raises s.abs (op.absOp s.abs) = true → r.st = s) := by
  intro r
  obtain ⟨h, hub⟩ := stepA_ok hP J mv s op hs hc hop
  exact ⟨h.wf, h.abs, by simp [r, Res.defined, h.safe, hub], h.raises, h.unchanged⟩

/-- **C16 (refinement).** For every way of creating a heap String (`new(String)` or `new(String, $S(init))`), every
    history of assign / concat / append / resize / clear / rem / formatted writes whose operands are NUL-free and whose
    calls are in contract (`HistOK`: the explicit, decidable hypothesis — by-value operands everywhere, the target itself
    for `assign`, the target or a view into its text for `rem`; the region it excludes is exactly KF-C16-alias-operand,
    `C16_contract_is_exact`, `C16_alias_refuted`), and every behaviour of the allocator (`mv i`: does the `i`-th `realloc`
    move the block), the object holds exactly the abstract string computed by the list functions (`Spec.runA`: an operand
    that is the target or a view is the text, or its suffix, at the moment of the call), and every observer agrees with the list
    function on that abstract string: `len` = length, `c_str` = the bytes, `cmp` = three-way lexicographic comparison
    of unsigned bytes, `eq` = equality, `mem` = "is a contiguous sublist", `hash` = the hash function applied to exactly
    the bytes of the abstract string — for the `hash_data` of src/Hash.c see `C16_hash_is_murmur` —, `rem` = removal of the
    first occurrence / ValueError when there is none. -/
theorem C16_refines_bytes {P : Params} (hP : P.Lawful) (J : Nat → Byte) (mv : Nat → Bool) (init : Option (List Byte))
    (hinit : ∀ x, init = some x → NulFree x) (ops : List AOp) (hok : HistOK (init.getD []) ops)
    (hops : ∀ op ∈ ops, op.plain.NulFree) :
    let s := (runA P J mv 0 (new P J init).st ops).1
    let a := Spec.runA (init.getD []) ops
    s.abs = a ∧ len s = a.length ∧ cstr s = a ∧
    (∀ x, NulFree x → cmp s x = lexCmp a x ∧ (eq s x = true ↔ a = x) ∧ (mem s x = true ↔ x <:+: a)) ∧
    (∀ {α : Type} (H : List Byte → α), hash H s = H a) ∧
    (∀ x, NulFree x → (rem P s x).st.abs = (removeFirst x a).getD a ∧
        ((rem P s x).out = .raised .ValueError ↔ ¬ x <:+: a)) := by
  intro s a
  obtain ⟨hwf0, habs0, _⟩ := new_ok hP J init hinit
  obtain ⟨hwf, habs, _, _⟩ := runA_ok hP J mv ops 0 (new P J init).st hwf0 (by rw [habs0]; exact hok) hops
  have ha : s.abs = a := by rw [show s.abs = _ from habs, habs0]
  refine ⟨ha, by rw [len_eq, ha], by rw [cstr_eq, ha], ?_, ?_, ?_⟩
  · intro x hx
    exact ⟨by rw [cmp_eq hwf hx, ha], by rw [eq_iff hwf hx, ha], by rw [mem_iff, ha]⟩
  · intro α H; rw [hash_eq H hwf, ha]
  · intro x hx
    have h := step_ok hP J s (.rem x) hwf hx
    refine ⟨by have := h.abs; simp only [step, Spec.step, ha] at this; exact this, ?_⟩
    have := h.raises
    simp only [step, Spec.raises, ha] at this
    rw [this, removeFirst_isNone_iff]

/-- **C16 (termination and bounds).** In every such history, after EVERY operation the buffer has a NUL at index `len`
    and `len < cap` (the String is terminated inside its own allocation), and every read or write the operation made
    on the buffer lay inside the allocation current at that moment (`off + len ≤ cap` for every log entry — every
    index touched is `< cap`), and no step is undefined.  The observers' reads are in bounds too.  Same explicit hypothesis
    on the calls as `C16_refines_bytes` (`HistOK`). -/
theorem C16_terminated {P : Params} (hP : P.Lawful) (J : Nat → Byte) (mv : Nat → Bool) (init : Option (List Byte))
    (hinit : ∀ x, init = some x → NulFree x) (ops : List AOp) (hok : HistOK (init.getD []) ops)
    (hops : ∀ op ∈ ops, op.plain.NulFree) :
    let r0 := new P J init
    (r0.st.buf[len r0.st]? = some 0 ∧ len r0.st < r0.st.cap ∧ r0.log.all Acc.inBounds = true) ∧
    ((runA P J mv 0 r0.st ops).2.length = ops.length) ∧
    ∀ r ∈ (runA P J mv 0 r0.st ops).2,
      r.st.buf[len r.st]? = some 0 ∧ len r.st < r.st.cap ∧ r.log.all Acc.inBounds = true ∧ r.out.isUB = false ∧
      (observeLog r.st).all Acc.inBounds = true := by
  intro r0
  obtain ⟨hwf0, habs0, hsafe0⟩ := new_ok hP J init hinit
  obtain ⟨_, _, hlen, hall⟩ := runA_ok hP J mv ops 0 (new P J init).st hwf0 (by rw [habs0]; exact hok) hops
  refine ⟨⟨(terminated_of_wf hwf0).1, (terminated_of_wf hwf0).2, hsafe0⟩, hlen, ?_⟩
  intro r hr
  obtain ⟨hs, hw, hub⟩ := hall r hr
  exact ⟨(terminated_of_wf hw).1, (terminated_of_wf hw).2, hs, hub, observe_safe hw⟩

/-- Allocations are tight: after assign / concat / append / clear / a shrinking resize / a formatted write at
    `pos ≤ len` the terminator is the LAST byte of the allocation (`cap = len + 1`), so "inside its own allocation"
    has no slack: one byte less in any of the size computations and the terminator would be written out of bounds. -/
theorem C16_alloc_exact {P : Params} (hP : P.Lawful) (J : Nat → Byte) (s : Str) (hs : s.WF) (op : Op)
    (hop : op.NulFree)
    (hkind : match op with
      | .rem _ => False
      | .resize n => n ≤ s.abs.length
      | .format pos _ => pos ≤ s.abs.length
      | _ => True) :
    (step P J s op).st.cap = len (step P J s op).st + 1 := by
  obtain ⟨c, r, rfl, hc, habs⟩ := hs.view
  have key : ∀ (t : Str) (d : List Byte), (0 : Byte) ∉ d → t.buf = d ++ [0] → t.cap = len t + 1 := by
    intro t d hd e
    have : t = ⟨d ++ 0 :: []⟩ := by cases t; simp_all
    rw [this, len_eq, abs_view d [] hd]; simp [Str.cap]
  cases op with
  | assign x => exact key _ x hop (assign_buf hP J _ x).1
  | concat x =>
    exact key _ (c ++ x) (by simp only [List.mem_append, not_or]; exact ⟨hc, hop⟩) (concat_buf hP J x c r hc).1
  | append x =>
    exact key _ (c ++ x) (by simp only [List.mem_append, not_or]; exact ⟨hc, hop⟩) (concat_buf hP J x c r hc).1
  | clear => exact key _ [] (by simp) (clear_buf hP J _).1
  | rem x => exact absurd hkind id
  | resize n =>
    rw [habs] at hkind
    exact key _ (c.take n) (not_mem_take hc n) (resize_shrink_buf hP J n c r hc hkind).1
  | format pos f =>
    rw [habs] at hkind
    exact key _ (c.take pos ++ f) (by simp only [List.mem_append, not_or]; exact ⟨not_mem_take hc pos, hop⟩)
      (format_in_buf hP J pos f c r hkind).1

/-- **rem deletes the first occurrence** — declaratively: if the text is `a ++ x ++ b` and no occurrence of `x`
    starts before `a` ends (overlapping later occurrences allowed), `rem` returns normally, the text becomes
    `a ++ b`, the allocation keeps its size, and every access was in bounds. -/
theorem C16_rem_first_occurrence {P : Params} (hP : P.Lawful) (s : Str) (hs : s.WF) (x a b : List Byte)
    (hx : NulFree x) (hsplit : s.abs = a ++ x ++ b)
    (hfirst : ∀ a' b', s.abs = a' ++ x ++ b' → a.length ≤ a'.length) :
    (rem P s x).out = .ok 0 ∧ (rem P s x).st.abs = a ++ b ∧ (rem P s x).st.cap = s.cap ∧
      (rem P s x).st.WF ∧ (rem P s x).safe = true := by
  have h := step_ok hP (fun _ => 0) s (.rem x) hs hx
  have hrf : removeFirst x s.abs = some (a ++ b) :=
    (removeFirst_some_iff x s.abs (a ++ b)).mpr ⟨a, b, hsplit, rfl, hfirst⟩
  have habs : (rem P s x).st.abs = a ++ b := by
    have := h.abs; simp only [step, Spec.step, hrf, Option.getD_some] at this; exact this
  refine ⟨?_, habs, ?_, h.wf, h.safe⟩
  · have hnr : ¬ (rem P s x).out = .raised .ValueError := by
      have := h.raises; simp only [step, Spec.raises, hrf] at this; rw [this]; simp
    simp only [rem] at hnr ⊢
    split at hnr <;> simp_all
  · simp only [rem, Str.cap]
    split
    · rfl
    · simp [writeAt_length]

/-- the spec function itself is "cut out the first occurrence" (and `none` iff there is no occurrence) -/
theorem C16_removeFirst_spec (x l : List Byte) :
    (∀ l', removeFirst x l = some l' ↔
        ∃ a b, l = a ++ x ++ b ∧ l' = a ++ b ∧ ∀ a' b', l = a' ++ x ++ b' → a.length ≤ a'.length) ∧
    (removeFirst x l = none ↔ ¬ x <:+: l) := by
  refine ⟨fun l' => removeFirst_some_iff x l l', ?_⟩
  rw [← removeFirst_isNone_iff]; cases removeFirst x l <;> simp

/-- **rem of an absent text raises ValueError and changes nothing** — not a byte of the allocation. -/
theorem C16_rem_absent (P : Params) (s : Str) (hs : s.WF) (x : List Byte) (hno : ¬ x <:+: s.abs) :
    (rem P s x).out = .raised .ValueError ∧ (rem P s x).st = s ∧ (rem P s x).safe = true := by
  obtain ⟨c, r, rfl, hc, habs⟩ := hs.view
  rw [habs] at hno
  have hf : findSub x c = none := by
    rcases h : findSub x c with _ | p
    · rfl
    · exact absurd ((findSub_isSome_iff x c).mp (by simp [h])) hno
  rw [rem_absent_buf P c r x hc hf]
  simp [Res.safe, Acc.inBounds, Acc.rd]

/-- Overlapping occurrences: `"aaa"` rem `"aa"` is `"a"`; `"abcabc"` rem `"bc"` is `"aabc"`; `"abab"` rem `"abab"`
    is `""`; `rem` of `""` is the identity; an operand at the very end; an absent operand. On the model
    (the code) and on the spec. -/
theorem C16_rem_examples :
    (rem .modelled ⟨[97, 97, 97, 0]⟩ [97, 97]).st.abs = [97] ∧
    (rem .modelled ⟨[97, 98, 99, 97, 98, 99, 0]⟩ [98, 99]).st.abs = [97, 97, 98, 99] ∧
    (rem .modelled ⟨[97, 98, 97, 98, 0]⟩ [97, 98, 97, 98]).st.abs = [] ∧
    (rem .modelled ⟨[97, 98, 0, 7, 7]⟩ []).st = ⟨[97, 98, 0, 7, 7]⟩ ∧
    (rem .modelled ⟨[97, 98, 99, 0]⟩ [99]).st.buf = [97, 98, 0, 0] ∧
    (rem .modelled ⟨[97, 98, 99, 0]⟩ [99, 100]).out = .raised .ValueError ∧
    removeFirst [97, 97] [97, 97, 97] = some [97] ∧
    removeFirst [98, 99] [97, 98, 99, 97, 98, 99] = some [97, 97, 98, 99] := by decide

/-- The byte count of `String_Rem` before fix 62eac2a (`strlen(self) - strlen(pos) - strlen(obj) + 1`) is refuted
    by an occurrence in the middle: `"abcXYdef"` rem `"XY"` gave `"abcdedef"`, not `"abcdef"` (defect F18, fixed). -/
theorem C16_rem_prefix_count_refuted :
    let s : Str := ⟨[97, 98, 99, 88, 89, 100, 101, 102, 0]⟩
    (rem .preFix s [88, 89]).st.abs = [97, 98, 99, 100, 101, 100, 101, 102] ∧
    (rem .preFix s [88, 89]).st.abs ≠ (removeFirst [88, 89] s.abs).getD s.abs ∧
    (rem .modelled s [88, 89]).st.abs = [97, 98, 99, 100, 101, 102] := by decide

/-- The terminator needs its byte: with `strlen(val)` in place of `strlen(val) + 1` (and likewise in concat and in the
    formatted write) the terminator store falls outside the allocation — the access log of the model shows it, so
    `C16_terminated` is not true by construction of the model. -/
theorem C16_size_without_terminator_refuted :
    (assign { Params.modelled with assignSize := fun lv => lv } (fun _ => 0) ⟨[0]⟩ [97, 98]).safe = false ∧
    (concat { Params.modelled with concatSize := fun a b => a + b } (fun _ => 0) ⟨[97, 0]⟩ [98]).safe = false ∧
    (formatTo { Params.modelled with formatSize := fun p n => p + n } (fun _ => 0) ⟨[97, 0]⟩ 1 [98]).safe = false ∧
    (rem { Params.modelled with remCount := fun _ lp lo => lp - lo + 2 } ⟨[97, 98, 0]⟩ [97]).safe = false := by decide

/-- The text never depends on the indeterminate bytes `realloc` hands out, on whether it moves the block, nor on which lawful
    parameters are used (calls in contract). -/
theorem C16_junk_independent {P P' : Params} (hP : P.Lawful) (hP' : P'.Lawful) (J J' : Nat → Byte) (mv mv' : Nat → Bool)
    (s : Str) (hs : s.WF) (ops : List AOp) (hok : HistOK s.abs ops) (hops : ∀ op ∈ ops, op.plain.NulFree) :
    (runA P J mv 0 s ops).1.abs = (runA P' J' mv' 0 s ops).1.abs := by
  rw [(runA_ok hP J mv ops 0 s hs hok hops).2.1, (runA_ok hP' J' mv' ops 0 s hs hok hops).2.1]

/-- `cmp`'s three results are the lexicographic order of Lean's `List` on unsigned bytes. -/
theorem C16_cmp_is_lexicographic : ∀ (a b : List Byte),
    (lexCmp a b = -1 ↔ a < b) ∧ (lexCmp a b = 0 ↔ a = b) ∧ (lexCmp a b = 1 ↔ b < a)
  | [], [] => by simp [lexCmp]
  | [], _ :: _ => by simp [lexCmp]
  | _ :: _, [] => by simp [lexCmp]
  | a :: as, b :: bs => by
    have ih := C16_cmp_is_lexicographic as bs
    simp only [lexCmp, List.cons_lt_cons_iff, List.cons.injEq]
    by_cases h1 : a < b
    · have h2 : ¬ b < a := by rw [UInt8.lt_iff_toNat_lt] at h1 ⊢; omega
      have h3 : a ≠ b := by intro e; subst e; exact h2 h1
      have h4 : b ≠ a := fun e => h3 e.symm
      simp [h1, h2, h3, h4]
    · by_cases h2 : b < a
      · have h3 : a ≠ b := by intro e; subst e; exact h1 h2
        have h4 : b ≠ a := fun e => h3 e.symm
        simp [h1, h2, h3, h4]
      · have e := byte_eq_of_not_lt h1 h2
        subst e
        simp [h1, ih]

/-- **Formatted writes through `print_to`**: a print at `pos ≤ len` whose format is cut into fragments `fs` (one
    `format_to` call each, at advancing positions, each reallocating) leaves `take pos text ++ all fragments`,
    returns `pos +` their total length, stays terminated and in bounds throughout. -/
theorem C16_print_to {P : Params} (hP : P.Lawful) (J : Nat → Byte) (s : Str) (hs : s.WF) (pos : Nat)
    (hpos : pos ≤ s.abs.length) (fs : List (List Byte)) (hfs : ∀ f ∈ fs, NulFree f) (hne : fs ≠ []) :
    (printTo P J s pos fs).1.WF ∧ (printTo P J s pos fs).1.abs = s.abs.take pos ++ fs.flatten ∧
    (printTo P J s pos fs).2.1 = pos + fs.flatten.length ∧
    (printTo P J s pos fs).2.2.all Acc.inBounds = true := by
  have h := printTo_ok hP J fs s pos hs hpos hfs
  exact ⟨h.1, h.2.1 hne, h.2.2.1, h.2.2.2⟩

/-- The block operations of the model are the byte loops: an in-bounds block store is the loop of single-byte stores
    at indices `off, off+1, …, off+n-1` (each `< cap`), and `strlen` is the loop that reads `buf[off], buf[off+1], …`
    up to the first NUL — so "every access in the log is in bounds" is "every index touched is `< cap`". -/
theorem C16_block_ops_are_byte_loops (buf bs : List Byte) (off : Nat) :
    (off + bs.length ≤ buf.length → storeBytes buf off bs = writeAt buf off bs) ∧
    strlenLoop buf off (buf.length - off) = strlen buf off :=
  ⟨storeBytes_eq_writeAt bs buf off, strlenLoop_eq _ buf off (Nat.le_refl _)⟩

/-- **`String_Assign` returns at once when the operand's C string is the target's buffer** — in the source as it is now:
    the translator finds `if (val is s->val) { return; }` between `char* val = c_str(obj);` and the `realloc` (fix 744a45f).
    Take the statement out, or move it behind the `realloc`, and this theorem stops type-checking (and the driver's
    `assign(s, s)` becomes the undefined call of `C16_assign_self_old_refuted`). -/
theorem C16_assign_self_current_source : CelloGen.Str.params.assignSelfReturns = true := by
  simp [CelloGen.Str.params, CelloGen.Str.assignSelfReturns]

/-- **`String_Resize` tests the result of `realloc` before it writes through it** — in the source as it is now: the
    translator finds the `CELLO_MEMORY_CHECK` test directly after the `realloc`, before `memset` / the terminator store
    (fix 63509f2).  (The same position is pinned for `String_New / Assign / Clear / Concat / Format_To` by the shape.) -/
theorem C16_resize_check_current_source : CelloGen.Str.params.resizeChecksFirst = true := by
  simp [CelloGen.Str.params, CelloGen.Str.resizeChecksFirst]

/-- **The current source**: the allocation sizes and the `memmove` count that the translator reads from
    src/String.c on this run are lawful, so every theorem above applies to the code as it is now. If a size loses
    its `+ 1` or the count changes, this theorem stops type-checking. -/
theorem C16_current_source : CelloGen.Str.params.Lawful :=
  ⟨by simp [CelloGen.Str.params, CelloGen.Str.newEmptySize],
   fun lv => by simp only [CelloGen.Str.params, CelloGen.Str.assignSize],
   by simp [CelloGen.Str.params, CelloGen.Str.clearSize],
   fun ls lo => by simp only [CelloGen.Str.params, CelloGen.Str.concatSize],
   fun n => by simp only [CelloGen.Str.params, CelloGen.Str.resizeSize],
   fun pos size => by simp only [CelloGen.Str.params, CelloGen.Str.formatSize],
   fun ls lp lo h => by simp only [CelloGen.Str.params, CelloGen.Str.remCount],
   C16_assign_self_current_source, C16_resize_check_current_source⟩

/-- the shape of each function (which libc calls, on which arguments, in which order) is the one modelled -/
theorem C16_source_shape_as_modelled : CelloGen.Str.shape = CelloGen.Str.shapeModelled := by
  rfl

/-- C16 for the code as it is in /repo now (sizes, count, the early return of `String_Assign` and the position of the
    memory check read from the source by the translator), calls in contract. -/
theorem C16_holds_for_current_source (J : Nat → Byte) (mv : Nat → Bool) (init : Option (List Byte))
    (hinit : ∀ x, init = some x → NulFree x) (ops : List AOp) (hok : HistOK (init.getD []) ops)
    (hops : ∀ op ∈ ops, op.plain.NulFree) :
    let P := CelloGen.Str.params
    (runA P J mv 0 (new P J init).st ops).1.abs = Spec.runA (init.getD []) ops ∧
    ∀ r ∈ (runA P J mv 0 (new P J init).st ops).2,
      r.st.buf[len r.st]? = some 0 ∧ len r.st < r.st.cap ∧ r.log.all Acc.inBounds = true ∧ r.out.isUB = false :=
  ⟨(C16_refines_bytes C16_current_source J mv init hinit ops hok hops).1,
   fun r hr => let h := (C16_terminated C16_current_source J mv init hinit ops hok hops).2.2 r hr; ⟨h.1, h.2.1, h.2.2.1, h.2.2.2.1⟩⟩

/-! ### formatted writes that reach the String through `print_to_with` / `show_to` (src/Show.c) -/

/-- **Formatted writes through `print_to` / `print_to_with` / `show_to`: the position is the end of the text.**
    For lawful sizes and lawful position arithmetic, from any well-formed String, any start `pos ≤ len` and any sequence of
    steps `print_to_with` can make (literal runs, `%%`, conversions, `show_to` of any depth, every `format_to` reallocating):
    if at least one `format_to` call is made, the String's value is `take pos old ++ everything written`; the position handed
    back is `pos +` the number of characters written AND is the new `len` (nothing lies behind the terminator that the
    position claims was written); the buffer is NUL-terminated at that `len` inside its allocation; every access was in
    bounds; and `cmp`, `eq`, `mem`, `hash` agree with the list functions on that value. -/
theorem C16_print_positions {P : Params} (hP : P.Lawful) {Q : PosParams} (hQ : Q.Lawful) (J : Nat → Byte)
    (s : Str) (hs : s.WF) (pos : Nat) (hpos : pos ≤ s.abs.length) (stk : List Nat)
    (items : List Item) (hok : ∀ it ∈ items, it.OK) (hne : callTexts items ≠ []) :
    let r := emit P Q J s pos stk items
    let a := s.abs.take pos ++ textOf items
    r.1.abs = a ∧ r.2.1 = pos + (textOf items).length ∧ r.2.1 = len r.1 ∧
    r.1.buf[len r.1]? = some 0 ∧ len r.1 < r.1.cap ∧ r.2.2.all Acc.inBounds = true ∧
    (∀ x, NulFree x → cmp r.1 x = lexCmp a x ∧ (eq r.1 x = true ↔ a = x) ∧ (mem r.1 x = true ↔ x <:+: a)) ∧
    (∀ {β : Type} (H : List Byte → β), hash H r.1 = H a) := by
  intro r a
  obtain ⟨hwf, habs, _, hret, hsafe⟩ := emit_ok hP hQ J items s pos stk hs hpos hok
  have ha : r.1.abs = a := habs hne
  have hlen : r.2.1 = len r.1 := by
    rw [len_eq, ha, hret]; simp [a, Nat.min_eq_left hpos]
  refine ⟨ha, hret, hlen, (terminated_of_wf hwf).1, (terminated_of_wf hwf).2, hsafe, ?_, ?_⟩
  · intro x hx
    exact ⟨by rw [cmp_eq hwf hx, ha], by rw [eq_iff hwf hx, ha], by rw [mem_iff, ha]⟩
  · intro β H; rw [hash_eq H hwf, ha]

/-- a `print_to_with` that makes no `format_to` call (the empty format) leaves the object alone and returns `pos` -/
theorem C16_print_nothing (P : Params) {Q : PosParams} (hQ : Q.Lawful) (J : Nat → Byte) (s : Str) (pos : Nat)
    (stk : List Nat) (items : List Item) (hok : ∀ it ∈ items, it.OK) (hno : callTexts items = []) :
    emit P Q J s pos stk items = (s, pos, []) := by
  rw [emit_eq_printTo P hQ J items s pos stk hok, hno]; rfl

/-- **… for every well-formed format and argument list.**  `printFmt` is `print_to_with(s, pos, fmt, args)` on a String
    target: the format (a C string) is cut into literal runs, `%%` and specifications the way the scanner reads it
    (`parseFmt`), every specification takes the next argument, `prim` is what libc prints for one specification and `shw` the
    steps the argument's Show instance makes (both arbitrary, as long as they print C strings).  Whenever that is defined —
    the format is well-formed and every specification finds an argument of its class — the result is as in
    `C16_print_positions`: value `take pos old ++ rendered output`, NUL-terminated at the new `len`, returned position
    `pos + length written`, all accesses in bounds. -/
theorem C16_print_format {α : Type} {P : Params} (hP : P.Lawful) {Q : PosParams} (hQ : Q.Lawful) (J : Nat → Byte)
    (prim : List Byte → Byte → α → Option (List Byte)) (shw : α → List Item)
    (s : Str) (hs : s.WF) (pos : Nat) (hpos : pos ≤ s.abs.length) (fmt : List Byte) (hfmt : NulFree fmt) (args : List α)
    (hprim : ∀ a ∈ args, ∀ b c t, prim b c a = some t → NulFree t) (hshw : ∀ a ∈ args, ∀ it ∈ shw a, it.OK)
    (r : Str × Nat × List Acc) (hr : printFmt P Q J prim shw s pos fmt args = some r) :
    ∃ segs items, parseFmt fmt = some segs ∧ plan prim shw segs args = some items ∧ (∀ it ∈ items, it.OK) ∧
      r = emit P Q J s pos [] items ∧
      r.1.WF ∧ r.1.buf[len r.1]? = some 0 ∧ len r.1 < r.1.cap ∧
      (callTexts items ≠ [] → r.1.abs = s.abs.take pos ++ textOf items ∧ r.2.1 = len r.1) ∧
      (callTexts items = [] → r.1 = s) ∧
      r.2.1 = pos + (textOf items).length ∧ r.2.2.all Acc.inBounds = true := by
  unfold printFmt at hr
  split at hr
  · cases hr
  · rename_i segs hseg
    obtain ⟨items, hplan, rfl⟩ := Option.map_eq_some_iff.mp hr
    have hok := plan_ok prim shw segs args items hprim hshw (parseFmt_lit_nulFree hfmt hseg) hplan
    obtain ⟨hwf, habs, hsame, hret, hsafe⟩ := emit_ok hP hQ J items s pos [] hs hpos hok
    refine ⟨segs, items, hseg, hplan, hok, rfl, hwf, (terminated_of_wf hwf).1, (terminated_of_wf hwf).2, ?_, hsame, hret, hsafe⟩
    intro hne
    exact ⟨habs hne, (C16_print_positions hP hQ J s hs pos hpos [] items hok hne).2.2.1⟩

/-- **A formatted write through `print_to_with` is a history of `format_to` operations**, one per call, at positions
    advancing by what was written — so histories that contain `print_to` / `show_to` are covered by `C16_refines_bytes`
    and `C16_terminated` (the object and the access log are the same). -/
theorem C16_print_is_format_history (P : Params) {Q : PosParams} (hQ : Q.Lawful) (J : Nat → Byte) (s : Str) (pos : Nat)
    (stk : List Nat) (items : List Item) (hok : ∀ it ∈ items, it.OK) :
    (emit P Q J s pos stk items).1 = (run P J s (asFormats pos items)).1 ∧
    (emit P Q J s pos stk items).2.2 = ((run P J s (asFormats pos items)).2.map Res.log).flatten ∧
    ∀ op ∈ asFormats pos items, op.NulFree := by
  rw [emit_eq_printTo P hQ J items s pos stk hok]
  exact ⟨(printTo_eq_run P J items s pos).1, (printTo_eq_run P J items s pos).2, asFormats_nulFree items pos hok⟩

/-- **The built-in arguments**: the steps of `Int_Show`, `String_Show` and `Tuple_Show` (to any depth) are well-formed and
    every specification of the rendered part of the printf grammar prints a C string, whenever the Strings inside the
    argument are C strings; the executable check the driver runs on every step list is the predicate of the theorems. -/
theorem C16_builtin_arguments :
    (∀ v : Val, v.nulFree = true → ∀ it ∈ showVal v, it.OK) ∧
    (∀ (b : List Byte) (c : Byte) (v : Val) (t : List Byte), v.nulFree = true → renderSpec b c v = some t → NulFree t) ∧
    (∀ it : Item, it.okb = true ↔ it.OK) :=
  ⟨showVal_ok, fun b c v t hv h => renderSpec_nulFree b c v hv t h, Item.okb_iff⟩

/-- **The position arithmetic of the current source is lawful**: the translator reads, for every `format_to` call of
    `print_to_with` (src/Show.c), the statement that moves `pos` afterwards, and the statement that takes the result of
    `show_to`; each must move the position by exactly what `format_to` returned (`off` = the characters written: a literal run
    verbatim, one `%` for `%%`).  If a branch advances by anything else — `pos += 2` for `%%`, the width of the specification
    instead of the text, a forgotten update — this theorem stops type-checking. -/
theorem C16_current_source_positions : CelloGen.Str.posParams.Lawful :=
  ⟨fun pos off => by simp only [CelloGen.Str.posParams, CelloGen.Str.advLit] <;> omega,
   fun pos => by simp only [CelloGen.Str.posParams, CelloGen.Str.advPct] <;> omega,
   fun br h1 h2 pos off w => by
     cases br
     · exact absurd rfl h1
     · exact absurd rfl h2
     all_goals
       simp only [CelloGen.Str.posParams, CelloGen.Str.advStr, CelloGen.Str.advInt, CelloGen.Str.advFlt,
         CelloGen.Str.advChr, CelloGen.Str.advPtr] <;> omega,
   fun pos ret => by simp only [CelloGen.Str.posParams, CelloGen.Str.showPos] <;> omega⟩

/-- the `strchr` set that ends a specification in the source is the one `parseFmt` uses -/
theorem C16_conv_set_as_modelled : CelloGen.Str.printConvSet = convSet := by decide

/-- **A position that runs ahead of the bytes written breaks the String**: with `pos += 2` in the `%%` branch (the width of
    `%%` in the format instead of the one character `format_to` wrote) `print_to(s, 0, "100%% done")` leaves the value
    `"100%"`, the rest lands behind the terminator, and the returned position 10 is not the `len` 4 — the model follows the
    arithmetic of the source, so `C16_print_positions` is not true by construction; the modelled arithmetic gives
    `"100% done"` and 9. -/
theorem C16_percent_position_refuted :
    let Q' : PosParams := { PosParams.modelled with adv := fun br pos off _ => if br = .pct then pos + 2 else pos + off }
    let items : List Item := [.call .lit 3 [49, 48, 48], .call .pct 2 [37], .call .lit 5 [32, 100, 111, 110, 101]]
    (∀ it ∈ items, it.okb = true) ∧
    (emit .modelled Q' (fun _ => 165) ⟨[0]⟩ 0 [] items).1.abs = [49, 48, 48, 37] ∧
    (emit .modelled Q' (fun _ => 165) ⟨[0]⟩ 0 [] items).2.1 = 10 ∧
    (emit .modelled Q' (fun _ => 165) ⟨[0]⟩ 0 [] items).1.buf = [49, 48, 48, 37, 0, 32, 100, 111, 110, 101, 0] ∧
    ¬ Q'.Lawful ∧
    (emit .modelled .modelled (fun _ => 165) ⟨[0]⟩ 0 [] items).1.buf = [49, 48, 48, 37, 32, 100, 111, 110, 101, 0] ∧
    (emit .modelled .modelled (fun _ => 165) ⟨[0]⟩ 0 [] items).2.1 = 9 := by
  refine ⟨by decide, by decide, by decide, by decide, ?_, by decide, by decide⟩
  intro h
  have := h.pct 0
  simp at this

/-- **C16 for formatted writes, for the code as it is in /repo now**: sizes from src/String.c, positions from src/Show.c,
    built-in arguments (Int, String, Tuple to any depth) rendered as libc / the Show instances do. -/
theorem C16_print_current_source (J : Nat → Byte) (s : Str) (hs : s.WF) (pos : Nat) (hpos : pos ≤ s.abs.length)
    (fmt : List Byte) (hfmt : NulFree fmt) (args : List Val) (hargs : ∀ v ∈ args, v.nulFree = true)
    (r : Str × Nat × List Acc)
    (hr : printFmt CelloGen.Str.params CelloGen.Str.posParams J renderSpec showVal s pos fmt args = some r) :
    ∃ items, (∀ it ∈ items, it.OK) ∧ r = emit CelloGen.Str.params CelloGen.Str.posParams J s pos [] items ∧
      r.1.buf[len r.1]? = some 0 ∧ len r.1 < r.1.cap ∧ r.2.2.all Acc.inBounds = true ∧
      r.2.1 = pos + (textOf items).length ∧
      (callTexts items ≠ [] → r.1.abs = s.abs.take pos ++ textOf items ∧ r.2.1 = len r.1) ∧
      (callTexts items = [] → r.1 = s) := by
  obtain ⟨_, items, _, _, hok, he, _, ht, hc, h1, h2, h3, h4⟩ :=
    C16_print_format C16_current_source C16_current_source_positions J renderSpec showVal s hs pos hpos fmt hfmt args
      (fun v hv b c t h => renderSpec_nulFree b c v (hargs v hv) t h) (fun v hv => showVal_ok v (hargs v hv)) r hr
  exact ⟨items, hok, he, ht, hc, h4, h3, h1, h2⟩

/-- **Reading from a String at a position** (`scan_from(s, pos, …)` → `String_Format_From` → `vsscanf(s->val + pos, …)`):
    for `pos ≤ len` the C string handed to libc is exactly the abstract string from `pos` on, so what is read back depends
    on the value only. -/
theorem C16_read_at_position (s : Str) (hs : s.WF) (pos : Nat) (hpos : pos ≤ s.abs.length) :
    cstrAt s.buf pos = s.abs.drop pos ∧
    scanWord s pos =
      (let w := ((s.abs.drop pos).dropWhile isSpace).takeWhile (fun b => !isSpace b)
       if w.isEmpty then none else some (w, pos + ((s.abs.drop pos).takeWhile isSpace).length + w.length)) := by
  refine ⟨cstrAt_pos hs hpos, ?_⟩
  simp only [scanWord, cstrAt_pos hs hpos]

/-! ### the two repaired corners of src/String.c -/

/-- **rem of an operand that has no C string** (e60e6ec: `String_Rem` begins with `char* sub = c_str(obj);`): ClassError,
    and not a byte of the allocation is read or written; with a C string it is `rem`. -/
theorem C16_rem_argument (P : Params) (s : Str) :
    (remArg P s none).out = .raised .ClassError ∧ (remArg P s none).st = s ∧ (remArg P s none).log = [] ∧
    ∀ x, remArg P s (some x) = rem P s x :=
  ⟨rfl, rfl, rfl, fun _ => rfl⟩

/-- before e60e6ec (`c = instance(obj, C_Str); if (c and c->c_str) { … }`) such an operand was silently ignored: the call
    returned normally although nothing that could be removed was given -/
theorem C16_rem_argument_old_refuted (P : Params) (s : Str) :
    (remArgOld P s none).out = .ok 0 ∧ (remArgOld P s none).out ≠ (remArg P s none).out := by
  refine ⟨rfl, ?_⟩
  simp [remArgOld, remArg]

/-- **A format the C library rejects** (a626877: `if (size < 0) { return size; }` right after the measuring `vsnprintf`):
    `format_to` hands back the negative value, the object is untouched (no reallocation, no access); inside `print_to_with`
    the `FormatError` leaves at that step — the object and the accesses are those of the steps before it, for any position
    arithmetic. -/
theorem C16_rejected_format (P : Params) (Q : PosParams) (J : Nat → Byte) (s : Str) (pos : Nat) :
    (formatToR P J s pos none).st = s ∧ (formatToR P J s pos none).out = .rejected ∧ (formatToR P J s pos none).log = [] ∧
    (∀ f, formatToR P J s pos (some f) = formatTo P J s pos f) ∧
    ∀ (stk : List Nat) (br : Branch) (pre rest : List Item),
      (emit P Q J s pos stk (pre ++ .rejected br :: rest)).1 = (emit P Q J s pos stk pre).1 ∧
      (emit P Q J s pos stk (pre ++ .rejected br :: rest)).2.2 = (emit P Q J s pos stk pre).2.2 :=
  ⟨rfl, rfl, rfl, fun _ => rfl, fun stk br pre rest => emit_rejected P Q J br rest pre s pos stk⟩

/-- before a626877 the negative size went into `realloc(s->val, pos + size + 1)`: `"ab"` and a rejected format at `pos = 2`
    left an allocation of 2 bytes without a terminator — not a C string any more -/
theorem C16_rejected_format_old_refuted :
    let s : Str := ⟨[97, 98, 0]⟩
    ¬ (formatToROld .modelled (fun _ => 165) s 2 none).st.WF ∧
    (formatToROld .modelled (fun _ => 165) s 2 none).st.buf = [97, 98] ∧
    (formatToR .modelled (fun _ => 165) s 2 none).st = s := by decide

/-! ### `hash`: String_Hash over the C10 model of `hash_data` -/

/-- **`hash` of a String is MurmurHash64A (seed 0xCe110) over exactly the characters of the abstract string.**
    `String_Hash` is `hash_data(s->val, strlen(s->val))` (shape checked by `C16_source_shape_as_modelled`): the bytes handed
    over are those of the abstract string, terminator and stale bytes excluded (this engine), and `hash_data` is the
    interpreter `Cello.Hash.hashData` over the constants and step lists the translator extracts from src/Hash.c, proved equal
    to the published algorithm in engine `hash` (C10, `hashData_eq_murmur`).  After any history as in `C16_refines_bytes`;
    in particular Strings with equal text hash equally whatever lies behind their terminators. -/
theorem C16_hash_is_murmur {P : Params} (hP : P.Lawful) (J : Nat → Byte) (mv : Nat → Bool) (init : Option (List Byte))
    (hinit : ∀ x, init = some x → NulFree x) (ops : List AOp) (hok : HistOK (init.getD []) ops)
    (hops : ∀ op ∈ ops, op.plain.NulFree) :
    let s := (runA P J mv 0 (new P J init).st ops).1
    hash Cello.Hash.hashData s = Cello.Hash.murmur64A 0xCe110 (Spec.runA (init.getD []) ops) ∧
    ∀ t : Str, t.WF → t.abs = s.abs → hash Cello.Hash.hashData t = hash Cello.Hash.hashData s := by
  intro s
  have h := C16_refines_bytes hP J mv init hinit ops hok hops
  refine ⟨by rw [h.2.2.2.2.1 Cello.Hash.hashData]; exact Cello.Hash.hashData_eq_murmur _, ?_⟩
  intro t ht hts
  rw [hash_eq _ ht, hts, h.2.2.2.2.1 Cello.Hash.hashData, h.1]

/-- "Hello": the hash is Murmur of the five characters, and two allocations with the same text but different bytes behind the
    terminator hash alike -/
example : hash Cello.Hash.hashData ⟨[72, 101, 108, 108, 111, 0]⟩ = Cello.Hash.murmur64A 0xCe110 [72, 101, 108, 108, 111] ∧
    hash Cello.Hash.hashData ⟨[72, 101, 108, 108, 111, 0, 7, 7]⟩ = hash Cello.Hash.hashData ⟨[72, 101, 108, 108, 111, 0]⟩ :=
  ⟨Cello.Hash.hashData_eq_murmur _, rfl⟩

/-- **the hash VALUE on recorded inputs.**  `String_Hash` of the model — `hash_data` as extracted from the current src/Hash.c —
    gives, for the Strings "Hello", "There", "People", exactly the three constants tests/test.c hard-codes (all shorter than one
    8-byte block: only the tail `switch` runs), and for "" (no block, no tail), "abcdefgh" (one block, no tail), "abcdefghi" (one
    block and a one-byte tail), "exactly16bytes!!" (two blocks) the values an independent implementation of MurmurHash64A gives
    (Python, arbitrary-precision integers; the same values validate the harness's own reference at start-up).  The Strings
    carry stale bytes behind the terminator: they do not count.  Evaluated by the kernel on the generated constants and step
    lists: a source change that alters any of these values breaks this theorem. -/
theorem C16_hash_test_vectors :
    hash Cello.Hash.hashData ⟨[72, 101, 108, 108, 111, 0, 33, 33]⟩ = 4771441285123272284 ∧
    hash Cello.Hash.hashData ⟨[84, 104, 101, 114, 101, 0]⟩ = 17415363727859751682 ∧
    hash Cello.Hash.hashData ⟨[80, 101, 111, 112, 108, 101, 0, 165]⟩ = 11867268813077774525 ∧
    hash Cello.Hash.hashData ⟨[0, 97]⟩ = 0xfc7b4ac02e6776a6 ∧
    hash Cello.Hash.hashData ⟨[97, 98, 99, 100, 101, 102, 103, 104, 0]⟩ = 0xfa368efebf7a5511 ∧
    hash Cello.Hash.hashData ⟨[97, 98, 99, 100, 101, 102, 103, 104, 105, 0, 106]⟩ = 0x2dce358a55f64ec6 ∧
    hash Cello.Hash.hashData ⟨[101, 120, 97, 99, 116, 108, 121, 49, 54, 98, 121, 116, 101, 115, 33, 33, 0]⟩ = 0x126e00693149bf10 := by
  decide +kernel

/-- **the bytes behind the last full block count.**  Two Strings of nine characters that differ only in the ninth — "user:1001"
    and "user:1002" — hash differently, and each to the value MurmurHash64A gives for its own nine bytes; a `hash_data` whose tail
    `switch` reads the wrong bytes (the first `len % 8` instead of the last) makes the two equal.  Likewise for bytes ≥ 0x80 and
    control bytes either side of the boundary (lengths 7, 8, 9 of the same text hash to three different values). -/
theorem C16_hash_tail_bytes_count :
    hash Cello.Hash.hashData ⟨[117, 115, 101, 114, 58, 49, 48, 48, 49, 0]⟩ = 0x4e428e33bedf0827 ∧
    hash Cello.Hash.hashData ⟨[117, 115, 101, 114, 58, 49, 48, 48, 50, 0]⟩ = 0x38070accb95b59a3 ∧
    hash Cello.Hash.hashData ⟨[117, 115, 101, 114, 58, 49, 48, 48, 49, 0]⟩ ≠ hash Cello.Hash.hashData ⟨[117, 115, 101, 114, 58, 49, 48, 48, 50, 0]⟩ ∧
    (let t : List Byte := [0x80, 0x01, 0xff, 0x1f, 0x7f, 0x81, 0x09, 0xfe, 0xa5]
     hash Cello.Hash.hashData ⟨t.take 7 ++ [0]⟩ ≠ hash Cello.Hash.hashData ⟨t.take 8 ++ [0]⟩ ∧
     hash Cello.Hash.hashData ⟨t.take 8 ++ [0]⟩ ≠ hash Cello.Hash.hashData ⟨t ++ [0]⟩ ∧
     hash Cello.Hash.hashData ⟨t ++ [0]⟩ ≠ hash Cello.Hash.hashData ⟨t.take 8 ++ [0xa4, 0]⟩) := by
  decide +kernel

/-! ### operands that point into the target's own allocation (known finding KF-C16-alias-operand)

  `concat(s, s)`, `append(s, s)`, `concat(s, $S(c_str(s) + k))`, `assign(s, $S(c_str(s) + k))` with `k > 0`,
  `print_to(s, pos, "%s", s)` (`assign(s, s)` was one of them until fix 744a45f: `C16_assign_self`): nothing in the property exempts them ("equal in value to the target, substrings at the start,
  middle and end" — the target's own buffer is where such operands most naturally come from).  src/String.c computes the
  operand's pointer, reallocates, and then reads through the pointer: the model (`assignA`, `concatA`, `formatA`; `mv` = the
  allocator moved the block) returns `ub` there. -/

/-- **the full statement**, for an implementation `impl` of one step: for EVERY operand form (by value, the target itself, a
    view at an offset inside the text), whatever the allocator does, the step is defined, the object stays a C string and
    its text is the list function applied to the old text and the bytes the operand denoted when the call was made -/
def C16_alias_statement (impl : Params → (Nat → Byte) → Bool → Str → AOp → Res) : Prop :=
  ∀ (P : Params), P.Lawful → ∀ (J : Nat → Byte) (mv : Bool) (s : Str) (op : AOp), s.WF → op.InText s → op.NulFree s →
    (impl P J mv s op).defined = true ∧ (impl P J mv s op).st.WF ∧
      (impl P J mv s op).st.abs = Spec.step s.abs (op.toOp s)

/-- **refuted by the code as it is**: `concat(s, s)` on "ab" is `strcat(p, p)`; `assign(s, $S(c_str(s) + 1))` with a moving
    allocator reads the freed block -/
theorem C16_alias_refuted : ¬ C16_alias_statement stepA := by
  intro h
  have := (h .modelled Params.modelled_lawful (fun _ => 165) true ⟨[97, 98, 0]⟩ (.assign (.view 1)) (by decide) (by decide)
    (by decide)).1
  revert this; decide

/-- **the witnesses of corpus/kf_c16_alias.ops in the model**, target "ab" (allocation `61 62 00`), per site and per
    behaviour of the allocator: `assign(s, $S(c_str(s)+1))` — moved: use after free,
    in place: the block was cut to 2 bytes, the view's terminator is gone; `concat(s, s)` / `append(s, s)` — `strcat(p, p)`
    either way; `concat(s, $S(c_str(s)))` — moved: use after free, in place: overlap; `print_to(s, 1, "%s", s)` — moved: use
    after free, in place: the text written overlaps its own source.  None is defined, so none has the by-value result
    ("ab", "b", "abab", "abab", "aab"). -/
theorem C16_alias_operand_refuted :
    let P := Params.modelled
    let J : Nat → Byte := fun _ => 165
    let s : Str := ⟨[97, 98, 0]⟩
    (assignA P J true s (.view 1)).out = .ub .useAfterFree ∧ (assignA P J false s (.view 1)).out = .ub .outOfBounds ∧
    (concatA P J true s .self).out = .ub .overlap ∧ (concatA P J false s .self).out = .ub .overlap ∧
    (concatA P J true s (.view 0)).out = .ub .useAfterFree ∧ (concatA P J false s (.view 0)).out = .ub .overlap ∧
    (formatA P J true s 1 id .self).out = .ub .useAfterFree ∧ (formatA P J false s 1 id .self).out = .ub .overlap ∧
    (∀ mv, (stepA P J mv s (.append .self)).defined = false) ∧
    s.WF ∧ (AOp.assign (.view 1)).InText s ∧ (AOp.assign (.view 1)).NulFree s ∧ ¬ (AOp.assign (.view 1)).InContract s.abs ∧
    ¬ (AOp.concat .self).InContract s.abs := by
  decide

/-- **the whole excluded region is undefined, not just the witnesses**: for every lawful size arithmetic, every well-formed
    target, every offset inside its text, every position inside its text and BOTH behaviours of the allocator, an `assign`
    whose operand is a view at an offset > 0, and a `concat`, `append` and `%s` write whose operand is the target or any view,
    is undefined — a moving `realloc` makes the copy read freed memory (also for any
    other `render`), a `realloc` in place leaves `strcpy` / `strcat` / `vsprintf` with overlapping objects or a view whose
    terminator was cut off.  (So the hypothesis of the history theorems excludes nothing that the code defines: `C16_contract_is_exact`.) -/
theorem C16_alias_always_undefined {P : Params} (hP : P.Lawful) (J : Nat → Byte) (mv : Bool) (s : Str) (hs : s.WF)
    (src : Src) (halias : ¬ src.Disjoint) (hoff : src.off ≤ s.abs.length) (pos : Nat) (hpos : pos ≤ s.abs.length) :
    (0 < src.off → (stepA P J mv s (.assign src)).out.isUB = true) ∧ (stepA P J mv s (.concat src)).out.isUB = true ∧
    (stepA P J mv s (.append src)).out.isUB = true ∧ (stepA P J mv s (.formatS pos src)).out.isUB = true ∧
    (mv = true → ∀ render, (formatA P J mv s pos render src).out.isUB = true) := by
  have hin : inBlock s.buf src.off = true := by
    obtain ⟨c, r, rfl, hc, habs⟩ := hs.view
    rw [habs] at hoff; exact inBlock_view c r hc _ hoff
  cases src with
  | val x => exact absurd trivial halias
  | self =>
    refine ⟨fun h => absurd h (Nat.lt_irrefl 0), ?_, ?_, formatAt_id_ub hP J mv s hs pos 0 hpos hoff, ?_⟩
    · show (concatA P J mv s .self).out.isUB = true; rw [concatA_self_ub hP J mv s hs]; rfl
    · show (concatA P J mv s .self).out.isUB = true; rw [concatA_self_ub hP J mv s hs]; rfl
    · intro hm render; subst hm
      show (formatAt P J true s pos render 0).out.isUB = true
      rw [(moved_is_useAfterFree P J s 0 hin pos render).2.2]; rfl
  | view off =>
    refine ⟨fun h => by
        show (assignA P J mv s (.view off)).out.isUB = true
        rw [assignA_view_pos P J mv s off h]; exact assignAt_ub hP J mv s hs off hoff,
      concatA_view_ub hP J mv s hs off hoff, concatA_view_ub hP J mv s hs off hoff,
      formatAt_id_ub hP J mv s hs pos off hpos hoff, ?_⟩
    intro hm render; subst hm
    show (formatAt P J true s pos render off).out.isUB = true
    rw [(moved_is_useAfterFree P J s off hin pos render).2.2]; rfl

/-- **`assign(s, s)` leaves `s` unchanged** (fix 744a45f: `if (val is s->val) { return; }` right after `char* val = c_str(obj);`).
    For every lawful parameter set — in particular the current source, `C16_assign_self_current_source` —, every object
    (well-formed or not), both behaviours the allocator could have had, and both operand forms whose C string is the target's
    buffer (the target itself; a view at offset 0, `$S(c_str(s))`): the call returns normally, the object is the same down to
    the last byte of its allocation, and not a byte was read or written.  So it is the by-value result (`assign` of the text
    the operand denotes = the text itself) and the call is in contract (`AOp.InContract`); also reached through
    `set(tree, k, v)` / `set(array, i, x)` with the container's own String objects.  A view at an offset > 0 is a different
    pointer and stays in the finding's territory (`C16_alias_always_undefined`). -/
theorem C16_assign_self {P : Params} (hP : P.Lawful) (J : Nat → Byte) (mv : Bool) (s : Str) :
    stepA P J mv s (.assign .self) = { st := s, out := .ok 0, log := [] } ∧
    stepA P J mv s (.assign (.view 0)) = { st := s, out := .ok 0, log := [] } ∧
    (s.WF → (stepA P J mv s (.assign .self)).st.abs = Spec.step s.abs ((AOp.assign .self).absOp s.abs) ∧
      (stepA P J mv s (.assign .self)).defined = true ∧
      (AOp.assign .self).InContract s.abs ∧ (AOp.assign (.view 0)).InContract s.abs) :=
  ⟨assignA_self hP J mv s .self id rfl, assignA_self hP J mv s (.view 0) id rfl,
   fun _ => ⟨by rw [show stepA P J mv s (.assign .self) = _ from assignA_self hP J mv s .self id rfl]; rfl,
             by rw [show stepA P J mv s (.assign .self) = _ from assignA_self hP J mv s .self id rfl]; rfl,
             Or.inr rfl, Or.inr rfl⟩⟩

/-- **before 744a45f** (`Params.assignUnguarded`: no early return) `assign(s, s)` went on to `realloc(s->val, strlen(val) + 1)`
    and `strcpy(s->val, val)` with `val` the OLD pointer: for every well-formed target and both behaviours of the allocator the
    call was undefined (moved: the copy reads the freed block; in place: `strcpy(p, p)`), on "ab" concretely; the code as it is
    now returns the object unchanged.  A source without the guard is not `Lawful`. -/
theorem C16_assign_self_old_refuted :
    (∀ (J : Nat → Byte) (mv : Bool) (s : Str), s.WF → (stepA .assignUnguarded J mv s (.assign .self)).out.isUB = true) ∧
    (assignA .assignUnguarded (fun _ => 165) true ⟨[97, 98, 0]⟩ .self).out = .ub .useAfterFree ∧
    (assignA .assignUnguarded (fun _ => 165) false ⟨[97, 98, 0]⟩ .self).out = .ub .overlap ∧
    (assignA .modelled (fun _ => 165) true ⟨[97, 98, 0]⟩ .self).st = ⟨[97, 98, 0]⟩ ∧
    ¬ Params.assignUnguarded.Lawful := by
  refine ⟨fun J mv s hs => ?_, by decide, by decide, by decide, fun h => by have := h.assignSelf; revert this; decide⟩
  have hP : ({ Params.assignUnguarded with assignSelfReturns := true } : Params).Lawful := Params.modelled_lawful
  have := assignAt_ub hP J mv s hs 0 (Nat.zero_le _)
  exact this

/-- **`resize` when the allocation fails** (fix 63509f2: the `CELLO_MEMORY_CHECK` test directly after the `realloc`).
    For every lawful parameter set — the current source: `C16_resize_check_current_source` —, every object and every `n`:
    `String_Resize` raises OutOfMemoryError; nothing was written (the only access is the `strlen` of `String_Len` before the
    `realloc`, inside the allocation for a well-formed object).  What it leaves: `s->val = realloc(s->val, n+1)` has already
    stored the NULL, so the object holds `val == NULL` (`buf = []`: NOT a C string any more — no terminator, `¬ WF`) and the
    old block, which a failed `realloc` does not free, is no longer referenced by the object (leaked).  With a `realloc` that
    succeeds `resizeR` is `resize`. -/
theorem C16_resize_alloc_failure {P : Params} (hP : P.Lawful) (J : Nat → Byte) (s : Str) (n : Nat) :
    (resizeR P J s n true).out = .raised .OutOfMemoryError ∧ (resizeR P J s n true).st.buf = [] ∧ ¬ (resizeR P J s n true).st.WF ∧
    (∀ a ∈ (resizeR P J s n true).log, a.write = false) ∧ (s.WF → (resizeR P J s n true).safe = true) ∧
    resizeR P J s n false = resize P J s n := by
  have e : resizeR P J s n true = { st := ⟨[]⟩, out := .raised .OutOfMemoryError, log := [Acc.rd 0 (strlen s.buf 0 + 1) s.buf.length] } := by
    simp [resizeR, resizeFail, hP.resizeCheck]
  rw [e]
  refine ⟨rfl, rfl, by simp [Str.WF], by simp [Acc.rd], fun hs => ?_, by simp [resizeR]⟩
  have := observe_safe hs
  simpa [Res.safe, observeLog] using this

/-- **before 63509f2** (`Params.resizeChecksLate`) the `memset(&s->val[m], 0, n - m)` / `s->val[n] = '\0'` stood between the
    `realloc` and the test: a failed allocation was a write through NULL — undefined, no exception (growing and shrinking
    alike; observed as a segmentation fault for `resize(s, 1 << 46)`).  A source with that order is not `Lawful`. -/
theorem C16_resize_alloc_failure_old_refuted :
    (∀ (J : Nat → Byte) (s : Str) (n : Nat), (resizeR .resizeChecksLate J s n true).out = .ub .nullDeref) ∧
    (resizeR .resizeChecksLate (fun _ => 165) ⟨[97, 98, 0]⟩ 9 true).log = [.rd 0 3 3, .wr 2 7 0] ∧
    (resizeR .resizeChecksLate (fun _ => 165) ⟨[97, 98, 0]⟩ 1 true).log = [.rd 0 3 3, .wr 1 1 0] ∧
    (resizeR .modelled (fun _ => 165) ⟨[97, 98, 0]⟩ 9 true).out = .raised .OutOfMemoryError ∧
    ¬ Params.resizeChecksLate.Lawful := by
  refine ⟨fun J s n => by simp [resizeR, resizeFail, Params.resizeChecksLate, Params.modelled], by decide, by decide, by decide,
    fun h => by have := h.resizeCheck; revert this; decide⟩

/-- **the hypothesis of the history theorems excludes exactly the undefined calls.**  For every lawful parameter set,
    well-formed target, operation whose operand (if it is a view) starts inside the text and is NUL-free, and — for a `%s`
    write — a position inside the text: if the call is in contract (`AOp.InContract`) it is defined for both behaviours of the
    allocator; if it is not, it is undefined for both.  (In contract: by-value operands; `assign` with the target or a view at
    offset 0; `rem` with any operand.  Not in contract = KF-C16-alias-operand: `assign` with a view at an offset > 0; `concat`,
    `append`, `%s` with the target or any view.) -/
theorem C16_contract_is_exact {P : Params} (hP : P.Lawful) (J : Nat → Byte) (mv : Bool) (s : Str) (hs : s.WF) (op : AOp)
    (hin : op.InText s) (hnf : op.NulFree s) (hpos : ∀ pos src, op = .formatS pos src → pos ≤ s.abs.length) :
    (op.InContract s.abs → (stepA P J mv s op).defined = true) ∧
    (¬ op.InContract s.abs → (stepA P J mv s op).out.isUB = true) := by
  constructor
  · intro hc
    have hn : (op.absOp s.abs).NulFree := by rw [← toOp_eq_absOp hs hin]; exact hnf
    obtain ⟨h, hub⟩ := stepA_ok hP J mv s op hs hc hn
    simp [Res.defined, h.safe, hub]
  · intro hc
    cases op with
    | assign src =>
      cases src with
      | val x => exact absurd (Or.inl trivial) hc
      | self => exact absurd (Or.inr rfl) hc
      | view off =>
        have h0 : 0 < off := Nat.pos_of_ne_zero fun h => hc (Or.inr h)
        exact (C16_alias_always_undefined hP J mv s hs (.view off) id hin 0 (Nat.zero_le _)).1 h0
    | concat src =>
      exact (C16_alias_always_undefined hP J mv s hs src hc hin 0 (Nat.zero_le _)).2.1
    | append src =>
      exact (C16_alias_always_undefined hP J mv s hs src hc hin 0 (Nat.zero_le _)).2.2.1
    | formatS pos src =>
      exact (C16_alias_always_undefined hP J mv s hs src hc hin pos (hpos pos src rfl)).2.2.2.1
    | rem src => exact absurd hin hc
    | resize n => exact absurd trivial hc
    | clear => exact absurd trivial hc
    | format pos f => exact absurd trivial hc

/-- histories all of whose operands are by value (the form the theorems had before the operands were widened) are in
    contract, and their specification is the by-value one -/
theorem C16_by_value_histories_in_contract (a : List Byte) (ops : List AOp) (hna : ∀ op ∈ ops, op.NoAlias) :
    HistOK a ops ∧ Spec.runA a ops = Spec.run a (ops.map AOp.plain) :=
  histOK_of_noAlias ops a hna

/-- **`show_to(s, s, pos)` / `print_to(s, pos, "%$", s)` — String_Show into the String it shows — never yields the shown
    text**: `String_Show` walks `s->val` with a cursor while every `print_to` it makes reallocates that block.  For every
    lawful size arithmetic, well-formed target and position inside the text: as soon as the first character's `print_to` moves
    the block (`mv 1`), the next `*v` reads freed memory; and on "hi" with an allocator that never moves, the walk is still
    running after 40 characters (the text grows as fast as the cursor advances) — by value the result would be `"hi"` in
    quotes.  Same finding (KF-C16-alias-operand, site String_Show): the shown object's bytes lie in the target's buffer. -/
theorem C16_show_self_refuted :
    (∀ {P : Params}, P.Lawful → ∀ (J : Nat → Byte) (mv : Nat → Bool), mv 1 = true → ∀ (fuel : Nat) (s : Str), s.WF →
      ∀ pos, pos ≤ s.abs.length → ∃ r, showSelf P J mv (fuel + 2) s pos = some r ∧ r.out = .ub .useAfterFree) ∧
    (showSelf .modelled (fun _ => 165) (fun _ => true) 8 ⟨[104, 105, 0]⟩ 0).map (·.out) = some (.ub .useAfterFree) ∧
    showSelf .modelled (fun _ => 165) (fun _ => false) 40 ⟨[104, 105, 0]⟩ 0 = none ∧
    (showFrags [104, 105]).flatten = [34, 104, 105, 34] := by
  refine ⟨fun hP J mv hmv fuel s hs pos hpos => showSelf_moved_ub hP J mv hmv fuel s hs pos hpos, by decide, by decide +kernel, by decide⟩

/-- **what does hold for aliased operands** (`_partial`: the part of `C16_alias_statement stepA` that is true; since the
    second audit round aliased `rem` and `assign(s, s)` are also inside the history theorems, `HistOK`).
    `rem(s, obj)` with `obj` the target or a view into it makes no `realloc` and reads the operand completely before its one
    `memmove`: it is `rem` of the bytes the operand denotes — defined, well-formed, first occurrence removed (`rem(s, s)`
    empties `s`; a view of a suffix that also occurs earlier removes the EARLIER occurrence), ValueError never (a suffix of
    the text occurs in it).  The observers `cmp / eq / mem` only read.  And every step whose operand is given by value is
    the by-value step, whatever the allocator does. -/
theorem C16_alias_partial {P : Params} (hP : P.Lawful) (J : Nat → Byte) (mv : Bool) (s : Str) (hs : s.WF) :
    (∀ src : Src, src.off ≤ s.abs.length → NulFree (src.read s) →
      stepA P J mv s (.rem src) = rem P s (src.read s) ∧
      (stepA P J mv s (.rem src)).defined = true ∧ (stepA P J mv s (.rem src)).st.WF ∧
      (stepA P J mv s (.rem src)).st.abs = (removeFirst (src.read s) s.abs).getD s.abs) ∧
    (stepA P J mv s (.rem .self)).st.abs = [] ∧
    (∀ op : AOp, op.NoAlias → stepA P J mv s op = step P J s op.plain) := by
  have key : ∀ src : Src, src.off ≤ s.abs.length → stepA P J mv s (.rem src) = rem P s (src.read s) := by
    intro src hoff
    cases src with
    | val x => rfl
    | self => rfl
    | view off =>
      obtain ⟨c, r, rfl, hc, habs⟩ := hs.view
      rw [habs] at hoff
      have := inBlock_view c r hc off hoff
      simp [stepA, remA, this, Src.read]
  refine ⟨?_, ?_, fun op h => stepA_noAlias P J mv s h⟩
  · intro src hoff hnf
    have h := step_ok hP J s (.rem (src.read s)) hs hnf
    rw [key src hoff]
    exact ⟨rfl, by simp [Res.defined, show (rem P s (src.read s)).safe = true from h.safe,
      show (rem P s (src.read s)).out.isUB = false from step_not_ub P J s (.rem (src.read s))], h.wf, h.abs⟩
  · have h := step_ok hP J s (.rem (Src.read s .self)) hs (abs_nulFree s)
    rw [key .self (Nat.zero_le _)]
    have habs : (rem P s (Src.read s .self)).st.abs = _ := h.abs
    rw [habs]
    show (removeFirst s.abs s.abs).getD s.abs = []
    have : removeFirst s.abs s.abs = some [] := by
      rw [removeFirst_some_iff]
      exact ⟨[], [], by simp, rfl, fun _ _ _ => Nat.zero_le _⟩
    rw [this]; rfl

/-- **the proposed repair satisfies the full statement**: with `String_Assign` moving an operand that lies inside the target
    to the front before it shrinks the block, `String_Concat` taking the lengths first, re-deriving an inside operand from the
    NEW block by its offset and copying with `memmove` + an explicit terminator, and `String_Format_To` formatting into a
    temporary before the `realloc` (`assignFix`, `concatFix`, `formatFix` in Cello/Str.lean mirror the diff given to the
    coordinator), every operand form gives the by-value result, for every allocator behaviour. -/
theorem C16_alias_repaired : C16_alias_statement stepFix :=
  fun _ hP J mv s op hs hin hnf => stepFix_ok hP J mv s op hs hin hnf

/-- the hypothesis `HistOK` is met by a reachable history that exercises every operation, from `new(String, $S("hello"))` —
    with `assign(s, s)`, `rem(s, $S(c_str(s) + 6))` (the suffix "lo" of "helo wlo": the EARLIER occurrence goes) and finally
    `rem(s, s)`; histories with an aliased `concat` / `%s` / `assign` from a view at an offset > 0, or a `rem` with a view
    behind the terminator, do not meet it (and the decision procedure says so) -/
example :
    let ops : List AOp := [.concat (.val [32, 119]), .resize 9, .rem (.val [108]), .assign .self, .append (.val [108, 111]),
      .rem (.view 6), .format 3 [88, 89], .append (.val [33]),
      .formatS 2 (.val [113]), .resize 2, .rem (.val [122]), .clear, .assign (.val [97, 97, 97]), .rem (.val [97, 97]),
      .assign (.view 0), .rem (.view 1), .append (.val [98]), .rem .self]
    HistOK [104, 101, 108, 108, 111] ops ∧ (∀ op ∈ ops, op.plain.NulFree) ∧
    (runA .modelled (fun _ => 165) (fun i => i % 2 == 0) 0 (new .modelled (fun _ => 165) (some [104, 101, 108, 108, 111])).st ops).1
      = ⟨[0, 98, 0]⟩ ∧
    Spec.runA [104, 101, 108, 108, 111] ops = [] ∧
    Spec.runA [104, 101, 108, 108, 111] (ops.take 6) = [104, 101, 32, 119, 108, 111] ∧
    ¬ HistOK [97, 98] [.concat .self] ∧ ¬ HistOK [97, 98] [.formatS 0 (.view 2)] ∧ ¬ HistOK [97, 98] [.assign (.view 1)] ∧
    ¬ HistOK [97, 98] [.clear, .rem (.view 1)] ∧ HistOK [97, 98] [.rem (.view 2), .assign .self] := by decide

/-- the hypotheses of `C16_alias_statement` / `C16_alias_repaired` are met by an aliased call on a String with stale bytes
    behind its terminator, and the repaired step gives the by-value result there: `concat(s, $S(c_str(s) + 1))` on "hi" -/
example :
    let s : Str := ⟨[104, 105, 0, 0, 165]⟩
    s.WF ∧ (AOp.concat (.view 1)).InText s ∧ (AOp.concat (.view 1)).NulFree s ∧
    (stepFix .modelled (fun _ => 165) true s (.concat (.view 1))).st = ⟨[104, 105, 105, 0]⟩ ∧
    (stepFix .modelled (fun _ => 165) true s (.assign (.view 1))).st = ⟨[105, 0]⟩ ∧
    (stepFix .modelled (fun _ => 165) true s (.formatS 2 .self)).st = ⟨[104, 105, 104, 105, 0]⟩ := by decide

/-! ### non-vacuity: concrete non-trivial states meet the hypotheses -/

/-- a grown, then partly removed String: stale bytes behind the terminator, allocation larger than the text -/
example :
    let s : Str := ⟨[104, 105, 0, 0, 0, 165]⟩
    s.WF ∧ s.abs = [104, 105] ∧ Op.NulFree (.concat [33]) ∧
    (step .modelled (fun _ => 165) s (.concat [33])).st = ⟨[104, 105, 33, 0]⟩ := by decide

/-- a history that exercises every operation, from `new(String, $S("hello"))` -/
example :
    let ops : List Op := [.concat [32, 119], .resize 9, .rem [108], .format 3 [88, 89], .append [33], .resize 2,
      .rem [122], .clear, .assign [97, 97, 97], .rem [97, 97]]
    (∀ op ∈ ops, op.NulFree) ∧
    (run .modelled (fun _ => 165) (new .modelled (fun _ => 165) (some [104, 101, 108, 108, 111])).st ops).1
      = ⟨[97, 0, 97, 0]⟩ ∧
    Spec.run [104, 101, 108, 108, 111] ops = [97] := by decide

/-- `C16_rem_first_occurrence` is not vacuous: "aaa" = "" ++ "aa" ++ "a" with no earlier occurrence -/
example : ([97, 97, 97] : List Byte) = [] ++ [97, 97] ++ [97] ∧
    ∀ a' b' : List Byte, ([97, 97, 97] : List Byte) = a' ++ [97, 97] ++ b' → ([] : List Byte).length ≤ a'.length := by
  exact ⟨rfl, fun _ _ _ => Nat.zero_le _⟩

/-- `C16_print_format` / `C16_print_current_source` are not vacuous: `print_to(s, 2, "%i%% %s:%$", 42, "all", tuple(1, "x"))`
    on a String holding "abc" with a stale byte behind the terminator: well-formed format, three specifications, `%%`, a nested
    `show_to`; the result is "ab" ++ "42% all:tuple(1, \"x\")" and the returned position 23 is its length -/
example :
    let s : Str := ⟨[97, 98, 99, 0, 7]⟩
    let fmt : List Byte := [37, 105, 37, 37, 32, 37, 115, 58, 37, 36]
    let args : List Val := [.int 42, .str [97, 108, 108], .tup [.int 1, .str [120]]]
    s.WF ∧ 2 ≤ s.abs.length ∧ NulFree fmt ∧ (∀ v ∈ args, v.nulFree = true) ∧
    (printFmt .modelled .modelled (fun _ => 165) renderSpec showVal s 2 fmt args).map (fun r => (r.1.abs, r.2.1, r.1.cap))
      = some ([97, 98, 52, 50, 37, 32, 97, 108, 108, 58, 116, 117, 112, 108, 101, 40, 49, 44, 32, 34, 120, 34, 41], 23, 24) := by
  decide

/-- the steps of that call: literal, `%%`, conversions and the bracketed `show_to` (with its own nested `show_to`s) -/
example :
    (parseFmt [37, 105, 37, 37, 32, 37, 115, 58, 37, 36]).bind
        (fun segs => plan renderSpec showVal segs [.int 42, .str [97, 108, 108], .tup [.int 1, .str [120]]]) =
      some [.call .int 2 [52, 50], .call .pct 2 [37], .call .lit 1 [32], .call .str 2 [97, 108, 108], .call .lit 1 [58],
        .enter, .call .lit 6 [116, 117, 112, 108, 101, 40], .enter, .call .int 3 [49], .leave, .call .lit 2 [44, 32],
        .enter, .call .lit 1 [34], .call .chr 2 [120], .call .lit 1 [34], .leave, .call .lit 1 [41], .leave] := by
  decide

/-- `C16_read_at_position` is not vacuous: reading a word at position 2 of "a  bc d" (stale bytes behind the terminator) -/
example : (⟨[97, 32, 32, 98, 99, 32, 100, 0, 120, 121]⟩ : Str).WF ∧
    scanWord ⟨[97, 32, 32, 98, 99, 32, 100, 0, 120, 121]⟩ 2 = some ([98, 99], 5) ∧
    scanWord ⟨[97, 32, 0, 98]⟩ 1 = none := by decide

/-! ## `String_Look`: reading a shown String back (the Look member of `Instance(Show, String_Show, String_Look)`) -/

/-- **The current source** of `String_Look` has the parameters the theorems below ask for: `String_Clear(self)` is its first
    statement, both quote tests are on `'"'`, the escape lead is the backslash, and its `switch` is `String_Show`'s escape table
    turned round (`unescTable`: every `case c: String_Concat(self, $S("…"))` of the source, as read by translate/g_str.py). -/
theorem C16_look_current_source : CelloGen.Str.lookParams.Lawful :=
  ⟨rfl, rfl, rfl, rfl, by decide⟩

/-- **`String_Look` is a history of `clear` and `concat`**: for every parameter set, target, input text and position, the object
    it leaves, its outcome and its access log are those of the op list `lookOps` (one `clear`, then one `concat` per character read
    until the closing quote or until FormatError leaves) — so every theorem about histories covers it. -/
theorem C16_look_is_history (P : Params) (L : LookParams) (J : Nat → Byte) (s : Str) (inp : List Byte) (pos : Nat) :
    (look P L J s inp pos).st = (run P J s (lookOps L inp pos).1).1 ∧
    (look P L J s inp pos).out = (lookOps L inp pos).2 ∧
    (look P L J s inp pos).log = ((run P J s (lookOps L inp pos).1).2.map Res.log).flatten :=
  look_eq_run P L J s inp pos

/-- **`String_Look` keeps the property on every input.**  For lawful parameters, a well-formed target, ANY NUL-free input text and
    any position (a complete shown String, one without an opening quote, an unterminated one, an unknown escape letter, nothing
    at all), whatever bytes `realloc` hands out: afterwards the target is well-formed, holds exactly the text the abstract history
    computes (`[]` after the clear, then the characters read, escapes undone — also when FormatError leaves: then what was read until
    there), is NUL-terminated at its `len` inside its allocation, and no access of any of its `realloc` / `strcat` steps left the
    allocation current at that moment; the outcome is the reader's (`ok pos'` or FormatError). -/
theorem C16_look_refines {P : Params} (hP : P.Lawful) {L : LookParams} (hL : L.Lawful) (J : Nat → Byte) (s : Str) (hs : s.WF)
    (inp : List Byte) (hin : NulFree inp) (pos : Nat) :
    let r := look P L J s inp pos
    r.st.WF ∧ r.st.abs = Spec.run s.abs (lookOps L inp pos).1 ∧
    r.st.buf[len r.st]? = some 0 ∧ len r.st < r.st.cap ∧ r.log.all Acc.inBounds = true ∧
    r.out = (lookOps L inp pos).2 ∧ (r.out = .raised .FormatError ∨ ∃ p, r.out = .ok p) := by
  intro r
  obtain ⟨hwf, habs, hsafe, hout⟩ := look_ok hP L J s hs inp pos (lookOps_nulFree hL inp hin pos)
  refine ⟨hwf, habs, (terminated_of_wf hwf).1, (terminated_of_wf hwf).2, hsafe, hout, ?_⟩
  show (look P L J s inp pos).out = _ ∨ _
  rw [hout]
  exact lookOps_outcome L inp pos

/-- **Look reads back what Show wrote.**  Let `x` be any NUL-free text and let the input hold, from position `|pre|` on, the text
    `show_to` writes for the String `x` (`textOf (showVal (.str x))`: quote, characters with `String_Show`'s escapes, quote) followed by
    anything.  Then `look_from(s, input, |pre|)` returns normally, the position returned is just behind the closing quote, and the
    target — whatever it held before — holds exactly `x`, NUL-terminated at `len = |x|` inside its allocation, all accesses in bounds. -/
theorem C16_look_reads_back_show {P : Params} (hP : P.Lawful) {L : LookParams} (hL : L.Lawful) (J : Nat → Byte) (s : Str) (hs : s.WF)
    (x : List Byte) (hx : NulFree x) (pre suf : List Byte) :
    let r := look P L J s (pre ++ textOf (showVal (.str x)) ++ suf) pre.length
    r.st.abs = x ∧ r.out = .ok (pre.length + (textOf (showVal (.str x))).length) ∧ r.st.WF ∧
    r.st.buf[x.length]? = some 0 ∧ x.length < r.st.cap ∧ r.log.all Acc.inBounds = true := by
  intro r
  have hops := lookOps_shown hL x pre suf
  have hnf : ∀ op ∈ (lookOps L (pre ++ shownText x ++ suf) pre.length).1, op.NulFree := by
    rw [hops]; intro op hop
    simp only [List.mem_cons, List.mem_map] at hop
    rcases hop with rfl | ⟨b, hb, rfl⟩
    · simp [Op.NulFree]
    · simp only [Op.NulFree, NulFree, List.mem_singleton]; exact fun h => hx (h ▸ hb)
  obtain ⟨hwf, habs, hsafe, hout⟩ := look_ok hP L J s hs (pre ++ shownText x ++ suf) pre.length hnf
  have hr : r = look P L J s (pre ++ shownText x ++ suf) pre.length := by show look _ _ _ _ _ _ = _; rw [shownText_eq_show]
  have hx' : r.st.abs = x := by
    rw [hr, habs, hops]
    have : (Op.clear :: x.map (fun b => Op.concat [b])) = Op.clear :: (x.map (fun b => [b])).map Op.concat := by simp [List.map_map, Function.comp_def]
    rw [this]; simp only [Spec.run, Spec.step]; rw [spec_run_concats, flatten_singletons]; simp
  have hlen : len r.st = x.length := by rw [len_eq, hx']
  refine ⟨hx', by rw [hr, hout, hops, shownText_eq_show], hr ▸ hwf, ?_, ?_, hr ▸ hsafe⟩
  · have := (terminated_of_wf (hr ▸ hwf : r.st.WF)).1; rwa [hlen] at this
  · have := (terminated_of_wf (hr ▸ hwf : r.st.WF)).2; rwa [hlen] at this

/-- Why `String_Clear` must stand first: without it (`LookParams.noClear`) the characters read are appended to whatever the
    target held — look into a String holding "o" of the text `"a"` leaves "oa". -/
theorem C16_look_without_clear_refuted :
    (look Params.modelled LookParams.noClear (fun _ => 0xA5) ⟨[111, 0]⟩ [34, 97, 34] 0).st.abs = [111, 97] ∧
    (look Params.modelled LookParams.modelled (fun _ => 0xA5) ⟨[111, 0]⟩ [34, 97, 34] 0).st.abs = [97] := by decide

/-- `C16_look_refines` / `C16_look_reads_back_show` are not vacuous: reading `"a\n?"` … wait -/
example :
    -- x = a, newline, `"`: shown as `"a\n\""`; read at position 2 of `xy"a\n\""zz`
    textOf (showVal (.str [97, 10, 34])) = [34, 97, 92, 110, 92, 34, 34] ∧
    (look Params.modelled CelloGen.Str.lookParams (fun _ => 0xA5) ⟨[111, 108, 100, 0]⟩
        ([120, 121] ++ [34, 97, 92, 110, 92, 34, 34] ++ [122, 122]) 2).st = ⟨[97, 10, 34, 0]⟩ ∧
    (look Params.modelled CelloGen.Str.lookParams (fun _ => 0xA5) ⟨[111, 108, 100, 0]⟩
        ([120, 121] ++ [34, 97, 92, 110, 92, 34, 34] ++ [122, 122]) 2).out = .ok 9 ∧
    -- an unterminated literal and an unknown escape letter: FormatError, the target holds what was read until there
    (look Params.modelled CelloGen.Str.lookParams (fun _ => 0xA5) ⟨[111, 108, 100, 0]⟩ [34, 97, 98] 0).out = .raised .FormatError ∧
    (look Params.modelled CelloGen.Str.lookParams (fun _ => 0xA5) ⟨[111, 108, 100, 0]⟩ [34, 97, 98] 0).st = ⟨[97, 98, 0]⟩ ∧
    (look Params.modelled CelloGen.Str.lookParams (fun _ => 0xA5) ⟨[111, 108, 100, 0]⟩ [34, 97, 92, 122, 34] 0).st = ⟨[97, 0]⟩ ∧
    -- no opening quote: only the clear has happened
    (look Params.modelled CelloGen.Str.lookParams (fun _ => 0xA5) ⟨[111, 108, 100, 0]⟩ [97, 34] 0).st = ⟨[0]⟩ := by decide

/-! ## receivers that are not heap Strings (`$S("…")`: AllocStack; file-scope Strings: AllocStatic) -/

/-- **The current source** has the `CELLO_ALLOC_CHECK` test (`AllocStack or AllocStatic → throw(ValueError, …)`) before the first
    `realloc(` / `free(` of String_Assign, String_Clear, String_Concat, String_Resize, String_Format_To and String_Del, and in
    String_Assign the `val is s->val` return before it (as read by translate/g_str.py on this run). -/
theorem C16_guards_current_source : CelloGen.Str.guardParams.Lawful := by decide

/-- **A String that is not on the heap.**  With the checks where the source has them, on a receiver of class AllocStack / AllocStatic:
    every operation of the property that reallocates (assign, concat, append, resize, clear, a formatted write) is refused — ValueError,
    and neither the buffer nor the pointer is touched (`ROut.refused` carries no state: the caller's `s` is what there is);
    `rem`, which edits in place, runs and meets the whole per-step statement (`StepOK`: well-formed, the text is the list function's,
    accesses inside the buffer, ValueError exactly when absent); `assign(s, s)` returns at once with nothing changed. -/
theorem C16_non_heap_receiver {G : GuardParams} (hG : G.Lawful) {P : Params} (hP : P.Lawful) (J : Nat → Byte) (c : Cls)
    (hc : c.nonHeap = true) (s : Str) (hs : s.WF) (op : Op) (hop : op.NulFree) :
    (op.reallocs = true → recvStep G P J c s op = .refused) ∧
    (op.reallocs = false → recvStep G P J c s op = .ran (step P J s op) ∧ StepOK s op (step P J s op)) ∧
    recvAssignSelf G c s = .ran ⟨s, .ok 0, []⟩ := by
  have hG' : G = GuardParams.modelled := hG
  subst hG'
  refine ⟨?_, ?_, by simp [recvAssignSelf, GuardParams.modelled]⟩
  · intro hr
    cases op <;> simp_all [recvStep, Op.reallocs, GuardParams.guards, GuardParams.modelled]
  · intro hr
    exact ⟨by simp [recvStep, hr], step_ok hP J s op hs hop⟩

/-- on a heap String (of its own, or inside a container: AllocData) the checks do not fire: the call is the plain step of the history
    theorems, whatever the guard positions -/
theorem C16_heap_receiver_runs (G : GuardParams) (P : Params) (J : Nat → Byte) (c : Cls) (hc : c.nonHeap = false) (s : Str) (op : Op) :
    recvStep G P J c s op = .ran (step P J s op) := by
  simp [recvStep, hc]

/-- what the check is for: without the one of String_Concat (`GuardParams.concatUnguarded`) `concat($S("a"), $S("b"))` hands the stack
    buffer to `realloc` -/
theorem C16_missing_alloc_check_refuted :
    (match recvStep GuardParams.concatUnguarded Params.modelled (fun _ => 0xA5) .stack ⟨[97, 0]⟩ (.concat [98]) with
     | .badRealloc => true | _ => false) = true ∧
    (match recvStep GuardParams.modelled Params.modelled (fun _ => 0xA5) .stack ⟨[97, 0]⟩ (.concat [98]) with
     | .refused => true | _ => false) = true := by decide

/-- `C16_non_heap_receiver` is not vacuous: rem of the middle occurrence on a stack String holding "abcabc", with the guards of the source -/
example :
    (match recvStep CelloGen.Str.guardParams Params.modelled (fun _ => 0xA5) .stack ⟨[97, 98, 99, 97, 98, 99, 0, 165]⟩ (.rem [99, 97]) with
     | .ran r => r.st.abs == [97, 98, 98, 99] && r.safe | _ => false) = true ∧
    (match recvStep CelloGen.Str.guardParams Params.modelled (fun _ => 0xA5) .static ⟨[97, 0]⟩ (.resize 0) with
     | .refused => true | _ => false) = true := by decide

end Cello.Str
