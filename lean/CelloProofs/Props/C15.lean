/-
  C15 — show/look and print/scan round-trip values.  (under construction: theorems are added below)
-/
import Cello.Text
import CelloGen.Text

namespace Cello.Text

/-- the loops and scanner branches the model was written against are the ones in the source now -/
theorem C15_source_as_modelled :
    CelloGen.Text.showSkeleton = CelloGen.Text.showSkeletonModelled ∧
    CelloGen.Text.lookSkeleton = CelloGen.Text.lookSkeletonModelled ∧
    CelloGen.Text.scanFromWith = CelloGen.Text.scanFromWithModelled ∧
    CelloGen.Text.printToWith = CelloGen.Text.printToWithModelled ∧
    CelloGen.Text.stringFormatFrom = CelloGen.Text.stringFormatFromModelled ∧
    CelloGen.Text.fileFormatFrom = CelloGen.Text.fileFormatFromModelled ∧
    CelloGen.Text.fileFormatTo = CelloGen.Text.fileFormatToModelled := by
  refine ⟨rfl, rfl, rfl, rfl, rfl, rfl, rfl⟩

end Cello.Text
