/-
  C15 — show/look and print/scan round-trip values.

  Property theorems only (helper lemmas: CelloProofs/Lemmas/Text.lean, TextInt.lean, TextFloat.lean, TextRound.lean, TextSeq.lean,
  TextFmt.lean).  Model: Cello/Text.lean.  `srcCfg` collects what the translator reads from the source on every run
  (CelloGen/Text.lean): the two escape tables of String_Show / String_Look, the delimiter and escape bytes, whether the reader's
  escape arm ends in `continue` (fix d6bdde9), what scan_from_with adds to `pos` for `%%` (fix 619a9b3), the arms of the integer
  branch of scan_from_with — which object scanf stores into for which length modifier, and how it is widened (fix 9114264) — and
  the test that selects the `double` arm of the floating branch.

  Int: every specification `%[hh|h|l|ll|j|z|t|q][d|i|o|u|x|X]` (54) is covered; what is read back is C's conversion of the value to
  the type the modifier names, i.e. the value itself on the range of that type (`C15_intspec_roundtrip`, `C15_intspec_in_width`).
  Float: the value clause is a theorem (`C15_float_value`, `C15_float_within`; for `%le` / `%lE` numerically: `C15_float_e_within`):
  both libc conversions are exact executable functions of the model and the statement is arithmetic about them.  A floating specification without `l` makes
  scan_from_with store through a `float`: known finding KF-C15-float-spec-narrow (`C15_float_narrow_refuted`); for values
  representable in a `float` the round trip is proved (`C15_float_narrow_partial`).
-/
import Cello.Text
import CelloGen.Text
import CelloProofs.Lemmas.Text
import CelloProofs.Lemmas.TextInt
import CelloProofs.Lemmas.TextFloat
import CelloProofs.Lemmas.TextRound
import CelloProofs.Lemmas.TextRoundE32
import CelloProofs.Lemmas.TextSeq
import CelloProofs.Lemmas.TextFmt
import CelloProofs.Lemmas.TextBridge
import CelloProofs.Lemmas.TextScan

namespace Cello.Text

/-- the loops and scanner branches the model was written against are the ones in the source now -/
theorem C15_source_as_modelled :
    CelloGen.Text.showSkeleton = CelloGen.Text.showSkeletonModelled ∧
    CelloGen.Text.lookSkeleton = CelloGen.Text.lookSkeletonModelled ∧
    CelloGen.Text.scanFromWith = CelloGen.Text.scanFromWithModelled ∧
    CelloGen.Text.printToWith = CelloGen.Text.printToWithModelled ∧
    CelloGen.Text.stringFormatFrom = CelloGen.Text.stringFormatFromModelled ∧
    CelloGen.Text.fileFormatFrom = CelloGen.Text.fileFormatFromModelled ∧
    CelloGen.Text.fileFormatTo = CelloGen.Text.fileFormatToModelled ∧
    CelloGen.Text.intShowFmt = "%li" ∧ CelloGen.Text.intLookFmt = "%li" ∧
    CelloGen.Text.floatShowFmt = "%f" ∧ CelloGen.Text.floatLookFmt = "%lf" := by
  refine ⟨rfl, rfl, rfl, rfl, rfl, rfl, rfl, rfl, rfl, rfl, rfl⟩

/-- **Table facts, decided on the generated tables**: every byte `String_Show` escapes is written as the reader's escape byte
    plus a letter that `String_Look` maps back to exactly that byte; the closing delimiter and the escape byte are themselves
    escaped by the writer (so a raw one never appears inside the text); they differ; both sides agree on the delimiters; and
    the reader's escape arm ends in `continue`. -/
theorem C15_tables : tablesOK srcCfg = true ∧ srcCfg.look.continues = true := by
  constructor
  · decide
  · rfl

/-- the `%%` branch of `scan_from_with` advances `pos` by what `"%%%n"` consumed (commit 619a9b3), not by a constant -/
theorem C15_pct_uses_n : srcCfg.pctUsesN = true := rfl

/-- **The integer branch of `scan_from_with`, decided on the arms extracted from the source** (commit 9114264): for each of the 54
    specifications `%[hh|h|l|ll|j|z|t|q][d|i|o|u|x|X]` the first arm whose test on `fmt_buf` holds has scanf store into an object of
    exactly the width libc writes for that modifier (`l j z t q` → the `long` itself, `hh` → `signed char`, `h` → `short`, none →
    `int`), a narrower object is a temporary that is then widened, and `sgn` is true exactly for `d` and `i`.
    Before the fix every specification was read into the `long`: this theorem then fails (`C15_int_width_old_refuted`). -/
theorem C15_int_arms : armsOK srcCfg = true := by decide

/-- the floating branch reads a `double` exactly when the specification has the `l` modifier, a `float` otherwise -/
theorem C15_float_arm : ∀ (l : Bool) (cv : FConv), fspecNarrow srcCfg l cv = !l := by
  intro l cv; cases l <;> cases cv <;> decide

/-- **C15 for String (T1).**  For every byte string `s` without NUL, every text `rest` that follows and every position counter:
    `String_Look` applied to what `String_Show` wrote for `s`, followed by `rest`, yields exactly `s`, leaves exactly `rest`
    unread, and advances the position by exactly the number of characters written. -/
theorem C15_string_roundtrip (s : List Nat) (hs : ∀ b ∈ s, b ≠ 0) (rest : List Nat) (pos : Nat) :
    let shown := showString srcCfg.showEsc srcCfg.showOpen srcCfg.showClose s
    lookString srcCfg.look (shown ++ rest) pos = (s, .ok (rest, pos + shown.length)) :=
  lookString_show srcCfg (tables_of_ok _ C15_tables.1) C15_tables.2 s hs rest pos

/-- **C15 for Int (T1).**  For every `int64_t` `n` and every following text that does not start with a digit (nor with `x`/`X`
    after a lone `0`, which `%li` would take for a hexadecimal prefix): the integer branch of `scan_from_with` for `%li` — what
    `Int_Look` calls — applied to what `%li` printed (`Int_Show`), followed by that text, yields `n` and leaves exactly that text unread. -/
theorem C15_int_roundtrip (n : Int) (hn : -(2 ^ 63 : Int) ≤ n ∧ n < 2 ^ 63) (rest : List Nat)
    (hd : ∀ b r, rest = b :: r → ¬(48 ≤ b ∧ b ≤ 57)) (hx : n = 0 → ∀ b r, rest = b :: r → b ≠ 120 ∧ b ≠ 88) :
    scanIntSpec srcCfg .l .i (printInt n ++ rest) = .ok (n, rest) := by
  have hn' : inInt64 n = true := by simp only [inInt64, Bool.and_eq_true, decide_eq_true_eq]; exact hn
  have hp : printInt n = printIntSpec .l .i n := by
    have h := convInt_li n hn'
    simp only [convInt, IConv.signed, if_true] at h
    simp [printIntSpec, h]
  have := scanIntSpec_print srcCfg (arms_of_ok _ C15_int_arms) .l .i n hn' rest (by
    cases rest with
    | nil => simp [ispecSafe, headIs]
    | cons b r =>
      have h1 := hd b r rfl
      simp only [ispecSafe, headIs, isDigit, isXx, zext, IMod.width, Bool.and_eq_true, Bool.not_eq_true', Bool.and_eq_false_iff,
        decide_eq_false_iff_not, Nat.not_le, beq_eq_false_iff_ne, Bool.or_eq_false_iff]
      refine ⟨by omega, ?_⟩
      by_cases h0 : n = 0
      · have := hx h0 b r rfl
        exact Or.inr ⟨this.1, this.2⟩
      · exact Or.inl (by omega))
  rw [hp, this, convInt_li n hn']

/-- the same for the numeric specification `%ld` (decimal only: a following `x` is harmless) -/
theorem C15_int_roundtrip_ld (n : Int) (hn : -(2 ^ 63 : Int) ≤ n ∧ n < 2 ^ 63) (rest : List Nat)
    (hd : ∀ b r, rest = b :: r → ¬(48 ≤ b ∧ b ≤ 57)) :
    scanIntSpec srcCfg .l .d (printIntSpec .l .d n ++ rest) = .ok (n, rest) := by
  have hn' : inInt64 n = true := by simp only [inInt64, Bool.and_eq_true, decide_eq_true_eq]; exact hn
  have := scanIntSpec_print srcCfg (arms_of_ok _ C15_int_arms) .l .d n hn' rest (by
    cases rest with
    | nil => simp [ispecSafe, headIs]
    | cons b r =>
      have h1 := hd b r rfl
      simp only [ispecSafe, headIs, isDigit, Bool.not_eq_true', Bool.and_eq_false_iff, decide_eq_false_iff_not, Nat.not_le]
      omega)
  rw [this, convInt_inWidth .l .d n (by simpa [intInWidth, IMod.width] using hn')]

/-- **C15 for every integer specification (T1).**  For each length modifier `m ∈ {none, hh, h, l, ll, j, z, t, q}`, each conversion
    `cv ∈ {d, i, o, u, x, X}`, every `int64_t` `n` and every following text that does not continue the number (`ispecSafe`: no digit —
    for `x`/`X` no hexadecimal digit —, and no `x`/`X` after a lone `0` under `i x X`): the integer branch of `scan_from_with` for
    `%<m><cv>`, applied to what printf wrote for `n` under the same specification followed by that text, stores
    `convInt m cv n` — **C's conversion of `n` to the type the modifier names**: sign extension of the low 8 / 16 / 32 bits for `d`, `i`;
    the low 8 / 16 / 32 bits as an unsigned number for `o u x X`; `n` itself for the 64-bit modifiers (also under `o u x X`) — and
    leaves exactly that text unread. -/
theorem C15_intspec_roundtrip (m : IMod) (cv : IConv) (n : Int) (hn : inInt64 n = true) (rest : List Nat)
    (hs : ispecSafe m cv n rest = true) :
    scanIntSpec srcCfg m cv (printIntSpec m cv n ++ rest) = .ok (convInt m cv n, rest) :=
  scanIntSpec_print srcCfg (arms_of_ok _ C15_int_arms) m cv n hn rest hs

/-- … and on the range of the type the modifier names the conversion is the identity: the value written is the value read.
    `intInWidth`: every `int64_t` for `l ll j z t q`; [-2^(w-1), 2^(w-1)) for `d`, `i` and [0, 2^w) for `o u x X` with w = 8 (`hh`),
    16 (`h`), 32 (none). -/
theorem C15_intspec_in_width (m : IMod) (cv : IConv) (n : Int) (h : intInWidth m cv n = true) : convInt m cv n = n :=
  convInt_inWidth m cv n h

/-- the ranges, spelled out for the narrow modifiers -/
theorem C15_intspec_ranges (n : Int) :
    (intInWidth .hh .d n = true ↔ -128 ≤ n ∧ n < 128) ∧ (intInWidth .hh .x n = true ↔ 0 ≤ n ∧ n < 256) ∧
    (intInWidth .h .i n = true ↔ -32768 ≤ n ∧ n < 32768) ∧ (intInWidth .h .u n = true ↔ 0 ≤ n ∧ n < 65536) ∧
    (intInWidth .none .d n = true ↔ -2147483648 ≤ n ∧ n < 2147483648) ∧ (intInWidth .none .o n = true ↔ 0 ≤ n ∧ n < 4294967296) ∧
    (intInWidth .l .X n = true ↔ inInt64 n = true) ∧ (intInWidth .q .u n = true ↔ inInt64 n = true) := by
  simp only [intInWidth, IMod.width, IConv.signed]
  norm_num

/-- **C15 for sequences (T1), String and File alike, every start position.**  Let `its` be any sequence of Strings, Ints
    (shown with `%$` or with any of the 54 integer specifications), Floats (`%$`, or any of `%[l][f|F|e|E|g|G]`) and separators inside
    the contract (`contractOK`: NUL-free strings, 64-bit integers, finite doubles, separators — directive-free text or a literal
    `%%` —; a number is not followed by text that continues it; a separator read from a File that ends in white space is not followed
    by white space), written by `print_to_with` at the end of a sink holding any bytes `pre` (start position `pre.length`), and
    let any text `z` follow.  Then
    * the sink holds `pre` followed by exactly the concatenation of the items' texts and the writer returns the start
      position plus the number of characters written;
    * `scan_from_with` started at the same position stores, in order, `Item.readBack`: the String written; for an Int C's
      conversion of the value to the type its specification names (the value itself when it fits: `C15_sequence_values_exact`); for
      a Float the double — under a specification without `l`, the widened `float` — nearest to the text written
      (`reparseSpec`; how close that is: `C15_float_value`, `C15_float_items`);
    * it returns the same position the writer returned, and a File's stream has moved by exactly the characters written. -/
theorem C15_sequence_roundtrip (k : Kind) (pre : List Nat) (its : List Item) (z : List Nat)
    (hc : contractOK srcCfg k its z = true) :
    let text := its.flatMap (Item.text srcCfg)
    let inp : Input := { kind := k, text := pre ++ text ++ z, cur := pre.length }
    printItems srcCfg { kind := k, data := pre } pre.length its = ({ kind := k, data := pre ++ text }, pre.length + text.length) ∧
    scanItems srcCfg inp pre.length (its.map Item.shape)
      = (its.filterMap (Item.readBack srcCfg), .ok (inp.adv text.length, pre.length + text.length)) := by
  intro text inp
  constructor
  · exact printItems_at_end srcCfg its { kind := k, data := pre }
  · apply scanItems_text srcCfg (tables_of_ok _ C15_tables.1) C15_tables.2 C15_pct_uses_n (arms_of_ok _ C15_int_arms) k its z inp pre.length rfl hc
    cases k <;> simp [inp, text, Input.view, List.append_assoc]

/-- … and for sequences of Strings and Ints inside the property's quantifier (`inProperty`: the contract, and every Int is a value
    of the type its specification names) the values stored are exactly the values written -/
theorem C15_sequence_values_exact (k : Kind) (pre : List Nat) (its : List Item) (z : List Nat)
    (hc : inProperty srcCfg k its z = true) (hnf : ∀ it ∈ its, it.isFloat = false) :
    (scanItems srcCfg { kind := k, text := pre ++ its.flatMap (Item.text srcCfg) ++ z, cur := pre.length } pre.length
      (its.map Item.shape)).1 = its.filterMap Item.val? := by
  simp only [inProperty, Bool.and_eq_true, List.all_eq_true] at hc
  rw [(C15_sequence_roundtrip k pre its z hc.1).2, filterMap_readBack_eq_val srcCfg its hnf hc.2]

/-- a File's stream after the read is at start + number of characters written; a String has no stream -/
theorem C15_file_stream_position (pre text z : List Nat) :
    (({ kind := .file, text := pre ++ text ++ z, cur := pre.length } : Input).adv text.length).cur = pre.length + text.length := by
  simp [Input.adv]

/-- **A value alone** (`show_to` / `look_from` of one String, Int or Float) at any start position of a String or a File,
    whatever follows it (for a number: anything that does not continue it): the value comes back (`readBack`: for a Float, the
    double nearest to the text written, which prints as the same text: `C15_float_value`) and the reader returns the position the
    writer returned. -/
theorem C15_single_value (k : Kind) (pre : List Nat) (v : Val) (z : List Nat)
    (hv : (Item.shw v).valid = true) (hs : (Item.shw v).safe k z = true) :
    let text := (Item.shw v).text srcCfg
    let inp : Input := { kind := k, text := pre ++ text ++ z, cur := pre.length }
    printItem srcCfg { kind := k, data := pre } pre.length (.shw v) = ({ kind := k, data := pre ++ text }, pre.length + text.length) ∧
    scanItem srcCfg inp pre.length (Item.shw v).shape = ((Item.shw v).readBack srcCfg, .ok (inp.adv text.length, pre.length + text.length)) := by
  intro text inp
  constructor
  · exact printItem_at_end srcCfg { kind := k, data := pre } (.shw v)
  · apply scanItem_text srcCfg (tables_of_ok _ C15_tables.1) C15_tables.2 C15_pct_uses_n (arms_of_ok _ C15_int_arms) k (.shw v) z inp pre.length rfl hv hs
    cases k <;> simp [inp, text, Input.view, List.append_assoc]

/-- facts about the two conversion-character sets, decided on the sets extracted from `scan_from_with` / `print_to_with`: both end
    a specification at `$` and at each of `d i o u x X f F e E g G`, and not at a length modifier (`h l j z t q`) or at `%` -/
theorem C15_conv_sets : convOK srcCfg.scanConv = true ∧ convOK srcCfg.printConv = true := by
  constructor <;> decide

/-- **Format strings (T2).**  The same round trip stated on the *format string*: for every sequence `its` inside the contract whose
    separators are non-empty, `%`-free and not adjacent, let `fmt` be the format text (`%$`, the integer and floating specifications,
    the separators verbatim).  `print_to_with(out, start, fmt, values)` — the scanner of print_to_with cutting `fmt` with its
    conversion set — writes exactly the items' texts, and `scan_from_with(input, start, fmt, targets)` with targets of the same
    types — the scanner of scan_from_with cutting `fmt` with *its* conversion set — stores the values `readBack` and returns the
    position the writer returned. -/
theorem C15_format_roundtrip (k : Kind) (pre : List Nat) (its : List Item) (z : List Nat)
    (hc : contractOK srcCfg k its z = true) (hf : fmtOK its = true)
    (targets : List Val) (ht : sameKinds (its.filterMap Item.val?) targets = true) :
    let fmt := its.flatMap Item.fmt
    let text := its.flatMap (Item.text srcCfg)
    let inp : Input := { kind := k, text := pre ++ text ++ z, cur := pre.length }
    printFmt srcCfg { kind := k, data := pre } pre.length fmt (its.filterMap Item.val?)
      = some ({ kind := k, data := pre ++ text }, pre.length + text.length) ∧
    scanFmt srcCfg inp pre.length fmt targets
      = some (its.filterMap (Item.readBack srcCfg), .ok (inp.adv text.length, pre.length + text.length)) := by
  intro fmt text inp
  have hseq := C15_sequence_roundtrip k pre its z hc
  constructor
  · simp only [printFmt, fmt, segment_render _ (convFacts_of_ok _ C15_conv_sets.2) its hf, itemsOf_render, Option.map_some]
    exact congrArg some hseq.1
  · have h1 := itemsOf_shape (its.map Item.seg) _ _ ht
    simp only [itemsOf_render, Option.map_some] at h1
    have h2 : scanFmt srcCfg inp pre.length fmt targets
        = ((itemsOf (its.map Item.seg) targets).map (fun its' => its'.map Item.shape)).map (scanItems srcCfg inp pre.length) := by
      simp only [scanFmt, fmt, segment_render _ (convFacts_of_ok _ C15_conv_sets.1) its hf, Option.map_map]
      rfl
    rw [h2, ← h1, Option.map_some]
    exact congrArg some hseq.2

/-- the conversion set C14's theorems are stated over (`Fmt.cfgNow.conv`, extracted from `print_to_with` by C14's generator) is,
    character for character, the set this model cuts with (extracted by this engine's generator), and has what the bridge needs -/
theorem C15_C14_conv_agree :
    srcCfg.printConv.map Char.ofNat = Cello.Fmt.cfgNow.conv ∧ bridgeOK Cello.Fmt.cfgNow.conv = true := by
  constructor <;> decide

/-- **One segmentation, two models (the writer half of `C15_format_roundtrip` and C14).**  For every sequence `its` whose separators
    are non-empty, `%`-free, not adjacent and made of bytes 1…255: the scanner of this model (`segment`, byte lists) cuts the format
    text into `its.map Item.seg`; C14's parser (`Fmt.parseFmt`, about which `C14_checked_format` proves that `print_to_with` — the
    index-based model `Fmt.loop` with `fmt_buf` — makes one `format_to` per literal run and one dispatch per specification, in
    order, within the buffers) cuts the same characters into `its.map Item.fmtSeg`; and segment by segment the two are the same text. -/
theorem C15_C14_same_segmentation (its : List Item) (hf : fmtOK its = true)
    (hb : ∀ t, Item.lit t ∈ its → ∀ b ∈ t, b ≠ 0 ∧ b < 256) :
    segment srcCfg.printConv (its.flatMap Item.fmt) = its.map Item.seg ∧
    Cello.Fmt.parseFmt Cello.Fmt.cfgNow.conv (toStr (its.flatMap Item.fmt)) = some (its.map Item.fmtSeg) ∧
    ∀ it ∈ its, it.fmtSeg.text = toStr it.fmt :=
  ⟨segment_render _ (convFacts_of_ok _ C15_conv_sets.2) its hf,
   bridge_parse _ C15_C14_conv_agree.2 its hf hb,
   fun it _ => fmtSeg_text it⟩

/-- **Float, position part (T1).**  For every floating specification `%[l]<cv>`, `cv ∈ {f F e E g G}`, every finite double and
    every following text that does not continue the number (`fspecSafe`: no digit, no `e`/`E`; after `%g`/`%G` also no `.` and no
    `x`/`X`): the floating conversion of scanf — into a `double` (`narrow = false`) or into a `float` (`narrow = true`) alike —
    applied to what printf wrote consumes exactly that text, and the value it stores does not depend on what follows.
    (`_hfin`: for a non-finite pattern `printFloatSpec` is not what C prints — `inf`, `nan` —; the statement is about finite doubles.) -/
theorem C15_float_consumed (narrow : Bool) (cv : FConv) (bits : Nat) (_hfin : fFinite bits = true) (rest : List Nat)
    (hs : fspecSafe cv rest = true) :
    scanFloating narrow (printFloatSpec cv bits ++ rest) = .ok (reparseSpec narrow cv bits, rest) :=
  scanFloating_print narrow cv bits rest hs

/-- **Float, value part (T1) — "equal to within the printed precision".**  For every finite double: the double that scanf's `%lf`
    reads back from the six-decimal text printf's `%f` wrote (the pair `Float_Show` / `Float_Look` uses, and `%lf` / `%lF` in a
    format) prints as the same six-decimal text.  Both conversions are exact functions of the model (`printF`: the binary value
    rounded half-even to six decimals; `scanFloating`: the decimal rounded half-even to 53 bits, subnormals and overflow
    included), so this is arithmetic: the double read back is at least as close to the printed decimal as the double written
    (`roundRat_ok`), hence rounds to the same six decimals (`fScaled_stable`). -/
theorem C15_float_value (bits : Nat) (h : fFinite bits = true) : printF (reparse bits) = printF bits :=
  printF_reparse bits h

/-- … numerically: the double read back has the same sign, is finite, and differs from the double written by at most 10⁻⁶ (both
    are within half a unit of the sixth decimal of the text) -/
theorem C15_float_within (bits : Nat) (h : fFinite bits = true) :
    (fDecode (reparse bits)).1 = (fDecode bits).1 ∧ fFinite (reparse bits) = true ∧
    |val (fDecode (reparse bits)).2.1 (fDecode (reparse bits)).2.2 - val (fDecode bits).2.1 (fDecode bits).2.2| ≤ 1 / 10 ^ 6 := by
  obtain ⟨my, ey, hdec, hfin, hnear⟩ := reparse_near bits h
  rw [hdec]
  exact ⟨rfl, hfin, near_within _ _ my ey hnear⟩

/-- the former name of the Float value clause (a `def` that was never proved): now a consequence of `C15_float_value` -/
def C15_float_value_statement : Prop := ∀ bits, fFinite bits = true → printF (reparse bits) = printF bits

theorem C15_float_value_statement_holds : C15_float_value_statement := C15_float_value

/-- **Known finding KF-C15-float-spec-narrow, the part that stands (`_partial`).**  A floating specification without the `l`
    modifier makes `scan_from_with` store through a `float` (`C15_float_arm`).  For every finite double that is the value of a
    `float` (`isFloat32`), what `%f` / `%F` wrote is read back — nearest `float` to the text (`strtof`), widened — as a double that
    prints as the same six-decimal text, has the same sign, is finite and differs from the value written by at most 10⁻⁶. -/
theorem C15_float_narrow_partial (bits : Nat) (h : fFinite bits = true) (h32 : isFloat32 bits = true) :
    printF (reparseSpec true .f bits) = printF bits ∧
    (fDecode (reparseSpec true .f bits)).1 = (fDecode bits).1 ∧ fFinite (reparseSpec true .f bits) = true ∧
    |val (fDecode (reparseSpec true .f bits)).2.1 (fDecode (reparseSpec true .f bits)).2.2
        - val (fDecode bits).2.1 (fDecode bits).2.2| ≤ 1 / 10 ^ 6 := by
  refine ⟨printF_reparse32 bits h h32, ?_⟩
  obtain ⟨my, ey, hdec, hfin, hnear⟩ := reparse32_near bits h h32
  rw [hdec]
  exact ⟨rfl, hfin, near_within _ _ my ey hnear⟩

/-- the full statement for the `float` destination — what the property asks of `%f` without `l` for *every* finite double.
    It is false: `C15_float_narrow_refuted`. -/
def C15_float_narrow_statement : Prop := ∀ bits, fFinite bits = true → printF (reparseSpec true .f bits) = printF bits

/-- **Float items of a sequence**: for a Float shown with `%$` or written with `%lf` / `%lF` / `%f` / `%F` inside the property's
    quantifier (finite; under a specification without `l`: the value of a `float`), the value `scan_from_with` stores
    (`readBack`, by `C15_sequence_roundtrip`) prints as the six-decimal text that was written. -/
theorem C15_float_items (it : Item) (b : Nat) (hv : it.valid = true) (hw : it.inWidth srcCfg = true)
    (hit : it = .shw (.flt b) ∨ ∃ l, it = .fspec l .f b ∨ it = .fspec l .F b) :
    ∃ v, it.readBack srcCfg = some (.flt v) ∧ printF v = printF b := by
  have hF : ∀ narrow bits, reparseSpec narrow .F bits = reparseSpec narrow .f bits := by
    intro narrow bits; simp [reparseSpec, printFloatSpec]
  rcases hit with rfl | ⟨l, rfl | rfl⟩
  · refine ⟨_, rfl, ?_⟩
    rw [C15_float_arm true .f]; exact C15_float_value b hv
  · refine ⟨_, rfl, ?_⟩
    cases l with
    | true => rw [C15_float_arm true .f]; exact C15_float_value b hv
    | false =>
      simp only [Item.inWidth, C15_float_arm false .f, Bool.not_false, Bool.not_true, Bool.false_or] at hw
      rw [C15_float_arm false .f]; exact (C15_float_narrow_partial b hv hw).1
  · refine ⟨_, rfl, ?_⟩
    cases l with
    | true => rw [C15_float_arm true .F, hF]; exact C15_float_value b hv
    | false =>
      simp only [Item.inWidth, C15_float_arm false .F, Bool.not_false, Bool.not_true, Bool.false_or] at hw
      rw [C15_float_arm false .F, hF]; exact (C15_float_narrow_partial b hv hw).1

/-- **Float under `%le` / `%lE`, value part (T2, numeric form).**  For every finite double: what `%e` / `%E` wrote — seven significant
    digits, correctly rounded (`printE`) — is read back by `%le` / `%lE` as a finite double of the same sign that differs from the
    double written by at most one millionth of it, i.e. by at most one unit of the seventh significant digit: it is at least as
    close to the seven-digit decimal as the double written (`reparseE_near`), which is within half a unit of that digit. -/
theorem C15_float_e_within (upper : Bool) (bits : Nat) (h : fFinite bits = true) :
    (fDecode (reparseSpec false (if upper then .E else .e) bits)).1 = (fDecode bits).1 ∧
    fFinite (reparseSpec false (if upper then .E else .e) bits) = true ∧
    |val (fDecode (reparseSpec false (if upper then .E else .e) bits)).2.1 (fDecode (reparseSpec false (if upper then .E else .e) bits)).2.2
        - val (fDecode bits).2.1 (fDecode bits).2.2| ≤ val (fDecode bits).2.1 (fDecode bits).2.2 / 10 ^ 6 :=
  reparseE_within upper bits h

/-- **Float under `%e` / `%E` *without* `l`, value part, for `float` values (`_partial` of KF-C15-float-spec-narrow; audit 2, item 1).**
    `scan_from_with` stores through a `float` (`C15_float_arm`).  For every finite double that is the value of a `float` (`isFloat32`
    — exactly the complement of the finding's territory): what `%e` / `%E` wrote is read back — nearest `float` to the seven-digit
    text (`strtof`), widened — as a finite double of the same sign that differs from the value written by at most one millionth of
    it.  (No overflow: from 10^38 on the decimal is a multiple of 10^32, and the largest one within half a unit of FLT_MAX,
    3402823·10^32, is below FLT_MAX.) -/
theorem C15_float_e_narrow_partial (upper : Bool) (bits : Nat) (h : fFinite bits = true) (h32 : isFloat32 bits = true) :
    (fDecode (reparseSpec true (if upper then .E else .e) bits)).1 = (fDecode bits).1 ∧
    fFinite (reparseSpec true (if upper then .E else .e) bits) = true ∧
    |val (fDecode (reparseSpec true (if upper then .E else .e) bits)).2.1 (fDecode (reparseSpec true (if upper then .E else .e) bits)).2.2
        - val (fDecode bits).2.1 (fDecode bits).2.2| ≤ val (fDecode bits).2.1 (fDecode bits).2.2 / 10 ^ 6 :=
  reparseE32_within upper bits h h32

/-- … and outside `isFloat32` it fails (the finding): 1.5e300 written with `%e` is `1.500000e+300`, read through a `float`: +infinity -/
example : printFloatSpec .e 0x7E41EB2D66005835 = [49, 46, 53, 48, 48, 48, 48, 48, 101, 43, 51, 48, 48] ∧
    scanFloating true [49, 46, 53, 48, 48, 48, 48, 48, 101, 43, 51, 48, 48] = .ok (0x7FF0000000000000, []) := by
  constructor <;> decide +kernel

/-- **Float under `%e` `%E` `%g` `%G`: text stability — NOT proved.**  The consumed length and the position are proved for these
    specifications (`C15_float_consumed`, `C15_sequence_roundtrip`), and for `%le` / `%lE` (every finite double) and `%e` / `%E`
    (`float` values) the numeric closeness (`C15_float_e_within`, `C15_float_e_narrow_partial`).  For `%g` / `%G` there is NO value
    theorem (the text has three styles and stripped zeros; its decimal value has not been related to `sciDigits 5`).  That the double read back prints as the *same text* under the same specification (the form in which
    `C15_float_value` states "within the printed precision" for `%f`) is stated here for all six conversions; it is evaluated by
    the driver on every such item it sees (`M rt=`) and checked by the harness oracle with libc, but the stability argument of
    `fScaled_stable` has not been carried out for a scale that depends on the value (decade boundaries, the subnormal range),
    nor the parse of the three text styles of `%g`. -/
def C15_float_sci_statement : Prop :=
  ∀ (cv : FConv) (bits : Nat), fFinite bits = true → printFloatSpec cv (reparseSpec false cv bits) = printFloatSpec cv bits

/-! ## second-round audit: several calls, a failed read, a field width -/

/-- **Several calls (audit 2, item 5).**  Writing a sequence with several `print_to_with` calls, each continuing at the position the
    previous one returned, is writing it with one; reading it with several `scan_from_with` calls is reading it with one (a call
    that raises ends the reading: the later targets keep their values).  So `C15_sequence_roundtrip` also speaks about a text
    written by one call and read by several, and the reverse (harness modes `split` / `join`). -/
theorem C15_calls_compose (c : Cfg) (a b : List Item) (o : Sink) (pos : Nat) (i : Input) :
    printItems c o pos (a ++ b) = printItems c (printItems c o pos a).1 (printItems c o pos a).2 b ∧
    scanItems c i pos (a.map Item.shape ++ b.map Item.shape) =
      (match scanItems c i pos (a.map Item.shape) with
       | (va, .ok (i', p')) => (va ++ (scanItems c i' p' (b.map Item.shape)).1, (scanItems c i' p' (b.map Item.shape)).2)
       | (va, .raised e) => (va ++ (b.map Item.shape).filterMap sentinel, .raised e)
       | (va, .ub) => (va ++ (b.map Item.shape).filterMap sentinel, .ub)
       | (va, .unmodelled) => (va ++ (b.map Item.shape).filterMap sentinel, .unmodelled)) := by
  constructor
  · induction a generalizing o pos with
    | nil => simp [printItems]
    | cons it its ih => simp only [List.cons_append, printItems]; exact ih _ _
  · generalize a.map Item.shape = sa
    generalize b.map Item.shape = sb
    induction sa generalizing i pos with
    | nil => simp only [List.nil_append, scanItems]
    | cons s ss ih =>
      simp only [List.cons_append, scanItems]
      rcases hs : scanItem c i pos s with ⟨v, r⟩
      cases r with
      | ok ip =>
        obtain ⟨i', p'⟩ := ip
        simp only [ih p' i']
        rcases hr : scanItems c i' p' ss with ⟨va, ra⟩
        cases ra with
        | ok ip2 => obtain ⟨i2, p2⟩ := ip2; simp [List.append_assoc]
        | raised e => simp [List.append_assoc]
        | ub => simp [List.append_assoc]
        | unmodelled => simp [List.append_assoc]
      | raised e => simp [List.filterMap_append, List.append_assoc]
      | ub => simp [List.filterMap_append, List.append_assoc]
      | unmodelled => simp [List.filterMap_append, List.append_assoc]

/-- the full statement "a read releases what it allocated" — false: `C15_scan_leak_refuted` -/
def C15_scan_releases_buffer_statement : Prop := ∀ (i : Input) (pos : Nat) (sh : Shape), scanLeak srcCfg i pos sh = 0

/-- **Proposed finding KF-C15-scan-fmtbuf-leak (`_refuted`; audit 2, item 4).**  `scan_from_with` frees `fmt_buf` only before its normal
    `return`: a read that raises leaves `strlen(fmt) + 4` bytes allocated — 7 for `look_from` of an Int on `abc` (`"%li"`), 6 for
    `look_from` of a String on the unterminated text `"ab` (the `"%c"` call that meets the end of the input), 8 for `%hhd` on `x`;
    nothing when `String_Look` itself throws between two reads (`xyz`: no opening quote). -/
theorem C15_scan_leak_refuted :
    ¬ C15_scan_releases_buffer_statement ∧
    scanItem srcCfg { kind := .str, text := [97, 98, 99], cur := 0 } 0 .int = (some (.int 77), .raised .FormatError) ∧
    scanLeak srcCfg { kind := .str, text := [97, 98, 99], cur := 0 } 0 .int = 7 ∧
    scanLeak srcCfg { kind := .str, text := [34, 97, 98], cur := 0 } 0 .str = 6 ∧
    scanLeak srcCfg { kind := .file, text := [120], cur := 0 } 0 (.ispec .hh .d) = 8 ∧
    scanLeak srcCfg { kind := .str, text := [120, 121, 122], cur := 0 } 0 .str = 0 := by
  refine ⟨fun h => absurd (h { kind := .str, text := [97, 98, 99], cur := 0 } 0 .int) (by decide), by decide, by decide, by decide,
    by decide, by decide⟩

/-- **… the part that stands (`_partial`): a read that succeeds releases the buffer** — in particular every read inside the round
    trip's quantifier (`C15_roundtrip_no_leak`) -/
theorem C15_scan_leak_partial (c : Cfg) (i : Input) (pos : Nat) (sh : Shape) (v : Option Val) (i' : Input) (p' : Nat)
    (h : scanItem c i pos sh = (v, .ok (i', p'))) : scanLeak c i pos sh = 0 := by
  simp [scanLeak, h]

theorem C15_roundtrip_no_leak (k : Kind) (pre : List Nat) (v : Val) (z : List Nat)
    (hv : (Item.shw v).valid = true) (hs : (Item.shw v).safe k z = true) :
    scanLeak srcCfg { kind := k, text := pre ++ (Item.shw v).text srcCfg ++ z, cur := pre.length } pre.length (Item.shw v).shape = 0 :=
  C15_scan_leak_partial _ _ _ _ _ _ _ (C15_single_value k pre v z hv hs).2

/-- the full statement "a read that fails leaves its target as it was" (what C12 asks of every operation) — false for a String target -/
def C15_failed_look_keeps_target_statement : Prop :=
  ∀ (i : Input) (pos : Nat) (v : Option Val) (e : Exc), scanItem srcCfg i pos .str = (v, .raised e) → v = sentinel .str

/-- **Proposed finding KF-C15-look-clobbers-target (`_refuted`; audit 2, item 4).**  `String_Look` begins with `String_Clear(self)` and
    appends while it reads: `look_from(s, input, 0)` on the unterminated text `"ab` raises FormatError with `s` = `ab`, on `xyz` (no
    opening quote) with `s` emptied — the previous value (`?`, the harness's sentinel) is gone in both cases. -/
theorem C15_failed_look_clobbers_refuted :
    ¬ C15_failed_look_keeps_target_statement ∧
    scanItem srcCfg { kind := .str, text := [34, 97, 98], cur := 0 } 0 .str = (some (.str [97, 98]), .raised .FormatError) ∧
    scanItem srcCfg { kind := .str, text := [120, 121, 122], cur := 0 } 0 .str = (some (.str []), .raised .FormatError) := by
  refine ⟨fun h => ?_, by decide, by decide⟩
  have := h { kind := .str, text := [34, 97, 98], cur := 0 } 0 (some (.str [97, 98])) .FormatError (by decide)
  revert this; decide

/-- … an Int or Float target keeps its value when the read fails (scanf stores nothing, `assign` is not reached) -/
example : scanItem srcCfg { kind := .str, text := [97, 98, 99], cur := 0 } 0 .flt = (some (.flt 0x401E000000000000), .raised .FormatError) := by
  decide

/-- **A field width or the `0` flag inside a specification is outside the round trip — exhibited (audit 2, item 2).**  The property
    theorems speak about specifications without flags, width or precision (`Item.ispec`).  With them the same format string does
    *not* read back what it wrote, by the rules of scanf, not by a defect of Cello: `%08li` writes −42 as `-0000042` and reads −34
    (`%i` takes the padding for an octal prefix); `%5li` writes 1234567 in full and reads 12345, leaving `67` unread. -/
theorem C15_width_refuted :
    printIntSpecW true 8 .l .i (-42) = [45, 48, 48, 48, 48, 48, 52, 50] ∧
    scanIntSpecW srcCfg true 8 .l .i [45, 48, 48, 48, 48, 48, 52, 50] = .ok (-34, []) ∧
    printIntSpecW false 5 .l .i 1234567 = [49, 50, 51, 52, 53, 54, 55] ∧
    scanIntSpecW srcCfg false 5 .l .i [49, 50, 51, 52, 53, 54, 55] = .ok (12345, [54, 55]) ∧
    widthSafe true 8 .l .i (-42) = false ∧ widthSafe false 5 .l .i 1234567 = false := by
  have e1 : printIntSpec .l .i (-42) = [45, 52, 50] := by
    rw [printIntSpec_l_signed .i rfl (-42) (by decide)]; simp [printInt, natDigits_lt10, natDigits_ge10]
  have e2 : printIntSpec .l .i 1234567 = [49, 50, 51, 52, 53, 54, 55] := by
    rw [printIntSpec_l_signed .i rfl 1234567 (by decide)]; simp [printInt, natDigits_lt10, natDigits_ge10]
  refine ⟨?_, ?_, ?_, ?_, ?_, ?_⟩
  · simp [printIntSpecW, e1, List.replicate]
  · simp [scanIntSpecW, ispecWFmt, natDigits_lt10]; decide
  · simp [printIntSpecW, e2]
  · simp [scanIntSpecW, ispecWFmt, natDigits_lt10]; decide
  · simp [widthSafe, e1]
  · simp [widthSafe, e2]

/-- **Harmless widths — NOT proved.**  When the width is at least the length of the text written and no zero is padded in front of a
    number read with `%i` (`widthSafe`), the specification with the width reads back what the one without it does.  Checked by the
    harness oracle on every generated `W` op with such a width (sig C15-value-int-width) and evaluated by the driver; the proof
    (white space skipped, `take w` of text + safe rest) has not been carried out. -/
def C15_width_safe_statement : Prop :=
  ∀ (zero : Bool) (w : Nat) (m : IMod) (cv : IConv) (n : Int) (rest : List Nat), inInt64 n = true → ispecSafe m cv n rest = true →
    widthSafe zero w m cv n = true →
    scanIntSpecW srcCfg zero w m cv (printIntSpecW zero w m cv n ++ rest) = .ok (convInt m cv n, rest)

/-- two instances of it: `%5li` of 42 followed by `;`, `%04lx` of 255 -/
example :
    scanIntSpecW srcCfg false 5 .l .i ([32, 32, 32, 52, 50] ++ [59]) = .ok (42, [59]) ∧
    scanIntSpecW srcCfg true 4 .l .x [48, 48, 102, 102] = .ok (255, []) := by
  constructor
  · simp [scanIntSpecW, ispecWFmt, natDigits_lt10]; decide
  · simp [scanIntSpecW, ispecWFmt, natDigits_lt10]; decide

/-! ## non-vacuity -/

/-- a sequence with quotes, a backslash, a newline, a negative number, separators with white space, read from a File, is in the
    property's quantifier; and what the writer produces for it is the expected text -/
example :
    let its : List Item := [.shw (.str [10, 34, 92, 255]), .lit [44, 32], .li (-42), .lit [32], .shw (.int 0), .lit [59], .ld 7]
    inProperty srcCfg .file its [120] = true ∧ (∀ it ∈ its, it.isFloat = false) ∧
    its.flatMap (Item.text srcCfg) = [34, 92, 110, 92, 34, 92, 92, 255, 34, 44, 32, 45, 52, 50, 32, 48, 59, 55] := by
  have e1 : printIntSpec .l .i (-42) = [45, 52, 50] := by
    rw [printIntSpec_l_signed .i rfl (-42) (by decide)]; simp [printInt, natDigits_lt10, natDigits_ge10]
  have e2 : printIntSpec .l .d 7 = [55] := by
    rw [printIntSpec_l_signed .d rfl 7 (by decide)]; simp [printInt, natDigits_lt10]
  have e3 : printInt 0 = [48] := by simp [printInt, natDigits_lt10]
  refine ⟨?_, by decide, ?_⟩
  · simp only [inProperty, contractOK, Item.valid, Item.safe, Item.text, List.flatMap_cons, List.flatMap_nil, e1, e2, e3]
    decide
  · simp [Item.text, e1, e2, e3, showString, showByte, srcCfg, CelloGen.Text.showEsc, CelloGen.Text.showOpen,
      CelloGen.Text.showClose, List.lookup]

/-- narrow and unsigned integer specifications with values of their types, a `float` value under `%f` and a double under `%lf`:
    inside the property's quantifier, with the expected text `-5,ff 65535;1.500000 -100.000000` -/
example :
    let its : List Item := [.ispec .hh .d (-5), .lit [44], .ispec .none .x 255, .lit [32], .ispec .h .u 65535, .lit [59],
      .fspec false .f 0x3FF8000000000000, .lit [32], .lf 0xC059000000000000]
    inProperty srcCfg .str its [] = true ∧ fmtOK its = true ∧
    its.flatMap (Item.text srcCfg) = [45, 53, 44, 102, 102, 32, 54, 53, 53, 51, 53, 59, 49, 46, 53, 48, 48, 48, 48, 48, 32,
      45, 49, 48, 48, 46, 48, 48, 48, 48, 48, 48] ∧
    its.flatMap Item.fmt = [37, 104, 104, 100, 44, 37, 120, 32, 37, 104, 117, 59, 37, 102, 32, 37, 108, 102] := by
  have e1 : printIntSpec .hh .d (-5) = [45, 53] := by
    simp [printIntSpec, sext, zext, IMod.width, printInt, natDigits_lt10]
  have e2 : printIntSpec .none .x 255 = [102, 102] := by
    simp [printIntSpec, zext, IMod.width, digitsB_ge, digitsB_lt, digitChar]
  have e3 : printIntSpec .h .u 65535 = [54, 53, 53, 51, 53] := by
    simp [printIntSpec, zext, IMod.width, natDigits_lt10, natDigits_ge10]
  have e4 : printF 0x3FF8000000000000 = [49, 46, 53, 48, 48, 48, 48, 48] := by
    simp [printF, fDecode, fScaled, roundHalfEven, natDigits_lt10, natDigits_ge10]
  have e5 : printF 0xC059000000000000 = [45, 49, 48, 48, 46, 48, 48, 48, 48, 48, 48] := by
    simp [printF, fDecode, fScaled, roundHalfEven, natDigits_lt10, natDigits_ge10]
  refine ⟨?_, by decide, ?_, by decide⟩
  · simp only [inProperty, contractOK, Item.valid, Item.safe, Item.text, printFloatSpec, List.flatMap_cons, List.flatMap_nil, e2, e3,
      e4, e5, List.all_cons, List.all_nil, Item.inWidth, C15_float_arm]
    decide
  · simp [Item.text, printFloatSpec, e1, e2, e3, e4, e5]

/-- a sequence with a Float (1.5) and numeric specifications is in the contract, its separators meet `fmtOK`, the targets the
    harness uses have the same types, and the scanner of `scan_from_with` cuts its format `%$ %ld,%lf` as expected -/
example :
    let its : List Item := [.shw (.flt 0x3FF8000000000000), .lit [32], .ld 7, .lit [44], .lf 0xC059000000000000]
    fmtOK its = true ∧
    sameKinds (its.filterMap Item.val?) [.flt 0x401E000000000000, .int 77, .flt 0x401E000000000000] = true ∧
    segment srcCfg.scanConv (its.flatMap Item.fmt)
      = [.spec [37, 36], .lit [32], .spec [37, 108, 100], .lit [44], .spec [37, 108, 102]] := by
  refine ⟨by decide, by decide, by decide⟩

/-- the hypotheses of the String theorem are met by a string of quotes, backslashes and control characters -/
example : ∀ b ∈ [34, 92, 10, 7, 39, 63, 255, 1], b ≠ 0 := by decide

/-- the hypotheses of the Float theorems are met: 1.5 and 16777216 are `float` values, 123456789.123456 and 0.1 are finite doubles
    that are not -/
example : fFinite 0x3FF8000000000000 = true ∧ isFloat32 0x3FF8000000000000 = true ∧ isFloat32 0x4170000000000000 = true ∧
    fFinite 0x419D6F34547E6B40 = true ∧ isFloat32 0x419D6F34547E6B40 = false ∧ isFloat32 0x3FB999999999999A = false := by
  decide

/-! ## refutations: what the theorems exclude really fails -/

/-- **The pre-fix reader (before d6bdde9) is refuted**: with the escape arm falling through (`continues := false`), the text
    `String_Show` writes for the one-character string "\n" is read back as "\nn". -/
theorem C15_look_refuted_prefix :
    lookString { srcCfg.look with continues := false } (showString srcCfg.showEsc srcCfg.showOpen srcCfg.showClose [10]) 0
      = ([10, 110], .ok ([], 4)) := by decide

/-- the same input with the reader as it is now -/
example : lookString srcCfg.look (showString srcCfg.showEsc srcCfg.showOpen srcCfg.showClose [10]) 0 = ([10], .ok ([], 4)) := by
  decide

/-- **The pre-fix `%%` branch (before 619a9b3, constant advance 2) is refuted**: `print_to(s, 0, "%li%%%li", 1, 2)` writes `1%2`
    (3 characters); scanning the same format from that String added 2 to `pos` for the single `%`, read the second number at
    position 3 (the end) and threw FormatError; from a File it read both numbers but returned position 4. -/
theorem C15_pct_refuted :
    let old : Cfg := { srcCfg with pctUsesN := false, pctAdvance := 2 }
    scanItems old { kind := .str, text := [49, 37, 50], cur := 0 } 0 [.li, .pct, .li] = ([.int 1, .int 77], .raised .FormatError) ∧
    scanItems old { kind := .file, text := [49, 37, 50], cur := 0 } 0 [.li, .pct, .li]
      = ([.int 1, .int 2], .ok ({ kind := .file, text := [49, 37, 50], cur := 3 }, 4)) := by
  constructor <;> decide

/-- the same inputs with the scanner as it is now: both numbers, position 3, stream at 3 -/
example :
    scanItems srcCfg { kind := .str, text := [49, 37, 50], cur := 0 } 0 [.li, .pct, .li]
      = ([.int 1, .int 2], .ok ({ kind := .str, text := [49, 37, 50], cur := 0 }, 3)) ∧
    scanItems srcCfg { kind := .file, text := [49, 37, 50], cur := 0 } 0 [.li, .pct, .li]
      = ([.int 1, .int 2], .ok ({ kind := .file, text := [49, 37, 50], cur := 3 }, 3)) := by
  constructor <;> decide

/-- **The pre-fix integer branch (before 9114264: every specification read into `long tmp = 0` itself) is refuted.**  With the
    single old arm the width facts fail; printf writes `-5` for the Int −5 under `%d`, `%hd` and `%hhd`, and `ffffffff` for −1
    under `%x`; scanf then stored an `int` / `short` / `char` into the low bytes of the zeroed `long` and nothing widened it:
    −5 came back as 4294967291, 65531 and 251.  (−1 under `%x` comes back as 4294967295 before and after the fix: the
    specification names `unsigned int`, and that is C's conversion of −1 to it.) -/
theorem C15_int_width_old_refuted :
    let old : Cfg := { srcCfg with intArms := oldIntArms, intSigned := [] }
    armsOK old = false ∧
    printIntSpec .none .d (-5) = [45, 53] ∧ printIntSpec .h .d (-5) = [45, 53] ∧ printIntSpec .hh .d (-5) = [45, 53] ∧
    scanIntSpec old .none .d [45, 53] = .ok (4294967291, []) ∧
    scanIntSpec old .h .d [45, 53] = .ok (65531, []) ∧
    scanIntSpec old .hh .d [45, 53] = .ok (251, []) ∧
    scanIntSpec old .l .d [45, 53] = .ok (-5, []) := by
  refine ⟨by decide, ?_, ?_, ?_, by decide, by decide, by decide, by decide⟩ <;>
    simp [printIntSpec, sext, zext, IMod.width, printInt, natDigits_lt10]

/-- the same texts with the branch as it is now: −5 under each width -/
example :
    scanIntSpec srcCfg .none .d [45, 53] = .ok (-5, []) ∧ scanIntSpec srcCfg .h .d [45, 53] = .ok (-5, []) ∧
    scanIntSpec srcCfg .hh .d [45, 53] = .ok (-5, []) ∧
    scanIntSpec srcCfg .none .x [102, 102, 102, 102, 102, 102, 102, 102] = .ok (4294967295, []) ∧
    convInt .none .x (-1) = 4294967295 := by
  refine ⟨by decide, by decide, by decide, by decide, by decide⟩

/-- **Known finding KF-C15-float-spec-narrow is a violation in the model (`_refuted`).**  The full statement for a `float`
    destination is false: the finite double 123456789.123456 (0x419D6F34547E6B40) written with `%f` is `123456789.123456`; read with
    `%f` (no `l`) scan_from_with stores the nearest `float`, 123456792.0 (0x419D6F3460000000), which prints as another text.
    And 1.5e300 (0x7E41EB2D66005835) comes back as +infinity. -/
theorem C15_float_narrow_refuted :
    ¬ C15_float_narrow_statement ∧
    reparseSpec true .f 0x419D6F34547E6B40 = 0x419D6F3460000000 ∧
    reparseSpec true .f 0x7E41EB2D66005835 = 0x7FF0000000000000 ∧ fFinite 0x7FF0000000000000 = false := by
  have h1 : reparseSpec true .f 0x419D6F34547E6B40 = 0x419D6F3460000000 := by
    rw [reparseSpec_f_eq true _ (by decide)]; decide +kernel
  have h2 : reparseSpec true .f 0x7E41EB2D66005835 = 0x7FF0000000000000 := by
    rw [reparseSpec_f_eq true _ (by decide)]; decide +kernel
  refine ⟨?_, h1, h2, by decide⟩
  intro hst
  have := hst 0x419D6F34547E6B40 (by decide)
  rw [h1] at this
  have := congrArg (fun t => digitsVal (t.filter isDigit)) this
  simp only [printF_digits] at this
  revert this
  decide +kernel

/-- the same two doubles through `%lf`: read back exactly (they are doubles) -/
example : reparse 0x419D6F34547E6B40 = 0x419D6F34547E6B40 ∧ reparse 0x7E41EB2D66005835 = 0x7E41EB2D66005835 := by
  constructor <;> (unfold reparse; rw [reparseSpec_f_eq false _ (by decide)]; decide +kernel)

/-- … and the `float` value 1.5 through `%f`: read back exactly -/
example : reparseSpec true .f 0x3FF8000000000000 = 0x3FF8000000000000 := by
  rw [reparseSpec_f_eq true _ (by decide)]; decide +kernel

/-- … and `1%2` is what the writer produces for that sequence -/
example : (printItems srcCfg { kind := .str, data := [] } 0 [.li 1, .pct, .li 2]) = ({ kind := .str, data := [49, 37, 50] }, 3) := by
  have e1 : printIntSpec .l .i 1 = [49] := by rw [printIntSpec_l_signed .i rfl 1 (by decide)]; simp [printInt, natDigits_lt10]
  have e2 : printIntSpec .l .i 2 = [50] := by rw [printIntSpec_l_signed .i rfl 2 (by decide)]; simp [printInt, natDigits_lt10]
  simp [printItems, printItem, Item.text, Sink.put, e1, e2]

/-- out of contract on purpose: a number directly followed by a digit is read as a longer number -/
example : scanIntSpec srcCfg .l .i [49, 50, 51, 52] = .ok (1234, []) := by decide

/-- out of contract on purpose: `0` followed by `x` is taken for a hexadecimal prefix -/
example : scanIntSpec srcCfg .l .i ([48] ++ [120, 44]) = .ok (0, [44]) := by decide

/-! ## extension round: the branches of scan_from_with, show_to / look_from, the formats of Num.c and the character path as
     extracted data (CelloGen/TextScan.lean, model Cello/TextScan.lean) -/

/-- **What the translator extracts about the scanners is what the byte-level model assumes, decided on the extracted data**
    (`srcLike`): the `%$` branch of `scan_from_with` ASSIGNS what `look_from` returns (an absolute position — `pos = look_from(…)`, not
    `pos += …`), the integer and the floating branch ADD the `%n` count, the literal branch READS the run from the input
    (`format_from(input, pos, fmt_buf)`: a File moves only by being read) and adds its length; `print_to_with` assigns what `show_to`
    returns; `<type> tmp` of the `%c` branch and `<type>* v` of String_Show are (signed) 8-bit objects; the four formats of src/Num.c
    are cut by the two scanners into ONE specification each — `%li` for Int_Show and Int_Look, `%f` for Float_Show, `%lf` for
    Float_Look —; the delimiters and case labels of String_Show / String_Look are ASCII, and the texts String_Show writes are bytes.
    A change of any of these (seeds c15_d / c15_k: `off = look_from(…)`; c15_f / c15_j: the literal is not read) makes this fail. -/
theorem C15_scan_branches : srcLike srcX = true ∧ showTextsOK srcCfg = true := by
  constructor <;> decide

/-- **The character path (full byte range).**  A byte of a String is a C `char`, signed on x86-64.  String_Look sees it as
    `c_int(chr)` after the `%c` branch of scan_from_with stored it into `<scanCharTy> tmp` and handed on `$I(tmp)` — for a byte
    ≥ 128 the negative number `b − 256` — compares that `int` with the delimiters and case labels and stores `(char)c_int(chr)`;
    String_Show switches on `*v` and prints `$I(*v)` with `%c`.  With the types extracted from the source this typed reader and
    writer agree with the byte-level ones on every input made of bytes, and the conversions restore every byte. -/
theorem C15_char_path (l : List Nat) (hl : ∀ b ∈ l, b < 256) (pos : Nat) (b : Nat) (hb : b < 256) :
    lookStringC srcX.chrTy srcCfg.look l pos = lookString srcCfg.look l pos ∧
    showByteC srcX.showTy srcCfg.showEsc b = showByte srcCfg.showEsc b ∧
    byteOf (cObjVal srcX.chrTy b) = b ∧ (128 ≤ b → cObjVal srcX.chrTy b = (b : Int) - 256) := by
  have S := srcLike_of_ok srcX C15_scan_branches.1
  have e1 : srcX.chrTy = (true, 8) := S.chrTy
  have e2 : srcX.showTy = (true, 8) := S.showTy
  rw [e1, e2]
  refine ⟨lookStringC_eq _ S.opn S.cls S.escb S.lookKeys l hl pos, showByteC_eq _ S.showKeys b hb, byteOf_cObjVal b hb, ?_⟩
  intro h; rw [cObjVal_s8 b hb]; split <;> omega

/-- **C15 for String on the typed character path**: for every NUL-free byte string (all 255 byte values), every following bytes and
    every position counter, the `char`-typed String_Look reads back from what the `char`-typed String_Show wrote exactly the string,
    leaves exactly the rest and advances by exactly the characters written. -/
theorem C15_string_roundtrip_chars (s : List Nat) (hs : ∀ b ∈ s, b ≠ 0 ∧ b < 256) (rest : List Nat) (hr : ∀ b ∈ rest, b < 256) (pos : Nat) :
    let shown := srcCfg.showOpen ++ s.flatMap (showByteC srcX.showTy srcCfg.showEsc) ++ srcCfg.showClose
    lookStringC srcX.chrTy srcCfg.look (shown ++ rest) pos = (s, .ok (rest, pos + shown.length)) := by
  intro shown
  have S := srcLike_of_ok srcX C15_scan_branches.1
  have hsb : Bytes s := fun b hb => (hs b hb).2
  have e : shown = showString srcCfg.showEsc srcCfg.showOpen srcCfg.showClose s := by
    have h := showString_C srcCfg.showEsc S.showKeys srcCfg.showOpen srcCfg.showClose s hsb
    have e2 : srcX.showTy = (true, 8) := S.showTy
    show srcCfg.showOpen ++ s.flatMap (showByteC srcX.showTy srcCfg.showEsc) ++ srcCfg.showClose = _
    rw [e2]; exact h
  have hT := C15_scan_branches.2
  simp only [showTextsOK, Bool.and_eq_true, List.all_eq_true, decide_eq_true_eq] at hT
  have hshown : Bytes shown := e ▸ showString_bytes _ (fun p hp => hT.1.1 p hp) _ _ _ hT.1.2 hT.2 hsb
  rw [(C15_char_path (shown ++ rest) (bytes_append hshown hr) pos 0 (by omega)).1, e]
  exact C15_string_roundtrip s (fun b hb => (hs b hb).1) rest pos

/-- **C15 for sequences on the model parametrised by the extracted branches** (`printItemsX` / `scanItemsX` at `srcX`: what the driver
    runs).  `%$` goes through `show_to` / `look_from` → the Show instance → for Int and Float ONE print_to / scan_from with the format
    of Num.c, cut by the scanners; the position the callee returns is placed as the extracted rule says; literals read the input
    iff the source does.  For every sequence inside the contract whose Strings and separators are bytes, after any bytes `pre`,
    followed by any bytes `z`: the writer appends exactly the items' texts and returns start + length; the reader stores `readBack`
    and returns the same position, and a File's stream has moved by exactly the characters written. -/
theorem C15_sequence_roundtrip_source (k : Kind) (pre : List Nat) (its : List Item) (z : List Nat)
    (hc : contractOK srcCfg k its z = true) (hpre : ∀ b ∈ pre, b < 256) (hz : ∀ b ∈ z, b < 256) (hown : ∀ it ∈ its, it.ownBytes) :
    let text := its.flatMap (Item.text srcCfg)
    let inp : Input := { kind := k, text := pre ++ text ++ z, cur := pre.length }
    printItemsX srcX { kind := k, data := pre } pre.length its = some ({ kind := k, data := pre ++ text }, pre.length + text.length) ∧
    scanItemsX srcX inp pre.length (its.map Item.shape)
      = (its.filterMap (Item.readBack srcCfg), .ok (inp.adv text.length, pre.length + text.length)) := by
  intro text inp
  have S := srcLike_of_ok srcX C15_scan_branches.1
  have h := C15_sequence_roundtrip k pre its z hc
  have hv := contract_valid srcCfg k its z hc
  have hb : Bytes inp.text := bytes_append (bytes_append hpre (items_text_bytes srcCfg C15_scan_branches.2 its hown)) hz
  constructor
  · rw [printItemsX_eq srcX S its (fun it hit => ⟨hv it hit, ownBytes_strBytes it (hown it hit)⟩)]
    exact congrArg some h.1
  · rw [scanItemsX_eq srcX S _ inp hb]
    exact h.2

/-- … and the same for values written and read by calls of their own — `show_to(v, out, pos)` / `look_from(v, input, pos)` called
    directly, separators by their own print_to_with / scan_from_with (`printItemsD` / `scanItemsD`: no `%$` branch; the position
    the Show instance returns is the result) -/
theorem C15_sequence_roundtrip_direct (k : Kind) (pre : List Nat) (its : List Item) (z : List Nat)
    (hc : contractOK srcCfg k its z = true) (hpre : ∀ b ∈ pre, b < 256) (hz : ∀ b ∈ z, b < 256) (hown : ∀ it ∈ its, it.ownBytes) :
    let text := its.flatMap (Item.text srcCfg)
    let inp : Input := { kind := k, text := pre ++ text ++ z, cur := pre.length }
    printItemsD srcX { kind := k, data := pre } pre.length its = some ({ kind := k, data := pre ++ text }, pre.length + text.length) ∧
    scanItemsD srcX inp pre.length (its.map Item.shape)
      = (its.filterMap (Item.readBack srcCfg), .ok (inp.adv text.length, pre.length + text.length)) := by
  intro text inp
  have S := srcLike_of_ok srcX C15_scan_branches.1
  have h := C15_sequence_roundtrip k pre its z hc
  have hv := contract_valid srcCfg k its z hc
  have hb : Bytes inp.text := bytes_append (bytes_append hpre (items_text_bytes srcCfg C15_scan_branches.2 its hown)) hz
  constructor
  · rw [printItemsD_eq srcX S its (fun it hit => ⟨hv it hit, ownBytes_strBytes it (hown it hit)⟩)]
    exact congrArg some h.1
  · rw [scanItemsD_eq srcX S _ inp hb]
    exact h.2

/-- a direct `look_from` is not touched by the `%$` rule: with the adding branch `look_from(x, "x7", 1)` still returns 2 -/
example :
    scanItemsD { srcX with dollar := .addCall "look_from" } { kind := .str, text := [120, 55], cur := 0 } 1 [.int]
      = ([.int 7], .ok ({ kind := .str, text := [120, 55], cur := 0 }, 2)) := by decide

/-- **The `%$` branch ADDING what look_from returns (class of seeds c15_d / c15_k) is refuted.**  `look_from` returns the new absolute
    position; with `off = look_from(…); pos += off` a `%$` reached at position 1 of `x7` returns 3 instead of 2; `7,8,9` read as
    `%$,%$,%$` from a String gets 7 and 8, arrives at position 5 + 1 beyond the terminator (undefined); from a File the values are read
    (the stream decides) but the position returned for `7,8` is 5, not 3. -/
theorem C15_dollar_adds_refuted :
    let x : XCfg := { srcX with dollar := .addCall "look_from" }
    scanItemsX x { kind := .str, text := [120, 55], cur := 0 } 1 [.int]
      = ([.int 7], .ok ({ kind := .str, text := [120, 55], cur := 0 }, 3)) ∧
    scanItemsX x { kind := .str, text := [55, 44, 56, 44, 57], cur := 0 } 0 [.int, .lit [44], .int, .lit [44], .int]
      = ([.int 7, .int 8, .int 77], .ub) ∧
    scanItemsX x { kind := .file, text := [55, 44, 56], cur := 0 } 0 [.int, .lit [44], .int]
      = ([.int 7, .int 8], .ok ({ kind := .file, text := [55, 44, 56], cur := 3 }, 5)) := by
  refine ⟨by decide, by decide, by decide⟩

/-- **The literal branch NOT reading the input (class of seeds c15_f / c15_j) is refuted** for a File: `7,8` read as `%$,%$` gets 7, the
    stream still stands before the comma, and the second `%li` fails (FormatError); from a String (position is the only cursor) nothing changes. -/
theorem C15_literal_unread_refuted :
    let x : XCfg := { srcX with litReads := false }
    scanItemsX x { kind := .file, text := [55, 44, 56], cur := 0 } 0 [.int, .lit [44], .int]
      = ([.int 7, .int 77], .raised .FormatError) ∧
    scanItemsX x { kind := .str, text := [55, 44, 56], cur := 0 } 0 [.int, .lit [44], .int]
      = ([.int 7, .int 8], .ok ({ kind := .str, text := [55, 44, 56], cur := 0 }, 3)) := by
  refine ⟨by decide, by decide⟩

/-- the same inputs with the branches as they are now -/
example :
    scanItemsX srcX { kind := .str, text := [120, 55], cur := 0 } 1 [.int]
      = ([.int 7], .ok ({ kind := .str, text := [120, 55], cur := 0 }, 2)) ∧
    scanItemsX srcX { kind := .file, text := [55, 44, 56], cur := 0 } 0 [.int, .lit [44], .int]
      = ([.int 7, .int 8], .ok ({ kind := .file, text := [55, 44, 56], cur := 3 }, 3)) := by
  refine ⟨by decide, by decide⟩

/-- the byte hypotheses of `C15_sequence_roundtrip_source` are met by a sequence with high bytes -/
example :
    let its : List Item := [.shw (.str [10, 34, 92, 255, 128]), .lit [44, 32], .li (-42), .lit [32], .shw (.int 0)]
    (∀ it ∈ its, it.ownBytes) ∧ (∀ b ∈ [34, 7, 255], b < 256) := by
  refine ⟨?_, by decide⟩
  intro it hit
  simp only [List.mem_cons, List.not_mem_nil, or_false] at hit
  rcases hit with rfl | rfl | rfl | rfl | rfl <;> simp [Item.ownBytes, Bytes]


/-- `show_to` / `look_from` dispatch to the Show instance with `out` / `input` and `pos` passed through and its result returned
    unchanged; `print_to` / `scan_from` are `print_to_with` / `scan_from_with` on a Tuple of the arguments; nothing stands between
    the dispatch of scan_from_with and `fmt++; continue;`; `%c` of print_to_with hands `c_int(a)` to printf; String_Look stores through
    a `(char)` cast into a `char` buffer (texts pinned; the types as data) -/
theorem C15_show_look_dispatch :
    CelloGen.TextScan.showToBody = CelloGen.TextScan.showToBodyModelled ∧
    CelloGen.TextScan.lookFromBody = CelloGen.TextScan.lookFromBodyModelled ∧
    CelloGen.TextScan.printToMacro = CelloGen.TextScan.printToMacroModelled ∧
    CelloGen.TextScan.scanFromMacro = CelloGen.TextScan.scanFromMacroModelled ∧
    CelloGen.TextScan.scanSpecHoisted = "" ∧ CelloGen.TextScan.printCharArg = "c_int(a)" ∧
    CelloGen.TextScan.lookStoreCast = (true, 8) ∧ CelloGen.TextScan.lookBufferTy = (true, 8) := by
  refine ⟨rfl, rfl, rfl, rfl, rfl, rfl, rfl, rfl⟩

/-- of all the `Instance(Show, …)` of the library exactly Int, Float and String have a reader (`look`): the three types the
    property speaks about; every container, Box, Type, Range, Slice, Exception and GC can be shown but not read back -/
theorem C15_look_instances :
    CelloGen.TextScan.showInstances.filter (fun p => p.2 != "NULL")
      = [("Int_Show", "Int_Look"), ("Float_Show", "Float_Look"), ("String_Show", "String_Look")] := by decide

end Cello.Text
