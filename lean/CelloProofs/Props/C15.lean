/-
  C15 — show/look and print/scan round-trip values.

  Property theorems only (helper lemmas: CelloProofs/Lemmas/Text.lean, TextSeq.lean).
  Model: Cello/Text.lean.  `srcCfg` collects what the translator reads from the source on every run (CelloGen/Text.lean):
  the two escape tables of String_Show / String_Look, the delimiter and escape bytes, whether the reader's escape arm ends in
  `continue` (fix d6bdde9), and what scan_from_with adds to `pos` for `%%`.

  Float: there is deliberately no theorem about the *value* read back ("%f"/"%lf" are libc conversions whose exact model,
  `printF` / `scanDouble`, is only validated against the implementation); see the evidence's level_note.
-/
import Cello.Text
import CelloGen.Text
import CelloProofs.Lemmas.Text
import CelloProofs.Lemmas.TextFloat
import CelloProofs.Lemmas.TextSeq
import CelloProofs.Lemmas.TextFmt

namespace Cello.Text

/-- the loops and scanner branches the model was written against are the ones in the source now -/
theorem C15_source_as_modelled :
    CelloGen.Text.showSkeleton = CelloGen.Text.showSkeletonModelled ∧
    CelloGen.Text.lookSkeleton = CelloGen.Text.lookSkeletonModelled ∧
    CelloGen.Text.scanFromWith = CelloGen.Text.scanFromWithModelled ∧
    CelloGen.Text.printToWith = CelloGen.Text.printToWithModelled ∧
    CelloGen.Text.stringFormatFrom = CelloGen.Text.stringFormatFromModelled ∧
    CelloGen.Text.fileFormatFrom = CelloGen.Text.fileFormatFromModelled ∧
    CelloGen.Text.fileFormatTo = CelloGen.Text.fileFormatToModelled ∧
    CelloGen.Text.intShowFmt = "%li" ∧ CelloGen.Text.intLookFmt = "%li" ∧
    CelloGen.Text.floatShowFmt = "%f" ∧ CelloGen.Text.floatLookFmt = "%lf" := by
  refine ⟨rfl, rfl, rfl, rfl, rfl, rfl, rfl, rfl, rfl, rfl, rfl⟩

/-- **Table facts, decided on the generated tables**: every byte `String_Show` escapes is written as the reader's escape byte
    plus a letter that `String_Look` maps back to exactly that byte; the closing delimiter and the escape byte are themselves
    escaped by the writer (so a raw one never appears inside the text); they differ; both sides agree on the delimiters; and
    the reader's escape arm ends in `continue`. -/
theorem C15_tables : tablesOK srcCfg = true ∧ srcCfg.look.continues = true := by
  constructor
  · decide
  · rfl

/-- the `%%` branch of `scan_from_with` advances `pos` by what `"%%%n"` consumed (commit 619a9b3), not by a constant -/
theorem C15_pct_uses_n : srcCfg.pctUsesN = true := rfl

/-- **C15 for String (T1).**  For every byte string `s` without NUL, every text `rest` that follows and every position counter:
    `String_Look` applied to what `String_Show` wrote for `s`, followed by `rest`, yields exactly `s`, leaves exactly `rest`
    unread, and advances the position by exactly the number of characters written. -/
theorem C15_string_roundtrip (s : List Nat) (hs : ∀ b ∈ s, b ≠ 0) (rest : List Nat) (pos : Nat) :
    let shown := showString srcCfg.showEsc srcCfg.showOpen srcCfg.showClose s
    lookString srcCfg.look (shown ++ rest) pos = (s, .ok (rest, pos + shown.length)) :=
  lookString_show srcCfg (tables_of_ok _ C15_tables.1) C15_tables.2 s hs rest pos

/-- **C15 for Int (T1).**  For every `int64_t` `n` and every following text that does not start with a digit (nor with `x`/`X`
    after a lone `0`, which `%li` would take for a hexadecimal prefix): scanf's `%li` applied to what `%li` printed, followed by
    that text, yields `n` and leaves exactly that text unread. -/
theorem C15_int_roundtrip (n : Int) (hn : -(2 ^ 63 : Int) ≤ n ∧ n < 2 ^ 63) (rest : List Nat)
    (hd : ∀ b r, rest = b :: r → ¬(48 ≤ b ∧ b ≤ 57)) (hx : n = 0 → ∀ b r, rest = b :: r → b ≠ 120 ∧ b ≠ 88) :
    scanLong true (printInt n ++ rest) = .ok (n, rest) := by
  apply scanLong_printInt true n (by simp only [inInt64, Bool.and_eq_true, decide_eq_true_eq]; exact hn) rest
  cases rest with
  | nil => simp [intSafe, headIs]
  | cons b r =>
    have h1 := hd b r rfl
    simp only [intSafe, headIs, isDigit, Bool.and_eq_true, Bool.not_eq_true', Bool.and_eq_false_iff, decide_eq_false_iff_not,
      Nat.not_le, beq_eq_false_iff_ne, Bool.or_eq_false_iff, Bool.true_and]
    refine ⟨by omega, ?_⟩
    by_cases h0 : n = 0
    · have := hx h0 b r rfl
      exact Or.inr ⟨this.1, this.2⟩
    · exact Or.inl (by simpa using h0)

/-- the same for the numeric specification `%ld` (decimal only: a following `x` is harmless) -/
theorem C15_int_roundtrip_ld (n : Int) (hn : -(2 ^ 63 : Int) ≤ n ∧ n < 2 ^ 63) (rest : List Nat)
    (hd : ∀ b r, rest = b :: r → ¬(48 ≤ b ∧ b ≤ 57)) :
    scanLong false (printInt n ++ rest) = .ok (n, rest) := by
  apply scanLong_printInt false n (by simp only [inInt64, Bool.and_eq_true, decide_eq_true_eq]; exact hn) rest
  cases rest with
  | nil => simp [intSafe, headIs]
  | cons b r =>
    have h1 := hd b r rfl
    simp only [intSafe, headIs, isDigit, Bool.and_eq_true, Bool.not_eq_true', Bool.and_eq_false_iff, decide_eq_false_iff_not,
      Nat.not_le, Bool.false_and, Bool.not_false, and_true]
    omega

/-- **C15 for sequences (T1), String and File alike, every start position.**  Let `its` be any sequence of Strings, Ints
    (shown with `%$`, `%li` or `%ld`), Floats (`%$`, `%lf`) and separators inside the contract (`contractOK`: NUL-free strings,
    64-bit integers, finite doubles, separators — directive-free text or a literal `%%` —; a number is not followed by text that continues it; a separator
    read from a File that ends in white space is not followed by white space), written by `print_to_with` at the end of a sink
    holding any bytes `pre` (start position `pre.length`), and let any text `z` follow.  Then
    * the sink holds `pre` followed by exactly the concatenation of the items' texts and the writer returns the start
      position plus the number of characters written;
    * `scan_from_with` started at the same position stores, in order, exactly the values written — for a Float the double
      nearest to the six-decimal text written (`reparse`; how close that is to the original is libc's `%f`/`%lf`, see
      `C15_float_value_statement`);
    * it returns the same position the writer returned, and a File's stream has moved by exactly the characters written. -/
theorem C15_sequence_roundtrip (k : Kind) (pre : List Nat) (its : List Item) (z : List Nat)
    (hc : contractOK srcCfg k its z = true) :
    let text := its.flatMap (Item.text srcCfg)
    let inp : Input := { kind := k, text := pre ++ text ++ z, cur := pre.length }
    printItems srcCfg { kind := k, data := pre } pre.length its = ({ kind := k, data := pre ++ text }, pre.length + text.length) ∧
    scanItems srcCfg inp pre.length (its.map Item.shape)
      = (its.filterMap Item.readBack, .ok (inp.adv text.length, pre.length + text.length)) := by
  intro text inp
  constructor
  · exact printItems_at_end srcCfg its { kind := k, data := pre }
  · apply scanItems_text srcCfg (tables_of_ok _ C15_tables.1) C15_tables.2 C15_pct_uses_n k its z inp pre.length rfl hc
    cases k <;> simp [inp, text, Input.view, List.append_assoc]

/-- … and for sequences of Strings and Ints the values stored are exactly the values written -/
theorem C15_sequence_values_exact (k : Kind) (pre : List Nat) (its : List Item) (z : List Nat)
    (hc : contractOK srcCfg k its z = true) (hnf : ∀ it ∈ its, it.isFloat = false) :
    (scanItems srcCfg { kind := k, text := pre ++ its.flatMap (Item.text srcCfg) ++ z, cur := pre.length } pre.length
      (its.map Item.shape)).1 = its.filterMap Item.val? := by
  rw [(C15_sequence_roundtrip k pre its z hc).2, filterMap_readBack_eq_val its hnf]

/-- a File's stream after the read is at start + number of characters written; a String has no stream -/
theorem C15_file_stream_position (pre text z : List Nat) :
    (({ kind := .file, text := pre ++ text ++ z, cur := pre.length } : Input).adv text.length).cur = pre.length + text.length := by
  simp [Input.adv]

/-- **A value alone** (`show_to` / `look_from` of one String, Int or Float) at any start position of a String or a File,
    whatever follows it (for a number: anything that does not continue it): the value comes back (`readBack`: for a Float, the
    double nearest to the text written) and the reader returns the position the writer returned. -/
theorem C15_single_value (k : Kind) (pre : List Nat) (v : Val) (z : List Nat)
    (hv : (Item.shw v).valid = true) (hs : (Item.shw v).safe k z = true) :
    let text := (Item.shw v).text srcCfg
    let inp : Input := { kind := k, text := pre ++ text ++ z, cur := pre.length }
    printItem srcCfg { kind := k, data := pre } pre.length (.shw v) = ({ kind := k, data := pre ++ text }, pre.length + text.length) ∧
    scanItem srcCfg inp pre.length (Item.shw v).shape = ((Item.shw v).readBack, .ok (inp.adv text.length, pre.length + text.length)) := by
  intro text inp
  constructor
  · exact printItem_at_end srcCfg { kind := k, data := pre } (.shw v)
  · apply scanItem_text srcCfg (tables_of_ok _ C15_tables.1) C15_tables.2 C15_pct_uses_n k (.shw v) z inp pre.length rfl hv hs
    cases k <;> simp [inp, text, Input.view, List.append_assoc]

/-- facts about the two conversion-character sets, decided on the sets extracted from `scan_from_with` / `print_to_with`: both end
    a specification at `$`, `i`, `d`, `f` and not at `l` or `%` -/
theorem C15_conv_sets : convOK srcCfg.scanConv = true ∧ convOK srcCfg.printConv = true := by
  constructor <;> decide

/-- **Format strings (T2).**  The same round trip stated on the *format string*: for every sequence `its` inside the contract whose
    separators are non-empty, `%`-free and not adjacent, let `fmt` be the format text (`%$`, `%li`, `%ld`, `%lf`, the separators
    verbatim).  `print_to_with(out, start, fmt, values)` — the scanner of print_to_with cutting `fmt` with its conversion set —
    writes exactly the items' texts, and `scan_from_with(input, start, fmt, targets)` with targets of the same types — the scanner
    of scan_from_with cutting `fmt` with *its* conversion set — stores the values written (`readBack`) and returns the position
    the writer returned. -/
theorem C15_format_roundtrip (k : Kind) (pre : List Nat) (its : List Item) (z : List Nat)
    (hc : contractOK srcCfg k its z = true) (hf : fmtOK its = true)
    (targets : List Val) (ht : sameKinds (its.filterMap Item.val?) targets = true) :
    let fmt := its.flatMap Item.fmt
    let text := its.flatMap (Item.text srcCfg)
    let inp : Input := { kind := k, text := pre ++ text ++ z, cur := pre.length }
    printFmt srcCfg { kind := k, data := pre } pre.length fmt (its.filterMap Item.val?)
      = some ({ kind := k, data := pre ++ text }, pre.length + text.length) ∧
    scanFmt srcCfg inp pre.length fmt targets
      = some (its.filterMap Item.readBack, .ok (inp.adv text.length, pre.length + text.length)) := by
  intro fmt text inp
  have hseq := C15_sequence_roundtrip k pre its z hc
  constructor
  · simp only [printFmt, fmt, segment_render _ (convFacts_of_ok _ C15_conv_sets.2) its hf, itemsOf_render, Option.map_some]
    exact congrArg some hseq.1
  · have h1 := itemsOf_shape (its.map Item.seg) _ _ ht
    simp only [itemsOf_render, Option.map_some] at h1
    have h2 : scanFmt srcCfg inp pre.length fmt targets
        = ((itemsOf (its.map Item.seg) targets).map (fun its' => its'.map Item.shape)).map (scanItems srcCfg inp pre.length) := by
      simp only [scanFmt, fmt, segment_render _ (convFacts_of_ok _ C15_conv_sets.1) its hf, Option.map_map]
      rfl
    rw [h2, ← h1, Option.map_some]
    exact congrArg some hseq.2

/-- **Float, position part (T2).**  For every double and every following text that starts neither with a digit nor with `e`/`E`:
    scanf's `%lf` applied to what `%f` printed consumes exactly that text, and the value it stores does not depend on what follows. -/
theorem C15_float_consumed (bits : Nat) (rest : List Nat)
    (hd : ∀ b r, rest = b :: r → ¬(48 ≤ b ∧ b ≤ 57) ∧ b ≠ 101 ∧ b ≠ 69) :
    scanDouble (printF bits ++ rest) = .ok (reparse bits, rest) := by
  apply scanDouble_printF
  cases rest with
  | nil => rfl
  | cons b r =>
    have := hd b r rfl
    simp only [fltSafe, headIs, isDigit, Bool.not_eq_true', Bool.or_eq_false_iff, Bool.and_eq_false_iff, decide_eq_false_iff_not,
      Nat.not_le, beq_eq_false_iff_ne]
    omega

/-- **Float, value part — NOT proved** (the conversions are libc's; `printF` / `scanDouble` are exact executable models of them that
    are compared with the implementation on every run, and the driver evaluates this very statement on every Float it sees):
    the double read back prints as the same six-decimal text, i.e. it is equal to the original within the printed precision. -/
def C15_float_value_statement : Prop := ∀ bits, fFinite bits = true → printF (reparse bits) = printF bits

/-! ## non-vacuity -/

/-- a sequence with quotes, a backslash, a newline, a negative number, separators with white space, read from a File, is in the
    contract; and what the writer produces for it is the expected text -/
example :
    let its : List Item := [.shw (.str [10, 34, 92, 255]), .lit [44, 32], .li (-42), .lit [32], .shw (.int 0), .lit [59], .ld 7]
    contractOK srcCfg .file its [120] = true ∧ (∀ it ∈ its, it.isFloat = false) ∧
    its.flatMap (Item.text srcCfg) = [34, 92, 110, 92, 34, 92, 92, 255, 34, 44, 32, 45, 52, 50, 32, 48, 59, 55] := by
  simp [contractOK, Item.valid, Item.safe, Item.text, Item.isFloat, intSafe, litSafe, inInt64, headIs, lastIs, isSpace, isDigit,
    printInt, natDigits_lt10, natDigits_ge10, showString, showByte, srcCfg, CelloGen.Text.showEsc, CelloGen.Text.showOpen,
    CelloGen.Text.showClose, List.lookup]

/-- a sequence with a Float (1.5) and numeric specifications is in the contract, its separators meet `fmtOK`, the targets the
    harness uses have the same types, and the scanner of `scan_from_with` cuts its format `%$ %ld,%lf` as expected -/
example :
    let its : List Item := [.shw (.flt 0x3FF8000000000000), .lit [32], .ld 7, .lit [44], .lf 0xC059000000000000]
    contractOK srcCfg .str its [] = true ∧ fmtOK its = true ∧
    sameKinds (its.filterMap Item.val?) [.flt 0x401E000000000000, .int 77, .flt 0x401E000000000000] = true ∧
    segment srcCfg.scanConv (its.flatMap Item.fmt)
      = [.spec [37, 36], .lit [32], .spec [37, 108, 100], .lit [44], .spec [37, 108, 102]] := by
  refine ⟨?_, by decide, by decide, by decide⟩
  simp [contractOK, Item.valid, Item.safe, Item.text, intSafe, fltSafe, litSafe, inInt64, headIs, isDigit, fFinite,
    printInt, natDigits_lt10, printF, fDecode, roundHalfEven, natDigits_ge10]

/-- the hypotheses of the String theorem are met by a string of quotes, backslashes and control characters -/
example : ∀ b ∈ [34, 92, 10, 7, 39, 63, 255, 1], b ≠ 0 := by decide

/-! ## refutations: what the theorems exclude really fails -/

/-- **The pre-fix reader (before d6bdde9) is refuted**: with the escape arm falling through (`continues := false`), the text
    `String_Show` writes for the one-character string "\n" is read back as "\nn". -/
theorem C15_look_refuted_prefix :
    lookString { srcCfg.look with continues := false } (showString srcCfg.showEsc srcCfg.showOpen srcCfg.showClose [10]) 0
      = ([10, 110], .ok ([], 4)) := by decide

/-- the same input with the reader as it is now -/
example : lookString srcCfg.look (showString srcCfg.showEsc srcCfg.showOpen srcCfg.showClose [10]) 0 = ([10], .ok ([], 4)) := by
  decide

/-- **The pre-fix `%%` branch (before 619a9b3, constant advance 2) is refuted**: `print_to(s, 0, "%li%%%li", 1, 2)` writes `1%2`
    (3 characters); scanning the same format from that String added 2 to `pos` for the single `%`, read the second number at
    position 3 (the end) and threw FormatError; from a File it read both numbers but returned position 4. -/
theorem C15_pct_refuted :
    let old : Cfg := { srcCfg with pctUsesN := false, pctAdvance := 2 }
    scanItems old { kind := .str, text := [49, 37, 50], cur := 0 } 0 [.li, .pct, .li] = ([.int 1, .int 77], .raised .FormatError) ∧
    scanItems old { kind := .file, text := [49, 37, 50], cur := 0 } 0 [.li, .pct, .li]
      = ([.int 1, .int 2], .ok ({ kind := .file, text := [49, 37, 50], cur := 3 }, 4)) := by
  constructor <;> decide

/-- the same inputs with the scanner as it is now: both numbers, position 3, stream at 3 -/
example :
    scanItems srcCfg { kind := .str, text := [49, 37, 50], cur := 0 } 0 [.li, .pct, .li]
      = ([.int 1, .int 2], .ok ({ kind := .str, text := [49, 37, 50], cur := 0 }, 3)) ∧
    scanItems srcCfg { kind := .file, text := [49, 37, 50], cur := 0 } 0 [.li, .pct, .li]
      = ([.int 1, .int 2], .ok ({ kind := .file, text := [49, 37, 50], cur := 3 }, 3)) := by
  constructor <;> decide

/-- … and `1%2` is what the writer produces for that sequence -/
example : (printItems srcCfg { kind := .str, data := [] } 0 [.li 1, .pct, .li 2]) = ({ kind := .str, data := [49, 37, 50] }, 3) := by
  simp [printItems, printItem, Item.text, Sink.put, printInt, natDigits_lt10]

/-- out of contract on purpose: a number directly followed by a digit is read as a longer number -/
example : scanLong true (printInt 12 ++ printInt 34) = .ok (1234, []) := by
  simp [printInt, natDigits_lt10, natDigits_ge10]; decide

/-- out of contract on purpose: `0` followed by `x` is taken for a hexadecimal prefix -/
example : scanLong true ([48] ++ [120, 44]) = .ok (0, [44]) := by decide

end Cello.Text
