/-
  C14 — print formatting equals C formatting, on every sink, with exact positions.

  Property theorems only.  Model: Cello/Fmt.lean (`loop` / `printToWith`: the scanner of src/Show.c print_to_with with
  explicit index reads and fmt_buf writes; `Out.formatTo`: format_to on a String / File sink; `showD`: the built-in
  Show instances; `refRun`: the reference semantics of the format grammar, one segment at a time).
  Source-derived: CelloGen/Fmt.lean (scan set, dispatch `if`s, the function text, the show formats, the statement list of
  String_Format_To) through `cfgNow` / `showNow` / `primNow` (Lemmas/FmtNow.lean).  What libc does for ONE `format_to` call
  is the parameter `libc : Libc` (trusted): the text it prints when it accepts the call, and whether it rejects it
  (negative result).  `prim : Prim` = libc + the code of String_Format_To; `primNow libc` = with the code in /repo now.
  Helper lemmas: CelloProofs/Lemmas/Fmt*.lean.
-/
import CelloProofs.Lemmas.FmtRefine
import CelloProofs.Lemmas.FmtPure
import CelloProofs.Lemmas.FmtGrammar
import CelloProofs.Lemmas.FmtNow
import CelloProofs.Lemmas.FmtParse
import CelloProofs.Lemmas.FmtCalls
import CelloProofs.Lemmas.FmtShow
import CelloProofs.Lemmas.FmtBuiltin
import CelloProofs.Lemmas.FmtReject
import CelloProofs.Lemmas.FmtAlias
import CelloProofs.Lemmas.FmtSize

namespace Cello.Fmt

/-! ## ties to the source -/

/-- the body of `print_to_with` in src/Show.c is the text the machine `loop` was modelled on -/
theorem C14_source_as_modelled : CelloGen.Fmt.printToWithText = CelloGen.Fmt.printToWithModelled := rfl

/-- **The scan set of the source fits the grammar**: `%` does not end a specification (so `%%` is unambiguous), every
    conversion of the property's grammar (d i u o x X f F e E g G a A c s p $) ends one, and no flag, digit, `.` or
    length-modifier character does. -/
theorem C14_scan_set :
    '%' ∉ cfgNow.conv ∧ (∀ c ∈ grammarConvs, c ∈ cfgNow.conv) ∧ (∀ x ∈ bodyChars, x ∉ cfgNow.conv) := by
  decide

/-- **The dispatch of the source**: for every conversion character of the grammar exactly one `if` fires, with the
    C value the conversion needs: `c_int` for d i u o x X and c, `c_float` for f F e E g G a A, `c_str` for s, the
    pointer for p, `show_to` for $. -/
theorem C14_dispatch_table :
    (∀ c ∈ intConvs, firing cfgNow c = [.cint]) ∧ (∀ c ∈ fltConvs, firing cfgNow c = [.cfloat]) ∧
    firing cfgNow 'c' = [.cint] ∧ firing cfgNow 's' = [.cstr] ∧ firing cfgNow 'p' = [.obj] ∧ firing cfgNow '$' = [.show] := by
  decide

/-- **`String_Format_To` as it is in the source** (generic branch): the measuring `vsnprintf`, then
    `if (size < 0) { return size; }`, and only then the alloc check, the `realloc`, the NULL check and the `vsprintf`
    (fix a626877: the guard stands BEFORE anything touches the String). -/
theorem C14_string_format_to_steps :
    stepsNow = [.measure, .guard, .allocCheck, .realloc, .memCheck, .write] := by
  decide

/-- **A call libc rejects, code as it is now**: whatever the sink (String or File), its content and the position are
    unchanged, the call is in the log, and `print_to_with` gets FormatError (`if (off < 0) { throw(FormatError, …); }`).
    Depends on the position of the guard in `String_Format_To` read from the source. -/
theorem C14_reject_call (libc : Libc) (o : Out) (frag : Str) (v : PVal) (h : libc.rej frag v = true) :
    o.call (primNow libc) frag v = ({ o with calls := o.calls ++ [⟨frag, v⟩] }, .raised .FormatError) := by
  have hr : (primNow libc).rej frag v = true := h
  rw [call_guarded _ (primNow_guarded libc), formatTo_rej _ (primNow_guarded libc) _ hr]
  simp [callOutcome, hr]

/-! ## T1: segmentation -/

/-- **C14_segmentation.** For every well-formed segmentation `segs` (literals of any bytes but `%`/NUL, `%%`, specifications
    `%` body conv whose body has no conversion character), every `prim`, every `show`, every argument list and every
    destination/start position: `print_to_with` on the rendered format does exactly what the grammar's reference semantics
    does — one `format_to` per literal run (the whole run, verbatim), one per `%%`, and for the k-th specification the
    dispatch on its conversion character with the fragment `%` body conv and the k-th argument, in order; it stops with
    FormatError at the first specification that has no argument or at the first call libc rejects (`off < 0`), or with the
    exception of the first conversion that raises.  (Outcome and destination are equal; the concatenation of the segments is the format by definition of `render`.) -/
theorem C14_segmentation (prim : Prim) (shw : Obj → Out → Out × Outcome)
    (segs : List Seg) (hwf : wfSegs cfgNow.conv segs = true) (args : List Obj) (o : Out) :
    (printToWith cfgNow prim shw (render segs) args o).pair = refRun cfgNow prim shw args segs 0 o :=
  printToWith_pair cfgNow prim shw args C14_scan_set.1 segs hwf o

/-- **The grammar is decidable and the segmentation unique**: the parser `parseFmt` (written with `takeWhile`/`dropWhile`,
    independently of the scanner) returns `segs` for a format exactly when `segs` is a well-formed segmentation of it. -/
theorem C14_grammar_decidable (fmt : Str) (segs : List Seg) :
    parseFmt cfgNow.conv fmt = some segs ↔ (render segs = fmt ∧ wfSegs cfgNow.conv segs = true) := by
  constructor
  · intro h
    obtain ⟨h1, h2, _⟩ := parse_sound cfgNow.conv _ _ _ h
    exact ⟨h1, h2⟩
  · rintro ⟨rfl, hwf⟩
    exact parse_render cfgNow.conv C14_scan_set.1 segs hwf _ (by have := length_le_render segs hwf; omega)

/-- **C14 for a format given as text**: if the (executable) parser accepts `fmt` with segments `segs`, then
    `print_to_with` on `fmt` does exactly what the reference semantics does on `segs`, within the buffers. -/
theorem C14_checked_format (prim : Prim) (shw : Obj → Out → Out × Outcome)
    (fmt : Str) (segs : List Seg) (hp : parseFmt cfgNow.conv fmt = some segs) (args : List Obj) (o : Out) :
    let r := printToWith cfgNow prim shw fmt args o
    r.pair = refRun cfgNow prim shw args segs 0 o ∧ r.marks.rdMax ≤ fmt.length ∧ r.marks.wrMax ≤ fmt.length := by
  obtain ⟨rfl, hwf⟩ := (C14_grammar_decidable fmt segs).1 hp
  obtain ⟨mk', h, h1, h2⟩ := printToWith_refines cfgNow prim shw args C14_scan_set.1 segs hwf o
  simp only [h, Result.pair]
  exact ⟨trivial, h1, h2⟩

/-- **The calls in closed form.** On a well-formed format whose specifications each find an argument of their class
    (`expectCalls … = some cs`: Int for d i u o x X c, Float for f F e E g G a A, String for s, anything for p and $),
    with a `show` that on the ARGUMENTS makes the calls `showCalls a` and does not raise, and libc accepting all of them (`AllAcc`),
    `print_to_with` makes exactly the calls `cs`:
    the literal runs verbatim, `%%`, for the k-th specification the fragment `%` body conv with the C value of the k-th
    argument, for `%$` the calls of the k-th argument's own show — in order; it completes, and the position returned is
    the start position plus the length of the text libc wrote for these calls.
    The last conjunct is what entitles the reader to instantiate `prim` with a real C library: when the specifications belong to the
    printf grammar of the property (`printfOK`: flags, width, precision, length modifier — no `*`, no `L`) and the calls of `show` are
    inside libc's contract, EVERY call handed to libc is (`Call.inContract`: one vararg, of the class the conversion reads).  Outside
    `printfOK` the position / text conjunct is a statement about the model only (`C14_star_width_refuted`). -/
theorem C14_calls (prim : Prim) (shw : Obj → Out → Out × Outcome) (showCalls : Obj → List Call)
    (segs : List Seg) (hwf : wfSegs cfgNow.conv segs = true) (args : List Obj) (cs : List Call)
    (hs : ∀ a ∈ args, ∀ o, shw a o = (emitAll prim o (showCalls a), .ok))
    (hcs : expectCalls showCalls args segs 0 = some cs) (hacc : AllAcc prim cs) (o : Out) :
    let r := printToWith cfgNow prim shw (render segs) args o
    r.pair = (emitAll prim o cs, .ok) ∧ r.out.calls = o.calls ++ cs ∧ r.out.pos = o.pos + (textOf prim cs).length ∧
    (segs.all Seg.printfOK = true → (∀ a ∈ args, ∀ c ∈ showCalls a, c.inContract = true) → ∀ c ∈ cs, c.inContract = true) := by
  have h := C14_segmentation prim shw segs hwf args o
  rw [refRun_typed prim shw C14_dispatch_table showCalls args hs segs 0 cs o hcs hacc] at h
  have h1 : (printToWith cfgNow prim shw (render segs) args o).out = emitAll prim o cs := congrArg Prod.fst h
  refine ⟨h, ?_, ?_, fun hpf hsh => expectCalls_inContract cfgNow showCalls args hsh segs 0 cs hwf hpf hcs⟩
  · simp only [h1, emitAll_calls]
  · simp only [h1, emitAll_pos]

/-- **The property's printf grammar is covered**: a specification `%` flags* digits* (`.` digits*)? lenmod conv
    (`specOK`, the grammar the check generates from) is a well-formed segment for the scan set of the source. -/
theorem C14_printf_grammar (b : Str) (c : Char) (h : specOK b c = true) : (Seg.spec b c).wf cfgNow.conv = true :=
  specOK_wf cfgNow.conv
    (fun c hc => C14_scan_set.2.1 c (by
      rcases hc with hc | hc | hc
      · exact List.mem_append_left _ (List.mem_append_left _ hc)
      · exact List.mem_append_left _ (List.mem_append_right _ hc)
      · exact List.mem_append_right _ hc))
    C14_scan_set.2.2 h

/-! ## T1: bounds -/

/-- **C14_bounds.** On a well-formed format every index read in the format array is ≤ its length (the terminator is
    the last byte read), every index written in `fmt_buf` is ≤ the length (the buffer has length+1 bytes) — on ALL of `wfSegs`, whatever
    libc does; and — with `String_Format_To` as it is now, also when libc rejects a call — the run never takes the out-of-bounds outcome,
    PROVIDED the specifications belong to the printf grammar (`printfOK`: outside it, e.g. `%*d`, libc itself reads varargs that were
    never passed — `C14_star_width_refuted`), no argument is the destination itself (`isSink`: see `C14_alias_refuted`) and no
    argument's `show` reports one. -/
theorem C14_bounds (libc : Libc) (shw : Obj → Out → Out × Outcome)
    (segs : List Seg) (hwf : wfSegs cfgNow.conv segs = true) (args : List Obj) (o : Out) :
    let r := printToWith cfgNow (primNow libc) shw (render segs) args o
    r.marks.rdMax ≤ (render segs).length ∧ r.marks.wrMax ≤ (render segs).length ∧
      (segs.all Seg.printfOK = true → (∀ a ∈ args, a.isSink = false ∧ ∀ o, (shw a o).2 ≠ .oob) → r.oc ≠ .oob) := by
  obtain ⟨mk', h, h1, h2⟩ := printToWith_refines cfgNow (primNow libc) shw args C14_scan_set.1 segs hwf o
  simp only [h]
  exact ⟨h1, h2, fun _ hs => refRun_not_oob cfgNow (primNow libc) shw (primNow_guarded libc) args hs segs 0 o⟩

/-- every format the built-in Show instances and `show_to` pass to `print_to` (read from the source) is well-formed -/
theorem C14_show_formats_wf : ∀ f ∈ showNow.formats, (parseFmt cfgNow.conv f).isSome = true := by
  decide

/-- **`Type_Show` as it is in the source** (fix 0046a69): `return print_to(output, pos, "%s", self);` — a position like every
    other show, not the OLD `return format_to(output, pos, "%s", Type_Builtin_Name(self));` (a length).  Read from src/Type.c. -/
theorem C14_type_show_returns_position : showNow.typeOff = false := by
  decide

/-- the facts about the scanner configuration and the show formats of the source that the proofs about `show` use: `%` ends
    no specification, `%s` fetches `c_str`, `%p` the pointer, all show formats are well-formed, the format of `show_to`
    for a type without Show is literal `%s` literal `%p` literal, and `Type_Show` returns a position -/
theorem C14_show_facts : ShowFacts cfgNow showNow where
  hpct := C14_scan_set.1
  hfs := C14_dispatch_table.2.2.2.1
  hfp := C14_dispatch_table.2.2.2.2.1
  wf := C14_show_formats_wf
  dflt := ⟨"<'".toList, "' At 0x".toList, ">".toList, by decide⟩
  typeNow := C14_type_show_returns_position

/-- the dispatch of the source reaches `show_to` through `$` only and `c_str` through `s` only (what makes `plainFor` the exact
    territory of KF-C14-alias) -/
theorem C14_dispatch_facts : DispatchFacts cfgNow := by
  unfold DispatchFacts
  decide

/-- **C14_bounds with the built-in Show instances**: Int, Float, String, Array, Tuple, List, Table, Tree, Range, Slice, Box,
    NULL, objects without a Show instance, Type objects (nested to any depth, any recursion fuel) never make `print_to_with`
    leave its buffers or run into undefined behaviour on a format of the printf grammar — provided no `%s` specification fetches the
    destination itself and no `%$` specification fetches an object whose show reaches it (`plainFor`, decidable, relative to the format:
    exactly KF-C14-alias; the excluded region: `C14_alias_refuted`).  The destination under `%p`, under an integer / floating conversion and
    as a surplus argument IS covered (`C14_alias_harmless`). -/
theorem C14_bounds_builtin (libc : Libc) (d : Nat)
    (segs : List Seg) (hwf : wfSegs cfgNow.conv segs = true) (hpf : segs.all Seg.printfOK = true)
    (args : List Obj) (hpl : plainFor d args segs 0 = true) (o : Out) :
    let r := printTo cfgNow (primNow libc) showNow d (render segs) args o
    r.marks.rdMax ≤ (render segs).length ∧ r.marks.wrMax ≤ (render segs).length ∧ r.oc ≠ .oob := by
  have _ := hpf
  obtain ⟨mk', h, h1, h2⟩ := printToWith_refines cfgNow (primNow libc) (showD cfgNow (primNow libc) showNow d) args C14_scan_set.1 segs hwf o
  simp only [printTo, h]
  exact ⟨h1, h2, refRun_not_oob_used cfgNow (primNow libc) _ (primNow_guarded libc) args segs 0 o
    (useOk_of_plainFor cfgNow (primNow libc) showNow (primNow_guarded libc) C14_show_facts C14_dispatch_facts d args segs 0 hwf hpl).1⟩

/-- the OLD hypothesis implies the new one: arguments that neither are nor reach the destination are fine for every format -/
theorem C14_plainArgs_plainFor (d : Nat) (args : List Obj) (h : plainArgs d args = true) (segs : List Seg) :
    plainFor d args segs 0 = true :=
  plainFor_of_plainArgs d args h segs 0

/-! ## T1: position and sinks -/

/-- **Same calls on every sink, every format.**  For EVERY format (well-formed or not, inside the printf grammar or not), argument
    list and libc there is one sequence of primitive calls `cs` and one outcome such that, whatever the destination and the start
    position, the calls made are `cs` and the outcome is that one: a String and a File receive the same `format_to` calls with the same
    C values.  (No claim about libc's TEXT: that needs the printf grammar, `C14_position`.)  `show` may be any function that is pure on the
    arguments; no argument may be the destination itself. -/
theorem C14_same_calls (libc : Libc) (shw : Obj → Out → Out × Outcome)
    (fmt : Str) (args : List Obj) (hs : ∀ a ∈ args, a.isSink = false ∧ Pure (primNow libc) (shw a)) :
    ∃ (cs : List Call) (oc : Outcome), ∀ (sink : Sink) (start : Nat),
      let r := printToWith cfgNow (primNow libc) shw fmt args ⟨sink, start, []⟩
      r.out.calls = cs ∧ r.oc = oc := by
  obtain ⟨cs, oc, h⟩ := position_of_pure (primNow libc) (primNow_guarded libc) _
    (printToWith_pure (primNow libc) cfgNow shw (primNow_guarded libc) fmt args hs)
  exact ⟨cs, oc, fun sink start => ⟨(h sink start).1, (h sink start).2.1⟩⟩

/-- **C14_position.** For every format of the printf grammar (`wfSegs` + `printfOK`: the class on which the trusted `libc` is a function
    of the fragment and the ONE value passed), argument list and libc there is one sequence of primitive
    calls `cs` and one outcome such that, whatever the destination and the start position: the calls made are `cs` (so a
    String and a File receive the same calls), the returned position is start + the number of characters libc wrote for
    them (a rejected call writes none), a File receives exactly that text at its offset, and a String written from
    `start ≤ length` holds `take start old ++ text` — it is untouched if libc accepted no call (none was made, or the
    first one was rejected: `if (size < 0) { return size; }`).  "Holds" is a statement about the bytes of the String's block `[0, position)`:
    a `%c` with a value ≡ 0 (mod 256) writes a NUL byte, behind which `c_str` does not see the rest.  `start > length`:
    `C14_start_beyond_end_refuted`.  `show` may be any function that is pure on the arguments it is used on, and no `%s` may fetch the
    destination itself (`UseOk … KindPure`: relative to the format). -/
theorem C14_position (libc : Libc) (shw : Obj → Out → Out × Outcome)
    (segs : List Seg) (hwf : wfSegs cfgNow.conv segs = true) (hpf : segs.all Seg.printfOK = true)
    (args : List Obj) (hs : UseOk cfgNow (KindPure (primNow libc) shw) args segs 0) :
    ∃ (cs : List Call) (oc : Outcome), ∀ (sink : Sink) (start : Nat),
      let prim := primNow libc
      let r := printToWith cfgNow prim shw (render segs) args ⟨sink, start, []⟩
      r.out.calls = cs ∧ r.oc = oc ∧ r.out.pos = start + (textOf prim cs).length ∧
      (∀ c, sink = .file c → r.out.sink = .file (c ++ textOf prim cs)) ∧
      (∀ v, sink = .str v → start ≤ v.length →
        r.out.sink = if accepted prim cs = [] then .str v else .str (v.take start ++ textOf prim cs)) := by
  have _ := hpf
  have hp : Pure (primNow libc) (fun o => (printToWith cfgNow (primNow libc) shw (render segs) args o).pair) := by
    have e : (fun o => (printToWith cfgNow (primNow libc) shw (render segs) args o).pair) = refRun cfgNow (primNow libc) shw args segs 0 :=
      funext (C14_segmentation (primNow libc) shw segs hwf args)
    rw [e]
    exact refRun_pure_used cfgNow (primNow libc) shw (primNow_guarded libc) args segs 0 hs
  exact position_of_pure (primNow libc) (primNow_guarded libc) _ hp

/-- **C14_position for the built-in types**: the same with `show` = the model of Int_Show / Float_Show / String_Show /
    Array_Show / Tuple_Show / List_Show / Table_Show / Tree_Show / Range_Show / Slice_Show / Box_Show / Type_Show / `show_to`
    (any recursion fuel), when no `%s` fetches the destination itself and no `%$` an object whose show reaches it (`plainFor`: exactly
    KF-C14-alias; the excluded region: `C14_alias_refuted`).  Type objects are covered since fix 0046a69 (before it: `C14_type_show_old_refuted`). -/
theorem C14_position_builtin (libc : Libc) (d : Nat)
    (segs : List Seg) (hwf : wfSegs cfgNow.conv segs = true) (hpf : segs.all Seg.printfOK = true)
    (args : List Obj) (hpl : plainFor d args segs 0 = true) :
    ∃ (cs : List Call) (oc : Outcome), ∀ (sink : Sink) (start : Nat),
      let prim := primNow libc
      let r := printTo cfgNow prim showNow d (render segs) args ⟨sink, start, []⟩
      r.out.calls = cs ∧ r.oc = oc ∧ r.out.pos = start + (textOf prim cs).length ∧
      (∀ c, sink = .file c → r.out.sink = .file (c ++ textOf prim cs)) ∧
      (∀ v, sink = .str v → start ≤ v.length →
        r.out.sink = if accepted prim cs = [] then .str v else .str (v.take start ++ textOf prim cs)) :=
  C14_position libc (showD cfgNow (primNow libc) showNow d) segs hwf hpf args
    (useOk_of_plainFor cfgNow (primNow libc) showNow (primNow_guarded libc) C14_show_facts C14_dispatch_facts d args segs 0 hwf hpl).2

/-- **Same calls on every sink, every format, built-in Show instances** (arguments that neither are nor reach the destination). -/
theorem C14_same_calls_builtin (libc : Libc) (d : Nat) (fmt : Str) (args : List Obj) (hpl : plainArgs d args = true) :
    ∃ (cs : List Call) (oc : Outcome), ∀ (sink : Sink) (start : Nat),
      let r := printTo cfgNow (primNow libc) showNow d fmt args ⟨sink, start, []⟩
      r.out.calls = cs ∧ r.oc = oc :=
  C14_same_calls libc (showD cfgNow (primNow libc) showNow d) fmt args (fun a ha => by
    have hp : plainD d a = true := List.all_eq_true.1 hpl a ha
    exact ⟨plainD_not_sink d a hp, showD_pure cfgNow (primNow libc) showNow (primNow_guarded libc) C14_show_facts d a hp⟩)

/-! ## T1: too few arguments -/

/-- **C14_too_few.**  On a well-formed format whose specifications find arguments of their class (`Typed`: Int for
    d i u o x X c, Float for f F e E g G a A, String for s; anything for p and $) and whose arguments' `show` does not raise:
    `print_to_with` completes exactly when there are enough arguments AND libc rejects none of the format's own calls
    (`NoReject`: the literal runs, `%%`, each specification with its argument's C value); otherwise — too few arguments, or
    a rejected call (`off < 0`) — it raises FormatError, and nothing else can happen. -/
theorem C14_too_few (libc : Libc) (shw : Obj → Out → Out × Outcome)
    (segs : List Seg) (hwf : wfSegs cfgNow.conv segs = true) (args : List Obj) (o : Out)
    (hs : ∀ a ∈ args, ∀ o, (shw a o).2 = .ok) (ht : Typed args segs 0) :
    let r := printToWith cfgNow (primNow libc) shw (render segs) args o
    (r.oc = .ok ↔ nspecs segs ≤ args.length ∧ NoReject (primNow libc) args segs 0) ∧
    (r.oc = .raised .FormatError ↔ args.length < nspecs segs ∨ ¬ NoReject (primNow libc) args segs 0) := by
  have h := C14_segmentation (primNow libc) shw segs hwf args o
  have h2 : (printToWith cfgNow (primNow libc) shw (render segs) args o).oc = (refRun cfgNow (primNow libc) shw args segs 0 o).2 := by
    rw [← h]; rfl
  simp only [h2]
  rcases refRun_outcome_typed (primNow libc) shw args (primNow_guarded libc) C14_dispatch_table hs segs 0 o ht (by omega)
    with ⟨h3, h4, h5⟩ | ⟨h3, h4⟩
  · rw [h3]
    simp only [Nat.zero_add] at h4
    refine ⟨⟨fun _ => ⟨h4, h5⟩, fun _ => rfl⟩, ⟨fun hc => (by cases hc), fun hc => ?_⟩⟩
    rcases hc with hc | hc
    · omega
    · exact absurd h5 hc
  · rw [h3]
    simp only [Nat.zero_add] at h4
    refine ⟨⟨fun hc => (by cases hc), fun hc => ?_⟩, ⟨fun _ => h4, fun _ => rfl⟩⟩
    rcases h4 with h4 | h4
    · omega
    · exact absurd hc.2 h4

/-- **C14_too_few when nothing else can fail.** On a well-formed format whose literal runs libc accepts and whose
    specifications can all convert their arguments (`AllOk`: classes match, libc accepts the call, `show` does not
    raise), `print_to_with` raises FormatError exactly when there are fewer arguments than specifications, and otherwise
    completes.  (Any `prim`: no rejected call, so the code of `String_Format_To` does not matter.) -/
theorem C14_too_few_all_ok (prim : Prim) (shw : Obj → Out → Out × Outcome)
    (segs : List Seg) (hwf : wfSegs cfgNow.conv segs = true) (args : List Obj) (o : Out)
    (hok : AllOk cfgNow prim shw args segs 0) :
    let r := printToWith cfgNow prim shw (render segs) args o
    (r.oc = .raised .FormatError ↔ args.length < nspecs segs) ∧ (r.oc = .ok ↔ nspecs segs ≤ args.length) := by
  have h := C14_segmentation prim shw segs hwf args o
  have h2 : (printToWith cfgNow prim shw (render segs) args o).oc = (refRun cfgNow prim shw args segs 0 o).2 := by
    rw [← h]; rfl
  simp only [h2]
  rcases refRun_outcome cfgNow prim shw args segs 0 o hok (by omega) with ⟨h3, h4⟩ | ⟨h3, h4⟩
  · rw [h3]; simp; omega
  · rw [h3]; simp; omega

/-! ## a specification libc rejects (fix a626877) -/

/-- **A rejected specification leaves the sink as the prefix left it and raises FormatError** — for every format prefix
    already written.  Format = `pre`, then a specification `%` b c, then anything; the prefix makes the calls `cs` (all
    accepted, `show` as in `C14_calls`); the specification finds an argument of its class and libc rejects the call
    (e.g. `%lc` with a wide character the "C" locale cannot encode, a width that overflows `int`).  Then, with the code
    as it is now: FormatError; String and File hold exactly what the prefix wrote (a String that received nothing is
    untouched — NOT cut at the start position, not freed); the position is where the prefix ended; the rejected call is
    the last one in the log and `post` is never looked at.  (The prefix IS written: known finding KF-C14-partial-write.) -/
theorem C14_reject_unchanged (libc : Libc) (shw : Obj → Out → Out × Outcome) (showCalls : Obj → List Call)
    (pre : List Seg) (b : Str) (c : Char) (post : List Seg)
    (hwf : wfSegs cfgNow.conv (pre ++ .spec b c :: post) = true) (args : List Obj) (cs : List Call)
    (hs : ∀ a ∈ args, ∀ o, shw a o = (emitAll (primNow libc) o (showCalls a), .ok))
    (hcs : expectCalls showCalls args pre 0 = some cs) (hacc : AllAcc (primNow libc) cs)
    (a : Obj) (ha : args[nspecs pre]? = some a) (v : PVal) (hv : specVal c a = some v)
    (hrej : libc.rej ('%' :: (b ++ [c])) v = true) (o : Out) :
    let prim := primNow libc
    let r := printToWith cfgNow prim shw (render (pre ++ .spec b c :: post)) args o
    r.oc = .raised .FormatError ∧
    r.out.sink = (emitAll prim o cs).sink ∧ r.out.pos = o.pos + (textOf prim cs).length ∧
    r.out.calls = o.calls ++ cs ++ [⟨'%' :: (b ++ [c]), v⟩] ∧
    (∀ s, o.sink = .str s → o.pos ≤ s.length →
      r.out.sink = if cs = [] then .str s else .str (s.take o.pos ++ textOf prim cs)) ∧
    (∀ f, o.sink = .file f → r.out.sink = .file (f ++ textOf prim cs)) := by
  have h := C14_segmentation (primNow libc) shw _ hwf args o
  rw [refRun_reject shw args libc C14_dispatch_table showCalls hs pre b c post cs hcs hacc a ha v hv hrej o] at h
  have h1 : (printToWith cfgNow (primNow libc) shw (render (pre ++ .spec b c :: post)) args o).out = _ := congrArg Prod.fst h
  have h2 : (printToWith cfgNow (primNow libc) shw (render (pre ++ .spec b c :: post)) args o).oc = _ := congrArg Prod.snd h
  simp only [h1, h2]
  refine ⟨trivial, trivial, emitAll_pos _ cs o, trivial, fun s hs' hle => ?_, fun f hf => emitAll_file _ cs o f hf⟩
  have := emitAll_str_guarded (primNow libc) (primNow_guarded libc) cs o s hs' hle
  rw [accepted_of_allAcc _ cs hacc] at this
  exact this

/-- **The OLD `String_Format_To` (before a626877) on the same witness** (corpus/fmt_fixed_libc_reject.ops:
    `print_to(s, 3, "%lc", $I(256))` and `print_to(s, 0, "%lc", $I(256))` on a String holding "hello"): without the guard
    the `realloc(val, pos + (−1) + 1)` cuts the String to `pos` bytes — at `pos = 3` the terminator written by `vsprintf`
    lands outside the block (undefined behaviour), at `pos = 0` the block is freed and OutOfMemoryError is raised — the
    String is not "hello" any more and the outcome is not FormatError; with the code as it is now it is untouched. -/
theorem C14_reject_old_refuted :
    let fmt := ['%', 'l', 'c']
    let hello := ['h', 'e', 'l', 'l', 'o']
    let old3 := printTo cfgNow (primOld libcTest) showNow 4 fmt [.int 256] ⟨.str hello, 3, []⟩
    let old0 := printTo cfgNow (primOld libcTest) showNow 4 fmt [.int 256] ⟨.str hello, 0, []⟩
    let now3 := printTo cfgNow (primNow libcTest) showNow 4 fmt [.int 256] ⟨.str hello, 3, []⟩
    let now0 := printTo cfgNow (primNow libcTest) showNow 4 fmt [.int 256] ⟨.str hello, 0, []⟩
    old3.oc = .oob ∧ old3.out.sink = .str ['h', 'e', 'l'] ∧
    old0.oc = .raised .OutOfMemoryError ∧ old0.out.sink = .str [] ∧
    now3.oc = .raised .FormatError ∧ now3.out.sink = .str hello ∧ now3.out.pos = 3 ∧
    now0.oc = .raised .FormatError ∧ now0.out.sink = .str hello ∧
    now3.out.calls = [⟨fmt, .i64 256⟩] := by
  decide

/-! ## the closed forms with the built-in Show instances -/

/-- **The calls in closed form, built-in Show instances.**  `C14_calls` with `show` = the model of the Show instances of the source
    (`showD`, fuel `d`): for arguments that neither are nor reach the destination (`plainArgs`) and whose own show completes
    (`showsOk`: decidable — run it once; fuel above the nesting depth, libc accepting its calls), `showCalls` is `builtinCalls`, the list
    of calls that show makes.  (Closes the gap that `C14_calls` could not be instantiated with the show the driver runs.) -/
theorem C14_calls_builtin (libc : Libc) (d : Nat)
    (segs : List Seg) (hwf : wfSegs cfgNow.conv segs = true) (args : List Obj) (cs : List Call)
    (hpl : plainArgs d args = true) (hok : showsOk cfgNow (primNow libc) showNow d args = true)
    (hcs : expectCalls (builtinCalls cfgNow (primNow libc) showNow d) args segs 0 = some cs) (hacc : AllAcc (primNow libc) cs) (o : Out) :
    let prim := primNow libc
    let r := printTo cfgNow prim showNow d (render segs) args o
    r.pair = (emitAll prim o cs, .ok) ∧ r.out.calls = o.calls ++ cs ∧ r.out.pos = o.pos + (textOf prim cs).length := by
  have h := C14_calls (primNow libc) (showD cfgNow (primNow libc) showNow d) (builtinCalls cfgNow (primNow libc) showNow d) segs hwf args cs
    (showD_closed_args cfgNow (primNow libc) showNow (primNow_guarded libc) C14_show_facts d args hpl hok) hcs hacc o
  exact ⟨h.1, h.2.1, h.2.2.1⟩

/-- **C14_too_few with the built-in Show instances**: for arguments that neither are nor reach the destination and whose own show
    completes (`showsOk`), on a well-formed `Typed` format `print_to_with` completes exactly when there are enough arguments and libc
    rejects none of the format's own calls; otherwise it raises FormatError. -/
theorem C14_too_few_builtin (libc : Libc) (d : Nat)
    (segs : List Seg) (hwf : wfSegs cfgNow.conv segs = true) (args : List Obj) (o : Out)
    (hpl : plainArgs d args = true) (hok : showsOk cfgNow (primNow libc) showNow d args = true) (ht : Typed args segs 0) :
    let r := printTo cfgNow (primNow libc) showNow d (render segs) args o
    (r.oc = .ok ↔ nspecs segs ≤ args.length ∧ NoReject (primNow libc) args segs 0) ∧
    (r.oc = .raised .FormatError ↔ args.length < nspecs segs ∨ ¬ NoReject (primNow libc) args segs 0) :=
  C14_too_few libc (showD cfgNow (primNow libc) showNow d) segs hwf args o
    (fun a ha o => by
      rw [showD_closed_args cfgNow (primNow libc) showNow (primNow_guarded libc) C14_show_facts d args hpl hok a ha o]) ht

/-- **C14_reject_unchanged with the built-in Show instances** (same hypotheses on the arguments as `C14_calls_builtin`). -/
theorem C14_reject_unchanged_builtin (libc : Libc) (d : Nat)
    (pre : List Seg) (b : Str) (c : Char) (post : List Seg)
    (hwf : wfSegs cfgNow.conv (pre ++ .spec b c :: post) = true) (args : List Obj) (cs : List Call)
    (hpl : plainArgs d args = true) (hok : showsOk cfgNow (primNow libc) showNow d args = true)
    (hcs : expectCalls (builtinCalls cfgNow (primNow libc) showNow d) args pre 0 = some cs) (hacc : AllAcc (primNow libc) cs)
    (a : Obj) (ha : args[nspecs pre]? = some a) (v : PVal) (hv : specVal c a = some v)
    (hrej : libc.rej ('%' :: (b ++ [c])) v = true) (o : Out) :
    let prim := primNow libc
    let r := printTo cfgNow prim showNow d (render (pre ++ .spec b c :: post)) args o
    r.oc = .raised .FormatError ∧
    r.out.sink = (emitAll prim o cs).sink ∧ r.out.pos = o.pos + (textOf prim cs).length ∧
    r.out.calls = o.calls ++ cs ++ [⟨'%' :: (b ++ [c]), v⟩] ∧
    (∀ s, o.sink = .str s → o.pos ≤ s.length →
      r.out.sink = if cs = [] then .str s else .str (s.take o.pos ++ textOf prim cs)) ∧
    (∀ f, o.sink = .file f → r.out.sink = .file (f ++ textOf prim cs)) :=
  C14_reject_unchanged libc (showD cfgNow (primNow libc) showNow d) (builtinCalls cfgNow (primNow libc) showNow d) pre b c post hwf args cs
    (showD_closed_args cfgNow (primNow libc) showNow (primNow_guarded libc) C14_show_facts d args hpl hok) hcs hacc a ha v hv hrej o

/-! ## %$ and the built-in Show instances -/

/-- the formats of Tuple_Show / Array_Show / List_Show read from the source are: literal opening (with one `%p` for Array and
    List), literal separator, literal closing -/
theorem C14_show_formats :
    isLitFmt showNow.tupOpen = true ∧ isLitFmt showNow.tupSep = true ∧ isLitFmt showNow.tupClose = true ∧
    parseFmt cfgNow.conv showNow.arrOpen = some [.lit "<'Array' At 0x".toList, .spec [] 'p', .lit " [".toList] ∧
    isLitFmt showNow.arrSep = true ∧ isLitFmt showNow.arrClose = true ∧
    parseFmt cfgNow.conv showNow.lstOpen = some [.lit "<'List' At 0x".toList, .spec [] 'p', .lit " [".toList] ∧
    isLitFmt showNow.lstSep = true ∧ isLitFmt showNow.lstClose = true := by
  decide

/-- **`%$` is show**: `print_to(out, pos, "%$", a)` does exactly what `show_to(a, out, pos)` does, for any `show`. -/
theorem C14_show_print (prim : Prim) (shw : Obj → Out → Out × Outcome) (a : Obj) (o : Out) :
    (printToWith cfgNow prim shw ['%', '$'] [a] o).pair = shw a o :=
  print_show cfgNow prim shw C14_scan_set.1 (C14_scan_set.2.1 '$' (by decide)) C14_dispatch_table.2.2.2.2.2 a o

/-- **A container shows its elements' own show text, each once, in iteration order** (`showItemsSpec`: the first item's
    show, then for each further item the separator and that item's show; stopping at the first that raises), between
    the opening text (with the container's address for Array and List) and the closing text — Tuple, Array and List. -/
theorem C14_show_containers (prim : Prim) (d : Nat) (items : List Obj) (o : Out) :
    let elem := fun x o => showD cfgNow prim showNow d x o
    let lit := fun (s : Str) (o : Out) => o.call prim s .none
    let addr := fun (pre post : Str) =>
      andThen (lit pre) (andThen (fun o => o.call prim ['%', 'p'] .ptr) (lit post))
    showD cfgNow prim showNow (d + 1) (.tuple items) o =
      andThen (lit showNow.tupOpen) (andThen (showItemsSpec prim elem showNow.tupSep items) (lit showNow.tupClose)) o ∧
    showD cfgNow prim showNow (d + 1) (.array items) o =
      andThen (addr "<'Array' At 0x".toList " [".toList)
        (andThen (showItemsSpec prim elem showNow.arrSep items) (lit showNow.arrClose)) o ∧
    showD cfgNow prim showNow (d + 1) (.list items) o =
      andThen (addr "<'List' At 0x".toList " [".toList)
        (andThen (showItemsSpec prim elem showNow.lstSep items) (lit showNow.lstClose)) o := by
  have hp := C14_scan_set.1
  have hd := C14_scan_set.2.1 '$' (by decide)
  have hf := C14_dispatch_table.2.2.2.2.2
  have hfp := C14_dispatch_table.2.2.2.2.1
  obtain ⟨t1, t2, t3, a1, a2, a3, l1, l2, l3⟩ := C14_show_formats
  exact ⟨showD_tuple cfgNow prim showNow hp hd hf t1 t2 t3 d items o,
    showD_array cfgNow prim showNow hp hd hf hfp _ _ a1 a2 a3 d items o,
    showD_list cfgNow prim showNow hp hd hf hfp _ _ l1 l2 l3 d items o⟩

/-- the formats of Table_Show / Tree_Show / Range_Show / Slice_Show / Box_Show / `show_to` read from the source -/
theorem C14_show_formats_more :
    parseFmt cfgNow.conv showNow.tblOpen = some [.lit "<'Table' At 0x".toList, .spec [] 'p', .lit " {".toList] ∧
    parseFmt cfgNow.conv showNow.tblPair = some [.spec [] '$', .lit ":".toList, .spec [] '$'] ∧
    isLitFmt showNow.tblSep = true ∧ isLitFmt showNow.tblClose = true ∧
    parseFmt cfgNow.conv showNow.treOpen = some [.lit "<'Tree' At 0x".toList, .spec [] 'p', .lit " {".toList] ∧
    parseFmt cfgNow.conv showNow.trePair = some [.spec [] '$', .lit ":".toList, .spec [] '$'] ∧
    isLitFmt showNow.treSep = true ∧ isLitFmt showNow.treClose = true ∧
    parseFmt cfgNow.conv showNow.rngOpen = some [.lit "<'Range' At 0x".toList, .spec [] 'p', .lit " [".toList] ∧
    parseFmt cfgNow.conv showNow.rngItem = some [.spec ['l'] 'i'] ∧
    isLitFmt showNow.rngSep = true ∧ isLitFmt showNow.rngClose = true ∧
    parseFmt cfgNow.conv showNow.slcOpen = some [.lit "<'Slice' At 0x".toList, .spec [] 'p', .lit " [".toList] ∧
    isLitFmt showNow.slcSep = true ∧ isLitFmt showNow.slcClose = true ∧
    parseFmt cfgNow.conv showNow.boxFmt =
      some [.lit "<'Box' at 0x".toList, .spec [] 'p', .lit " (".toList, .spec [] '$', .lit ")>".toList] ∧
    isLitFmt showNow.nullFmt = true ∧
    parseFmt cfgNow.conv showNow.defaultFmt =
      some [.lit "<'".toList, .spec [] 's', .lit "' At 0x".toList, .spec [] 'p', .lit ">".toList] := by
  decide

/-- **Table, Tree, Range, Slice, Box, NULL and objects without a Show instance.**  `%$` (i.e. `show_to`) on
    * a Table / a Tree: the opening with the object's address, then for each pair in iteration order (slot order / key
      order — the order `Obj.table` / `Obj.tree` carry) the key's own show, `:`, the value's own show, `, ` between two
      pairs (not after the last), then `}>`;
    * a Range: the opening, one `%li` call per value the iteration yields (the format of `Int_Show`: fix 78c2117, see
      `C14_range_shows_own_int_show`), `, ` between two, `]>`;
    * a Slice: the opening, each item's own show, `, ` between two, `]>`;
    * a Box: `<'Box' at 0x` address ` (` the show of what it holds `)>`;
    * NULL: the literal `<NULL>`;
    * an object of a type without Show: `<'` the type's name `' At 0x` address `>`;
    * a Type object: one `%s` call with the type's name (`Type_Show` is `print_to(output, pos, "%s", self)`, fix 0046a69).
    Each element's show text appears exactly once, in order (`showPairsSpec`, `showIntsSpec`, `showItemsSpec`). -/
theorem C14_show_more (prim : Prim) (d : Nat) (ps : List (Obj × Obj)) (ns : List Int) (items : List Obj) (x : Obj)
    (t : Str) (o : Out) :
    let elem := fun x o => showD cfgNow prim showNow d x o
    let lit := fun (s : Str) (o : Out) => o.call prim s .none
    let ptr := fun (o : Out) => o.call prim ['%', 'p'] .ptr
    showD cfgNow prim showNow (d + 1) (.table ps) o =
      andThen (addrCalls prim "<'Table' At 0x".toList " {".toList)
        (andThen (showPairsSpec prim elem ":".toList showNow.tblSep ps) (lit showNow.tblClose)) o ∧
    showD cfgNow prim showNow (d + 1) (.tree ps) o =
      andThen (addrCalls prim "<'Tree' At 0x".toList " {".toList)
        (andThen (showPairsSpec prim elem ":".toList showNow.treSep ps) (lit showNow.treClose)) o ∧
    showD cfgNow prim showNow (d + 1) (.range ns) o =
      andThen (addrCalls prim "<'Range' At 0x".toList " [".toList)
        (andThen (showIntsSpec prim ['%', 'l', 'i'] showNow.rngSep ns) (lit showNow.rngClose)) o ∧
    showD cfgNow prim showNow (d + 1) (.slice items) o =
      andThen (addrCalls prim "<'Slice' At 0x".toList " [".toList)
        (andThen (showItemsSpec prim elem showNow.slcSep items) (lit showNow.slcClose)) o ∧
    showD cfgNow prim showNow (d + 1) (.box x) o =
      andThen (lit "<'Box' at 0x".toList) (andThen ptr (andThen (lit " (".toList) (andThen (elem x) (lit ")>".toList)))) o ∧
    showD cfgNow prim showNow (d + 1) .null o = lit showNow.nullFmt o ∧
    showD cfgNow prim showNow (d + 1) (.other t) o =
      andThen (lit "<'".toList) (andThen (fun o => o.call prim ['%', 's'] (.cstr t))
        (andThen (lit "' At 0x".toList) (andThen ptr (lit ">".toList)))) o ∧
    showD cfgNow prim showNow (d + 1) (.type t) o = o.call prim ['%', 's'] (.cstr t) := by
  have hp := C14_scan_set.1
  have hd := C14_scan_set.2.1 '$' (by decide)
  have hf := C14_dispatch_table.2.2.2.2.2
  have hfp := C14_dispatch_table.2.2.2.2.1
  have hfs := C14_dispatch_table.2.2.2.1
  have hfi : firing cfgNow 'i' = [.cint] := C14_dispatch_table.1 'i' (by decide)
  obtain ⟨t1, t2, t3, t4, r1, r2, r3, r4, g1, g2, g3, g4, s1, s2, s3, b1, n1, d1⟩ := C14_show_formats_more
  refine ⟨showD_table cfgNow prim showNow hp hf hfp _ _ _ t1 t2 t3 t4 d ps o,
    showD_tree cfgNow prim showNow hp hf hfp _ _ _ r1 r2 r3 r4 d ps o, ?_,
    showD_slice cfgNow prim showNow hp hd hf hfp _ _ s1 s2 s3 d items o, ?_, ?_, ?_, ?_⟩
  · have := showD_range cfgNow prim showNow hp hfp ['l'] 'i' hfi _ _ g1 g2 g3 g4 d ns o
    have hi : showNow.rngItem = ['%', 'l', 'i'] := by decide
    rw [hi] at this
    exact this
  · simp only [showD]
    exact print_box cfgNow prim _ hp hf hfp _ _ _ _ b1 (.box x) x o
  · simp only [showD]
    exact print_lit cfgNow prim _ hp _ n1 [] o
  · simp only [showD]
    exact print_default cfgNow prim _ hp hfs hfp _ _ _ _ d1 t (.other t) o
  · simp only [showD, C14_type_show_returns_position, Bool.false_eq_true, if_false]
    exact print_type cfgNow prim _ hp hfs _ (by decide) t o

/-- **A Range shows its elements' own show text (fix 78c2117).**  The item format of `Range_Show` read from the source IS the format of
    `Int_Show` (`"%li"`), and therefore `%$` on a Range writes, between the opening and the closing text, exactly what `show` writes for
    each Int the iteration yields — each once, in order, `, ` between two (`showItemsSpec` over the values as Int objects, the same
    specification as for Array / List / Slice).  Breaks when the item format is turned back to `"%i"` (`C14_range_show_old_refuted`). -/
theorem C14_range_shows_own_int_show (prim : Prim) (d : Nat) (ns : List Int) (o : Out) :
    showNow.rngItem = showNow.intFmt ∧
    showD cfgNow prim showNow (d + 2) (.range ns) o =
      andThen (addrCalls prim "<'Range' At 0x".toList " [".toList)
        (andThen (showItemsSpec prim (fun x o => showD cfgNow prim showNow (d + 1) x o) showNow.rngSep (ns.map Obj.int))
          (fun o => o.call prim showNow.rngClose .none)) o := by
  have hp := C14_scan_set.1
  have hfi : firing cfgNow 'i' = [.cint] := C14_dispatch_table.1 'i' (by decide)
  have hitem : showNow.rngItem = showNow.intFmt := by decide
  have hint : parseFmt cfgNow.conv showNow.intFmt = some [.spec ['l'] 'i'] := by decide
  refine ⟨hitem, ?_⟩
  rw [(C14_show_more prim (d + 1) [] ns [] .null [] o).2.2.1]
  have hli : (['%', 'l', 'i'] : Str) = showNow.intFmt := by decide
  have e : showIntsSpec prim ['%', 'l', 'i'] showNow.rngSep ns =
      showItemsSpec prim (fun x o => showD cfgNow prim showNow (d + 1) x o) showNow.rngSep (ns.map Obj.int) := by
    funext o
    rw [hli]
    exact showIntsSpec_eq_items prim _ _ _ (fun n o => showD_int cfgNow prim showNow hp ['l'] 'i' hfi hint d n o) ns o
  rw [e]

/-- **The OLD `Range_Show` (before 78c2117) on the same witness** (corpus/fmt_fixed_range_show.ops: `%$` on
    `range($I(2147483647), $I(2147483649))`): the OLD item format `"%i"` makes libc read an `int` — the second value, 2^31, comes out as
    the negative number its low 32 bits spell, while `show` of that Int (and the Range now) writes it in full.  `libcWidth` = a test
    libc whose integer text depends on the width the conversion reads. -/
theorem C14_range_show_old_refuted :
    let r := Obj.range [2147483647, 2147483648]
    let old := printTo cfgNow primWidth showOldRange 4 ['%', '$'] [r] ⟨.file [], 0, []⟩
    let now := printTo cfgNow primWidth showNow 4 ['%', '$'] [r] ⟨.file [], 0, []⟩
    let own := printTo cfgNow primWidth showNow 4 ['%', '$'] [.int 2147483648] ⟨.file [], 0, []⟩
    old.out.sink = .file "<'Range' At 0xp [n, -n]>".toList ∧ now.out.sink = .file "<'Range' At 0xp [n, n]>".toList ∧
    own.out.sink = .file "n".toList ∧ old.out.calls.map (·.frag) ≠ now.out.calls.map (·.frag) ∧
    showOldRange.rngItem ≠ showOldRange.intFmt := by
  decide

/-! ## known finding F29, malformed tails, non-vacuity -/

/-- **F29 (known finding).** The statement "when FormatError is raised the destination is unchanged" is false for the
    code as it is: `print_to(s, 0, "abc %d")` with no argument raises FormatError after `abc ` was written. -/
theorem C14_unchanged_on_error_refuted :
    let r := printTo cfgNow primTest showNow 4 ['a', 'b', 'c', ' ', '%', 'd'] [] ⟨.str ['o', 'l', 'd'], 0, []⟩
    r.oc = .raised .FormatError ∧ r.out.sink = .str ['a', 'b', 'c', ' '] ∧ r.out.sink ≠ .str ['o', 'l', 'd'] := by
  decide

/-- **Aliasing (known finding KF-C14-alias).** `C14_bounds_builtin` / `C14_position_builtin` exclude arguments that are
    the destination itself, and they must: `print_to(s, 2, "%s", s)` on a String holding "ab" — `c_str(s)` is fetched, then
    `String_Format_To` reallocates `s->val` and `vsprintf` reads the old block — and `print_to(s, 2, "%$", s)` (also through a
    Tuple that contains `s`) — `String_Show` walks the buffer its own first `print_to` reallocated — are undefined
    behaviour in the code as it is (heap-use-after-free under ASan); `plainArgs` is false exactly there.  A File as its
    own argument is harmless (no C_Str: ClassError; no Show: the default `<'File' At 0x…>`). -/
theorem C14_alias_refuted :
    let o : Out := ⟨.str ['a', 'b'], 2, []⟩
    (printTo cfgNow primTest showNow 4 ['%', 's'] [.sink] o).oc = .oob ∧
    (printTo cfgNow primTest showNow 4 ['%', '$'] [.sink] o).oc = .oob ∧
    (printTo cfgNow primTest showNow 4 ['%', '$'] [.tuple [.int 1, .sink]] o).oc = .oob ∧
    plainArgs 4 [.sink] = false ∧ plainArgs 4 [.tuple [.int 1, .sink]] = false ∧
    (printTo cfgNow primTest showNow 4 ['%', 's'] [.sink] ⟨.file ['a', 'b'], 2, []⟩).oc = .raised .ClassError ∧
    (printTo cfgNow primTest showNow 4 ['%', '$'] [.sink] ⟨.file [], 0, []⟩).out.sink = .file "<'File' At 0xp>".toList := by
  decide

/-- **The destination as its own argument where the code is right** (the region `plainArgs` excluded and `plainFor` does not): on a String
    holding "ab", `print_to(s, 2, "%p|", s)` prints the address, `print_to(s, 0, "%d", $I(7), s)` never fetches the surplus `s`,
    `print_to(s, 0, "x%d", s)` raises ClassError after `x` (a String has no C_Int) — no undefined behaviour, `plainFor` holds, `plainArgs`
    does not; `%s` / `%$` on the same arguments is KF-C14-alias and `plainFor` is false (corpus/fmt_alias_safe.ops, corpus/kf_c14_alias.ops). -/
theorem C14_alias_harmless :
    let o2 : Out := ⟨.str ['a', 'b'], 2, []⟩
    let o0 : Out := ⟨.str ['a', 'b'], 0, []⟩
    let r1 := printTo cfgNow primTest showNow 4 ['%', 'p', '|'] [.sink] o2
    let r2 := printTo cfgNow primTest showNow 4 ['%', 'd'] [.int 7, .sink] o0
    let r3 := printTo cfgNow primTest showNow 4 ['x', '%', 'd'] [.sink] o0
    r1.oc = .ok ∧ r1.out.sink = .str ['a', 'b', 'p', '|'] ∧ r1.out.pos = 4 ∧
    r2.oc = .ok ∧ r2.out.sink = .str ['n'] ∧ r2.out.pos = 1 ∧
    r3.oc = .raised .ClassError ∧ r3.out.sink = .str ['x'] ∧
    plainFor 4 [.sink] [.spec [] 'p', .lit ['|']] 0 = true ∧ plainArgs 4 [.sink] = false ∧
    plainFor 4 [.int 7, .sink] [.spec [] 'd'] 0 = true ∧ plainFor 4 [.sink] [.lit ['x'], .spec [] 'd'] 0 = true ∧
    plainFor 4 [.sink] [.spec [] 's'] 0 = false ∧ plainFor 4 [.tuple [.int 1, .sink]] [.spec [] '$'] 0 = false ∧
    plainFor 4 [.int 1, .tuple [.sink]] [.spec [] '$', .spec [] 'p'] 0 = true := by
  decide

/-- **`*` width / precision, `L`, `%ls` (known finding KF-C14-star-width).**  The property says "flags, width, precision"; `*` IS a
    standard printf width.  `print_to(s, 0, "[%*d]", $I(5), $I(42))`: the format is well-formed for the scanner (`wfSegs`: `*` is no
    conversion character) but outside `printfOK`; `print_to_with` makes ONE call for the specification, with ONE vararg — the 5 —, and
    fetches ONE Cello argument: the 42 is never used (the run is the same with 43 in its place, or with no second argument at all).  libc,
    however, reads TWO varargs for `%*d`: the width from the 5 that was passed and the value from whatever the next register holds —
    so the text is not `printf("[%*d]", 5, 42)` = `[   42]` and not a function of the arguments at all.  The call is outside libc's
    contract (`Call.inContract`), which is why the text / no-undefined-behaviour conjuncts of `C14_bounds`, `C14_position`, `C14_calls`
    carry `printfOK`.  Witness: corpus/kf_c14_star_width.ops. -/
theorem C14_star_width_refuted :
    let segs := [Seg.lit ['['], .spec ['*'] 'd', .lit [']']]
    let run := fun (args : List Obj) => printTo cfgNow primTest showNow 4 (render segs) args ⟨.str [], 0, []⟩
    wfSegs cfgNow.conv segs = true ∧ segs.all Seg.printfOK = false ∧ inGrammar cfgNow.conv (render segs) = false ∧
    (run [.int 5, .int 42]).oc = .ok ∧
    (run [.int 5, .int 42]).out.calls = [⟨['['], .none⟩, ⟨['%', '*', 'd'], .i64 5⟩, ⟨[']'], .none⟩] ∧
    run [.int 5, .int 42] = run [.int 5, .int 43] ∧ run [.int 5, .int 42] = run [.int 5] ∧
    (Call.mk ['%', '*', 'd'] (.i64 5)).inContract = false ∧
    (Call.mk ['%', '.', '*', 'f'] (.dbl 0)).inContract = false ∧ (Call.mk ['%', 'L', 'f'] (.dbl 0)).inContract = false ∧
    (Call.mk ['%', 'l', 's'] (.cstr [])).inContract = false ∧
    (Call.mk ['%', '-', '0', '8', '.', '3', 'l', 'l', 'd'] (.i64 5)).inContract = true := by
  decide

/-- **A start position beyond the end of a String (known finding KF-C14-start-beyond-end).**  The quantifier says "all start positions";
    every String conclusion above carries `start ≤ length`, and it must: `print_to(s, 5, "xyz")` on a String holding "ab" returns 8 =
    5 + 3 (the position conjunct holds), but `realloc` keeps `ab\0` and the text lands at index 5, behind the old terminator and two
    indeterminate bytes — the C string the sink holds is still "ab", not `take 5 "ab" ++ "xyz"`, and its length (2) is not the position
    returned.  (A File ignores the position altogether: `File_Format_To` writes at the current offset.)  Witness:
    corpus/kf_c14_start_beyond_end.ops. -/
theorem C14_start_beyond_end_refuted :
    let r := printTo cfgNow primTest showNow 4 ['x', 'y', 'z'] [] ⟨.str ['a', 'b'], 5, []⟩
    r.oc = .ok ∧ r.out.pos = 8 ∧ textOf primTest r.out.calls = ['x', 'y', 'z'] ∧
    cValueAfter ['a', 'b'] 5 ['x', 'y', 'z'] = ['a', 'b'] ∧
    cValueAfter ['a', 'b'] 5 ['x', 'y', 'z'] ≠ (['a', 'b'] : Str).take 5 ++ ['x', 'y', 'z'] ∧
    (cValueAfter ['a', 'b'] 5 ['x', 'y', 'z']).length ≠ r.out.pos ∧
    cValueAfter ['a', 'b'] 2 ['x', 'y', 'z'] = ['a', 'b', 'x', 'y', 'z'] := by
  decide

/-- **`fmt_buf` on the throw paths (known finding KF-C14-fmtbuf-leak).**  `print_to_with` allocates `fmt_buf` first and frees it only before
    `return pos;` (`C14_source_as_modelled`: the one `free` of the function text); every way out through an exception — too few arguments,
    a call libc rejects, ClassError / ValueError from `c_int` / `c_str`, an invalid format — skips it: `strlen(fmt)+1` bytes stay allocated
    per failing call, nothing on the normal path.  Not a read or write outside the buffers; recorded because every occurrence of
    KF-C14-partial-write leaks.  Witness: corpus/kf_c14_fmtbuf_leak.ops. -/
theorem C14_fmt_buf_released_refuted :
    let fmt := ['a', 'b', 'c', ' ', '%', 'd']
    let few := printTo cfgNow primTest showNow 4 fmt [] ⟨.str [], 0, []⟩
    let cls := printTo cfgNow primTest showNow 4 fmt [.str ['x']] ⟨.str [], 0, []⟩
    let fine := printTo cfgNow primTest showNow 4 fmt [.int 1] ⟨.str [], 0, []⟩
    few.oc = .raised .FormatError ∧ few.leaked fmt = 7 ∧ cls.oc = .raised .ClassError ∧ cls.leaked fmt = 7 ∧
    fine.oc = .ok ∧ fine.leaked fmt = 0 := by
  decide

/-- **Type objects at any position (was known finding KF-C14-type-show, fixed by 0046a69).**  `%$` on a Type object advances
    the position by the length of what libc wrote for the one call `%s` with the type's name, whatever the start position
    and the sink: with the code as it is now `print_to_with` continues where the name ended.  (General statement; the
    witness is in `C14_type_show_old_refuted`.) -/
theorem C14_type_show_position (prim : Prim) (d : Nat) (n : Str) (o : Out) :
    let r := showD cfgNow prim showNow (d + 1) (.type n) o
    r = o.call prim ['%', 's'] (.cstr n) ∧ r.1.calls = o.calls ++ [⟨['%', 's'], .cstr n⟩] ∧
    r.1.pos = o.pos + (prim.out ['%', 's'] (.cstr n)).length := by
  have h := (C14_show_more prim d [] [] [] .null n o).2.2.2.2.2.2.2
  simp only [h]
  refine ⟨trivial, ?_, ?_⟩
  · simp only [Out.call, Out.formatTo]; split <;> rfl
  · simp only [Out.call, Out.formatTo, Prim.out]; split <;> simp

/-- **The OLD `Type_Show` (before 0046a69) on the same witness** (corpus/fmt_fixed_type_show.ops: `print_to(s, 5, "[%$]", Int)` on
    a String holding "hello"): the OLD `Type_Show` is `return format_to(output, pos, "%s", name)`, so after `[Int` was written at
    5…8 the position becomes 3, the closing `]` lands at index 3, the String is `hel]` and 4 is returned — not
    `hello[Int]` / 10; with the code as it is now the String is `hello[Int]`, 10 is returned, and a File gets the same
    text.  (`showOld` = `showNow` with the OLD `Type_Show`.) -/
theorem C14_type_show_old_refuted :
    let fmt := ['[', '%', '$', ']']
    let old := printTo cfgNow primTest showOld 4 fmt [.type ['I', 'n', 't']] ⟨.str "hello".toList, 5, []⟩
    let now := printTo cfgNow primTest showNow 4 fmt [.type ['I', 'n', 't']] ⟨.str "hello".toList, 5, []⟩
    let nowF := printTo cfgNow primTest showNow 4 fmt [.type ['I', 'n', 't']] ⟨.file "hello".toList, 5, []⟩
    old.oc = .ok ∧ old.out.pos = 4 ∧ old.out.sink = .str "hel]".toList ∧
    5 + (textOf primTest old.out.calls).length = 10 ∧ showOld.typeOff = true ∧
    now.oc = .ok ∧ now.out.pos = 10 ∧ now.out.sink = .str "hello[Int]".toList ∧ now.out.calls = old.out.calls ∧
    nowF.out.pos = 10 ∧ nowF.out.sink = .file "hello[Int]".toList ∧
    plainArgs 4 [.type ['I', 'n', 't']] = true ∧ plainArgs 4 [.tuple [.box (.type ['I', 'n', 't'])]] = true := by
  decide

/-- Outside the grammar the bounds do fail: a format that is one incomplete specification (`"%5"`) makes
    `print_to_with` write `fmt_buf[length+1]` — one byte past its `length+1` bytes. -/
theorem C14_malformed_tail_out_of_bounds :
    let r := printTo cfgNow primTest showNow 4 ['%', '5'] [.int 1] ⟨.str [], 0, []⟩
    r.oc = .oob ∧ r.marks.wrMax = 3 := by
  decide

/-- Non-vacuity: a format with a literal, `%%`, adjacent specifications at the very end, `%$` on a container; the
    hypotheses of the theorems hold and the machine produces the expected calls, text and position. -/
example :
    let segs := [Seg.lit ['x', '='], .spec ['-', '5', 'l'] 'd', .pct, .spec [] '$', .spec ['.', '2'] 's']
    let args := [Obj.int (-3), .tuple [.int 1, .str ['a', '"']], .str ['h', 'i']]
    let r := printTo cfgNow primTest showNow 4 (render segs) args ⟨.str ['o', 'l', 'd'], 1, []⟩
    wfSegs cfgNow.conv segs = true ∧ segs.all Seg.printfOK = true ∧ parseFmt cfgNow.conv (render segs) = some segs ∧
    r.oc = .ok ∧ r.out.pos = 23 ∧ r.marks = ⟨15, 5⟩ ∧ (render segs).length = 15 ∧
    r.out.sink = .str ("ox=-n%tuple(n, \"n\\\"\")hi".toList) ∧
    r.out.calls.map (·.frag) = ["x=", "%-5ld", "%%", "tuple(", "%li", ", ", "\"", "%c", "\\\"", "\"", ")", "%.2s"].map String.toList := by
  decide

/-- Non-vacuity of `C14_calls` / `C14_too_few_typed`: a typed format has expected calls; dropping its last argument
    makes it `Typed` still, with fewer arguments than specifications. -/
example :
    let segs := [Seg.spec ['0', '8', '.', '3'] 'f', .lit [' '], .spec ['l', 'l'] 'x', .pct, .spec [] 's', .spec [] 'p']
    let args := [Obj.flt 0x3ff8000000000000, .int 255, .str ['a'], .int 0]
    wfSegs cfgNow.conv segs = true ∧
    expectCalls (fun _ => []) args segs 0 = some [⟨"%08.3f".toList, .dbl 0x3ff8000000000000⟩, ⟨" ".toList, .none⟩,
      ⟨"%llx".toList, .i64 255⟩, ⟨"%%".toList, .none⟩, ⟨"%s".toList, .cstr ['a']⟩, ⟨"%p".toList, .ptr⟩] ∧
    nspecs segs = 4 ∧ expectCalls (fun _ => []) (args.take 3) segs 0 = none := by
  decide

/-- Non-vacuity of `C14_reject_unchanged` and of the `NoReject` side of `C14_too_few`: a prefix with a literal, `%%` and an
    accepted `%d`, then `%lc` with 8364 (rejected by `libcTest`), then a suffix: the hypotheses hold, and the machine
    leaves `take 1 "old" ++ "x=n%"`, position 5, FormatError, the rejected call last in the log. -/
example :
    let pre := [Seg.lit ['x', '='], .spec [] 'd', .pct]
    let segs := pre ++ .spec ['l'] 'c' :: [Seg.lit ['!'], .spec [] 's']
    let args := [Obj.int 7, .int 8364, .str ['z']]
    let r := printTo cfgNow primTest showNow 4 (render segs) args ⟨.str ['o', 'l', 'd'], 1, []⟩
    wfSegs cfgNow.conv segs = true ∧ Typed args segs 0 ∧
    expectCalls (fun _ => []) args pre 0 = some [⟨['x', '='], .none⟩, ⟨['%', 'd'], .i64 7⟩, ⟨['%', '%'], .none⟩] ∧
    nspecs pre = 1 ∧ specVal 'c' (.int 8364) = some (.i64 8364) ∧ libcTest.rej ['%', 'l', 'c'] (.i64 8364) = true ∧
    libcTest.rej ['%', 'd'] (.i64 7) = false ∧
    r.oc = .raised .FormatError ∧ r.out.sink = .str ['o', 'x', '=', 'n', '%'] ∧ r.out.pos = 5 ∧
    r.out.calls.getLast? = some ⟨['%', 'l', 'c'], .i64 8364⟩ ∧ r.out.calls.length = 4 := by
  refine ⟨by decide, ?_, by decide, by decide, by decide, by decide, by decide, by decide, by decide, by decide, by decide, by decide⟩
  refine ⟨?_, ?_, ?_, trivial⟩ <;> (intro a ha; simp at ha; subst ha; right; decide)

/-- Non-vacuity of `showsOk` / `builtinCalls` (`C14_calls_builtin`, `C14_too_few_builtin`, `C14_reject_unchanged_builtin`): nested containers
    are plain, their show completes with fuel 6, and its call list is what `expectCalls` splices in for `%$`. -/
example :
    let a := Obj.tuple [.int 1, .array [.str ['a']], .box (.range [0, 5])]
    let args := [a, Obj.int 7]
    let segs := [Seg.spec [] '$', .lit ['='], .spec ['0', '3'] 'd']
    plainArgs 6 args = true ∧ showsOk cfgNow primTest showNow 6 args = true ∧ showsOk cfgNow primTest showNow 2 args = false ∧
    (builtinCalls cfgNow primTest showNow 6 (.int 7)) = [⟨['%', 'l', 'i'], .i64 7⟩] ∧
    (expectCalls (builtinCalls cfgNow primTest showNow 6) args segs 0).isSome = true ∧ Typed args segs 0 ∧
    segs.all Seg.printfOK = true ∧ plainFor 6 args segs 0 = true ∧
    (builtinCalls cfgNow primTest showNow 6 a).all Call.inContract = true := by
  refine ⟨by decide, by decide, by decide, by decide, by decide, ?_, by decide, by decide, by decide⟩
  refine ⟨?_, ?_, trivial⟩ <;> (intro a ha; simp at ha; subst ha; first | (left; rfl) | (right; decide))

/-- Non-vacuity of `plainArgs`: nested containers of every modelled kind are plain, Type objects included; the show text of a
    Table inside a Box inside a Tuple, a Type object in the middle of a Tuple (the position goes on after it). -/
example :
    let a := Obj.tuple [.box (.table [(.int 1, .str ['a']), (.int 2, .null)]), .range [0, 2], .slice [.flt 0], .other ['F', 'i', 'l', 'e'],
      .type ['T', 'r', 'e', 'e'], .tree [], .box .null]
    let r := printTo cfgNow primTest showNow 6 ['%', '$'] [a] ⟨.file [], 0, []⟩
    plainArgs 6 [a] = true ∧ r.oc = .ok ∧
    r.out.sink = .file ("tuple(<'Box' at 0xp (<'Table' At 0xp {n:\"n\", n:<NULL>}>)>, <'Range' At 0xp [n, n]>, " ++
      "<'Slice' At 0xp [f]>, <'File' At 0xp>, Tree, <'Tree' At 0xp {}>, <'Box' at 0xp (<NULL>)>)").toList := by
  decide +kernel

/-! ## extension round: the sink methods at block level, the argument types -/

/-- **`String_Format_To`'s sizing as it is in the source**: the statements, the size handed to `realloc` (`pos + size + 1`) and the offset of the
    `vsprintf` destination (`pos`) the translator reads from src/String.c are the program the block-level lemmas are about. -/
theorem C14_string_format_to_sizing_source : sftNow = sftModelled := by decide

/-- **Two-pass sizing, every length.** For every block that reaches the start position (`pos ≤` its size), every text `t` libc formats for the call
    (any length, any bytes) `String_Format_To` measures `|t|`, grows or shrinks the block to `pos + |t| + 1` bytes, writes `t` and the terminator
    at `pos` — inside the block — and returns `|t|`: the block afterwards is exactly `block[0..pos) ++ t ++ NUL`.  libc's formatter is the parameter `t`. -/
theorem C14_string_format_to_block (b : List Cell) (pos : Nat) (t : Str) (h : pos ≤ b.length) :
    sftNow.run b pos t = .ret (b.take pos ++ (t ++ [NUL]).map some) t.length ∧
    (b.take pos ++ (t ++ [NUL]).map some).length = pos + t.length + 1 := by
  rw [C14_string_format_to_sizing_source, run_modelled b pos t h]
  refine ⟨rfl, ?_⟩
  simp [List.length_take]; omega

/-- **String content after = prefix[0..pos) ++ formatted, returned = length formatted**, as C string: a String holding `v` (its block is `v` and
    the terminator), a start position inside it, a text free of NUL bytes: the call returns `|t|`, the String's C value is `v[0..pos) ++ t` — what
    the abstract sink `Sink.write` of the other theorems says — and the block has not one byte more than that and its terminator. -/
theorem C14_string_content_after_call (v : Str) (pos : Nat) (t : Str) (h : pos ≤ v.length)
    (hv : ∀ c ∈ v, c ≠ NUL) (ht : ∀ c ∈ t, c ≠ NUL) :
    ∃ b', sftNow.run (blockOf v) pos t = .ret b' t.length ∧ b'.length = pos + t.length + 1 ∧
      cstrCells b' = some (v.take pos ++ t) ∧ Sink.write (.str v) pos t = .str (v.take pos ++ t) := by
  have hf := follows_blockOf v pos h
  obtain ⟨hrun, _⟩ := follows_step (blockOf v) v pos t hf
  refine ⟨blockOf (v.take pos ++ t), by rw [C14_string_format_to_sizing_source]; exact hrun, ?_, ?_, rfl⟩
  · simp [blockOf, List.length_take]; omega
  · apply cstr_blockOf
    intro c hc
    rcases List.mem_append.mp hc with hc | hc
    · exact hv c (List.mem_of_mem_take hc)
    · exact ht c hc

/-- **Position accounting at block level, whole call log.** Replaying the primitive calls of a run (literal runs, `%%`, specifications, the calls of
    `show`) on the block of a String holding `v`, from any start position inside it: no call leaves the block, the replay ends at the position
    `emitAll` computes (`pos += off` per call, `%%` counts the one character libc writes for it), and after at least one call the block is exactly
    the bytes of the abstract String sink and one terminator. -/
theorem C14_block_follows_sink (libc : Libc) (cs : List Call) (hacc : ∀ c ∈ cs, libc.rej c.frag c.val = false)
    (v : Str) (start : Nat) (h : start ≤ v.length) :
    let o : Out := ⟨.str v, start, []⟩
    ∃ v' b', (emitAll (primNow libc) o cs).sink = .str v' ∧
      replayBlock sftNow (primNow libc) cs (blockOf v) start = (b', (emitAll (primNow libc) o cs).pos, true) ∧
      (cs ≠ [] → b' = blockOf v' ∧ v'.length = (emitAll (primNow libc) o cs).pos ∧ b'.length = (emitAll (primNow libc) o cs).pos + 1) := by
  intro o
  obtain ⟨v', b', h1, h2, _, h4⟩ := replay_emitAll (primNow libc) cs hacc (blockOf v) o v rfl (follows_blockOf v start h)
  refine ⟨v', b', h1, by rw [C14_string_format_to_sizing_source]; exact h2, fun hne => ?_⟩
  obtain ⟨hb, hl⟩ := h4 hne
  refine ⟨hb, hl, ?_⟩
  rw [hb, ← hl]; simp [blockOf]

/-- A block one byte short (`realloc(val, pos + size)`: the class of fit tests that are off by one at a buffer size) is refuted for EVERY call:
    no accepted call returns — the terminator is written outside the block, or the block was freed. -/
theorem C14_sizing_without_terminator_refuted (b : List Cell) (pos : Nat) (t : Str) :
    ∀ b' n, sftNoTerminator.run b pos t ≠ .ret b' n := by
  intro b' n hr
  rcases run_noTerminator b pos t with ⟨x, hx⟩ | ⟨x, hx⟩ <;> rw [hx] at hr <;> cases hr

/-- Writing one byte late (`vsprintf(val + pos + 1, …)`) is refuted for every call. -/
theorem C14_sizing_write_late_refuted (b : List Cell) (pos : Nat) (t : Str) : ∀ b' n, sftLate.run b pos t ≠ .ret b' n := by
  intro b' n hr
  obtain ⟨x, hx⟩ := run_late b pos t
  rw [hx] at hr; cases hr

/-- **`File_Format_To` as it is in the source**: the NULL-stream refusal, then `return vfprintf(f->file, fmt, va);` — nothing else, `pos` unused. -/
theorem C14_file_format_to_steps : fftNow = [.nullCheck, .write] := fftNow_eq

/-- **Both sinks account alike**: for the same accepted call a String (any block reaching `pos`) and an open File return the same count `|t|`
    (so `pos += off` gives the same positions), the File's content grows by exactly `t`; a File without a stream refuses with IOError. -/
theorem C14_sinks_return_same_count (b : List Cell) (pos : Nat) (t c : Str) (h : pos ≤ b.length) :
    (∃ b', sftNow.run b pos t = .ret b' t.length) ∧ fftAccept t fftNow (some c) = .ret (some (c ++ t)) t.length ∧
    fftAccept t fftNow none = .ioError none := by
  rw [fftNow_eq]
  exact ⟨⟨_, (C14_string_format_to_block b pos t h).1⟩, fft_open c t, fft_closed t⟩

/-- **The C type each specification reads is the C type `print_to_with` passes.**  For every conversion of the grammar but `%$` and every length
    modifier the grammar allows for it: exactly one arm of the dispatch read from src/Show.c fires; the declared result type (include/Cello.h) of
    the cast in that arm — `int64_t c_int`, `double c_float`, `char* c_str`, `var` = `void*` — is in the x86-64 register class `printf` fetches
    that specification's argument from (C11 7.21.6.1: `int` for none / `hh` / `h` and `%c`, `long` … `ptrdiff_t` for `l ll j z t`, `double`,
    `char*`, `void*`) and is at least as wide.  (That the fetch of a narrower type sees the low bits of the slot is the ABI: trusted.) -/
theorem C14_arg_types_match_printf :
    ∀ c ∈ grammarConvs, c ≠ '$' → ∀ lm ∈ lensFor c, argTypeOK CelloGen.Fmt.castResultTypes cfgNow lm c = true := by
  decide

/-- the grammar's length modifiers are exactly those for which the type table is defined: everything else (`L`, `%lc`, `%ls`, `%hs` …) makes
    libc fetch a type `print_to_with` cannot supply — outside the property -/
theorem C14_arg_type_table_is_the_grammar :
    ∀ c ∈ grammarConvs, ∀ lm ∈ allLens, (printfReads lm c).isSome = (decide (lm ∈ lensFor c) && c != '$') := by
  decide

/-- `%$` takes no cast: the object goes to `show_to`, nothing of it through the varargs -/
theorem C14_show_dispatch_passes_nothing :
    firing cfgNow '$' = [.show] ∧ passedSlot CelloGen.Fmt.castResultTypes .show = none := by
  decide

/-- Non-vacuity of the block-level theorems: "hello" written at 2 into a String holding "abcdef" (the block grows from 7 to 8 bytes),
    a text of length 0 at the end, `%%` in a log; an `int` fetched from the slot of `2^32 + 5` sees 5. -/
example :
    sftNow.run (blockOf "abcdef".toList) 2 "hello".toList = .ret (blockOf "abhello".toList) 5 ∧
    sftNow.run (blockOf "abc".toList) 3 [] = .ret (blockOf "abc".toList) 0 ∧
    sftNoTerminator.run (blockOf "abc".toList) 3 ['x'] = .ub (blockOf "abc".toList) ∧
    replayBlock sftNow primTest [⟨['a'], .none⟩, ⟨['%', '%'], .none⟩, ⟨['%', 'd'], .i64 7⟩] (blockOf "xy".toList) 1 = (blockOf "xa%n".toList, 4, true) ∧
    lowBits 32 (2 ^ 32 + 5) = 5 ∧ lowBits 32 (-1) = 4294967295 ∧
    argTypeOK [("c_int", "int"), ("c_float", "double"), ("c_str", "char*"), ("var", "void*")] cfgNow ['l'] 'd' = false := by
  decide


end Cello.Fmt
