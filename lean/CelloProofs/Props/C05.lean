/-
  C05 — containers own their elements: each is finalised exactly once.

  Property theorems only (helper lemmas: CelloProofs/Lemmas/Own*.lean).
  Model: Cello/Own.lean — every operation of Array, List, Table, Tree and Box described by what it does to element
  ownership (`issued` = constructed by `assign` into zero-filled memory, `retired` = passed to `destruct`,
  contents), over a world of named containers with a log of every identity ever constructed / finalised.
  Source-derived facts: CelloGen/Own.lean (which functions of the container sources call destruct / assign / memcpy).

  The property as stated is false on this tree in these places (known findings; the model mirrors them):
    * Box_Assign copies the pointer (F28): containers of Box are copied shallowly, `set` drops the old pointee (KF-C05-box-shallow);
    * Box_Ref overwrites the pointer without `del` of the object the Box owned (KF-C05-box-ref-drops);
    * List_Resize(n > len) links zero-filled, never constructed elements;
    * Array_Assign from a source whose `get(obj, $I(i))` raises (a Table / Tree) leaves `len` counting records that were
      never constructed;
    * Array_New with an initial element whose assign raises leaves a half-built array (owned by the collector) whose
      Array_Del destructs records that were never constructed.
  (Another defect found by this engine — a List_Push_At that raised had already constructed the element and leaked
  it — was repaired in /repo by 4077d96; `C05_list_pushat_old_order_refuted` keeps the witness against the old order.)
  Calls with an element / key / value of the WRONG TYPE are operations of the model (`Op.typed`): refused without any
  effect wherever the type check precedes the first effect (`C05_type_check_first_*` about the source,
  `C05_refused_no_effect_type` about the model), and mirrored where the container makes room first — Array_Push /
  Array_Push_At / Array_Concat (KF-C12-array-push-type, recorded under C12), Array_New (own-array-new-partial), List_Concat
  after well-typed items (KF-C12-list-concat-partial): `typedAtomic` keeps exactly those out (`C05_type_refused_atomic_exact`).
  `inContract` excludes exactly these and the operations the op-file interpreters do not execute at all (`bad`) —
  `assign(List, non-empty Table / Tree)`, refused after `List_Clear` with the accounting intact, is IN the contract
  (`C05_list_assign_from_map`); `ref(box, p)` on a Box that owns an object is its own finding (KF-C05-box-ref-drops,
  `C05_box_ref_refuted`); the theorems named `…_partial` are proved for every
  history of in-contract operations, the full statements are kept as `…_statement` and refuted (`…_refuted`) on concrete
  witnesses.  The second sentence of the property — internal moves neither duplicate nor drop an element — is the section
  "Internal moves" (`C05_moves_*`): composition with the structural models of Table (C02), Tree (C03) and Array (C04's
  store-level block of records, `C05_moves_array`); not composed: List (node relinking stays list surgery).
-/
import CelloProofs.Lemmas.OwnRefused
import CelloProofs.Lemmas.OwnProfile
import CelloProofs.Lemmas.OwnCompose
import CelloProofs.Lemmas.OwnSeqMoves
import CelloProofs.Lemmas.OwnAlias
import CelloProofs.Lemmas.TableIdeal
import CelloGen.Own
import CelloGen.Table

namespace Cello.Own
open List

/-! ## The tie to the source text -/

/-! ### where the type checks stand (per function)

A call with a wrong-typed key or value is refused by the `cast` at the top of `Table_Set_Move` / `Tree_Set` /
`Table_Rem` / `Tree_Rem`.  The model's type-refused map calls (`mapSetArgs`, `mapRemWrong`, `mapNewRefused`) are inert
because, in the source as it is, each of these functions casts **every** element argument **before** its first effect
(allocation, assign, destruct, byte move, `nitems` update) and nowhere later.  One theorem per function, about the row
the translator regenerates on every run: a refactor that casts at the point of use — after the node was allocated and the
key copy assigned into it — breaks the theorem of that function. -/

/-- `Table_Set_Move(self, key, val, move)`: `cast(key)`, `cast(val)`, then — first effect — the `memset` of the swap space -/
theorem C05_type_check_first_table_set_move :
    typeCheckOf CelloGen.Own.typeChecks "Table_Set_Move" = some (["key", "val"], "memset", []) := by decide

/-- `Tree_Set(self, key, val)`: `cast(key)`, `cast(val)`, then — first effect — `Tree_Alloc`; no cast at a point of use -/
theorem C05_type_check_first_tree_set :
    typeCheckOf CelloGen.Own.typeChecks "Tree_Set" = some (["key", "val"], "Tree_Alloc", []) := by decide

/-- `Table_Rem(self, key)`: `cast(key)` before the lookup; the first effect is the `destruct` of the found pair -/
theorem C05_type_check_first_table_rem :
    typeCheckOf CelloGen.Own.typeChecks "Table_Rem" = some (["key"], "destruct", []) := by decide

/-- `Tree_Rem(self, key)`: `cast(key)` before the descent; the first effect is the `destruct` of the found pair -/
theorem C05_type_check_first_tree_rem :
    typeCheckOf CelloGen.Own.typeChecks "Tree_Rem" = some (["key"], "destruct", []) := by decide

/-- Array.c and List.c never cast an element argument — the stored element's own `Assign` / `Cmp` is the type check, and
    it is reached after the first effect recorded here: `nitems++` / `nitems +=` / `nitems =` for Array_Push,
    Array_Push_At, Array_Concat, Array_New (the array has made room: **not atomic**, KF-C12-array-push-type and
    own-array-new-partial), `List_Alloc` for List_Push (an unlinked node: the list itself is untouched), the bounds
    lookup for List_Push_At, the element's `assign` itself for the two `Set`s; `Table_Set` grows a table without slots
    before it delegates to `Table_Set_Move`; the constructors cast only their type arguments.  These rows are what
    `arrayPushWrong / arrayPushAtWrong / arrayConcatArgs / arrayNewRefused / listPushWrong / listPushAtWrong / seqSetWrong /
    seqRemWrong / tableSetRefusedC` mirror; a repair that casts first changes a row and this theorem with it. -/
theorem C05_type_check_late_array_list :
    CelloGen.Own.typeChecks.filter (fun r => (typeCheckOf modelledTypeChecksFirst r.1).isNone) = modelledTypeChecksLate := by
  decide

/-- …and the rows of the four cast-first functions are all there is besides (no function that takes an element argument
    is missing from either list). -/
theorem C05_type_checks_complete :
    CelloGen.Own.typeChecks.filter (fun r => (typeCheckOf modelledTypeChecksFirst r.1).isSome) = modelledTypeChecksFirst := by
  decide

/-- The element-handling functions call no function of their source file other than the ones of the profile vocabulary
    and pure accessors (item / key / value address, links, colours, sizes): allocation, assignment and type checks have
    not been moved into a helper the profile does not see. -/
theorem C05_no_unmodelled_helpers : CelloGen.Own.unmodelledCallees = [] := by decide

/-- The ownership-relevant calls of every element-handling function of Array.c, List.c, Table.c, Tree.c and of Box
    (regenerated from /repo on every run) are the ones the model was written against: which functions `destruct`,
    which `assign`, in which order relative to the bounds checks and the byte moves, and that every `*_Assign` returns
    before its `Clear` when `self is obj` (fix a3140e4).  (A comparison of callee names in textual order: it sees a removed
    `destruct`, an added `assign`, a check moved behind a construction, a dropped guard — not a changed argument or index;
    those are what the per-operation comparison with the running code and `C05_moves_*` are for.) -/
theorem C05_source_profile : CelloGen.Own.profile = modelledProfile := by decide

/-- …and the container types register these functions under the classes the harness calls them through. -/
theorem C05_source_instances : CelloGen.Own.instances = modelledInstances := by decide

/-- **C05_generic_dispatch** (extension round): the generic entry points through which every container reaches its elements, as
    the translator reads them from src/Alloc.c / src/Assign.c.  `destruct` consults the type's New instance and calls its
    destructor — nothing else (no fallback that could skip or double a finalisation); `construct_with` calls the type's
    constructor; `assign` calls the type's Assign when it has one and copies `size` bytes only otherwise; `copy` is
    `assign(alloc(type_of(self)), self)` unless the type registers Copy — and no container type (Array, List, Table, Tree, Box)
    registers Copy or Swap: the model's `copy c d` (assign into a fresh empty container; `swap` of two Array records = the
    byte exchange) is what the library runs. -/
theorem C05_generic_dispatch :
    CelloGen.Own.generic =
      [("destruct", ["instance(New)", "->destruct"]),
       ("construct_with", ["instance(New)", "->construct_with", "assign"]),
       ("copy", ["instance(Copy)", "->copy", "assign", "alloc"]),
       ("assign", ["instance(Assign)", "->assign", "memcpy", "throw"])] ∧
    CelloGen.Own.copySwapInstances = [] := by decide


/-! ## Conservation, per container and per operation (all inputs) -/

/-- **Array.c**: push, push_at, pop, pop_at, set, rem, clear/resize, concat, assign/copy, sort — each conserves the
    identities (`contents' + retired ~ contents + issued`) and the identities it hands out are fresh, for every
    array, index, payload and source.  (`set` assumes constructed elements: arrays never hold zero-filled ones.) -/
theorem C05_conservation_array (next : Nat) (xs src : List Tok) (i : Int) (p n : Nat) :
    (let r := seqPush next xs p; Conserves xs r.val r.issued r.retired ∧ FreshFrom next r.issued) ∧
    (let r := arrayPushAt next xs i p; Conserves xs r.val r.issued r.retired ∧ FreshFrom next r.issued) ∧
    (let r := seqPop xs; Conserves xs r.val r.issued r.retired ∧ r.issued = []) ∧
    (let r := seqPopAt xs i; Conserves xs r.val r.issued r.retired ∧ r.issued = []) ∧
    (0 ∉ ids xs → let r := seqSetProbe next xs i p; Conserves xs r.val r.issued r.retired ∧ FreshFrom next r.issued) ∧
    (let r := seqRem xs p; Conserves xs r.val r.issued r.retired ∧ r.issued = []) ∧
    (let r := arrayResize xs n; Conserves xs r.val r.issued r.retired ∧ r.issued = []) ∧
    (let r := seqConcatProbe next xs src; Conserves xs r.val r.issued r.retired ∧ FreshFrom next r.issued) ∧
    (let r := seqAssignProbe next xs src; Conserves xs r.val r.issued r.retired ∧ FreshFrom next r.issued) ∧
    (let r := seqSort xs; Conserves xs r.val r.issued r.retired ∧ r.issued = []) :=
  ⟨cons_seqPush _ _ _, cons_arrayPushAt _ _ _ _, cons_seqPop _, cons_seqPopAt _ _, cons_seqSetProbe _ _ _ _,
   cons_seqRem _ _, cons_arrayResize _ _, cons_seqConcatProbe _ _ _, cons_seqAssignProbe _ _ _, cons_seqSort _⟩

/-- **List.c**: the operations that differ from Array: push_at (every index, accepted or refused) and resize (when it
    does not grow); push, pop, pop_at, set, rem, concat, assign are the same functions as for Array. -/
theorem C05_conservation_list (next : Nat) (xs : List Tok) (i : Int) (p n : Nat) :
    (let r := listPushAt next xs i p; Conserves xs r.val r.issued r.retired ∧ FreshFrom next r.issued) ∧
    (n ≤ xs.length → let r := listResize xs n; Conserves xs r.val r.issued r.retired ∧ r.issued = []) :=
  ⟨cons_listPushAt _ _ _ _, cons_listResize _ _⟩

/-- **Table.c / Tree.c**: set (new key, existing key: replace resp. in place), rem, clear/resize, constructor runs,
    assign/copy — for every map, key, value and source; the identities handed out are fresh.  This is conservation of the
    ownership *protocol* on the association list; that the association list is what the slot array / the red-black tree
    holds after the same operation, whatever rehash, displacement, rotation or predecessor copy it involved, is
    `C05_moves_table` / `C05_moves_tree` below. -/
theorem C05_conservation_map (mk : MapKind) (next : Nat) (kvs src : List KV) (k v n : Nat) (ps : List (Nat × Nat))
    (hnext : 0 < next) (hraw : 0 ∉ ids (kvToks kvs)) :
    (let r := mapSet mk next kvs k v; Conserves (kvToks kvs) (kvToks r.val) r.issued r.retired ∧ FreshFrom next r.issued) ∧
    (let r := mapRem kvs k; Conserves (kvToks kvs) (kvToks r.val) r.issued r.retired ∧ r.issued = []) ∧
    (let r := mapResize mk kvs n; Conserves (kvToks kvs) (kvToks r.val) r.issued r.retired ∧ r.issued = []) ∧
    (let r := mapSetMany mk next kvs ps; Conserves (kvToks kvs) (kvToks r.val) r.issued r.retired ∧ FreshFrom next r.issued) ∧
    (let r := mapAssign mk next kvs src; Conserves (kvToks kvs) (kvToks r.val) r.issued r.retired ∧ FreshFrom next r.issued) :=
  ⟨cons_mapSet _ _ _ _ _ hraw, cons_mapRem _ _, cons_mapResize _ _ _, cons_mapSetMany _ _ _ _ hnext hraw,
   cons_mapAssign _ _ _ _ hnext⟩

/-- **C05_conservation** at the level of the world: every in-contract operation, applied in any world that satisfies
    the invariant, conserves identities over *all* containers, hands out fresh identities, logs exactly what it
    constructed and finalised, and re-establishes the invariant. -/
theorem C05_conservation_partial {w : World} (hinv : Inv w) (op : Op) (hin : inContract w op = true) :
    let w' := (step w op).1
    let o := (step w op).2
    allIds w'.objs ++ ids o.retired ~ allIds w.objs ++ ids o.issued ∧
    FreshFrom w.next o.issued ∧
    w'.issuedLog = ids o.issued ++ w.issuedLog ∧ w'.retiredLog = ids o.retired ++ w.retiredLog ∧
    Inv w' := by
  have h := step_ok hinv op (inContract_nkf hin)
  exact ⟨h.cons, h.fresh, h.issued, h.retired, h.inv⟩

/-- the full statement: conservation for *every* operation -/
def C05_conservation_statement : Prop :=
  ∀ (w : World) (op : Op), Inv w →
    allIds (step w op).1.objs ++ ids (step w op).2.retired ~ allIds w.objs ++ ids (step w op).2.issued

/-! ## Internal moves neither duplicate nor drop an element

The association lists of Cello/Own.lean have no slots, no swap spaces, no rehash, no rotations, no predecessor copy.  The
theorems of this section tie them to the *structural* models of the two map containers — the robin-hood slot array of
Cello/Table.lean (property C02) and the red-black tree with parent-chain repairs and the word-level predecessor `memcpy`
of Cello/RBTree.lean (property C03), both validated slot by slot / node by node against the C code by their own engines —
instantiated with token-valued records (Cello/OwnConc.lean).  `tableSet / treeSet / mapRem / mapResize / mapSetMany /
mapAssign` stop being definitions of what a move does and become consequences of the representation invariants. -/

open Conc in
/-- the parameters of src/Table.c as they are now (regenerated by the translator on every run) — every field of `Cfg` is
    read from the generated file, none is left at the structure default: the strictness of the displacement test, the
    growth of a table without slots, `Table_Ideal_Size`, the `self is obj` guard of `Table_Assign` and the key test of the
    `Table_Get` shortcut (the same record as C02's `cfgNow`). -/
def tableCfgNow : Cello.Table.Cfg :=
  { ge := CelloGen.Table.tieGe, growEmpty := CelloGen.Table.setGrowsEmpty,
    ideal := Cello.Table.idealSize CelloGen.Table.primes CelloGen.Table.loadNum CelloGen.Table.loadDen,
    selfGuard := CelloGen.Table.assignGuardsSelf, getChecksKey := CelloGen.Table.getShortcutChecksKey }

/-- …satisfy what the composition needs: strict displacement test, an emptied table grows before the first `set`,
    `Table_Ideal_Size n > n`, `Table_Assign` guards `self is obj` (fourth conjunct: `rfl` about
    `CelloGen.Table.assignGuardsSelf`, not about a default).  Stops checking when src/Table.c changes one of them. -/
theorem C05_table_source_good : Cello.Table.GoodCfg tableCfgNow :=
  ⟨rfl, rfl, fun n => Cello.Table.idealSize_gt _ _ _ (by decide) (by decide) (by decide) n, rfl⟩

/-- the parts of src/Tree.c that the red-black model reads from the translator (node layout: key header, key, value header,
    value, the size `Tree_Alloc` reserves and the width of the `memcpy` of `Tree_Rem`; the comparison order and the
    directions of the four descent loops; the `self is obj` guard of `Tree_Assign`) are the ones the composition needs.
    Stops checking when src/Tree.c changes one of them (same statement as C03's `C03_current_source`, proved here from the
    generated definitions so that this file does not depend on Props/C03.lean). -/
theorem C05_tree_source_good : Cello.RB.SourceOk := by
  refine ⟨fun y => ?_, ⟨rfl, rfl, rfl, rfl⟩, rfl⟩
  simp only [Cello.RB.Lay.keyHdrOff, Cello.RB.Lay.keyOff, Cello.RB.Lay.valHdrOff, Cello.RB.Lay.valOff,
    Cello.RB.Lay.entryLen, Cello.RB.Lay.moveLen, Cello.RB.Lay.eval,
    CelloGen.Tree.keyHeaderOff, CelloGen.Tree.keyOff, CelloGen.Tree.valHeaderOff, CelloGen.Tree.valOff,
    CelloGen.Tree.allocSize, CelloGen.Tree.remMoveSize]
  and_intros <;> first | trivial | omega

open Conc in
/-- **C05_moves (Table).**  For every hash function, every slot array `t` that satisfies the robin-hood representation
    invariant for the pairs `kvs` (`AbsT`: stored home = hash % nslots, distinct keys, probe-distance order, `nitems` =
    occupied slots, an empty slot, the stored records are exactly `kvs`), every key, value and size:
    `Table_Set` (first growth of an emptied table, probing, displacement of residents through the two swap spaces or
    replacement of the resident with an equal key, `Table_Rehash` into the next prime), `Table_Rem` (backward shift,
    `Table_Rehash` into a smaller array) and `Table_Resize` (`Table_Clear` / refusal / `Table_Rehash`) on the slot-array
    model succeed (no division by zero, no endless probing), construct and finalise exactly the tokens the ownership
    model says (`ResRel`), leave a slot array that again satisfies the invariant for the ownership model's result, and
    **conserve the stored tokens**: `tokens in the slots afterwards ++ finalised ~ tokens in the slots before ++
    constructed`.  So no move of a record — rehash, displacement, back-shift — drops or duplicates an element. -/
theorem C05_moves_table (hash : Nat → Nat) {t : CTab} {kvs : List KV} (R : AbsT hash t kvs) (next k v n : Nat) :
    (∃ r, tableSetC tableCfgNow hash next t k v = .ok r ∧ ResRel (AbsT hash) r (tableSet next kvs k v) ∧
      Conserves (tabToks t) (tabToks r.val) r.issued r.retired ∧ FreshFrom next r.issued) ∧
    (∃ r, tableRemC tableCfgNow hash t k = .ok r ∧ ResRel (AbsT hash) r (mapRem kvs k) ∧
      Conserves (tabToks t) (tabToks r.val) r.issued r.retired ∧ r.issued = []) ∧
    (∃ r, tableResizeC tableCfgNow hash t n = .ok r ∧ ResRel (AbsT hash) r (mapResize .table kvs n) ∧
      Conserves (tabToks t) (tabToks r.val) r.issued r.retired ∧ r.issued = []) := by
  have g := C05_table_source_good
  have lift := fun {r a} (h : ResRel (AbsT hash) r a) hc =>
    conserves_lift (toks := tabToks) (fun _ _ h => tabToks_perm h) R h hc
  refine ⟨?_, ?_, ?_⟩
  · obtain ⟨r, e, h⟩ := tableSetC_refines g R next k v
    have hc := cons_tableSet next kvs k v
    exact ⟨r, e, h, lift h hc.1, by rw [h.2.1]; exact hc.2⟩
  · obtain ⟨r, e, h⟩ := tableRemC_refines g R k
    have hc := cons_mapRem kvs k
    exact ⟨r, e, h, lift h hc.1, by rw [h.2.1]; exact hc.2⟩
  · obtain ⟨r, e, h⟩ := tableResizeC_refines g R n
    have hc := cons_mapResize .table kvs n
    exact ⟨r, e, h, lift h hc.1, by rw [h.2.1]; exact hc.2⟩

open Conc in
/-- **C05_moves (Table): the pure moves by themselves.**  `Table_Rehash` into any array with room re-inserts every record:
    the fresh array holds exactly the same pairs of tokens; and `Table_Set_Move` of a record with a new key, carried
    past the residents it displaces, leaves the old records and the new one. -/
theorem C05_moves_table_rehash_displace (hash : Nat → Nat) {t : CTab} {m : Cello.Table.Spec Nat KV}
    (R : Cello.Table.Rep0 hash t m) :
    (∀ newSize, t.nitems < newSize →
      ∃ t', Cello.Table.rehash tableCfgNow hash t newSize = .ok t' ∧ t'.n = newSize ∧ slotKVs t' ~ slotKVs t) ∧
    (∀ k kv, t.nitems < t.n → (∀ v, (k, v) ∉ m) →
      ∃ t', Cello.Table.setMove tableCfgNow hash t k kv = .ok t' ∧ slotKVs t' ~ kv :: slotKVs t) :=
  ⟨fun newSize h => rehash_moves R newSize h, fun k kv hroom hfresh => setMove_moves rfl R hroom k kv hfresh⟩

open Conc in
/-- **C05_moves (Tree).**  For every valid red-black tree `m` over probe elements (black root, no red node with a red
    child, equal black heights, strictly descending keys, `nitems` = number of nodes) that holds the pairs `kvs`, every
    key, value and size: `Tree_Set` (descent; in-place assignment onto the node with an equal key, or a fresh node and
    `Tree_Set_Fix`: recolouring and rotations along the parent chain), `Tree_Rem` (the predecessor's block copied into a
    node with two children, the spliced-out node unlinked, `Tree_Rem_Fix`: sibling rotations and recolourings) and
    `Tree_Resize` on the red-black model never dereference NULL, construct / assign in place / finalise exactly the tokens
    the ownership model says, leave a valid tree that holds the ownership model's result, and conserve the stored
    tokens.  So no rotation and no predecessor copy drops or duplicates an element. -/
theorem C05_moves_tree {m : CTree} {kvs : List KV} (R : AbsR m kvs) (hraw : 0 ∉ ids (kvToks kvs)) (next k v n : Nat) :
    (∃ r, treeSetC next m k v = some r ∧ ResRel AbsR r (treeSet next kvs k v) ∧
      Conserves (treeToks m) (treeToks r.val) r.issued r.retired ∧ FreshFrom next r.issued) ∧
    (∃ r, treeRemC m k = some r ∧ ResRel AbsR r (mapRem kvs k) ∧
      Conserves (treeToks m) (treeToks r.val) r.issued r.retired ∧ r.issued = []) ∧
    (ResRel AbsR (treeResizeC m n) (mapResize .tree kvs n) ∧
      Conserves (treeToks m) (treeToks (treeResizeC m n).val) (treeResizeC m n).issued (treeResizeC m n).retired) := by
  have lift := fun {r a} (h : ResRel AbsR r a) hc =>
    conserves_lift (toks := treeToks) (fun _ _ h => treeToks_perm h) R h hc
  refine ⟨?_, ?_, ?_⟩
  · obtain ⟨r, e, h⟩ := treeSetC_refines C05_tree_source_good R next k v
    have hc := cons_treeSet next kvs k v hraw
    exact ⟨r, e, h, lift h hc.1, by rw [h.2.1]; exact hc.2⟩
  · obtain ⟨r, e, h⟩ := treeRemC_refines C05_tree_source_good R k
    have hc := cons_mapRem kvs k
    exact ⟨r, e, h, lift h hc.1, by rw [h.2.1]; exact hc.2⟩
  · have h := treeResizeC_refines R n
    exact ⟨h, lift h (cons_mapResize .tree kvs n).1⟩

open Conc in
/-- **C05_moves (Tree): the pure moves by themselves.**  `Tree_Set_Fix` returns a tree with the in-order sequence of the
    tree it was given; `Tree_Rem_Fix` returns a parent chain that surrounds any subtree with the same pairs; and the block
    `header | key | header | value` that `Tree_Rem` copies from the predecessor decodes, at the node's key / value
    offsets, to exactly the predecessor's two elements — payload and identity — whatever the header width. -/
theorem C05_moves_tree_rotate_copy :
    (∀ (t t' : Cello.RB.T Tok Tok) (p : Cello.RB.Path Tok Tok), Cello.RB.setFix t p = some t' →
      Cello.RB.toList t' = Cello.RB.toList (Cello.RB.plug t p)) ∧
    (∀ (p p' : Cello.RB.Path Tok Tok) (t : Cello.RB.T Tok Tok), Cello.RB.remFix p = some p' →
      Cello.RB.toList (Cello.RB.plug t p') = Cello.RB.toList (Cello.RB.plug t p)) ∧
    (∀ (hdr : Nat) (dst src : KV), Cello.RB.relocate (⟨hdr, 2, 2⟩ : Cello.RB.Lay) dst src = some src) :=
  ⟨fun t t' p h => setFix_moves t p t' h, fun p p' t h => remFix_moves p p' h t, relocate_moves C05_tree_source_good.layout⟩

open Conc in
/-- **C05_moves: histories.**  Every history of `set / rem / resize / assign-from-another-map` on one Table, from
    `new(Table, K, V)` on (or from any slot array satisfying the invariant), and on one Tree, from the empty tree on (or
    from any valid tree): the structural model never fails and, step by step, issues / finalises / assigns in place
    exactly what the ownership model of Cello/Own.lean does, and holds exactly its contents (`Forall₂ ResRel`).  This is
    what licenses `C05_history_partial` — stated over the association lists — for the real layouts. -/
theorem C05_moves_histories (hash : Nat → Nat) (ops : List MOp) (next : Nat) :
    (∀ (t : CTab) (kvs : List KV), AbsT hash t kvs →
      ∃ rs, tableRunC tableCfgNow hash next t ops = .ok rs ∧
        List.Forall₂ (ResRel (AbsT hash)) rs (absRun .table next kvs ops)) ∧
    (∀ (m : CTree) (kvs : List KV), AbsR m kvs →
      ∃ rs, treeRunC next m ops = some rs ∧ List.Forall₂ (ResRel AbsR) rs (absRun .tree next kvs ops)) ∧
    AbsT hash (Cello.Table.new tableCfgNow) [] ∧ AbsR treeEmpty [] :=
  ⟨fun t kvs R => tableRunC_refines C05_table_source_good ops next t kvs R,
   fun m kvs R => treeRunC_refines C05_tree_source_good ops next m kvs R,
   Cello.Table.new_rep _ C05_table_source_good hash, absR_empty⟩

open Conc in
/-- **C05_moves: constructors and assignment.**  `new(Table/Tree, K, V, k1, v1, …)` with any initial pairs (repeated keys
    included: the insertion loop of `Table_New` takes the replace branch, `Tree_Set` assigns in place) on the structural
    models = `mapSetMany` of the ownership model. -/
theorem C05_moves_constructors (hash : Nat → Nat) (next : Nat) (ps : List (Nat × Nat)) :
    (∃ r, tableNewC tableCfgNow hash next ps = .ok r ∧ ResRel (AbsT hash) r (mapSetMany .table next [] ps)) ∧
    (∃ r, treeFillC next treeEmpty ps = some r ∧ ResRel AbsR r (mapSetMany .tree next [] ps)) :=
  ⟨tableNewC_refines C05_table_source_good next ps, treeFillC_refines C05_tree_source_good ps next treeEmpty [] absR_empty⟩

/-- **C05_moves (Array).**  The second sentence of the property for Array.c — growth and shrink (`realloc` into a new
    block of `nitems + nitems/2` resp. `nitems` records), the `memmove` of `push_at` / `pop_at` / `rem`, the in-place record
    write of `set`, the record exchanges of `sort` — by composition with the STORE-level Array of property C04
    (Cello/SeqStore.lean `ArrS`: cells, `memmove` as an index-range copy, `realloc` as a fresh block; validated cell by
    cell against the C code by the C04 engine) instantiated with token-valued records.  From any store state `s` holding a
    list-level Array `a` (`ArrS.Abs`; `new(Array, T, …)` is one: second conjunct), for every operation `op` of `SOp` (push,
    push_at, pop, pop_at, set, rem, resize, sort, concat, assign) with any argument: the store-level step never reads an
    unwritten or out-of-block cell, succeeds exactly when the ownership step of Cello/Own.lean does, ends in a state that
    again satisfies `Abs`, and **the records in use afterwards are the ownership step's contents** (equal; for `sort` a
    permutation: the two quicksort transcriptions are not identified), so `records after ++ finalised ~ records before ++
    constructed` — no move drops or duplicates an element.  (List.c: not composed in this round — C04's node-level model is
    being reworked by its engine; the List steps remain list surgery, see `level_note`.) -/
theorem C05_moves_array {s : Cello.Seq.ArrS Tok} {a : Cello.Seq.Arr Tok} (h : s.Abs a) (next : Nat) (op : SOp)
    (hraw : 0 ∉ ids a.items) :
    (let r := arrayAbs next a.items op
     let c := arrStoreStep s (arrayStoreOp next a.items op)
     s.items? = some a.items ∧ c.2 ≠ .ub ∧ (c.2 = .ok () ↔ r.out = .ok) ∧
     ∃ l a', c.1.Abs a' ∧ c.1.items? = some l ∧ a'.items = l ∧ l ~ r.val ∧ (op ≠ .sort → l = r.val) ∧
       Conserves a.items l r.issued r.retired ∧ FreshFrom next r.issued) ∧
    (∀ xs : List Tok, (Cello.Seq.ArrS.new xs).Abs (Cello.Seq.Arr.new xs)) :=
  ⟨arrayMoves h next op hraw, fun xs => Cello.Seq.ArrS.new_abs xs⟩

/-- the store-level Array on a concrete run: three records in a block of three; `push_at` at position 1 grows the block
    to 6 cells (`realloc`), moves two records up (`memmove`) and writes the new one; `pop_at 0` moves three records down -/
example :
    let s0 := Cello.Seq.ArrS.new [(⟨1, 5⟩ : Tok), ⟨2, 3⟩, ⟨3, 7⟩]
    let s1 := (arrStoreStep s0 (arrayStoreOp 4 [⟨1, 5⟩, ⟨2, 3⟩, ⟨3, 7⟩] (.pushAt 1 9))).1
    let s2 := (arrStoreStep s1 (arrayStoreOp 5 [⟨1, 5⟩, ⟨4, 9⟩, ⟨2, 3⟩, ⟨3, 7⟩] (.popAt 0))).1
    s1.items? = some [⟨1, 5⟩, ⟨4, 9⟩, ⟨2, 3⟩, ⟨3, 7⟩] ∧ s1.cells.size = 6 ∧
    s2.items? = some [⟨4, 9⟩, ⟨2, 3⟩, ⟨3, 7⟩] ∧
    (arrayAbs 5 [⟨1, 5⟩, ⟨4, 9⟩, ⟨2, 3⟩, ⟨3, 7⟩] (.popAt 0)).retired = [⟨1, 5⟩] := by decide

/-! ## Histories -/

/-- **C05_history.** For every history of in-contract operations over any number of containers of all kinds
    (mutations, constructors, copies, assignments between containers of the same family and from an empty container of
    the other family, clears, deletions, failing calls), in the world `w` it leads to **after every operation** — a
    prefix of such a history being one (`C05_history_prefix`); nothing is stated about the states *inside* one
    operation —
      * every operation was executed (none was skipped as ill-formed: a history containing an operation the
        interpreters refuse is not in contract),
      * the elements ever constructed are exactly the finalised ones plus the ones held by the containers
        (live multiset = ⊎ of the container contents),
      * no identity was constructed twice, finalised twice, or is held in two places,
      * nothing finalised is still contained, nothing was finalised that was not constructed;
    and after deleting every container nothing is held and every element ever constructed has been finalised
    exactly once. -/
theorem C05_history_partial (ops : List Op) (h : allInContract {} ops) :
    let w := (run {} ops).1
    (w.issuedLog ~ w.retiredLog ++ allIds w.objs) ∧
    w.issuedLog.Nodup ∧ w.retiredLog.Nodup ∧ (allIds w.objs).Nodup ∧
    (∀ i ∈ w.retiredLog, i ∉ allIds w.objs) ∧ (∀ i ∈ w.retiredLog, i ∈ w.issuedLog) ∧
    (∀ o ∈ (run {} ops).2, o.bad = false) ∧ allInContract w (delAllOps w) ∧
    (let e := (run w (delAllOps w)).1
     e.objs = [] ∧ e.retiredLog ~ e.issuedLog ∧ e.retiredLog.Nodup ∧ ∀ i ∈ w.issuedLog, i ∈ e.retiredLog) := by
  intro w
  have hinv : Inv w := run_inv inv_init ops h.nkf
  refine ⟨hinv.cons, hinv.nodup, inv_retired_nodup hinv, inv_contents_nodup hinv, inv_disjoint hinv,
    fun i hi => hinv.cons.mem_iff.mpr (List.mem_append_left _ hi), allInContract_noBad h, delAll_inContract w, ?_⟩
  obtain ⟨hinv', hempty⟩ := run_delAll w hinv
  have hc := hinv'.cons
  rw [hempty] at hc
  simp only [allIds, allToks_nil, ids_nil, List.append_nil] at hc
  refine ⟨hempty, hc.symm, inv_retired_nodup hinv', fun i hi => ?_⟩
  exact hc.mem_iff.mp (run_issued_mono hinv _ (delAll_nkf _ _) i hi)

/-- a prefix of an in-contract history is an in-contract history (so `C05_history_partial` speaks about every step) -/
theorem C05_history_prefix (ops : List Op) (n : Nat) (h : allInContract {} ops) : allInContract {} (ops.take n) := by
  have := (allInContract_append (w := {}) (ops := ops.take n) (ops' := ops.drop n)).mp (by simpa using h)
  exact this.1

/-- number of live elements = sum of the container sizes, after every operation of an in-contract history
    (`toks.length` of a sequence is its `len`, of a map twice its `len` — an entry is two elements, key and value —, of a
    Box one: by definition of `Cont.toks` / `Cont.len`).  `liveCount` is a truncated subtraction: the equation is derived
    from the multiset equation `Inv.cons`, not from the subtraction. -/
theorem C05_live_count_partial (ops : List Op) (h : allInContract {} ops) :
    let w := (run {} ops).1
    liveCount w = (w.objs.map (fun cx => cx.2.toks.length)).sum ∧ w.retiredLog.length ≤ w.issuedLog.length := by
  intro w
  have hinv : Inv w := run_inv inv_init ops h.nkf
  constructor
  · have hl := hinv.cons.length_eq
    simp only [List.length_append] at hl
    have hs : (allIds w.objs).length = (w.objs.map (fun cx => cx.2.toks.length)).sum := by
      simp only [allIds, ids_length, allToks]
      generalize w.objs = objs
      induction objs with
      | nil => rfl
      | cons cx rest ih => simp [ih]
    simp only [liveCount]; omega
  · have hl := hinv.cons.length_eq
    simp only [List.length_append] at hl
    omega

/-- the full statement of the history theorem: the same for *every* history -/
def C05_history_statement : Prop :=
  ∀ ops : List Op,
    let w := (run {} ops).1
    (w.issuedLog ~ w.retiredLog ++ allIds w.objs) ∧ (∀ i ∈ w.retiredLog, i ∉ allIds w.objs)

/-! ## Never while contained -/

/-- **C05_never_while_contained.** An element finalised by an in-contract operation is in no container afterwards,
    and never again in the rest of an in-contract history; and what an operation finalises was held by a container
    before the operation or was constructed by this very operation (the argument of a refused insertion into a
    container of Box, which the caller deletes). -/
theorem C05_never_while_contained_partial {w : World} (hinv : Inv w) (op : Op) (hin : inContract w op = true)
    (later : List Op) (hlater : allInContract (step w op).1 later) :
    ∀ t ∈ (step w op).2.retired,
      t.id ∉ allIds (step w op).1.objs ∧ t.id ∉ allIds (run (step w op).1 later).1.objs ∧
      (t.id ∈ allIds w.objs ∨ t.id ∈ ids (step w op).2.issued) := by
  intro t ht
  have hs := step_ok hinv op (inContract_nkf hin)
  have hid : t.id ∈ ids (step w op).2.retired := List.mem_map_of_mem ht
  have hlog : t.id ∈ (step w op).1.retiredLog := by rw [hs.retired]; exact List.mem_append_left _ hid
  refine ⟨inv_disjoint hs.inv _ hlog, ?_, ?_⟩
  · exact inv_disjoint (run_inv hs.inv later hlater.nkf) _ (run_retired_mono hs.inv later hlater.nkf _ hlog)
  · exact List.mem_append.mp (hs.cons.mem_iff.mp (List.mem_append_right _ hid))

/-- A refused in-contract operation (empty pop, bad index, absent element or key, refused resize, **an element / key /
    value of the wrong type**) assigns nothing and leaves every container as it was, and
      * on a container of probe elements it constructs nothing and finalises nothing;
      * on a container of Box (a refused `push_at`) the only element constructed is the pointee made for the call, and
        nothing but that pointee is finalised (the caller deletes it): no *stored* element changes hands on an error path;
      * a refused constructor (a wrong-typed initial element / key / value) binds no name, and the identities finalised
        when the half-built object is reclaimed are exactly the ones it constructed (a repeated key among the initial
        pairs of a Tree was assigned in place before the failing pair was reached: `updated` need not be empty there);
    — with exactly one exception, named by the last disjunct (`ListClearedRefused`): `assign(List, non-empty Table / Tree)`
    raises ValueError *after* `List_Clear`.  There the receiver HAS changed (that is C12's KF-C12-assign-clears), but the
    ownership accounting is intact: nothing constructed, nothing assigned in place, exactly the list's old elements
    finalised, the list empty, every other container the value it was (and `C05_conservation_partial`,
    `C05_history_partial`, `C05_live_count_partial` hold for it like for any other in-contract call).
    (`0 < w.next` holds in every world an in-contract history reaches: `Inv.pos`.  The one error path that did leak —
    List_Push_At — was repaired by 4077d96, see `C05_list_pushat_old_order_refuted`.) -/
theorem C05_refused_no_effect_partial {w : World} (hpos : 0 < w.next) (op : Op) (hin : inContract w op = true)
    (hr : (step w op).2.out ≠ .ok) :
    ((∀ e, lookup (step w op).1.objs e = lookup w.objs e) ∧
     (((step w op).2.updated = [] ∧ (step w op).2.issued = [] ∧ (step w op).2.retired = []) ∨
      ((step w op).2.updated = [] ∧ srcIsBox w op.target = true ∧
         ∃ t, (step w op).2.issued = [t] ∧ ∀ u ∈ (step w op).2.retired, u = t) ∨
      (op.isTypedCtor = true ∧ ids (step w op).2.retired ~ ids (step w op).2.issued))) ∨
    ListClearedRefused w op (step w op) := by
  rcases step_refused hpos op (inContract_nkf hin) hr with ⟨h1, h2, h3, h4⟩ | ⟨hb, ht, hu, hf⟩ | ⟨hc, hp, hf⟩ | hl
  · exact Or.inl ⟨h4, Or.inl ⟨h3, h1, h2⟩⟩
  · exact Or.inl ⟨hf, Or.inr (Or.inl ⟨hu, hb, ht⟩)⟩
  · exact Or.inl ⟨hf, Or.inr (Or.inr ⟨hc, hp⟩)⟩
  · exact Or.inr hl

/-- **assign(List, non-empty Table / Tree) is in the contract** (audit 2, item 1: the exclusion used to cover every
    sequence destination although the finding KF-C05-array-assign-partial is `site=Array_Assign` only).  In any world
    satisfying the invariant, for a List `c` of probe elements and a non-empty Table / Tree `d`: the call is in contract,
    raises ValueError, constructs nothing, finalises exactly the elements the List held, leaves the List empty and the
    map untouched; identities are conserved and the invariant holds afterwards — so live = Σ len after the call
    (`C05_live_count_partial` applies to histories that contain it; `xfListAssign` below is one). -/
theorem C05_list_assign_from_map {w : World} (hinv : Inv w) {c d : Nat} {xs : List Tok} {mk : MapKind} {src : List KV}
    (hc : lookup w.objs c = some (.seq .list .probe xs)) (hd : lookup w.objs d = some (.map mk src)) (hne : src ≠ []) :
    let w' := (step w (.assign c d)).1
    let o := (step w (.assign c d)).2
    inContract w (.assign c d) = true ∧ o.out = .raised .valueError ∧ o.issued = [] ∧ o.updated = [] ∧ o.retired = xs ∧
    lookup w'.objs c = some (.seq .list .probe []) ∧ lookup w'.objs d = some (.map mk src) ∧
    allIds w'.objs ++ ids xs ~ allIds w.objs ∧ Inv w' := by
  intro w' o
  have hcd : c ≠ d := by intro h; rw [h, hd] at hc; cases hc
  have hlen : src.length ≠ 0 := fun h => hne (List.length_eq_zero_iff.mp h)
  have hnkf : noKnownFinding w (.assign c d) = true := by
    simp [noKnownFinding, srcIsBox, crossRefused, hc, hd, Cont.isBox, hcd]
  have hbad : (step w (.assign c d)).2.bad = false := by
    simp [step, hc, hd, hcd, commitSeq, commit]
  have hin : inContract w (.assign c d) = true := by simp [inContract, hnkf, hbad]
  have hs := step_ok hinv (.assign c d) hnkf
  have hstep : step w (.assign c d) =
      commitSeq w c .list .probe { val := [], retired := xs, out := .raised .valueError } [c, d] false := by
    simp [step, hc, hd, hcd, seqAssignFromMap, hlen]; rfl
  have ho : o.out = .raised .valueError := by simp only [o, hstep]; rfl
  have hi : o.issued = [] := by simp only [o, hstep]; rfl
  have hu : o.updated = [] := by simp only [o, hstep]; rfl
  have hret : o.retired = xs := by simp only [o, hstep]; simp [commitSeq, commit, Res.unit]
  refine ⟨hin, ho, hi, hu, hret, ?_, ?_, ?_, hs.inv⟩
  · simp only [w', hstep]; exact commitSeq_lookup_self _ _ _ _ _ _ _
  · rw [← hd]; exact step_frame w (.assign c d) (Ne.symm hcd)
  · have := hs.cons
    rw [hret, hi] at this
    simpa using this

/-- **C05_refused_no_effect (type errors).**  A call with an element / key / value of the wrong type — an Int, a String,
    a Float, a Type object, NULL where the probe type is expected — outside the non-atomic territory (`typedAtomic`: not
    Array_Push / Array_Push_At past its bounds check / Array_Concat / Array_New, not List_Concat after well-typed items)
    and executed (not `bad`: the receiver exists and is a container of probe elements) is **always refused** — never
    accepted, whatever the container holds — and
      * push, push_at, set, rem on a List; set, rem and a push_at with a bad index on an Array; concat whose first item
        is wrong-typed; set with a wrong-typed key and/or value (existing key or new key) and rem with a wrong-typed key
        on a Table and on a Tree: nothing is constructed, nothing finalised, nothing assigned in place, every container
        is the value it was;
      * a constructor of a List, Table or Tree with a wrong-typed initial element / key / value: no name is bound, every
        container is the value it was, and the identities finalised are exactly the identities constructed. -/
theorem C05_refused_no_effect_type {w : World} (hpos : 0 < w.next) (c : Nat) (t : TCall) (hw : t.hasWrong = true)
    (hat : typedAtomic w c t = true) (hb : (step w (.typed c t)).2.bad = false) :
    (step w (.typed c t)).2.out ≠ .ok ∧ (∀ e, lookup (step w (.typed c t)).1.objs e = lookup w.objs e) ∧
    (((step w (.typed c t)).2.issued = [] ∧ (step w (.typed c t)).2.retired = [] ∧ (step w (.typed c t)).2.updated = []) ∨
     (t.isCtor = true ∧ ids (step w (.typed c t)).2.retired ~ ids (step w (.typed c t)).2.issued)) := by
  have hr := typed_wrong_refused (w := w) (c := c) hw hb
  refine ⟨hr, ?_⟩
  rcases step_refused hpos (.typed c t) hat hr with ⟨h1, h2, h3, h4⟩ | ⟨hbx, _⟩ | ⟨hc, hp, hf⟩ | ⟨_, _, _, _, he, _⟩
  · exact ⟨h4, Or.inl ⟨h1, h2, h3⟩⟩
  · exact absurd hbx (typed_not_box hb)
  · exact ⟨hf, Or.inr ⟨by cases t <;> simp_all [Op.isTypedCtor, TCall.isCtor], hp⟩⟩
  · cases he

/-- **the non-atomic territory is exact.**  For an executed call with a wrong-typed argument, `typedAtomic` holds *exactly*
    when the call has no effect (every container the value it was; nothing constructed or finalised, or — a constructor —
    finalised = constructed).  So the type-refused calls that are NOT atomic are precisely: `push` on an Array,
    `push_at` on an Array at an index its bounds check accepts, `concat` onto an Array (any wrong-typed item), `new(Array, …)`
    — the array counts records that were never constructed: KF-C12-array-push-type (Array_Push / Array_Push_At /
    Array_Concat, recorded under C12) and own-array-new-partial — and `concat` onto a List when well-typed items precede
    the wrong one (they stay: KF-C12-list-concat-partial).  Nothing else is excluded from the contract for a type error,
    and nothing that leaves an effect is included. -/
theorem C05_type_refused_atomic_exact {w : World} (hpos : 0 < w.next) (c : Nat) (t : TCall) (hw : t.hasWrong = true)
    (hb : (step w (.typed c t)).2.bad = false) :
    typedAtomic w c t = true ↔ TypedNoEffect w t (step w (.typed c t)) := by
  constructor
  · intro hat
    obtain ⟨_, hf, h⟩ := C05_refused_no_effect_type hpos c t hw hat hb
    exact ⟨hf, h.imp (fun h => ⟨h.1, h.2.1⟩) id⟩
  · intro h
    cases hat : typedAtomic w c t
    · exact absurd h (typed_not_atomic_effect hw hb hat)
    · rfl

/-- the same at the level of one container, for **every** input (no contract): what each type-refused call does to the
    contents.  The atomic ones return the contents they were given and construct / finalise nothing; List_Concat keeps
    the well-typed items before the wrong one — and still conserves identities; a refused List / Table / Tree
    constructor finalises exactly what it constructed. -/
theorem C05_conservation_type_refused (mk : MapKind) (next : Nat) (xs : List Tok) (kvs : List KV) (i : Int)
    (args : List Arg) (k v : Arg) (pairs : List (Arg × Arg)) (hnext : 0 < next) :
    (listPushWrong xs).inert xs ∧ (listPushAtWrong xs i).inert xs ∧ (seqSetWrong xs i).inert xs ∧ (seqRemWrong xs).inert xs ∧
    ((¬ ∃ a b, k = .pay a ∧ v = .pay b) → (mapSetArgs mk next kvs k v).inert kvs) ∧ (mapRemWrong kvs).inert kvs ∧
    (let r := listConcatArgs next xs args; Conserves xs r.val r.issued r.retired ∧ FreshFrom next r.issued) ∧
    (let r := listNewRefused next args; Conserves [] [] r.issued r.retired ∧ FreshFrom next r.issued) ∧
    (let r := mapNewRefused mk next pairs; Conserves [] [] r.issued r.retired ∧ FreshFrom next r.issued) := by
  refine ⟨inert_refused _ _, ?_, ?_, inert_refused _ _, fun h => ?_, inert_refused _ _, cons_listConcatArgs _ _ _,
    ⟨(cons_listNewRefused next args).1, (cons_listNewRefused next args).2.1⟩, cons_mapNewRefused mk next pairs hnext⟩
  · obtain ⟨e, he⟩ := listPushAtWrong_spec xs i; rw [he]; exact inert_refused _ _
  · obtain ⟨e, he⟩ := seqSetWrong_spec xs i; rw [he]; exact inert_refused _ _
  · rw [mapSetArgs_refused h]; exact inert_refused _ _

/-- the full statement: *every* executed call with a wrong-typed argument is refused without any effect -/
def C05_refused_no_effect_type_statement : Prop :=
  ∀ (w : World) (c : Nat) (t : TCall), t.hasWrong = true → (step w (.typed c t)).2.bad = false →
    ∀ e, (lookup (step w (.typed c t)).1.objs e).map Cont.toks = (lookup w.objs e).map Cont.toks

/-- …fails where the container makes room before the element's own type check runs.  Array_Push of an Int into an Array
    of probes raises ValueError and leaves the array one zero-filled, never constructed record longer (this is
    KF-C12-array-push-type, recorded under C12; the model mirrors it, `typedAtomic` keeps it out of the contract and
    generated inputs stay out of it). -/
theorem C05_refused_no_effect_type_refuted : ¬ C05_refused_no_effect_type_statement := by
  intro h
  have := h (run {} [.new 0 .arr, .push 0 5]).1 0 (.push .int) rfl (by decide) 0
  revert this; decide

/-- the full statement about refused constructors: what the half-built container's reclamation finalises is exactly
    what the constructor had constructed -/
def C05_ctor_refused_statement : Prop :=
  ∀ (w : World) (c : Nat) (t : TCall), t.isCtor = true → t.hasWrong = true → (step w (.typed c t)).2.bad = false →
    (step w (.typed c t)).2.retired ~ (step w (.typed c t)).2.issued

/-- …fails for Array_New (known-finding territory own-array-new-partial): `nitems` and the `malloc` come before the
    loop, so `new(Array, T, a, WRONG, b)` leaves a half-built array whose Array_Del — run by the collector — destructs
    three records of which one was constructed: the zero-filled record of the wrong element and the uninitialised one
    after it are passed to `destruct` as well. -/
theorem C05_array_new_partial_refuted : ¬ C05_ctor_refused_statement := by
  intro h
  have := (h {} 0 (.newSeq .array [.pay 1, .wrong .int, .pay 2]) rfl rfl (by decide)).length_eq
  revert this; decide

/-- the non-atomic territory, operation by operation, on concrete witnesses (the model mirrors the code):
    Array_Push, Array_Push_At (accepted index), Array_Concat (a wrong-typed item after one well-typed: the record of the
    wrong item and of the item after it are counted but never constructed) raise ValueError with `len` counting raw
    records; a refused Array_New runs destructors on records that were never constructed; List_Concat keeps the
    well-typed items before the wrong one (ownership stays consistent: 3 live, 3 held). -/
theorem C05_type_refused_not_atomic_witnesses :
    (let w := (run {} [.new 0 .arr, .push 0 5, .typed 0 (.push .int)]).1
     liveCount w = 1 ∧ (w.objs.map (fun cx => cx.2.len)).sum = 2) ∧
    (let w := (run {} [.new 0 .arr, .push 0 5, .typed 0 (.pushAt 0 .str)]).1
     liveCount w = 1 ∧ (w.objs.map (fun cx => cx.2.len)).sum = 2) ∧
    (let w := (run {} [.new 0 .arr, .push 0 5, .typed 0 (.concat [.pay 7, .wrong .null, .pay 8])]).1
     liveCount w = 2 ∧ (w.objs.map (fun cx => cx.2.len)).sum = 4) ∧
    (let o := (step {} (.typed 0 (.newSeq .array [.pay 1, .wrong .int, .pay 2]))).2
     o.out = .raised .valueError ∧ o.issued.length = 1 ∧ o.retired.length = 3) ∧
    (let r := run {} [.new 0 .lst, .push 0 5, .typed 0 (.concat [.pay 7, .pay 8, .wrong .type, .pay 9])]
     (r.2.map (·.out)) = [.ok, .ok, .raised .valueError] ∧ liveCount r.1 = 3 ∧ (r.1.objs.map (fun cx => cx.2.len)).sum = 3) := by
  decide

/-- the full statement, for every operation -/
def C05_never_while_contained_statement : Prop :=
  ∀ (ops : List Op), ∀ i ∈ (run {} ops).1.retiredLog, i ∉ allIds (run {} ops).1.objs

/-! ## Deep copies -/

/-- **C05_deep (copy).** `copy` of a container of probe elements (any kind) constructs exactly one fresh element per
    source element, with the source's payloads, finalises nothing, the new container holds exactly these elements,
    none of which is an element of the source, and the source is unchanged. -/
theorem C05_deep_partial {w : World} (hinv : Inv w) {c d : Nat} {x : Cont}
    (hc : c < maxConts) (hfree : lookup w.objs c = none) (hd : lookup w.objs d = some x) (hbox : x.isBox = false) :
    let w' := (step w (.copy c d)).1
    let o := (step w (.copy c d)).2
    ∃ y, lookup w'.objs c = some y ∧ y.toks ~ o.issued ∧ o.issued.map (·.pay) = x.toks.map (·.pay) ∧
      FreshFrom w.next o.issued ∧ o.retired = [] ∧ lookup w'.objs d = some x ∧
      (∀ i ∈ ids y.toks, i ∉ ids x.toks) := by
  intro w' o
  have hcd : d ≠ c := by intro h; rw [h, hfree] at hd; cases hd
  have hin : noKnownFinding w (.copy c d) = true := by simp [noKnownFinding, srcIsBox, hd, hbox]
  have hs := step_ok hinv (.copy c d) hin
  have hframe : lookup w'.objs d = some x := by rw [← hd]; exact step_frame w (.copy c d) hcd
  have hguard : ¬ (c ≥ maxConts ∨ (lookup w.objs c).isSome = true) := by simp [hfree]; exact hc
  -- the new elements are fresh, the source's are old
  have hdisj : ∀ y : Cont, lookup w'.objs c = some y → y.toks ~ o.issued → ∀ i ∈ ids y.toks, i ∉ ids x.toks := by
    intro y _ hy i hi hix
    have h1 : i ∈ ids o.issued := (ids_perm hy).mem_iff.mp hi
    have h2 := (hs.fresh.ge i h1).1
    have h3 : i ∈ w.issuedLog := hinv.cons.mem_iff.mpr (List.mem_append_right _ (ids_sub_allIds hd i hix))
    have := (hinv.bound i h3).2
    omega
  cases x with
  | cell t => simp [Cont.isBox] at hbox
  | seq k ek src =>
    cases ek with
    | box => simp [Cont.isBox] at hbox
    | probe =>
      have hw' : w' = (commitSeq w c k .probe (seqAssignProbe w.next [] src) [c, d]).1 := by
        simp only [w', step, hguard, if_false, hd]
      have ho : o = (commitSeq w c k .probe (seqAssignProbe w.next [] src) [c, d]).2 := by
        simp only [o, step, hguard, if_false, hd]
      have hiss : o.issued = mkFresh w.next (src.map (·.pay)) := by rw [ho]; rfl
      have hret : o.retired = [] := by rw [ho]; simp [commitSeq, commit, seqAssignProbe, Res.unit]
      have hlk : lookup w'.objs c = some (.seq k .probe (mkFresh w.next (src.map (·.pay)))) := by
        rw [hw']; simp only [commitSeq, commit_objs]; exact lookup_objsAfter_self _ _ _
      refine ⟨_, hlk, by rw [hiss]; exact Perm.refl _, by rw [hiss]; simp [pays_mkFresh, Cont.toks],
        hs.fresh, hret, hframe, hdisj _ hlk (by rw [hiss]; exact Perm.refl _)⟩
  | map k src =>
    have hkeys := inv_keys hinv hd
    have hw' : w' = (commitMap w c k (mapAssign k w.next [] src) [c, d]).1 := by
      simp only [w', step, hguard, if_false, hd]
    have ho : o = (commitMap w c k (mapAssign k w.next [] src) [c, d]).2 := by
      simp only [o, step, hguard, if_false, hd]
    have hpairs : ((src.map (fun kv => (kv.1.pay, kv.2.pay))).map (·.1)).Nodup := by
      simpa [keys, List.map_map, Function.comp_def] using hkeys
    obtain ⟨h1, h2, h3, h4, h5⟩ := mapSetMany_distinct k (src.map (fun kv => (kv.1.pay, kv.2.pay))) w.next []
      (by simp [keys]) hpairs (by simp [keys])
    have hiss : o.issued = (mapAssign k w.next [] src).issued := by rw [ho]; rfl
    have hret : o.retired = [] := by
      rw [ho]; simp [commitMap, commit, mapAssign, Res.unit, h2]
    have hlk : lookup w'.objs c = some (.map k (mapAssign k w.next [] src).val) := by
      rw [hw']; simp only [commitMap, commit_objs]; exact lookup_objsAfter_self _ _ _
    have hperm : (Cont.map k (mapAssign k w.next [] src).val).toks ~ o.issued := by
      rw [hiss]; simpa [Cont.toks, mapAssign] using h5
    refine ⟨_, hlk, hperm, ?_, hs.fresh, hret, hframe, hdisj _ hlk hperm⟩
    rw [hiss]
    simp only [mapAssign, h1, Cont.toks, kvToks]
    simp [List.flatMap_map, List.map_flatMap]

/-- **C05_deep (assign).** `assign(c, d)` between two different containers of the same family (Array↔List, Table↔Tree,
    probe elements) finalises exactly what `c` held, constructs one fresh element per element of `d` with the same
    payloads, after which `c` holds exactly these, none of them an element of `d`, and `d` is unchanged. -/
theorem C05_deep_assign_partial {w : World} (hinv : Inv w) {c d : Nat} {x y : Cont} (hcd : c ≠ d)
    (hc : lookup w.objs c = some y) (hd : lookup w.objs d = some x) (hbx : x.isBox = false) (hby : y.isBox = false)
    (hfam : (∃ k ek xs k' ek' ys, y = .seq k ek xs ∧ x = .seq k' ek' ys) ∨ (∃ k kvs k' src, y = .map k kvs ∧ x = .map k' src)) :
    let w' := (step w (.assign c d)).1
    let o := (step w (.assign c d)).2
    ∃ z, lookup w'.objs c = some z ∧ z.toks ~ o.issued ∧ o.issued.map (·.pay) = x.toks.map (·.pay) ∧
      FreshFrom w.next o.issued ∧ o.retired = y.toks ∧ lookup w'.objs d = some x ∧
      (∀ i ∈ ids z.toks, i ∉ ids x.toks) := by
  intro w' o
  have hin : noKnownFinding w (.assign c d) = true := by
    rcases hfam with ⟨k, ek, xs, k', ek', src, rfl, rfl⟩ | ⟨k, kvs, k', src, rfl, rfl⟩ <;>
      simp [noKnownFinding, srcIsBox, crossRefused, hc, hd, hbx, hcd]
  have hs := step_ok hinv (.assign c d) hin
  have hframe : lookup w'.objs d = some x := by rw [← hd]; exact step_frame w (.assign c d) (Ne.symm hcd)
  have hdisj : ∀ z : Cont, z.toks ~ o.issued → ∀ i ∈ ids z.toks, i ∉ ids x.toks := by
    intro z hz i hi hix
    have h1 : i ∈ ids o.issued := (ids_perm hz).mem_iff.mp hi
    have h2 := (hs.fresh.ge i h1).1
    have h3 : i ∈ w.issuedLog := hinv.cons.mem_iff.mpr (List.mem_append_right _ (ids_sub_allIds hd i hix))
    have := (hinv.bound i h3).2
    omega
  rcases hfam with ⟨k, ek, xs, k', ek', src, rfl, rfl⟩ | ⟨k, kvs, k', src, rfl, rfl⟩
  · cases ek' with
    | box => simp [Cont.isBox] at hbx
    | probe =>
      cases ek with
      | box => simp [Cont.isBox] at hby
      | probe =>
        have hw' : w' = (commitSeq w c k .probe (seqAssignProbe w.next xs src) [c, d] false).1 := by
          simp only [w', step, hc, hd, hcd, if_false]; rfl
        have ho : o = (commitSeq w c k .probe (seqAssignProbe w.next xs src) [c, d] false).2 := by
          simp only [o, step, hc, hd, hcd, if_false]; rfl
        have hiss : o.issued = mkFresh w.next (src.map (·.pay)) := by rw [ho]; rfl
        have hret : o.retired = xs := by rw [ho]; simp [commitSeq, commit, seqAssignProbe, Res.unit]
        have hlk : lookup w'.objs c = some (.seq k .probe (mkFresh w.next (src.map (·.pay)))) := by
          rw [hw']; simp only [commitSeq, commit_objs]; exact lookup_objsAfter_self _ _ _
        exact ⟨_, hlk, by rw [hiss]; exact Perm.refl _, by rw [hiss]; simp [pays_mkFresh, Cont.toks],
          hs.fresh, hret, hframe, hdisj _ (by rw [hiss]; exact Perm.refl _)⟩
  · have hkeys := inv_keys hinv hd
    have hw' : w' = (commitMap w c k (mapAssign k w.next kvs src) [c, d]).1 := by
      simp only [w', step, hc, hd, hcd, if_false]
    have ho : o = (commitMap w c k (mapAssign k w.next kvs src) [c, d]).2 := by
      simp only [o, step, hc, hd, hcd, if_false]
    have hpairs : ((src.map (fun kv => (kv.1.pay, kv.2.pay))).map (·.1)).Nodup := by
      simpa [keys, List.map_map, Function.comp_def] using hkeys
    obtain ⟨h1, h2, h3, h4, h5⟩ := mapSetMany_distinct k (src.map (fun kv => (kv.1.pay, kv.2.pay))) w.next []
      (by simp [keys]) hpairs (by simp [keys])
    have hiss : o.issued = (mapAssign k w.next kvs src).issued := by rw [ho]; rfl
    have hret : o.retired = kvToks kvs := by
      rw [ho]; simp [commitMap, commit, mapAssign, Res.unit, h2]
    have hlk : lookup w'.objs c = some (.map k (mapAssign k w.next kvs src).val) := by
      rw [hw']; simp only [commitMap, commit_objs]; exact lookup_objsAfter_self _ _ _
    have hperm : (Cont.map k (mapAssign k w.next kvs src).val).toks ~ o.issued := by
      rw [hiss]; simpa [Cont.toks, mapAssign] using h5
    refine ⟨_, hlk, hperm, ?_, hs.fresh, hret, hframe, hdisj _ hperm⟩
    rw [hiss]
    simp only [mapAssign, h1, Cont.toks, kvToks]
    simp [List.flatMap_map, List.map_flatMap]

/-- **C05_deep (independence).** Whatever is done to other containers — in contract or not — a container that no
    operation of the history is applied to is the same value afterwards.  (This is the frame property of the model, in
    which containers are separate values; that the *code* has it — no operation reaches into another container's
    storage — is what the per-operation comparison of all container contents (`dig`) checks, and what F28 violates for
    Box.  The content of "deep" is the freshness conjunct of `C05_deep_partial` / `C05_deep_assign_partial`.) -/
theorem C05_deep_independent (w : World) (ops : List Op) (d : Nat) (h : ∀ op ∈ ops, op.target ≠ d) :
    lookup (run w ops).1.objs d = lookup w.objs d := run_frame w ops d h

/-- …and no in-contract operation finalises an element of a container it is not applied to. -/
theorem C05_deep_no_foreign_finalise {w : World} (hinv : Inv w) (op : Op) (hin : inContract w op = true)
    {e : Nat} {x : Cont} (he : e ≠ op.target) (hl : lookup w.objs e = some x) :
    ∀ t ∈ (step w op).2.retired, t.id ∉ ids x.toks := by
  intro t ht hx
  have hs := step_ok hinv op (inContract_nkf hin)
  have hl' : lookup (step w op).1.objs e = some x := by rw [← hl]; exact step_frame w op he
  have h1 : t.id ∈ allIds (step w op).1.objs := ids_sub_allIds hl' _ hx
  have h2 : t.id ∈ (step w op).1.retiredLog := by
    rw [hs.retired]; exact List.mem_append_left _ (List.mem_map_of_mem ht)
  exact inv_disjoint hs.inv _ h2 h1

/-- the full statement of deep copying, for every kind of element -/
def C05_deep_statement : Prop :=
  ∀ (ops : List Op) (c d : Nat), lookup (run {} ops).1.objs c = none → c < maxConts →
    ∀ x, lookup (run {} ops).1.objs d = some x →
      ∀ y, lookup (step (run {} ops).1 (.copy c d)).1.objs c = some y → ∀ i ∈ ids y.toks, i ∉ ids x.toks

/-! ## Aliased arguments: stored objects passed back into a container

`set(t, k, get(t, k))`, `foreach (key in t) rem(t, key)`, `push(l, get(l, 0))`, `set(a, i, get(a, j))`,
`set(t, key_from_iteration, get(u, other))`: the element / key / value argument is an object that lives in a container's
own storage (Cello/OwnAlias.lean: `Ref`, `Src`, `stepAliased`; the argument is read when the code reads it). -/

/-- **C05_aliased_as_resolved.**  For every world, every receiver and every aliased call (push, push_at, set, rem on an
    Array / List; set, rem on a Table / Tree; each argument a fresh object or a reference to an element, key object or value
    object of the receiver itself or of any other container): the call is either not executed by the op-file interpreters
    (`bad`: the receiver is not a container of probe elements, a reference designates nothing, an Array is pushed an element
    of itself — KF-C04-push-own-element) or it does to the world exactly what the plain call does whose arguments are fresh
    objects with the payloads the references resolve to BEFORE the call — although the model reads an argument that lies in
    the receiver when the code reads it (`treeSetSrc`: the value argument after the key was assigned in place). -/
theorem C05_aliased_as_resolved (w : World) (c : Nat) (t : ACall) :
    stepAliased w c t = (match lowerCall w c t with
      | some op => step w op
      | none => badOp w) := by
  rw [stepAliased_lower]; rfl

/-- at the level of one map, for every contents and every pair of arguments (no contract): `Table_Set` / `Tree_Set` with
    stored objects as arguments = the same with the payloads read from the map as it was before the call -/
theorem C05_aliased_map_set_reads (mk : MapKind) (next : Nat) (kvs : List KV) (ka va : Src) :
    mapSetSrc mk next kvs ka va =
      (match ka.read (.map mk kvs), va.read (.map mk kvs) with
       | some k, some v => some (mapSet mk next kvs k v)
       | _, _ => none) := mapSetSrc_eq mk next kvs ka va

/-- **C05_conservation for aliased calls**: every in-contract operation of an op file — plain or aliased — conserves
    identities over all containers, hands out fresh identities, logs what it constructed and finalised and re-establishes
    the invariant. -/
theorem C05_conservation_aliased_partial {w : World} (hinv : Inv w) (a : AOp) (hin : inContractA w a = true) :
    let w' := (stepA w a).1
    let o := (stepA w a).2
    allIds w'.objs ++ ids o.retired ~ allIds w.objs ++ ids o.issued ∧
    FreshFrom w.next o.issued ∧
    w'.issuedLog = ids o.issued ++ w.issuedLog ∧ w'.retiredLog = ids o.retired ++ w.retiredLog ∧
    Inv w' := by
  obtain ⟨op, _, hc, hs⟩ := inContractA_lower hin
  rw [hs]
  exact C05_conservation_partial hinv op hc

/-- **C05_history for histories with aliased calls.**  Every history of in-contract operations in which any element / key
    / value argument may be a stored object (of the receiver or of another container): after every operation the elements
    ever constructed are exactly the finalised ones plus the ones the containers hold, no identity was constructed or
    finalised twice or is held in two places, nothing finalised is still contained, every operation was executed, live
    count = Σ sizes; and after deleting every container every element ever constructed has been finalised exactly once. -/
theorem C05_history_aliased_partial (ops : List AOp) (h : allInContractA {} ops) :
    let w := (runA {} ops).1
    (w.issuedLog ~ w.retiredLog ++ allIds w.objs) ∧
    w.issuedLog.Nodup ∧ w.retiredLog.Nodup ∧ (allIds w.objs).Nodup ∧
    (∀ i ∈ w.retiredLog, i ∉ allIds w.objs) ∧ (∀ i ∈ w.retiredLog, i ∈ w.issuedLog) ∧
    (∀ o ∈ (runA {} ops).2, o.bad = false) ∧
    liveCount w = (w.objs.map (fun cx => cx.2.toks.length)).sum ∧
    (let e := (run w (delAllOps w)).1
     e.objs = [] ∧ e.retiredLog ~ e.issuedLog ∧ e.retiredLog.Nodup ∧ ∀ i ∈ w.issuedLog, i ∈ e.retiredLog) := by
  obtain ⟨e, hc, _⟩ := runA_lower h
  have h1 := C05_history_partial _ hc
  have h2 := C05_live_count_partial _ hc
  rw [e]
  exact ⟨h1.1, h1.2.1, h1.2.2.1, h1.2.2.2.1, h1.2.2.2.2.1, h1.2.2.2.2.2.1, h1.2.2.2.2.2.2.1, h2.1, h1.2.2.2.2.2.2.2.2⟩

/-- the store-back idiom `set(t, k, get(t, k))`, as a statement about a model `f` of `set` with `Src` arguments: whenever
    the map holds a (constructed) pair under `k`, passing the stored value back — with a fresh key object — is executed,
    finalises nothing, constructs nothing, and the value stored under `k` afterwards is the very same element. -/
def C05_store_back_statement (f : Nat → List KV → Src → Src → Option (Res (List KV))) : Prop :=
  ∀ (next k : Nat) (kvs : List KV) (old : KV) (rest : List KV), takeFirst (keyIs k) kvs = some (old, rest) →
    old.1.id ≠ 0 → old.2.id ≠ 0 →
    ∃ r, f next kvs (.obj k) (.own (.val k)) = some r ∧ r.retired = [] ∧ r.issued = [] ∧
      (Cont.map .tree r.val).pick (.val k) = some old.2

/-- **Tree_Set as it is** (`assign` key, then `assign` value, both in place) satisfies it: the contained element is
    assigned onto itself — never finalised while contained. -/
theorem C05_store_back_tree : C05_store_back_statement treeSetSrc := by
  intro next k kvs old rest h hk hv
  obtain ⟨hf, _⟩ := takeFirst_find? h
  have hold : old.1.pay = k := (takeKey_some h).2
  have hr : (Src.own (.val k)).read (.map .tree kvs) = some old.2.pay := by simp [Src.read, Cont.pick, hf]
  have e := treeSetSrc_eq next kvs (.obj k) (.own (.val k))
  rw [hr] at e
  simp only [Src.read] at e
  refine ⟨_, e, ?_, ?_, ?_⟩
  · simp [treeSet, h]
  · simp [treeSet, h, assignProbe, hk, hv]
  · have h1 : (assignProbe next old.1 k).val = old.1 := by
      obtain ⟨⟨i1, p1⟩, v1⟩ := old
      simp only at hold hk
      simp [assignProbe, hk, hold]
    have h2 : (assignProbe (next + (assignProbe next old.1 k).issued.length) old.2 old.2.pay).val = old.2 := by
      obtain ⟨k1, ⟨i2, p2⟩⟩ := old
      simp only at hv
      simp [assignProbe, hv]
    simp only [treeSet, h, h1, h2, Cont.pick, find?_mapInsert]
    have : keyIs k old = true := by simp [keyIs, hold]
    simp [this]

/-- …whereas the order "destruct the old value, zero it, assign the new one" (seeded change c05_l: what Table does — but
    Table has copied both arguments into its swap space before) does NOT: with a Tree holding `5 ↦ 7`, `set(t, 5, get(t, 5))`
    finalises the contained value, reads zeroed bytes and constructs a blank element (payload 0) in its place. -/
theorem C05_tree_set_destruct_first_refuted : ¬ C05_store_back_statement treeSetDestructFirstSrc := by
  intro h
  obtain ⟨r, hr, hret, _⟩ := h 3 5 [(⟨1, 5⟩, ⟨2, 7⟩)] (⟨1, 5⟩, ⟨2, 7⟩) [] (by decide) (by decide) (by decide)
  have hw : (treeSetDestructFirstSrc 3 [(⟨1, 5⟩, ⟨2, 7⟩)] (.obj 5) (.own (.val 5))).map
      (fun r => (r.val, r.issued, r.retired)) = some ([(⟨1, 5⟩, ⟨3, 0⟩)], [⟨3, 0⟩], [⟨2, 7⟩]) := by decide
  rw [hr] at hw
  simp only [Option.map_some, Option.some.injEq, Prod.mk.injEq] at hw
  rw [hret] at hw
  exact absurd hw.2.2 (by decide)

/-- **Table_Set** with the stored value passed back (`set(t, k, get(t, k))`, any key argument that reads `k`): both arguments
    are copied into the swap space first — two fresh elements carrying the payloads read from the table as it was —, THEN
    the resident pair is finalised (once, no longer contained) and replaced. -/
theorem C05_store_back_table (next k : Nat) (kvs : List KV) (old : KV) (rest : List KV)
    (h : takeFirst (keyIs k) kvs = some (old, rest)) :
    ∃ r, tableSetSrc next kvs (.obj k) (.own (.val k)) = some r ∧ r.retired = [old.1, old.2] ∧
      r.issued = [⟨next, k⟩, ⟨next + 1, old.2.pay⟩] ∧ (Cont.map .table r.val).pick (.val k) = some ⟨next + 1, old.2.pay⟩ := by
  obtain ⟨hf, _⟩ := takeFirst_find? h
  have hr : (Src.own (.val k)).read (.map .table kvs) = some old.2.pay := by simp [Src.read, Cont.pick, hf]
  have e := tableSetSrc_eq next kvs (.obj k) (.own (.val k))
  rw [hr] at e
  refine ⟨tableSet next kvs k old.2.pay, e, by simp [tableSet, h], by simp [tableSet, h], ?_⟩
  simp [tableSet, h, Cont.pick, find?_mapInsert, keyIs]

/-- an op file with aliased calls of every shape, all executed: store-back on a Tree (in place: nothing finalised) and on a
    Table (replaced: the old pair finalised), the stored key object as key of `set` and of `rem`, a value object as key,
    elements of a List pushed / inserted / assigned / removed by reference to themselves, one Array record assigned onto
    another and onto itself, elements of other containers as arguments — 16 live elements, none lost -/
def demoAliased : List AOp :=
  [.base (.newMap 0 .tree [(5, 7), (3, 4)]), .aliased 0 (.mset (.pay 5) (.ref ⟨0, .val 5⟩)),
   .aliased 0 (.mset (.ref ⟨0, .key 3⟩) (.ref ⟨0, .val 5⟩)), .aliased 0 (.mset (.ref ⟨0, .val 3⟩) (.pay 9)),
   .base (.newMap 1 .table [(1000, 1), (5, 2)]), .aliased 1 (.mset (.pay 1000) (.ref ⟨1, .val 1000⟩)),
   .aliased 1 (.mset (.ref ⟨1, .key 5⟩) (.ref ⟨0, .val 5⟩)), .aliased 1 (.mrem ⟨1, .key 1000⟩),
   .base (.newSeq 2 .list [1, 2, 3]), .aliased 2 (.push ⟨2, .elem 0⟩), .aliased 2 (.pushAt 1 ⟨2, .elem (-1)⟩),
   .aliased 2 (.set 0 ⟨2, .elem 0⟩), .aliased 2 (.set 0 ⟨2, .elem 2⟩), .aliased 2 (.rem ⟨2, .elem 3⟩),
   .base (.newSeq 3 .array [7, 8, 9]), .aliased 3 (.set 0 ⟨3, .elem 1⟩), .aliased 3 (.set 1 ⟨3, .elem 1⟩),
   .aliased 3 (.rem ⟨3, .elem 2⟩), .aliased 3 (.push ⟨2, .elem 0⟩), .aliased 2 (.push ⟨3, .elem 0⟩),
   .aliased 0 (.mset (.ref ⟨2, .elem 0⟩) (.ref ⟨3, .elem 0⟩)), .aliased 0 (.mrem ⟨0, .key 3⟩)]

example : allInContractA {} demoAliased := by
  simp only [demoAliased, allInContractA]
  decide

example : liveCount (runA {} demoAliased).1 = 16 ∧ (runA {} demoAliased).2.all (fun o => !o.bad) = true ∧
    -- store-back on the Tree: nothing constructed, nothing finalised; on the Table: one pair each way
    ((runA {} demoAliased).2.map (fun o => (o.issued.length, o.retired.length, o.updated.length))).take 8 =
      [(4, 0, 0), (0, 0, 2), (0, 0, 2), (2, 0, 0), (4, 0, 0), (2, 2, 0), (2, 2, 0), (0, 2, 0)] := by
  decide

/-- an Array is not pushed an element of itself (the argument would be read after `Array_Reserve_More` / the `memmove`:
    KF-C04-push-own-element, C04): answered `bad`, outside the contract; the same call with an element of another
    container is executed -/
example : let w := (runA {} [.base (.newSeq 0 .array [1, 2]), .base (.newSeq 1 .list [3])]).1
    inContractA w (.aliased 0 (.push ⟨0, .elem 0⟩)) = false ∧ inContractA w (.aliased 0 (.pushAt 0 ⟨0, .elem 1⟩)) = false ∧
    inContractA w (.aliased 0 (.push ⟨1, .elem 0⟩)) = true ∧ inContractA w (.aliased 1 (.push ⟨1, .elem 0⟩)) = true := by
  decide

/-! ## Stored objects as operands of `concat` and of the constructors (extension round)

`concat(l, tuple(get(l, 0), get(t, k), x))`, `new(List, Probe, get(l, 0), …)`, `new(Table, K, V, key_from_iteration, get(u, k), …)`:
SEVERAL operands at once, any of which may be a stored object (`ACall.concat / newSeq / newMap`).  `C05_aliased_as_resolved`,
`C05_conservation_aliased_partial` and `C05_history_aliased_partial` above quantify over every `ACall` and so cover them; the
theorems here are the List_Concat-specific content: the operands are read ONE BY ONE, each when its own push runs. -/

/-- **C05_concat_operands_read_when_pushed.**  For every world, every List `c` of probe elements and every operand list (fresh
    objects, elements / key objects / value objects of other containers, nodes of `c` itself by positive or negative index):
    List_Concat as the code runs it — `List_Push` per operand, operand i read from the list that already holds the elements
    constructed for the operands before it (`listConcatSrc`) — is executed exactly when every reference designates an element,
    and then equals the concat of fresh objects carrying the payloads the references resolve to BEFORE the call. -/
theorem C05_concat_operands_read_when_pushed {w : World} {c : Nat} {xs : List Tok}
    (hl : lookup w.objs c = some (.seq .list .probe xs)) (items : List RArg) :
    (toCSrcs w c xs items).bind (listConcatSrc w.next xs []) =
      (resolveArgs w items).map (fun ps => listConcatArgs w.next xs (ps.map Arg.pay)) :=
  listConcat_operands hl items

/-- at the level of one List (no world): operands whose read is stable under pushes at the tail — in particular every node
    the list held before the call — make the item-by-item run construct one fresh element per operand, in order, finalise
    nothing and leave the old elements where they were: contents after = contents before + constructed. -/
theorem C05_concat_operands_conservation (next : Nat) (xs : List Tok) {ss : List CSrc} {ps : List Nat}
    (h : List.Forall₂ (Stable xs) ss ps) :
    ∃ r, listConcatSrc next xs [] ss = some r ∧ r.issued = mkFresh next ps ∧ r.val = xs ++ r.issued ∧ r.retired = [] ∧
      r.updated = [] ∧ r.out = .ok := by
  refine ⟨_, listConcatSrc_stable next xs h [], ?_, ?_, rfl, rfl, rfl⟩ <;> simp

/-- a node of the receiving list IS stable (non-vacuity of the hypothesis above), a position beyond its end is not: a model
    that resolved `get(l, -1)` only when the push runs would read the element constructed for the operand before it -/
example : Stable [⟨1, 5⟩, ⟨2, 6⟩] (.node 1) 6 ∧ ¬ Stable [⟨1, 5⟩, ⟨2, 6⟩] (.node 2) 7 ∧
    (CSrc.node 2).read ([⟨1, 5⟩, ⟨2, 6⟩] ++ [⟨3, 7⟩]) = some 7 := by
  refine ⟨fun acc => by simp [CSrc.read], fun h => ?_, by decide⟩
  have := h []
  simp [CSrc.read] at this

/-- an op file with operands of every shape, all executed: a List concatenated nodes of itself (negative index = position
    before the call) mixed with fresh objects and elements of an Array / Table / Tree; an Array concatenated elements of
    others; List / Array / Table / Tree constructed from stored objects (the same object twice is fine there: the
    constructors fetch their arguments by index) — then the sources are mutated and deleted, the copies stay -/
def demoOperands : List AOp :=
  [.base (.newSeq 0 .list [1, 2, 3]), .base (.newSeq 1 .array [7, 8]), .base (.newMap 2 .table [(5, 50), (1000, 9)]),
   .aliased 0 (.concat [.ref ⟨0, .elem (-1)⟩, .pay 4, .ref ⟨0, .elem 0⟩]),
   .aliased 0 (.concat [.ref ⟨1, .elem 0⟩, .ref ⟨2, .key 5⟩, .ref ⟨2, .val 1000⟩, .ref ⟨0, .elem (-2)⟩]),
   .aliased 1 (.concat [.ref ⟨0, .elem 1⟩, .ref ⟨2, .val 5⟩]),
   .aliased 3 (.newSeq .list [.ref ⟨0, .elem 0⟩, .ref ⟨0, .elem 0⟩, .pay 6]),
   .aliased 4 (.newSeq .array [.ref ⟨2, .key 1000⟩]),
   .aliased 5 (.newMap .tree [(.ref ⟨2, .key 5⟩, .ref ⟨0, .elem 3⟩), (.pay 8, .ref ⟨2, .val 5⟩), (.ref ⟨2, .key 5⟩, .ref ⟨1, .elem 1⟩)]),
   .aliased 6 (.newMap .table [(.ref ⟨0, .elem 1⟩, .ref ⟨5, .val 8⟩)]),
   .base (.del 0), .base (.mrem 2 5), .base (.read 5)]

example : allInContractA {} demoOperands := by
  simp only [demoOperands, allInContractA]
  decide

example : liveCount (runA {} demoOperands).1 = 16 ∧ (runA {} demoOperands).2.all (fun o => !o.bad) = true ∧
    -- constructed / finalised / assigned in place per call: the two List concats, the Array concat, the four constructors
    (((runA {} demoOperands).2.map (fun o => (o.issued.map (·.pay), o.retired.length, o.updated.length))).drop 3).take 7 =
      [([3, 4, 1], 0, 0), ([7, 5, 9, 4], 0, 0), ([2, 50], 0, 0), ([1, 1, 6], 0, 0), ([1000], 0, 0),
       ([5, 3, 8, 50], 0, 2), ([2, 50], 0, 0)] := by
  decide

/-- outside the contract (answered `bad` by harness and model): the same stored object twice among the operands of concat
    (the Tuple of operands cannot be iterated: KF-C04-tuple-dup-iter), records of the receiving Array
    (KF-C04-push-own-element), a reference that designates nothing; the same operands through a constructor are fine -/
example : let w := (runA {} [.base (.newSeq 0 .list [1, 2]), .base (.newSeq 1 .array [3])]).1
    inContractA w (.aliased 0 (.concat [.ref ⟨0, .elem 0⟩, .ref ⟨0, .elem (-2)⟩])) = false ∧
    inContractA w (.aliased 1 (.concat [.ref ⟨1, .elem 0⟩])) = false ∧
    inContractA w (.aliased 0 (.concat [.ref ⟨0, .elem 2⟩])) = false ∧
    inContractA w (.aliased 1 (.concat [.ref ⟨0, .elem 0⟩, .ref ⟨0, .elem 1⟩])) = true ∧
    inContractA w (.aliased 2 (.newSeq .list [.ref ⟨0, .elem 0⟩, .ref ⟨0, .elem 0⟩])) = true := by
  decide

/-! ## Keys with boundary hash values -/

open Conc in
/-- **C05_boundary_hashes.**  `C05_moves_table` holds for every hash function; the one the correspondence runs with
    (`probeHash` = `Probe_Hash` of harness/h_own.c) takes, on the payloads `1000 + 8·b + r`, the boundary values of a 64-bit
    hash: 2^64-1 (what `Int_Hash` gives for -1; the all-ones NaN pattern), 0, 1, 2^63 (INT64_MIN, -0.0), 2^63-1, 2^32 and its
    neighbours, the float bit patterns of NaN / inf / 1.0, and `L`, `L-1`, `L+1` with `L` a common multiple of every table
    size of `Table_Primes` (as the translator reads it) between 2 and 1259 — home slot 0, `nslots-1`, 1 in every one of those tables at
    once.  Every value is below 2^64, so the `%` of the model (on ℕ) is the `%` of the code (on `uint64_t`); eight payloads
    share each value. -/
theorem C05_boundary_hashes :
    probeHash 1000 = 2 ^ 64 - 1 ∧ probeHash 1008 = 0 ∧ probeHash 1016 = 1 ∧ probeHash 1032 = 2 ^ 63 ∧
    probeHash 1040 = 2 ^ 63 - 1 ∧ probeHash 1056 = 2 ^ 32 ∧ probeHash 1128 = bhL ∧ probeHash 1136 = bhL - 1 ∧
    (∀ h ∈ bhTable, h < 2 ^ 64) ∧
    (∀ b < bhTable.length, ∀ r < bhPer, probeHash (bhBase + bhPer * b + r) = bhTable.getD b 0) ∧
    (∀ n ∈ CelloGen.Table.primes, 1 < n → n ≤ 1259 → bhL % n = 0 ∧ (bhL - 1) % n = n - 1 ∧ (bhL + 1) % n = 1) ∧
    (probeHash 999 = 7 * 37 ∧ probeHash 1176 = 8 * 37) := by
  refine ⟨by decide, by decide, by decide, by decide, by decide, by decide, by decide, by decide, by decide, by decide,
    by decide, by decide⟩

open Conc in
/-- a Table history over keys whose hashes are all-ones (1000, 1001), 0 (1008), 2^63 (1032), L-1 (1136): clustering in slot 0
    / slot nslots-1, growth 5 → 11, replacement, `rem` with backward shift, shrink -/
def demoBoundary : List MOp :=
  [.set 1000 1, .set 1008 2, .set 1001 3, .set 1032 4, .set 1136 5, .set 1000 6, .rem 1008, .rem 1000, .set 1137 7, .rem 1136]

open Conc in
/-- nslots, nitems, the slots of the stored keys and the identities finalised, step by step: no pair is lost or invisible -/
example : (match tableRunC tableCfgNow probeHash 1 (Cello.Table.new tableCfgNow) demoBoundary with
    | .ok rs => some (rs.map (fun r => (r.val.n, r.val.nitems, (slotKVs r.val).length, r.retired.map (·.id))))
    | .error _ => none) =
  some [(5, 1, 1, []), (5, 2, 2, []), (5, 3, 3, []), (5, 4, 4, []), (11, 5, 5, []), (11, 5, 5, [1, 2]), (5, 4, 4, [3, 4]),
        (5, 3, 3, [11, 12]), (5, 4, 4, []), (5, 3, 3, [9, 10])] := by decide

/-! ## Known findings: the model, which mirrors the code, violates the full statements -/

/-- Array of Box: push two, copy, delete the original -/
def kfBoxCopy : List Op := [.new 0 .boxArr, .push 0 1, .push 0 2, .copy 1 0, .del 0]
/-- List: resize an empty list to 3 -/
def kfListResize : List Op := [.new 0 .lst, .resize 0 3]
/-- Array of Box: `set` over a stored Box -/
def kfBoxSet : List Op := [.new 0 .boxArr, .push 0 1, .set 0 0 5]

/-- F28: after copying an Array of Box the copy holds the *same* elements as the original… -/
theorem C05_deep_refuted : ¬ C05_deep_statement := by
  intro h
  have := h [.new 0 .boxArr, .push 0 1, .push 0 2] 1 0 (by decide) (by decide)
    (.seq .array .box [⟨1, 1⟩, ⟨2, 2⟩]) rfl (.seq .array .box [⟨1, 1⟩, ⟨2, 2⟩]) rfl 1 (by decide)
  exact this (by decide)

/-- …so deleting the original finalises elements that the copy still contains. -/
theorem C05_never_while_contained_refuted : ¬ C05_never_while_contained_statement := by
  intro h
  exact h kfBoxCopy 1 (by decide) (by decide)

/-- `set` on a stored Box constructs nothing in the container's name and finalises nothing, yet the old pointee leaves
    the container: conservation fails -/
theorem C05_conservation_refuted : ¬ C05_conservation_statement := by
  intro h
  have hinv : Inv (run {} [.new 0 .boxArr, .push 0 1]).1 := run_inv inv_init _ ⟨rfl, rfl, trivial⟩
  have := (h _ (.set 0 0 5) hinv).length_eq
  revert this; decide

/-- the history statement fails as well: after `set` on a stored Box a constructed element is neither finalised nor
    contained -/
theorem C05_history_refuted : ¬ C05_history_statement := by
  intro h
  have := (h kfBoxSet).1.length_eq
  revert this; decide

/-- List_Push_At as it was before fix 4077d96: `List_Alloc` + `assign` first, the index check (`List_At`) afterwards -/
def listPushAtOldOrder (next : Nat) (xs : List Tok) (i : Int) (p : Nat) : Res (List Tok) :=
  let t : Tok := ⟨next, p⟩
  if i = 0 then { val := t :: xs, issued := [t] }
  else
    let n : Int := xs.length
    let j : Int := if i < 0 then n + i else i
    if j < 0 ∨ j ≥ n then { val := xs, issued := [t], out := .raised .indexOutOfBounds }
    else { val := xs.insertIdx j.toNat t, issued := [t] }

/-- the repaired defect: with the old order a refused push_at had constructed an element that was neither stored nor
    finalised (regression witness `corpus/own_list_pushat.ops`); the present order conserves (`C05_conservation_list`) -/
theorem C05_list_pushat_old_order_refuted :
    let r := listPushAtOldOrder 2 [⟨1, 1⟩] 5 9
    r.out = .raised .indexOutOfBounds ∧ ¬ Conserves [⟨1, 1⟩] r.val r.issued r.retired := by
  refine ⟨by decide, fun h => ?_⟩
  have := h.length_eq
  revert this; decide

/-- List_Resize growing a list: the list reports 3 elements, none was ever constructed -/
theorem C05_live_count_list_resize_refuted :
    let w := (run {} kfListResize).1
    liveCount w = 0 ∧ (w.objs.map (fun cx => cx.2.len)).sum = 3 := by decide

/-- `set` on a stored Box drops the old pointee: it stays live and is in no container -/
theorem C05_box_set_refuted :
    let w := (run {} kfBoxSet).1
    liveCount w = 2 ∧ (allIds w.objs).length = 1 ∧ w.retiredLog = [] := by decide

/-- Array ← non-empty Table: `Array_Assign` clears, sets `nitems = len(obj) = 2`, allocates, zero-fills record 0 and
    `get(obj, $I(0))` raises -/
def kfArrayAssign : List Op := [.newSeq 0 .array [1], .newMap 1 .table [(0, 10), (7, 20)], .assign 0 1]
/-- `ref(box, p)` on a Box that owns an object -/
def kfBoxRef : List Op := [.box 0 1, .bref 0 2]
/-- List ← non-empty Table: `List_Assign` clears, then `get(obj, $I(0))` raises -/
def xfListAssign : List Op := [.newSeq 0 .list [1], .newMap 1 .table [(0, 10)], .assign 0 1]

/-- Array_Assign from a source whose `get(obj, $I(i))` raises: the call fails with `len(a) = 2` although no element of
    `a` exists — 4 live elements (the Table's), container sizes summing to 6 -/
theorem C05_live_count_array_assign_refuted :
    let w := (run {} kfArrayAssign).1
    (run {} kfArrayAssign).2.map (·.out) = [.ok, .ok, .raised .valueError] ∧
    liveCount w = 4 ∧ (w.objs.map (fun cx => cx.2.toks.length)).sum = 6 := by decide

/-- **KF-C05-box-ref-drops** (sig own-box-ref-drops, witness corpus/kf_c05_box_ref.ops; a finding of its own — it is not
    what KF-C05-box-shallow, `site=Box_Assign`, describes).  `Box_Ref` is `b->val = val;`: `ref(box, p)` on a Box that owns
    an object overwrites the pointer, the object the Box owned stays live and is owned by nothing (2 live, 1 held, nothing
    finalised).  Pointer.c documents only "deleted with the Box" and its Usage example calls `ref` on a Box of stack
    objects — `ref` is the documented way to take ownership away — but the property text says a *replaced* object is
    finalised; `noKnownFinding (.bref _ _) = false` keeps exactly this call out of the contract. -/
theorem C05_box_ref_refuted :
    let w := (run {} kfBoxRef).1
    liveCount w = 2 ∧ (allIds w.objs).length = 1 ∧ w.retiredLog = [] := by decide

/-- the full statement of "a refused call has no effect", for every operation -/
def C05_refused_no_effect_statement : Prop :=
  ∀ (w : World) (op : Op), (step w op).2.out ≠ .ok →
    ∀ e, (lookup (step w op).1.objs e).map Cont.toks = (lookup w.objs e).map Cont.toks

/-- …fails for assignment across the families from a non-empty source: `List_Assign` clears the destination before the
    source's `get` raises.  Ownership stays consistent — the cleared elements were finalised once, live = Σ len — and the
    call is IN this contract (`C05_list_assign_from_map`, last disjunct of `C05_refused_no_effect_partial`); only "a failed
    call changed its receiver" fails, which is C12's subject (KF-C12-assign-clears). -/
theorem C05_refused_no_effect_refuted : ¬ C05_refused_no_effect_statement := by
  intro h
  have := h (run {} [.newSeq 0 .list [1], .newMap 1 .table [(0, 10)]]).1 (.assign 0 1) (by decide) 0
  revert this; decide

/-- `assign(List, non-empty Table)` is an in-contract history (it was excluded before the second audit): the call raises
    ValueError, the List's element (identity 1) is finalised, the Table keeps its pair — 2 live elements, container
    sizes summing to 2 -/
example : allInContract {} xfListAssign ∧ (run {} xfListAssign).2.map (·.out) = [.ok, .ok, .raised .valueError] ∧
    liveCount (run {} xfListAssign).1 = 2 ∧ ((run {} xfListAssign).1.objs.map (fun cx => cx.2.toks.length)).sum = 2 ∧
    (run {} xfListAssign).1.retiredLog = [1] := by
  refine ⟨by simp only [xfListAssign, allInContract]; decide, by decide, by decide, by decide, by decide⟩

/-- the hypotheses of `C05_list_assign_from_map` are met by the world before the last operation of `xfListAssign` -/
example : let w := (run {} (xfListAssign.take 2)).1
    (lookup w.objs 0).map Cont.toks = some [⟨1, 1⟩] ∧ (lookup w.objs 1).map Cont.toks = some [⟨2, 0⟩, ⟨3, 10⟩] ∧
    listCrossCleared w 0 1 = true ∧ crossRefused w 0 1 = false ∧ inContract w (.assign 0 1) = true := by decide

/-- …whereas the same call onto an Array stays outside (exactly the territory of KF-C05-array-assign-partial) -/
example : let w := (run {} (kfArrayAssign.take 2)).1
    crossRefused w 0 1 = true ∧ inContract w (.assign 0 1) = false := by decide

/-! ## Non-vacuity: concrete in-contract histories that exercise every kind of container -/

def demo : List Op :=
  [.new 0 .arr, .push 0 5, .push 0 3, .pushAt 0 1 7, .sort 0, .set 0 0 4, .copy 1 0, .pop 0, .popAt 0 (-1), .rem 0 9,
   .new 2 .lst, .assign 2 1, .pushAt 2 (-1) 2, .resize 2 2, .newMap 3 .table [(1, 10), (17, 20), (1, 11)],
   .mset 3 33 30, .mrem 3 17, .new 4 .tre, .assign 4 3, .mset 4 1 12, .copy 5 4, .del 4, .resize 3 0,
   .new 6 .boxArr, .push 6 41, .push 6 42, .pop 6, .box 7 50, .concat 0 2, .assign 0 0,
   .new 8 .boxLst, .push 8 43, .pushAt 8 0 44, .pushAt 6 5 45, .pushAt 6 0 46, .new 9 .tre, .assign 1 9, .mset 9 3 4,
   .mrem 9 3,
   -- wrong-typed arguments: every one refused, nothing constructed that is not finalised again, nothing changed
   .typed 2 (.push .int), .typed 2 (.pushAt 0 .null), .typed 2 (.set 0 .str), .typed 2 (.rem .type), .typed 0 (.set 0 .float),
   .typed 0 (.pushAt 99 .int), .typed 2 (.concat [.wrong .int, .pay 4]), .typed 2 (.concat [.pay 4, .pay 6]),
   .typed 3 (.mset (.wrong .int) (.pay 1)), .typed 3 (.mset (.pay 33) (.wrong .null)), .typed 3 (.mset (.pay 77) (.wrong .str)),
   .typed 5 (.mset (.pay 1) (.wrong .int)), .typed 5 (.mset (.pay 78) (.wrong .type)), .typed 5 (.mrem .float), .typed 3 (.mrem .int),
   .typed 10 (.newSeq .list [.pay 1, .pay 2, .wrong .int, .pay 3]), .typed 10 (.newMap .table [(.pay 1, .pay 2), (.pay 3, .wrong .int)]),
   .typed 10 (.newMap .tree [(.pay 1, .pay 2), (.pay 1, .pay 5), (.wrong .null, .pay 6)]), .typed 10 (.newSeq .list [.pay 8, .pay 9])]

example : allInContract {} demo := by
  simp only [demo, allInContract]
  decide

/-- the demo history (58 operations over all kinds: probe and Box elements, a refused `push_at` of a Box, self-assignment,
    assignment across the families from an empty source, 17 calls with a wrong-typed element / key / value — all refused —
    and two through the typed route that are accepted) ends with 18 live elements in 10 containers, 29 finalised, and no
    operation was refused as ill-formed -/
example : liveCount (run {} demo).1 = 18 ∧ (run {} demo).1.objs.length = 10 ∧ (run {} demo).1.retiredLog.length = 29 ∧
    (run {} demo).2.all (fun o => !o.bad) = true ∧
    ((run {} demo).2.drop 39).map (fun o => o.out == .ok) =
      [false, false, false, false, false, false, false, true, false, false, false, false, false, false, false, false, false,
       false, true] := by
  decide

/-- the hypotheses of `C05_refused_no_effect_type` are met in the demo world (after the first 39 operations) by a `set`
    on the Tree 5 with an existing key and a wrong-typed value, and by a Tree constructor whose third pair has a NULL key -/
example : let w := (run {} (demo.take 39)).1
    0 < w.next ∧ typedAtomic w 5 (.mset (.pay 1) (.wrong .int)) = true ∧
    (step w (.typed 5 (.mset (.pay 1) (.wrong .int)))).2.bad = false ∧
    typedAtomic w 10 (.newMap .tree [(.pay 1, .pay 2), (.pay 1, .pay 5), (.wrong .null, .pay 6)]) = true ∧
    (step w (.typed 10 (.newMap .tree [(.pay 1, .pay 2), (.pay 1, .pay 5), (.wrong .null, .pay 6)]))).2.bad = false := by
  decide

/-- the hypotheses of `C05_deep_partial` are met in the demo world: container 2 is a List of probes, name 12 is free -/
example : lookup (run {} demo).1.objs 12 = none ∧ (lookup (run {} demo).1.objs 2).isSome = true := by decide

/-! ### the structural models on concrete histories (hypotheses of `C05_moves_*` are met by every reachable state:
    `C05_moves_histories`; here what the runs look like) -/

open Conc in
/-- a Table history with three keys of one hash value (1, 17, 33, 49 ≡ 1 mod 16): clustering and displacement, growth
    5 → 11 slots, replacement of an existing key, `rem` with backward shift and shrink 11 → 5, explicit resize to 53 -/
def demoTable : List MOp :=
  [.set 1 10, .set 17 20, .set 33 30, .set 2 5, .set 49 7, .rem 1, .set 17 21, .set 3 1, .resize 30, .rem 33]

open Conc in
/-- nslots, nitems and the identities finalised, step by step -/
example : (match tableRunC tableCfgNow probeHash 1 (Cello.Table.new tableCfgNow) demoTable with
    | .ok rs => some (rs.map (fun r => (r.val.n, r.val.nitems, r.retired.map (·.id))))
    | .error _ => none) =
  some [(5, 1, []), (5, 2, []), (5, 3, []), (5, 4, []), (11, 5, []), (5, 4, [1, 2]), (5, 4, [3, 4]), (11, 5, []),
        (53, 5, []), (5, 4, [5, 6])] := by decide

open Conc in
/-- a Tree history: seven insertions with rotations, `set` of an existing key (in place), `rem` of the root's key (two
    children: predecessor copy), `rem` of a leaf, a refused resize, `rem` again -/
def demoTree : List MOp :=
  [.set 5 1, .set 3 2, .set 8 3, .set 1 4, .set 4 5, .set 7 6, .set 9 7, .set 5 9, .rem 5, .rem 3, .resize 3, .rem 8]

open Conc in
/-- number of nodes, identities finalised and identities assigned in place, step by step -/
example : (treeRunC 1 treeEmpty demoTree).map (fun rs => rs.map (fun r =>
      ((treeKVs r.val).length, r.retired.map (·.id), r.updated.map (·.id)))) =
  some [(1, [], []), (2, [], []), (3, [], []), (4, [], []), (5, [], []), (6, [], []), (7, [], []), (7, [], [1, 2]),
        (6, [1, 2], []), (5, [3, 4], []), (5, [], []), (4, [5, 6], [])] := by decide

end Cello.Own
