/-
  C05 — containers own their elements: each is finalised exactly once.

  Property theorems only (helper lemmas: CelloProofs/Lemmas/Own*.lean).
  Model: Cello/Own.lean — every operation of Array, List, Table, Tree and Box described by what it does to element
  ownership (`issued` = constructed by `assign` into zero-filled memory, `retired` = passed to `destruct`,
  contents), over a world of named containers with a log of every identity ever constructed / finalised.
  Source-derived facts: CelloGen/Own.lean (which functions of the container sources call destruct / assign / memcpy).

  The property as stated is false on this tree in two places (known findings; the model mirrors them):
    * Box_Assign copies the pointer (F28): containers of Box are copied shallowly, `set` drops the old pointee;
    * List_Resize(n > len) links zero-filled, never constructed elements.
  (A third defect found by this engine — a List_Push_At that raised had already constructed the element and leaked
  it — was repaired in /repo by 4077d96; `C05_list_pushat_old_order_refuted` keeps the witness against the old order.)
  `inContract` excludes exactly these; the theorems named `…_partial` are proved for every history of in-contract
  operations, the full statements are kept as `…_statement` and refuted (`…_refuted`) on concrete witnesses.
-/
import CelloProofs.Lemmas.OwnRefused
import CelloProofs.Lemmas.OwnProfile
import CelloGen.Own

namespace Cello.Own
open List

/-! ## The tie to the source text -/

/-- The ownership-relevant calls of every element-handling function of Array.c, List.c, Table.c, Tree.c and of Box
    (regenerated from /repo on every run) are the ones the model was written against: which functions `destruct`,
    which `assign`, in which order relative to the bounds checks and the byte moves. -/
theorem C05_source_profile : CelloGen.Own.profile = modelledProfile := by decide

/-- …and the container types register these functions under the classes the harness calls them through. -/
theorem C05_source_instances : CelloGen.Own.instances = modelledInstances := by decide

/-! ## Conservation, per container and per operation (all inputs) -/

/-- **Array.c**: push, push_at, pop, pop_at, set, rem, clear/resize, concat, assign/copy, sort — each conserves the
    identities (`contents' + retired ~ contents + issued`) and the identities it hands out are fresh, for every
    array, index, payload and source.  (`set` assumes constructed elements: arrays never hold zero-filled ones.) -/
theorem C05_conservation_array (next : Nat) (xs src : List Tok) (i : Int) (p n : Nat) :
    (let r := seqPush next xs p; Conserves xs r.val r.issued r.retired ∧ FreshFrom next r.issued) ∧
    (let r := arrayPushAt next xs i p; Conserves xs r.val r.issued r.retired ∧ FreshFrom next r.issued) ∧
    (let r := seqPop xs; Conserves xs r.val r.issued r.retired ∧ r.issued = []) ∧
    (let r := seqPopAt xs i; Conserves xs r.val r.issued r.retired ∧ r.issued = []) ∧
    (0 ∉ ids xs → let r := seqSetProbe next xs i p; Conserves xs r.val r.issued r.retired ∧ FreshFrom next r.issued) ∧
    (let r := seqRem xs p; Conserves xs r.val r.issued r.retired ∧ r.issued = []) ∧
    (let r := arrayResize xs n; Conserves xs r.val r.issued r.retired ∧ r.issued = []) ∧
    (let r := seqConcatProbe next xs src; Conserves xs r.val r.issued r.retired ∧ FreshFrom next r.issued) ∧
    (let r := seqAssignProbe next xs src; Conserves xs r.val r.issued r.retired ∧ FreshFrom next r.issued) ∧
    (let r := seqSort xs; Conserves xs r.val r.issued r.retired ∧ r.issued = []) :=
  ⟨cons_seqPush _ _ _, cons_arrayPushAt _ _ _ _, cons_seqPop _, cons_seqPopAt _ _, cons_seqSetProbe _ _ _ _,
   cons_seqRem _ _, cons_arrayResize _ _, cons_seqConcatProbe _ _ _, cons_seqAssignProbe _ _ _, cons_seqSort _⟩

/-- **List.c**: the operations that differ from Array: push_at (every index, accepted or refused) and resize (when it
    does not grow); push, pop, pop_at, set, rem, concat, assign are the same functions as for Array. -/
theorem C05_conservation_list (next : Nat) (xs : List Tok) (i : Int) (p n : Nat) :
    (let r := listPushAt next xs i p; Conserves xs r.val r.issued r.retired ∧ FreshFrom next r.issued) ∧
    (n ≤ xs.length → let r := listResize xs n; Conserves xs r.val r.issued r.retired ∧ r.issued = []) :=
  ⟨cons_listPushAt _ _ _ _, cons_listResize _ _⟩

/-- **Table.c / Tree.c**: set (new key, existing key: replace resp. in place), rem, clear/resize, constructor runs,
    assign/copy — for every map, key, value and source; the identities handed out are fresh. -/
theorem C05_conservation_map (mk : MapKind) (next : Nat) (kvs src : List KV) (k v n : Nat) (ps : List (Nat × Nat))
    (hnext : 0 < next) (hraw : 0 ∉ ids (kvToks kvs)) :
    (let r := mapSet mk next kvs k v; Conserves (kvToks kvs) (kvToks r.val) r.issued r.retired ∧ FreshFrom next r.issued) ∧
    (let r := mapRem kvs k; Conserves (kvToks kvs) (kvToks r.val) r.issued r.retired ∧ r.issued = []) ∧
    (let r := mapResize mk kvs n; Conserves (kvToks kvs) (kvToks r.val) r.issued r.retired ∧ r.issued = []) ∧
    (let r := mapSetMany mk next kvs ps; Conserves (kvToks kvs) (kvToks r.val) r.issued r.retired ∧ FreshFrom next r.issued) ∧
    (let r := mapAssign mk next kvs src; Conserves (kvToks kvs) (kvToks r.val) r.issued r.retired ∧ FreshFrom next r.issued) :=
  ⟨cons_mapSet _ _ _ _ _ hraw, cons_mapRem _ _, cons_mapResize _ _ _, cons_mapSetMany _ _ _ _ hnext hraw,
   cons_mapAssign _ _ _ _ hnext⟩

/-- **C05_conservation** at the level of the world: every in-contract operation, applied in any world that satisfies
    the invariant, conserves identities over *all* containers, hands out fresh identities, logs exactly what it
    constructed and finalised, and re-establishes the invariant. -/
theorem C05_conservation_partial {w : World} (hinv : Inv w) (op : Op) (hin : inContract w op = true) :
    let w' := (step w op).1
    let o := (step w op).2
    allIds w'.objs ++ ids o.retired ~ allIds w.objs ++ ids o.issued ∧
    FreshFrom w.next o.issued ∧
    w'.issuedLog = ids o.issued ++ w.issuedLog ∧ w'.retiredLog = ids o.retired ++ w.retiredLog ∧
    Inv w' := by
  have h := step_ok hinv op hin
  exact ⟨h.cons, h.fresh, h.issued, h.retired, h.inv⟩

/-- the full statement: conservation for *every* operation -/
def C05_conservation_statement : Prop :=
  ∀ (w : World) (op : Op), Inv w →
    allIds (step w op).1.objs ++ ids (step w op).2.retired ~ allIds w.objs ++ ids (step w op).2.issued

/-! ## Histories -/

/-- **C05_history.** For every history of in-contract operations over any number of containers of all kinds
    (mutations, constructors, copies, assignments between containers of the same family, clears, deletions, failing
    calls), in the world `w` it leads to — and hence at every step, a prefix of such a history being one —
      * the elements ever constructed are exactly the finalised ones plus the ones held by the containers
        (live multiset = ⊎ of the container contents),
      * no identity was constructed twice, finalised twice, or is held in two places,
      * nothing finalised is still contained, nothing was finalised that was not constructed;
    and after deleting every container nothing is held and every element ever constructed has been finalised
    exactly once. -/
theorem C05_history_partial (ops : List Op) (h : allInContract {} ops) :
    let w := (run {} ops).1
    (w.issuedLog ~ w.retiredLog ++ allIds w.objs) ∧
    w.issuedLog.Nodup ∧ w.retiredLog.Nodup ∧ (allIds w.objs).Nodup ∧
    (∀ i ∈ w.retiredLog, i ∉ allIds w.objs) ∧ (∀ i ∈ w.retiredLog, i ∈ w.issuedLog) ∧
    (let e := (run w (delAllOps w)).1
     e.objs = [] ∧ e.retiredLog ~ e.issuedLog ∧ e.retiredLog.Nodup ∧ ∀ i ∈ w.issuedLog, i ∈ e.retiredLog) := by
  intro w
  have hinv : Inv w := run_inv inv_init ops h
  refine ⟨hinv.cons, hinv.nodup, inv_retired_nodup hinv, inv_contents_nodup hinv, inv_disjoint hinv,
    fun i hi => hinv.cons.mem_iff.mpr (List.mem_append_left _ hi), ?_⟩
  obtain ⟨hinv', hempty⟩ := run_delAll w hinv
  have hc := hinv'.cons
  rw [hempty] at hc
  simp only [allIds, allToks_nil, ids_nil, List.append_nil] at hc
  refine ⟨hempty, hc.symm, inv_retired_nodup hinv', fun i hi => ?_⟩
  exact hc.mem_iff.mp (run_issued_mono hinv _ (delAll_inContract _ _) i hi)

/-- a prefix of an in-contract history is an in-contract history (so `C05_history_partial` speaks about every step) -/
theorem C05_history_prefix (ops : List Op) (n : Nat) (h : allInContract {} ops) : allInContract {} (ops.take n) := by
  have := (allInContract_append (w := {}) (ops := ops.take n) (ops' := ops.drop n)).mp (by simpa using h)
  exact this.1

/-- number of live elements = sum of the container sizes (a map entry is two elements: key and value) -/
theorem C05_live_count_partial (ops : List Op) (h : allInContract {} ops) :
    let w := (run {} ops).1
    liveCount w = (w.objs.map (fun cx => cx.2.toks.length)).sum ∧
    (∀ c x, lookup w.objs c = some x → x.toks.length = (match x with | .map _ _ => 2 * x.len | _ => x.len)) := by
  intro w
  have hinv : Inv w := run_inv inv_init ops h
  constructor
  · have hl := hinv.cons.length_eq
    simp only [List.length_append] at hl
    have hs : (allIds w.objs).length = (w.objs.map (fun cx => cx.2.toks.length)).sum := by
      simp only [allIds, ids_length, allToks]
      generalize w.objs = objs
      induction objs with
      | nil => rfl
      | cons cx rest ih => simp [ih]
    simp only [liveCount]; omega
  · intro c x _
    cases x with
    | seq k ek xs => rfl
    | map k kvs => simp [Cont.toks, Cont.len]
    | cell t => rfl

/-- the full statement of the history theorem: the same for *every* history -/
def C05_history_statement : Prop :=
  ∀ ops : List Op,
    let w := (run {} ops).1
    (w.issuedLog ~ w.retiredLog ++ allIds w.objs) ∧ (∀ i ∈ w.retiredLog, i ∉ allIds w.objs)

/-! ## Never while contained -/

/-- **C05_never_while_contained.** An element finalised by an in-contract operation is in no container afterwards,
    and never again in the rest of an in-contract history; and what an operation finalises was held by a container
    before the operation or was constructed by this very operation (the argument of a refused insertion into a
    container of Box, which the caller deletes). -/
theorem C05_never_while_contained_partial {w : World} (hinv : Inv w) (op : Op) (hin : inContract w op = true)
    (later : List Op) (hlater : allInContract (step w op).1 later) :
    ∀ t ∈ (step w op).2.retired,
      t.id ∉ allIds (step w op).1.objs ∧ t.id ∉ allIds (run (step w op).1 later).1.objs ∧
      (t.id ∈ allIds w.objs ∨ t.id ∈ ids (step w op).2.issued) := by
  intro t ht
  have hs := step_ok hinv op hin
  have hid : t.id ∈ ids (step w op).2.retired := List.mem_map_of_mem ht
  have hlog : t.id ∈ (step w op).1.retiredLog := by rw [hs.retired]; exact List.mem_append_left _ hid
  refine ⟨inv_disjoint hs.inv _ hlog, ?_, ?_⟩
  · exact inv_disjoint (run_inv hs.inv later hlater) _ (run_retired_mono hs.inv later hlater _ hlog)
  · exact List.mem_append.mp (hs.cons.mem_iff.mp (List.mem_append_right _ hid))

/-- A refused in-contract operation (empty pop, bad index, absent element or key, refused resize) constructs
    nothing, finalises nothing, assigns nothing and leaves every container as it was: no element changes hands on an
    error path.  (The one error path that did — List_Push_At — was repaired by 4077d96, see
    `C05_list_pushat_old_order_refuted`.) -/
theorem C05_refused_no_effect_partial {w : World} (op : Op) (hin : inContract w op = true)
    (hr : (step w op).2.out ≠ .ok) :
    (step w op).2.issued = [] ∧ (step w op).2.retired = [] ∧ (step w op).2.updated = [] ∧
    ∀ e, lookup (step w op).1.objs e = lookup w.objs e := step_refused op hin hr

/-- the full statement, for every operation -/
def C05_never_while_contained_statement : Prop :=
  ∀ (ops : List Op), ∀ i ∈ (run {} ops).1.retiredLog, i ∉ allIds (run {} ops).1.objs

/-! ## Deep copies -/

/-- **C05_deep (copy).** `copy` of a container of probe elements (any kind) constructs exactly one fresh element per
    source element, with the source's payloads, finalises nothing, the new container holds exactly these elements,
    none of which is an element of the source, and the source is unchanged. -/
theorem C05_deep_partial {w : World} (hinv : Inv w) {c d : Nat} {x : Cont}
    (hc : c < maxConts) (hfree : lookup w.objs c = none) (hd : lookup w.objs d = some x) (hbox : x.isBox = false) :
    let w' := (step w (.copy c d)).1
    let o := (step w (.copy c d)).2
    ∃ y, lookup w'.objs c = some y ∧ y.toks ~ o.issued ∧ o.issued.map (·.pay) = x.toks.map (·.pay) ∧
      FreshFrom w.next o.issued ∧ o.retired = [] ∧ lookup w'.objs d = some x ∧
      (∀ i ∈ ids y.toks, i ∉ ids x.toks) := by
  intro w' o
  have hcd : d ≠ c := by intro h; rw [h, hfree] at hd; cases hd
  have hin : inContract w (.copy c d) = true := by simp [inContract, srcIsBox, hd, hbox]
  have hs := step_ok hinv (.copy c d) hin
  have hframe : lookup w'.objs d = some x := by rw [← hd]; exact step_frame w (.copy c d) hcd
  have hguard : ¬ (c ≥ maxConts ∨ (lookup w.objs c).isSome = true) := by simp [hfree]; exact hc
  -- the new elements are fresh, the source's are old
  have hdisj : ∀ y : Cont, lookup w'.objs c = some y → y.toks ~ o.issued → ∀ i ∈ ids y.toks, i ∉ ids x.toks := by
    intro y _ hy i hi hix
    have h1 : i ∈ ids o.issued := (ids_perm hy).mem_iff.mp hi
    have h2 := (hs.fresh.ge i h1).1
    have h3 : i ∈ w.issuedLog := hinv.cons.mem_iff.mpr (List.mem_append_right _ (ids_sub_allIds hd i hix))
    have := (hinv.bound i h3).2
    omega
  cases x with
  | cell t => simp [Cont.isBox] at hbox
  | seq k ek src =>
    cases ek with
    | box => simp [Cont.isBox] at hbox
    | probe =>
      have hw' : w' = (commitSeq w c k .probe (seqAssignProbe w.next [] src) [c, d]).1 := by
        simp only [w', step, hguard, if_false, hd]
      have ho : o = (commitSeq w c k .probe (seqAssignProbe w.next [] src) [c, d]).2 := by
        simp only [o, step, hguard, if_false, hd]
      have hiss : o.issued = mkFresh w.next (src.map (·.pay)) := by rw [ho]; rfl
      have hret : o.retired = [] := by rw [ho]; simp [commitSeq, commit, seqAssignProbe, Res.unit]
      have hlk : lookup w'.objs c = some (.seq k .probe (mkFresh w.next (src.map (·.pay)))) := by
        rw [hw']; simp only [commitSeq, commit_objs]; exact lookup_objsAfter_self _ _ _
      refine ⟨_, hlk, by rw [hiss]; exact Perm.refl _, by rw [hiss]; simp [pays_mkFresh, Cont.toks],
        hs.fresh, hret, hframe, hdisj _ hlk (by rw [hiss]; exact Perm.refl _)⟩
  | map k src =>
    have hkeys := inv_keys hinv hd
    have hw' : w' = (commitMap w c k (mapAssign k w.next [] src) [c, d]).1 := by
      simp only [w', step, hguard, if_false, hd]
    have ho : o = (commitMap w c k (mapAssign k w.next [] src) [c, d]).2 := by
      simp only [o, step, hguard, if_false, hd]
    have hpairs : ((src.map (fun kv => (kv.1.pay, kv.2.pay))).map (·.1)).Nodup := by
      simpa [keys, List.map_map, Function.comp_def] using hkeys
    obtain ⟨h1, h2, h3, h4, h5⟩ := mapSetMany_distinct k (src.map (fun kv => (kv.1.pay, kv.2.pay))) w.next []
      (by simp [keys]) hpairs (by simp [keys])
    have hiss : o.issued = (mapAssign k w.next [] src).issued := by rw [ho]; rfl
    have hret : o.retired = [] := by
      rw [ho]; simp [commitMap, commit, mapAssign, Res.unit, h2]
    have hlk : lookup w'.objs c = some (.map k (mapAssign k w.next [] src).val) := by
      rw [hw']; simp only [commitMap, commit_objs]; exact lookup_objsAfter_self _ _ _
    have hperm : (Cont.map k (mapAssign k w.next [] src).val).toks ~ o.issued := by
      rw [hiss]; simpa [Cont.toks, mapAssign] using h5
    refine ⟨_, hlk, hperm, ?_, hs.fresh, hret, hframe, hdisj _ hlk hperm⟩
    rw [hiss]
    simp only [mapAssign, h1, Cont.toks, kvToks]
    simp [List.flatMap_map, List.map_flatMap]

/-- **C05_deep (assign).** `assign(c, d)` between two different containers of the same family (Array↔List, Table↔Tree,
    probe elements) finalises exactly what `c` held, constructs one fresh element per element of `d` with the same
    payloads, after which `c` holds exactly these, none of them an element of `d`, and `d` is unchanged. -/
theorem C05_deep_assign_partial {w : World} (hinv : Inv w) {c d : Nat} {x y : Cont} (hcd : c ≠ d)
    (hc : lookup w.objs c = some y) (hd : lookup w.objs d = some x) (hbx : x.isBox = false) (hby : y.isBox = false)
    (hfam : (∃ k ek xs k' ek' ys, y = .seq k ek xs ∧ x = .seq k' ek' ys) ∨ (∃ k kvs k' src, y = .map k kvs ∧ x = .map k' src)) :
    let w' := (step w (.assign c d)).1
    let o := (step w (.assign c d)).2
    ∃ z, lookup w'.objs c = some z ∧ z.toks ~ o.issued ∧ o.issued.map (·.pay) = x.toks.map (·.pay) ∧
      FreshFrom w.next o.issued ∧ o.retired = y.toks ∧ lookup w'.objs d = some x ∧
      (∀ i ∈ ids z.toks, i ∉ ids x.toks) := by
  intro w' o
  have hin : inContract w (.assign c d) = true := by simp [inContract, srcIsBox, hd, hbx]
  have hs := step_ok hinv (.assign c d) hin
  have hframe : lookup w'.objs d = some x := by rw [← hd]; exact step_frame w (.assign c d) (Ne.symm hcd)
  have hdisj : ∀ z : Cont, z.toks ~ o.issued → ∀ i ∈ ids z.toks, i ∉ ids x.toks := by
    intro z hz i hi hix
    have h1 : i ∈ ids o.issued := (ids_perm hz).mem_iff.mp hi
    have h2 := (hs.fresh.ge i h1).1
    have h3 : i ∈ w.issuedLog := hinv.cons.mem_iff.mpr (List.mem_append_right _ (ids_sub_allIds hd i hix))
    have := (hinv.bound i h3).2
    omega
  rcases hfam with ⟨k, ek, xs, k', ek', src, rfl, rfl⟩ | ⟨k, kvs, k', src, rfl, rfl⟩
  · cases ek' with
    | box => simp [Cont.isBox] at hbx
    | probe =>
      cases ek with
      | box => simp [Cont.isBox] at hby
      | probe =>
        have hw' : w' = (commitSeq w c k .probe (seqAssignProbe w.next xs src) [c, d] false).1 := by
          simp only [w', step, hc, hd, hcd, if_false]; rfl
        have ho : o = (commitSeq w c k .probe (seqAssignProbe w.next xs src) [c, d] false).2 := by
          simp only [o, step, hc, hd, hcd, if_false]; rfl
        have hiss : o.issued = mkFresh w.next (src.map (·.pay)) := by rw [ho]; rfl
        have hret : o.retired = xs := by rw [ho]; simp [commitSeq, commit, seqAssignProbe, Res.unit]
        have hlk : lookup w'.objs c = some (.seq k .probe (mkFresh w.next (src.map (·.pay)))) := by
          rw [hw']; simp only [commitSeq, commit_objs]; exact lookup_objsAfter_self _ _ _
        exact ⟨_, hlk, by rw [hiss]; exact Perm.refl _, by rw [hiss]; simp [pays_mkFresh, Cont.toks],
          hs.fresh, hret, hframe, hdisj _ (by rw [hiss]; exact Perm.refl _)⟩
  · have hkeys := inv_keys hinv hd
    have hw' : w' = (commitMap w c k (mapAssign k w.next kvs src) [c, d]).1 := by
      simp only [w', step, hc, hd, hcd, if_false]
    have ho : o = (commitMap w c k (mapAssign k w.next kvs src) [c, d]).2 := by
      simp only [o, step, hc, hd, hcd, if_false]
    have hpairs : ((src.map (fun kv => (kv.1.pay, kv.2.pay))).map (·.1)).Nodup := by
      simpa [keys, List.map_map, Function.comp_def] using hkeys
    obtain ⟨h1, h2, h3, h4, h5⟩ := mapSetMany_distinct k (src.map (fun kv => (kv.1.pay, kv.2.pay))) w.next []
      (by simp [keys]) hpairs (by simp [keys])
    have hiss : o.issued = (mapAssign k w.next kvs src).issued := by rw [ho]; rfl
    have hret : o.retired = kvToks kvs := by
      rw [ho]; simp [commitMap, commit, mapAssign, Res.unit, h2]
    have hlk : lookup w'.objs c = some (.map k (mapAssign k w.next kvs src).val) := by
      rw [hw']; simp only [commitMap, commit_objs]; exact lookup_objsAfter_self _ _ _
    have hperm : (Cont.map k (mapAssign k w.next kvs src).val).toks ~ o.issued := by
      rw [hiss]; simpa [Cont.toks, mapAssign] using h5
    refine ⟨_, hlk, hperm, ?_, hs.fresh, hret, hframe, hdisj _ hperm⟩
    rw [hiss]
    simp only [mapAssign, h1, Cont.toks, kvToks]
    simp [List.flatMap_map, List.map_flatMap]

/-- **C05_deep (independence).** Whatever is done to other containers — in contract or not — a container that no
    operation of the history is applied to is the same value afterwards; in particular mutating or deleting a copy
    never changes the original and vice versa. -/
theorem C05_deep_independent (w : World) (ops : List Op) (d : Nat) (h : ∀ op ∈ ops, op.target ≠ d) :
    lookup (run w ops).1.objs d = lookup w.objs d := run_frame w ops d h

/-- …and no in-contract operation finalises an element of a container it is not applied to. -/
theorem C05_deep_no_foreign_finalise {w : World} (hinv : Inv w) (op : Op) (hin : inContract w op = true)
    {e : Nat} {x : Cont} (he : e ≠ op.target) (hl : lookup w.objs e = some x) :
    ∀ t ∈ (step w op).2.retired, t.id ∉ ids x.toks := by
  intro t ht hx
  have hs := step_ok hinv op hin
  have hl' : lookup (step w op).1.objs e = some x := by rw [← hl]; exact step_frame w op he
  have h1 : t.id ∈ allIds (step w op).1.objs := ids_sub_allIds hl' _ hx
  have h2 : t.id ∈ (step w op).1.retiredLog := by
    rw [hs.retired]; exact List.mem_append_left _ (List.mem_map_of_mem ht)
  exact inv_disjoint hs.inv _ h2 h1

/-- the full statement of deep copying, for every kind of element -/
def C05_deep_statement : Prop :=
  ∀ (ops : List Op) (c d : Nat), lookup (run {} ops).1.objs c = none → c < maxConts →
    ∀ x, lookup (run {} ops).1.objs d = some x →
      ∀ y, lookup (step (run {} ops).1 (.copy c d)).1.objs c = some y → ∀ i ∈ ids y.toks, i ∉ ids x.toks

/-! ## Known findings: the model, which mirrors the code, violates the full statements -/

/-- Array of Box: push two, copy, delete the original -/
def kfBoxCopy : List Op := [.new 0 .boxArr, .push 0 1, .push 0 2, .copy 1 0, .del 0]
/-- List: resize an empty list to 3 -/
def kfListResize : List Op := [.new 0 .lst, .resize 0 3]
/-- Array of Box: `set` over a stored Box -/
def kfBoxSet : List Op := [.new 0 .boxArr, .push 0 1, .set 0 0 5]

/-- F28: after copying an Array of Box the copy holds the *same* elements as the original… -/
theorem C05_deep_refuted : ¬ C05_deep_statement := by
  intro h
  have := h [.new 0 .boxArr, .push 0 1, .push 0 2] 1 0 (by decide) (by decide)
    (.seq .array .box [⟨1, 1⟩, ⟨2, 2⟩]) rfl (.seq .array .box [⟨1, 1⟩, ⟨2, 2⟩]) rfl 1 (by decide)
  exact this (by decide)

/-- …so deleting the original finalises elements that the copy still contains. -/
theorem C05_never_while_contained_refuted : ¬ C05_never_while_contained_statement := by
  intro h
  exact h kfBoxCopy 1 (by decide) (by decide)

/-- `set` on a stored Box constructs nothing in the container's name and finalises nothing, yet the old pointee leaves
    the container: conservation fails -/
theorem C05_conservation_refuted : ¬ C05_conservation_statement := by
  intro h
  have hinv : Inv (run {} [.new 0 .boxArr, .push 0 1]).1 := run_inv inv_init _ ⟨rfl, rfl, trivial⟩
  have := (h _ (.set 0 0 5) hinv).length_eq
  revert this; decide

/-- the history statement fails as well: after `set` on a stored Box a constructed element is neither finalised nor
    contained -/
theorem C05_history_refuted : ¬ C05_history_statement := by
  intro h
  have := (h kfBoxSet).1.length_eq
  revert this; decide

/-- List_Push_At as it was before fix 4077d96: `List_Alloc` + `assign` first, the index check (`List_At`) afterwards -/
def listPushAtOldOrder (next : Nat) (xs : List Tok) (i : Int) (p : Nat) : Res (List Tok) :=
  let t : Tok := ⟨next, p⟩
  if i = 0 then { val := t :: xs, issued := [t] }
  else
    let n : Int := xs.length
    let j : Int := if i < 0 then n + i else i
    if j < 0 ∨ j ≥ n then { val := xs, issued := [t], out := .raised .indexOutOfBounds }
    else { val := xs.insertIdx j.toNat t, issued := [t] }

/-- the repaired defect: with the old order a refused push_at had constructed an element that was neither stored nor
    finalised (regression witness `corpus/own_list_pushat.ops`); the present order conserves (`C05_conservation_list`) -/
theorem C05_list_pushat_old_order_refuted :
    let r := listPushAtOldOrder 2 [⟨1, 1⟩] 5 9
    r.out = .raised .indexOutOfBounds ∧ ¬ Conserves [⟨1, 1⟩] r.val r.issued r.retired := by
  refine ⟨by decide, fun h => ?_⟩
  have := h.length_eq
  revert this; decide

/-- List_Resize growing a list: the list reports 3 elements, none was ever constructed -/
theorem C05_live_count_list_resize_refuted :
    let w := (run {} kfListResize).1
    liveCount w = 0 ∧ (w.objs.map (fun cx => cx.2.len)).sum = 3 := by decide

/-- `set` on a stored Box drops the old pointee: it stays live and is in no container -/
theorem C05_box_set_refuted :
    let w := (run {} kfBoxSet).1
    liveCount w = 2 ∧ (allIds w.objs).length = 1 ∧ w.retiredLog = [] := by decide

/-! ## Non-vacuity: concrete in-contract histories that exercise every kind of container -/

def demo : List Op :=
  [.new 0 .arr, .push 0 5, .push 0 3, .pushAt 0 1 7, .sort 0, .set 0 0 4, .copy 1 0, .pop 0, .popAt 0 (-1), .rem 0 9,
   .new 2 .lst, .assign 2 1, .pushAt 2 (-1) 2, .resize 2 2, .newMap 3 .table [(1, 10), (17, 20), (1, 11)],
   .mset 3 33 30, .mrem 3 17, .new 4 .tre, .assign 4 3, .mset 4 1 12, .copy 5 4, .del 4, .resize 3 0,
   .new 6 .boxArr, .push 6 41, .push 6 42, .pop 6, .box 7 50, .concat 0 2, .assign 0 0]

example : allInContract {} demo := by
  simp only [demo, allInContract]
  decide

/-- the demo history ends with 11 live elements in 7 containers, 20 finalised, and no operation was refused as ill-formed -/
example : liveCount (run {} demo).1 = 11 ∧ (run {} demo).1.objs.length = 7 ∧ (run {} demo).1.retiredLog.length = 20 ∧
    (run {} demo).2.all (fun o => !o.bad) = true := by
  decide

/-- the hypotheses of `C05_deep_partial` are met in the demo world: container 1 is an Array of probes, name 9 is free -/
example : lookup (run {} demo).1.objs 9 = none ∧ (lookup (run {} demo).1.objs 1).isSome = true := by decide

end Cello.Own
